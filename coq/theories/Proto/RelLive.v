(* C01/C03/C04 — liveness in the hole-free, unfragmented class (stage 1): KEEP_ALL, no removal, no
   deletion, every sample fits one DATA submessage.  After a heartbeat period (5 ticks) any loss-free
   delivery that drains the network leaves the reliable reader with every relevant change. *)
From DustDDS Require Import Base.Machine Proto.RelModel Proto.RelProofs Proto.RelSound.
Open Scope Z_scope.

(* ------------------------------------------------------------------ the writer, heartbeat counts *)
Definition unfrag (cf : cfg) (chs : list change) : Prop := forall c, In c chs -> nfrags cf c <= 1.

Lemma filter_len_le {A} (f : A -> bool) l : (length (filter f l) <= length l)%nat.
Proof. induction l as [|x t IH]; cbn; [lia|]. destruct (f x); cbn; lia. Qed.

(* what write_message_reliable emits: DATA+HEARTBEAT, GAP, HEARTBEAT; every heartbeat is fresh *)
Definition hsub (lo hi last : Z) (m : submsg) : Prop :=
  match m with
  | SHb f l c => lo < c <= hi /\ f = 1 /\ l = last
  | SFrag _ _ | SAck _ _ _ | SNack _ _ _ _ => False
  | _ => True
  end.
Definition hdg (lo hi last : Z) (d : dgram) : Prop := dg_toR d = true /\ Forall (hsub lo hi last) (dg_subs d).

Lemma hdg_mono lo lo' hi hi' last d : lo' <= lo -> hi <= hi' -> hdg lo hi last d -> hdg lo' hi' last d.
Proof.
  intros A B [T H]. split; [assumption|]. eapply Forall_impl; [|exact H]. intros m. destruct m; cbn; try tauto. lia.
Qed.

Definition has_hb (c last : Z) (l : list dgram) : Prop := exists d, In d l /\ In (SHb 1 last c) (dg_subs d).

Lemma unsent_rel_live last fuel cf now chs : Contig chs last -> unfrag cf chs ->
  forall p acc lo, 0 <= rp_hs p <= last -> (last - rp_hs p <= Z.of_nat fuel) ->
  lo <= rp_hbc p -> Forall (hdg lo (rp_hbc p) last) acc ->
  (lo < rp_hbc p -> has_hb (rp_hbc p) last acc) ->
  let r := unsent_rel fuel cf now chs p acc in
  rp_hs (fst r) = last /\ rp_hbc p <= rp_hbc (fst r) /\
  Forall (hdg lo (rp_hbc (fst r)) last) (snd r) /\
  (lo < rp_hbc (fst r) -> has_hb (rp_hbc (fst r)) last (snd r)) /\
  ((rp_hbc p = rp_hbc (fst r) /\ rp_hbt (fst r) = rp_hbt p) \/ (rp_hbc p < rp_hbc (fst r) /\ rp_hbt (fst r) = now)) /\
  (rp_hs p < last -> rp_fr p < last -> rp_hbc p < rp_hbc (fst r)).
Proof.
  intros Hc Hu. induction fuel as [|f IH]; intros p acc lo Hhs Hfuel Hlo Ha Hhb; cbn [unsent_rel].
  { cbn. repeat split; try lia; try assumption; try (left; reflexivity). }
  rewrite (contig_next_unsent chs last p Hc) by lia.
  destruct (Z.ltb_spec (rp_hs p) last) as [Hlt|Hge].
  2:{ cbn. repeat split; try lia; try assumption; try (left; reflexivity). }
  assert (rp_hs p + 1 <? rp_hs p + 1 = false) as -> by (apply Z.ltb_ge; lia).
  assert (Hin : In (rp_hs p + 1) (sns chs)) by (apply (contig_in chs last _ Hc); lia).
  assert (Hhbv : first_sn chs = 1 /\ last_sn chs = last) by (split; [eapply contig_first|eapply contig_last]; eassumption).
  destruct (lookup_relevant p (rp_hs p + 1) chs) as [c|] eqn:El.
  - unfold gen_hb. destruct Hhbv as [-> ->].
    apply lookup_relevant_in in El. destruct El as (Hcin & _ & _).
    assert (1 <? nfrags cf c = false) as -> by (apply Z.ltb_ge; apply Hu; assumption).
    match goal with |- context [unsent_rel f cf now chs ?q ?a] => specialize (IH q a lo) end.
    cbn [rp_hs rp_hbc rp_hbt rp_fr set_hs fst snd] in IH.
    destruct (Z.ltb_spec (rp_hs p) (rp_hs p + 1)); [|lia].
    destruct IH as (A & B & C & D & E & F); try lia.
    + apply Forall_app; split.
      * eapply Forall_impl; [|exact Ha]. intros d. apply hdg_mono; lia.
      * constructor; [|constructor]. split; [reflexivity|]. cbn. constructor; [exact I|]. constructor; [|constructor]. cbn. lia.
    + intros _. exists (toR [SData c; SHb 1 last (rp_hbc p + 1)]). split; [apply in_or_app; right; left; reflexivity|].
      cbn. right. left. reflexivity.
    + repeat split; try assumption; try lia.
  - apply lookup_relevant_none in El; [|assumption].
    match goal with |- context [unsent_rel f cf now chs ?q ?a] => specialize (IH q a lo) end.
    cbn [rp_hs rp_hbc rp_hbt rp_fr set_hs fst snd] in IH.
    destruct (Z.ltb_spec (rp_hs p) (rp_hs p + 1)); [|lia].
    destruct IH as (A & B & C & D & E & F); try lia; try assumption.
    + apply Forall_app; split; [assumption|].
      constructor; [|constructor]. split; [reflexivity|]. cbn. constructor; [exact I|constructor].
    + intros Hl. destruct (Hhb Hl) as [d [Hd Hs]]. exists d. split; [apply in_or_app; left; assumption|assumption].
    + repeat split; try assumption. intros H1 H2. apply F; lia.
Qed.

Lemma req_loop_live last fuel cf now chs : Contig chs last -> unfrag cf chs ->
  forall p acc lo, Forall (fun n => 1 <= n <= last) (rp_req p) ->
  lo <= rp_hbc p -> Forall (hdg lo (rp_hbc p) last) acc ->
  (lo < rp_hbc p -> has_hb (rp_hbc p) last acc) ->
  (Z.of_nat (length (rp_req p)) < Z.of_nat fuel) ->
  let r := req_loop fuel cf now chs p acc in
  rp_hbc p <= rp_hbc (fst r) /\
  Forall (hdg lo (rp_hbc (fst r)) last) (snd r) /\
  (lo < rp_hbc (fst r) -> has_hb (rp_hbc (fst r)) last (snd r)) /\
  ((rp_hbc p = rp_hbc (fst r) /\ rp_hbt (fst r) = rp_hbt p) \/ (rp_hbc p < rp_hbc (fst r) /\ rp_hbt (fst r) = now)) /\
  ((exists n, In n (rp_req p) /\ rp_fr p < n) -> rp_hbc p < rp_hbc (fst r)).
Proof.
  intros Hc Hu. induction fuel as [|f IH]; intros p acc lo Hreq Hlo Ha Hhb Hfuel; cbn [req_loop].
  { lia. }
  destruct (zmin_list (rp_req p)) as [n|] eqn:En.
  2:{ apply zmin_list_none in En. cbn. repeat split; try lia; try assumption; try (left; reflexivity).
      intros [n [Hn _]]. rewrite En in Hn. contradiction. }
  apply zmin_list_spec in En. destruct En as [Hn Hmin].
  assert (Hnr : 1 <= n <= last) by (rewrite Forall_forall in Hreq; auto).
  assert (Hin : In n (sns chs)) by (apply (contig_in chs last _ Hc); lia).
  assert (Hhbv : first_sn chs = 1 /\ last_sn chs = last) by (split; [eapply contig_first|eapply contig_last]; eassumption).
  set (p0 := set_req p (filter (fun s => negb (s =? n)) (rp_req p))).
  assert (E1 : rp_hbc p0 = rp_hbc p) by reflexivity.
  assert (E2 : rp_hbt p0 = rp_hbt p) by reflexivity.
  assert (E3 : rp_fr p0 = rp_fr p) by reflexivity.
  assert (Hreq0 : Forall (fun n => 1 <= n <= last) (rp_req p0)) by (subst p0; cbn; apply Forall_filter; assumption).
  assert (Hlen0 : Z.of_nat (length (rp_req p0)) < Z.of_nat f).
  { subst p0. cbn [rp_req set_req].
    assert (length (filter (fun s => negb (Z.eqb s n)) (rp_req p)) < length (rp_req p))%nat; [|lia].
    clear - Hn. induction (rp_req p) as [|x t IHt]; [contradiction|]. cbn.
    destruct (Z.eqb_spec x n) as [->|Hne]; cbn.
    - pose proof (filter_len_le (fun s => negb (Z.eqb s n)) t). lia.
    - destruct Hn as [Hx|Hn]; [congruence|]. specialize (IHt Hn). lia. }
  destruct (lookup_relevant p0 n chs) as [c|] eqn:El.
  - unfold gen_hb. destruct Hhbv as [-> ->].
    apply lookup_relevant_in in El. destruct El as (Hcin & _ & _).
    assert (1 <? nfrags cf c = false) as -> by (apply Z.ltb_ge; apply Hu; assumption).
    match goal with |- context [req_loop f cf now chs ?q ?a] => specialize (IH q a lo) end.
    cbn [rp_req rp_hbc rp_hbt rp_fr fst snd] in IH.
    assert (Hacc : Forall (hdg lo (rp_hbc p0 + 1) last) (acc ++ [toR [SData c; SHb 1 last (rp_hbc p0 + 1)]])).
    { apply Forall_app; split.
      - eapply Forall_impl; [|exact Ha]. intros d. apply hdg_mono; lia.
      - constructor; [|constructor]. split; [reflexivity|]. cbn. constructor; [exact I|]. constructor; [|constructor]. cbn. lia. }
    assert (Hhb1 : lo < rp_hbc p0 + 1 -> has_hb (rp_hbc p0 + 1) last (acc ++ [toR [SData c; SHb 1 last (rp_hbc p0 + 1)]])).
    { intros _. exists (toR [SData c; SHb 1 last (rp_hbc p0 + 1)]). split; [apply in_or_app; right; left; reflexivity|].
      cbn. right. left. reflexivity. }
    assert (Hlo1 : lo <= rp_hbc p0 + 1) by lia.
    destruct (IH Hreq0 Hlo1 Hacc Hhb1 Hlen0) as (A & B & C & D & E).
    repeat split; try assumption; try lia.
  - pose proof El as El'. apply lookup_relevant_none in El'; [|assumption]. rewrite E3 in El'.
    specialize (IH p0 (acc ++ [toR [SGap n (n + 1)]]) lo).
    assert (Hacc : Forall (hdg lo (rp_hbc p0) last) (acc ++ [toR [SGap n (n + 1)]])).
    { apply Forall_app; split; [rewrite E1; assumption|].
      constructor; [|constructor]. split; [reflexivity|]. cbn. constructor; [exact I|constructor]. }
    assert (Hhb1 : lo < rp_hbc p0 -> has_hb (rp_hbc p0) last (acc ++ [toR [SGap n (n + 1)]])).
    { rewrite E1. intros Hl. destruct (Hhb Hl) as [d [Hd Hs]]. exists d. split; [apply in_or_app; left; assumption|assumption]. }
    assert (Hlo1 : lo <= rp_hbc p0) by lia.
    destruct (IH Hreq0 Hlo1 Hacc Hhb1 Hlen0) as (A & B & C & D & E).
    repeat split; try assumption; try lia.
    intros [m [Hm Hfr]]. rewrite <- E1. apply E. exists m. split; [|lia].
    subst p0. cbn [rp_req set_req]. apply filter_In. split; [assumption|]. apply negb_true_iff. apply Z.eqb_neq. lia.
Qed.

Lemma contig_length chs last : Contig chs last -> Z.of_nat (length chs) = last.
Proof.
  intros [Hs H0]. assert (length (sns chs) = length (zrange 1 last)) by (rewrite Hs; reflexivity).
  unfold sns, zrange in H. rewrite !map_length, seq_length in H. lia.
Qed.

Lemma write_rel_live last cf now chs p : Contig chs last -> unfrag cf chs ->
  0 <= rp_hs p <= last -> 0 <= rp_ha p -> Forall (fun n => 1 <= n <= last) (rp_req p) ->
  let r := write_rel cf now chs p in
  rp_hs (fst r) = last /\ rp_hbc p <= rp_hbc (fst r) /\
  Forall (hdg (rp_hbc p) (rp_hbc (fst r)) last) (snd r) /\
  (rp_hbc p < rp_hbc (fst r) -> has_hb (rp_hbc (fst r)) last (snd r)) /\
  ((rp_hbc p = rp_hbc (fst r) /\ rp_hbt (fst r) = rp_hbt p) \/ (rp_hbc p < rp_hbc (fst r) /\ rp_hbt (fst r) = now)) /\
  ((exists n, In n (rp_req p) /\ rp_fr p < n) -> rp_hbc p < rp_hbc (fst r)) /\
  (rp_hs p = last -> rp_ha p < last -> hb_period <= now - rp_hbt p -> rp_hbc p < rp_hbc (fst r)) /\
  (rp_hs p < last -> rp_fr p < last -> rp_hbc p < rp_hbc (fst r)).
Proof.
  intros Hc Hu Hhs Hha Hreq. pose proof (contig_length chs last Hc) as Hlen. unfold write_rel.
  match goal with |- context [let '(p1, out1) := ?X in _] => destruct X as [p1 out1] eqn:E1 end.
  assert (H1 : rp_hs p1 = last /\ rp_hbc p <= rp_hbc p1 /\ Forall (hdg (rp_hbc p) (rp_hbc p1) last) out1 /\
               (rp_hbc p < rp_hbc p1 -> has_hb (rp_hbc p1) last out1) /\
               ((rp_hbc p = rp_hbc p1 /\ rp_hbt p1 = rp_hbt p) \/ (rp_hbc p < rp_hbc p1 /\ rp_hbt p1 = now)) /\
               rp_req p1 = rp_req p /\ rp_fr p1 = rp_fr p /\
               (rp_hs p = last -> rp_ha p < last -> hb_period <= now - rp_hbt p -> rp_hbc p < rp_hbc p1) /\
               (rp_hs p < last -> rp_fr p < last -> rp_hbc p < rp_hbc p1)).
  { rewrite (contig_next_unsent chs last p Hc) in E1 by lia.
    destruct (Z.ltb_spec (rp_hs p) last) as [Hlt|Hge].
    - pose proof (unsent_rel_live last (S (length chs)) cf now chs Hc Hu p [] (rp_hbc p) Hhs) as H.
      lazy zeta in H. rewrite E1 in H. cbn [fst snd] in H.
      destruct H as (A & B & C & D & E & Fst); try lia; [constructor|].
      pose proof (unsent_rel_class (rp_fr p) last (S (length chs)) cf now chs Hc) as H'.
      pose proof (unsent_rel_static (S (length chs)) cf now chs p []) as Hs.
      assert (Hreq1 : rp_req p1 = rp_req p).
      { clear - E1. revert E1. generalize (@nil dgram). generalize (S (length chs)). intros fu. revert p p1 out1.
        induction fu as [|f IH]; intros p p1 out1 acc E; cbn [unsent_rel] in E; [inversion E; reflexivity|].
        destruct (next_unsent p chs) as [n|]; [|inversion E; reflexivity].
        destruct (rp_hs p + 1 <? n); [unfold gen_hb in E; apply IH in E; exact E|].
        destruct (lookup_relevant p n chs) as [c|]; [|apply IH in E; exact E].
        unfold gen_hb in E. destruct (1 <? nfrags cf c); apply IH in E; exact E. }
      rewrite E1 in Hs. cbn [fst] in Hs. apply static_fr in Hs. destruct Hs as (Hfr & _).
      repeat split; try assumption; try lia.
    - assert (Hhs' : rp_hs p = last) by lia.
      destruct (negb (unacked p (zmax_list (sns chs)))) eqn:Eu.
      + injection E1 as <- <-. repeat split; try lia; try constructor.
        intros _ Hlt _. exfalso. apply negb_true_iff in Eu. unfold unacked in Eu.
        destruct (zmax_list (sns chs)) as [m|] eqn:Em.
        * apply zmax_list_spec in Em. destruct Em as [Hin Hall].
          assert (Hl : In last (sns chs)) by (apply (contig_in chs last _ Hc); lia).
          rewrite Forall_forall in Hall. specialize (Hall _ Hl). apply Z.ltb_ge in Eu. lia.
        * apply zmax_list_none in Em. assert (Hl : In last (sns chs)) by (apply (contig_in chs last _ Hc); lia).
          rewrite Em in Hl. contradiction.
      + destruct (time_for_hb p now) eqn:Et; unfold gen_hb in E1; injection E1 as <- <-; cbn.
        * rewrite (contig_first chs last Hc), (contig_last chs last Hc).
          repeat split; try lia.
          -- constructor; [|constructor]. split; [reflexivity|]. cbn. constructor; [|constructor]. cbn. lia.
          -- intros _. exists (toR [SHb 1 last (rp_hbc p + 1)]). split; [left; reflexivity|left; reflexivity].
        * repeat split; try lia; try constructor.
          intros _ _ Hper. unfold time_for_hb in Et. apply Z.leb_gt in Et. lia. }
  destruct H1 as (A & B & C & D & E & F & G & T & U).
  pose proof (req_loop_live last (S (length (rp_req p1))) cf now chs Hc Hu p1 out1 (rp_hbc p)) as H.
  rewrite F in H. specialize (H Hreq B C D). lazy zeta in H. rewrite F.
  destruct H as (H1 & H2 & H3 & H4 & H5); [lia|].
  assert (Hhs1 : rp_hs (fst (req_loop (S (length (rp_req p))) cf now chs p1 out1)) = last).
  { pose proof (req_loop_class (rp_fr p1) last (S (length (rp_req p))) cf now chs Hc) as Hq.
    destruct Hc as [Hc1 Hc2].
    assert (rp_hs (fst (req_loop (S (length (rp_req p))) cf now chs p1 out1)) = rp_hs p1); [|congruence].
    clear. generalize (S (length (rp_req p))). intros fu. revert p1 out1.
    induction fu as [|f IH]; intros p1 out1; cbn [req_loop]; [reflexivity|].
    destruct (zmin_list (rp_req p1)) as [n|]; [|reflexivity].
    match goal with |- context [lookup_relevant ?q n chs] => destruct (lookup_relevant q n chs) as [c|] end.
    - unfold gen_hb. destruct (1 <? nfrags cf c); rewrite IH; reflexivity.
    - rewrite IH. reflexivity. }
  repeat split; try assumption; try lia.
  all: try (intros Hex; rewrite G in H5; specialize (H5 Hex); lia).
  all: try (intros X1 X2 X3; specialize (T X1 X2 X3); lia).
  all: try (intros X1 X2; specialize (U X1 X2); lia).
Qed.

(* ------------------------------------------------------------------ the reader without fragments *)
Lemma take_while_all {A} (f : A -> bool) l : (forall x, In x l -> f x = true) -> take_while f l = l.
Proof.
  induction l as [|x t IH]; intros H; cbn; [reflexivity|]. rewrite (H x (or_introl eq_refl)). f_equal.
  apply IH. intros y Hy. apply H. right. assumption.
Qed.
Lemma find_all_false {A} (f : A -> bool) l : (forall x, In x l -> f x = false) -> find f l = None.
Proof.
  induction l as [|x t IH]; intros H; cbn; [reflexivity|]. rewrite (H x (or_introl eq_refl)).
  apply IH. intros y Hy. apply H. right. assumption.
Qed.

Lemma acknack_of_nofrag cf w : wp_frags w = [] ->
  acknack_of cf w =
  (mkWP (wp_fa w) (wp_la w) (wp_hr w) (wp_hb w) (wp_an w + 1) (wp_nf w + 1) [],
   [SAck (avail_max w + 1) (firstn 256 (missing w)) (wp_an w + 1)]).
Proof.
  intros Hf. unfold acknack_of. cbn [wp_frags wp_hr wp_fa wp_la wp_an wp_nf]. rewrite Hf.
  unfold min_frag_sn. cbn [wp_frags map zmin_list existsb].
  rewrite find_all_false by (intros; reflexivity).
  rewrite take_while_all by (intros; reflexivity). reflexivity.
Qed.

Lemma on_hb_nofrag cf w f l c : wp_frags w = [] ->
  on_hb cf w f l c =
  if wp_hb w <? c then
    (mkWP f l (wp_hr w) c (wp_an w + 1) (wp_nf w + 1) [],
     [toW [SAck (Z.max (f - 1) (wp_hr w) + 1) (firstn 256 (zrange (Z.max f (wp_hr w + 1)) (Z.max l (wp_hr w)))) (wp_an w + 1)]])
  else (w, []).
Proof.
  intros Hf. unfold on_hb. destruct (wp_hb w <? c); [|reflexivity].
  rewrite acknack_of_nofrag by exact Hf. reflexivity.
Qed.

(* ------------------------------------------------------------------ the live-class invariant *)
Definition lsub (hbc last wan : Z) (m : submsg) : Prop :=
  match m with
  | SHb f l c => f = 1 /\ 1 <= c <= hbc /\ (c = hbc -> l = last)
  | SAck b set c => c <= wan
  | SFrag _ _ | SNack _ _ _ _ => False
  | _ => True
  end.
Definition ldg (hbc last wan : Z) (d : dgram) : Prop := Forall (lsub hbc last wan) (dg_subs d).

(* when the heartbeat count does not decrease, old constraints survive (an old "newest" heartbeat is
   simply no longer the newest) *)
Lemma ldg_mono hbc hbc' last wan wan' d :
  hbc <= hbc' -> wan <= wan' -> ldg hbc last wan d -> ldg hbc' last wan' d.
Proof.
  intros A B H. unfold ldg in *. eapply Forall_impl; [|exact H]. intros m.
  destruct m; cbn; try tauto; try lia.
Qed.

(* ... also across a write, provided a newer heartbeat has been generated *)
Lemma ldg_mono_write hbc hbc' last last' wan d :
  hbc < hbc' -> ldg hbc last wan d -> ldg hbc' last' wan d.
Proof.
  intros A H. unfold ldg in *. eapply Forall_impl; [|exact H]. intros m.
  destruct m; cbn; try tauto; try lia.
Qed.

Lemma hdg_ldg lo hi last wan d : 0 <= lo -> hdg lo hi last d -> ldg hi last wan d.
Proof.
  intros H0 [_ H]. unfold ldg. eapply Forall_impl; [|exact H]. intros m. destruct m; cbn; try tauto.
  intros (A & B & C). split; [assumption|]. split; [lia|]. intros _. assumption.
Qed.

Record LOk (strict : bool) (s : state) (p : rproxy) (w : wproxy) : Prop := mkLOk {
  l_hs : strict = true -> rp_hs p = s_last s;
  l_ha0 : 0 <= rp_ha p;
  l_hb : 0 <= wp_hb w <= rp_hbc p;
  l_an : rp_an p <= wp_an w;
  l_la : 0 < rp_hbc p -> wp_hb w = rp_hbc p -> wp_la w = s_last s;
  l_hbt : rp_hbt p <= s_now s;
  l_frags : wp_frags w = [];
  l_net : Forall (ldg (rp_hbc p) (s_last s) (wp_an w)) (s_net s)
}.

Definition LInv (strict : bool) (cf : cfg) (s : state) : Prop :=
  0 <= s_now s /\ unfrag cf (s_changes s) /\ s_rdead s = false /\
  (forall r, s_rd s = Some r -> rd_alive r = true) /\
  forall p r w, s_rp s = Some p -> rp_rel p = true -> s_rd s = Some r -> rd_wp r = Some w -> LOk strict s p w.

Ltac linv_split := split; [|split; [|split; [|split]]].

Lemma LInv_weaken cf s : LInv true cf s -> LInv false cf s.
Proof.
  intros (A & B & C & D & E). linv_split; try assumption. intros p r w H1 H2 H3 H4.
  destruct (E p r w H1 H2 H3 H4). constructor; try assumption. discriminate.
Qed.

(* --- poke *)
Lemma LInv_poke cf s b : CInv s -> LInv b cf s -> LInv true cf (poke cf s).
Proof.
  intros (HS & HN & [A1 A2 A3]) (L1 & L2 & L3 & L4 & L5). unfold poke.
  destruct (s_rp s) as [p|] eqn:Ep.
  2:{ linv_split; try assumption. intros q r w Hq. congruence. }
  destruct A3 as (Hfr & Hhs & Hreq & Hnet & Hrd).
  unfold write_message. destruct (rp_rel p) eqn:Erel.
  2:{ pose proof (write_be_static (S (length (s_changes s))) cf (s_changes s) p []) as Hs.
      destruct (write_be_loop (S (length (s_changes s))) cf (s_changes s) p []) as [p1 out]. cbn [fst] in Hs.
      apply static_fr in Hs. destruct Hs as (_ & Hrel & _).
      linv_split; try assumption. intros q r w Hq Hqrel. cbn in Hq. inversion Hq; subst. congruence. }
  unfold ROk in Hrd.
  destruct (s_rd s) as [r|] eqn:Er.
  2:{ destruct (write_rel cf (s_now s) (s_changes s) p) as [p1 out].
      linv_split; cbn; try rewrite Er; try assumption. intros q r w _ _ Hr. discriminate. }
  destruct (rd_wp r) as [w|] eqn:Ew.
  2:{ destruct (write_rel cf (s_now s) (s_changes s) p) as [p1 out].
      linv_split; cbn; try rewrite Er; try assumption. intros q r' w _ _ Hr Hw. inversion Hr; subst. congruence. }
  destruct (L5 p r w eq_refl Erel eq_refl Ew) as [K1 K2 K3 K4 K5 K6 K7 K8].
  pose proof (write_rel_live (s_last s) cf (s_now s) (s_changes s) p) as H. rewrite A1 in H.
  specialize (H A2). rewrite <- A1 in H. specialize (H L2 Hhs K2 Hreq). lazy zeta in H.
  pose proof (write_rel_ha cf (s_now s) (s_changes s) p) as Hha.
  pose proof (write_rel_class (rp_fr p) (s_last s) cf (s_now s) (s_changes s) p) as Hcl. rewrite A1 in Hcl.
  specialize (Hcl A2 (proj1 Hfr) eq_refl Hhs Hreq). lazy zeta in Hcl. rewrite <- A1 in Hcl.
  destruct (write_rel cf (s_now s) (s_changes s) p) as [p1 out]. cbn [fst snd] in *.
  destruct H as (W1 & W2 & W3 & W4 & W5 & _).
  destruct Hcl as (_ & _ & _ & Hst & _ & Han & _).
  linv_split; cbn; try rewrite Er; try assumption.
  intros q r' w' Hq Hqrel Hr' Hw'. inversion Hq; subst q. inversion Hr'; subst r'.
  assert (w' = w) by congruence. subst w'.
  constructor; cbn.
  - intros _. assumption.
  - lia.
  - lia.
  - lia.
  - intros H0 Heq. destruct (Z.eq_dec (rp_hbc p) (rp_hbc p1)) as [E|E]; [apply K5; lia|lia].
  - destruct W5 as [[_ ->]|[_ ->]]; lia.
  - assumption.
  - apply Forall_app; split.
    + eapply Forall_impl; [|exact K8]. intros d. apply ldg_mono; lia.
    + apply Forall_filter. eapply Forall_impl; [|exact W3]. intros d. apply hdg_ldg. lia.
Qed.

(* --- delivery to the reader *)
Definition RL (hbc last : Z) (w : wproxy) : Prop :=
  0 <= wp_hb w <= hbc /\ (0 < hbc -> wp_hb w = hbc -> wp_la w = last) /\ wp_frags w = [].

Lemma on_data_fields rel w c w1 oc : on_data rel w c = (w1, oc) ->
  wp_hb w1 = wp_hb w /\ wp_an w1 = wp_an w /\ wp_la w1 = wp_la w /\ (wp_frags w = [] -> wp_frags w1 = []).
Proof.
  unfold on_data. destruct rel.
  - destruct (_ =? _); intros E; inversion E; subst; cbn; repeat split; try reflexivity; intros ->; reflexivity.
  - destruct (_ <=? _); [|intros E; inversion E; subst; repeat split; auto].
    destruct (_ <? _); intros E; inversion E; subst; cbn; repeat split; try reflexivity; intros ->; reflexivity.
Qed.

Lemma deliver_sub_R_live hbc last wan cf r w m r1 out :
  rd_wp r = Some w -> RL hbc last w -> lsub hbc last wan m ->
  deliver_sub_R cf r m = (r1, out) ->
  exists w1, rd_wp r1 = Some w1 /\ rd_alive r1 = rd_alive r /\ rd_rel r1 = rd_rel r /\ RL hbc last w1 /\
     wp_an w <= wp_an w1 /\ Forall (ldg hbc last (wp_an w1)) out.
Proof.
  intros Ew (R1 & R2 & R3) Hm E. unfold deliver_sub_R in E. rewrite Ew in E.
  destruct m as [c|c k|a b|f l c| |]; cbn in Hm; try contradiction.
  - destruct (on_data (rd_rel r) w c) as [w1 oc] eqn:Ed. inversion E; subst.
    destruct (on_data_fields _ _ _ _ _ Ed) as (F1 & F2 & F3 & F4).
    exists w1. destruct (rd_present_proj r w1 oc) as [P1 P2].
    refine (conj P1 (conj _ (conj _ (conj _ (conj _ _))))); try (destruct oc; reflexivity); try constructor; try lia.
    unfold RL. rewrite F1, F3. repeat split; try lia; auto.
  - inversion E; subst. exists (on_gap w a b). cbn [rd_present rd_wp rd_alive rd_rel].
    assert (F : wp_hb (on_gap w a b) = wp_hb w /\ wp_an (on_gap w a b) = wp_an w /\ wp_la (on_gap w a b) = wp_la w /\
                wp_frags (on_gap w a b) = wp_frags w).
    { unfold on_gap. destruct (_ && _); cbn; tauto. }
    destruct F as (F1 & F2 & F3 & F4).
    refine (conj eq_refl (conj eq_refl (conj eq_refl (conj _ (conj _ _))))); try constructor; try lia.
    unfold RL. rewrite F1, F3, F4. repeat split; try lia; auto.
  - destruct Hm as [Hf1 [Hc1 Hc2]]. destruct (on_hb cf w f l c) as [w1 o] eqn:Eh.
    rewrite (on_hb_nofrag cf w f l c R3) in Eh.
    assert (Hr1 : rd_wp r1 = Some w1 /\ rd_alive r1 = rd_alive r /\ rd_rel r1 = rd_rel r /\ out = o).
    { destruct (hist_received (rd_wp (rd_present r w1 None))); inversion E; subst; cbn; auto. }
    destruct Hr1 as (Q1 & Q2 & Q3 & ->). exists w1.
    destruct (Z.ltb_spec (wp_hb w) c) as [Hlt|Hge]; inversion Eh; subst w1 o.
    + refine (conj Q1 (conj Q2 (conj Q3 (conj _ (conj _ _))))); cbn [wp_an].
      * unfold RL; cbn. repeat split; try lia.
      * lia.
      * constructor; [|constructor]. unfold ldg; cbn. constructor; [cbn; lia|constructor].
    + refine (conj Q1 (conj Q2 (conj Q3 (conj _ (conj _ _))))); [unfold RL; tauto|lia|constructor].
  - inversion E; subst. exists w.
    refine (conj Ew (conj eq_refl (conj eq_refl (conj _ (conj _ _))))); [unfold RL; tauto|lia|constructor].
Qed.

Lemma deliver_subs_R_live hbc last wan cf l : forall r w acc r1 out,
  rd_wp r = Some w -> RL hbc last w -> Forall (lsub hbc last wan) l ->
  Forall (ldg hbc last (wp_an w)) acc ->
  deliver_subs_R cf r l acc = (r1, out) ->
  exists w1, rd_wp r1 = Some w1 /\ rd_alive r1 = rd_alive r /\ rd_rel r1 = rd_rel r /\ RL hbc last w1 /\
     wp_an w <= wp_an w1 /\ Forall (ldg hbc last (wp_an w1)) out.
Proof.
  induction l as [|m t IH]; intros r w acc r1 out Ew HR Hl Ha E; cbn in E.
  - inversion E; subst. exists w. refine (conj Ew (conj eq_refl (conj eq_refl (conj HR (conj _ Ha))))). lia.
  - inversion Hl; subst. destruct (deliver_sub_R cf r m) as [r' o] eqn:Em.
    destruct (deliver_sub_R_live hbc last wan cf r w m r' o Ew HR H1 Em) as (w' & A & B & B' & C & D & F).
    assert (Hacc : Forall (ldg hbc last (wp_an w')) (acc ++ o)).
    { apply Forall_app; split; [|assumption]. eapply Forall_impl; [|exact Ha]. intros d. apply ldg_mono; lia. }
    destruct (IH r' w' (acc ++ o) r1 out A C H2 Hacc E) as (w1 & A1 & B1 & B1' & C1 & D1 & F1).
    exists w1. refine (conj A1 (conj _ (conj _ (conj C1 (conj _ F1))))); try congruence. lia.
Qed.

(* --- delivery of a queued datagram to the reader *)
Lemma LOk_deliver_R cf s b p r w d rest r1 out :
  s_rdead s = false -> LOk b s p w -> rd_wp r = Some w -> In d (s_net s) ->
  (forall x, In x rest -> In x (s_net s)) ->
  deliver_subs_R cf r (dg_subs d) [] = (r1, out) ->
  exists w1, rd_wp r1 = Some w1 /\ rd_alive r1 = rd_alive r /\ rd_rel r1 = rd_rel r /\
    LOk b (send (set_rd (set_net s rest) (Some r1)) out) p w1.
Proof.
  intros Hdead [K1 K2 K3 K4 K5 K6 K7 K8] Ew Hd Hrest E.
  assert (Hsubs : Forall (lsub (rp_hbc p) (s_last s) (wp_an w)) (dg_subs d)).
  { rewrite Forall_forall in K8. apply (K8 d Hd). }
  destruct (deliver_subs_R_live (rp_hbc p) (s_last s) (wp_an w) cf (dg_subs d) r w [] r1 out Ew
              (conj K3 (conj K5 K7)) Hsubs (Forall_nil _) E) as (w1 & A & B & B' & (C1 & C2 & C3) & D & F).
  exists w1. refine (conj A (conj B (conj B' _))). constructor; cbn; try assumption; try lia.
  apply Forall_app; split.
  - rewrite Forall_forall in *. intros x Hx. eapply ldg_mono; [apply Z.le_refl|exact D|]. apply K8. apply Hrest. assumption.
  - apply Forall_filter. assumption.
Qed.

(* --- delivery of a submessage to the writer *)
Lemma LOk_deliver_sub_W cf s b p w m :
  CInv s -> unfrag cf (s_changes s) -> s_rdead s = false ->
  s_rp s = Some p -> rp_rel p = true -> LOk b s p w ->
  nsub (rp_fr p) (s_last s) (hr_of s) m -> lsub (rp_hbc p) (s_last s) (wp_an w) m ->
  exists q, s_rp (deliver_sub_W cf s m) = Some q /\ rp_static q = rp_static p /\
            LOk b (deliver_sub_W cf s m) q w /\ rp_hbc p <= rp_hbc q.
Proof.
  intros (HS & HN & [A1 A2 A3]) Hu Hdead Ep Hrel [K1 K2 K3 K4 K5 K6 K7 K8] Hn Hl.
  rewrite Ep in A3. destruct A3 as (Hfr & Hhs & Hreq & Hnet & Hrd).
  unfold deliver_sub_W. rewrite Ep.
  destruct m as [c|c k|a b0|f l c|base set count|sn base set count]; cbn in Hl; try contradiction;
    try (exists p; refine (conj Ep (conj eq_refl (conj _ _))); [constructor; assumption|lia]).
  cbn in Hn. destruct Hn as [Hset _].
  unfold on_acknack. replace (rp_rel p && (rp_an p <? count)) with (rp_an p <? count) by (rewrite Hrel; reflexivity).
  destruct (Z.ltb_spec (rp_an p) count) as [Hacc|Hnacc].
  2:{ exists p. cbn. refine (conj eq_refl (conj eq_refl (conj _ _))); [|lia].
      constructor; cbn; try assumption. rewrite app_nil_r. assumption. }
  lazy beta iota zeta.
  set (p1 := mkRP (rp_rel p) (rp_tl p) (rp_hs p) (if rp_ha p <? base - 1 then base - 1 else rp_ha p)
                  (req_add (rp_req p) set) (rp_fr p) count (rp_nf p) (rp_hbc p) (rp_hbt p)).
  assert (Hha1 : 0 <= rp_ha p1) by (cbn; destruct (rp_ha p <? base - 1) eqn:E; [apply Z.ltb_lt in E; lia|assumption]).
  pose proof (write_rel_live (s_last s) cf (s_now s) (s_changes s) p1) as H. rewrite A1 in H.
  specialize (H A2). rewrite <- A1 in H. specialize (H Hu Hhs Hha1 (req_add_bound _ _ _ Hreq Hset)). lazy zeta in H.
  pose proof (write_rel_ha cf (s_now s) (s_changes s) p1) as Hha.
  pose proof (write_rel_class (rp_fr p) (s_last s) cf (s_now s) (s_changes s) p1) as Hcl. rewrite A1 in Hcl.
  specialize (Hcl A2 (proj1 Hfr) eq_refl Hhs (req_add_bound _ _ _ Hreq Hset)). lazy zeta in Hcl. rewrite <- A1 in Hcl.
  destruct (write_rel cf (s_now s) (s_changes s) p1) as [p2 out]. cbn [fst snd] in *.
  destruct H as (W1 & W2 & W3 & W4 & W5 & _).
  destruct Hcl as (_ & _ & _ & Hst & _ & Han & _).
  exists p2.
  assert (E1 : rp_hbc p1 = rp_hbc p) by reflexivity.
  assert (E2 : rp_hbt p1 = rp_hbt p) by reflexivity.
  assert (E3 : rp_an p1 = count) by reflexivity.
  assert (HL : LOk b (send (set_rp s (Some p2)) out) p2 w).
  { constructor; cbn.
    - intros _. assumption.
    - lia.
    - lia.
    - lia.
    - intros H0 Heq. destruct (Z.eq_dec (rp_hbc p) (rp_hbc p2)) as [E|E]; [apply K5; lia|lia].
    - destruct W5 as [[_ ->]|[_ ->]]; lia.
    - assumption.
    - apply Forall_app; split.
      + eapply Forall_impl; [|exact K8]. intros d. apply ldg_mono; lia.
      + apply Forall_filter. eapply Forall_impl; [|exact W3]. intros d. apply hdg_ldg. lia. }
  destruct (is_acked (Some p2) (s_last s)).
  - refine (conj eq_refl (conj Hst (conj _ _))); [destruct HL; constructor; assumption|rewrite <- E1; exact W2].
  - refine (conj eq_refl (conj Hst (conj HL _))). rewrite <- E1; exact W2.
Qed.

(* ------------------------------------------------------------------ state-level preservation *)
Definition Live (b : bool) (cf : cfg) (s : state) : Prop := CInv s /\ LInv b cf s.

Lemma LOk_subnet b s p w n : LOk b s p w -> (forall x, In x n -> In x (s_net s)) -> LOk b (set_net s n) p w.
Proof.
  intros [K1 K2 K3 K4 K5 K6 K7 K8] Hn. constructor; cbn; try assumption.
  rewrite Forall_forall in *. intros x Hx. apply K8. apply Hn. assumption.
Qed.

Lemma fold_W_frame cf l : forall s,
  s_rd (fold_left (deliver_sub_W cf) l s) = s_rd s /\ s_rdead (fold_left (deliver_sub_W cf) l s) = s_rdead s.
Proof.
  induction l as [|m t IH]; intros s; cbn [fold_left]; [tauto|].
  destruct (IH (deliver_sub_W cf s m)) as [A B]. destruct (deliver_sub_W_frame cf s m) as (F1 & F2 & _).
  split; congruence.
Qed.

Lemma Live_fold_W cf b l : forall s, Live b cf s ->
  (forall p, s_rp s = Some p -> Forall (nsub (rp_fr p) (s_last s) (hr_of s)) l) ->
  (forall p r w, s_rp s = Some p -> rp_rel p = true -> s_rd s = Some r -> rd_wp r = Some w ->
     Forall (lsub (rp_hbc p) (s_last s) (wp_an w)) l) ->
  Live b cf (fold_left (deliver_sub_W cf) l s).
Proof.
  induction l as [|m t IH]; intros s HL Hn Hl; cbn [fold_left]; [assumption|].
  destruct HL as [HC (L1 & L2 & L3 & L4 & L5)].
  assert (HC1 : CInv (deliver_sub_W cf s m)).
  { apply CInv_deliver_sub_W; [assumption|]. intros p Ep. specialize (Hn p Ep). inversion Hn; assumption. }
  destruct (core_proj _ _ (deliver_sub_W_core cf s m)) as (C1 & C2 & _ & C4 & C5).
  destruct (deliver_sub_W_frame cf s m) as (F1 & F2 & F3).
  apply IH.
  - split; [assumption|]. linv_split; try congruence.
    + rewrite C1. assumption.
    + intros r Hr. apply L4. congruence.
    + intros p' r w Ep' Hrel' Er Ew. rewrite F1 in Er.
      destruct (s_rp s) as [p|] eqn:Ep.
      2:{ assert (Hs : deliver_sub_W cf s m = s) by (unfold deliver_sub_W; rewrite Ep; reflexivity).
          rewrite Hs in Ep'. congruence. }
      destruct (F3 p eq_refl) as [q [Eq Hst]]. assert (p' = q) by congruence. subst p'.
      apply static_fr in Hst. destruct Hst as (_ & Hrelq & _).
      assert (Hrel : rp_rel p = true) by congruence.
      specialize (Hn p eq_refl). inversion Hn; subst.
      specialize (Hl p r w eq_refl Hrel Er Ew). inversion Hl; subst.
      destruct (LOk_deliver_sub_W cf s b p w m HC L2 L3 Ep Hrel (L5 p r w eq_refl Hrel Er Ew) H1 H3) as (q' & Eq' & _ & HLq & _).
      assert (q' = q) by congruence. subst q'. exact HLq.
  - intros q Eq. rewrite C2. unfold hr_of. rewrite F1. fold (hr_of s).
    destruct (s_rp s) as [p|] eqn:Ep.
    2:{ assert (Hs : deliver_sub_W cf s m = s) by (unfold deliver_sub_W; rewrite Ep; reflexivity).
        rewrite Hs in Eq. congruence. }
    destruct (F3 p eq_refl) as [q' [Eq' Hst]]. assert (q' = q) by congruence. subst q'.
    apply static_fr in Hst. destruct Hst as (Hfr & _). rewrite Hfr.
    specialize (Hn p eq_refl). inversion Hn; assumption.
  - intros q r w Eq Hrelq Er Ew. rewrite F1 in Er. rewrite C2.
    destruct (s_rp s) as [p|] eqn:Ep.
    2:{ assert (Hs : deliver_sub_W cf s m = s) by (unfold deliver_sub_W; rewrite Ep; reflexivity).
        rewrite Hs in Eq. congruence. }
    destruct (F3 p eq_refl) as [q' [Eq' Hst]]. assert (q' = q) by congruence. subst q'.
    apply static_fr in Hst. destruct Hst as (_ & Hrelq' & _).
    assert (Hrel : rp_rel p = true) by congruence.
    pose proof (Hn p eq_refl) as Hn'. inversion Hn'; subst.
    pose proof (Hl p r w eq_refl Hrel Er Ew) as Hl'. inversion Hl'; subst.
    destruct (LOk_deliver_sub_W cf s b p w m HC L2 L3 Ep Hrel (L5 p r w eq_refl Hrel Er Ew) H1 H3) as (q' & Eq'' & _ & _ & Hmono).
    assert (q' = q) by congruence. subst q'.
    eapply Forall_impl; [|exact H4]. intros x Hx.
    destruct x; cbn in *; try tauto; try lia.
Qed.

Lemma Live_deliver cf b s d rest : Live b cf s -> In d (s_net s) -> (forall x, In x rest -> In x (s_net s)) ->
  Live b cf (deliver_dgram cf (set_net s rest) d).
Proof.
  intros [HC HL] Hd Hrest. split; [apply CInv_deliver; assumption|].
  pose proof HC as (HS & HN & [A1 A2 A3]). pose proof HL as (L1 & L2 & L3 & L4 & L5).
  assert (HLr : Live b cf (set_net s rest)).
  { split.
    - destruct HC as (X & Y & Z). split; [|split].
      + apply SInv_set_net; [assumption|]. pose proof (si_net s X) as Hn. rewrite Forall_forall in *. auto.
      + intros Hn. cbn in *. destruct (Y Hn) as [E1 E2]. rewrite E1 in Hd. contradiction.
      + apply AInv_set_net; assumption.
    - linv_split; try assumption. intros p r w Ep Hrel Er Ew. apply LOk_subnet; [|assumption]. apply (L5 p r w); assumption. }
  unfold deliver_dgram. destruct (dg_toR d) eqn:Edir.
  - cbn [s_rdead set_net]. rewrite L3. cbn [s_rd set_net].
    destruct (s_rd s) as [r|] eqn:Er; [|apply (proj2 HLr)].
    rewrite (L4 r eq_refl).
    destruct (deliver_subs_R cf r (dg_subs d) []) as [r1 out] eqn:E.
    destruct (rd_wp r) as [w|] eqn:Ew.
    2:{ rewrite (deliver_subs_R_nowp cf r (dg_subs d) [] Ew) in E. inversion E; subst r1 out.
        linv_split; cbn; try assumption.
        all: try (intros r' Hr'; injection Hr' as <-; exact (L4 r eq_refl)).
        intros p r' w Ep Hrel Er' Ew'. injection Er' as <-. congruence. }
    destruct (s_rp s) as [p|] eqn:Ep.
    2:{ (* no proxy: nothing to show for the proxy part *)
      assert (Halive : rd_alive r1 = true).
      { clear - E L4 Er. (* the reader stays alive: deliver_sub_R never changes rd_alive *)
        assert (G : forall l r acc r1 out, deliver_subs_R cf r l acc = (r1, out) -> rd_alive r1 = rd_alive r).
        { induction l as [|m t IH]; intros r0 acc r2 out0 E0; cbn in E0; [inversion E0; reflexivity|].
          destruct (deliver_sub_R cf r0 m) as [r' o] eqn:Em. apply IH in E0. rewrite E0.
          unfold deliver_sub_R in Em. destruct (rd_wp r0) as [w0|]; [|inversion Em; reflexivity].
          destruct m; try (inversion Em; reflexivity).
          - destruct (on_data _ _ _) as [w1 oc]. inversion Em. destruct oc; reflexivity.
          - destruct (on_frag _ _ _ _ _) as [w1 oc]. inversion Em. destruct oc; reflexivity.
          - destruct (on_hb _ _ _ _ _) as [w1 o1]. destruct (hist_received _); inversion Em; reflexivity. }
        rewrite (G _ _ _ _ _ E). exact (L4 r eq_refl). }
      linv_split; cbn; try assumption.
      all: try (intros r' Hr'; injection Hr' as <-; assumption).
      intros q r' w' Eq. congruence. }
    destruct (rp_rel p) eqn:Erel.
    2:{ assert (Halive : rd_alive r1 = true).
        { assert (G : forall l r acc r1 out, deliver_subs_R cf r l acc = (r1, out) -> rd_alive r1 = rd_alive r).
          { induction l as [|m t IH]; intros r0 acc r2 out0 E0; cbn in E0; [inversion E0; reflexivity|].
            destruct (deliver_sub_R cf r0 m) as [r' o] eqn:Em. apply IH in E0. rewrite E0.
            unfold deliver_sub_R in Em. destruct (rd_wp r0) as [w0|]; [|inversion Em; reflexivity].
            destruct m; try (inversion Em; reflexivity).
            - destruct (on_data _ _ _) as [w1 oc]. inversion Em. destruct oc; reflexivity.
            - destruct (on_frag _ _ _ _ _) as [w1 oc]. inversion Em. destruct oc; reflexivity.
            - destruct (on_hb _ _ _ _ _) as [w1 o1]. destruct (hist_received _); inversion Em; reflexivity. }
          rewrite (G _ _ _ _ _ E). exact (L4 r eq_refl). }
        linv_split; cbn; try assumption.
        all: try (intros r' Hr'; injection Hr' as <-; assumption).
        intros q r' w' Eq Hq. congruence. }
    pose proof (L5 p r w eq_refl Erel eq_refl Ew) as HLOk.
    destruct (LOk_deliver_R cf s b p r w d rest r1 out L3 HLOk Ew Hd Hrest E) as (w1 & Q1 & Q2 & Q3 & Q4).
    linv_split; cbn; try assumption.
    all: try (intros r' Hr'; injection Hr' as <-; rewrite Q2; exact (L4 r eq_refl)).
    intros q r' w' Eq Hq Er' Ew'. assert (q = p) by congruence. subst q. injection Er' as <-.
    assert (w' = w1) by congruence. subst w'. exact Q4.
  - refine (proj2 (Live_fold_W cf b (dg_subs d) (set_net s rest) HLr _ _)).
    + intros p Ep. cbn in Ep. rewrite Ep in A3. destruct A3 as (_ & _ & _ & Hnet & _).
      rewrite Forall_forall in Hnet. apply (Hnet d Hd).
    + intros p r w Ep Hrel Er Ew. cbn in *.
      destruct (L5 p r w Ep Hrel Er Ew) as [_ _ _ _ _ _ _ K8]. rewrite Forall_forall in K8. apply (K8 d Hd).
Qed.

Lemma Live_poke cf b s : Live b cf s -> Live true cf (poke cf s).
Proof. intros [HC HL]. split; [apply CInv_poke; assumption|eapply LInv_poke; eassumption]. Qed.

Lemma Live_pump cf fuel : forall s n, Live true cf s -> Live true cf (fst (pump fuel cf s n)).
Proof.
  induction fuel as [|f IH]; intros s n H; cbn [pump]; [assumption|].
  destruct (s_net s) as [|d t] eqn:En; [assumption|].
  apply IH. apply Live_poke with (b := true). apply Live_deliver; [assumption|rewrite En; left; reflexivity|].
  intros x Hx. rewrite En. right. assumption.
Qed.

(* --- nothing ever looks at the queue: an extra queued copy commutes with every operation *)
Definition add_front (x : dgram) (s : state) : state := set_net s (x :: s_net s).

Lemma send_add_front x s out : send (add_front x s) out = add_front x (send s out).
Proof. reflexivity. Qed.

Lemma poke_add_front cf x s : poke cf (add_front x s) = add_front x (poke cf s).
Proof.
  unfold poke. cbn [s_rp add_front set_net s_now s_changes]. destruct (s_rp s); [|reflexivity].
  destruct (write_message _ _ _ _). reflexivity.
Qed.

Lemma deliver_sub_W_add_front cf x s m : deliver_sub_W cf (add_front x s) m = add_front x (deliver_sub_W cf s m).
Proof.
  unfold deliver_sub_W. cbn [s_rp add_front set_net s_now s_changes s_last]. destruct (s_rp s); [|reflexivity].
  destruct m; try reflexivity.
  - destruct (on_acknack _ _ _ _ _ _ _) as [[p1 o] sm]. destruct (sm && _); reflexivity.
  - destruct (on_nackfrag _ _ _ _ _ _ _). reflexivity.
Qed.

Lemma deliver_dgram_add_front cf x s d : deliver_dgram cf (add_front x s) d = add_front x (deliver_dgram cf s d).
Proof.
  unfold deliver_dgram. destruct (dg_toR d).
  - cbn [s_rdead s_rd add_front set_net]. destruct (s_rdead s); [reflexivity|].
    destruct (s_rd s) as [r|]; [|reflexivity]. destruct (rd_alive r); [|reflexivity].
    destruct (deliver_subs_R _ _ _ _). reflexivity.
  - revert s. induction (dg_subs d) as [|m t IH]; intros s; cbn [fold_left]; [reflexivity|].
    rewrite deliver_sub_W_add_front. apply IH.
Qed.

Lemma set_net_add_front x s : set_net (add_front x s) (s_net s) = s.
Proof. destruct s. reflexivity. Qed.

(* Live only constrains the elements of the queue *)
Lemma Live_same_elements cf b s n : Live b cf s -> (forall x, In x n -> In x (s_net s)) ->
  (s_rd s = None -> n = []) -> Live b cf (set_net s n).
Proof.
  intros [(HS & HN & HA) (L1 & L2 & L3 & L4 & L5)] Hn Hnil. split.
  - split; [|split].
    + apply SInv_set_net; [assumption|]. pose proof (si_net s HS) as H. rewrite Forall_forall in *. auto.
    + intros Hr. cbn in *. destruct (HN Hr) as [_ E2]. split; [auto|assumption].
    + apply AInv_set_net; assumption.
  - linv_split; try assumption. intros p r w Ep Hrel Er Ew. apply LOk_subnet; [|assumption]. apply (L5 p r w); assumption.
Qed.

Lemma Live_dup cf b s d rest : Live b cf s -> In d (s_net s) -> (forall x, In x rest -> In x (s_net s)) ->
  Live b cf (deliver_dgram cf (poke cf (deliver_dgram cf (set_net s rest) d)) d).
Proof.
  intros HL Hd Hrest.
  (* the same run with a second copy of d queued in front *)
  assert (H0 : Live b cf (set_net s (d :: rest))).
  { apply Live_same_elements; [assumption| |].
    - intros x [<-|Hx]; auto.
    - intros Hr. destruct HL as [(_ & HN & _) _]. destruct (HN Hr) as [E _]. rewrite E in Hd. contradiction. }
  assert (H1 : Live b cf (deliver_dgram cf (set_net (set_net s (d :: rest)) (d :: rest)) d)).
  { apply Live_deliver; [assumption|left; reflexivity|auto]. }
  assert (E1 : set_net (set_net s (d :: rest)) (d :: rest) = add_front d (set_net s rest)) by reflexivity.
  rewrite E1, deliver_dgram_add_front in H1.
  apply Live_poke in H1. rewrite poke_add_front in H1.
  set (s2 := poke cf (deliver_dgram cf (set_net s rest) d)) in *.
  destruct b.
  - pose proof (Live_deliver cf true (add_front d s2) d (s_net s2) H1 (or_introl eq_refl)) as H2.
    rewrite set_net_add_front in H2. apply H2. intros x Hx. right. assumption.
  - apply Live_poke in HL. (* not needed: keep the weaker flag *)
    pose proof (Live_deliver cf true (add_front d s2) d (s_net s2) H1 (or_introl eq_refl)) as H2.
    rewrite set_net_add_front in H2. destruct H2 as [X Y]; [intros x Hx; right; assumption|].
    split; [assumption|apply LInv_weaken; assumption].
Qed.

(* --- the class of actions *)
Definition live_act (cf : cfg) (a : action) : bool :=
  match a with
  | ARemove _ | ADelReader | ADelPart => false
  | AWrite _ len _ => (0 <=? len) && (len <=? fsz cf)
  | _ => true
  end.

Lemma live_not_remove cf a : live_act cf a = true -> not_remove a = true.
Proof. destruct a; cbn; auto. Qed.

Lemma nfrags_le1 cf sn k len sum : 0 < fsz cf -> 0 <= len <= fsz cf -> nfrags cf (mkCh sn k len sum) <= 1.
Proof.
  intros Hf Hl. unfold nfrags, div_ceil. cbn [c_len].
  destruct (Z.eq_dec len (fsz cf)) as [->|Hne].
  - rewrite Z.div_same by lia. rewrite Z.mod_same by lia. cbn. lia.
  - rewrite Z.div_small by lia. destruct (len mod fsz cf =? 0); lia.
Qed.

Lemma LInv_write cf s key len sum : 0 < fsz cf -> depth cf = 0 -> 0 <= len <= fsz cf ->
  Live true cf s -> Live true cf (fst (step cf s (AWrite key len sum))).
Proof.
  intros Hf Hd Hlen [HC HL]. split; [apply CInv_step; [assumption|reflexivity|assumption]|].
  pose proof (CInv_act cf s (AWrite key len sum) Hd eq_refl HC) as HC1.
  unfold step in *. cbn [act] in *.
  pose proof (do_write_frame cf s key len sum) as (F1 & F2 & F3 & F4 & F5 & F6 & F7).
  pose proof (do_write_spec cf s key len sum) as Hw.
  destruct (do_write cf s key len sum) as [s1 code]. cbn [fst snd] in *.
  destruct Hw as [[-> _]|[chs1 (W1 & W2 & W3 & W4 & W5 & W6)]].
  { eapply LInv_poke; eassumption. }
  specialize (W6 Hd). subst chs1.
  destruct HL as (L1 & L2 & L3 & L4 & L5).
  assert (Hu1 : unfrag cf (s_changes s1)).
  { rewrite W2. intros c Hc. apply in_app_or in Hc. destruct Hc as [Hc|[<-|[]]]; [apply L2; assumption|].
    apply nfrags_le1; assumption. }
  pose proof HC as (HS & HN & [A1 A2 A3]). pose proof HC1 as (HS1 & HN1 & [B1 B2 B3]).
  assert (Hun : 0 <= s_now s1 /\ s_rdead s1 = false /\ (forall r, s_rd s1 = Some r -> rd_alive r = true)).
  { rewrite F4, F7, F2. auto. }
  destruct Hun as (U1 & U3 & U4).
  unfold poke. rewrite F1.
  destruct (s_rp s) as [p|] eqn:Ep.
  2:{ linv_split; try assumption. intros q r w Eq. congruence. }
  rewrite F1 in B3. destruct B3 as (Hfr1 & Hhs1 & Hreq1 & Hnet1 & Hrd1). destruct A3 as (Hfr & Hhs & Hreq & Hnet & Hrd).
  unfold write_message. destruct (rp_rel p) eqn:Erel.
  2:{ pose proof (write_be_static (S (length (s_changes s1))) cf (s_changes s1) p []) as Hs.
      destruct (write_be_loop (S (length (s_changes s1))) cf (s_changes s1) p []) as [p1 out]. cbn [fst] in Hs.
      apply static_fr in Hs. destruct Hs as (_ & Hrel & _).
      linv_split; cbn; try assumption.
      intros q r w Eq Hq. injection Eq as <-. congruence. }
  destruct (s_rd s) as [r|] eqn:Er.
  2:{ destruct (write_rel cf (s_now s1) (s_changes s1) p) as [p1 out].
      linv_split; cbn; try assumption. intros q r w _ _ Hr. congruence. }
  destruct (rd_wp r) as [w|] eqn:Ew.
  2:{ destruct (write_rel cf (s_now s1) (s_changes s1) p) as [p1 out].
      linv_split; cbn; try assumption.
      intros q r' w _ _ Hr Hw. assert (r' = r) by congruence. subst r'. congruence. }
  destruct (L5 p r w eq_refl Erel eq_refl Ew) as [K1 K2 K3 K4 K5 K6 K7 K8].
  pose proof (write_rel_live (s_last s1) cf (s_now s1) (s_changes s1) p) as H. rewrite B1 in H.
  specialize (H B2). rewrite <- B1 in H. specialize (H Hu1 Hhs1 K2 Hreq1). lazy zeta in H.
  pose proof (write_rel_ha cf (s_now s1) (s_changes s1) p) as Hha.
  pose proof (write_rel_class (rp_fr p) (s_last s1) cf (s_now s1) (s_changes s1) p) as Hcl. rewrite B1 in Hcl.
  specialize (Hcl B2 (proj1 Hfr1) eq_refl Hhs1 Hreq1). lazy zeta in Hcl. rewrite <- B1 in Hcl.
  destruct (write_rel cf (s_now s1) (s_changes s1) p) as [p1 out]. cbn [fst snd] in *.
  destruct H as (V1 & V2 & V3 & V4 & V5 & _ & _ & V8).
  destruct Hcl as (_ & _ & _ & Hst & _ & Han & _).
  assert (Hstrict : rp_hbc p < rp_hbc p1) by (apply V8; [rewrite (K1 eq_refl); lia|lia]).
  linv_split; cbn; try assumption.
  intros q r' w' Eq Hq Er' Ew'. injection Eq as <-. assert (r' = r) by congruence. subst r'.
  assert (w' = w) by congruence. subst w'.
  { constructor; cbn.
    + intros _. assumption.
    + lia.
    + lia.
    + lia.
    + intros H0 Heq. lia.
    + destruct V5 as [[_ ->]|[_ ->]]; lia.
    + assumption.
    + apply Forall_app; split.
      * rewrite F3. eapply Forall_impl; [|exact K8]. intros d. apply ldg_mono_write. assumption.
      * apply Forall_filter. eapply Forall_impl; [|exact V3]. intros d. apply hdg_ldg. lia. }
Qed.

(* states that differ only in fields the live invariant does not look at *)
Lemma LInv_ext cf b s s' :
  LInv b cf s -> s_now s <= s_now s' ->
  s_changes s' = s_changes s -> s_last s' = s_last s -> s_rp s' = s_rp s -> s_rdead s' = s_rdead s ->
  s_net s' = s_net s ->
  (forall r', s_rd s' = Some r' -> exists r, s_rd s = Some r /\ rd_alive r' = rd_alive r /\ rd_wp r' = rd_wp r) ->
  LInv b cf s'.
Proof.
  intros (L1 & L2 & L3 & L4 & L5) Hnow Hc Hl Hp Hd Hn Hr. linv_split.
  - lia.
  - rewrite Hc. assumption.
  - congruence.
  - intros r' Hr'. destruct (Hr r' Hr') as (r & E1 & E2 & _). rewrite E2. apply L4. assumption.
  - intros p r' w Ep Hrel Er' Ew. destruct (Hr r' Er') as (r & E1 & _ & E3).
    rewrite Hp in Ep. rewrite E3 in Ew. destruct (L5 p r w Ep Hrel E1 Ew) as [K1 K2 K3 K4 K5 K6 K7 K8].
    constructor; try assumption; try (rewrite Hl; assumption); try lia. rewrite Hl, Hn. assumption.
Qed.

Lemma Live_step cf s a : 0 < fsz cf -> depth cf = 0 -> live_act cf a = true ->
  Live true cf s -> Live true cf (fst (step cf s a)).
Proof.
  intros Hf Hd Ha HL. pose proof HL as [HC HLI].
  destruct a; try discriminate.
  - (* AWrite *) cbn in Ha. apply andb_prop in Ha. destruct Ha as [H1 H2]. apply Z.leb_le in H1. apply Z.leb_le in H2.
    apply LInv_write; try assumption. lia.
  - (* ATick *) unfold step. cbn [act fst]. apply Live_poke with (b := true). split.
    + apply (CInv_act cf s ATick Hd eq_refl HC).
    + eapply LInv_ext; [exact HLI|cbn; unfold tick_ms; lia|reflexivity|reflexivity|reflexivity|reflexivity|reflexivity|].
      intros r' Hr'. exists r'. auto.
  - (* ADeliver *) unfold step. cbn [act]. destruct (nth_error (s_net s) i) as [d|] eqn:E; cbn [fst].
    + apply Live_poke with (b := true). apply Live_deliver; [assumption|eapply nth_error_In; eassumption|].
      intros x Hx. eapply remove_nth_in. exact Hx.
    + apply Live_poke with (b := true). assumption.
  - (* ADrop *) unfold step. cbn [act]. destruct (nth_error (s_net s) i) as [d|] eqn:E; cbn [fst].
    + apply Live_poke with (b := true). apply Live_same_elements; [assumption| |].
      * intros x Hx. eapply remove_nth_in. exact Hx.
      * intros Hr. destruct HC as (_ & HN & _). destruct (HN Hr) as [En _]. rewrite En in E. destruct i; discriminate.
    + apply Live_poke with (b := true). assumption.
  - (* ADup *) unfold step. cbn [act]. destruct (nth_error (s_net s) i) as [d|] eqn:E; cbn [fst].
    + apply Live_poke with (b := true). apply Live_dup; [assumption|eapply nth_error_In; eassumption|].
      intros x Hx. eapply remove_nth_in. exact Hx.
    + apply Live_poke with (b := true). assumption.
  - (* APump *) unfold step. cbn [act]. pose proof (Live_pump cf pump_fuel s 0 HL) as Hp.
    destruct (pump pump_fuel cf s 0) as [s1 n]. cbn [fst] in *. apply Live_poke with (b := true). assumption.
  - (* ATake *) unfold step. cbn [act]. destruct (s_rd s) as [r|] eqn:Er; [|cbn [fst]; apply Live_poke with (b := true); assumption].
    destruct (rd_alive r) eqn:Eal; cbn [fst]; [|apply Live_poke with (b := true); assumption].
    apply Live_poke with (b := true). split.
    + pose proof (CInv_act cf s ATake Hd eq_refl HC) as H. cbn [act] in H. rewrite Er, Eal in H. exact H.
    + eapply LInv_ext; [exact HLI|cbn; lia|reflexivity|reflexivity|reflexivity|reflexivity|reflexivity|].
      intros r' Hr'. cbn in Hr'. injection Hr' as <-. exists r. cbn. auto.
  - (* AMatch *) unfold step. cbn [act].
    destruct (s_rd s) as [r|] eqn:Er; cbn [fst]; [apply Live_poke with (b := true); assumption|].
    destruct HC as (HS & HN & HA). destruct (HN Er) as [Hnet Hrp]. rewrite Hrp. rewrite orb_false_r.
    destruct HLI as (L1 & L2 & L3 & L4 & L5). rewrite L3.
    destruct (rxo_ok cf rel tl); cbn [fst].
    + apply Live_poke with (b := true). apply Live_poke with (b := false). split.
      * split; [|split].
        -- destruct HS as [S1 S2 S3 S4 S5]. constructor; cbn; try assumption.
           unfold ARInv, RInv, WOk; cbn. repeat split; constructor.
        -- intros Hn. cbn in Hn. discriminate.
        -- destruct HA as [A1 A2 A3]. constructor; cbn; try assumption.
           assert (Hfr : 0 <= (if tl then 0 else last_sn (s_changes s)) <= s_last s).
           { destruct tl; [destruct A2; lia|]. rewrite A1, (contig_last _ _ A2). destruct A2; lia. }
           split; [exact Hfr|]. split; [destruct A2; lia|]. split; [constructor|]. split; [rewrite Hnet; constructor|].
           unfold ROk, RB, RCrel, Complete; cbn. destruct A2 as [_ A2].
           repeat split; try lia; try constructor.
      * linv_split; cbn; try assumption; try reflexivity.
        -- intros r' Hr'. injection Hr' as <-. reflexivity.
        -- intros p r' w Ep Hrel Er' Ew. injection Ep as <-. injection Er' as <-. cbn in Ew. injection Ew as <-.
           constructor; cbn; try lia; try reflexivity; try discriminate.
           rewrite Hnet. constructor.
    + apply Live_poke with (b := true). split.
      * split; [|split].
        -- destruct HS as [S1 S2 S3 S4 S5]. constructor; cbn; try assumption. reflexivity.
        -- intros Hn. cbn in Hn. discriminate.
        -- destruct HA as [A1 A2 A3]. constructor; cbn; try assumption. rewrite Hrp. exact I.
      * linv_split; cbn; try assumption; try reflexivity.
        -- intros r' Hr'. injection Hr' as <-. reflexivity.
        -- intros p r' w Ep. congruence.
  - (* AWfa *) unfold step. cbn [act].
    destruct (is_acked (s_rp s) (s_last s)); cbn [fst]; apply Live_poke with (b := true);
      (split; [apply CInv_set_waits; assumption|]);
      (eapply LInv_ext; [exact HLI|cbn; lia|reflexivity|reflexivity|reflexivity|reflexivity|reflexivity|]);
      intros r' Hr'; exists r'; auto.
  - (* AWfaPoll *) unfold step. cbn [act]. destruct (poll (s_waits s)) as [wl o]. cbn [fst]. apply Live_poke with (b := true).
    split; [apply CInv_set_waits; assumption|].
    eapply LInv_ext; [exact HLI|cbn; lia|reflexivity|reflexivity|reflexivity|reflexivity|reflexivity|].
    intros r' Hr'. exists r'. auto.
  - (* AWfh *) unfold step. pose proof (CInv_act cf s AWfh Hd eq_refl HC) as HC1. cbn [act] in *.
    destruct (s_rd s) as [r|] eqn:Er; [|cbn [fst]; apply Live_poke with (b := true); assumption].
    destruct (negb (rd_alive r)); [cbn [fst]; apply Live_poke with (b := true); assumption|].
    destruct (negb (rd_tl r)); [cbn [fst]; apply Live_poke with (b := true); assumption|].
    destruct (hist_received (rd_wp r)); cbn [fst] in *; apply Live_poke with (b := true); (split; [exact HC1|]);
      (eapply LInv_ext; [exact HLI|cbn; lia|reflexivity|reflexivity|reflexivity|reflexivity|reflexivity|]);
      intros r' Hr'; cbn in Hr'; injection Hr' as <-; exists r; cbn; auto.
  - (* AWfhPoll *) unfold step. pose proof (CInv_act cf s AWfhPoll Hd eq_refl HC) as HC1. cbn [act] in *.
    destruct (s_rd s) as [r|] eqn:Er; [|cbn [fst]; apply Live_poke with (b := true); assumption].
    destruct (poll (rd_hwaits r)) as [wl o]. cbn [fst] in *. apply Live_poke with (b := true). split; [exact HC1|].
    eapply LInv_ext; [exact HLI|cbn; lia|reflexivity|reflexivity|reflexivity|reflexivity|reflexivity|].
    intros r' Hr'. cbn in Hr'. injection Hr' as <-. exists r. cbn. auto.
  - (* AQuery *) unfold step. cbn [act fst]. apply Live_poke with (b := true). assumption.
  - (* ANow *) unfold step. cbn [act fst]. apply Live_poke with (b := true). assumption.
Qed.

Lemma Live_run cf l : 0 < fsz cf -> depth cf = 0 -> forallb (live_act cf) l = true ->
  forall s, Live true cf s -> Live true cf (run cf s l).
Proof.
  intros Hf Hd. induction l as [|a t IH]; intros Hl s H; [exact H|]. cbn in Hl. apply andb_prop in Hl.
  destruct Hl as [Ha Ht]. rewrite run_cons. apply IH; [assumption|]. apply Live_step; assumption.
Qed.

Lemma Live_init cf : Live true cf init.
Proof.
  split; [apply CInv_init|]. linv_split; cbn; try lia; try reflexivity.
  - intros c [].
  - intros r Hr. discriminate.
  - intros p r w Hp. discriminate.
Qed.

(* ------------------------------------------------------------------ the healing invariant *)
Lemma firstn_ge_all {A} n (l : list A) : (length l <= n)%nat -> firstn n l = l.
Proof. revert n; induction l as [|x t IH]; intros n H; destruct n; cbn in *; try reflexivity; try lia. f_equal. apply IH. lia. Qed.

Lemma zrange_length a b : length (zrange a b) = Z.to_nat (b - a + 1).
Proof. unfold zrange. rewrite map_length, seq_length. reflexivity. Qed.

(* the ACKNACK that answers a heartbeat announcing 1..last while hr < last <= 256 requests `last` *)
Lemma ack_set_has_last hr l last : 0 <= hr -> l = last -> hr < last -> last <= 256 ->
  In last (firstn 256 (zrange (Z.max 1 (hr + 1)) (Z.max l hr))).
Proof.
  intros H0 -> Hlt H256. rewrite firstn_ge_all by (rewrite zrange_length; lia). apply in_zrange. lia.
Qed.


(* ------------------------------------------------------------------ datagram shapes in the class *)
Inductive nshape : dgram -> Prop :=
| ns_data1 c : nshape (toR [SData c])                          (* best-effort path *)
| ns_data c f l cnt : nshape (toR [SData c; SHb f l cnt])
| ns_gap a b : nshape (toR [SGap a b])
| ns_gaphb a b f l cnt : nshape (toR [SGap a b; SHb f l cnt])
| ns_hb f l cnt : nshape (toR [SHb f l cnt])
| ns_ack b set cnt : nshape (toW [SAck b set cnt]).

Lemma unsent_rel_shape fuel cf now chs : unfrag cf chs ->
  forall p acc, Forall nshape acc -> Forall nshape (snd (unsent_rel fuel cf now chs p acc)).
Proof.
  intros Hu. induction fuel as [|f IH]; intros p acc Ha; cbn [unsent_rel]; [assumption|].
  destruct (next_unsent p chs) as [n|]; [|assumption].
  destruct (rp_hs p + 1 <? n).
  - unfold gen_hb. apply IH. apply Forall_app; split; [assumption|]. constructor; [constructor|constructor].
  - destruct (lookup_relevant p n chs) as [c|] eqn:El.
    + apply lookup_relevant_in in El. destruct El as (Hc & _ & _). unfold gen_hb.
      assert (1 <? nfrags cf c = false) as -> by (apply Z.ltb_ge; apply Hu; assumption).
      apply IH. apply Forall_app; split; [assumption|]. constructor; [constructor|constructor].
    + apply IH. apply Forall_app; split; [assumption|]. constructor; [constructor|constructor].
Qed.

Lemma req_loop_shape fuel cf now chs : unfrag cf chs ->
  forall p acc, Forall nshape acc -> Forall nshape (snd (req_loop fuel cf now chs p acc)).
Proof.
  intros Hu. induction fuel as [|f IH]; intros p acc Ha; cbn [req_loop]; [assumption|].
  destruct (zmin_list (rp_req p)) as [n|]; [|assumption].
  match goal with |- context [lookup_relevant ?q n chs] => destruct (lookup_relevant q n chs) as [c|] eqn:El end.
  - apply lookup_relevant_in in El. destruct El as (Hc & _ & _). unfold gen_hb.
    assert (1 <? nfrags cf c = false) as -> by (apply Z.ltb_ge; apply Hu; assumption).
    apply IH. apply Forall_app; split; [assumption|]. constructor; [constructor|constructor].
  - apply IH. apply Forall_app; split; [assumption|]. constructor; [constructor|constructor].
Qed.

Lemma write_rel_shape cf now chs p : unfrag cf chs -> Forall nshape (snd (write_rel cf now chs p)).
Proof.
  intros Hu. unfold write_rel.
  match goal with |- context [let '(p1, out1) := ?X in _] => destruct X as [p1 out1] eqn:E1 end.
  apply req_loop_shape; [assumption|].
  destruct (next_unsent p chs).
  - replace out1 with (snd (unsent_rel (S (length chs)) cf now chs p [])) by (rewrite E1; reflexivity).
    apply unsent_rel_shape; [assumption|constructor].
  - destruct (negb _); [inversion E1; constructor|].
    destruct (time_for_hb p now); unfold gen_hb in E1; inversion E1; constructor; constructor.
Qed.

Lemma write_be_shape fuel cf chs : unfrag cf chs ->
  forall p acc, Forall nshape acc -> Forall nshape (snd (write_be_loop fuel cf chs p acc)).
Proof.
  intros Hu. induction fuel as [|f IH]; intros p acc Ha; cbn [write_be_loop]; [assumption|].
  destruct (next_unsent p chs) as [n|]; [|assumption].
  destruct (rp_hs p + 1 <? n).
  - apply IH. apply Forall_app; split; [assumption|]. constructor; [constructor|constructor].
  - destruct (find_change n chs) as [c|] eqn:El.
    + apply find_change_in in El. destruct El as [Hc _].
      assert (1 <? nfrags cf c = false) as -> by (apply Z.ltb_ge; apply Hu; assumption).
      apply IH. apply Forall_app; split; [assumption|]. constructor; [constructor|constructor].
    + apply IH. apply Forall_app; split; [assumption|]. constructor; [constructor|constructor].
Qed.

Lemma write_message_shape cf now chs p : unfrag cf chs -> Forall nshape (snd (write_message cf now chs p)).
Proof.
  intros Hu. unfold write_message. destruct (rp_rel p); [apply write_rel_shape; assumption|].
  apply write_be_shape; [assumption|constructor].
Qed.

(* --- how the reader processes the shapes *)
Lemma step_nohb cf r w m r1 out : rd_wp r = Some w -> wp_frags w = [] ->
  (match m with SData _ | SGap _ _ => True | _ => False end) ->
  deliver_sub_R cf r m = (r1, out) ->
  exists w1, rd_wp r1 = Some w1 /\ wp_frags w1 = [] /\ wp_hr w <= wp_hr w1 /\ wp_hb w1 = wp_hb w /\
    wp_an w1 = wp_an w /\ wp_la w1 = wp_la w /\ out = [].
Proof.
  intros Ew Hfr Hm E. unfold deliver_sub_R in E. rewrite Ew in E. destruct m; try contradiction.
  - destruct (on_data (rd_rel r) w c) as [w1 oc] eqn:Ed. inversion E; subst.
    destruct (on_data_fields _ _ _ _ _ Ed) as (F1 & F2 & F3 & F4).
    exists w1. destruct (rd_present_proj r w1 oc) as [P1 _].
    refine (conj P1 (conj (F4 Hfr) (conj _ (conj F1 (conj F2 (conj F3 eq_refl)))))).
    unfold on_data in Ed. destruct (rd_rel r).
    + destruct (_ =? _); inversion Ed; subst; cbn; [destruct (Z.ltb_spec (wp_hr w) (c_sn c)); lia|lia].
    + destruct (_ <=? _); [|inversion Ed; subst; lia].
      destruct (_ <? _); inversion Ed; subst; cbn; destruct (Z.ltb_spec (wp_hr w) (c_sn c)); lia.
  - inversion E; subst. exists (on_gap w start base). cbn [rd_present rd_wp].
    unfold on_gap. destruct ((start <? base) && (wp_hr w <? base - 1)) eqn:Eg; cbn; repeat split; try lia; try assumption.
    all: try (apply andb_prop in Eg; destruct Eg as [_ Eg]; apply Z.ltb_lt in Eg; lia).
Qed.

Lemma step_hb cf r w f l c r1 out : rd_wp r = Some w -> wp_frags w = [] ->
  deliver_sub_R cf r (SHb f l c) = (r1, out) ->
  exists w1, rd_wp r1 = Some w1 /\ wp_frags w1 = [] /\ wp_hr w1 = wp_hr w /\
    ((wp_hb w < c /\ wp_hb w1 = c /\ wp_an w1 = wp_an w + 1 /\ wp_la w1 = l /\
      out = [toW [SAck (Z.max (f - 1) (wp_hr w) + 1)
                       (firstn 256 (zrange (Z.max f (wp_hr w + 1)) (Z.max l (wp_hr w)))) (wp_an w + 1)]]) \/
     (c <= wp_hb w /\ w1 = w /\ out = [])).
Proof.
  intros Ew Hfr E. unfold deliver_sub_R in E. rewrite Ew in E.
  destruct (on_hb cf w f l c) as [w1 o1] eqn:Eh. rewrite (on_hb_nofrag cf w f l c Hfr) in Eh.
  assert (Hr1 : rd_wp r1 = Some w1 /\ out = o1).
  { destruct (hist_received (rd_wp (rd_present r w1 None))); inversion E; subst; cbn; auto. }
  destruct Hr1 as (Q1 & ->). exists w1.
  destruct (Z.ltb_spec (wp_hb w) c) as [Hlt|Hge]; inversion Eh; subst w1 o1; cbn.
  - refine (conj Q1 (conj eq_refl (conj eq_refl (or_introl _)))). repeat split; try lia; reflexivity.
  - refine (conj Q1 (conj Hfr (conj eq_refl (or_intror _)))). repeat split; try lia; reflexivity.
Qed.

(* delivery of one shaped datagram to a reader without buffered fragments *)
Lemma deliver_R_shape cf r w d r1 out : rd_wp r = Some w -> wp_frags w = [] -> nshape d -> dg_toR d = true ->
  deliver_subs_R cf r (dg_subs d) [] = (r1, out) ->
  exists w1, rd_wp r1 = Some w1 /\ wp_frags w1 = [] /\ wp_hr w <= wp_hr w1 /\
    ((wp_hb w1 = wp_hb w /\ wp_an w1 = wp_an w /\ wp_la w1 = wp_la w /\ out = [] /\
      (forall f l c, In (SHb f l c) (dg_subs d) -> c <= wp_hb w)) \/
     (exists f l c, In (SHb f l c) (dg_subs d) /\ wp_hb w < c /\ wp_hb w1 = c /\ wp_an w1 = wp_an w + 1 /\
        wp_la w1 = l /\
        out = [toW [SAck (Z.max (f - 1) (wp_hr w1) + 1)
                         (firstn 256 (zrange (Z.max f (wp_hr w1 + 1)) (Z.max l (wp_hr w1)))) (wp_an w + 1)]])).
Proof.
  intros Ew Hfr Hsh Hdir E. destruct Hsh; cbn in Hdir; try discriminate; cbn [dg_subs toR deliver_subs_R] in E.
  - (* DATA *) destruct (deliver_sub_R cf r (SData c)) as [r' o] eqn:Em.
    destruct (step_nohb cf r w (SData c) r' o Ew Hfr I Em) as (w1 & A & B & C & D & F & G & ->).
    inversion E; subst. exists w1. refine (conj A (conj B (conj C (or_introl _)))).
    repeat split; try assumption. intros f l c0 [Hx|[]]. discriminate.
  - (* DATA + HEARTBEAT *) destruct (deliver_sub_R cf r (SData c)) as [r' o] eqn:Em.
    destruct (step_nohb cf r w (SData c) r' o Ew Hfr I Em) as (w' & A & B & C & D & F & G & ->).
    destruct (deliver_sub_R cf r' (SHb f l cnt)) as [r2 o2] eqn:Em2.
    destruct (step_hb cf r' w' f l cnt r2 o2 A B Em2) as (w1 & A1 & B1 & C1 & Hc).
    cbn in E. inversion E; subst. exists w1. refine (conj A1 (conj B1 (conj _ _))); [lia|].
    destruct Hc as [(H1 & H2 & H3 & H4 & ->)|(H1 & -> & ->)].
    + right. exists f, l, cnt. rewrite C1. repeat split; try lia; try assumption; try (right; left; reflexivity); try (rewrite F; reflexivity).
    + left. repeat split; try assumption. intros f0 l0 c0 [Hx|[Hx|[]]]; [discriminate|]. inversion Hx; subst. lia.
  - (* GAP *) destruct (deliver_sub_R cf r (SGap a b)) as [r' o] eqn:Em.
    destruct (step_nohb cf r w (SGap a b) r' o Ew Hfr I Em) as (w1 & A & B & C & D & F & G & ->).
    inversion E; subst. exists w1. refine (conj A (conj B (conj C (or_introl _)))).
    repeat split; try assumption. intros f l c0 [Hx|[]]. discriminate.
  - (* GAP + HEARTBEAT *) destruct (deliver_sub_R cf r (SGap a b)) as [r' o] eqn:Em.
    destruct (step_nohb cf r w (SGap a b) r' o Ew Hfr I Em) as (w' & A & B & C & D & F & G & ->).
    destruct (deliver_sub_R cf r' (SHb f l cnt)) as [r2 o2] eqn:Em2.
    destruct (step_hb cf r' w' f l cnt r2 o2 A B Em2) as (w1 & A1 & B1 & C1 & Hc).
    cbn in E. inversion E; subst. exists w1. refine (conj A1 (conj B1 (conj _ _))); [lia|].
    destruct Hc as [(H1 & H2 & H3 & H4 & ->)|(H1 & -> & ->)].
    + right. exists f, l, cnt. rewrite C1. repeat split; try lia; try assumption; try (right; left; reflexivity); try (rewrite F; reflexivity).
    + left. repeat split; try assumption. intros f0 l0 c0 [Hx|[Hx|[]]]; [discriminate|]. inversion Hx; subst. lia.
  - (* HEARTBEAT *) destruct (deliver_sub_R cf r (SHb f l cnt)) as [r2 o2] eqn:Em2.
    destruct (step_hb cf r w f l cnt r2 o2 Ew Hfr Em2) as (w1 & A1 & B1 & C1 & Hc).
    cbn in E. inversion E; subst. exists w1. refine (conj A1 (conj B1 (conj _ _))); [lia|].
    destruct Hc as [(H1 & H2 & H3 & H4 & ->)|(H1 & -> & ->)].
    + right. exists f, l, cnt. rewrite C1. repeat split; try lia; try assumption; try (left; reflexivity).
    + left. repeat split; try reflexivity. intros f0 l0 c0 [Hx|[]]. inversion Hx; subst. lia.
Qed.

Lemma unsent_rel_an fuel cf now chs : forall p acc, rp_an (fst (unsent_rel fuel cf now chs p acc)) = rp_an p.
Proof.
  induction fuel as [|f IH]; intros p acc; cbn [unsent_rel]; [reflexivity|].
  destruct (next_unsent p chs) as [n|]; [|reflexivity].
  destruct (rp_hs p + 1 <? n); [unfold gen_hb; rewrite IH; reflexivity|].
  destruct (lookup_relevant p n chs) as [c|]; [|rewrite IH; reflexivity].
  unfold gen_hb. destruct (1 <? nfrags cf c); rewrite IH; reflexivity.
Qed.
Lemma req_loop_an fuel cf now chs : forall p acc, rp_an (fst (req_loop fuel cf now chs p acc)) = rp_an p.
Proof.
  induction fuel as [|f IH]; intros p acc; cbn [req_loop]; [reflexivity|].
  destruct (zmin_list (rp_req p)) as [n|]; [|reflexivity].
  match goal with |- context [lookup_relevant ?q n chs] => destruct (lookup_relevant q n chs) as [c|] end.
  - unfold gen_hb. destruct (1 <? nfrags cf c); rewrite IH; reflexivity.
  - rewrite IH. reflexivity.
Qed.
Lemma write_rel_an cf now chs p : rp_an (fst (write_rel cf now chs p)) = rp_an p.
Proof.
  unfold write_rel.
  match goal with |- context [let '(p1, out1) := ?X in _] => destruct X as [p1 out1] eqn:E1 end.
  rewrite req_loop_an.
  destruct (next_unsent p chs).
  - replace p1 with (fst (unsent_rel (S (length chs)) cf now chs p [])) by (rewrite E1; reflexivity).
    apply unsent_rel_an.
  - destruct (negb _); [inversion E1; reflexivity|].
    destruct (time_for_hb p now); unfold gen_hb in E1; inversion E1; reflexivity.
Qed.

(* ------------------------------------------------------------------ the writer's answer to an ACKNACK *)
Lemma req_add_in req set n : In n req \/ In n set -> In n (req_add req set).
Proof.
  revert req. induction set as [|x t IH]; intros req [H|H]; cbn; try assumption; try contradiction.
  - apply IH. left. destruct (zmem x req); [assumption|apply in_or_app; left; assumption].
  - destruct H as [->|H].
    + apply IH. left. destruct (zmem n req) eqn:E; [|apply in_or_app; right; left; reflexivity].
      unfold zmem in E. apply existsb_exists in E. destruct E as [y [Hy Ey]]. apply Z.eqb_eq in Ey. subst y. assumption.
    + apply IH. right. assumption.
Qed.

Lemma on_acknack_G last cf now chs p base set count :
  Contig chs last -> unfrag cf chs -> rp_rel p = true ->
  0 <= rp_hs p <= last -> 0 <= rp_ha p -> Forall (fun n => 1 <= n <= last) (rp_req p) ->
  Forall (fun n => 1 <= n <= last) set ->
  let r := on_acknack cf now chs p base set count in
  let q := fst (fst r) in let out := snd (fst r) in
  rp_hbc p <= rp_hbc q /\ Forall (hdg (rp_hbc p) (rp_hbc q) last) out /\ Forall nshape out /\
  (rp_hbc p < rp_hbc q -> has_hb (rp_hbc q) last out) /\
  rp_an q = (if rp_an p <? count then count else rp_an p) /\ rp_static q = rp_static p /\
  (rp_an p < count -> (exists n, In n set /\ rp_fr p < n) -> rp_hbc p < rp_hbc q).
Proof.
  intros Hc Hu Hrel Hhs Hha Hreq Hset. unfold on_acknack.
  replace (rp_rel p && (rp_an p <? count)) with (rp_an p <? count) by (rewrite Hrel; reflexivity).
  destruct (Z.ltb_spec (rp_an p) count) as [Hacc|Hnacc].
  2:{ cbn. repeat split; try lia; try constructor. }
  lazy beta iota zeta.
  set (p1 := mkRP (rp_rel p) (rp_tl p) (rp_hs p) (if rp_ha p <? base - 1 then base - 1 else rp_ha p)
                  (req_add (rp_req p) set) (rp_fr p) count (rp_nf p) (rp_hbc p) (rp_hbt p)).
  assert (Hha1 : 0 <= rp_ha p1) by (cbn; destruct (rp_ha p <? base - 1) eqn:E; [apply Z.ltb_lt in E; lia|assumption]).
  pose proof (write_rel_live last cf now chs p1 Hc Hu Hhs Hha1 (req_add_bound _ _ _ Hreq Hset)) as H. lazy zeta in H.
  pose proof (write_rel_static cf now chs p1) as Hst.
  pose proof (write_rel_an cf now chs p1) as Han.
  pose proof (write_rel_shape cf now chs p1 Hu) as Hsh.
  assert (E1 : rp_hbc p1 = rp_hbc p) by reflexivity.
  assert (E3 : rp_fr p1 = rp_fr p) by reflexivity.
  destruct (write_rel cf now chs p1) as [p2 out]. cbn [fst snd] in *.
  destruct H as (W1 & W2 & W3 & W4 & W5 & W6 & _).
  lazy zeta. cbn [fst snd].
  split; [lia|]. split; [rewrite <- E1; assumption|]. split; [assumption|]. split; [rewrite <- E1; assumption|].
  split; [rewrite Han; reflexivity|]. split; [rewrite Hst; reflexivity|].
  intros _ [n [Hn Hfr]]. rewrite <- E1. apply W6. exists n. split; [|lia]. cbn. apply req_add_in. right. assumption.
Qed.

(* ------------------------------------------------------------------ shapes are invariant in the class *)
Definition ShInv (s : state) : Prop :=
  Forall nshape (s_net s) /\ (forall r w, s_rd s = Some r -> rd_wp r = Some w -> wp_frags w = []).

Lemma Sh_poke cf s : unfrag cf (s_changes s) -> ShInv s -> ShInv (poke cf s).
Proof.
  intros Hu [H1 H2]. unfold poke. destruct (s_rp s) as [p|]; [|split; assumption].
  pose proof (write_message_shape cf (s_now s) (s_changes s) p Hu) as Hs.
  destruct (write_message cf (s_now s) (s_changes s) p) as [p1 out]. cbn [snd] in Hs. split; cbn.
  - apply Forall_app; split; [assumption|apply Forall_filter; assumption].
  - assumption.
Qed.

Lemma Sh_deliver cf s d : unfrag cf (s_changes s) -> ShInv s -> nshape d -> ShInv (deliver_dgram cf s d).
Proof.
  intros Hu HSh Hd. pose proof HSh as [H1 H2]. unfold deliver_dgram. destruct (dg_toR d) eqn:Edir.
  - destruct (s_rdead s); [exact HSh|]. destruct (s_rd s) as [r|] eqn:Er; [|exact HSh].
    destruct (rd_alive r); [|exact HSh].
    destruct (deliver_subs_R cf r (dg_subs d) []) as [r1 out] eqn:E.
    destruct (rd_wp r) as [w|] eqn:Ew.
    + destruct (deliver_R_shape cf r w d r1 out Ew (H2 r w eq_refl Ew) Hd Edir E) as (w1 & A & B & C & Hc).
      split; cbn.
      * apply Forall_app; split; [assumption|]. apply Forall_filter.
        destruct Hc as [(_ & _ & _ & -> & _)|(f & l & c & _ & _ & _ & _ & _ & ->)]; [constructor|].
        constructor; [constructor|constructor].
      * intros r' w' Hr' Hw'. injection Hr' as <-. congruence.
    + rewrite (deliver_subs_R_nowp cf r (dg_subs d) [] Ew) in E. inversion E; subst. split; cbn.
      * rewrite app_nil_r. assumption.
      * intros r' w' Hr' Hw'. injection Hr' as <-. congruence.
  - destruct Hd; cbn in Edir; try discriminate. cbn [dg_subs toW fold_left].
    unfold deliver_sub_W. destruct (s_rp s) as [p|]; [|exact HSh].
    assert (Hsh : Forall nshape (snd (fst (on_acknack cf (s_now s) (s_changes s) p b set cnt)))).
    { unfold on_acknack. destruct (rp_rel p && _); [|constructor].
      match goal with |- context [write_rel cf (s_now s) (s_changes s) ?q] =>
        pose proof (write_rel_shape cf (s_now s) (s_changes s) q Hu) as Hs;
        destruct (write_rel cf (s_now s) (s_changes s) q) as [p2 out] end. exact Hs. }
    destruct (on_acknack cf (s_now s) (s_changes s) p b set cnt) as [[p1 out] sm]. cbn [fst snd] in Hsh.
    assert (Hres : ShInv (send (set_rp s (Some p1)) out)).
    { split; cbn; [|assumption]. apply Forall_app; split; [assumption|apply Forall_filter; assumption]. }
    destruct (sm && _); [|exact Hres]. destruct Hres as [X Y]. split; assumption.
Qed.

Lemma Sh_pump cf fuel : forall s n, unfrag cf (s_changes s) -> ShInv s -> ShInv (fst (pump fuel cf s n)).
Proof.
  induction fuel as [|f IH]; intros s n Hu H; cbn [pump]; [assumption|].
  destruct (s_net s) as [|d t] eqn:En; [assumption|].
  assert (Hd : nshape d /\ Forall nshape t) by (destruct H as [H1 _]; rewrite En in H1; inversion H1; auto).
  assert (Hu' : unfrag cf (s_changes (deliver_dgram cf (set_net s t) d))).
  { destruct (core_proj _ _ (deliver_dgram_core cf (set_net s t) d)) as (C1 & _). rewrite C1. assumption. }
  apply IH.
  - destruct (core_proj _ _ (poke_core cf (deliver_dgram cf (set_net s t) d))) as (C1 & _). rewrite C1. assumption.
  - apply Sh_poke; [assumption|]. apply Sh_deliver; [assumption| |tauto].
    destruct H as [_ H2]. split; [tauto|assumption].
Qed.

Lemma Sh_step cf s a : 0 < fsz cf -> depth cf = 0 -> live_act cf a = true ->
  unfrag cf (s_changes s) -> ShInv s -> ShInv (fst (step cf s a)) /\ unfrag cf (s_changes (fst (step cf s a))).
Proof.
  intros Hf Hd Ha Hu HS. unfold step.
  assert (H : ShInv (fst (act cf s a)) /\ unfrag cf (s_changes (fst (act cf s a)))).
  { destruct a; cbn [act]; try discriminate.
    - cbn in Ha. apply andb_prop in Ha. destruct Ha as [H1 H2]. apply Z.leb_le in H1. apply Z.leb_le in H2.
      pose proof (do_write_frame cf s key len sum) as (F1 & F2 & F3 & _).
      pose proof (do_write_spec cf s key len sum) as Hw.
      destruct (do_write cf s key len sum) as [s1 code]. cbn [fst snd] in *.
      destruct Hw as [[-> _]|[chs1 (W1 & W2 & _ & _ & _ & W6)]]; [tauto|]. specialize (W6 Hd). subst chs1.
      split.
      + destruct HS as [X Y]. split; [rewrite F3; assumption|rewrite F2; assumption].
      + rewrite W2. intros c Hc. apply in_app_or in Hc. destruct Hc as [Hc|[<-|[]]]; [apply Hu; assumption|].
        apply nfrags_le1; [assumption|lia].
    - cbn. tauto.
    - destruct (nth_error (s_net s) i) as [d|] eqn:E; [|tauto]. cbn [fst]. split.
      + apply Sh_deliver; [assumption| |].
        * destruct HS as [X Y]. split; [apply Forall_remove_nth; assumption|assumption].
        * destruct HS as [X _]. eapply Forall_nth_error; eassumption.
      + destruct (core_proj _ _ (deliver_dgram_core cf (set_net s (remove_nth i (s_net s))) d)) as (C1 & _). rewrite C1. assumption.
    - destruct (nth_error (s_net s) i) as [d|] eqn:E; [|tauto]. cbn [fst]. split; [|assumption].
      destruct HS as [X Y]. split; [apply Forall_remove_nth; assumption|assumption].
    - destruct (nth_error (s_net s) i) as [d|] eqn:E; [|tauto]. cbn [fst].
      assert (Hd' : nshape d) by (destruct HS as [X _]; eapply Forall_nth_error; eassumption).
      assert (H1 : ShInv (deliver_dgram cf (set_net s (remove_nth i (s_net s))) d)).
      { apply Sh_deliver; [assumption| |assumption]. destruct HS as [X Y]. split; [apply Forall_remove_nth; assumption|assumption]. }
      destruct (core_proj _ _ (deliver_dgram_core cf (set_net s (remove_nth i (s_net s))) d)) as (C1 & _).
      destruct (core_proj _ _ (poke_core cf (deliver_dgram cf (set_net s (remove_nth i (s_net s))) d))) as (C2 & _).
      destruct (core_proj _ _ (deliver_dgram_core cf (poke cf (deliver_dgram cf (set_net s (remove_nth i (s_net s))) d)) d)) as (C3 & _).
      split.
      + apply Sh_deliver; [rewrite C2, C1; assumption| |assumption]. apply Sh_poke; [rewrite C1; assumption|assumption].
      + rewrite C3, C2, C1. assumption.
    - pose proof (Sh_pump cf pump_fuel s 0 Hu HS) as Hp. pose proof (pump_core cf pump_fuel s 0) as Hc.
      destruct (pump pump_fuel cf s 0) as [s1 n]. cbn [fst] in *. split; [assumption|].
      destruct (core_proj _ _ Hc) as (C1 & _). rewrite C1. assumption.
    - destruct (s_rd s) as [r|] eqn:Er; [|tauto]. destruct (rd_alive r); [|tauto]. cbn [fst]. split; [|assumption].
      destruct HS as [X Y]. split; [assumption|]. intros r' w' Hr' Hw'. cbn in Hr'. injection Hr' as <-. cbn in Hw'.
      apply (Y r w' Er Hw').
    - destruct (s_rd s) as [r|] eqn:Er; [tauto|]. destruct (s_rdead s || _); [tauto|].
      destruct (rxo_ok cf rel tl); cbn [fst].
      + split.
        * apply Sh_poke; [assumption|]. destruct HS as [X Y]. split; [assumption|].
          intros r' w' Hr' Hw'. cbn in Hr'. injection Hr' as <-. cbn in Hw'. injection Hw' as <-. reflexivity.
        * match goal with |- unfrag cf (s_changes (poke cf ?st)) =>
            destruct (core_proj _ _ (poke_core cf st)) as (C1 & _); rewrite C1 end. assumption.
      + split; [|assumption]. destruct HS as [X Y]. split; [assumption|].
        intros r' w' Hr' Hw'. cbn in Hr'. injection Hr' as <-. cbn in Hw'. discriminate.
    - destruct (is_acked _ _); cbn; tauto.
    - destruct (poll (s_waits s)). cbn. tauto.
    - destruct (s_rd s) as [r|] eqn:Er; [|tauto]. destruct (negb (rd_alive r)); [tauto|].
      destruct (negb (rd_tl r)); [tauto|].
      destruct (hist_received _); cbn [fst]; (split; [|assumption]); destruct HS as [X Y]; (split; [assumption|]);
        intros r' w' Hr' Hw'; cbn in Hr'; injection Hr' as <-; cbn in Hw'; apply (Y r w' Er Hw').
    - destruct (s_rd s) as [r|] eqn:Er; [|tauto]. destruct (poll (rd_hwaits r)). cbn [fst]. split; [|assumption].
      destruct HS as [X Y]. split; [assumption|].
      intros r' w' Hr' Hw'. cbn in Hr'. injection Hr' as <-. cbn in Hw'. apply (Y r w' Er Hw').
    - tauto.
    - tauto. }
  destruct H as [H1 H2]. destruct (act cf s a) as [s1 o]. cbn [fst] in *. split.
  - apply Sh_poke; assumption.
  - destruct (core_proj _ _ (poke_core cf s1)) as (C1 & _). rewrite C1. assumption.
Qed.
