(* C01/C03/C04 — liveness in the hole-free, unfragmented class (stage 1): KEEP_ALL, no removal, no
   deletion, every sample fits one DATA submessage.  After a heartbeat period (5 ticks) any loss-free
   delivery that drains the network leaves the reliable reader with every relevant change. *)
From DustDDS Require Import Base.Machine Proto.RelModel Proto.RelProofs Proto.RelSound.
Open Scope Z_scope.

(* ------------------------------------------------------------------ the writer, heartbeat counts *)
Definition unfrag (cf : cfg) (chs : list change) : Prop := forall c, In c chs -> nfrags cf c <= 1.

(* what write_message_reliable emits: DATA+HEARTBEAT, GAP, HEARTBEAT; every heartbeat is fresh *)
Definition hsub (lo hi last : Z) (m : submsg) : Prop :=
  match m with
  | SHb f l c => lo < c <= hi /\ f = 1 /\ l = last
  | SFrag _ _ | SAck _ _ _ | SNack _ _ _ _ => False
  | _ => True
  end.
Definition hdg (lo hi last : Z) (d : dgram) : Prop := dg_toR d = true /\ Forall (hsub lo hi last) (dg_subs d).

Lemma hdg_mono lo lo' hi hi' last d : lo' <= lo -> hi <= hi' -> hdg lo hi last d -> hdg lo' hi' last d.
Proof.
  intros A B [T H]. split; [assumption|]. eapply Forall_impl; [|exact H]. intros m. destruct m; cbn; try tauto. lia.
Qed.

Definition has_hb (c last : Z) (l : list dgram) : Prop := exists d, In d l /\ In (SHb 1 last c) (dg_subs d).

Lemma unsent_rel_live last fuel cf now chs : Contig chs last -> unfrag cf chs ->
  forall p acc lo, 0 <= rp_hs p <= last -> (last - rp_hs p <= Z.of_nat fuel) ->
  lo <= rp_hbc p -> Forall (hdg lo (rp_hbc p) last) acc ->
  (lo < rp_hbc p -> has_hb (rp_hbc p) last acc) ->
  let r := unsent_rel fuel cf now chs p acc in
  rp_hs (fst r) = last /\ rp_hbc p <= rp_hbc (fst r) /\
  Forall (hdg lo (rp_hbc (fst r)) last) (snd r) /\
  (lo < rp_hbc (fst r) -> has_hb (rp_hbc (fst r)) last (snd r)) /\
  (rp_hbt (fst r) = rp_hbt p \/ rp_hbt (fst r) = now).
Proof.
  intros Hc Hu. induction fuel as [|f IH]; intros p acc lo Hhs Hfuel Hlo Ha Hhb; cbn [unsent_rel].
  { cbn. repeat split; try lia; try assumption; try (left; reflexivity). }
  rewrite (contig_next_unsent chs last p Hc) by lia.
  destruct (Z.ltb_spec (rp_hs p) last) as [Hlt|Hge].
  2:{ cbn. repeat split; try lia; try assumption; try (left; reflexivity). }
  assert (rp_hs p + 1 <? rp_hs p + 1 = false) as -> by (apply Z.ltb_ge; lia).
  assert (Hin : In (rp_hs p + 1) (sns chs)) by (apply (contig_in chs last _ Hc); lia).
  assert (Hhbv : first_sn chs = 1 /\ last_sn chs = last) by (split; [eapply contig_first|eapply contig_last]; eassumption).
  destruct (lookup_relevant p (rp_hs p + 1) chs) as [c|] eqn:El.
  - unfold gen_hb. destruct Hhbv as [-> ->].
    apply lookup_relevant_in in El. destruct El as (Hcin & _ & _).
    assert (1 <? nfrags cf c = false) as -> by (apply Z.ltb_ge; apply Hu; assumption).
    match goal with |- context [unsent_rel f cf now chs ?q ?a] => specialize (IH q a lo) end.
    cbn [rp_hs rp_hbc rp_hbt set_hs fst snd] in IH.
    destruct (Z.ltb_spec (rp_hs p) (rp_hs p + 1)); [|lia].
    destruct IH as (A & B & C & D & E); try lia.
    + apply Forall_app; split.
      * eapply Forall_impl; [|exact Ha]. intros d. apply hdg_mono; lia.
      * constructor; [|constructor]. split; [reflexivity|]. cbn. constructor; [exact I|]. constructor; [|constructor]. cbn. lia.
    + intros _. exists (toR [SData c; SHb 1 last (rp_hbc p + 1)]). split; [apply in_or_app; right; left; reflexivity|].
      cbn. right. left. reflexivity.
    + repeat split; try assumption; try lia.
  - apply lookup_relevant_none in El; [|assumption].
    match goal with |- context [unsent_rel f cf now chs ?q ?a] => specialize (IH q a lo) end.
    cbn [rp_hs rp_hbc rp_hbt set_hs fst snd] in IH.
    destruct (Z.ltb_spec (rp_hs p) (rp_hs p + 1)); [|lia].
    destruct IH as (A & B & C & D & E); try lia; try assumption.
    + apply Forall_app; split; [assumption|].
      constructor; [|constructor]. split; [reflexivity|]. cbn. constructor; [exact I|constructor].
    + intros Hl. destruct (Hhb Hl) as [d [Hd Hs]]. exists d. split; [apply in_or_app; left; assumption|assumption].
    + repeat split; assumption.
Qed.

Lemma req_loop_live last fuel cf now chs : Contig chs last -> unfrag cf chs ->
  forall p acc lo, Forall (fun n => 1 <= n <= last) (rp_req p) ->
  lo <= rp_hbc p -> Forall (hdg lo (rp_hbc p) last) acc ->
  (lo < rp_hbc p -> has_hb (rp_hbc p) last acc) ->
  (Z.of_nat (length (rp_req p)) < Z.of_nat fuel) ->
  let r := req_loop fuel cf now chs p acc in
  rp_hbc p <= rp_hbc (fst r) /\
  Forall (hdg lo (rp_hbc (fst r)) last) (snd r) /\
  (lo < rp_hbc (fst r) -> has_hb (rp_hbc (fst r)) last (snd r)) /\
  (rp_hbt (fst r) = rp_hbt p \/ rp_hbt (fst r) = now) /\
  ((exists n, In n (rp_req p) /\ rp_fr p < n) -> rp_hbc p < rp_hbc (fst r)).
Proof.
  intros Hc Hu. induction fuel as [|f IH]; intros p acc lo Hreq Hlo Ha Hhb Hfuel; cbn [req_loop].
  { lia. }
  destruct (zmin_list (rp_req p)) as [n|] eqn:En.
  2:{ apply zmin_list_none in En. cbn. repeat split; try lia; try assumption; try (left; reflexivity).
      intros [n [Hn _]]. rewrite En in Hn. contradiction. }
  apply zmin_list_spec in En. destruct En as [Hn Hmin].
  assert (Hnr : 1 <= n <= last) by (rewrite Forall_forall in Hreq; auto).
  assert (Hin : In n (sns chs)) by (apply (contig_in chs last _ Hc); lia).
  assert (Hhbv : first_sn chs = 1 /\ last_sn chs = last) by (split; [eapply contig_first|eapply contig_last]; eassumption).
  set (p0 := set_req p (filter (fun s => negb (s =? n)) (rp_req p))).
  assert (Hreq0 : Forall (fun n => 1 <= n <= last) (rp_req p0)) by (subst p0; cbn; apply Forall_filter; assumption).
  assert (Hlen0 : Z.of_nat (length (rp_req p0)) < Z.of_nat f).
  { subst p0. cbn [rp_req set_req].
    assert (length (filter (fun s => negb (s =? n)) (rp_req p)) < length (rp_req p))%nat; [|lia].
    clear - Hn. induction (rp_req p) as [|x t IHt]; [contradiction|]. cbn.
    destruct (Z.eqb_spec x n) as [->|Hne]; cbn.
    - pose proof (filter_length_le (fun s => negb (s =? n)) t). lia.
    - destruct Hn as [Hx|Hn]; [congruence|]. specialize (IHt Hn). lia. }
  destruct (lookup_relevant p0 n chs) as [c|] eqn:El.
  - unfold gen_hb. destruct Hhbv as [-> ->].
    apply lookup_relevant_in in El. destruct El as (Hcin & _ & _).
    assert (1 <? nfrags cf c = false) as -> by (apply Z.ltb_ge; apply Hu; assumption).
    match goal with |- context [req_loop f cf now chs ?q ?a] => specialize (IH q a lo) end.
    cbn [rp_req rp_hbc rp_hbt rp_fr fst snd] in IH.
    destruct IH as (A & B & C & D & E); try lia; try assumption.
    + apply Forall_app; split.
      * eapply Forall_impl; [|exact Ha]. intros d. apply hdg_mono; lia.
      * constructor; [|constructor]. split; [reflexivity|]. cbn. constructor; [exact I|]. constructor; [|constructor]. cbn.
        subst p0; cbn. lia.
    + intros _. exists (toR [SData c; SHb 1 last (rp_hbc p0 + 1)]). split; [apply in_or_app; right; left; reflexivity|].
      cbn. right. left. reflexivity.
    + subst p0; cbn in *. repeat split; try assumption; try lia.
      destruct D as [D|D]; [right; exact D|right; exact D].
  - pose proof El as El'. apply lookup_relevant_none in El'; [|assumption]. subst p0. cbn [rp_fr set_req] in El'.
    specialize (IH (set_req p (filter (fun s => negb (s =? n)) (rp_req p))) (acc ++ [toR [SGap n (n + 1)]]) lo).
    cbn [rp_req rp_hbc rp_hbt rp_fr set_req fst snd] in IH.
    destruct IH as (A & B & C & D & E); try lia; try assumption.
    + apply Forall_app; split; [assumption|].
      constructor; [|constructor]. split; [reflexivity|]. cbn. constructor; [exact I|constructor].
    + intros Hl. destruct (Hhb Hl) as [d [Hd Hs]]. exists d. split; [apply in_or_app; left; assumption|assumption].
    + repeat split; try assumption.
      intros [m [Hm Hfr]]. apply E. exists m. split; [|assumption].
      apply filter_In. split; [assumption|]. apply negb_true_iff. apply Z.eqb_neq. lia.
Qed.
