(* C01/C03/C04 — concrete schedules on the model (each one replayed on the real stack by the
   corpus of the corresponding check): the defects recorded as known findings, and non-trivial
   positive examples.  Everything here is closed computation (vm_compute). *)
From DustDDS Require Import Base.Machine Proto.RelModel.
Open Scope Z_scope.

(* --- GAP skip: KEEP_LAST(1), two instances: the writer holds {1,3}; a late reliable
   TRANSIENT_LOCAL reader loses DATA(1) but gets GAP(2): highest_received jumps to 2, sample 1
   is never requested again; the writer considers everything acknowledged and
   wait_for_historical_data completes *)
Definition cf_gap : cfg := mkCfg 1344 true true 1.
Definition sched_gap : list action :=
  [AWrite 1 24 11; AWrite 2 24 22; AWrite 2 24 33; AMatch true true; AWfh; ADrop 0] ++ heal 3.

Lemma gap_skip_witness :
  let s := run cf_gap init sched_gap in
  s_changes s = [mkCh 1 1 24 11; mkCh 3 2 24 33] /\      (* still held *)
  presented s = [mkCh 3 2 24 33] /\                      (* sample 1 never presented *)
  s_net s = [] /\                                        (* nothing in flight after three healing rounds *)
  is_acked (s_rp s) (s_last s) = true /\                 (* wait_for_acknowledgments succeeds *)
  snd (step cf_gap s AWfhPoll) = OPoll [0].              (* wait_for_historical_data completed *)
Proof. vm_compute. repeat split; reflexivity. Qed.

(* --- parked callers are forgotten: the matched reliable reader is deleted while a sample is
   unacknowledged; the RTPS reader proxy is deleted with it (so a FRESH wait_for_acknowledgments call
   succeeds at once), but the wait list is only re-evaluated when an ACKNACK is accepted: the caller
   parked earlier is never answered *)
Definition cf_plain : cfg := mkCfg 1344 true false 0.
Definition sched_stale (del : action) : list action :=
  [AMatch true false; AWrite 1 24 11; ADrop 0; AWfa; del] ++ heal 3.

Lemma stale_waiter_witness_reader :
  let s := run cf_plain init (sched_stale ADelReader) in
  s_rp s = None /\ s_dcps s = false /\ s_net s = [] /\
  snd (step cf_plain s AWfaPoll) = OPoll [1] /\ snd (step cf_plain s AWfa) = OCode 0.
Proof. vm_compute. repeat split; reflexivity. Qed.

Lemma stale_waiter_witness_participant :
  let s := run cf_plain init (sched_stale ADelPart) in
  s_rp s = None /\ s_dcps s = false /\ s_net s = [] /\
  snd (step cf_plain s AWfaPoll) = OPoll [1] /\ snd (step cf_plain s AWfa) = OCode 0.
Proof. vm_compute. repeat split; reflexivity. Qed.

(* --- a BEST_EFFORT VOLATILE reader that matches late is sent (and presents) the retained history:
   the best-effort path of the writer does not look at first_relevant_sample_seq_num *)
Lemma volatile_best_effort_witness :
  let before := [AWrite 1 24 11; AWrite 1 24 22] in
  let s := run cf_plain init (before ++ [AMatch false false; APump]) in
  presented s = s_log (run cf_plain init before) /\ presented s = [mkCh 1 1 24 11; mkCh 2 1 24 22].
Proof. vm_compute. split; reflexivity. Qed.

(* --- positive examples (non-vacuity of the liveness statements) *)
(* DATA(1) lost, DATA(2) overtaken by DATA(3), DATA(3) duplicated: one healing round repairs everything,
   the parked wait_for_acknowledgments is answered *)
Definition cf_small : cfg := mkCfg 64 true false 0.
Lemma heal_example_unfragmented :
  let sched := [AMatch true false; AWrite 1 24 11; AWrite 2 24 22; AWrite 1 24 33;
                ADrop 0; ADeliver 1; ADup 0; AWfa] ++ heal 1 in
  let s := run cf_small init sched in
  presented s = s_log s /\ s_net s = [] /\ length (s_log s) = 3%nat /\
  snd (step cf_small s AWfaPoll) = OPoll [0].
Proof. vm_compute. repeat split; reflexivity. Qed.

(* a fragment of a three-fragment sample is lost: HEARTBEAT -> ACKNACK + NACK_FRAG -> the fragment is
   resent; after the second round the writer knows it is acknowledged *)
Lemma heal_example_lost_fragment :
  let s := run cf_small init ([AMatch true false; AWrite 1 132 11; ADrop 1] ++ heal 2) in
  presented s = [mkCh 1 1 132 11] /\ s_net s = [] /\ is_acked (s_rp s) (s_last s) = true.
Proof. vm_compute. repeat split; reflexivity. Qed.

(* every fragment of the sample is lost: the ACKNACK repair resends fragment 1 only, the reader then
   asks for the rest with a NACK_FRAG *)
Lemma heal_example_lost_fragmented_sample :
  let s := run cf_small init ([AMatch true false; AWrite 1 132 11; ADrop 0; ADrop 0; ADrop 0] ++ heal 2) in
  presented s = [mkCh 1 1 132 11] /\ s_net s = [] /\ is_acked (s_rp s) (s_last s) = true.
Proof. vm_compute. repeat split; reflexivity. Qed.

(* a late TRANSIENT_LOCAL reader gets the retained history (KEEP_LAST 2, one instance) despite a lost
   DATA, and wait_for_historical_data completes *)
Lemma heal_example_history :
  let s := run (mkCfg 1344 true true 2) init
             ([AWrite 1 24 11; AWrite 1 24 22; AWrite 1 24 33; AMatch true true; AWfh; ADrop 1] ++ heal 2) in
  s_changes s = [mkCh 2 1 24 22; mkCh 3 1 24 33] /\ presented s = s_changes s /\
  snd (step (mkCfg 1344 true true 2) s AWfhPoll) = OPoll [0].
Proof. vm_compute. repeat split; reflexivity. Qed.

(* --- the unrestricted statements are false on the faithful model *)
(* "every sample the writer still holds (and that is relevant for the reader) is eventually presented" *)
Definition reliable_liveness_full : Prop :=
  forall cf sched k, (rounds_needed sched <= k)%nat -> delivered (run cf init (sched ++ heal k)).

Lemma reliable_liveness_full_refuted : ~ reliable_liveness_full.
Proof.
  intros H.
  specialize (H cf_gap [AWrite 1 24 11; AWrite 2 24 22; AWrite 2 24 33; AMatch true true; ADrop 0] 8%nat).
  assert (Hk : (rounds_needed [AWrite 1 24 11; AWrite 2 24 22; AWrite 2 24 33; AMatch true true; ADrop 0] <= 8)%nat)
    by (vm_compute; lia).
  specialize (H Hk). unfold delivered in H.
  set (s := run cf_gap init ([AWrite 1 24 11; AWrite 2 24 22; AWrite 2 24 33; AMatch true true; ADrop 0] ++ heal 8)) in *.
  assert (E : exists p r w, s_rp s = Some p /\ rp_rel p = true /\ rp_fr p = 0 /\ s_rd s = Some r /\ rd_wp r = Some w /\
                 rd_pres r = [mkCh 3 2 24 33] /\ In (mkCh 1 1 24 11) (s_changes s)).
  { vm_compute. do 3 eexists. repeat split; try reflexivity. left. reflexivity. }
  destruct E as (p & r & w & E1 & E2 & E3 & E4 & E5 & E6 & E7).
  specialize (H p r w E1 E2 E4 E5 (mkCh 1 1 24 11) E7). rewrite E3, E6 in H.
  destruct H as [H|[]]; [cbn; lia|discriminate].
Qed.

(* "wait_for_acknowledgments succeeds only if every matched reliable reader has every held relevant change" *)
Definition wfa_sound_full : Prop :=
  forall cf sched, let s := run cf init sched in ackd s = true -> delivered s.

Lemma wfa_sound_full_refuted : ~ wfa_sound_full.
Proof.
  intros H. specialize (H cf_gap sched_gap). lazy zeta in H.
  set (s := run cf_gap init sched_gap) in *.
  assert (Ha : ackd s = true) by (vm_compute; reflexivity). specialize (H Ha). unfold delivered in H.
  assert (E : exists p r w, s_rp s = Some p /\ rp_rel p = true /\ rp_fr p = 0 /\ s_rd s = Some r /\ rd_wp r = Some w /\
                 rd_pres r = [mkCh 3 2 24 33] /\ In (mkCh 1 1 24 11) (s_changes s)).
  { vm_compute. do 3 eexists. repeat split; try reflexivity. left. reflexivity. }
  destruct E as (p & r & w & E1 & E2 & E3 & E4 & E5 & E6 & E7).
  specialize (H p r w E1 E2 E4 E5 (mkCh 1 1 24 11) E7). rewrite E3, E6 in H.
  destruct H as [H|[]]; [cbn; lia|discriminate].
Qed.

(* "after healing every parked wait_for_acknowledgments caller has been answered" *)
Definition wfa_completes_full : Prop :=
  forall cf sched k, (rounds_needed sched <= k)%nat -> npend (run cf init (sched ++ heal k)) = 0%nat.

Lemma wfa_completes_full_refuted : ~ wfa_completes_full.
Proof.
  intros H. specialize (H cf_plain [AMatch true false; AWrite 1 24 11; ADrop 0; AWfa; ADelReader] 4%nat).
  assert (Hk : (rounds_needed [AMatch true false; AWrite 1 24 11; ADrop 0; AWfa; ADelReader] <= 4)%nat) by (vm_compute; lia).
  specialize (H Hk). vm_compute in H. discriminate.
Qed.

(* "a VOLATILE reader never presents a sample written before it was matched" (any reliability) *)
Definition volatile_no_history_full : Prop :=
  forall cf before rel after,
    let s1 := run cf init before in
    s_rd s1 = None -> s_rp s1 = None ->
    let s := run cf init (before ++ AMatch rel false :: after) in
    forall c, In c (s_log s1) -> ~ In c (presented s).

Lemma volatile_no_history_full_refuted : ~ volatile_no_history_full.
Proof.
  intros H. specialize (H cf_plain [AWrite 1 24 11; AWrite 1 24 22] false [APump] eq_refl eq_refl (mkCh 1 1 24 11)).
  apply H; vm_compute; left; reflexivity.
Qed.
