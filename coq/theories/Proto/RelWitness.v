(* C01/C03/C04 — concrete schedules on the model (each one replayed on the real stack by the
   corpus of the corresponding check): the schedules that exposed the three defects repaired by
   91937ff / 66b3297 / 0faf897, now with the repaired outcome, and non-trivial positive examples.
   Everything here is closed computation (vm_compute). *)
From DustDDS Require Import Base.Machine Proto.RelModel.
Open Scope Z_scope.

(* --- former finding C01-gap-skip: KEEP_LAST(1), two instances: the writer holds {1,3}; a late reliable
   TRANSIENT_LOCAL reader loses DATA(1) but gets GAP(2).  The GAP is not contiguous with what the reader
   has accounted for (available_changes_max = 0), so it is ignored; the HEARTBEAT makes the reader request
   1..3, the writer answers DATA(1), GAP(2), DATA(3): one healing round delivers everything, and only then
   do wait_for_historical_data and wait_for_acknowledgments complete *)
Definition cf_gap : cfg := mkCfg 1344 true true 1.
Definition sched_gap : list action :=
  [AWrite 1 24 11; AWrite 2 24 22; AWrite 2 24 33; AMatch true true; AWfh; AWfa; ADrop 0].

Lemma gap_skip_repaired :
  let s0 := run cf_gap init sched_gap in
  let s := run cf_gap s0 (heal 1) in
  s_changes s0 = [mkCh 1 1 24 11; mkCh 3 2 24 33] /\     (* held *)
  presented s0 = [] /\ ackd s0 = false /\                (* DATA(1) lost, GAP(2) and DATA(3) still queued *)
  snd (step cf_gap s0 AWfhPoll) = OPoll [1] /\ snd (step cf_gap s0 AWfaPoll) = OPoll [1] /\
  presented s = [mkCh 1 1 24 11; mkCh 3 2 24 33] /\      (* everything held has been presented, in order *)
  s_net s = [] /\ ackd s = true /\
  snd (step cf_gap s AWfhPoll) = OPoll [0] /\ snd (step cf_gap s AWfaPoll) = OPoll [0].
Proof. vm_compute. repeat split; reflexivity. Qed.

(* the GAP alone, delivered before anything else, does not move the reader *)
Lemma gap_not_contiguous_ignored :
  let s := run cf_gap init [AWrite 1 24 11; AWrite 2 24 22; AWrite 2 24 33; AMatch true true; ADrop 0; ADeliver 0] in
  presented s = [] /\ (match s_rd s with Some r => match rd_wp r with Some w => avail_max w | None => -1 end | None => -1 end) = 0.
Proof. vm_compute. split; reflexivity. Qed.

(* --- former finding C03-stale-waiter: the matched reliable reader (or its participant) is deleted while a
   sample is unacknowledged and a caller is parked in wait_for_acknowledgments: the wait list is
   re-evaluated when the reader proxy is removed, the caller is answered at once *)
Definition cf_plain : cfg := mkCfg 1344 true false 0.
Definition sched_stale (del : action) : list action :=
  [AMatch true false; AWrite 1 24 11; ADrop 0; AWfa; del].

Lemma stale_waiter_repaired_reader :
  let s0 := run cf_plain init [AMatch true false; AWrite 1 24 11; ADrop 0; AWfa] in
  let s := run cf_plain init (sched_stale ADelReader) in
  npend s0 = 1%nat /\ s_rp s = None /\ s_dcps s = false /\ npend s = 0%nat /\
  snd (step cf_plain s AWfaPoll) = OPoll [0] /\ snd (step cf_plain s AWfa) = OCode 0.
Proof. vm_compute. repeat split; reflexivity. Qed.

Lemma stale_waiter_repaired_participant :
  let s0 := run cf_plain init [AMatch true false; AWrite 1 24 11; ADrop 0; AWfa] in
  let s := run cf_plain init (sched_stale ADelPart) in
  npend s0 = 1%nat /\ s_rp s = None /\ s_dcps s = false /\ npend s = 0%nat /\
  snd (step cf_plain s AWfaPoll) = OPoll [0] /\ snd (step cf_plain s AWfa) = OCode 0.
Proof. vm_compute. repeat split; reflexivity. Qed.

(* --- former finding C04-volatile-besteffort-history: a BEST_EFFORT VOLATILE reader that matches late is
   not sent the retained history any more (GAPs instead), and receives what is written afterwards *)
Lemma volatile_best_effort_repaired :
  let before := [AWrite 1 24 11; AWrite 1 24 22] in
  let s := run cf_plain init (before ++ [AMatch false false; APump; AWrite 1 24 33; APump]) in
  s_changes s = [mkCh 1 1 24 11; mkCh 2 1 24 22; mkCh 3 1 24 33] /\ presented s = [mkCh 3 1 24 33] /\ s_net s = [].
Proof. vm_compute. repeat split; reflexivity. Qed.

(* --- former finding C04-besteffort-hole-skips-sample (repaired by d974049): KEEP_LAST(1), keys 1,2,2: the
   writer holds {1,3}; a late BEST_EFFORT TRANSIENT_LOCAL reader is sent DATA(1), GAP(2) and DATA(3) *)
Lemma best_effort_hole_repaired :
  let s := run cf_gap init [AWrite 1 24 11; AWrite 2 24 22; AWrite 2 24 33; AMatch false true; APump] in
  s_changes s = [mkCh 1 1 24 11; mkCh 3 2 24 33] /\ presented s = [mkCh 1 1 24 11; mkCh 3 2 24 33] /\ s_net s = [].
Proof. vm_compute. repeat split; reflexivity. Qed.

(* --- positive examples (non-vacuity of the liveness statements) *)
(* DATA(1) lost, DATA(2) overtaken by DATA(3), DATA(3) duplicated: one healing round repairs everything,
   the parked wait_for_acknowledgments is answered *)
Definition cf_small : cfg := mkCfg 64 true false 0.
Lemma heal_example_unfragmented :
  let sched := [AMatch true false; AWrite 1 24 11; AWrite 2 24 22; AWrite 1 24 33;
                ADrop 0; ADeliver 1; ADup 0; AWfa] ++ heal 1 in
  let s := run cf_small init sched in
  presented s = s_log s /\ s_net s = [] /\ length (s_log s) = 3%nat /\
  snd (step cf_small s AWfaPoll) = OPoll [0].
Proof. vm_compute. repeat split; reflexivity. Qed.

(* a fragment of a three-fragment sample is lost: HEARTBEAT -> ACKNACK + NACK_FRAG -> the fragment is
   resent; after the second round the writer knows it is acknowledged *)
Lemma heal_example_lost_fragment :
  let s := run cf_small init ([AMatch true false; AWrite 1 132 11; ADrop 1] ++ heal 2) in
  presented s = [mkCh 1 1 132 11] /\ s_net s = [] /\ is_acked (s_rp s) (s_last s) = true.
Proof. vm_compute. repeat split; reflexivity. Qed.

(* every fragment of the sample is lost: the ACKNACK repair resends fragment 1 only, the reader then
   asks for the rest with a NACK_FRAG *)
Lemma heal_example_lost_fragmented_sample :
  let s := run cf_small init ([AMatch true false; AWrite 1 132 11; ADrop 0; ADrop 0; ADrop 0] ++ heal 2) in
  presented s = [mkCh 1 1 132 11] /\ s_net s = [] /\ is_acked (s_rp s) (s_last s) = true.
Proof. vm_compute. repeat split; reflexivity. Qed.

(* a late TRANSIENT_LOCAL reader gets the retained history (KEEP_LAST 2, one instance) despite a lost
   DATA, and wait_for_historical_data completes *)
Lemma heal_example_history :
  let s := run (mkCfg 1344 true true 2) init
             ([AWrite 1 24 11; AWrite 1 24 22; AWrite 1 24 33; AMatch true true; AWfh; ADrop 1] ++ heal 2) in
  s_changes s = [mkCh 2 1 24 22; mkCh 3 1 24 33] /\ presented s = s_changes s /\
  snd (step (mkCfg 1344 true true 2) s AWfhPoll) = OPoll [0].
Proof. vm_compute. repeat split; reflexivity. Qed.
