(* C03 — several endpoints: W RELIABLE KEEP_ALL writers of one publisher (participant 0) and R RELIABLE readers,
   each in a participant of its own.  Definitions only.
   The model is the PRODUCT of single-pair machines of RelModel.v: one `state` per (writer, reader) pair - the
   pair's reader proxy, the reader's writer proxy, the datagrams in flight between the two, and a copy of the
   writer's history cache - plus what the pairs share:
     * the order of the queued user datagrams (SimTransport is one FIFO);
     * the callers of wait_for_acknowledgments, parked per writer: the test is_change_acknowledged ranges over
       ALL reader proxies of the writer (stateful_writer.rs is_change_acknowledged), it is evaluated when the
       call is made and again whenever one of the writer's proxies accepts an ACKNACK
       (communication_methods.rs handle_data, AckNack arm);
     * the sample cache of a reader, filled by all its writer proxies in order of arrival.
   Every pair evolves by `step` of RelModel.v (the action itself for the pairs it concerns, the closing `poke`
   of the worker for all): DcpsDomainParticipant::poke visits the writers in creation order and the reader
   proxies of a writer in match order, which is the order of `m_pairs` (readers are created in index order).
   Independence of the pairs in the code: ACKNACK and NACK_FRAG are filtered by writer id and reader guid,
   HEARTBEAT / GAP / DATA are looked up by writer guid, every reader has a locator of its own. *)
From DustDDS Require Import Base.Machine Proto.RelModel.
Open Scope Z_scope.

Record pairst : Type := mkPair { pr_w : nat; pr_r : nat; pr_st : state }.

Record mstate : Type := mkMS {
  m_pairs : list pairst;            (* writer-major, reader-minor: the order of poke *)
  m_order : list nat;               (* queued user datagrams, oldest first: index of the pair each belongs to *)
  m_waits : list (nat * wstat);     (* wait_for_acknowledgments callers: (writer, status), in call order *)
  m_rcache : list (list change)     (* per reader: samples available to take, in order of arrival *)
}.

Definition minit (nw nr : nat) : mstate :=
  mkMS (flat_map (fun i => map (fun j => mkPair i j init) (seq 0 nr)) (seq 0 nw)) [] [] (repeat [] nr).

Inductive maction : Type :=
| MWrite (w : nat) (key len sum : Z)
| MTick
| MDeliver (i : nat) | MDrop (i : nat)
| MPump
| MTake (r : nat)
| MMatch (r : nat) (tl : bool)      (* reader r (RELIABLE) is created and matched with every writer *)
| MWfa (w : nat) | MWfaPoll
| MQuery.

Inductive mout : Type :=
| MONone
| MOCode (z : Z)
| MOTake (l : list change)
| MOPoll (l : list Z)
| MOQuery (l : list (Z * dgram))    (* (index of the reader's participant - 1, datagram) *)
| MOCount (n : Z).

(* --- bookkeeping of the shared queue *)
Definition lens (ps : list pairst) : list nat := map (fun p => length (s_net (pr_st p))) ps.

(* tags for the datagrams the pairs appended, pair by pair *)
Fixpoint grow (k : nat) (before after : list nat) : list nat :=
  match before, after with
  | b :: bt, a :: at_ => repeat k (a - b) ++ grow (S k) bt at_
  | _, _ => []
  end.

Fixpoint dec_at (k : nat) (l : list nat) : list nat :=
  match l, k with
  | [], _ => []
  | x :: t, O => pred x :: t
  | x :: t, S k' => x :: dec_at k' t
  end.

Fixpoint upd {A} (k : nat) (x : A) (l : list A) : list A :=
  match l, k with
  | [], _ => []
  | _ :: t, O => x :: t
  | y :: t, S k' => y :: upd k' x t
  end.

Definition app_at (k : nat) (x : list change) (l : list (list change)) : list (list change) :=
  match nth_error l k with Some old => upd k (old ++ x) l | None => l end.

Definition act_on (cf : cfg) (sel : pairst -> bool) (a : action) (ps : list pairst) : list pairst :=
  map (fun p => if sel p then mkPair (pr_w p) (pr_r p) (fst (act cf (pr_st p) a)) else p) ps.

Definition poke_all (cf : cfg) (ps : list pairst) : list pairst :=
  map (fun p => mkPair (pr_w p) (pr_r p) (poke cf (pr_st p))) ps.

(* the closing poke of the worker iteration: every writer, every reader proxy *)
Definition mpoke (cf : cfg) (ms : mstate) : mstate :=
  let ps' := poke_all cf (m_pairs ms) in
  mkMS ps' (m_order ms ++ grow 0 (lens (m_pairs ms)) (lens ps')) (m_waits ms) (m_rcache ms).

(* --- wait_for_acknowledgments *)
Definition all_acked (w : nat) (ps : list pairst) : bool :=
  forallb (fun p => negb (Nat.eqb (pr_w p) w) || ackd (pr_st p)) ps.
Definition drain_w (w : nat) (l : list (nat * wstat)) : list (nat * wstat) :=
  map (fun e => if Nat.eqb (fst e) w then (fst e, match snd e with WPending => WDone | x => x end) else e) l.
Definition an_of (s : state) : Z := match s_rp s with Some p => rp_an p | None => 0 end.

(* --- the i-th queued datagram is delivered (then the worker pokes) *)
Definition mdeliver (cf : cfg) (ms : mstate) (i : nat) : option mstate :=
  match nth_error (m_order ms) i with
  | None => None
  | Some p =>
    let li := length (filter (Nat.eqb p) (firstn i (m_order ms))) in
    match nth_error (m_pairs ms) p with
    | None => None
    | Some pr =>
      let s0 := pr_st pr in
      let s1 := fst (act cf s0 (ADeliver li)) in
      let ps1 := upd p (mkPair (pr_w pr) (pr_r pr) s1) (m_pairs ms) in
      let order1 := remove_nth i (m_order ms) ++ grow 0 (dec_at p (lens (m_pairs ms))) (lens ps1) in
      let rc := app_at (pr_r pr) (skipn (length (presented s0)) (presented s1)) (m_rcache ms) in
      (* an ACKNACK was accepted by this proxy: the writer's wait list is re-evaluated over ALL its proxies *)
      let waits := if (an_of s0 <? an_of s1) && all_acked (pr_w pr) ps1
                   then drain_w (pr_w pr) (m_waits ms) else m_waits ms in
      Some (mpoke cf (mkMS ps1 order1 waits rc))
    end
  end.

Fixpoint mpump (fuel : nat) (cf : cfg) (ms : mstate) (n : Z) : mstate * Z :=
  match fuel with
  | O => (ms, n)
  | S f =>
    match m_order ms with
    | [] => (ms, n)
    | _ :: _ => match mdeliver cf ms 0 with Some ms1 => mpump f cf ms1 (n + 1) | None => (ms, n) end
    end
  end.

(* the queue as the harness lists it *)
Fixpoint mquery (order : list nat) (ps : list pairst) : list (Z * dgram) :=
  match order with
  | [] => []
  | p :: t =>
    match nth_error ps p with
    | Some pr =>
      match s_net (pr_st pr) with
      | d :: rest =>
        (Z.of_nat (pr_r pr), d) ::
        mquery t (upd p (mkPair (pr_w pr) (pr_r pr) (set_net (pr_st pr) rest)) ps)
      | [] => mquery t ps
      end
    | None => mquery t ps
    end
  end.

Definition mstep (cf : cfg) (ms : mstate) (a : maction) : mstate * mout :=
  match a with
  | MWrite w key len sum =>
    let ps1 := act_on cf (fun p => Nat.eqb (pr_w p) w) (AWrite key len sum) (m_pairs ms) in
    (mpoke cf (mkMS ps1 (m_order ms) (m_waits ms) (m_rcache ms)), MOCode 0)
  | MTick =>
    let ps1 := act_on cf (fun _ => true) ATick (m_pairs ms) in
    (mpoke cf (mkMS ps1 (m_order ms) (m_waits ms) (m_rcache ms)), MONone)
  | MDeliver i =>
    match mdeliver cf ms i with
    | Some ms1 => (ms1, MOCode (Z.of_nat i))
    | None => (mpoke cf ms, MOCode (-1))
    end
  | MDrop i =>
    match nth_error (m_order ms) i with
    | None => (mpoke cf ms, MOCode (-1))
    | Some p =>
      let li := length (filter (Nat.eqb p) (firstn i (m_order ms))) in
      match nth_error (m_pairs ms) p with
      | None => (mpoke cf ms, MOCode (-1))
      | Some pr =>
        let ps1 := upd p (mkPair (pr_w pr) (pr_r pr) (fst (act cf (pr_st pr) (ADrop li)))) (m_pairs ms) in
        (mpoke cf (mkMS ps1 (remove_nth i (m_order ms)) (m_waits ms) (m_rcache ms)), MOCode (Z.of_nat i))
      end
    end
  | MPump => let '(ms1, n) := mpump pump_fuel cf ms 0 in (mpoke cf ms1, MOCount n)
  | MTake r =>
    match nth_error (m_rcache ms) r with
    | Some l => (mpoke cf (mkMS (m_pairs ms) (m_order ms) (m_waits ms) (upd r [] (m_rcache ms))), MOTake l)
    | None => (mpoke cf ms, MOCode 9)
    end
  | MMatch r tl =>
    let before := lens (m_pairs ms) in
    let ps1 := act_on cf (fun p => Nat.eqb (pr_r p) r) (AMatch true tl) (m_pairs ms) in
    (mpoke cf (mkMS ps1 (m_order ms ++ grow 0 before (lens ps1)) (m_waits ms) (m_rcache ms)), MONone)
  | MWfa w =>
    if all_acked w (m_pairs ms)
    then (mpoke cf (mkMS (m_pairs ms) (m_order ms) (m_waits ms ++ [(w, WReported)]) (m_rcache ms)), MOCode 0)
    else (mpoke cf (mkMS (m_pairs ms) (m_order ms) (m_waits ms ++ [(w, WPending)]) (m_rcache ms)), MOCode (-1))
  | MWfaPoll =>
    let '(ws, o) := poll (map snd (m_waits ms)) in
    (mpoke cf (mkMS (m_pairs ms) (m_order ms) (combine (map fst (m_waits ms)) ws) (m_rcache ms)), MOPoll o)
  | MQuery => (mpoke cf ms, MOQuery (mquery (m_order ms) (m_pairs ms)))
  end.

Fixpoint mrun_out (cf : cfg) (ms : mstate) (l : list maction) : mstate * list mout :=
  match l with
  | [] => (ms, [])
  | a :: t => let '(ms1, o) := mstep cf ms a in let '(ms2, os) := mrun_out cf ms1 t in (ms2, o :: os)
  end.
Definition mrun (cf : cfg) (ms : mstate) (l : list maction) : mstate := fst (mrun_out cf ms l).

(* --- specification vocabulary *)
(* the test of wait_for_acknowledgments of writer w *)
Definition mackd (w : nat) (ms : mstate) : bool := all_acked w (m_pairs ms).
(* every RELIABLE reader matched with writer w has been given every change the writer holds that is relevant for it *)
Definition mdelivered (w : nat) (ms : mstate) : Prop :=
  forall p, In p (m_pairs ms) -> pr_w p = w -> delivered (pr_st p).
Definition mnpend (w : nat) (ms : mstate) : nat :=
  length (filter (fun e => Nat.eqb (fst e) w && match snd e with WPending => true | _ => false end) (m_waits ms)).
