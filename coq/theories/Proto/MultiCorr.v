(* C03 — correspondence vocabulary for the scenarios with several endpoints (W writers of one publisher, R readers
   in participants of their own): one case = one scenario run through the simulated real stack (harness bin
   `proto`), i.e. the list of actions with the observation each produced.  Multi_model_ok replays the actions on
   the product model of MultiModel.v and compares every observation; the oracle states the property on the
   OBSERVATIONS of the implementation only.  A case of the check C03 is either a single-pair case (RelCorr.v) or a
   multi-endpoint case. *)
From DustDDS Require Export Base.Machine Proto.RelModel Proto.RelCorr Proto.MultiModel.
Open Scope Z_scope.

Record Multi_case : Type := mkMCase { mk_cfg : cfg; mk_nw : nat; mk_nr : nat; mk_trace : list (maction * mout) }.

Definition tagged_eqb (a b : Z * dgram) : bool := (fst a =? fst b) && dgram_eqb (snd a) (snd b).

Definition mout_eqb (a b : mout) : bool :=
  match a, b with
  | MONone, MONone => true
  | MOCode x, MOCode y => x =? y
  | MOTake x, MOTake y => list_eqb taken_eqb x y
  | MOPoll x, MOPoll y => list_eqb Z.eqb x y
  | MOQuery x, MOQuery y => list_eqb tagged_eqb x y
  | MOCount x, MOCount y => x =? y
  | _, _ => false
  end.

Definition Multi_model_ok (k : Multi_case) : bool :=
  let '(_, outs) := mrun_out (mk_cfg k) (minit (mk_nw k) (mk_nr k)) (map fst (mk_trace k)) in
  list_eqb mout_eqb outs (map snd (mk_trace k)).

(* ------------------------------------------- the property on the observations *)
(* Specification-level bookkeeping over the trace (never the model state): the publication log of every writer
   (KEEP_ALL: everything written is retained), for every reader its durability and the length of every writer's
   log when it was matched, everything take() returned to it so far, the writer of every
   wait_for_acknowledgments call, and the obligations created by a call that has just succeeded. *)
Record most : Type := mkMO {
  mo_logs : list (list obs);                     (* per writer *)
  mo_rd : list (option (bool * list nat));       (* per reader: (transient-local, |log w| at match time for every w) *)
  mo_taken : list (list obs);                    (* per reader *)
  mo_calls : list nat;                           (* writer of the k-th wait_for_acknowledgments call *)
  mo_need : list (nat * list obs);               (* (reader, what it must have been given) *)
  mo_sound : bool
}.

Definition mo_init (nw nr : nat) : most := mkMO (repeat [] nw) (repeat None nr) (repeat [] nr) [] [] true.

Definition nth_l {A} (l : list (list A)) (k : nat) : list A := nth k l [].

(* what writer w holds that is relevant for reader r (matched): everything for TRANSIENT_LOCAL, what was written
   after the match for VOLATILE *)
Definition mrelevant (o : most) (w r : nat) : option (list obs) :=
  match nth r (mo_rd o) None with
  | Some (tl, ms) => Some (if tl then nth_l (mo_logs o) w else skipn (nth w ms 0%nat) (nth_l (mo_logs o) w))
  | None => None
  end.

(* a call of writer w has succeeded: every matched reader must have been given everything relevant *)
Definition needs_for (o : most) (w : nat) : list (nat * list obs) :=
  flat_map (fun r => match mrelevant o w r with Some l => [(r, l)] | None => [] end) (seq 0 (length (mo_rd o))).

Fixpoint succeeded_at (k : nat) (l : list Z) : list nat :=
  match l with
  | [] => []
  | x :: t => (if x =? 0 then [k] else []) ++ succeeded_at (S k) t
  end.

Definition msucceeded (o : most) (ao : maction * mout) : list nat :=   (* writers whose call has just succeeded *)
  match ao with
  | (MWfa w, MOCode 0) => [w]
  | (MWfaPoll, MOPoll l) => map (fun k => nth k (mo_calls o) 0%nat) (succeeded_at 0 l)
  | _ => []
  end.

Definition mostep (o : most) (ao : maction * mout) : most :=
  (* pending obligations of reader r are checked by its next take; anything but a take or a queue listing in
     between cancels them (the takes follow the call immediately in the scenarios) *)
  let o1 :=
    match ao with
    | (MTake r, MOTake l) =>
      let got := nth_l (mo_taken o) r ++ map obs_of l in
      let mine := filter (fun e => Nat.eqb (fst e) r) (mo_need o) in
      mkMO (mo_logs o) (mo_rd o) (upd r got (mo_taken o)) (mo_calls o)
           (filter (fun e => negb (Nat.eqb (fst e) r)) (mo_need o))
           (mo_sound o && forallb (fun e => subseq_b (snd e) got) mine)
    | (MQuery, _) => o
    | _ => mkMO (mo_logs o) (mo_rd o) (mo_taken o) (mo_calls o) [] (mo_sound o)
    end in
  let o2 :=
    match ao with
    | (MWrite w key len sum, MOCode 0) =>
      mkMO (upd w (nth_l (mo_logs o1) w ++ [(key, len, sum)]) (mo_logs o1)) (mo_rd o1) (mo_taken o1) (mo_calls o1)
           (mo_need o1) (mo_sound o1)
    | (MMatch r tl, _) =>
      match nth r (mo_rd o1) None with
      | None => mkMO (mo_logs o1) (upd r (Some (tl, map (fun l => length l) (mo_logs o1))) (mo_rd o1)) (mo_taken o1)
                     (mo_calls o1) (mo_need o1) (mo_sound o1)
      | Some _ => o1
      end
    | (MWfa w, _) =>
      mkMO (mo_logs o1) (mo_rd o1) (mo_taken o1) (mo_calls o1 ++ [w]) (mo_need o1) (mo_sound o1)
    | _ => o1
    end in
  mkMO (mo_logs o2) (mo_rd o2) (mo_taken o2) (mo_calls o2)
       (mo_need o2 ++ flat_map (needs_for o2) (msucceeded o2 ao)) (mo_sound o2).

Definition morun (k : Multi_case) : most := fold_left mostep (mk_trace k) (mo_init (mk_nw k) (mk_nr k)).

(* the scenario ends with at least three healing rounds (5 ticks = 250 ms, then loss-free FIFO delivery until
   nothing is queued) followed only by observations *)
Definition mharmless (a : maction) : bool :=
  match a with MTake _ | MQuery | MWfa _ | MWfaPoll => true | _ => false end.
Fixpoint mcount_rounds (l : list (maction * mout)) : nat :=
  match l with
  | (MPump, _) :: (MTick, _) :: (MTick, _) :: (MTick, _) :: (MTick, _) :: (MTick, _) :: t => S (mcount_rounds t)
  | _ => O
  end.
Fixpoint mhealed_rev (l : list (maction * mout)) (acc : list (maction * mout)) : option (list (maction * mout)) :=
  match l with
  | (MPump, _) :: _ => if (3 <=? mcount_rounds l)%nat then Some acc else None
  | ao :: t => if mharmless (fst ao) then mhealed_rev t (ao :: acc) else None
  | [] => None
  end.
Definition mhealed_tail (k : Multi_case) : option (list (maction * mout)) := mhealed_rev (rev (mk_trace k)) [].

(* SOUNDNESS: whenever a wait_for_acknowledgments call of a writer succeeds (at once or when polled) every reader
   matched at that moment has been given everything the writer holds that is relevant for it - shown by the takes
   that follow.  COMPLETION / DELIVERY: after the healing rounds nobody is parked and every matched reader has
   taken everything relevant of every writer. *)
Definition Multi_oracle_ok (k : Multi_case) : bool :=
  let o := morun k in
  mo_sound o &&
  match mhealed_tail k with
  | Some tail =>
    forallb (fun ao => match ao with
                       | (MWfaPoll, MOPoll l) => negb (existsb (Z.eqb 1) l)
                       | (MWfa _, MOCode c) => c =? 0
                       | _ => true
                       end) tail &&
    forallb (fun w => forallb (fun r => match mrelevant o w r with
                                        | Some l => subseq_b l (nth_l (mo_taken o) r)
                                        | None => true
                                        end) (seq 0 (mk_nr k))) (seq 0 (mk_nw k))
  | None => true
  end.

(* ------------------------------------------- a case of the check C03 *)
Inductive C03_case : Type := C3S (k : Rel_case) | C3M (m : Multi_case).

Definition C03_model_ok (k : C03_case) : bool :=
  match k with C3S c => RelCorr.C03_model_ok c | C3M m => Multi_model_ok m end.
Definition C03_oracle_ok (k : C03_case) : bool :=
  match k with C3S c => RelCorr.C03_oracle_ok c | C3M m => Multi_oracle_ok m end.
Definition C03_known (k : C03_case) : N :=
  match k with C3S c => RelCorr.C03_known c | C3M _ => 0%N end.
