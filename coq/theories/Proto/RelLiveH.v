(* C01/C03/C04 — liveness for histories with holes, part 3: the healing invariant (GOk / GInv of RelLive.v,
   unchanged) over the class KLive of RelHealG.v, the five-tick argument and the theorems. *)
From DustDDS Require Import Base.Machine Proto.RelModel Proto.RelProofs Proto.RelSound Proto.RelSoundG Proto.RelLive
  Proto.RelLiveG Proto.RelHealG.
Open Scope Z_scope.

(* shapes: any history depth *)
Lemma Sh_stepK cf s a : 0 < fsz cf -> live_act cf a = true ->
  unfrag cf (s_changes s) -> ShInv s -> ShInv (fst (step cf s a)) /\ unfrag cf (s_changes (fst (step cf s a))).
Proof.
  intros Hf Ha Hu HS. unfold step.
  assert (H : ShInv (fst (act cf s a)) /\ unfrag cf (s_changes (fst (act cf s a)))).
  { destruct a; cbn [act]; try discriminate.
    - cbn in Ha. apply andb_prop in Ha. destruct Ha as [H1 H2]. apply Z.leb_le in H1. apply Z.leb_le in H2.
      pose proof (do_write_frame cf s key len sum) as (F1 & F2 & F3 & _).
      pose proof (do_write_spec cf s key len sum) as Hw.
      destruct (do_write cf s key len sum) as [s1 code]. cbn [fst snd] in *.
      destruct Hw as [[-> _]|[chs1 (W1 & W2 & _ & _ & _ & W6)]]; [tauto|].
      split.
      + destruct HS as [X Y]. split; [rewrite F3; assumption|rewrite F2; assumption].
      + rewrite W2. intros c Hc. apply in_app_or in Hc. destruct Hc as [Hc|[<-|[]]]; [apply Hu; apply W1; assumption|].
        apply nfrags_le1; [assumption|lia].
    - cbn. tauto.
    - destruct (nth_error (s_net s) i) as [d|] eqn:E; [|tauto]. cbn [fst]. split.
      + apply Sh_deliver; [assumption| |].
        * destruct HS as [X Y]. split; [apply Forall_remove_nth; assumption|assumption].
        * destruct HS as [X _]. eapply Forall_nth_error; eassumption.
      + destruct (core_proj _ _ (deliver_dgram_core cf (set_net s (remove_nth i (s_net s))) d)) as (C1 & _). rewrite C1. assumption.
    - destruct (nth_error (s_net s) i) as [d|] eqn:E; [|tauto]. cbn [fst]. split; [|assumption].
      destruct HS as [X Y]. split; [apply Forall_remove_nth; assumption|assumption].
    - destruct (nth_error (s_net s) i) as [d|] eqn:E; [|tauto]. cbn [fst].
      assert (Hd' : nshape d) by (destruct HS as [X _]; eapply Forall_nth_error; eassumption).
      assert (H1 : ShInv (deliver_dgram cf (set_net s (remove_nth i (s_net s))) d)).
      { apply Sh_deliver; [assumption| |assumption]. destruct HS as [X Y]. split; [apply Forall_remove_nth; assumption|assumption]. }
      destruct (core_proj _ _ (deliver_dgram_core cf (set_net s (remove_nth i (s_net s))) d)) as (C1 & _).
      destruct (core_proj _ _ (poke_core cf (deliver_dgram cf (set_net s (remove_nth i (s_net s))) d))) as (C2 & _).
      destruct (core_proj _ _ (deliver_dgram_core cf (poke cf (deliver_dgram cf (set_net s (remove_nth i (s_net s))) d)) d)) as (C3 & _).
      split.
      + apply Sh_deliver; [rewrite C2, C1; assumption| |assumption]. apply Sh_poke; [rewrite C1; assumption|assumption].
      + rewrite C3, C2, C1. assumption.
    - pose proof (Sh_pump cf pump_fuel s 0 Hu HS) as Hp. pose proof (pump_core cf pump_fuel s 0) as Hc.
      destruct (pump pump_fuel cf s 0) as [s1 n]. cbn [fst] in *. split; [assumption|].
      destruct (core_proj _ _ Hc) as (C1 & _). rewrite C1. assumption.
    - destruct (s_rd s) as [r|] eqn:Er; [|tauto]. destruct (rd_alive r); [|tauto]. cbn [fst]. split; [|assumption].
      destruct HS as [X Y]. split; [assumption|]. intros r' w' Hr' Hw'. cbn in Hr'. injection Hr' as <-. cbn in Hw'.
      apply (Y r w' Er Hw').
    - destruct (s_rd s) as [r|] eqn:Er; [tauto|]. destruct (s_rdead s || _); [tauto|].
      destruct (rxo_ok cf rel tl); cbn [fst].
      + split.
        * apply Sh_poke; [assumption|]. destruct HS as [X Y]. split; [assumption|].
          intros r' w' Hr' Hw'. cbn in Hr'. injection Hr' as <-. cbn in Hw'. injection Hw' as <-. reflexivity.
        * match goal with |- unfrag cf (s_changes (poke cf ?st)) =>
            destruct (core_proj _ _ (poke_core cf st)) as (C1 & _); rewrite C1 end. assumption.
      + split; [|assumption]. destruct HS as [X Y]. split; [assumption|].
        intros r' w' Hr' Hw'. cbn in Hr'. injection Hr' as <-. cbn in Hw'. discriminate.
    - destruct (is_acked _ _); cbn; tauto.
    - destruct (poll (s_waits s)). cbn. tauto.
    - destruct (s_rd s) as [r|] eqn:Er; [|tauto]. destruct (negb (rd_alive r)); [tauto|].
      destruct (negb (rd_tl r)); [tauto|].
      destruct (hist_received _); cbn [fst]; (split; [|assumption]); destruct HS as [X Y]; (split; [assumption|]);
        intros r' w' Hr' Hw'; cbn in Hr'; injection Hr' as <-; cbn in Hw'; apply (Y r w' Er Hw').
    - destruct (s_rd s) as [r|] eqn:Er; [|tauto]. destruct (poll (rd_hwaits r)). cbn [fst]. split; [|assumption].
      destruct HS as [X Y]. split; [assumption|].
      intros r' w' Hr' Hw'. cbn in Hr'. injection Hr' as <-. cbn in Hw'. apply (Y r w' Er Hw').
    - tauto.
    - tauto. }
  destruct H as [H1 H2]. destruct (act cf s a) as [s1 o]. cbn [fst] in *. split.
  - apply Sh_poke; assumption.
  - destruct (core_proj _ _ (poke_core cf s1)) as (C1 & _). rewrite C1. assumption.
Qed.

Lemma ShInv_runK cf l : 0 < fsz cf -> forallb (live_act cf) l = true ->
  forall s, unfrag cf (s_changes s) -> ShInv s -> ShInv (run cf s l) /\ unfrag cf (s_changes (run cf s l)).
Proof.
  intros Hf. induction l as [|a t IH]; intros Hl s Hu H; [split; assumption|]. cbn in Hl. apply andb_prop in Hl.
  destruct Hl as [Ha Ht]. rewrite run_cons. destruct (Sh_stepK cf s a Hf Ha Hu H) as [H1 H2]. apply IH; assumption.
Qed.

(* the ACKNACK that answers a heartbeat announcing f..last while hr < last <= 256 requests `last` *)
Lemma ack_set_has_lastK f hr l last : 1 <= f -> f <= last -> l = last -> hr < last -> last <= 256 ->
  In last (firstn 256 (zrange (Z.max f (hr + 1)) (Z.max l hr))).
Proof.
  intros Hf Hfl -> Hlt H256. rewrite firstn_ge_all by (rewrite zrange_length; lia). apply in_zrange. lia.
Qed.

Lemma khas_hb_in c last out net : khas_hb c last out -> (forall d, In d out -> In d net) -> hb_in_net c net.
Proof. intros (d & f & Hd & Hs) Hsub. exists d, f, last. split; auto. Qed.

(* the writer's answer to an ACKNACK *)
Lemma on_acknack_GK last cf now chs p base set count :
  KC chs last -> unfrag cf chs -> rp_rel p = true ->
  0 <= rp_hs p <= last -> 0 <= rp_ha p ->
  let r := on_acknack cf now chs p base set count in
  let q := fst (fst r) in let out := snd (fst r) in
  rp_hbc p <= rp_hbc q /\ Forall (khdg (rp_hbc p) (rp_hbc q) last) out /\ Forall nshape out /\
  (rp_hbc p < rp_hbc q -> khas_hb (rp_hbc q) last out) /\
  rp_an q = (if rp_an p <? count then count else rp_an p) /\ rp_static q = rp_static p /\
  (rp_an p < count -> (exists n, In n set /\ rp_fr p < n /\ In n (sns chs)) -> rp_hbc p < rp_hbc q).
Proof.
  intros Hc Hu Hrel Hhs Hha. unfold on_acknack.
  replace (rp_rel p && (rp_an p <? count)) with (rp_an p <? count) by (rewrite Hrel; reflexivity).
  destruct (Z.ltb_spec (rp_an p) count) as [Hacc|Hnacc].
  2:{ cbn. repeat split; try lia; try constructor. }
  lazy beta iota zeta.
  set (p1 := mkRP (rp_rel p) (rp_tl p) (rp_hs p) (if rp_ha p <? base - 1 then base - 1 else rp_ha p)
                  (req_add (rp_req p) set) (rp_fr p) count (rp_nf p) (rp_hbc p) (rp_hbt p)).
  assert (Hha1 : 0 <= rp_ha p1) by (cbn; destruct (rp_ha p <? base - 1) eqn:E; [apply Z.ltb_lt in E; lia|assumption]).
  pose proof (write_rel_liveK cf now chs last Hc Hu p1 Hhs Hha1) as H. lazy zeta in H.
  pose proof (write_rel_static cf now chs p1) as Hst.
  pose proof (write_rel_an cf now chs p1) as Han.
  pose proof (write_rel_shape cf now chs p1 Hu) as Hsh.
  assert (E1 : rp_hbc p1 = rp_hbc p) by reflexivity.
  assert (E3 : rp_fr p1 = rp_fr p) by reflexivity.
  destruct (write_rel cf now chs p1) as [p2 out]. cbn [fst snd] in *.
  destruct H as (W1 & W2 & W3 & W4 & W5 & W6 & _).
  lazy zeta. cbn [fst snd].
  split; [lia|]. split; [rewrite <- E1; assumption|]. split; [assumption|]. split; [rewrite <- E1; assumption|].
  split; [rewrite Han; reflexivity|]. split; [rewrite Hst; reflexivity|].
  intros _ [n (Hn & Hfr & Hheld)]. rewrite <- E1. apply W6. exists n. split; [|split; [lia|assumption]].
  cbn. apply req_add_in. right. assumption.
Qed.

(* --- poke *)
Lemma G_pokeK cf s : KLive true cf s -> GInv s -> GInv (poke cf s).
Proof.
  intros [HC HL] HG q r w Eq Hrelq Er Ew.
  pose proof HC as (HGS & HN & [HK Hp]). destruct HL as (L1 & L2 & L3 & L4 & L5).
  rewrite poke_rd in Er. unfold poke in *.
  destruct (s_rp s) as [p|] eqn:Ep; [|congruence].
  destruct Hp as [Hhs Hfr].
  pose proof (write_message_static cf (s_now s) (s_changes s) p) as Hst.
  unfold write_message in *. destruct (rp_rel p) eqn:Erel.
  2:{ destruct (write_be_loop _ _ _ _ _) as [p1 out]. cbn [fst] in Hst. cbn in Eq. injection Eq as <-.
      apply static_fr in Hst. destruct Hst as (_ & Hr & _). congruence. }
  destruct (L5 p r w eq_refl Erel Er Ew) as [K1 K2 K3 K4 K6 K7 K8].
  pose proof (write_rel_liveK cf (s_now s) (s_changes s) (s_last s) HK L2 p Hhs K2) as H. lazy zeta in H.
  pose proof (write_rel_an cf (s_now s) (s_changes s) p) as Han.
  destruct (write_rel cf (s_now s) (s_changes s) p) as [p1 out]. cbn [fst snd] in *. cbn in Eq. injection Eq as <-.
  destruct H as (W1 & W2 & W3 & W4 & _).
  apply static_fr in Hst. destruct Hst as (Hfr1 & _).
  specialize (HG p r w Ep Erel Er Ew). unfold GOk in *. cbn [s_last s_net send set_rp set_net].
  rewrite Hfr1. cbn [s_rdead set_rp].
  rewrite (filter_rdead_false (s_rdead s) out L3).
  destruct HG as [HD|(G0 & GA & GC)]; [left; exact HD|].
  destruct (Z.eq_dec (rp_hbc p) (rp_hbc p1)) as [Eh|Nh].
  - right. rewrite <- Eh, Han. split; [assumption|]. split.
    + destruct GA as [GA|(d & f & l & Hd & Hs)]; [left; assumption|right]. exists d, f, l. split; [apply in_or_app; left; assumption|assumption].
    + intros Hp'. destruct (GC Hp') as (C1 & (d & Hd & Hk) & C3). split; [assumption|]. split.
      * exists d. split; [apply in_or_app; left; assumption|assumption].
      * intros d' b set Hd' Hs'. apply in_app_or in Hd'. destruct Hd' as [Hd'|Hd']; [eapply C3; eassumption|].
        exfalso. rewrite Forall_forall in W3. destruct (W3 d' Hd') as [_ Hsub]. rewrite Forall_forall in Hsub.
        specialize (Hsub _ Hs'). exact Hsub.
  - right. split; [lia|]. split.
    + right. apply (khas_hb_in (rp_hbc p1) (s_last s) out); [apply W4; lia|]. intros d Hd. apply in_or_app. right. assumption.
    + intros Hp'. lia.
Qed.

(* --- delivery of the i-th queued datagram *)
Lemma G_deliverK cf s i d : KLive true cf s -> ShInv s -> GInv s -> s_last s <= 256 ->
  nth_error (s_net s) i = Some d ->
  GInv (deliver_dgram cf (set_net s (remove_nth i (s_net s))) d).
Proof.
  intros [HC HL] [Hsh Hfrags] HG H256 Ei q r' w' Eq Hrelq Er' Ew'.
  pose proof HC as (HGS & HN & [HK Hp]). destruct HL as (L1 & L2 & L3 & L4 & L5).
  assert (Hd : In d (s_net s)) by (eapply nth_error_In; eassumption).
  assert (Hshd : nshape d) by (rewrite Forall_forall in Hsh; auto).
  set (rest := remove_nth i (s_net s)) in *.
  assert (Hrest : forall x, In x rest -> In x (s_net s)) by (intros x Hx; eapply remove_nth_in; exact Hx).
  assert (Hother : forall x, In x (s_net s) -> x <> d -> In x rest) by (intros x Hx Hne; eapply in_remove_nth_other; eassumption).
  unfold deliver_dgram in *. destruct (dg_toR d) eqn:Edir.
  - (* towards the reader *)
    cbn [s_rdead s_rd set_net] in *. rewrite L3 in *.
    destruct (s_rd s) as [r|] eqn:Er; [|cbn in Er'; congruence].
    rewrite (L4 r eq_refl) in *.
    destruct (deliver_subs_R cf r (dg_subs d) []) as [r1 out] eqn:E.
    cbn [s_rp s_rd send set_rd set_net] in Eq, Er'. injection Er' as <-.
    destruct (rd_wp r) as [w|] eqn:Ew.
    2:{ rewrite (deliver_subs_R_nowp cf r (dg_subs d) [] Ew) in E. inversion E; subst. congruence. }
    destruct (deliver_R_shape cf r w d r1 out Ew (Hfrags r w eq_refl Ew) Hshd Edir E) as (w1 & B1 & B2 & B3 & Hcase).
    assert (w' = w1) by congruence. subst w'.
    rewrite Eq in Hp. destruct Hp as [Hhs Hfr].
    destruct (L5 q r w Eq Hrelq eq_refl Ew) as [K1 K2 K3 K4 K6 K7 K8].
    assert (Hlsub : Forall (klsub (rp_hbc q) (s_last s) (wp_an w)) (dg_subs d)).
    { rewrite Forall_forall in K8. apply (K8 d Hd). }
    specialize (HG q r w Eq Hrelq Er Ew). unfold GOk in *.
    cbn [s_last s_net send set_rd set_net s_rdead]. rewrite L3.
    assert (Hfil : forall o, filter (fun d0 => negb (dg_toR d0 && false)) o = o).
    { clear. induction o as [|x t IH]; cbn; [reflexivity|]. rewrite andb_false_r. cbn. f_equal. assumption. }
    rewrite Hfil.
    destruct HG as [HD|(G0 & GA & GC)]; [left; destruct HD; [left; lia|right; assumption]|].
    destruct (Z.le_gt_cases (s_last s) (wp_hr w1)) as [Hdone|Hnot]; [left; left; assumption|].
    destruct (Z.le_gt_cases (s_last s) (rp_fr q)) as [Hdone2|Hnot2]; [left; right; assumption|].
    right. split; [assumption|].
    destruct Hcase as [(C1 & C2 & C3 & -> & C5)|(f & l & c & C0 & C1 & C2 & C3 & C4 & ->)].
    + (* no heartbeat accepted *)
      rewrite C1, C2, app_nil_r. split.
      * destruct GA as [GA|(d0 & f0 & l0 & Hd0 & Hs0)]; [left; assumption|].
        destruct (dgram_eq_dec d0 d) as [->|Hne].
        -- left. destruct (C5 f0 l0 _ Hs0) as [Hle|Hle]; [lia|].
           rewrite Forall_forall in Hlsub. pose proof (Hlsub _ Hs0) as Hq. cbn in Hq. lia.
        -- right. exists d0, f0, l0. split; [apply Hother; assumption|assumption].
      * intros Hp'. destruct (GC Hp') as (D1 & (d0 & Hd0 & Hk0) & D3). split; [assumption|]. split.
        -- exists d0. split; [|assumption]. apply Hother; [assumption|]. intros ->.
           destruct Hk0 as [b [set Hk0]]. eapply shape_toR_no_ack; eassumption.
        -- intros d' b set Hd' Hs'. eapply D3; [apply Hrest; eassumption|eassumption].
    + (* the heartbeat (f, l, c) of d is accepted *)
      rewrite Forall_forall in Hlsub. pose proof (Hlsub _ C0) as Hl. cbn in Hl. destruct Hl as (Hf1 & Hc1 & Hc2).
      rewrite C2, C3. split.
      * destruct (Z.eq_dec c (rp_hbc q)) as [->|Hne]; [left; reflexivity|].
        destruct GA as [GA|(d0 & f0 & l0 & Hd0 & Hs0)]; [lia|]. right. exists d0, f0, l0. split; [|assumption].
        apply in_or_app. left. apply Hother; [assumption|]. intros ->.
        destruct (shape_one_hb d _ _ _ _ _ _ Hshd C0 Hs0) as (_ & _ & E3). congruence.
      * intros Hp'. destruct (Hc2 Hp') as [Hll Hfl]. subst l. split; [lia|]. split.
        -- eexists. split; [apply in_or_app; right; left; reflexivity|]. eexists _, _. left. reflexivity.
        -- intros d' b set Hd' Hs'. apply in_app_or in Hd'. destruct Hd' as [Hd'|[<-|[]]].
           ++ exfalso. destruct (L5 q r w Eq Hrelq eq_refl Ew) as [_ _ _ _ _ _ K8'].
              rewrite Forall_forall in K8'. specialize (K8' d' (Hrest _ Hd')). unfold kldg in K8'. rewrite Forall_forall in K8'.
              specialize (K8' _ Hs'). cbn in K8'. lia.
           ++ cbn in Hs'. destruct Hs' as [Hs'|[]]. inversion Hs'; subst.
              apply ack_set_has_lastK; try lia; try reflexivity.
  - (* towards the writer: one ACKNACK *)
    destruct Hshd; cbn in Edir; try discriminate. cbn [dg_subs toW fold_left] in *.
    assert (Hrd : s_rd (deliver_sub_W cf (set_net s rest) (SAck b set cnt)) = s_rd s) by (rewrite deliver_sub_W_rd; reflexivity).
    rewrite Hrd in Er'.
    unfold deliver_sub_W in *. cbn [s_rp set_net s_now s_changes s_last] in *.
    destruct (s_rp s) as [p|] eqn:Ep; [|cbn in Eq; congruence].
    destruct Hp as [Hhs Hfr].
    assert (Hstat : rp_rel p = true).
    { pose proof (on_acknack_static cf (s_now s) (s_changes s) p b set cnt) as Hst.
      destruct (on_acknack cf (s_now s) (s_changes s) p b set cnt) as [[p1 o] sm]. cbn [fst] in Hst.
      apply static_fr in Hst. destruct Hst as (_ & Hr & _).
      destruct (sm && _); cbn in Eq; injection Eq as <-; congruence. }
    destruct (L5 p r' w' eq_refl Hstat Er' Ew') as [K1 K2 K3 K4 K6 K7 K8].
    assert (Hld : kldg (rp_hbc p) (s_last s) (wp_an w') (toW [SAck b set cnt])) by (rewrite Forall_forall in K8; auto).
    unfold kldg in Hld. cbn in Hld. apply Forall_inv in Hld. cbn in Hld. rename Hld into Hcnt.
    pose proof (on_acknack_GK (s_last s) cf (s_now s) (s_changes s) p b set cnt HK L2 Hstat Hhs K2) as H. lazy zeta in H.
    destruct (on_acknack cf (s_now s) (s_changes s) p b set cnt) as [[p1 out] sm]. cbn [fst snd] in H.
    destruct H as (W1 & W2 & W2' & W3 & W4 & W5 & W6).
    assert (Hq : q = p1) by (destruct (sm && _); cbn in Eq; congruence). subst q.
    apply static_fr in W5. destruct W5 as (Hfr1 & _).
    specialize (HG p r' w' Ep Hstat Er' Ew'). unfold GOk in *.
    assert (Hnet' : s_net (if sm && is_acked (Some p1) (s_last s)
                   then set_waits (send (set_rp (set_net s rest) (Some p1)) out) (drain (s_waits (send (set_rp (set_net s rest) (Some p1)) out)))
                   else send (set_rp (set_net s rest) (Some p1)) out) = rest ++ out).
    { destruct (sm && _); cbn; rewrite (filter_rdead_false (s_rdead s) out L3); reflexivity. }
    assert (Hlast' : s_last (if sm && is_acked (Some p1) (s_last s)
                   then set_waits (send (set_rp (set_net s rest) (Some p1)) out) (drain (s_waits (send (set_rp (set_net s rest) (Some p1)) out)))
                   else send (set_rp (set_net s rest) (Some p1)) out) = s_last s) by (destruct (sm && _); reflexivity).
    rewrite Hnet', Hlast', Hfr1.
    destruct HG as [HD|(G0 & GA & GC)]; [left; exact HD|].
    destruct (Z.le_gt_cases (s_last s) (wp_hr w')) as [Hdone|Hnot]; [left; left; assumption|].
    destruct (Z.le_gt_cases (s_last s) (rp_fr p)) as [Hdone2|Hnot2]; [left; right; assumption|].
    right.
    destruct (Z.eq_dec (rp_hbc p) (rp_hbc p1)) as [Eh|Nh].
    + rewrite <- Eh. split; [assumption|]. split.
      * destruct GA as [GA|(d0 & f0 & l0 & Hd0 & Hs0)]; [left; assumption|right]. exists d0, f0, l0. split; [|assumption].
        apply in_or_app. left. apply Hother; [assumption|]. intros ->. cbn in Hs0. destruct Hs0 as [Hs0|[]]. discriminate.
      * intros Hp'. destruct (GC Hp') as (D1 & (d0 & Hd0 & Hk0) & D3).
        (* the delivered ACKNACK is not the newest one: otherwise it asks for `last` and a heartbeat is generated *)
        assert (Hne : cnt <> wp_an w').
        { intros ->. assert (Hin : In (s_last s) set) by (eapply D3; [exact Hd|left; reflexivity]).
          assert (rp_hbc p < rp_hbc p1); [|lia]. apply W6; [lia|]. exists (s_last s).
          split; [assumption|]. split; [lia|]. apply (KC_last_in _ _ HK). lia. }
        split; [rewrite W4; destruct (rp_an p <? cnt); lia|]. split.
        -- exists d0. split; [|assumption]. apply in_or_app. left. apply Hother; [assumption|]. intros ->.
           destruct Hk0 as [b0 [set0 [Hk0|[]]]]. inversion Hk0; subst. congruence.
        -- intros d' b' set' Hd' Hs'. apply in_app_or in Hd'. destruct Hd' as [Hd'|Hd']; [eapply D3; [apply Hrest; eassumption|eassumption]|].
           exfalso. rewrite Forall_forall in W2. destruct (W2 d' Hd') as [_ Hsub]. rewrite Forall_forall in Hsub.
           specialize (Hsub _ Hs'). exact Hsub.
    + split; [lia|]. split.
      * right. apply (khas_hb_in (rp_hbc p1) (s_last s) out); [apply W3; lia|]. intros x Hx. apply in_or_app. right. assumption.
      * intros Hp'. lia.
Qed.

(* ------------------------------------------------------------------ the healing phase *)
Definition KHeal (cf : cfg) (s : state) : Prop := KLive true cf s /\ ShInv s /\ GInv s /\ s_last s <= 256.

Lemma KHeal_poke cf s : KLive true cf s -> ShInv s -> GInv s -> s_last s <= 256 -> KHeal cf (poke cf s).
Proof.
  intros HL HS HG H256. split; [apply KLive_poke with (b := true); assumption|]. split.
  - apply Sh_poke; [destruct HL as [_ (_ & L2 & _)]; assumption|assumption].
  - split; [apply G_pokeK; assumption|]. destruct (core_proj _ _ (poke_core cf s)) as (_ & C2 & _). lia.
Qed.

Lemma KHeal_deliver cf s i d : KHeal cf s -> nth_error (s_net s) i = Some d ->
  KHeal cf (poke cf (deliver_dgram cf (set_net s (remove_nth i (s_net s))) d)).
Proof.
  intros (HL & HS & HG & H256) E.
  assert (Hd : In d (s_net s)) by (eapply nth_error_In; eassumption).
  assert (Hrest : forall x, In x (remove_nth i (s_net s)) -> In x (s_net s)) by (intros x Hx; eapply remove_nth_in; exact Hx).
  destruct (core_proj _ _ (deliver_dgram_core cf (set_net s (remove_nth i (s_net s))) d)) as (C1 & C2 & _).
  apply KHeal_poke.
  - apply KLive_deliver; assumption.
  - apply Sh_deliver.
    + cbn. destruct HL as [_ (_ & L2 & _)]. assumption.
    + destruct HS as [X Y]. split; [apply Forall_remove_nth; assumption|assumption].
    + destruct HS as [X _]. rewrite Forall_forall in X. auto.
  - apply G_deliverK; assumption.
  - rewrite C2. assumption.
Qed.

Lemma KHeal_pump cf fuel : forall s n, KHeal cf s -> KHeal cf (fst (pump fuel cf s n)).
Proof.
  induction fuel as [|f IH]; intros s n H; cbn [pump]; [assumption|].
  destruct (s_net s) as [|d t] eqn:En; [assumption|].
  apply IH. pose proof (KHeal_deliver cf s 0 d H) as Hd. rewrite En in Hd. cbn in Hd. apply Hd. reflexivity.
Qed.

Lemma KHeal_step cf s a : is_delivery a = true -> KHeal cf s -> KHeal cf (fst (step cf s a)).
Proof.
  intros Ha H. destruct a; try discriminate; unfold step; cbn [act].
  - destruct (nth_error (s_net s) i) as [d|] eqn:E; cbn [fst].
    + exact (KHeal_deliver cf s i d H E).
    + destruct H as (A & B & C & D). apply KHeal_poke; assumption.
  - pose proof (KHeal_pump cf pump_fuel s 0 H) as Hp. destruct (pump pump_fuel cf s 0) as [s1 n]. cbn [fst] in *.
    destruct Hp as (A & B & C & D). apply KHeal_poke; assumption.
Qed.

Lemma KHeal_run cf l : forallb is_delivery l = true -> forall s, KHeal cf s -> KHeal cf (run cf s l).
Proof.
  induction l as [|a t IH]; intros Hl s H; [exact H|]. cbn in Hl. apply andb_prop in Hl. destruct Hl as [Ha Ht].
  rewrite run_cons. apply IH; [assumption|]. apply KHeal_step; assumption.
Qed.

(* what the reader has received up to highest_received is what the soundness invariant accounts for *)
Lemma KS_done_delivered s p r w : KS s -> s_rp s = Some p -> rp_rel p = true -> s_rd s = Some r -> rd_wp r = Some w ->
  (s_last s <= wp_hr w \/ s_last s <= rp_fr p) ->
  forall c, In c (s_changes s) -> rp_fr p < c_sn c -> In c (rd_pres r).
Proof.
  intros ((HS & _ & G) & _ & _) Ep Hrel Er Ew HD c Hc Hlt.
  pose proof (SInv_chs_le s HS c Hc) as Hle.
  destruct HD as [HD|HD]; [|lia].
  rewrite Ep in G. destruct G as (_ & _ & _ & D). unfold RdPart in D. rewrite Er, Ew in D.
  destruct D as [_ (_ & _ & _ & _ & F)]. destruct (F Hrel) as [_ F2]. apply F2; [assumption|assumption|].
  unfold avail_max. lia.
Qed.

(* at quiescence the healing invariant means: delivered *)
Lemma KHeal_quiescent cf s : KHeal cf s -> s_net s = [] -> delivered s.
Proof.
  intros ((HC & HL) & HS & HG & H256) Hnet p r w Ep Hrel Er Ew c Hc Hlt.
  destruct (HG p r w Ep Hrel Er Ew) as [HD|(G0 & GA & GC)].
  - eapply KS_done_delivered; eassumption.
  - exfalso. rewrite Hnet in *.
    destruct GA as [GA|(d & f & l & [] & _)].
    destruct (GC GA) as (_ & (d & [] & _) & _).
Qed.

(* while the reader lacks the last sample, the writer has not recorded it as acknowledged *)
Lemma KS_unacked s p r w : KS s -> s_rp s = Some p -> rp_rel p = true -> s_rd s = Some r -> rd_wp r = Some w ->
  wp_hr w < s_last s -> rp_fr p < s_last s -> rp_ha p < s_last s.
Proof.
  intros ((HS & _ & G) & _ & [HK Hp']) Ep Hrel Er Ew Hhr Hfr. rewrite Ep in Hp'.
  destruct (Z.lt_ge_cases (rp_ha p) (s_last s)) as [|Hge]; [assumption|exfalso].
  rewrite Ep in G. destruct G as (_ & Hha & _ & _). destruct (Hha Hrel) as [_ H2].
  assert (Hpos : 0 < s_last s) by lia.
  pose proof (KC_last_in _ _ HK Hpos) as Hin. unfold sns in Hin. apply in_map_iff in Hin. destruct Hin as [c [Hsn Hc]].
  assert (Hp : In c (presented s)) by (apply H2; [assumption|lia|lia]).
  unfold presented in Hp. rewrite Er in Hp.
  pose proof (si_rd s HS) as Hr. rewrite Er in Hr. unfold ARInv, RInv in Hr. rewrite Ew in Hr.
  destruct Hr as (_ & _ & Hb & _). rewrite Forall_forall in Hb. specialize (Hb c Hp). lia.
Qed.

(* ------------------------------------------------------------------ five ticks establish the healing invariant *)
Lemma KLive_tick_state cf s : KLive true cf s -> KLive true cf (tick_state s).
Proof.
  intros [HC HL]. split.
  - apply (KS_act cf s ATick eq_refl HC).
  - eapply KLInv_ext; [exact HL|cbn; unfold tick_ms; lia|reflexivity|reflexivity|reflexivity|reflexivity|reflexivity|].
    intros r' Hr'. exists r'. auto.
Qed.

Lemma tick_staleK cf s b : KLive true cf s -> ShInv s -> Stale b s ->
  Stale b (fst (step cf s ATick)) /\ (hb_period <= s_now s + tick_ms - b -> GInv (fst (step cf s ATick))).
Proof.
  intros HL HSh HSt. rewrite step_tick.
  pose proof (KLive_tick_state cf s HL) as HL1. set (s1 := tick_state s) in *.
  assert (Key : forall q r w, s_rp (poke cf s1) = Some q -> rp_rel q = true -> s_rd (poke cf s1) = Some r -> rd_wp r = Some w ->
            GOk (poke cf s1) q w \/ (rp_hbt q <= b /\ ~ hb_period <= s_now s + tick_ms - b)).
  { intros q r w Eq Hrelq Er Ew. rewrite poke_rd in Er.
    pose proof HL1 as [HC1 (L1 & L2 & L3 & L4 & L5)]. pose proof HC1 as (HGS1 & HN1 & [HK1 Hp1]).
    destruct (s_rp s1) as [p|] eqn:Ep; [|rewrite poke_rp_none in Eq by assumption; congruence].
    destruct (poke_rp_some cf s1 p Ep) as [q' [Eq' Hst]]. assert (q' = q) by congruence. subst q'.
    apply static_fr in Hst. destruct Hst as (Hfr1 & Hrel1 & _).
    assert (Hrel : rp_rel p = true) by congruence.
    destruct (HSt p r w Ep Hrel Er Ew) as [HG|Hb].
    - left. assert (HG1 : GInv s1).
      { intros p2 r2 w2 E2 _ Er2 Ew2. assert (p2 = p) by congruence. assert (r2 = r) by congruence. subst p2 r2.
        assert (w2 = w) by congruence. subst w2. exact HG. }
      apply (G_pokeK cf s1 HL1 HG1 q r w); try assumption. rewrite poke_rd. assumption.
    - destruct Hp1 as [Hhs Hfr].
      destruct (L5 p r w eq_refl Hrel Er Ew) as [K1 K2 K3 K4 K6 K7 K8].
      destruct (core_proj _ _ (poke_core cf s1)) as (_ & C2 & _).
      destruct (Z.le_gt_cases (s_last s1) (wp_hr w)) as [HD|HnD].
      { left; left; left. rewrite C2. exact HD. }
      destruct (Z.le_gt_cases (s_last s1) (rp_fr p)) as [HD2|HnD2].
      { left; left; right. rewrite C2, Hfr1. exact HD2. }
      pose proof (KS_unacked s1 p r w HC1 Ep Hrel Er Ew HnD HnD2) as Hunack.
      unfold poke in Eq. rewrite Ep in Eq. unfold write_message in Eq. rewrite Hrel in Eq.
      pose proof (write_rel_liveK cf (s_now s1) (s_changes s1) (s_last s1) HK1 L2 p Hhs K2) as H. lazy zeta in H.
      unfold poke. rewrite Ep. unfold write_message. rewrite Hrel.
      destruct (write_rel cf (s_now s1) (s_changes s1) p) as [p1 out]. cbn [fst snd] in *. cbn in Eq. injection Eq as <-.
      destruct H as (W1 & W2 & W3 & W4 & W5 & _ & W7 & _).
      destruct W5 as [[Eh Et]|[Hlt Et]].
      + right. split; [lia|]. intros Hdue. assert (rp_hbc p < rp_hbc p1); [|lia].
        apply W7; [apply K1; reflexivity|lia|]. cbn [s_now s1 tick_state]. lia.
      + left. right. cbn [s_net s_last send set_rp]. split; [lia|]. split.
        * right. apply (khas_hb_in (rp_hbc p1) (s_last s1) out); [apply W4; assumption|].
          intros x Hx. apply in_or_app. right. apply filter_In. split; [assumption|]. cbn [s_rdead set_rp]. rewrite L3, andb_false_r. reflexivity.
        * intros Hp. lia. }
  split.
  - intros q r w Eq Hrelq Er Ew. destruct (Key q r w Eq Hrelq Er Ew) as [H|[H _]]; [left|right]; assumption.
  - intros Hdue q r w Eq Hrelq Er Ew. destruct (Key q r w Eq Hrelq Er Ew) as [H|[_ H]]; [assumption|contradiction].
Qed.

Lemma Stale_initK cf s : KLive true cf s -> Stale (s_now s) s.
Proof.
  intros [_ (_ & _ & _ & _ & L5)] p r w Ep Hrel Er Ew. right. destruct (L5 p r w Ep Hrel Er Ew). assumption.
Qed.

Lemma five_ticks_healK cf s : 0 < fsz cf -> KLive true cf s -> ShInv s -> s_last s <= 256 ->
  KHeal cf (run cf s five_ticks).
Proof.
  intros Hf HL HS H256.
  assert (Step : forall s0 b, KLive true cf s0 -> ShInv s0 -> Stale b s0 ->
            let s1 := fst (step cf s0 ATick) in
            KLive true cf s1 /\ ShInv s1 /\ Stale b s1 /\ s_now s1 = s_now s0 + tick_ms /\ s_last s1 = s_last s0 /\
            (hb_period <= s_now s0 + tick_ms - b -> GInv s1)).
  { intros s0 b HL0 HS0 HSt0. cbn zeta.
    destruct (tick_staleK cf s0 b HL0 HS0 HSt0) as [T1 T2].
    split; [apply KLive_step; [assumption|reflexivity|assumption]|].
    split; [apply (Sh_stepK cf s0 ATick Hf eq_refl); [destruct HL0 as [_ (_ & L2 & _)]; assumption|assumption]|].
    split; [assumption|]. rewrite step_tick.
    destruct (core_proj _ _ (poke_core cf (tick_state s0))) as (_ & C2 & _ & _ & C5).
    split; [rewrite C5; reflexivity|]. split; [rewrite C2; reflexivity|]. rewrite <- step_tick. assumption. }
  unfold five_ticks. rewrite !run_cons. cbn [run run_out fst].
  destruct (Step s (s_now s) HL HS (Stale_initK cf s HL)) as (L1 & S1 & T1 & N1 & E1 & _).
  destruct (Step _ (s_now s) L1 S1 T1) as (L2 & S2 & T2 & N2 & E2 & _).
  destruct (Step _ (s_now s) L2 S2 T2) as (L3 & S3 & T3 & N3 & E3 & _).
  destruct (Step _ (s_now s) L3 S3 T3) as (L4 & S4 & T4 & N4 & E4 & G4).
  assert (HG4 : GInv (fst (step cf (fst (step cf (fst (step cf (fst (step cf s ATick)) ATick)) ATick)) ATick))).
  { apply G4. unfold hb_period, tick_ms in *. lia. }
  set (s4 := fst (step cf (fst (step cf (fst (step cf (fst (step cf s ATick)) ATick)) ATick)) ATick)) in *.
  assert (HSt4 : Stale (s_now s4 - 1000) s4).
  { intros p r w Ep Hrel Er Ew. left. exact (HG4 p r w Ep Hrel Er Ew). }
  destruct (Step s4 (s_now s4 - 1000) L4 S4 HSt4) as (L5 & S5 & T5 & N5 & E5 & G5).
  split; [assumption|]. split; [assumption|]. split; [apply G5; unfold hb_period, tick_ms; lia|]. lia.
Qed.

(* LIVENESS for histories WITH holes.  ANY history QoS (KEEP_ALL, KEEP_LAST(d) with any number of instances:
   old samples leave the history cache while new ones are written, the sequence numbers held have holes),
   every sample fits one DATA submessage, no explicit removal from the history cache, the reader is not
   deleted, at most 256 samples written: after ANY schedule of that class (all loss, duplication, reordering
   and delay patterns, late joiners of any durability), one heartbeat period (five ticks of the worker) and ANY
   loss-free delivery sequence (individual deliveries in any order and FIFO pumps), whenever nothing is queued
   any more the RELIABLE matched reader has been given every relevant change the writer holds. *)
Theorem reliable_liveness_holes cf sched dels :
  0 < fsz cf ->
  forallb (live_act cf) sched = true -> forallb is_delivery dels = true ->
  let s := run cf init (sched ++ five_ticks ++ dels) in
  s_last s <= 256 -> s_net s = [] -> delivered s.
Proof.
  intros Hf Hs Hdel s H256 Hnet. subst s. rewrite run_app, run_app in *.
  set (s0 := run cf init sched) in *.
  assert (HL0 : KLive true cf s0) by (apply KLive_run; [assumption|assumption|apply KLive_init]).
  destruct (ShInv_runK cf sched Hf Hs init) as [HS0 _]; [intros c []|apply ShInv_init|]. fold s0 in HS0.
  assert (Hlast : s_last s0 <= 256).
  { pose proof (run_last cf dels (run cf s0 five_ticks)). pose proof (run_last cf five_ticks s0). lia. }
  pose proof (five_ticks_healK cf s0 Hf HL0 HS0 Hlast) as H5.
  pose proof (KHeal_run cf dels Hdel _ H5) as Hend.
  apply (KHeal_quiescent cf _ Hend Hnet).
Qed.

(* the same with the scenario vocabulary: k + 1 healing rounds (250 ms, FIFO pump), quiescent at the end *)
Theorem reliable_liveness_holes_heal cf sched k :
  0 < fsz cf -> forallb (live_act cf) sched = true ->
  let s := run cf init (sched ++ heal (S k)) in
  s_last s <= 256 -> s_net s = [] -> delivered s.
Proof.
  intros Hf Hs. rewrite heal_snoc.
  replace (sched ++ heal k ++ heal_round) with ((sched ++ heal k) ++ five_ticks ++ [APump])
    by (rewrite <- !app_assoc; reflexivity).
  apply reliable_liveness_holes; try assumption; [|reflexivity].
  rewrite forallb_app, Hs, heal_live. reflexivity.
Qed.

(* HISTORY with holes: a reliable TRANSIENT_LOCAL reader (late or not) ends up with EVERY change the writer
   retains, whatever the history QoS *)
Theorem transient_local_history_holes cf sched k :
  0 < fsz cf -> forallb (live_act cf) sched = true ->
  let s := run cf init (sched ++ heal (S k)) in
  s_last s <= 256 -> s_net s = [] ->
  forall p r w, s_rp s = Some p -> rp_rel p = true -> rp_tl p = true -> s_rd s = Some r -> rd_wp r = Some w ->
    forall c, In c (s_changes s) -> In c (rd_pres r).
Proof.
  intros Hf Hs s H256 Hnet p r w Ep Hrel Htl Er Ew c Hc.
  pose proof (reliable_liveness_holes_heal cf sched k Hf Hs H256 Hnet) as Hdel.
  apply (Hdel p r w Ep Hrel Er Ew c Hc).
  assert (Hfr : rp_fr p = 0).
  { apply (tl_fr_zero cf (sched ++ heal (S k)) init); [intros q Hq; discriminate|exact Ep|exact Htl]. }
  rewrite Hfr.
  assert (HL : KLive true cf s).
  { apply KLive_run; [assumption| |apply KLive_init]. rewrite forallb_app, Hs, heal_live. reflexivity. }
  destruct HL as [(_ & _ & [(_ & Kb & _) _]) _]. specialize (Kb c Hc). lia.
Qed.
