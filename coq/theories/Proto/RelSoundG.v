(* C03/C01 — acknowledgements are truthful for EVERY history QoS and every schedule (removals from the
   history cache, KEEP_LAST with several instances, late joiners, deletions, all faults).
   Invariant: a GAP in flight only covers sequence numbers at which the writer holds nothing relevant for
   the reader; a HEARTBEAT's first sequence number is at or below everything held; whatever an ACKNACK
   acknowledges (base - 1), whatever the reader accounts for (available_changes_max) and whatever the
   writer recorded (highest_acked) has been presented as far as it is still held and relevant.
   This needs the contiguity test of irrelevant_change_range (a GAP advances highest_received only when it
   starts at or below available_changes_max + 1). *)
From DustDDS Require Import Base.Machine Proto.RelModel Proto.RelProofs Proto.RelSound.
Open Scope Z_scope.

(* ------------------------------------------------------------------ the three promises *)
Definition GapOk (fr : Z) (chs : list change) (L a b : Z) : Prop :=
  b - 1 <= L /\ forall c, In c chs -> fr < c_sn c -> a <= c_sn c -> c_sn c < b -> False.
Definition HbOk (chs : list change) (L f l : Z) : Prop :=
  f <= L + 1 /\ l <= L /\ forall c, In c chs -> f <= c_sn c.
Definition AckOk (fr : Z) (chs pres : list change) (L x : Z) : Prop :=
  x <= L /\ forall c, In c chs -> fr < c_sn c -> c_sn c <= x -> In c pres.

Definition gsub (fr : Z) (chs pres : list change) (L : Z) (rel : bool) (m : submsg) : Prop :=
  match m with
  | SGap a b => GapOk fr chs L a b
  | SHb f l _ => HbOk chs L f l
  | SAck base set _ => (rel = true -> AckOk fr chs pres L (base - 1)) /\ Forall (fun n => n <= L) set
  | SNack sn _ _ _ => sn <= L
  | _ => True
  end.
Definition gdg fr chs pres L rel (d : dgram) : Prop := Forall (gsub fr chs pres L rel) (dg_subs d).

(* the history cache and the counter evolve: changes disappear, new ones get larger sequence numbers *)
Definition Ext (chs : list change) (L : Z) (chs' : list change) (L' : Z) : Prop :=
  L <= L' /\ forall c, In c chs' -> In c chs \/ L < c_sn c.

Lemma Ext_refl chs L : Ext chs L chs L.
Proof. split; [lia|auto]. Qed.

Lemma GapOk_mono fr chs L chs' L' a b : Ext chs L chs' L' -> GapOk fr chs L a b -> GapOk fr chs' L' a b.
Proof.
  intros [HL Hc] [H1 H2]. split; [lia|]. intros c Hin Hfr Ha Hb.
  destruct (Hc c Hin) as [Hold|Hnew]; [eapply H2; eassumption|lia].
Qed.
Lemma HbOk_mono chs L chs' L' f l : Ext chs L chs' L' -> HbOk chs L f l -> HbOk chs' L' f l.
Proof.
  intros [HL Hc] (H1 & H2 & H3). split; [lia|]. split; [lia|]. intros c Hin.
  destruct (Hc c Hin) as [Hold|Hnew]; [auto|lia].
Qed.
Lemma AckOk_mono fr chs pres L chs' pres' L' x : Ext chs L chs' L' -> incl pres pres' ->
  AckOk fr chs pres L x -> AckOk fr chs' pres' L' x.
Proof.
  intros [HL Hc] Hp [H1 H2]. split; [lia|]. intros c Hin Hfr Hx.
  destruct (Hc c Hin) as [Hold|Hnew]; [apply Hp; auto|lia].
Qed.
Lemma AckOk_le fr chs pres L x y : y <= x -> AckOk fr chs pres L x -> AckOk fr chs pres L y.
Proof. intros Hy [H1 H2]. split; [lia|]. intros c Hin Hfr Hc. apply H2; auto; lia. Qed.

Lemma gsub_mono fr chs pres L chs' pres' L' rel m : Ext chs L chs' L' -> incl pres pres' ->
  gsub fr chs pres L rel m -> gsub fr chs' pres' L' rel m.
Proof.
  intros HE Hp. destruct m; cbn; auto.
  - apply GapOk_mono; assumption.
  - apply HbOk_mono; assumption.
  - intros [A B]. split.
    + intros Hr. eapply AckOk_mono; eauto.
    + eapply Forall_impl; [|exact B]. cbn. destruct HE. intros; lia.
  - destruct HE. lia.
Qed.
Lemma gdg_mono fr chs pres L chs' pres' L' rel d : Ext chs L chs' L' -> incl pres pres' ->
  gdg fr chs pres L rel d -> gdg fr chs' pres' L' rel d.
Proof. intros HE Hp H. unfold gdg in *. eapply Forall_impl; [|exact H]. intros m. apply gsub_mono; assumption. Qed.

(* ------------------------------------------------------------------ the writer keeps the promises *)
Lemma next_unsent_spec p chs n : next_unsent p chs = Some n ->
  In n (sns chs) /\ rp_hs p < n /\ forall c, In c chs -> rp_hs p < c_sn c -> n <= c_sn c.
Proof.
  unfold next_unsent. intros H. apply zmin_list_spec in H. destruct H as [Hin Hall].
  apply filter_In in Hin. destruct Hin as [Hin Hlt]. apply Z.ltb_lt in Hlt.
  split; [assumption|]. split; [assumption|]. intros c Hc Hs. rewrite Forall_forall in Hall. apply Hall.
  apply filter_In. split; [unfold sns; apply in_map; assumption|apply Z.ltb_lt; assumption].
Qed.

Section Writer.
Variables (fr : Z) (chs pres : list change) (L : Z) (rel : bool).
Hypothesis HL0 : 0 <= L.
Hypothesis Hle : forall c, In c chs -> c_sn c <= L.

Lemma sns_le n : In n (sns chs) -> n <= L.
Proof. unfold sns. intros H. apply in_map_iff in H. destruct H as [c [<- Hc]]. auto. Qed.

Lemma hb_ok : HbOk chs L (first_sn chs) (last_sn chs).
Proof.
  unfold HbOk, first_sn, last_sn. split; [|split].
  - destruct (zmin_list (sns chs)) as [m|] eqn:E; [|lia]. apply zmin_list_spec in E. destruct E as [Hin _].
    apply sns_le in Hin. lia.
  - destruct (zmax_list (sns chs)) as [m|] eqn:E; [|lia]. apply zmax_list_spec in E. destruct E as [Hin _].
    apply sns_le in Hin. lia.
  - intros c Hc. destruct (zmin_list (sns chs)) as [m|] eqn:E.
    + apply zmin_list_spec in E. destruct E as [_ Hall]. rewrite Forall_forall in Hall. apply Hall.
      unfold sns. apply in_map. assumption.
    + apply zmin_list_none in E. unfold sns in E. destruct chs; [contradiction|discriminate].
Qed.

Lemma gap_range_ok p n : next_unsent p chs = Some n -> GapOk fr chs L (rp_hs p + 1) n.
Proof.
  intros H. apply next_unsent_spec in H. destruct H as (Hin & Hlt & Hmin).
  split; [apply sns_le in Hin; lia|]. intros c Hc _ Ha Hb. specialize (Hmin c Hc). lia.
Qed.

Lemma gap_one_ok p n : rp_fr p = fr -> lookup_relevant p n chs = None -> n <= L -> GapOk fr chs L n (n + 1).
Proof.
  intros Hfr Hl Hn. split; [lia|]. intros c Hc Hrel Ha Hb. unfold lookup_relevant in Hl.
  pose proof (find_none _ _ Hl c Hc) as Hf. cbn in Hf. rewrite Hfr in Hf.
  assert (c_sn c = n) by lia. subst n.
  rewrite Z.eqb_refl in Hf. cbn in Hf. apply Z.ltb_ge in Hf. lia.
Qed.

Lemma gdg_frags c k extra : Forall (gsub fr chs pres L rel) extra -> Forall (gdg fr chs pres L rel) (frag_dgrams c k extra).
Proof.
  intros He. unfold frag_dgrams. apply Forall_app; split.
  - apply Forall_forall. intros d Hd. apply in_map_iff in Hd. destruct Hd as [i [<- _]].
    unfold gdg; cbn. repeat constructor.
  - constructor; [|constructor]. unfold gdg; cbn. constructor; [exact I|assumption].
Qed.

Ltac one_dg := apply Forall_app; split; [assumption|]; constructor; [|constructor]; unfold gdg; cbn.

Lemma unsent_rel_g fuel cf now : forall p acc, rp_fr p = fr -> Forall (gdg fr chs pres L rel) acc ->
  Forall (gdg fr chs pres L rel) (snd (unsent_rel fuel cf now chs p acc)).
Proof.
  induction fuel as [|f IH]; intros p acc Hfr Ha; cbn [unsent_rel]; [assumption|].
  destruct (next_unsent p chs) as [n|] eqn:En; [|assumption].
  destruct (rp_hs p + 1 <? n).
  - unfold gen_hb. apply IH; [exact Hfr|]. one_dg.
    constructor; [eapply gap_range_ok; eassumption|]. constructor; [apply hb_ok|constructor].
  - destruct (lookup_relevant p n chs) as [c|] eqn:El.
    + unfold gen_hb. destruct (1 <? nfrags cf c); apply IH; try exact Hfr.
      * apply Forall_app; split; [assumption|]. apply gdg_frags. constructor; [apply hb_ok|constructor].
      * one_dg. constructor; [exact I|]. constructor; [apply hb_ok|constructor].
    + apply IH; [exact Hfr|]. one_dg. constructor; [|constructor].
      apply gap_one_ok with (p := p); [assumption|assumption|].
      apply next_unsent_spec in En. destruct En as (Hin & _). apply sns_le. assumption.
Qed.

Lemma req_loop_g fuel cf now : forall p acc, rp_fr p = fr -> Forall (fun n => n <= L) (rp_req p) ->
  Forall (gdg fr chs pres L rel) acc ->
  Forall (gdg fr chs pres L rel) (snd (req_loop fuel cf now chs p acc)) /\
  Forall (fun n => n <= L) (rp_req (fst (req_loop fuel cf now chs p acc))).
Proof.
  induction fuel as [|f IH]; intros p acc Hfr Hreq Ha; cbn [req_loop]; [split; assumption|].
  destruct (zmin_list (rp_req p)) as [n|] eqn:En; [|split; assumption].
  apply zmin_list_spec in En. destruct En as [Hn _].
  assert (HnL : n <= L) by (rewrite Forall_forall in Hreq; auto).
  set (p0 := set_req p (filter (fun s => negb (s =? n)) (rp_req p))).
  assert (Hreq0 : Forall (fun n => n <= L) (rp_req p0)) by (subst p0; cbn; apply Forall_filter; assumption).
  destruct (lookup_relevant p0 n chs) as [c|] eqn:El.
  - unfold gen_hb. destruct (1 <? nfrags cf c); apply IH; try exact Hfr; try exact Hreq0;
      (one_dg; constructor; [exact I|]; constructor; [apply hb_ok|constructor]).
  - apply IH; [exact Hfr|exact Hreq0|]. one_dg. constructor; [|constructor].
    apply gap_one_ok with (p := p0); [exact Hfr|assumption|assumption].
Qed.

Lemma unsent_rel_req fuel cf now : forall p acc, rp_req (fst (unsent_rel fuel cf now chs p acc)) = rp_req p.
Proof.
  induction fuel as [|f IH]; intros p acc; cbn [unsent_rel]; [reflexivity|].
  destruct (next_unsent p chs) as [n|]; [|reflexivity].
  destruct (rp_hs p + 1 <? n); [unfold gen_hb; rewrite IH; reflexivity|].
  destruct (lookup_relevant p n chs) as [c|]; [|rewrite IH; reflexivity].
  unfold gen_hb. destruct (1 <? nfrags cf c); rewrite IH; reflexivity.
Qed.

Lemma write_rel_g cf now p : rp_fr p = fr -> Forall (fun n => n <= L) (rp_req p) ->
  Forall (gdg fr chs pres L rel) (snd (write_rel cf now chs p)) /\
  Forall (fun n => n <= L) (rp_req (fst (write_rel cf now chs p))).
Proof.
  intros Hfr Hreq. unfold write_rel.
  match goal with |- context [let '(p1, out1) := ?X in _] => destruct X as [p1 out1] eqn:E1 end.
  assert (H1 : rp_fr p1 = fr /\ rp_req p1 = rp_req p /\ Forall (gdg fr chs pres L rel) out1).
  { destruct (next_unsent p chs).
    - replace p1 with (fst (unsent_rel (S (2 * length chs)) cf now chs p [])) by (rewrite E1; reflexivity).
      replace out1 with (snd (unsent_rel (S (2 * length chs)) cf now chs p [])) by (rewrite E1; reflexivity).
      split; [rewrite unsent_rel_fr; assumption|]. split; [apply unsent_rel_req|].
      apply unsent_rel_g; [assumption|constructor].
    - destruct (negb (unacked p (zmax_list (sns chs)))); [inversion E1; subst; repeat split; try assumption; constructor|].
      destruct (time_for_hb p now); unfold gen_hb in E1; inversion E1; subst; cbn; repeat split; try assumption; try constructor.
      + unfold gdg; cbn. constructor; [apply hb_ok|constructor].
      + constructor. }
  destruct H1 as (A & B & C). apply req_loop_g; [assumption|rewrite B; assumption|assumption].
Qed.

Lemma write_be_g fuel cf : forall p acc, rp_fr p = fr -> Forall (gdg fr chs pres L rel) acc ->
  Forall (gdg fr chs pres L rel) (snd (write_be_loop fuel cf chs p acc)).
Proof.
  induction fuel as [|f IH]; intros p acc Hfr Ha; cbn [write_be_loop]; [assumption|].
  destruct (next_unsent p chs) as [n|] eqn:En; [|assumption].
  destruct (rp_hs p + 1 <? n).
  - apply IH; [exact Hfr|]. one_dg. constructor; [eapply gap_range_ok; eassumption|constructor].
  - destruct (lookup_relevant p n chs) as [c|] eqn:El.
    + destruct (1 <? nfrags cf c); apply IH; try exact Hfr.
      * apply Forall_app; split; [assumption|]. apply gdg_frags. constructor.
      * one_dg. repeat constructor.
    + apply IH; [exact Hfr|]. one_dg. constructor; [|constructor].
      apply gap_one_ok with (p := p); [assumption|assumption|].
      apply next_unsent_spec in En. destruct En as (Hin & _). apply sns_le. assumption.
Qed.

Lemma write_be_req fuel cf : forall p acc, rp_req (fst (write_be_loop fuel cf chs p acc)) = rp_req p.
Proof.
  induction fuel as [|f IH]; intros p acc; cbn [write_be_loop]; [reflexivity|].
  destruct (next_unsent p chs) as [n|]; [|reflexivity].
  destruct (rp_hs p + 1 <? n); [rewrite IH; reflexivity|].
  destruct (lookup_relevant p n chs) as [c|]; [|rewrite IH; reflexivity].
  destruct (1 <? nfrags cf c); rewrite IH; reflexivity.
Qed.

Lemma write_message_g cf now p : rp_fr p = fr -> Forall (fun n => n <= L) (rp_req p) ->
  Forall (gdg fr chs pres L rel) (snd (write_message cf now chs p)) /\
  Forall (fun n => n <= L) (rp_req (fst (write_message cf now chs p))).
Proof.
  intros Hfr Hreq. unfold write_message. destruct (rp_rel p); [apply write_rel_g; assumption|].
  split; [apply write_be_g; [assumption|constructor]|rewrite write_be_req; assumption].
Qed.

Lemma req_add_le req set : Forall (fun n => n <= L) req -> Forall (fun n => n <= L) set ->
  Forall (fun n => n <= L) (req_add req set).
Proof.
  revert req. induction set as [|x t IH]; intros req Hr Hs; cbn; [assumption|].
  inversion Hs; subst. apply IH; [|assumption].
  destruct (zmem x req); [assumption|]. apply Forall_app; split; [assumption|]. constructor; [assumption|constructor].
Qed.

Lemma on_nackfrag_g cf p sn base set count : sn <= L ->
  Forall (gdg fr chs pres L rel) (snd (on_nackfrag cf chs p sn base set count)).
Proof.
  intros Hsn. unfold on_nackfrag. destruct (rp_rel p && (rp_nf p <? count)); [|constructor].
  destruct (find_change sn chs) as [c|] eqn:El; cbn [snd].
  - apply Forall_forall. intros d Hd. apply in_flat_map in Hd. destruct Hd as [f [_ Hd]].
    destruct ((1 <=? f) && (f <=? nfrags cf c)); [|contradiction]. destruct Hd as [<-|[]].
    unfold gdg; cbn. repeat constructor.
  - constructor; [|constructor]. unfold gdg; cbn. constructor; [|constructor].
    split; [lia|]. intros c Hc _ Ha Hb. unfold find_change in El.
    pose proof (find_none _ _ El c Hc) as Hf. cbn in Hf. apply Z.eqb_neq in Hf. lia.
Qed.
End Writer.

(* ------------------------------------------------------------------ the reader keeps the promises *)
Record LogOk (log chs : list change) (L : Z) : Prop := mkLogOk {
  lo_le : forall c, In c log -> c_sn c <= L;
  lo_fun : forall c d, In c log -> In d log -> c_sn c = c_sn d -> c = d;
  lo_chs : incl chs log
}.

Definition RdOk (fr : Z) (log chs : list change) (L : Z) (rel : bool) (w : wproxy) (pres : list change) : Prop :=
  wp_hr w <= L /\ wp_fa w <= L + 1 /\ wp_la w <= L /\
  Forall (fun f => In (fst f) log) (wp_frags w) /\
  (rel = true -> AckOk fr chs pres L (avail_max w)).

Lemma acknack_of_fields cf w :
  wp_hr (fst (acknack_of cf w)) = wp_hr w /\ wp_fa (fst (acknack_of cf w)) = wp_fa w /\
  wp_la (fst (acknack_of cf w)) = wp_la w /\ wp_frags (fst (acknack_of cf w)) = wp_frags w.
Proof.
  unfold acknack_of.
  repeat match goal with |- context [match ?X with _ => _ end] => destruct X end; cbn; auto.
Qed.

Section Reader.
Variables (fr : Z) (log chs : list change) (L : Z) (rel : bool).
Hypothesis HLog : LogOk log chs L.

Ltac rdok_split := split; [|split; [|split; [|split]]].

Lemma RdOk_pres w pres pres' : incl pres pres' -> RdOk fr log chs L rel w pres -> RdOk fr log chs L rel w pres'.
Proof.
  intros Hi (A & B & C & D & E). rdok_split; try assumption.
  intros Hr. eapply AckOk_mono; [apply Ext_refl|exact Hi|auto].
Qed.

Lemma RdOk_frags w pres fr' : RdOk fr log chs L rel w pres -> Forall (fun f => In (fst f) log) fr' ->
  RdOk fr log chs L rel (set_frags w fr') pres.
Proof. intros (A & B & C & D & E) Hf. unfold RdOk, set_frags, avail_max in *; cbn. tauto. Qed.

Lemma on_data_g w c pres w1 oc : In c log -> RdOk fr log chs L rel w pres ->
  on_data rel w c = (w1, oc) -> RdOk fr log chs L rel w1 (pres ++ opt_list oc).
Proof.
  intros Hc HR E. pose proof HR as (A & B & C & D & F).
  pose proof (lo_le _ _ _ HLog c Hc) as HcL.
  assert (Hav : wp_hr w <= avail_max w /\ wp_fa w - 1 <= avail_max w) by (unfold avail_max; lia).
  unfold on_data in E. destruct rel eqn:Erel.
  - destruct (Z.eqb_spec (c_sn c) (avail_max w + 1)) as [Heq|Hne]; inversion E; subst w1 oc; cbn [opt_list].
    2:{ rewrite app_nil_r. assumption. }
    unfold RdOk, received_set, avail_max; cbn. destruct (Z.ltb_spec (wp_hr w) (c_sn c)); [|lia].
    split; [lia|]. split; [lia|]. split; [lia|]. split; [apply Forall_filter; assumption|].
    intros _. destruct (F eq_refl) as [F1 F2]. split; [lia|].
    intros d Hd Hfr Hle. apply in_or_app.
    destruct (Z.eq_dec (c_sn d) (c_sn c)) as [Hs|Hs].
    + right. left. symmetry. apply (lo_fun _ _ _ HLog); [apply (lo_chs _ _ _ HLog)| |]; assumption.
    + left. apply F2; [assumption|assumption|]. unfold avail_max in *. lia.
  - destruct (Z.leb_spec (avail_max w + 1) (c_sn c)) as [Hle|Hgt]; inversion E; subst w1 oc; cbn [opt_list].
    2:{ rewrite app_nil_r. assumption. }
    destruct (avail_max w + 1 <? c_sn c); unfold RdOk, set_fa, received_set; cbn;
      destruct (Z.ltb_spec (wp_hr w) (c_sn c)); rdok_split; try lia; try discriminate;
      apply Forall_filter; assumption.
Qed.

Lemma on_frag_g cf w c k pres w1 oc : In c log -> RdOk fr log chs L rel w pres ->
  on_frag cf rel w c k = (w1, oc) -> RdOk fr log chs L rel w1 (pres ++ opt_list oc).
Proof.
  intros Hc HR E. unfold on_frag in E.
  set (wa := if (if rel then c_sn c =? avail_max w + 1 else avail_max w + 1 <=? c_sn c)
             then push_frag w (c, k) else w) in *.
  assert (Hwa : RdOk fr log chs L rel wa pres).
  { subst wa. destruct (if rel then _ else _); [|assumption].
    unfold push_frag. destruct (existsb _ _); [assumption|]. apply RdOk_frags; [assumption|].
    destruct HR as (_ & _ & _ & D & _). apply Forall_app; split; [assumption|]. constructor; [exact Hc|constructor]. }
  destruct (reconstruct cf wa (c_sn c)) as [[d w2]|] eqn:Er.
  - apply reconstruct_spec2 in Er. destruct Er as (Hd & _ & fr' & -> & Hfr').
    pose proof Hwa as (_ & _ & _ & D & _).
    assert (Hdl : In d log).
    { apply in_map_iff in Hd. destruct Hd as [g [<- Hg]]. rewrite Forall_forall in D. auto. }
    eapply on_data_g; [exact Hdl| |exact E]. apply RdOk_frags; [assumption|].
    apply Forall_forall. intros g Hg. rewrite Forall_forall in D. auto.
  - inversion E; subst. cbn [opt_list]. rewrite app_nil_r. assumption.
Qed.

Lemma on_gap_g w a b pres : GapOk fr chs L a b -> RdOk fr log chs L rel w pres ->
  RdOk fr log chs L rel (on_gap w a b) pres.
Proof.
  intros [G1 G2] HR. pose proof HR as (A & B & C & D & F). unfold on_gap.
  destruct ((a <? b) && (a <=? avail_max w + 1) && (wp_hr w <? b - 1)) eqn:E; [|assumption].
  apply andb_prop in E. destruct E as [E E3]. apply andb_prop in E. destruct E as [E1 E2].
  apply Z.ltb_lt in E1, E3. apply Z.leb_le in E2.
  unfold RdOk, avail_max in *; cbn. rdok_split; try lia; try assumption.
  intros H. destruct (F H) as [F1 F2]. split; [lia|].
  - intros c Hc Hfr Hle.
    destruct (Z.le_gt_cases (c_sn c) (Z.max (wp_fa w - 1) (wp_hr w))) as [Hold|Hnew]; [apply F2; assumption|].
    exfalso. apply (G2 c Hc Hfr); lia.
Qed.

Lemma in_take_while_g {A} (f : A -> bool) x l : In x (take_while f l) -> In x l.
Proof. induction l as [|y t IH]; [intros []|]. cbn. destruct (f y); [|intros []]. intros [->|H]; [left|right]; auto. Qed.

Lemma acknack_of_g cf w pres : RdOk fr log chs L rel w pres ->
  Forall (gsub fr chs pres L rel) (snd (acknack_of cf w)).
Proof.
  intros (A & B & C & D & F). unfold acknack_of. cbn [wp_frags wp_hr wp_fa wp_la wp_an wp_nf].
  set (w1 := mkWP (wp_fa w) (wp_la w) (wp_hr w) (wp_hb w) (wp_an w + 1) (wp_nf w + 1) (wp_frags w)).
  assert (Hav : avail_max w1 = avail_max w) by reflexivity.
  assert (Hmiss : forall x, In x (firstn 256 (missing w1)) -> x <= L).
  { intros x Hx. apply in_firstn in Hx. unfold missing in Hx. cbn in Hx. apply in_zrange in Hx. lia. }
  set (miss := firstn 256 (missing w1)) in *. clearbody miss.
  assert (Hack : gsub fr chs pres L rel
            (SAck (avail_max w1 + 1)
               (take_while (fun x => match min_frag_sn w1 with Some m => x <? m | None => true end) miss)
               (wp_an w + 1))).
  { cbn. split.
    - intros Hr. replace (avail_max w1 + 1 - 1) with (avail_max w) by lia. auto.
    - apply Forall_forall. intros x Hx. apply in_take_while_g in Hx. auto. }
  destruct (find (fun s => existsb (fun f => frag_sn f =? s) (wp_frags w)) miss) as [s|] eqn:Es.
  2:{ cbn [snd]. constructor; [exact Hack|constructor]. }
  destruct (find (fun f => frag_sn f =? s) (wp_frags w)) as [f0|] eqn:Ef0.
  2:{ cbn [snd]. constructor; [exact Hack|constructor]. }
  cbn [snd]. constructor; [exact Hack|]. constructor; [|constructor]. cbn [gsub].
  apply find_some in Es. destruct Es as [Es _]. auto.
Qed.

Lemma on_hb_g cf w f l c pres w1 out : HbOk chs L f l -> RdOk fr log chs L rel w pres ->
  on_hb cf w f l c = (w1, out) ->
  RdOk fr log chs L rel w1 pres /\ Forall (gdg fr chs pres L rel) out.
Proof.
  intros (H1 & H2 & H3) HR E. pose proof HR as (A & B & C & D & F). unfold on_hb in E.
  destruct (wp_hb w <? c); [|inversion E; subst; split; [assumption|constructor]].
  set (wh := mkWP f l (wp_hr w) c (wp_an w) (wp_nf w) (wp_frags w)) in *.
  assert (HRh : RdOk fr log chs L rel wh pres).
  { unfold RdOk, wh, avail_max in *; cbn. rdok_split; try lia; try assumption.
    intros H. destruct (F H) as [F1 F2]. split; [lia|].
    intros d Hd Hfr Hle. apply F2; [assumption|assumption|].
    specialize (H3 d Hd). lia. }
  pose proof (acknack_of_g cf wh pres HRh) as Hs.
  pose proof (acknack_of_fields cf wh) as (Q1 & Q2 & Q3 & Q4).
  destruct (acknack_of cf wh) as [w2 subs]. cbn [fst snd] in *. inversion E; subst w1 out. split.
  - destruct HRh as (A' & B' & C' & D' & F'). unfold RdOk, avail_max in *. rewrite Q1, Q2, Q3, Q4. tauto.
  - constructor; [|constructor]. exact Hs.
Qed.

Definition rsubG (pres : list change) (m : submsg) : Prop :=
  gsub fr chs pres L rel m /\ match m with SData c | SFrag c _ => In c log | _ => True end.

Lemma deliver_sub_R_g cf r w m r1 out :
  rd_wp r = Some w -> rd_rel r = rel -> RdOk fr log chs L rel w (rd_pres r) -> rsubG (rd_pres r) m ->
  deliver_sub_R cf r m = (r1, out) ->
  exists w1, rd_wp r1 = Some w1 /\ rd_rel r1 = rel /\ incl (rd_pres r) (rd_pres r1) /\
    RdOk fr log chs L rel w1 (rd_pres r1) /\ Forall (gdg fr chs (rd_pres r1) L rel) out.
Proof.
  intros Ew Erel HR [Hg Ha] E. unfold deliver_sub_R in E. rewrite Ew, Erel in E.
  destruct m as [c|c k|a b|f l c| |]; cbn in Hg.
  - destruct (on_data rel w c) as [w1 oc] eqn:Ed. inversion E; subst r1 out.
    exists w1. destruct (rd_present_proj r w1 oc) as [P1 P2]. rewrite P2.
    refine (conj P1 (conj _ (conj _ (conj _ _)))); [destruct oc; assumption|apply incl_appl; apply incl_refl| |constructor].
    eapply on_data_g; eassumption.
  - destruct (on_frag cf rel w c k) as [w1 oc] eqn:Ed. inversion E; subst r1 out.
    exists w1. destruct (rd_present_proj r w1 oc) as [P1 P2]. rewrite P2.
    refine (conj P1 (conj _ (conj _ (conj _ _)))); [destruct oc; assumption|apply incl_appl; apply incl_refl| |constructor].
    eapply on_frag_g; eassumption.
  - inversion E; subst r1 out. exists (on_gap w a b). cbn [rd_present rd_wp rd_rel rd_pres].
    refine (conj eq_refl (conj Erel (conj (incl_refl _) (conj _ _)))); [|constructor].
    apply on_gap_g; assumption.
  - destruct (f <=? 0).
    { inversion E; subst r1 out. exists w. refine (conj Ew (conj Erel (conj (incl_refl _) (conj HR _)))). constructor. }
    destruct (on_hb cf w f l c) as [w1 o] eqn:Eh.
    destruct (on_hb_g cf w f l c (rd_pres r) w1 o Hg HR Eh) as [A B].
    exists w1. destruct (hist_received (rd_wp (rd_present r w1 None))); inversion E; subst r1 out;
      cbn [rd_present rd_wp rd_rel rd_pres];
      refine (conj eq_refl (conj Erel (conj (incl_refl _) (conj A B)))).
  - inversion E; subst r1 out. exists w. refine (conj Ew (conj Erel (conj (incl_refl _) (conj HR _)))). constructor.
  - inversion E; subst r1 out. exists w. refine (conj Ew (conj Erel (conj (incl_refl _) (conj HR _)))). constructor.
Qed.

Lemma rsubG_pres pres pres' m : incl pres pres' -> rsubG pres m -> rsubG pres' m.
Proof. intros Hi [A B]. split; [|assumption]. eapply gsub_mono; [apply Ext_refl|exact Hi|exact A]. Qed.

Lemma deliver_subs_R_g cf l : forall r w acc r1 out,
  rd_wp r = Some w -> rd_rel r = rel -> RdOk fr log chs L rel w (rd_pres r) ->
  Forall (rsubG (rd_pres r)) l -> Forall (gdg fr chs (rd_pres r) L rel) acc ->
  deliver_subs_R cf r l acc = (r1, out) ->
  exists w1, rd_wp r1 = Some w1 /\ rd_rel r1 = rel /\ incl (rd_pres r) (rd_pres r1) /\
    RdOk fr log chs L rel w1 (rd_pres r1) /\ Forall (gdg fr chs (rd_pres r1) L rel) out.
Proof.
  induction l as [|m t IH]; intros r w acc r1 out Ew Erel HR Hl Ha E; cbn in E.
  - inversion E; subst. exists w. refine (conj Ew (conj Erel (conj (incl_refl _) (conj HR Ha)))).
  - inversion Hl; subst. destruct (deliver_sub_R cf r m) as [r' o] eqn:Em.
    destruct (deliver_sub_R_g cf r w m r' o Ew Erel HR H1 Em) as (w' & A & B & C & D & F).
    assert (Hacc : Forall (gdg fr chs (rd_pres r') L rel) (acc ++ o)).
    { apply Forall_app; split; [|assumption]. eapply Forall_impl; [|exact Ha]. intros d.
      apply gdg_mono; [apply Ext_refl|exact C]. }
    assert (Ht : Forall (rsubG (rd_pres r')) t).
    { eapply Forall_impl; [|exact H2]. intros x. apply rsubG_pres. exact C. }
    destruct (IH r' w' (acc ++ o) r1 out A B D Ht Hacc E) as (w1 & A1 & B1 & C1 & D1 & F1).
    exists w1. refine (conj A1 (conj B1 (conj _ (conj D1 F1)))). eapply incl_tran; eassumption.
Qed.
End Reader.

(* ------------------------------------------------------------------ the state invariant *)
Definition RdPart (s : state) (p : rproxy) : Prop :=
  match s_rd s with
  | Some r => match rd_wp r with
              | Some w => rd_rel r = rp_rel p /\
                          RdOk (rp_fr p) (s_log s) (s_changes s) (s_last s) (rp_rel p) w (rd_pres r)
              | None => True
              end
  | None => True
  end.

Definition GP (s : state) (p : rproxy) : Prop :=
  Forall (fun n => n <= s_last s) (rp_req p) /\
  (rp_rel p = true -> AckOk (rp_fr p) (s_changes s) (presented s) (s_last s) (rp_ha p)) /\
  Forall (gdg (rp_fr p) (s_changes s) (presented s) (s_last s) (rp_rel p)) (s_net s) /\
  RdPart s p.

Definition GI (s : state) : Prop :=
  0 <= s_last s /\ match s_rp s with Some p => GP s p | None => True end.

Definition GS (s : state) : Prop := SInv s /\ GI s.

Lemma SInv_chs_le s : SInv s -> forall c, In c (s_changes s) -> c_sn c <= s_last s.
Proof.
  intros HS c Hc. apply (si_chs s HS) in Hc. pose proof (si_le s HS) as Hl. rewrite Forall_forall in Hl. auto.
Qed.

Lemma SInv_LogOk s : SInv s -> LogOk (s_log s) (s_changes s) (s_last s).
Proof.
  intros HS. constructor.
  - intros c Hc. pose proof (si_le s HS) as Hl. rewrite Forall_forall in Hl. auto.
  - intros c d Hc Hd E. eapply (NoDup_map_inj c_sn (s_log s)); try eassumption.
    apply sorted_NoDup. exact (si_sorted s HS).
  - exact (si_chs s HS).
Qed.

Lemma GS_poke cf s : GS s -> GS (poke cf s).
Proof.
  intros [HS [G0 G]]. split; [apply poke_SInv; assumption|].
  unfold poke. destruct (s_rp s) as [p|] eqn:Ep; [|split; [assumption|rewrite Ep; exact I]].
  destruct G as (Hreq & Hha & Hnet & Hrd).
  pose proof (write_message_g (rp_fr p) (s_changes s) (presented s) (s_last s) (rp_rel p) G0 (SInv_chs_le s HS)
                cf (s_now s) p eq_refl Hreq) as [W1 W2].
  pose proof (write_message_static cf (s_now s) (s_changes s) p) as Hst.
  pose proof (write_message_ha cf (s_now s) (s_changes s) p) as Hha'.
  destruct (write_message cf (s_now s) (s_changes s) p) as [p1 out]. cbn [fst snd] in *.
  apply static_fr in Hst. destruct Hst as (S1 & S2 & _).
  split; [exact G0|]. cbn [s_rp send set_rp set_net]. unfold GP, RdPart, presented in *. cbn.
  rewrite S1, S2, Hha'. split; [assumption|]. split; [assumption|]. split; [|assumption].
  apply Forall_app; split; [assumption|]. apply Forall_filter. assumption.
Qed.

(* the presented list only grows *)
Lemma deliver_sub_R_pres cf r m r1 out : deliver_sub_R cf r m = (r1, out) -> incl (rd_pres r) (rd_pres r1).
Proof.
  unfold deliver_sub_R. destruct (rd_wp r) as [w|]; [|intros E; inversion E; apply incl_refl].
  destruct m; try (intros E; inversion E; apply incl_refl).
  - destruct (on_data _ _ _) as [w1 oc]. intros E; inversion E. destruct oc; cbn; [apply incl_appl|]; apply incl_refl.
  - destruct (on_frag _ _ _ _ _) as [w1 oc]. intros E; inversion E. destruct oc; cbn; [apply incl_appl|]; apply incl_refl.
  - destruct (first <=? 0); [intros E; inversion E; apply incl_refl|].
    destruct (on_hb _ _ _ _ _) as [w1 o]. destruct (hist_received _); intros E; inversion E; apply incl_refl.
Qed.

Lemma GP_set_waits s p ws : GP s p -> GP (set_waits s ws) p.
Proof. intros H. exact H. Qed.

Lemma GI_deliver_sub_W cf s m p : GS s -> s_rp s = Some p ->
  gsub (rp_fr p) (s_changes s) (presented s) (s_last s) (rp_rel p) m -> GI (deliver_sub_W cf s m).
Proof.
  intros [HS [G0 G]] Ep Hm. rewrite Ep in G. pose proof G as (Hreq & Hha & Hnet & Hrd).
  assert (Same : GI s) by (split; [assumption|rewrite Ep; assumption]).
  unfold deliver_sub_W. rewrite Ep. destruct m; try exact Same.
  - (* ACKNACK *) cbn in Hm. destruct Hm as [Hack Hset].
    unfold on_acknack. destruct (rp_rel p && (rp_an p <? count)) eqn:Eacc.
    2:{ cbn [andb]. split; [assumption|]. cbn. unfold GP, RdPart, presented in *. cbn. rewrite app_nil_r. tauto. }
    apply andb_prop in Eacc. destruct Eacc as [Erel _].
    set (p1 := mkRP (rp_rel p) (rp_tl p) (rp_hs p) (if rp_ha p <? base - 1 then base - 1 else rp_ha p)
                    (req_add (rp_req p) set) (rp_fr p) count (rp_nf p) (rp_hbc p) (rp_hbt p)).
    pose proof (write_rel_g (rp_fr p) (s_changes s) (presented s) (s_last s) (rp_rel p) G0 (SInv_chs_le s HS)
                  cf (s_now s) p1 eq_refl (req_add_le (s_last s) _ _ Hreq Hset)) as [W1 W2].
    pose proof (write_rel_static cf (s_now s) (s_changes s) p1) as Hst.
    pose proof (write_rel_ha cf (s_now s) (s_changes s) p1) as Hha'.
    destruct (write_rel cf (s_now s) (s_changes s) p1) as [p2 out]. cbn [fst snd] in *.
    apply static_fr in Hst. destruct Hst as (S1 & S2 & _). cbn [rp_fr rp_rel p1] in S1, S2.
    assert (HG2 : GP (send (set_rp s (Some p2)) out) p2).
    { unfold GP, RdPart, presented in *. cbn. rewrite S1, S2, Hha'. cbn [rp_ha p1].
      split; [assumption|]. split.
      - intros Hr. destruct (rp_ha p <? base - 1); auto.
      - split; [|assumption]. apply Forall_app; split; [assumption|]. apply Forall_filter. assumption. }
    destruct (true && is_acked (Some p2) (s_last s)); split; try exact G0; cbn; exact HG2.
  - (* NACK_FRAG *) cbn in Hm.
    pose proof (on_nackfrag_g (rp_fr p) (s_changes s) (presented s) (s_last s) (rp_rel p) cf p sn base set count Hm) as W1.
    pose proof (on_nackfrag_static cf (s_changes s) p sn base set count) as Hst.
    assert (Hsame : rp_ha (fst (on_nackfrag cf (s_changes s) p sn base set count)) = rp_ha p /\
                    rp_req (fst (on_nackfrag cf (s_changes s) p sn base set count)) = rp_req p).
    { unfold on_nackfrag. destruct (rp_rel p && _); [|split; reflexivity]. destruct (find_change sn (s_changes s)); split; reflexivity. }
    destruct Hsame as [Hha' Hreq'].
    destruct (on_nackfrag cf (s_changes s) p sn base set count) as [p1 out]. cbn [fst snd] in *.
    apply static_fr in Hst. destruct Hst as (S1 & S2 & _).
    split; [exact G0|]. cbn. unfold GP, RdPart, presented in *. cbn. rewrite S1, S2, Hha', Hreq'.
    split; [assumption|]. split; [assumption|]. split; [|assumption].
    apply Forall_app; split; [assumption|]. apply Forall_filter. assumption.
Qed.

Lemma deliver_sub_W_presented cf s m : presented (deliver_sub_W cf s m) = presented s.
Proof. unfold presented. rewrite deliver_sub_W_rd. reflexivity. Qed.

Lemma GS_fold_W cf l : forall s, GS s ->
  (forall p, s_rp s = Some p -> Forall (gsub (rp_fr p) (s_changes s) (presented s) (s_last s) (rp_rel p)) l) ->
  GS (fold_left (deliver_sub_W cf) l s).
Proof.
  induction l as [|m t IH]; intros s H Hl; cbn [fold_left]; [assumption|].
  destruct (s_rp s) as [p|] eqn:Ep.
  2:{ assert (Hs : deliver_sub_W cf s m = s) by (unfold deliver_sub_W; rewrite Ep; reflexivity).
      rewrite Hs. apply IH; [assumption|]. intros p Hp. congruence. }
  specialize (Hl p eq_refl). inversion Hl; subst.
  apply IH.
  - split; [apply deliver_sub_W_SInv; apply H|]. eapply GI_deliver_sub_W; eassumption.
  - intros q Eq. destruct (deliver_sub_W_frame cf s m) as (_ & _ & F3). destruct (F3 p Ep) as [q' [Eq' Hst]].
    assert (q' = q) by congruence. subst q'. apply static_fr in Hst. destruct Hst as (S1 & S2 & _).
    destruct (core_proj _ _ (deliver_sub_W_core cf s m)) as (C1 & C2 & _).
    rewrite deliver_sub_W_presented, C1, C2, S1, S2. assumption.
Qed.

Lemma GI_subnet s n : GI s -> (forall x, In x n -> In x (s_net s)) -> GI (set_net s n).
Proof.
  intros [G0 G] Hn. split; [exact G0|]. cbn. destruct (s_rp s) as [p|]; [|exact I].
  destruct G as (A & B & C & D). unfold GP, RdPart, presented in *. cbn.
  split; [assumption|]. split; [assumption|]. split; [|assumption].
  rewrite Forall_forall in *. intros x Hx. apply C. apply Hn. assumption.
Qed.

Lemma GS_deliver cf s d rest : GS s -> In d (s_net s) -> (forall x, In x rest -> In x (s_net s)) ->
  GS (deliver_dgram cf (set_net s rest) d).
Proof.
  intros [HS HG] Hd Hrest.
  assert (Hauth : auth_dg (s_log s) d).
  { pose proof (si_net s HS) as Hn. rewrite Forall_forall in Hn. auto. }
  assert (HS' : SInv (set_net s rest)).
  { apply SInv_set_net; [assumption|]. pose proof (si_net s HS) as Hn. rewrite Forall_forall in *. auto. }
  split; [apply deliver_dgram_SInv; assumption|].
  pose proof (GI_subnet s rest HG Hrest) as HG'.
  destruct (s_rp s) as [p|] eqn:Ep.
  2:{ destruct HG as [G0 _]. split.
      - destruct (core_proj _ _ (deliver_dgram_core cf (set_net s rest) d)) as (_ & C2 & _). rewrite C2. exact G0.
      - rewrite (deliver_dgram_rp_none cf (set_net s rest) d Ep). exact I. }
  assert (Hgd : gdg (rp_fr p) (s_changes s) (presented s) (s_last s) (rp_rel p) d).
  { destruct HG as [_ G]. rewrite Ep in G. destruct G as (_ & _ & C & _). rewrite Forall_forall in C. auto. }
  unfold deliver_dgram. destruct (dg_toR d).
  - cbn [s_rdead s_rd set_net]. destruct (s_rdead s); [exact HG'|].
    destruct (s_rd s) as [r|] eqn:Er; [|exact HG']. destruct (rd_alive r); [|exact HG'].
    destruct (deliver_subs_R cf r (dg_subs d) []) as [r1 out] eqn:E.
    destruct HG' as [G0 G]. cbn [s_rp set_net] in G. rewrite Ep in G. destruct G as (A & B & C & D).
    unfold RdPart, presented in *. cbn [s_rd set_net s_log s_changes s_last s_net] in *. rewrite Er in *.
    destruct (rd_wp r) as [w|] eqn:Ew.
    2:{ rewrite (deliver_subs_R_nowp cf r (dg_subs d) [] Ew) in E. inversion E; subst r1 out.
        split; [exact G0|]. cbn. rewrite Ep. unfold GP, RdPart, presented. cbn. rewrite Ew, app_nil_r. tauto. }
    destruct D as [Drel DR].
    assert (Hsubs : Forall (rsubG (rp_fr p) (s_log s) (s_changes s) (s_last s) (rp_rel p) (rd_pres r)) (dg_subs d)).
    { unfold gdg, auth_dg, data_dg in *. rewrite Forall_forall in *. intros m Hm.
      specialize (Hgd m Hm). specialize (Hauth m Hm). split; [exact Hgd|]. destruct m; cbn in *; tauto. }
    destruct (deliver_subs_R_g (rp_fr p) (s_log s) (s_changes s) (s_last s) (rp_rel p) (SInv_LogOk s HS) cf (dg_subs d)
                r w [] r1 out Ew Drel DR Hsubs (Forall_nil _) E) as (w1 & A1 & B1 & C1 & D1 & F1).
    split; [exact G0|]. cbn. rewrite Ep. unfold GP, RdPart, presented. cbn. rewrite A1.
    split; [assumption|]. split.
    + intros Hr. eapply AckOk_mono; [apply Ext_refl|exact C1|auto].
    + split; [|split; assumption]. apply Forall_app; split.
      * eapply Forall_impl; [|exact C]. intros x. apply gdg_mono; [apply Ext_refl|exact C1].
      * apply Forall_filter. assumption.
  - destruct (GS_fold_W cf (dg_subs d) (set_net s rest)) as [_ H]; [split; assumption| |exact H].
    intros q Eq. cbn in Eq. assert (q = p) by congruence. subst q. exact Hgd.
Qed.

Lemma GS_pump cf fuel : forall s n, GS s -> GS (fst (pump fuel cf s n)).
Proof.
  induction fuel as [|f IH]; intros s n H; cbn [pump]; [assumption|].
  destruct (s_net s) as [|d t] eqn:En; [assumption|].
  apply IH. apply GS_poke. apply GS_deliver; [assumption|rewrite En; left; reflexivity|].
  intros x Hx. rewrite En. right. assumption.
Qed.

From DustDDS Require Import Proto.RelLive.

Lemma RdOk_ext fr log chs L rel w pres log' chs' L' : Ext chs L chs' L' -> incl log log' ->
  RdOk fr log chs L rel w pres -> RdOk fr log' chs' L' rel w pres.
Proof.
  intros HE Hl (A & B & C & D & F). pose proof HE as [HL _]. unfold RdOk.
  split; [lia|]. split; [lia|]. split; [lia|]. split.
  - eapply Forall_impl; [|exact D]. cbn. intros f Hf. apply Hl. assumption.
  - intros Hr. eapply AckOk_mono; [exact HE|apply incl_refl|auto].
Qed.

Lemma GP_ext s s' p : Ext (s_changes s) (s_last s) (s_changes s') (s_last s') -> incl (s_log s) (s_log s') ->
  s_rd s' = s_rd s -> s_net s' = s_net s -> GP s p -> GP s' p.
Proof.
  intros HE Hl Hrd Hnet (A & B & C & D). pose proof HE as [HL _]. unfold GP, RdPart, presented in *.
  rewrite Hrd, Hnet. split; [|split; [|split]].
  - eapply Forall_impl; [|exact A]. cbn. intros; lia.
  - intros Hr. eapply AckOk_mono; [exact HE|apply incl_refl|auto].
  - eapply Forall_impl; [|exact C]. intros d. apply gdg_mono; [exact HE|apply incl_refl].
  - destruct (s_rd s) as [r|]; [|exact I]. destruct (rd_wp r) as [w|]; [|exact I].
    destruct D as [D1 D2]. split; [assumption|]. eapply RdOk_ext; eassumption.
Qed.

(* replacing the reader by one with the same writer proxy, reliability and presented list *)
Lemma GS_same_reader s r r' : GS s -> s_rd s = Some r ->
  rd_wp r' = rd_wp r -> rd_rel r' = rd_rel r -> rd_pres r' = rd_pres r -> GS (set_rd s (Some r')).
Proof.
  intros [HS [G0 G]] Er E1 E2 E3. split.
  - apply SInv_set_rd; [assumption|]. pose proof (si_rd s HS) as Hr. rewrite Er in Hr.
    unfold ARInv, RInv in *. rewrite E1, E3. exact Hr.
  - split; [exact G0|]. cbn. destruct (s_rp s) as [p|]; [|exact I].
    unfold GP, RdPart, presented in *. cbn. rewrite Er in G. rewrite E1, E2, E3. exact G.
Qed.

Lemma GS_dup cf s d rest : GS s -> In d (s_net s) -> (forall x, In x rest -> In x (s_net s)) ->
  GS (deliver_dgram cf (poke cf (deliver_dgram cf (set_net s rest) d)) d).
Proof.
  intros H Hd Hrest.
  assert (H0 : GS (set_net s (d :: rest))).
  { destruct H as [HS HG]. split.
    - apply SInv_set_net; [assumption|]. pose proof (si_net s HS) as Hn. rewrite Forall_forall in *.
      intros x [<-|Hx]; auto.
    - apply GI_subnet; [assumption|]. intros x [<-|Hx]; auto. }
  assert (H1 : GS (deliver_dgram cf (set_net (set_net s (d :: rest)) (d :: rest)) d)).
  { apply GS_deliver; [assumption|left; reflexivity|auto]. }
  assert (E1 : set_net (set_net s (d :: rest)) (d :: rest) = add_front d (set_net s rest)) by reflexivity.
  rewrite E1, deliver_dgram_add_front in H1.
  apply (GS_poke cf) in H1. rewrite poke_add_front in H1.
  set (s2 := poke cf (deliver_dgram cf (set_net s rest) d)) in *.
  pose proof (GS_deliver cf (add_front d s2) d (s_net s2) H1 (or_introl eq_refl)) as H2.
  rewrite set_net_add_front in H2. apply H2. intros x Hx. right. assumption.
Qed.

Lemma GS_act cf s a : NInv s -> GS s -> GS (fst (act cf s a)).
Proof.
  intros HN H. pose proof H as [HS [G0 G]].
  destruct a; cbn [act].
  - (* AWrite *)
    pose proof (do_write_SInv cf s key len sum HS) as HS1.
    pose proof (do_write_frame cf s key len sum) as (F1 & F2 & F3 & F4 & F5 & F6 & F7).
    pose proof (do_write_spec cf s key len sum) as Hw.
    destruct (do_write cf s key len sum) as [s1 code]. cbn [fst snd] in *.
    destruct Hw as [[-> _]|[chs1 (W1 & W2 & W3 & W4 & W5 & W6)]]; [assumption|].
    split; [assumption|]. split; [lia|]. rewrite F1. destruct (s_rp s) as [p|]; [|exact I].
    apply GP_ext with (s := s); try assumption.
    + split; [lia|]. rewrite W2. intros c Hc. apply in_app_or in Hc. destruct Hc as [Hc|[<-|[]]]; [left; auto|right; cbn; lia].
    + rewrite W4. apply incl_appl. apply incl_refl.
  - (* ARemove *) split.
    + destruct HS as [H1 H2 H3 H4 H5]. constructor; cbn; try assumption.
      intros x Hx. apply filter_In in Hx. apply H3. tauto.
    + split; [exact G0|]. cbn. destruct (s_rp s) as [p|]; [|exact I].
      apply GP_ext with (s := s); try assumption; try reflexivity; try apply incl_refl.
      split; [cbn; lia|]. cbn. intros c Hc. apply filter_In in Hc. tauto.
  - (* ATick *) split.
    + destruct HS as [H1 H2 H3 H4 H5]. constructor; cbn; assumption.
    + split; [exact G0|]. cbn. destruct (s_rp s) as [p|]; [|exact I]. exact G.
  - (* ADeliver *) destruct (nth_error (s_net s) i) as [d|] eqn:E; [|assumption]. cbn [fst].
    apply GS_deliver; [assumption|eapply nth_error_In; eassumption|intros x Hx; eapply remove_nth_in; exact Hx].
  - (* ADrop *) destruct (nth_error (s_net s) i) as [d|] eqn:E; [|assumption]. cbn [fst]. split.
    + apply SInv_set_net; [assumption|]. apply Forall_remove_nth. apply (si_net s HS).
    + apply GI_subnet; [split; assumption|intros x Hx; eapply remove_nth_in; exact Hx].
  - (* ADup *) destruct (nth_error (s_net s) i) as [d|] eqn:E; [|assumption]. cbn [fst].
    apply GS_dup; [assumption|eapply nth_error_In; eassumption|intros x Hx; eapply remove_nth_in; exact Hx].
  - (* APump *) pose proof (GS_pump cf pump_fuel s 0 H) as Hp.
    destruct (pump pump_fuel cf s 0) as [s1 n]. exact Hp.
  - (* ATake *) destruct (s_rd s) as [r|] eqn:Er; [|assumption]. destruct (rd_alive r); [|assumption]. cbn [fst].
    apply GS_same_reader with (r := r); try assumption; reflexivity.
  - (* AMatch *) destruct (s_rd s) as [r|] eqn:Er; [assumption|].
    destruct (HN Er) as [Hnet Ep]. rewrite Ep. rewrite orb_false_r.
    destruct (s_rdead s); [assumption|].
    destruct (rxo_ok cf rel tl); cbn [fst].
    + apply GS_poke. split.
      * destruct HS as [S1 S2 S3 S4 S5]. constructor; cbn; try assumption.
        unfold ARInv, RInv, WOk; cbn. repeat split; constructor.
      * split; [exact G0|]. cbn.
        assert (Hack : AckOk (if tl then 0 else last_sn (s_changes s)) (s_changes s) [] (s_last s) 0).
        { split; [assumption|]. intros c Hc Hfr Hle. exfalso. destruct tl; [lia|].
          apply in_le_last_sn in Hc. lia. }
        unfold GP, RdPart, presented, RdOk. cbn. rewrite Hnet.
        split; [constructor|]. split; [intros _; exact Hack|]. split; [constructor|]. split; [reflexivity|].
        split; [lia|]. split; [lia|]. split; [lia|]. split; [constructor|]. intros _. exact Hack.
    + split.
      * destruct HS as [S1 S2 S3 S4 S5]. constructor; cbn; try assumption. reflexivity.
      * split; [exact G0|]. cbn. rewrite Ep. exact I.
  - (* ADelReader *) split.
    + pose proof (si_rd s HS) as Hr. destruct HS as [S1 S2 S3 S4 S5]. constructor; cbn; try assumption.
      destruct (s_rd s) as [r|]; cbn; [exact Hr|exact I].
    + split; [exact G0|exact I].
  - (* ADelPart *) split.
    + pose proof (si_rd s HS) as Hr. destruct HS as [S1 S2 S3 S4 S5]. constructor; cbn; try assumption.
      destruct (s_rd s) as [r|]; cbn; [exact Hr|exact I].
    + split; [exact G0|exact I].
  - (* AWfa *) destruct (is_acked (s_rp s) (s_last s)); cbn [fst]; (split; [apply SInv_set_waits; assumption|split; assumption]).
  - (* AWfaPoll *) destruct (poll (s_waits s)). cbn [fst]. split; [apply SInv_set_waits; assumption|split; assumption].
  - (* AWfh *) destruct (s_rd s) as [r|] eqn:Er; [|assumption]. destruct (negb (rd_alive r)); [assumption|].
    destruct (negb (rd_tl r)); [assumption|].
    destruct (hist_received (rd_wp r)); cbn [fst]; apply GS_same_reader with (r := r); try assumption; reflexivity.
  - (* AWfhPoll *) destruct (s_rd s) as [r|] eqn:Er; [|assumption]. destruct (poll (rd_hwaits r)). cbn [fst].
    apply GS_same_reader with (r := r); try assumption; reflexivity.
  - assumption.
  - assumption.
Qed.

Lemma GS_step cf s a : NInv s -> GS s -> GS (fst (step cf s a)).
Proof.
  intros HN H. unfold step. pose proof (GS_act cf s a HN H) as Ha.
  destruct (act cf s a) as [s1 o]. cbn [fst] in *. apply GS_poke. assumption.
Qed.

Lemma GS_run cf l : forall s, NInv s -> GS s -> GS (run cf s l).
Proof.
  induction l as [|a t IH]; intros s HN H; [exact H|]. rewrite run_cons.
  apply IH; [apply step_NInv; assumption|apply GS_step; assumption].
Qed.

Lemma GS_init : GS init.
Proof. split; [apply init_SInv|]. split; [cbn; lia|exact I]. Qed.

(* ------------------------------------------------------------------ wait_for_acknowledgments is sound *)
Lemma GS_acked_delivered s : GS s -> ackd s = true -> delivered s.
Proof.
  intros [HS [G0 G]] Hack p r w Ep Hrel Er Ew c Hc Hlt.
  unfold ackd, is_acked in Hack. rewrite Ep in *. rewrite Hrel in Hack. cbn in Hack.
  apply negb_true_iff in Hack. apply Z.ltb_ge in Hack.
  destruct G as (_ & Hha & _ & _). destruct (Hha Hrel) as [_ H2].
  unfold presented in H2. rewrite Er in H2. apply H2; [assumption|assumption|].
  pose proof (SInv_chs_le s HS c Hc). lia.
Qed.

(* SOUNDNESS, every configuration (KEEP_ALL or KEEP_LAST, any number of instances, any durability) and
   EVERY schedule: whenever the acknowledgement test succeeds, every change the writer still holds and that
   is relevant for the RELIABLE matched reader has been presented *)
Theorem wfa_sound cf l : let s := run cf init l in ackd s = true -> delivered s.
Proof. intros s Ha. apply GS_acked_delivered; [|assumption]. apply GS_run; [apply init_NInv|apply GS_init]. Qed.

(* ... and a caller parked earlier is only answered when, at the end of that step, delivery has happened
   (or the reader proxy is gone) *)
Theorem wfa_sound_answered cf l a :
  let s := run cf init l in let s' := fst (step cf s a) in
  (npend s' < npend s)%nat -> delivered s'.
Proof.
  intros s s' Hlt.
  assert (Hs' : s' = run cf init (l ++ [a])) by (rewrite run_app; fold s; rewrite run_cons; reflexivity).
  apply GS_acked_delivered.
  - rewrite Hs'. apply GS_run; [apply init_NInv|apply GS_init].
  - apply step_answered_acked. assumption.
Qed.

(* NOTHING IS SKIPPED, every configuration and EVERY schedule: whatever the RELIABLE reader accounts for
   (sequence numbers up to available_changes_max, the base of its ACKNACKs) has been presented as far as the
   writer still holds it and it is relevant for this reader *)
Theorem no_skip cf l :
  let s := run cf init l in
  forall p r w, s_rp s = Some p -> rp_rel p = true -> s_rd s = Some r -> rd_wp r = Some w ->
    forall c, In c (s_changes s) -> rp_fr p < c_sn c -> c_sn c <= avail_max w -> In c (rd_pres r).
Proof.
  intros s p r w Ep Hrel Er Ew c Hc Hfr Hle.
  assert (H : GS s) by (apply GS_run; [apply init_NInv|apply GS_init]).
  destruct H as [_ [_ G]]. rewrite Ep in G. destruct G as (_ & _ & _ & D). unfold RdPart in D. rewrite Er, Ew in D.
  destruct D as [_ (_ & _ & _ & _ & F)]. destruct (F Hrel) as [_ F2]. auto.
Qed.

Lemma zrange_nil a b : zrange a b = [] -> b < a.
Proof.
  intros H. destruct (Z.lt_ge_cases b a) as [|Hge]; [assumption|].
  assert (Hin : In a (zrange a b)) by (apply in_zrange; lia). rewrite H in Hin. contradiction.
Qed.

(* wait_for_historical_data is sound: when its test (a HEARTBEAT was received and nothing announced is
   missing) succeeds for a RELIABLE reader, every held relevant change up to the announced last sequence
   number has been presented *)
Theorem wfh_sound cf l :
  let s := run cf init l in
  forall p r w, s_rp s = Some p -> rp_rel p = true -> s_rd s = Some r -> rd_wp r = Some w ->
    hist_received (rd_wp r) = true ->
    forall c, In c (s_changes s) -> rp_fr p < c_sn c -> c_sn c <= wp_la w -> In c (rd_pres r).
Proof.
  intros s p r w Ep Hrel Er Ew Hh c Hc Hfr Hle.
  apply (no_skip cf l p r w Ep Hrel Er Ew c Hc Hfr).
  rewrite Ew in Hh. cbn in Hh. apply andb_prop in Hh. destruct Hh as [_ Hm].
  destruct (missing w) eqn:Em; [|discriminate]. unfold missing in Em. apply zrange_nil in Em.
  unfold avail_max. lia.
Qed.
