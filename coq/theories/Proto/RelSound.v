(* C03/C01/C04 — the hole-free class: KEEP_ALL history and no removal.  The writer's cache is
   the publication log 1..last, GAPs only cover samples that are irrelevant for the reader
   (below its first relevant sample), so acknowledgements are truthful:
   highest_acked <= highest_received and every relevant sample up to highest_received
   has been presented.  From this: wait_for_acknowledgments is sound. *)
From DustDDS Require Import Base.Machine Proto.RelModel Proto.RelProofs.
Open Scope Z_scope.

(* ------------------------------------------------------------------ arithmetic of ranges *)
Lemma in_zrange x a b : In x (zrange a b) <-> a <= x <= b.
Proof.
  unfold zrange. rewrite in_map_iff. split.
  - intros [i [<- Hi]]. apply in_seq in Hi. lia.
  - intros H. exists (Z.to_nat (x - a)). split; [lia|]. apply in_seq. lia.
Qed.

Lemma zmin_list_spec l m : zmin_list l = Some m -> In m l /\ Forall (fun x => m <= x) l.
Proof.
  revert m; induction l as [|y t IH]; intros m E; [discriminate|]. cbn in E.
  destruct (zmin_list t) as [m'|] eqn:Et.
  - inversion E; subst. destruct (IH m' eq_refl) as [Hin Hall]. split.
    + destruct (Z.min_spec y m') as [[_ ->]|[_ ->]]; [left; reflexivity|right; assumption].
    + constructor; [lia|]. eapply Forall_impl; [|exact Hall]. cbn. intros; lia.
  - inversion E; subst. apply zmin_list_none in Et. subst t. split; [left; reflexivity|]. constructor; [lia|constructor].
Qed.

Lemma zmax_list_spec l m : zmax_list l = Some m -> In m l /\ Forall (fun x => x <= m) l.
Proof.
  revert m; induction l as [|y t IH]; intros m E; [discriminate|]. cbn in E.
  destruct (zmax_list t) as [m'|] eqn:Et.
  - inversion E; subst. destruct (IH m' eq_refl) as [Hin Hall]. split.
    + destruct (Z.max_spec y m') as [[_ ->]|[_ ->]]; [right; assumption|left; reflexivity].
    + constructor; [lia|]. eapply Forall_impl; [|exact Hall]. cbn. intros; lia.
  - inversion E; subst. apply zmax_list_none in Et. subst t. split; [left; reflexivity|]. constructor; [lia|constructor].
Qed.

(* the history cache holds exactly the sequence numbers 1..last *)
Definition Contig (chs : list change) (last : Z) : Prop := sns chs = zrange 1 last /\ 0 <= last.

Lemma contig_in chs last n : Contig chs last -> (In n (sns chs) <-> 1 <= n <= last).
Proof. intros [H _]. rewrite H. apply in_zrange. Qed.

Lemma contig_first chs last : Contig chs last -> first_sn chs = 1.
Proof.
  intros Hc. unfold first_sn. destruct (zmin_list (sns chs)) as [m|] eqn:E; [|reflexivity].
  apply zmin_list_spec in E. destruct E as [Hin Hall].
  pose proof (proj1 (contig_in chs last m Hc) Hin) as Hm.
  assert (H1 : In 1 (sns chs)) by (apply (contig_in chs last 1 Hc); lia).
  rewrite Forall_forall in Hall. specialize (Hall 1 H1). lia.
Qed.

Lemma contig_last chs last : Contig chs last -> last_sn chs = last.
Proof.
  intros Hc. unfold last_sn. destruct (zmax_list (sns chs)) as [m|] eqn:E.
  - apply zmax_list_spec in E. destruct E as [Hin Hall].
    pose proof (proj1 (contig_in chs last m Hc) Hin) as Hm.
    assert (H1 : In last (sns chs)) by (apply (contig_in chs last last Hc); lia).
    rewrite Forall_forall in Hall. specialize (Hall last H1). lia.
  - apply zmax_list_none in E. destruct Hc as [Hs H0]. rewrite E in Hs.
    destruct (Z.le_gt_cases 1 last) as [Hl|Hl]; [|lia].
    assert (In 1 (zrange 1 last)) by (apply in_zrange; lia). rewrite <- Hs in H. contradiction.
Qed.

Lemma contig_next_unsent chs last p : Contig chs last -> 0 <= rp_hs p ->
  next_unsent p chs = if rp_hs p <? last then Some (rp_hs p + 1) else None.
Proof.
  intros Hc H0. unfold next_unsent.
  destruct (zmin_list (filter (fun s => rp_hs p <? s) (sns chs))) as [m|] eqn:E.
  - apply zmin_list_spec in E. destruct E as [Hin Hall]. apply filter_In in Hin. destruct Hin as [Hin Hlt].
    apply Z.ltb_lt in Hlt. apply (contig_in chs last m Hc) in Hin.
    destruct (Z.ltb_spec (rp_hs p) last); [|lia].
    assert (H1 : In (rp_hs p + 1) (filter (fun s => rp_hs p <? s) (sns chs))).
    { apply filter_In. split; [apply (contig_in chs last _ Hc); lia|apply Z.ltb_lt; lia]. }
    rewrite Forall_forall in Hall. specialize (Hall _ H1). f_equal. lia.
  - apply zmin_list_none in E. destruct (Z.ltb_spec (rp_hs p) last); [|reflexivity].
    assert (H1 : In (rp_hs p + 1) (filter (fun s => rp_hs p <? s) (sns chs))).
    { apply filter_In. split; [apply (contig_in chs last _ Hc); lia|apply Z.ltb_lt; lia]. }
    rewrite E in H1. contradiction.
Qed.

Lemma find_sn_some chs n : In n (sns chs) -> exists c, find_change n chs = Some c /\ c_sn c = n /\ In c chs.
Proof.
  unfold find_change, sns. induction chs as [|x t IH]; [intros []|]. cbn.
  destruct (Z.eqb_spec (c_sn x) n) as [He|Hne].
  - intros _. exists x. auto.
  - intros [H|H]; [contradiction|]. destruct (IH H) as [c (A & B & C)]. exists c. auto.
Qed.

Lemma lookup_relevant_some p chs n : In n (sns chs) -> rp_fr p < n ->
  exists c, lookup_relevant p n chs = Some c /\ c_sn c = n /\ In c chs.
Proof.
  unfold lookup_relevant, sns. intros Hin Hlt. induction chs as [|x t IH]; [destruct Hin|]. cbn.
  destruct (Z.eqb_spec (c_sn x) n) as [He|Hne].
  - assert (rp_fr p <? n = true) as -> by (apply Z.ltb_lt; assumption). cbn. exists x. auto.
  - cbn. destruct Hin as [H|H]; [contradiction|]. destruct (IH H) as [c (A & B & C)]. exists c. auto.
Qed.

Lemma lookup_relevant_none p chs n : In n (sns chs) -> lookup_relevant p n chs = None -> n <= rp_fr p.
Proof.
  intros Hin Hn. destruct (Z.le_gt_cases n (rp_fr p)) as [|Hgt]; [assumption|].
  destruct (lookup_relevant_some p chs n Hin) as [c [Hc _]]; [lia|]. congruence.
Qed.

(* ------------------------------------------------------------------ what the writer emits in the class *)
(* a GAP only covers irrelevant samples, a HEARTBEAT announces 1..last *)
Definition wsub (fr last : Z) (m : submsg) : Prop :=
  match m with
  | SGap a b => b - 1 <= fr
  | SHb f l c => f = 1 /\ l = last
  | SAck _ _ _ | SNack _ _ _ _ => False
  | _ => True
  end.
Definition wdg (fr last : Z) (d : dgram) : Prop := Forall (wsub fr last) (dg_subs d).

Lemma wdg_frags fr last c k extra : Forall (wsub fr last) extra -> Forall (wdg fr last) (frag_dgrams c k extra).
Proof.
  intros He. unfold frag_dgrams. apply Forall_app; split.
  - apply Forall_forall. intros d Hd. apply in_map_iff in Hd. destruct Hd as [i [<- _]].
    unfold wdg; cbn. repeat constructor.
  - constructor; [|constructor]. unfold wdg; cbn. constructor; [exact I|assumption].
Qed.

(* the dynamic fields other than highest_sent and the heartbeat machine *)
Definition rp_rest (p : rproxy) := (rp_static p, rp_ha p, rp_req p, rp_an p, rp_nf p).

Lemma unsent_rel_class fr last fuel cf now chs : Contig chs last -> 0 <= fr ->
  forall p acc, rp_fr p = fr -> 0 <= rp_hs p <= last -> Forall (wdg fr last) acc ->
  let r := unsent_rel fuel cf now chs p acc in
  Forall (wdg fr last) (snd r) /\ 0 <= rp_hs (fst r) <= last /\ rp_rest (fst r) = rp_rest p.
Proof.
  intros Hc Hfr0. induction fuel as [|f IH]; intros p acc Hfr Hhs Ha; cbn [unsent_rel]; [cbn; tauto|].
  rewrite (contig_next_unsent chs last p Hc) by lia.
  destruct (Z.ltb_spec (rp_hs p) last) as [Hlt|Hge]; [|cbn; tauto].
  assert (rp_hs p + 1 <? rp_hs p + 1 = false) as -> by (apply Z.ltb_ge; lia).
  assert (Hin : In (rp_hs p + 1) (sns chs)) by (apply (contig_in chs last _ Hc); lia).
  assert (Hhb : first_sn chs = 1 /\ last_sn chs = last) by (split; [eapply contig_first|eapply contig_last]; eassumption).
  destruct (lookup_relevant p (rp_hs p + 1) chs) as [c|] eqn:El.
  - unfold gen_hb. destruct Hhb as [-> ->].
    destruct (1 <? nfrags cf c).
    + match goal with |- context [unsent_rel f cf now chs ?q ?a] => specialize (IH q a) end.
      cbn in IH. destruct (Z.ltb_spec (rp_hs p) (rp_hs p + 1)); [|lia].
      destruct IH as (A & B & C); [assumption|lia| |].
      * apply Forall_app; split; [assumption|]. apply wdg_frags. constructor; [cbn; auto|constructor].
      * split; [exact A|]. split; [exact B|]. rewrite C. reflexivity.
    + match goal with |- context [unsent_rel f cf now chs ?q ?a] => specialize (IH q a) end.
      cbn in IH. destruct (Z.ltb_spec (rp_hs p) (rp_hs p + 1)); [|lia].
      destruct IH as (A & B & C); [assumption|lia| |].
      * apply Forall_app; split; [assumption|]. constructor; [|constructor]. unfold wdg; cbn.
        constructor; [exact I|]. constructor; [cbn; auto|constructor].
      * split; [exact A|]. split; [exact B|]. rewrite C. reflexivity.
  - apply lookup_relevant_none in El; [|assumption].
    match goal with |- context [unsent_rel f cf now chs ?q ?a] => specialize (IH q a) end.
    cbn in IH. destruct (Z.ltb_spec (rp_hs p) (rp_hs p + 1)); [|lia].
    destruct IH as (A & B & C); [assumption|lia| |].
    + apply Forall_app; split; [assumption|]. constructor; [|constructor]. unfold wdg; cbn.
      constructor; [cbn; lia|constructor].
    + split; [exact A|]. split; [exact B|]. rewrite C. reflexivity.
Qed.

Lemma req_loop_class fr last fuel cf now chs : Contig chs last -> 0 <= fr ->
  forall p acc, rp_fr p = fr -> Forall (fun n => 1 <= n <= last) (rp_req p) -> Forall (wdg fr last) acc ->
  let r := req_loop fuel cf now chs p acc in
  Forall (wdg fr last) (snd r) /\ Forall (fun n => 1 <= n <= last) (rp_req (fst r)) /\
  rp_hs (fst r) = rp_hs p /\ rp_static (fst r) = rp_static p /\ rp_ha (fst r) = rp_ha p /\
  rp_an (fst r) = rp_an p /\ rp_nf (fst r) = rp_nf p.
Proof.
  intros Hc Hfr0. induction fuel as [|f IH]; intros p acc Hfr Hreq Ha; cbn [req_loop]; [cbn; tauto|].
  destruct (zmin_list (rp_req p)) as [n|] eqn:En; [|cbn; tauto].
  apply zmin_list_spec in En. destruct En as [Hn _].
  assert (Hnr : 1 <= n <= last) by (rewrite Forall_forall in Hreq; auto).
  assert (Hin : In n (sns chs)) by (apply (contig_in chs last _ Hc); lia).
  assert (Hhb : first_sn chs = 1 /\ last_sn chs = last) by (split; [eapply contig_first|eapply contig_last]; eassumption).
  set (p0 := set_req p (filter (fun s => negb (s =? n)) (rp_req p))).
  assert (Hreq0 : Forall (fun n => 1 <= n <= last) (rp_req p0)) by (subst p0; cbn; apply Forall_filter; assumption).
  destruct (lookup_relevant p0 n chs) as [c|] eqn:El.
  - unfold gen_hb. destruct Hhb as [-> ->].
    destruct (1 <? nfrags cf c).
    + match goal with |- context [req_loop f cf now chs ?q ?a] => specialize (IH q a) end.
      cbn in IH. destruct IH as (A & B & C & D & E & F & G); [assumption|assumption| |].
      * apply Forall_app; split; [assumption|]. constructor; [|constructor]. unfold wdg; cbn.
        constructor; [exact I|]. constructor; [cbn; auto|constructor].
      * repeat split; try assumption.
    + match goal with |- context [req_loop f cf now chs ?q ?a] => specialize (IH q a) end.
      cbn in IH. destruct IH as (A & B & C & D & E & F & G); [assumption|assumption| |].
      * apply Forall_app; split; [assumption|]. constructor; [|constructor]. unfold wdg; cbn.
        constructor; [exact I|]. constructor; [cbn; auto|constructor].
      * repeat split; try assumption.
  - apply lookup_relevant_none in El; [|assumption]. cbn in El.
    specialize (IH p0 (acc ++ [toR [SGap n (n + 1)]])).
    destruct IH as (A & B & C & D & E & F & G); [assumption|assumption| |].
    + apply Forall_app; split; [assumption|]. constructor; [|constructor]. unfold wdg; cbn.
      constructor; [cbn; lia|constructor].
    + repeat split; try assumption.
Qed.

Lemma write_rel_class fr last cf now chs p : Contig chs last -> 0 <= fr ->
  rp_fr p = fr -> 0 <= rp_hs p <= last -> Forall (fun n => 1 <= n <= last) (rp_req p) ->
  let r := write_rel cf now chs p in
  Forall (wdg fr last) (snd r) /\ 0 <= rp_hs (fst r) <= last /\
  Forall (fun n => 1 <= n <= last) (rp_req (fst r)) /\ rp_static (fst r) = rp_static p /\
  rp_ha (fst r) = rp_ha p /\ rp_an (fst r) = rp_an p /\ rp_nf (fst r) = rp_nf p.
Proof.
  intros Hc Hfr0 Hfr Hhs Hreq. unfold write_rel.
  match goal with |- context [let '(p1, out1) := ?X in _] => destruct X as [p1 out1] eqn:E1 end.
  assert (H1 : Forall (wdg fr last) out1 /\ 0 <= rp_hs p1 <= last /\ rp_rest p1 = rp_rest p).
  { destruct (next_unsent p chs).
    - pose proof (unsent_rel_class fr last (S (2 * length chs)) cf now chs Hc Hfr0 p [] Hfr Hhs (Forall_nil _)) as H.
      rewrite E1 in H. exact H.
    - destruct (negb _); [inversion E1; subst; repeat split; try constructor; lia|].
      destruct (time_for_hb p now); unfold gen_hb in E1; inversion E1; subst; cbn; repeat split; try constructor; try lia.
      + unfold wdg; cbn. constructor; [|constructor]. cbn. split; [eapply contig_first|eapply contig_last]; eassumption.
      + constructor. }
  destruct H1 as (A & B & C). unfold rp_rest, rp_static in C. injection C as C1 C2 C3 Cha Creq Can Cnf.
  assert (Hfr1 : rp_fr p1 = fr) by congruence.
  pose proof (req_loop_class fr last (S (length (rp_req p1))) cf now chs Hc Hfr0 p1 out1 Hfr1) as H.
  rewrite Creq in H. specialize (H Hreq A). lazy zeta in H. rewrite Creq.
  destruct H as (H1 & H2 & H3 & H4 & H5 & H6 & H7).
  repeat split; try assumption; try lia; try congruence.
  rewrite H4. unfold rp_static. congruence.
Qed.

Lemma write_be_class fr last fuel cf chs : Contig chs last ->
  forall p acc, rp_fr p = fr -> 0 <= rp_hs p <= last -> Forall (wdg fr last) acc ->
  let r := write_be_loop fuel cf chs p acc in
  Forall (wdg fr last) (snd r) /\ 0 <= rp_hs (fst r) <= last /\ rp_rest (fst r) = rp_rest p.
Proof.
  intros Hc. induction fuel as [|f IH]; intros p acc Hfr Hhs Ha; cbn [write_be_loop]; [cbn; tauto|].
  rewrite (contig_next_unsent chs last p Hc) by lia.
  destruct (Z.ltb_spec (rp_hs p) last) as [Hlt|Hge]; [|cbn; tauto].
  assert (rp_hs p + 1 <? rp_hs p + 1 = false) as -> by (apply Z.ltb_ge; lia).
  assert (Hin : In (rp_hs p + 1) (sns chs)) by (apply (contig_in chs last _ Hc); lia).
  destruct (lookup_relevant p (rp_hs p + 1) chs) as [c|] eqn:El.
  - destruct (1 <? nfrags cf c).
    + specialize (IH (set_hs p (rp_hs p + 1)) (acc ++ frag_dgrams c (nfrags cf c) [])).
      cbn in IH. destruct (Z.ltb_spec (rp_hs p) (rp_hs p + 1)); [|lia].
      destruct IH as (A & B & C); [assumption|lia| |].
      * apply Forall_app; split; [assumption|]. apply wdg_frags. constructor.
      * split; [exact A|]. split; [exact B|]. rewrite C. reflexivity.
    + specialize (IH (set_hs p (rp_hs p + 1)) (acc ++ [toR [SData c]])).
      cbn in IH. destruct (Z.ltb_spec (rp_hs p) (rp_hs p + 1)); [|lia].
      destruct IH as (A & B & C); [assumption|lia| |].
      * apply Forall_app; split; [assumption|]. constructor; [|constructor]. unfold wdg; cbn. repeat constructor.
      * split; [exact A|]. split; [exact B|]. rewrite C. reflexivity.
  - apply lookup_relevant_none in El; [|assumption].
    specialize (IH (set_hs p (rp_hs p + 1)) (acc ++ [toR [SGap (rp_hs p + 1) (rp_hs p + 1 + 1)]])).
    cbn in IH. destruct (Z.ltb_spec (rp_hs p) (rp_hs p + 1)); [|lia].
    destruct IH as (A & B & C); [assumption|lia| |].
    + apply Forall_app; split; [assumption|]. constructor; [|constructor]. unfold wdg; cbn.
      constructor; [cbn; lia|constructor].
    + split; [exact A|]. split; [exact B|]. rewrite C. reflexivity.
Qed.

Lemma write_message_class fr last cf now chs p : Contig chs last -> 0 <= fr ->
  rp_fr p = fr -> 0 <= rp_hs p <= last -> Forall (fun n => 1 <= n <= last) (rp_req p) ->
  let r := write_message cf now chs p in
  Forall (wdg fr last) (snd r) /\ 0 <= rp_hs (fst r) <= last /\
  Forall (fun n => 1 <= n <= last) (rp_req (fst r)) /\ rp_static (fst r) = rp_static p /\
  rp_ha (fst r) = rp_ha p.
Proof.
  intros Hc Hfr0 Hfr Hhs Hreq. unfold write_message. destruct (rp_rel p).
  - pose proof (write_rel_class fr last cf now chs p Hc Hfr0 Hfr Hhs Hreq) as H. lazy zeta in H. tauto.
  - pose proof (write_be_class fr last (S (2 * length chs)) cf chs Hc p [] Hfr Hhs (Forall_nil _)) as H. lazy zeta in H.
    set (r := write_be_loop (S (2 * length chs)) cf chs p []) in *. clearbody r.
    destruct H as (A & B & C). unfold rp_rest, rp_static in C. injection C as C1 C2 C3 C4 C5 C6 C7.
    repeat split; try assumption; try lia.
    + rewrite C5. assumption.
    + unfold rp_static. congruence.
Qed.

Lemma req_add_bound last req set :
  Forall (fun n => 1 <= n <= last) req -> Forall (fun n => 1 <= n <= last) set ->
  Forall (fun n => 1 <= n <= last) (req_add req set).
Proof.
  revert req. induction set as [|x t IH]; intros req Hr Hs; cbn; [assumption|].
  inversion Hs; subst. apply IH; [|assumption].
  destruct (zmem x req); [assumption|]. apply Forall_app; split; [assumption|]. constructor; [assumption|constructor].
Qed.

(* ------------------------------------------------------------------ the reader in the class *)
Lemma NoDup_map_inj {A B} (f : A -> B) l x y : NoDup (map f l) -> In x l -> In y l -> f x = f y -> x = y.
Proof.
  induction l as [|a t IH]; intros Hn Hx Hy E; [contradiction|]. cbn in Hn. inversion Hn; subst.
  destruct Hx as [->|Hx], Hy as [->|Hy]; try reflexivity.
  - exfalso. apply H1. rewrite E. apply in_map. assumption.
  - exfalso. apply H1. rewrite <- E. apply in_map. assumption.
  - apply IH; assumption.
Qed.

Lemma NoDup_zrange a b : NoDup (zrange a b).
Proof.
  unfold zrange. generalize (seq_NoDup (Z.to_nat (b - a + 1)) 0).
  induction (seq 0 (Z.to_nat (b - a + 1))) as [|x t IH]; intros Hn; cbn; [constructor|].
  inversion Hn; subst. constructor; [|auto].
  intros Hin. apply in_map_iff in Hin. destruct Hin as [y [Hy Hin]].
  assert (y = x) by lia. subst y. contradiction.
Qed.

Lemma log_functional log last c d : Contig log last -> In c log -> In d log -> c_sn c = c_sn d -> c = d.
Proof.
  intros [Hs _] Hc Hd E. eapply (NoDup_map_inj c_sn log); try eassumption.
  fold (sns log). rewrite Hs. apply NoDup_zrange.
Qed.

Lemma log_sn_bound log last c : Contig log last -> In c log -> 1 <= c_sn c <= last.
Proof. intros Hc Hin. apply (contig_in log last (c_sn c) Hc). unfold sns. apply in_map. assumption. Qed.

Definition Complete (fr : Z) (log : list change) (hr : Z) (pres : list change) : Prop :=
  forall c, In c log -> fr < c_sn c <= hr -> In c pres.

(* every reader's writer proxy: bounds and authentic fragments *)
Definition RB (last : Z) (log : list change) (w : wproxy) : Prop :=
  0 <= wp_hr w <= last /\ wp_la w <= last /\ 1 <= wp_fa w /\ Forall (fun f => In (fst f) log) (wp_frags w).
(* a RELIABLE reader's writer proxy: nothing is skipped *)
Definition RCrel (fr : Z) (log : list change) (w : wproxy) (pres : list change) : Prop :=
  wp_fa w = 1 /\ Complete fr log (wp_hr w) pres.

(* what may be delivered to the reader *)
Definition rsub (fr last : Z) (log : list change) (m : submsg) : Prop :=
  match m with
  | SData c => In c log
  | SFrag c _ => In c log
  | SGap a b => b - 1 <= fr
  | SHb f l _ => f = 1 /\ l <= last
  | _ => True
  end.
(* what the reader answers: truthful acknowledgements, requests for held sequence numbers only *)
Definition osub (last : Z) (hro : option Z) (m : submsg) : Prop :=
  match m with
  | SAck base set _ => Forall (fun n => 1 <= n <= last) set /\ match hro with Some hr => base - 1 <= hr | None => True end
  | SNack sn _ _ _ => 1 <= sn <= last
  | _ => True
  end.
Definition odg (last : Z) (hro : option Z) (d : dgram) : Prop := Forall (osub last hro) (dg_subs d).

Lemma avail_max_rel w : wp_fa w = 1 -> 0 <= wp_hr w -> avail_max w = wp_hr w.
Proof. unfold avail_max. intros -> H. lia. Qed.

Lemma on_data_class fr last log rel w c pres w1 oc :
  Contig log last -> In c log -> RB last log w -> (rel = true -> RCrel fr log w pres) ->
  on_data rel w c = (w1, oc) ->
  RB last log w1 /\ (rel = true -> RCrel fr log w1 (pres ++ opt_list oc)) /\ wp_hr w <= wp_hr w1.
Proof.
  intros Hc Hin (Hhr & Hla & Hfa & Hfr) Hrel E.
  pose proof (log_sn_bound log last c Hc Hin) as Hsn.
  unfold on_data in E. destruct rel.
  - destruct (Hrel eq_refl) as [Hfa1 Hcomp]. rewrite (avail_max_rel w Hfa1) in E by lia.
    destruct (Z.eqb_spec (c_sn c) (wp_hr w + 1)) as [Heq|Hne]; inversion E; subst; cbn [opt_list].
    + unfold received_set. cbn. destruct (Z.ltb_spec (wp_hr w) (c_sn c)); [|lia].
      split; [|split; [|lia]].
      * unfold RB; cbn. repeat split; try lia. apply Forall_filter. assumption.
      * intros _. split; [assumption|]. cbn. intros d Hd Hr. apply in_or_app.
        destruct (Z.eq_dec (c_sn d) (c_sn c)) as [Hs|Hs].
        -- right. left. symmetry. eapply log_functional; eassumption.
        -- left. apply Hcomp; [assumption|lia].
    + rewrite app_nil_r. split; [unfold RB; tauto|]. split; [intros _; split; assumption|lia].
  - destruct (Z.leb_spec (avail_max w + 1) (c_sn c)) as [Hle|Hgt]; inversion E; subst; cbn [opt_list].
    + assert (Hav : wp_hr w <= avail_max w) by (unfold avail_max; lia).
      split; [|split; [intros; discriminate|]].
      * destruct (avail_max w + 1 <? c_sn c); unfold RB, set_fa, received_set; cbn;
          destruct (Z.ltb_spec (wp_hr w) (c_sn c)); repeat split; try lia; apply Forall_filter; assumption.
      * destruct (avail_max w + 1 <? c_sn c); unfold set_fa, received_set; cbn;
          destruct (Z.ltb_spec (wp_hr w) (c_sn c)); lia.
    + rewrite app_nil_r. split; [unfold RB; tauto|]. split; [intros; discriminate|lia].
Qed.

Lemma reconstruct_spec2 cf w sn d w2 :
  reconstruct cf w sn = Some (d, w2) ->
  In d (map fst (wp_frags w)) /\ c_sn d = sn /\
  exists fr', w2 = set_frags w fr' /\ (forall f, In f fr' -> In f (wp_frags w)).
Proof.
  unfold reconstruct. destruct (find _ (wp_frags w)) as [f0|]; [|discriminate].
  destruct (_ =? _); [|discriminate].
  destruct (find (fun f => (frag_sn f =? sn) && (snd f =? 1)) (wp_frags w)) as [f1|] eqn:E1; [|discriminate].
  intros H; inversion H; subst. apply find_some in E1. destruct E1 as [E1 E2].
  apply andb_prop in E2. destruct E2 as [E2 _]. apply Z.eqb_eq in E2.
  split; [apply in_map; assumption|]. split; [exact E2|].
  eexists. split; [reflexivity|]. intros f Hf. apply filter_In in Hf. tauto.
Qed.

Lemma RB_set_frags last log w fr' : RB last log w -> (forall f, In f fr' -> In f (wp_frags w)) ->
  RB last log (set_frags w fr').
Proof.
  intros (A & B & C & D) Hf. unfold RB, set_frags; cbn. repeat split; try assumption; try lia.
  apply Forall_forall. intros f Hin. rewrite Forall_forall in D. auto.
Qed.

Lemma on_frag_class fr last log cf rel w c k pres w1 oc :
  Contig log last -> In c log -> RB last log w -> (rel = true -> RCrel fr log w pres) ->
  on_frag cf rel w c k = (w1, oc) ->
  RB last log w1 /\ (rel = true -> RCrel fr log w1 (pres ++ opt_list oc)) /\ wp_hr w <= wp_hr w1.
Proof.
  intros Hc Hin HB Hrel E. unfold on_frag in E.
  set (wa := if (if rel then c_sn c =? avail_max w + 1 else avail_max w + 1 <=? c_sn c)
             then push_frag w (c, k) else w) in *.
  assert (Hwa : RB last log wa /\ (rel = true -> RCrel fr log wa pres) /\ wp_hr wa = wp_hr w).
  { subst wa. destruct (if rel then _ else _); [|tauto].
    assert (Hp : exists fr', push_frag w (c, k) = set_frags w fr' /\ (forall f, In f fr' -> f = (c, k) \/ In f (wp_frags w))).
    { unfold push_frag. destruct (existsb _ _).
      - exists (wp_frags w). split; [destruct w; reflexivity|auto].
      - eexists. split; [reflexivity|]. intros f Hf. apply in_app_or in Hf. destruct Hf as [Hf|[Hf|[]]]; auto. }
    destruct Hp as [fr' [-> Hfr']].
    destruct HB as (A & B & C & D). unfold RB, RCrel, set_frags; cbn. repeat split; try assumption; try lia.
    - apply Forall_forall. intros g Hg. destruct (Hfr' g Hg) as [->|Hg']; [exact Hin|].
      rewrite Forall_forall in D. auto.
    - apply Hrel; assumption.
    - apply Hrel; assumption. }
  destruct Hwa as (HBa & Hrela & Hhra).
  destruct (reconstruct cf wa (c_sn c)) as [[d w2]|] eqn:Er.
  - apply reconstruct_spec2 in Er. destruct Er as (Hd & _ & fr' & -> & Hfr').
    assert (Hdl : In d log).
    { destruct HBa as (_ & _ & _ & D). apply in_map_iff in Hd. destruct Hd as [g [<- Hg]].
      rewrite Forall_forall in D. auto. }
    pose proof (on_data_class fr last log rel (set_frags wa fr') d pres w1 oc Hc Hdl (RB_set_frags last log wa fr' HBa Hfr')) as H.
    destruct H as (A & B & C); [|exact E|].
    + intros Hr. specialize (Hrela Hr). unfold RCrel, set_frags in *; cbn. exact Hrela.
    + cbn in C. split; [assumption|]. split; [assumption|lia].
  - inversion E; subst. cbn [opt_list]. rewrite app_nil_r. rewrite Hhra. split; [assumption|]. split; [assumption|lia].
Qed.

Lemma on_gap_class fr last log w a b pres rel :
  0 <= fr <= last -> b - 1 <= fr -> RB last log w -> (rel = true -> RCrel fr log w pres) ->
  RB last log (on_gap w a b) /\ (rel = true -> RCrel fr log (on_gap w a b) pres) /\ wp_hr w <= wp_hr (on_gap w a b).
Proof.
  intros Hfr Hb (A & B & C & D) Hrel. unfold on_gap.
  destruct ((a <? b) && (a <=? avail_max w + 1) && (wp_hr w <? b - 1)) eqn:E.
  - apply andb_prop in E. destruct E as [_ E]. apply Z.ltb_lt in E.
    unfold RB, RCrel; cbn. repeat split; try assumption; try lia.
    + apply Hrel; assumption.
    + intros c Hc Hr. lia.
  - unfold RB. repeat split; try assumption; try lia; apply Hrel; assumption.
Qed.

Lemma missing_bound last log w x : RB last log w -> In x (missing w) -> 1 <= x <= last.
Proof.
  intros (A & B & C & _) Hx. unfold missing in Hx. apply in_zrange in Hx. lia.
Qed.

Lemma in_firstn {A} (x : A) n l : In x (firstn n l) -> In x l.
Proof. revert l; induction n; intros l H; [contradiction|]. destruct l; [contradiction|]. cbn in H. destruct H; [left|right]; auto. Qed.

Lemma in_take_while {A} (f : A -> bool) x l : In x (take_while f l) -> In x l.
Proof. induction l as [|y t IH]; [intros []|]. cbn. destruct (f y); [|intros []]. intros [->|H]; [left|right]; auto. Qed.

Lemma acknack_of_class cf last log w : RB last log w ->
  let r := acknack_of cf w in
  wp_hr (fst r) = wp_hr w /\ wp_fa (fst r) = wp_fa w /\ wp_la (fst r) = wp_la w /\
  wp_frags (fst r) = wp_frags w /\ wp_hb (fst r) = wp_hb w /\
  Forall (osub last (if wp_fa w =? 1 then Some (wp_hr w) else None)) (snd r).
Proof.
  intros HB. unfold acknack_of. cbn [wp_frags wp_hr wp_fa wp_la wp_an wp_nf wp_hb].
  set (w1 := mkWP (wp_fa w) (wp_la w) (wp_hr w) (wp_hb w) (wp_an w + 1) (wp_nf w + 1) (wp_frags w)).
  assert (HB1 : RB last log w1) by exact HB.
  set (miss := firstn 256 (missing w1)).
  assert (Hmiss : forall x, In x miss -> 1 <= x <= last).
  { intros x Hx. subst miss. apply in_firstn in Hx. eapply missing_bound; eassumption. }
  clearbody miss.
  assert (Hack : osub last (if wp_fa w =? 1 then Some (wp_hr w) else None)
            (SAck (avail_max w1 + 1)
               (take_while (fun x => match min_frag_sn w1 with Some m => x <? m | None => true end) miss)
               (wp_an w + 1))).
  { split.
    - apply Forall_forall. intros x Hx. apply in_take_while in Hx. auto.
    - destruct (Z.eqb_spec (wp_fa w) 1) as [He|]; [|exact I].
      destruct HB as (A & _). unfold avail_max, w1; cbn [wp_fa wp_hr]. lia. }
  destruct (find (fun s => existsb (fun f => frag_sn f =? s) (wp_frags w)) miss) as [s|] eqn:Es.
  2:{ cbn [fst snd wp_hr wp_fa wp_la wp_frags wp_hb w1]. repeat split. constructor; [exact Hack|constructor]. }
  destruct (find (fun f => frag_sn f =? s) (wp_frags w)) as [f0|] eqn:Ef0.
  2:{ cbn [fst snd wp_hr wp_fa wp_la wp_frags wp_hb w1]. repeat split. constructor; [exact Hack|constructor]. }
  cbn [fst snd wp_hr wp_fa wp_la wp_frags wp_hb w1]. repeat split. constructor; [exact Hack|].
  constructor; [|constructor]. cbn [osub].
  apply find_some in Es. destruct Es as [Es _]. auto.
Qed.

Lemma on_hb_class fr last log cf w f l c pres rel w1 out :
  f = 1 -> l <= last -> RB last log w -> (rel = true -> RCrel fr log w pres) ->
  on_hb cf w f l c = (w1, out) ->
  RB last log w1 /\ (rel = true -> RCrel fr log w1 pres) /\ wp_hr w1 = wp_hr w /\
  Forall (odg last (if rel then Some (wp_hr w1) else None)) out.
Proof.
  intros -> Hl HB Hrel E. unfold on_hb in E. destruct (wp_hb w <? c).
  - set (wh := mkWP 1 l (wp_hr w) c (wp_an w) (wp_nf w) (wp_frags w)) in *.
    assert (HBh : RB last log wh).
    { destruct HB as (A & B & C & D). unfold RB, wh; cbn. repeat split; try assumption; lia. }
    pose proof (acknack_of_class cf last log wh HBh) as H. lazy zeta in H.
    destruct (acknack_of cf wh) as [w2 subs]. cbn [fst snd] in H.
    destruct H as (H1 & H2 & H3 & H4 & H5 & H6). inversion E; subst.
    split; [|split; [|split]].
    + destruct HBh as (A & B & C & D). unfold RB. rewrite H1, H2, H3, H4. repeat split; try assumption; try lia.
    + intros Hr. destruct (Hrel Hr) as [_ Hcomp]. unfold RCrel. rewrite H1, H2. split; [reflexivity|exact Hcomp].
    + rewrite H1. reflexivity.
    + constructor; [|constructor]. unfold odg; cbn [dg_subs toW]. rewrite H1. cbn [wp_fa wh] in H6.
      eapply Forall_impl; [|exact H6]. intros m Hm. destruct rel; [exact Hm|].
      destruct m; cbn in *; tauto.
  - inversion E; subst. split; [assumption|]. split; [assumption|]. split; [reflexivity|constructor].
Qed.

Lemma deliver_sub_R_class fr last log cf r w m r1 out :
  Contig log last -> 0 <= fr <= last -> rd_wp r = Some w -> RB last log w ->
  (rd_rel r = true -> RCrel fr log w (rd_pres r)) ->
  rsub fr last log m ->
  deliver_sub_R cf r m = (r1, out) ->
  exists w1, rd_wp r1 = Some w1 /\ rd_rel r1 = rd_rel r /\ RB last log w1 /\
     (rd_rel r = true -> RCrel fr log w1 (rd_pres r1)) /\ wp_hr w <= wp_hr w1 /\
     Forall (odg last (if rd_rel r then Some (wp_hr w1) else None)) out.
Proof.
  intros Hc Hfr Ew HB Hrel Hm E. unfold deliver_sub_R in E. rewrite Ew in E.
  destruct m as [c|c k|a b|f l c| |]; cbn in Hm.
  - destruct (on_data (rd_rel r) w c) as [w1 oc] eqn:Ed. inversion E; subst.
    destruct (on_data_class fr last log (rd_rel r) w c (rd_pres r) w1 oc Hc Hm HB Hrel Ed) as (A & B & C).
    exists w1. destruct (rd_present_proj r w1 oc) as [P1 P2]. rewrite P2.
    refine (conj P1 (conj _ (conj A (conj B (conj C _))))); [destruct oc; reflexivity|constructor].
  - destruct (on_frag cf (rd_rel r) w c k) as [w1 oc] eqn:Ed. inversion E; subst.
    destruct (on_frag_class fr last log cf (rd_rel r) w c k (rd_pres r) w1 oc Hc Hm HB Hrel Ed) as (A & B & C).
    exists w1. destruct (rd_present_proj r w1 oc) as [P1 P2]. rewrite P2.
    refine (conj P1 (conj _ (conj A (conj B (conj C _))))); [destruct oc; reflexivity|constructor].
  - inversion E; subst.
    destruct (on_gap_class fr last log w a b (rd_pres r) (rd_rel r) Hfr Hm HB Hrel) as (A & B & C).
    exists (on_gap w a b). cbn [rd_present rd_wp rd_rel rd_pres].
    refine (conj eq_refl (conj eq_refl (conj A (conj B (conj C _))))). constructor.
  - destruct Hm as [Hf Hl]. destruct (f <=? 0) eqn:Ef0; [subst f; discriminate|].
    destruct (on_hb cf w f l c) as [w1 o] eqn:Eh.
    destruct (on_hb_class fr last log cf w f l c (rd_pres r) (rd_rel r) w1 o Hf Hl HB Hrel Eh) as (A & B & C & D).
    exists w1. destruct (hist_received (rd_wp (rd_present r w1 None))); inversion E; subst;
      cbn [rd_present rd_wp rd_rel rd_pres];
      refine (conj eq_refl (conj eq_refl (conj A (conj B (conj _ D))))); lia.
  - inversion E; subst. exists w.
    refine (conj Ew (conj eq_refl (conj HB (conj Hrel (conj _ _))))); [lia|constructor].
  - inversion E; subst. exists w.
    refine (conj Ew (conj eq_refl (conj HB (conj Hrel (conj _ _))))); [lia|constructor].
Qed.

Lemma osub_mono last last' hro hro' m :
  last <= last' ->
  (match hro' with None => True | Some h' => match hro with Some h => h <= h' | None => False end end) ->
  osub last hro m -> osub last' hro' m.
Proof.
  intros Hl Hh. destruct m; cbn; try tauto.
  - intros [A B]. split.
    + eapply Forall_impl; [|exact A]. cbn. intros; lia.
    + destruct hro' as [h'|]; [|exact I]. destruct hro as [h|]; [lia|contradiction].
  - lia.
Qed.

Lemma deliver_subs_R_class fr last log cf l : forall r w acc r1 out,
  Contig log last -> 0 <= fr <= last -> rd_wp r = Some w -> RB last log w ->
  (rd_rel r = true -> RCrel fr log w (rd_pres r)) ->
  Forall (rsub fr last log) l ->
  Forall (odg last (if rd_rel r then Some (wp_hr w) else None)) acc ->
  deliver_subs_R cf r l acc = (r1, out) ->
  exists w1, rd_wp r1 = Some w1 /\ rd_rel r1 = rd_rel r /\ RB last log w1 /\
     (rd_rel r = true -> RCrel fr log w1 (rd_pres r1)) /\ wp_hr w <= wp_hr w1 /\
     Forall (odg last (if rd_rel r then Some (wp_hr w1) else None)) out.
Proof.
  induction l as [|m t IH]; intros r w acc r1 out Hc Hfr Ew HB Hrel Hl Ha E; cbn in E.
  - inversion E; subst. exists w.
    refine (conj Ew (conj eq_refl (conj HB (conj Hrel (conj _ Ha))))). lia.
  - inversion Hl; subst. destruct (deliver_sub_R cf r m) as [r' o] eqn:Em.
    destruct (deliver_sub_R_class fr last log cf r w m r' o Hc Hfr Ew HB Hrel H1 Em) as (w' & A & B & C & D & F & G).
    assert (Hacc : Forall (odg last (if rd_rel r' then Some (wp_hr w') else None)) (acc ++ o)).
    { rewrite B. apply Forall_app; split; [|assumption].
      eapply Forall_impl; [|exact Ha]. intros d Hd. unfold odg in *. eapply Forall_impl; [|exact Hd].
      intros x. apply osub_mono; [lia|]. destruct (rd_rel r); [lia|exact I]. }
    rewrite <- B in D.
    destruct (IH r' w' (acc ++ o) r1 out Hc Hfr A C D H2 Hacc E) as (w1 & A1 & B1 & C1 & D1 & F1 & G1).
    exists w1. rewrite B in *.
    refine (conj A1 (conj B1 (conj C1 (conj D1 (conj _ G1))))). lia.
Qed.

(* ------------------------------------------------------------------ the class invariant *)
Definition hr_of (s : state) : option Z :=
  match s_rd s with
  | Some r => match rd_wp r with Some w => if rd_rel r then Some (wp_hr w) else None | None => None end
  | None => None
  end.

Definition nsub (fr last : Z) (hro : option Z) (m : submsg) : Prop :=
  match m with
  | SGap a b => b - 1 <= fr
  | SHb f l _ => f = 1 /\ l <= last
  | _ => osub last hro m
  end.
Definition ndg (fr last : Z) (hro : option Z) (d : dgram) : Prop := Forall (nsub fr last hro) (dg_subs d).

Definition ROk (fr last : Z) (log : list change) (p : rproxy) (ord : option reader) : Prop :=
  match ord with
  | Some r => match rd_wp r with
              | Some w => RB last log w /\ rd_rel r = rp_rel p /\
                          (rd_rel r = true -> RCrel fr log w (rd_pres r) /\ rp_ha p <= wp_hr w)
              | None => True
              end
  | None => True
  end.

Record AInv (s : state) : Prop := mkAInv {
  a_chs : s_changes s = s_log s;
  a_contig : Contig (s_log s) (s_last s);
  a_rp : match s_rp s with
         | None => True
         | Some p =>
           0 <= rp_fr p <= s_last s /\ 0 <= rp_hs p <= s_last s /\
           Forall (fun n => 1 <= n <= s_last s) (rp_req p) /\
           Forall (ndg (rp_fr p) (s_last s) (hr_of s)) (s_net s) /\
           ROk (rp_fr p) (s_last s) (s_log s) p (s_rd s)
         end
}.

Lemma nsub_mono fr last last' hro hro' m :
  last <= last' ->
  (match hro' with None => True | Some h' => match hro with Some h => h <= h' | None => False end end) ->
  nsub fr last hro m -> nsub fr last' hro' m.
Proof.
  intros Hl Hh. destruct m; cbn [nsub]; try (apply osub_mono; assumption); try tauto. lia.
Qed.
Lemma ndg_mono fr last last' hro hro' d :
  last <= last' ->
  (match hro' with None => True | Some h' => match hro with Some h => h <= h' | None => False end end) ->
  ndg fr last hro d -> ndg fr last' hro' d.
Proof. intros Hl Hh H. unfold ndg in *. eapply Forall_impl; [|exact H]. intros m. apply nsub_mono; assumption. Qed.

Lemma wdg_ndg fr last hro d : wdg fr last d -> ndg fr last hro d.
Proof.
  intros Hw. unfold wdg, ndg in *. eapply Forall_impl; [|exact Hw].
  intros m. destruct m; cbn; try tauto. lia.
Qed.

(* the reader only ever answers with ACKNACK / NACK_FRAG *)
Definition only_acks (m : submsg) : Prop := match m with SAck _ _ _ | SNack _ _ _ _ => True | _ => False end.
Definition acks_dg (d : dgram) : Prop := Forall only_acks (dg_subs d) /\ dg_toR d = false.

Lemma acknack_of_acks cf w : Forall only_acks (snd (acknack_of cf w)).
Proof.
  unfold acknack_of.
  repeat match goal with |- context [match ?X with _ => _ end] => destruct X end; cbn [snd]; repeat constructor.
Qed.

Lemma deliver_sub_R_acks cf r m r1 out : deliver_sub_R cf r m = (r1, out) -> Forall acks_dg out.
Proof.
  unfold deliver_sub_R. destruct (rd_wp r) as [w|]; [|intros E; inversion E; constructor].
  destruct m; try (intros E; inversion E; constructor).
  - destruct (on_data _ _ _). intros E; inversion E; constructor.
  - destruct (on_frag _ _ _ _ _). intros E; inversion E; constructor.
  - destruct (first <=? 0); [intros E; inversion E; constructor|].
    unfold on_hb. destruct (wp_hb w <? count).
    + match goal with |- context [acknack_of cf ?q] => pose proof (acknack_of_acks cf q) as Ha; destruct (acknack_of cf q) as [w2 subs] end.
      cbn [snd] in Ha. destruct (hist_received _); intros E; inversion E; subst;
        (constructor; [split; [exact Ha|reflexivity]|constructor]).
    + destruct (hist_received _); intros E; inversion E; constructor.
Qed.

Lemma deliver_subs_R_acks cf l : forall r acc r1 out,
  Forall acks_dg acc -> deliver_subs_R cf r l acc = (r1, out) -> Forall acks_dg out.
Proof.
  induction l as [|m t IH]; intros r acc r1 out Ha E; cbn in E; [inversion E; subst; assumption|].
  destruct (deliver_sub_R cf r m) as [r' o] eqn:Em. apply deliver_sub_R_acks in Em.
  eapply IH; [|exact E]. apply Forall_app; split; assumption.
Qed.

Lemma odg_ndg fr last hro d : odg last hro d -> acks_dg d -> ndg fr last hro d.
Proof.
  intros Ho [Ha _]. unfold odg, ndg in *. rewrite Forall_forall in *. intros m Hm.
  specialize (Ho m Hm). specialize (Ha m Hm). destruct m; cbn in *; try contradiction; assumption.
Qed.

Lemma zrange_snoc last : 0 <= last -> zrange 1 (last + 1) = zrange 1 last ++ [last + 1].
Proof.
  intros H. unfold zrange. replace (Z.to_nat (last + 1 - 1 + 1)) with (S (Z.to_nat (last - 1 + 1))) by lia.
  rewrite seq_S, map_app. cbn [map]. f_equal. f_equal. rewrite Nat.add_0_l. lia.
Qed.

(* ------------------------------------------------------------------ preservation *)
Definition CInv (s : state) : Prop := SInv s /\ NInv s /\ AInv s.

Lemma hr_of_send s out : hr_of (send s out) = hr_of s.
Proof. reflexivity. Qed.

Lemma AInv_poke cf s : AInv s -> AInv (poke cf s).
Proof.
  intros [H1 H2 H3]. unfold poke. destruct (s_rp s) as [p|] eqn:Ep; [|constructor; try assumption; rewrite Ep; exact I].
  destruct H3 as (Hfr & Hhs & Hreq & Hnet & Hrd).
  pose proof (write_message_class (rp_fr p) (s_last s) cf (s_now s) (s_changes s) p) as H.
  rewrite H1 in H. specialize (H H2 (proj1 Hfr) eq_refl Hhs Hreq). lazy zeta in H. rewrite <- H1 in H.
  destruct (write_message cf (s_now s) (s_changes s) p) as [p1 out]. cbn [fst snd] in H.
  destruct H as (A & B & C & D & E). apply static_fr in D. destruct D as (D1 & D2 & D3).
  constructor; cbn; try assumption. rewrite D1.
  split; [assumption|]. split; [assumption|]. split; [assumption|]. split.
  - apply Forall_app; split; [assumption|]. apply Forall_filter.
    eapply Forall_impl; [|exact A]. intros d. apply wdg_ndg.
  - unfold ROk in *. destruct (s_rd s) as [r|]; [|exact I]. destruct (rd_wp r) as [w|]; [|exact I].
    rewrite D2, E. assumption.
Qed.

Lemma AInv_deliver_sub_W cf s m p : AInv s -> s_rp s = Some p ->
  nsub (rp_fr p) (s_last s) (hr_of s) m -> AInv (deliver_sub_W cf s m).
Proof.
  intros HA Ep Hm. pose proof HA as [H1 H2 H3]. rewrite Ep in H3.
  destruct H3 as (Hfr & Hhs & Hreq & Hnet & Hrd).
  unfold deliver_sub_W. rewrite Ep. destruct m; try assumption.
  - (* ACKNACK *) cbn in Hm. destruct Hm as [Hset Hbase].
    unfold on_acknack. destruct (rp_rel p && (rp_an p <? count)) eqn:Eacc.
    2:{ cbn [andb]. constructor; cbn; try assumption. rewrite app_nil_r.
        split; [assumption|]. split; [assumption|]. split; [assumption|]. split; assumption. }
    apply andb_prop in Eacc. destruct Eacc as [Erel _].
    set (p1 := mkRP (rp_rel p) (rp_tl p) (rp_hs p) (if rp_ha p <? base - 1 then base - 1 else rp_ha p)
                    (req_add (rp_req p) set) (rp_fr p) count (rp_nf p) (rp_hbc p) (rp_hbt p)).
    pose proof (write_rel_class (rp_fr p) (s_last s) cf (s_now s) (s_changes s) p1) as H.
    rewrite H1 in H. specialize (H H2 (proj1 Hfr) eq_refl Hhs (req_add_bound _ _ _ Hreq Hset)).
    lazy zeta in H. rewrite <- H1 in H.
    destruct (write_rel cf (s_now s) (s_changes s) p1) as [p2 out]. cbn [fst snd] in H.
    destruct H as (A & B & C & D & E & _). apply static_fr in D. destruct D as (D1 & D2 & D3).
    assert (HA2 : AInv (send (set_rp s (Some p2)) out)).
    { constructor; cbn; try assumption. rewrite D1. cbn [rp_fr p1].
      split; [assumption|]. split; [assumption|]. split; [assumption|]. split.
      - apply Forall_app; split; [assumption|]. apply Forall_filter.
        eapply Forall_impl; [|exact A]. intros d. apply wdg_ndg.
      - unfold ROk in *. destruct (s_rd s) as [r|] eqn:Er; [|exact I]. destruct (rd_wp r) as [w|] eqn:Ew; [|exact I].
        destruct Hrd as (R1 & R2 & R3). rewrite D2, E. cbn [rp_rel rp_ha p1].
        split; [assumption|]. split; [assumption|]. intros Hr. destruct (R3 Hr) as [R4 R5]. split; [assumption|].
        unfold hr_of in Hbase. rewrite Er, Ew, Hr in Hbase.
        destruct (rp_ha p <? base - 1); lia. }
    destruct (true && is_acked (Some p2) (s_last s)); [|exact HA2].
    destruct HA2 as [X1 X2 X3]. constructor; assumption.
  - (* NACK_FRAG *) cbn in Hm.
    unfold on_nackfrag. destruct (rp_rel p && (rp_nf p <? count)).
    2:{ constructor; cbn; try assumption. rewrite app_nil_r.
        split; [assumption|]. split; [assumption|]. split; [assumption|]. split; assumption. }
    assert (Hin : In sn (sns (s_changes s))) by (rewrite H1; apply (contig_in _ _ _ H2); lia).
    destruct (find_sn_some _ _ Hin) as [c (Hf & _ & _)]. rewrite Hf.
    match goal with |- AInv (send _ ?o) => assert (Ho : Forall (ndg (rp_fr p) (s_last s) (hr_of s)) o) end.
    { apply Forall_forall. intros d Hd. apply in_flat_map in Hd. destruct Hd as [f [_ Hd]].
      destruct ((1 <=? f) && (f <=? nfrags cf c)); [|contradiction]. destruct Hd as [<-|[]].
      unfold ndg; cbn. constructor; [exact I|constructor]. }
    match goal with |- AInv (send _ ?o) => revert Ho; generalize o end. intros o' Ho.
    constructor; cbn; try assumption.
    split; [assumption|]. split; [assumption|]. split; [assumption|]. split.
    + apply Forall_app; split; [assumption|]. apply Forall_filter. assumption.
    + unfold ROk in *. destruct (s_rd s) as [r|]; [|exact I]. destruct (rd_wp r) as [w|]; [|exact I]. exact Hrd.
Qed.

Lemma deliver_sub_W_frame cf s m :
  s_rd (deliver_sub_W cf s m) = s_rd s /\ s_rdead (deliver_sub_W cf s m) = s_rdead s /\
  (forall p, s_rp s = Some p -> exists q, s_rp (deliver_sub_W cf s m) = Some q /\ rp_static q = rp_static p).
Proof.
  unfold deliver_sub_W. destruct (s_rp s) as [p|] eqn:Ep; [|repeat split; intros; discriminate].
  destruct m; try (repeat split; intros q Hq; inversion Hq; subst; eauto).
  - pose proof (on_acknack_static cf (s_now s) (s_changes s) p base set count) as Hs.
    destruct (on_acknack _ _ _ _ _ _ _) as [[p1 o] sm]. cbn in Hs.
    destruct (sm && _); cbn; repeat split; intros q Hq; inversion Hq; subst; eauto.
  - pose proof (on_nackfrag_static cf (s_changes s) p sn base set count) as Hs.
    destruct (on_nackfrag _ _ _ _ _ _ _) as [p1 o]. cbn in Hs. cbn. repeat split; intros q Hq; inversion Hq; subst; eauto.
Qed.

Lemma AInv_fold_W cf l : forall s p, AInv s -> s_rp s = Some p ->
  Forall (nsub (rp_fr p) (s_last s) (hr_of s)) l -> AInv (fold_left (deliver_sub_W cf) l s).
Proof.
  induction l as [|m t IH]; intros s p HA Ep Hl; cbn [fold_left]; [assumption|].
  inversion Hl; subst.
  pose proof (AInv_deliver_sub_W cf s m p HA Ep H1) as HA1.
  destruct (deliver_sub_W_frame cf s m) as (F1 & F2 & F3). destruct (F3 p Ep) as [q [Eq Hs]].
  apply static_fr in Hs. destruct Hs as (S1 & _).
  apply (IH _ q HA1 Eq).
  destruct (core_proj _ _ (deliver_sub_W_core cf s m)) as (_ & C2 & _).
  unfold hr_of. rewrite F1, C2, S1. exact H2.
Qed.

Definition hro_le (a b : option Z) : Prop :=
  match b with None => True | Some h' => match a with Some h => h <= h' | None => False end end.
Lemma hro_le_refl a : hro_le a a.
Proof. destruct a; cbn; [lia|exact I]. Qed.

Lemma deliver_subs_R_nowp cf r l : forall acc, rd_wp r = None -> deliver_subs_R cf r l acc = (r, acc).
Proof.
  induction l as [|m t IH]; intros acc Ew; cbn [deliver_subs_R]; [reflexivity|].
  unfold deliver_sub_R at 1. rewrite Ew. rewrite app_nil_r. apply IH. assumption.
Qed.

Lemma AInv_deliver_dgram cf s d p : SInv s -> AInv s -> s_rp s = Some p ->
  ndg (rp_fr p) (s_last s) (hr_of s) d -> auth_dg (s_log s) d ->
  AInv (deliver_dgram cf s d) /\ hro_le (hr_of s) (hr_of (deliver_dgram cf s d)).
Proof.
  intros HS HA Ep Hd Hauth. unfold deliver_dgram. destruct (dg_toR d).
  - destruct (s_rdead s); [split; [assumption|apply hro_le_refl]|].
    destruct (s_rd s) as [r|] eqn:Er; [|split; [assumption|apply hro_le_refl]].
    destruct (rd_alive r); [|split; [assumption|apply hro_le_refl]].
    destruct (deliver_subs_R cf r (dg_subs d) []) as [r1 out] eqn:E.
    pose proof HA as [H1 H2 H3]. rewrite Ep in H3. destruct H3 as (Hfr & Hhs & Hreq & Hnet & Hrd).
    unfold ROk in Hrd. rewrite Er in Hrd.
    destruct (rd_wp r) as [w|] eqn:Ew.
    2:{ (* a reader without writer proxy ignores everything *)
      assert (r1 = r /\ out = []).
      { rewrite (deliver_subs_R_nowp cf r (dg_subs d) [] Ew) in E. inversion E; auto. }
      destruct H as [-> ->]. split.
      2:{ unfold hr_of; cbn. rewrite Ew. exact I. }
      constructor; cbn; try assumption. rewrite Ep.
      split; [assumption|]. split; [assumption|]. split; [assumption|]. split.
      - rewrite app_nil_r. unfold hr_of in *. cbn. rewrite Er in Hnet. exact Hnet.
      - unfold ROk. rewrite Ew. exact I. }
    destruct Hrd as (R1 & R2 & R3).
    assert (Hsubs : Forall (rsub (rp_fr p) (s_last s) (s_log s)) (dg_subs d)).
    { unfold ndg, auth_dg, data_dg in *. rewrite Forall_forall in *. intros m Hm.
      specialize (Hd m Hm). specialize (Hauth m Hm). destruct m; cbn in *; tauto. }
    destruct (deliver_subs_R_class (rp_fr p) (s_last s) (s_log s) cf (dg_subs d) r w [] r1 out H2 Hfr Ew R1
                (fun Hr => proj1 (R3 Hr)) Hsubs (Forall_nil _) E) as (w1 & A1 & B1 & C1 & D1 & F1 & G1).
    pose proof (deliver_subs_R_acks cf (dg_subs d) r [] r1 out (Forall_nil _) E) as Hacks.
    assert (Hhro : match hr_of (send (set_rd s (Some r1)) out) with
                   | None => True
                   | Some h' => match hr_of s with Some h => h <= h' | None => False end
                   end).
    { unfold hr_of; cbn. rewrite A1, B1, Er, Ew. destruct (rd_rel r); [lia|exact I]. }
    split; [|exact Hhro].
    constructor; cbn; try assumption. rewrite Ep.
    split; [assumption|]. split; [assumption|]. split; [assumption|]. split.
    + apply Forall_app; split.
      * eapply Forall_impl; [|exact Hnet]. intros x. apply ndg_mono; [lia|exact Hhro].
      * apply Forall_filter. rewrite Forall_forall in *. intros x Hx. apply odg_ndg; [|auto].
        specialize (G1 x Hx). unfold hr_of; cbn. rewrite A1, B1. exact G1.
    + unfold ROk. rewrite A1. rewrite B1. split; [assumption|]. split; [assumption|].
      intros Hr. split; [apply D1; assumption|]. destruct (R3 Hr). lia.
  - pose proof HA as [H1 H2 H3]. split; [eapply AInv_fold_W; [assumption|exact Ep|exact Hd]|].
    unfold hr_of. rewrite fold_W_rd. apply hro_le_refl.
Qed.

Lemma AInv_set_net s n : AInv s -> (forall d, In d n -> In d (s_net s)) -> AInv (set_net s n).
Proof.
  intros [H1 H2 H3] Hn. constructor; cbn; try assumption.
  destruct (s_rp s) as [p|]; [|exact I]. destruct H3 as (A & B & C & D & E).
  split; [assumption|]. split; [assumption|]. split; [assumption|]. split; [|assumption].
  rewrite Forall_forall in *. intros d Hd. apply D. apply Hn. assumption.
Qed.

Lemma remove_nth_in {A} (x : A) n l : In x (remove_nth n l) -> In x l.
Proof.
  revert n; induction l as [|y t IH]; intros n H; destruct n; cbn in *; try contradiction; auto.
  destruct H as [->|H]; [left; reflexivity|right; eauto].
Qed.

Lemma CInv_poke cf s : CInv s -> CInv (poke cf s).
Proof.
  intros (HS & HN & HA). split; [apply poke_SInv; assumption|]. split; [|apply AInv_poke; assumption].
  destruct (s_rp s) as [p|] eqn:Ep.
  - intros Hn. rewrite poke_rd in Hn. destruct (HN Hn) as [_ Hp]. congruence.
  - rewrite poke_rp_none by assumption. assumption.
Qed.

(* delivering (and removing from the queue) one queued datagram *)
Lemma CInv_deliver cf s d rest : CInv s -> In d (s_net s) -> (forall x, In x rest -> In x (s_net s)) ->
  CInv (deliver_dgram cf (set_net s rest) d).
Proof.
  intros (HS & HN & HA) Hd Hrest.
  assert (Hauth : auth_dg (s_log s) d).
  { pose proof (si_net s HS) as Hn. rewrite Forall_forall in Hn. auto. }
  assert (HS' : SInv (set_net s rest)).
  { apply SInv_set_net; [assumption|]. pose proof (si_net s HS) as Hn. rewrite Forall_forall in *. auto. }
  assert (HN' : NInv (deliver_dgram cf (set_net s rest) d)).
  { intros Hn. pose proof (deliver_dgram_rd cf (set_net s rest) d) as Hrd. cbn [s_rd set_net] in Hrd.
    destruct (s_rd s) as [r|] eqn:Er; [destruct Hrd as [r' Hr']; congruence|].
    destruct (HN Er) as [Hnet _]. rewrite Hnet in Hd. contradiction. }
  destruct (s_rp s) as [p|] eqn:Ep.
  2:{ split; [apply deliver_dgram_SInv; assumption|]. split; [exact HN'|].
      destruct HA as [A1 A2 A3].
      destruct (core_proj _ _ (deliver_dgram_core cf (set_net s rest) d)) as (C1 & C2 & _ & C4 & _).
      constructor; [rewrite C1, C4; exact A1|rewrite C2, C4; exact A2|].
      rewrite (deliver_dgram_rp_none cf (set_net s rest) d Ep). exact I. }
  assert (Hndg : ndg (rp_fr p) (s_last s) (hr_of s) d).
  { pose proof (a_rp s HA) as H3. rewrite Ep in H3. destruct H3 as (_ & _ & _ & D & _).
    rewrite Forall_forall in D. auto. }
  split; [apply deliver_dgram_SInv; assumption|]. split.
  - exact HN'.
  - eapply (proj1 (AInv_deliver_dgram cf (set_net s rest) d p HS' (AInv_set_net s rest HA Hrest) Ep Hndg Hauth)).
Qed.

Lemma CInv_deliver_noproxy cf s d : CInv s -> s_rp s = None -> auth_dg (s_log s) d -> CInv (deliver_dgram cf s d).
Proof.
  intros (HS & HN & HA) Ep Hauth. split; [apply deliver_dgram_SInv; assumption|]. split.
  - intros Hn. pose proof (deliver_dgram_rd cf s d) as Hrd.
    destruct (s_rd s) as [r|] eqn:Er; [destruct Hrd as [r' Hr']; congruence|].
    destruct (HN Er) as [Hnet _].
    rewrite (deliver_dgram_rp_none cf s d Ep). split; [|reflexivity].
    unfold deliver_dgram. destruct (dg_toR d).
    + destruct (s_rdead s); [assumption|]. rewrite Er. assumption.
    + clear Hn Hrd. revert s Ep Hnet HS HN HA Hauth Er. induction (dg_subs d) as [|m t IH]; intros s Ep Hnet HS HN HA Hauth Er; cbn [fold_left]; [assumption|].
      assert (Hs : deliver_sub_W cf s m = s) by (unfold deliver_sub_W; rewrite Ep; reflexivity).
      rewrite Hs. apply IH; assumption.
  - destruct HA as [A1 A2 A3].
    destruct (core_proj _ _ (deliver_dgram_core cf s d)) as (C1 & C2 & _ & C4 & _).
    constructor; [rewrite C1, C4; exact A1|rewrite C2, C4; exact A2|].
    rewrite (deliver_dgram_rp_none cf s d Ep). exact I.
Qed.

Lemma hr_of_deliver_mono cf s d rest p : CInv s -> s_rp s = Some p -> In d (s_net s) -> (forall x, In x rest -> In x (s_net s)) ->
  hro_le (hr_of s) (hr_of (deliver_dgram cf (set_net s rest) d)).
Proof.
  intros (HS & HN & HA) Ep Hd Hrest.
  assert (Hauth : auth_dg (s_log s) d).
  { pose proof (si_net s HS) as Hn. rewrite Forall_forall in Hn. auto. }
  assert (HS' : SInv (set_net s rest)).
  { apply SInv_set_net; [assumption|]. pose proof (si_net s HS) as Hn. rewrite Forall_forall in *. auto. }
  assert (Hndg : ndg (rp_fr p) (s_last s) (hr_of s) d).
  { pose proof (a_rp s HA) as H3. rewrite Ep in H3. destruct H3 as (_ & _ & _ & D & _).
    rewrite Forall_forall in D. auto. }
  change (hr_of s) with (hr_of (set_net s rest)).
  eapply AInv_deliver_dgram; [exact HS'|apply AInv_set_net; assumption|exact Ep|exact Hndg|exact Hauth].
Qed.

Lemma hr_of_poke cf s : hr_of (poke cf s) = hr_of s.
Proof. unfold poke. destruct (s_rp s); [|reflexivity]. destruct (write_message _ _ _ _). reflexivity. Qed.

Lemma CInv_pump cf fuel : forall s n, CInv s -> CInv (fst (pump fuel cf s n)).
Proof.
  induction fuel as [|f IH]; intros s n H; cbn [pump]; [assumption|].
  destruct (s_net s) as [|d t] eqn:En; [assumption|].
  apply IH. apply CInv_poke. apply CInv_deliver; [assumption|rewrite En; left; reflexivity|].
  intros x Hx. rewrite En. right. assumption.
Qed.

Lemma CInv_set_waits s w : CInv s -> CInv (set_waits s w).
Proof.
  intros (HS & HN & [A1 A2 A3]). split; [apply SInv_set_waits; assumption|]. split; [exact HN|].
  constructor; assumption.
Qed.

(* replacing the reader by one with the same writer proxy, reliability and presented list *)
Lemma CInv_same_reader s r r' : CInv s -> s_rd s = Some r ->
  rd_wp r' = rd_wp r -> rd_rel r' = rd_rel r -> rd_pres r' = rd_pres r -> CInv (set_rd s (Some r')).
Proof.
  intros (HS & HN & HA) Er E1 E2 E3. split; [|split].
  - apply SInv_set_rd; [assumption|]. pose proof (si_rd s HS) as Hr. rewrite Er in Hr.
    unfold ARInv, RInv in *. rewrite E1, E3. exact Hr.
  - intros Hn. cbn in Hn. discriminate.
  - destruct HA as [A1 A2 A3]. constructor; cbn; try assumption.
    destruct (s_rp s) as [p|]; [|exact I]. destruct A3 as (B1 & B2 & B3 & B4 & B5).
    split; [assumption|]. split; [assumption|]. split; [assumption|].
    unfold hr_of, ROk in *. cbn. rewrite Er in B4, B5. rewrite E1, E2, E3. split; assumption.
Qed.

Lemma CInv_del s dead ws :
  CInv s ->
  CInv (mkSt (s_now s) (s_changes s) (s_last s) (s_inst s) (s_log s) None false ws (kill_reader (s_rd s))
             dead (s_net s)).
Proof.
  intros (HS & HN & HA). split; [|split].
  - pose proof (si_rd s HS) as Hr. destruct HS as [S1 S2 S3 S4 S5]. constructor; cbn; try assumption.
    destruct (s_rd s) as [r|]; cbn; [exact Hr|exact I].
  - intros Hn. cbn in *. destruct (s_rd s) as [r|] eqn:Er; [discriminate|]. destruct (HN Er) as [A _]. tauto.
  - destruct HA as [A1 A2 A3]. constructor; cbn; try assumption. exact I.
Qed.

Lemma CInv_act cf s a : depth cf = 0 -> not_remove a = true -> CInv s -> CInv (fst (act cf s a)).
Proof.
  intros Hdepth Hnr H. pose proof H as (HS & HN & HA).
  assert (Keep : forall s', SInv s' -> NInv s' -> AInv s' -> CInv s') by (intros; split; [|split]; assumption).
  destruct a; cbn [act]; try discriminate.
  - (* AWrite *)
    pose proof (do_write_SInv cf s key len sum HS) as HS1.
    pose proof (do_write_frame cf s key len sum) as (F1 & F2 & F3 & F4 & F5 & F6 & F7).
    pose proof (do_write_spec cf s key len sum) as Hw.
    destruct (do_write cf s key len sum) as [s1 code]. cbn [fst snd] in *.
    destruct Hw as [[-> _]|[chs1 (W1 & W2 & W3 & W4 & W5 & W6)]]; [assumption|].
    specialize (W6 Hdepth). subst chs1.
    apply Keep; [assumption| |].
    + intros Hn. rewrite F2 in Hn. destruct (HN Hn) as [A B]. rewrite F3, F1. tauto.
    + destruct HA as [A1 A2 A3]. destruct A2 as [A2 A2'].
      assert (Hc' : Contig (s_log s1) (s_last s1)).
      { split; [|lia]. rewrite W4, W3, sns_app, A2. cbn. rewrite zrange_snoc by assumption. reflexivity. }
      constructor; [rewrite W2, W4, A1; reflexivity|assumption|].
      rewrite F1. destruct (s_rp s) as [p|]; [|exact I]. destruct A3 as (B1 & B2 & B3 & B4 & B5).
      rewrite W3. split; [lia|]. split; [lia|]. split.
      { eapply Forall_impl; [|exact B3]. cbn. intros; lia. }
      split.
      { rewrite F3. unfold hr_of. rewrite F2. eapply Forall_impl; [|exact B4]. intros d.
        apply ndg_mono; [lia|]. fold (hr_of s). destruct (hr_of s); [lia|exact I]. }
      unfold ROk in *. rewrite F2. destruct (s_rd s) as [r|]; [|exact I]. destruct (rd_wp r) as [w|]; [|exact I].
      destruct B5 as (R1 & R2 & R3). split; [|split; [assumption|]].
      * destruct R1 as (X1 & X2 & X3 & X4). unfold RB. repeat split; try lia.
        rewrite W4. eapply Forall_impl; [|exact X4]. cbn. intros; apply in_or_app; auto.
      * intros Hr. destruct (R3 Hr) as [[Y1 Y2] Y3]. split; [|assumption]. split; [assumption|].
        intros c Hc Hrange. rewrite W4 in Hc. apply in_app_or in Hc. destruct Hc as [Hc|[<-|[]]]; [apply Y2; assumption|].
        cbn in Hrange. destruct R1 as (X1 & _). lia.
  - (* ATick *) apply Keep.
    + destruct HS as [S1 S2 S3 S4 S5]. constructor; cbn; assumption.
    + intros Hn. cbn in *. apply HN. assumption.
    + destruct HA as [A1 A2 A3]. constructor; cbn; assumption.
  - (* ADeliver *) destruct (nth_error (s_net s) i) as [d|] eqn:E; [|assumption]. cbn [fst].
    apply CInv_deliver; [assumption|eapply nth_error_In; eassumption|intros x Hx; eapply remove_nth_in; exact Hx].
  - (* ADrop *) destruct (nth_error (s_net s) i) as [d|] eqn:E; [|assumption]. cbn [fst].
    apply Keep.
    + apply SInv_set_net; [assumption|]. apply Forall_remove_nth. apply (si_net s HS).
    + intros Hn. cbn in *. destruct (HN Hn) as [A B]. rewrite A in E. destruct i; discriminate.
    + apply AInv_set_net; [assumption|intros x Hx; eapply remove_nth_in; exact Hx].
  - (* ADup *) destruct (nth_error (s_net s) i) as [d|] eqn:E; [|assumption]. cbn [fst].
    assert (H1 : CInv (poke cf (deliver_dgram cf (set_net s (remove_nth i (s_net s))) d))).
    { apply CInv_poke. apply CInv_deliver; [assumption|eapply nth_error_In; eassumption|intros x Hx; eapply remove_nth_in; exact Hx]. }
    (* the second copy: it satisfies the same constraints in the new state *)
    set (s2 := poke cf (deliver_dgram cf (set_net s (remove_nth i (s_net s))) d)) in *.
    destruct H1 as (HS2 & HN2 & HA2).
    assert (Hauth : auth_dg (s_log s2) d).
    { pose proof (si_net s HS) as Hn. rewrite Forall_forall in Hn. specialize (Hn d (nth_error_In _ _ E)).
      destruct (core_proj _ _ (poke_core cf (deliver_dgram cf (set_net s (remove_nth i (s_net s))) d))) as (_ & _ & _ & L1 & _).
      destruct (core_proj _ _ (deliver_dgram_core cf (set_net s (remove_nth i (s_net s))) d)) as (_ & _ & _ & L2 & _).
      unfold s2. rewrite L1, L2. exact Hn. }
    destruct (s_rp s) as [p|] eqn:Ep.
    2:{ apply CInv_deliver_noproxy; [split; [|split]; assumption| |assumption].
        unfold s2. rewrite poke_rp_none; apply deliver_dgram_rp_none; exact Ep. }
    destruct (deliver_dgram_rp cf (set_net s (remove_nth i (s_net s))) d p Ep) as [q [Hq Hqs]].
    destruct (poke_rp_some cf _ q Hq) as [q2 [Hq2 Hqs2]]. fold s2 in Hq2.
    assert (Hfr2 : rp_fr q2 = rp_fr p).
    { apply static_fr in Hqs. apply static_fr in Hqs2. destruct Hqs as [X1 _]. destruct Hqs2 as [X2 _]. congruence. }
    assert (Hlast2 : s_last s2 = s_last s).
    { destruct (core_proj _ _ (poke_core cf (deliver_dgram cf (set_net s (remove_nth i (s_net s))) d))) as (_ & L1 & _).
      destruct (core_proj _ _ (deliver_dgram_core cf (set_net s (remove_nth i (s_net s))) d)) as (_ & L2 & _).
      unfold s2. rewrite L1, L2. reflexivity. }
    assert (Hndg : ndg (rp_fr q2) (s_last s2) (hr_of s2) d).
    { pose proof (a_rp s HA) as H3. rewrite Ep in H3. destruct H3 as (_ & _ & _ & D & _).
      rewrite Forall_forall in D. specialize (D d (nth_error_In _ _ E)). rewrite Hfr2, Hlast2.
      eapply ndg_mono; [apply Z.le_refl| |exact D].
      unfold s2. rewrite hr_of_poke.
      apply (hr_of_deliver_mono cf s d (remove_nth i (s_net s)) p H Ep (nth_error_In _ _ E)).
      intros x Hx; eapply remove_nth_in; exact Hx. }
    apply Keep.
    + apply deliver_dgram_SInv; assumption.
    + intros Hn. pose proof (deliver_dgram_rd cf s2 d) as Hrd. destruct (s_rd s2) as [r2|] eqn:Er2; [destruct Hrd as [r' Hr']; congruence|].
      destruct (HN2 Er2) as [_ Hp2]. congruence.
    + eapply (proj1 (AInv_deliver_dgram cf s2 d q2 HS2 HA2 Hq2 Hndg Hauth)).
  - (* APump *) pose proof (CInv_pump cf pump_fuel s 0 H) as Hp.
    destruct (pump pump_fuel cf s 0) as [s1 n]. exact Hp.
  - (* ATake *) destruct (s_rd s) as [r|] eqn:Er; [|assumption]. destruct (rd_alive r); [|assumption]. cbn [fst].
    apply CInv_same_reader with (r := r); try assumption; reflexivity.
  - (* AMatch *) destruct (s_rd s) as [r|] eqn:Er; [assumption|].
    destruct (HN Er) as [Hnet Ep]. rewrite Ep. rewrite orb_false_r.
    destruct (s_rdead s); [assumption|].
    destruct (rxo_ok cf rel tl); cbn [fst].
    + apply CInv_poke. destruct HA as [A1 A2 A3]. apply Keep.
      * destruct HS as [S1 S2 S3 S4 S5]. constructor; cbn; try assumption.
        unfold ARInv, RInv, WOk; cbn. repeat split; constructor.
      * intros Hn. cbn in Hn. discriminate.
      * constructor; cbn; try assumption.
        assert (Hfr : 0 <= (if tl then 0 else last_sn (s_changes s)) <= s_last s).
        { destruct tl; [destruct A2; lia|]. rewrite A1, (contig_last _ _ A2). destruct A2; lia. }
        split; [exact Hfr|]. split; [destruct A2; lia|]. split; [constructor|]. split; [rewrite Hnet; constructor|].
        unfold ROk, RB, RCrel, Complete; cbn. destruct A2 as [_ A2].
        repeat split; try lia; try constructor.
    + apply Keep.
      * destruct HS as [S1 S2 S3 S4 S5]. constructor; cbn; try assumption. reflexivity.
      * intros Hn. cbn in Hn. discriminate.
      * destruct HA as [A1 A2 A3]. constructor; cbn; try assumption. rewrite Ep. exact I.
  - (* ADelReader *) apply CInv_del; assumption.
  - (* ADelPart *) apply CInv_del; assumption.
  - (* AWfa *) destruct (is_acked (s_rp s) (s_last s)); cbn [fst]; apply CInv_set_waits; assumption.
  - (* AWfaPoll *) destruct (poll (s_waits s)). cbn [fst]. apply CInv_set_waits; assumption.
  - (* AWfh *) destruct (s_rd s) as [r|] eqn:Er; [|assumption]. destruct (negb (rd_alive r)); [assumption|].
    destruct (negb (rd_tl r)); [assumption|].
    destruct (hist_received (rd_wp r)); cbn [fst]; apply CInv_same_reader with (r := r); try assumption; reflexivity.
  - (* AWfhPoll *) destruct (s_rd s) as [r|] eqn:Er; [|assumption]. destruct (poll (rd_hwaits r)). cbn [fst].
    apply CInv_same_reader with (r := r); try assumption; reflexivity.
  - assumption.
  - assumption.
Qed.

Lemma CInv_step cf s a : depth cf = 0 -> not_remove a = true -> CInv s -> CInv (fst (step cf s a)).
Proof.
  intros Hd Hn H. unfold step. pose proof (CInv_act cf s a Hd Hn H) as Ha.
  destruct (act cf s a) as [s1 o]. cbn [fst] in *. apply CInv_poke. assumption.
Qed.

Lemma CInv_run cf l : depth cf = 0 -> forallb not_remove l = true -> forall s, CInv s -> CInv (run cf s l).
Proof.
  intros Hd. induction l as [|a t IH]; intros Hn s H; [exact H|]. cbn in Hn. apply andb_prop in Hn.
  destruct Hn as [Ha Ht]. rewrite run_cons. apply IH; [assumption|]. apply CInv_step; assumption.
Qed.

Lemma CInv_init : CInv init.
Proof.
  split; [apply init_SInv|]. split; [apply init_NInv|]. constructor; cbn; [reflexivity| |exact I].
  split; [reflexivity|lia].
Qed.

(* ------------------------------------------------------------------ wait_for_acknowledgments is sound *)
(* every RELIABLE matched reader (that still exists) has every change the writer holds and that is
   relevant for it *)

Lemma CInv_acked_delivered s : CInv s -> ackd s = true -> delivered s.
Proof.
  intros (HS & HN & [A1 A2 A3]) Hack p r w Ep Hrel Er Ew c Hc Hlt.
  unfold ackd, is_acked in Hack. rewrite Ep in *. rewrite Hrel in Hack. cbn in Hack.
  apply negb_true_iff in Hack. apply Z.ltb_ge in Hack.
  destruct A3 as (_ & _ & _ & _ & B5). unfold ROk in B5. rewrite Er, Ew in B5.
  destruct B5 as (R1 & R2 & R3). rewrite Hrel in R2. destruct (R3 R2) as [[_ Hcomp] Hha].
  rewrite A1 in Hc. apply Hcomp; [assumption|].
  pose proof (log_sn_bound _ _ c A2 Hc). lia.
Qed.

(* the test performed by wait_for_acknowledgments itself *)
Theorem wfa_sound_immediate cf l : depth cf = 0 -> forallb not_remove l = true ->
  let s := run cf init l in ackd s = true -> delivered s.
Proof.
  intros Hd Hn s Ha. apply CInv_acked_delivered; [|assumption]. apply CInv_run; [assumption|assumption|apply CInv_init].
Qed.

(* waiters parked earlier are answered while an ACKNACK is processed: at the end of that step the
   acknowledgement test holds as well *)
Definition Mono (s s' : state) : Prop :=
  (ackd s = true -> ackd s' = true) /\ (npend s' <= npend s)%nat /\ ((npend s' < npend s)%nat -> ackd s' = true).

Lemma Mono_refl s : Mono s s.
Proof. unfold Mono. repeat split; auto; lia. Qed.
Lemma Mono_trans a b c : Mono a b -> Mono b c -> Mono a c.
Proof.
  intros (A1 & A2 & A3) (B1 & B2 & B3). unfold Mono. repeat split; auto; try lia.
  intros H. destruct (Nat.lt_ge_cases (npend b) (npend a)) as [Hl|Hg]; [apply B1, A3; assumption|apply B3; lia].
Qed.

Lemma unsent_rel_ha fuel cf now chs : forall p acc, rp_ha (fst (unsent_rel fuel cf now chs p acc)) = rp_ha p.
Proof.
  induction fuel as [|f IH]; intros p acc; cbn [unsent_rel]; [reflexivity|].
  destruct (next_unsent p chs) as [n|]; [|reflexivity].
  destruct (rp_hs p + 1 <? n); [unfold gen_hb; rewrite IH; reflexivity|].
  destruct (lookup_relevant p n chs) as [c|]; [|rewrite IH; reflexivity].
  unfold gen_hb. destruct (1 <? nfrags cf c); rewrite IH; reflexivity.
Qed.
Lemma req_loop_ha fuel cf now chs : forall p acc, rp_ha (fst (req_loop fuel cf now chs p acc)) = rp_ha p.
Proof.
  induction fuel as [|f IH]; intros p acc; cbn [req_loop]; [reflexivity|].
  destruct (zmin_list (rp_req p)) as [n|]; [|reflexivity].
  match goal with |- context [lookup_relevant ?q n chs] => destruct (lookup_relevant q n chs) as [c|] end.
  - unfold gen_hb. destruct (1 <? nfrags cf c); rewrite IH; reflexivity.
  - rewrite IH. reflexivity.
Qed.
Lemma write_rel_ha cf now chs p : rp_ha (fst (write_rel cf now chs p)) = rp_ha p.
Proof.
  unfold write_rel.
  match goal with |- context [let '(p1, out1) := ?X in _] => destruct X as [p1 out1] eqn:E1 end.
  rewrite req_loop_ha.
  destruct (next_unsent p chs).
  - replace p1 with (fst (unsent_rel (S (2 * length chs)) cf now chs p [])) by (rewrite E1; reflexivity).
    apply unsent_rel_ha.
  - destruct (negb _); [inversion E1; reflexivity|].
    destruct (time_for_hb p now); unfold gen_hb in E1; inversion E1; reflexivity.
Qed.
Lemma write_be_ha fuel cf chs : forall p acc, rp_ha (fst (write_be_loop fuel cf chs p acc)) = rp_ha p.
Proof.
  induction fuel as [|f IH]; intros p acc; cbn [write_be_loop]; [reflexivity|].
  destruct (next_unsent p chs) as [n|]; [|reflexivity].
  destruct (rp_hs p + 1 <? n); [rewrite IH; reflexivity|].
  destruct (lookup_relevant p n chs) as [c|]; [|rewrite IH; reflexivity].
  destruct (1 <? nfrags cf c); rewrite IH; reflexivity.
Qed.
Lemma write_message_ha cf now chs p : rp_ha (fst (write_message cf now chs p)) = rp_ha p.
Proof. unfold write_message. destruct (rp_rel p); [apply write_rel_ha|apply write_be_ha]. Qed.

Lemma is_acked_mono p q last : rp_rel q = rp_rel p -> rp_ha p <= rp_ha q ->
  is_acked (Some p) last = true -> is_acked (Some q) last = true.
Proof.
  unfold is_acked. intros -> Hle H. destruct (rp_rel p); [|reflexivity]. cbn in *.
  apply negb_true_iff in H. apply Z.ltb_ge in H. apply negb_true_iff. apply Z.ltb_ge. lia.
Qed.

Lemma Mono_poke cf s : Mono s (poke cf s).
Proof.
  unfold poke. destruct (s_rp s) as [p|] eqn:Ep; [|apply Mono_refl].
  pose proof (write_message_ha cf (s_now s) (s_changes s) p) as Hha.
  pose proof (write_message_static cf (s_now s) (s_changes s) p) as Hs.
  destruct (write_message cf (s_now s) (s_changes s) p) as [p1 out]. cbn [fst] in *.
  apply static_fr in Hs. destruct Hs as (_ & Hrel & _).
  unfold Mono, ackd, npend; cbn. rewrite Ep. repeat split; try lia.
  apply is_acked_mono; [assumption|lia].
Qed.

Lemma npend_drain l : length (filter (fun w => match w with WPending => true | _ => false end) (drain l)) = 0%nat.
Proof. induction l as [|x t IH]; [reflexivity|]. cbn. destruct x; cbn; assumption. Qed.

Lemma Mono_deliver_sub_W cf s m : Mono s (deliver_sub_W cf s m).
Proof.
  unfold deliver_sub_W. destruct (s_rp s) as [p|] eqn:Ep; [|apply Mono_refl].
  destruct m; try apply Mono_refl.
  - unfold on_acknack. destruct (rp_rel p && (rp_an p <? count)) eqn:Eacc.
    + set (p1 := mkRP (rp_rel p) (rp_tl p) (rp_hs p) (if rp_ha p <? base - 1 then base - 1 else rp_ha p)
                    (req_add (rp_req p) set) (rp_fr p) count (rp_nf p) (rp_hbc p) (rp_hbt p)).
      pose proof (write_rel_ha cf (s_now s) (s_changes s) p1) as Hha.
      pose proof (write_rel_static cf (s_now s) (s_changes s) p1) as Hs.
      destruct (write_rel cf (s_now s) (s_changes s) p1) as [p2 out]. cbn [fst] in *.
      apply static_fr in Hs. destruct Hs as (_ & Hrel & _). cbn in Hrel, Hha.
      assert (Hmono : is_acked (Some p) (s_last s) = true -> is_acked (Some p2) (s_last s) = true).
      { apply is_acked_mono; [assumption|]. rewrite Hha. destruct (Z.ltb_spec (rp_ha p) (base - 1)); lia. }
      cbn [andb]. destruct (is_acked (Some p2) (s_last s)) eqn:Ea.
      * unfold Mono, ackd, npend; cbn. rewrite Ep. rewrite npend_drain. repeat split; auto; lia.
      * unfold Mono, ackd, npend; cbn. rewrite Ep. repeat split; intros; try lia. specialize (Hmono H). discriminate.
    + cbn [andb]. unfold Mono, ackd, npend; cbn. rewrite Ep. repeat split; auto; lia.
  - pose proof (on_nackfrag_static cf (s_changes s) p sn base set count) as Hs.
    assert (Hha : rp_ha (fst (on_nackfrag cf (s_changes s) p sn base set count)) = rp_ha p).
    { unfold on_nackfrag. destruct (rp_rel p && _); [|reflexivity]. destruct (find_change sn (s_changes s)); reflexivity. }
    destruct (on_nackfrag cf (s_changes s) p sn base set count) as [p1 out]. cbn [fst] in *.
    apply static_fr in Hs. destruct Hs as (_ & Hrel & _).
    unfold Mono, ackd, npend; cbn. rewrite Ep. repeat split; try lia. apply is_acked_mono; [assumption|lia].
Qed.

Lemma Mono_deliver_dgram cf s d : Mono s (deliver_dgram cf s d).
Proof.
  unfold deliver_dgram. destruct (dg_toR d).
  - destruct (s_rdead s); [apply Mono_refl|]. destruct (s_rd s) as [r|]; [|apply Mono_refl].
    destruct (rd_alive r); [|apply Mono_refl].
    destruct (deliver_subs_R _ _ _ _). unfold Mono, ackd, npend; cbn. repeat split; auto; lia.
  - generalize s. induction (dg_subs d) as [|m t IH]; intros s0; cbn [fold_left]; [apply Mono_refl|].
    eapply Mono_trans; [apply Mono_deliver_sub_W|apply IH].
Qed.

Lemma Mono_set_net s n : Mono s (set_net s n).
Proof. unfold Mono, ackd, npend; cbn. repeat split; auto; lia. Qed.

Lemma Mono_pump cf fuel : forall s n, Mono s (fst (pump fuel cf s n)).
Proof.
  induction fuel as [|f IH]; intros s n; cbn [pump]; [apply Mono_refl|].
  destruct (s_net s) as [|d t]; [apply Mono_refl|].
  eapply Mono_trans; [|apply IH].
  eapply Mono_trans; [|apply Mono_poke]. eapply Mono_trans; [apply (Mono_set_net s t)|apply Mono_deliver_dgram].
Qed.

(* if a parked waiter is answered during a step, the acknowledgement test holds after the step *)
Lemma step_answered_acked cf s a :
  (npend (fst (step cf s a)) < npend s)%nat -> ackd (fst (step cf s a)) = true.
Proof.
  unfold step.
  assert (H : (npend (fst (act cf s a)) < npend s)%nat -> ackd (fst (act cf s a)) = true).
  { destruct a; cbn [act].
    - pose proof (do_write_frame cf s key len sum) as (F1 & F2 & F3 & F4 & F5 & F6 & F7).
      destruct (do_write cf s key len sum) as [s1 code]. cbn [fst] in *. unfold npend. rewrite F6. lia.
    - unfold npend; cbn. lia.
    - unfold npend; cbn. lia.
    - destruct (nth_error (s_net s) i); [|cbn; lia]. cbn [fst].
      apply (Mono_trans _ _ _ (Mono_set_net s _) (Mono_deliver_dgram cf _ d)).
    - destruct (nth_error (s_net s) i); unfold npend; cbn; lia.
    - destruct (nth_error (s_net s) i); [|cbn; lia]. cbn [fst].
      refine (proj2 (proj2 (Mono_trans _ _ _ (Mono_set_net s _)
                (Mono_trans _ _ _ (Mono_deliver_dgram cf _ d) (Mono_trans _ _ _ (Mono_poke cf _) (Mono_deliver_dgram cf _ d)))))).
    - pose proof (Mono_pump cf pump_fuel s 0) as Hm. destruct (pump pump_fuel cf s 0) as [s1 n]. apply Hm.
    - destruct (s_rd s) as [r|]; [destruct (rd_alive r)|]; unfold npend; cbn; lia.
    - destruct (s_rd s); [cbn; lia|]. destruct (s_rdead s || _); [cbn; lia|].
      destruct (rxo_ok cf rel tl); cbn [fst]; [|unfold npend; cbn; lia].
      match goal with |- (npend (poke cf ?st) < _)%nat -> _ =>
        intros Hlt; pose proof (Mono_poke cf st) as (_ & _ & M3); assert (Heq : npend st = npend s) by reflexivity end.
      apply M3. lia.
    - unfold npend; cbn. lia.
    - unfold npend; cbn. lia.
    - destruct (is_acked (s_rp s) (s_last s)); unfold npend; cbn; rewrite filter_app, app_length; cbn; lia.
    - destruct (poll (s_waits s)) as [w o] eqn:Ep. cbn [fst]. unfold npend; cbn.
      unfold poll in Ep. inversion Ep; subst.
      assert (forall l, length (filter (fun w => match w with WPending => true | _ => false end)
                 (map (fun w => match w with WDone => WReported | x => x end) l)) =
              length (filter (fun w => match w with WPending => true | _ => false end) l)).
      { induction l as [|x t IH]; [reflexivity|]. cbn. destruct x; cbn; lia. }
      rewrite H. lia.
    - destruct (s_rd s) as [r|]; [|cbn; lia]. destruct (negb (rd_alive r)); [cbn; lia|].
      destruct (negb (rd_tl r)); [cbn; lia|]. destruct (hist_received _); unfold npend; cbn; lia.
    - destruct (s_rd s) as [r|]; [|cbn; lia]. destruct (poll (rd_hwaits r)). unfold npend; cbn; lia.
    - cbn; lia.
    - cbn; lia. }
  destruct (act cf s a) as [s1 o]. cbn [fst] in *. intros Hlt.
  pose proof (Mono_poke cf s1) as (M1 & M2 & M3).
  destruct (Nat.lt_ge_cases (npend s1) (npend s)) as [Hl|Hg]; [apply M1, H; assumption|apply M3; lia].
Qed.

Theorem wfa_sound_notified cf l a : depth cf = 0 -> forallb not_remove (l ++ [a]) = true ->
  let s := run cf init l in let s' := fst (step cf s a) in
  (npend s' < npend s)%nat -> delivered s'.
Proof.
  intros Hd Hn s s' Hlt.
  assert (Hs' : s' = run cf init (l ++ [a])) by (rewrite run_app; fold s; rewrite run_cons; reflexivity).
  apply CInv_acked_delivered.
  - rewrite Hs'. apply CInv_run; [assumption|assumption|apply CInv_init].
  - apply step_answered_acked. assumption.
Qed.

Lemma CInv_deliver_sub_W cf s m : CInv s ->
  (forall p, s_rp s = Some p -> nsub (rp_fr p) (s_last s) (hr_of s) m) -> CInv (deliver_sub_W cf s m).
Proof.
  intros (HS & HN & HA) Hm. destruct (s_rp s) as [p|] eqn:Ep.
  - split; [apply deliver_sub_W_SInv; assumption|]. split.
    + intros Hn. rewrite deliver_sub_W_rd in Hn. destruct (HN Hn) as [_ Hp]. congruence.
    + eapply AInv_deliver_sub_W; [assumption|exact Ep|apply Hm; reflexivity].
  - assert (Hs : deliver_sub_W cf s m = s) by (unfold deliver_sub_W; rewrite Ep; reflexivity).
    rewrite Hs. split; [|split]; assumption.
Qed.
