(* C13 — Discovery data round-trips through its parameter-list encoding.
   Property file: statements, `exact`, non-vacuity examples, assumptions.

   Vocabulary (all in Disc/PlModel.v and Disc/DiscModel.v, definitions only):
     tbl_into_bytes wt r / tbl_from_bytes rt build d   table-driven into_bytes / from_bytes
     table_ok wt r      distinct valid pids, position-independent value writers, and
                        tbl_fits wt r: every emitted value is <= 65535 bytes once padded to 4
     rows_read_back     every read row gives its field back from the values emitted under its pid
     params_bytes be ps wire bytes of the parameters ps = [(pid, value); ...], big endian if be
     item_ok (pid, v)   pid is an i16 other than PID_SENTINEL, blen v <= 65535
     wf_topic / wf_dwriter / wf_dreader / wf_participant   what the Rust types guarantee, plus
                        consistency of the fields that are NOT transmitted
     TI, ti_w, ti_dec   TypeInformation and its XCDR2 codec: abstract (property C09) *)
From DustDDS Require Import Base.Machine Disc.PlModel Disc.DiscModel Disc.DiscCorr Disc.PlProofs Disc.DiscProofs
  Disc.DiscTotProofs Disc.DiscCorrProofs.
Open Scope Z_scope.

(* ------------------------------------------------------------------ the wire format *)
(* write_cdr_parameter appends pid, `length as u16`, the value and zero padding to a multiple of 4 *)
Theorem C13_write_parameter_shape : forall buf pid (w : wr),
  blen buf mod 4 = 0 ->
  write_cdr_parameter buf pid w
  = buf ++ le_bytes 2 (wrap_u16 pid) ++ le_bytes 2 (wrap_u16 (blen (padv (w (blen buf + 4))))) ++ padv (w (blen buf + 4)).
Proof. exact write_cdr_parameter_eq. Qed.

(* into_bytes = encapsulation header, the parameters of the table in order, sentinel *)
Theorem C13_into_bytes_shape : forall (R : Type) (wt : list (wrow R)) (r : R),
  (forall row v, In row wt -> In v (w_emit row r) -> periodic v) ->
  tbl_into_bytes wt r = PL_HEADER ++ params_bytes false (items_of wt r) ++ [1; 0; 0; 0].
Proof. exact @tbl_into_bytes_eq. Qed.

(* PidIterator::next yields exactly that parameter back when its length fits 16 bits, in either endianness *)
Theorem C13_iterator_reads_parameter : forall be pid v rest,
  pid_ok pid -> blen v <= 65535 -> pl_next be (param_bytes be pid v ++ rest) = PItem pid v rest.
Proof. exact pl_next_param. Qed.

(* ------------------------------------------------------------------ generic theorems *)
Theorem C13_pl_roundtrip :
  forall (R : Type) (wt : list (wrow R)) (rt : list rrow) (build : tuple_of rt -> R) (r : R) (t : tuple_of rt),
    table_ok wt r -> rows_read_back wt r rt t ->
    tbl_from_bytes rt build (tbl_into_bytes wt r) = Ok (build t).
Proof. exact @pl_roundtrip. Qed.

(* a received list = 4-byte header hdr (its second byte selects the endianness be), any prefix ps
   of well-formed parameters, then anything (tail): inserting an unknown parameter u after ps does
   not change the result *)
Theorem C13_unknown_pids_ignored :
  forall (R : Type) (rt : list rrow) (build : tuple_of rt -> R) (be : bool) (hdr : bytes)
         (ps : list (Z * bytes)) (u : Z * bytes) (tail : bytes),
    blen hdr = 4 -> hdr_endianness (pl_hdr hdr) = Ok be -> Forall item_ok ps -> item_ok u ->
    ~ In (fst u) (map r_pid rt) ->
    tbl_from_bytes rt build (hdr ++ params_bytes be (ps ++ [u]) ++ tail)
    = tbl_from_bytes rt build (hdr ++ params_bytes be ps ++ tail).
Proof. exact @unknown_pids_ignored_tbl. Qed.

Theorem C13_decode_total_generic :
  forall (R : Type) (rt : list rrow) (build : tuple_of rt -> R),
    Forall (fun row => reader_total (r_reader row)) rt -> forall d p, tbl_from_bytes rt build d <> Panic p.
Proof. exact @tbl_from_bytes_total. Qed.

(* ------------------------------------------------------------------ the four discovery data kinds *)
Theorem C13_topic_roundtrip :
  forall (TI : Type) (ti_w : TI -> wr) (ti_dec : xdec TI),
    (forall t tail, ti_dec false (ti_w t 0 ++ tail) = Ok (Some t)) ->
    (forall t pos k, ti_w t (pos + 4 * k) = ti_w t pos) ->
    forall r : topic TI,
      wf_topic TI r -> tbl_fits (topic_wtable TI ti_w) r -> res_limited_max (t_resource_limits TI r) = false ->
      topic_from_bytes TI ti_dec (topic_into_bytes TI ti_w r) = Ok r.
Proof. exact topic_roundtrip. Qed.

Theorem C13_publication_roundtrip :
  forall (TI : Type) (ti_w : TI -> wr) (ti_dec : xdec TI),
    (forall t tail, ti_dec false (ti_w t 0 ++ tail) = Ok (Some t)) ->
    (forall t pos k, ti_w t (pos + 4 * k) = ti_w t pos) ->
    forall r : dwriter TI,
      wf_dwriter TI r -> tbl_fits (dwriter_wtable TI ti_w) r ->
      dwriter_from_bytes TI ti_dec (dwriter_into_bytes TI ti_w r) = Ok r.
Proof. exact dwriter_roundtrip. Qed.

Theorem C13_subscription_roundtrip :
  forall (TI : Type) (ti_w : TI -> wr) (ti_dec : xdec TI),
    (forall t tail, ti_dec false (ti_w t 0 ++ tail) = Ok (Some t)) ->
    (forall t pos k, ti_w t (pos + 4 * k) = ti_w t pos) ->
    forall r : dreader TI,
      wf_dreader TI r -> tbl_fits (dreader_wtable TI ti_w) r ->
      dreader_from_bytes TI ti_dec (dreader_into_bytes TI ti_w r) = Ok r.
Proof. exact dreader_roundtrip. Qed.

Theorem C13_participant_roundtrip :
  forall r : participant,
    wf_participant r -> tbl_fits participant_wtable r ->
    participant_from_bytes (participant_into_bytes r) = Ok r.
Proof. exact participant_roundtrip. Qed.

(* unknown / vendor-specific parameters, inserted after any prefix ps of a received big- or
   little-endian list (hence anywhere before the sentinel), whatever follows (tail) *)
Theorem C13_topic_unknown_pids_ignored :
  forall (TI : Type) (ti_dec : xdec TI) be hdr ps u tail,
    blen hdr = 4 -> hdr_endianness (pl_hdr hdr) = Ok be -> Forall item_ok ps -> item_ok u ->
    ~ In (fst u) (map r_pid (topic_rtable TI ti_dec)) ->
    topic_from_bytes TI ti_dec (hdr ++ params_bytes be (ps ++ [u]) ++ tail)
    = topic_from_bytes TI ti_dec (hdr ++ params_bytes be ps ++ tail).
Proof. exact topic_unknown_pids_ignored. Qed.
Theorem C13_publication_unknown_pids_ignored :
  forall (TI : Type) (ti_dec : xdec TI) be hdr ps u tail,
    blen hdr = 4 -> hdr_endianness (pl_hdr hdr) = Ok be -> Forall item_ok ps -> item_ok u ->
    ~ In (fst u) (map r_pid (dwriter_rtable TI ti_dec)) ->
    dwriter_from_bytes TI ti_dec (hdr ++ params_bytes be (ps ++ [u]) ++ tail)
    = dwriter_from_bytes TI ti_dec (hdr ++ params_bytes be ps ++ tail).
Proof. exact dwriter_unknown_pids_ignored. Qed.
Theorem C13_subscription_unknown_pids_ignored :
  forall (TI : Type) (ti_dec : xdec TI) be hdr ps u tail,
    blen hdr = 4 -> hdr_endianness (pl_hdr hdr) = Ok be -> Forall item_ok ps -> item_ok u ->
    ~ In (fst u) (map r_pid (dreader_rtable TI ti_dec)) ->
    dreader_from_bytes TI ti_dec (hdr ++ params_bytes be (ps ++ [u]) ++ tail)
    = dreader_from_bytes TI ti_dec (hdr ++ params_bytes be ps ++ tail).
Proof. exact dreader_unknown_pids_ignored. Qed.
Theorem C13_participant_unknown_pids_ignored :
  forall be hdr ps u tail,
    blen hdr = 4 -> hdr_endianness (pl_hdr hdr) = Ok be -> Forall item_ok ps -> item_ok u ->
    ~ In (fst u) (map r_pid participant_rtable) ->
    participant_from_bytes (hdr ++ params_bytes be (ps ++ [u]) ++ tail)
    = participant_from_bytes (hdr ++ params_bytes be ps ++ tail).
Proof. exact participant_unknown_pids_ignored. Qed.
(* every vendor-specific pid (0x8000..0xffff, negative as i16) is unknown to all four decoders *)
Theorem C13_vendor_pids_are_unknown :
  forall (TI : Type) (ti_dec : xdec TI) pid, pid < 0 ->
    ~ In pid (map r_pid (topic_rtable TI ti_dec)) /\ ~ In pid (map r_pid (dwriter_rtable TI ti_dec))
    /\ ~ In pid (map r_pid (dreader_rtable TI ti_dec)) /\ ~ In pid (map r_pid participant_rtable).
Proof. exact vendor_pid_unknown. Qed.
(* so is every pid with the must-understand flag 0x4000 set (the readers compare the full 16-bit
   id; an unknown must-understand parameter is ignored like any other), except PID_DOMAIN_TAG
   (0x4014) itself for the participant *)
Theorem C13_must_understand_pids_are_unknown :
  forall (TI : Type) (ti_dec : xdec TI) pid, 16384 <= pid <= 32767 ->
    ~ In pid (map r_pid (topic_rtable TI ti_dec)) /\ ~ In pid (map r_pid (dwriter_rtable TI ti_dec))
    /\ ~ In pid (map r_pid (dreader_rtable TI ti_dec))
    /\ (pid <> PID_DOMAIN_TAG -> ~ In pid (map r_pid participant_rtable)).
Proof. exact must_understand_pid_unknown. Qed.

(* ------------------------------------------------------------------ decoders never panic (for C07) *)
Theorem C13_decode_total_topic :
  forall (TI : Type) (ti_dec : xdec TI), (forall be v p, ti_dec be v <> Panic p) ->
    forall d p, topic_from_bytes TI ti_dec d <> Panic p.
Proof. exact topic_from_bytes_total. Qed.
Theorem C13_decode_total_publication :
  forall (TI : Type) (ti_dec : xdec TI), (forall be v p, ti_dec be v <> Panic p) ->
    forall d p, dwriter_from_bytes TI ti_dec d <> Panic p.
Proof. exact dwriter_from_bytes_total. Qed.
Theorem C13_decode_total_subscription :
  forall (TI : Type) (ti_dec : xdec TI), (forall be v p, ti_dec be v <> Panic p) ->
    forall d p, dreader_from_bytes TI ti_dec d <> Panic p.
Proof. exact dreader_from_bytes_total. Qed.
Theorem C13_decode_total_participant : forall d p, participant_from_bytes d <> Panic p.
Proof. exact participant_from_bytes_total. Qed.

(* ------------------------------------------------------------------ regression of the two repaired defects *)
(* c095065: a PID_DOMAIN_TAG string of length 0 is InvalidData (it was a panic) *)
Theorem C13_zero_length_tag_is_an_error : participant_from_bytes witness_d14 = Err E_INVALID.
Proof. exact zero_length_tag_is_an_error. Qed.
(* 0c275fa: a big-endian participant announcement decodes (it was NotEnoughData: the header was
   read as PID_PARTICIPANT_LEASE_DURATION) *)
Theorem C13_big_endian_participant_decodes :
  exists r, participant_from_bytes witness_be_participant = Ok r
            /\ p_key r = witness_key /\ p_available_builtin_endpoints r = 805367871 /\ p_lease_duration r = (30, 5).
Proof. exact be_participant_decodes. Qed.

(* ------------------------------------------------------------------ the unconditional round trip is false *)
(* 70000 bytes of user data: the announcement decodes to a participant without user data *)
Theorem C13_u16_length_refutes_roundtrip :
  exists r, wf_participant r /\ tbl_fitsb participant_wtable r = false
            /\ exists r', participant_from_bytes (participant_into_bytes r) = Ok r' /\ p_user_data r' = [] /\ r' <> r.
Proof. exact participant_u16_truncation_witness. Qed.
(* Length::Limited(i32::MAX) is announced as LENGTH_UNLIMITED *)
Theorem C13_limited_max_refutes_roundtrip :
  exists r : topic unit,
    wf_topic unit r /\ tbl_fits (topic_wtable unit (fun _ => w_raw [])) r
    /\ res_limited_max (t_resource_limits unit r) = true
    /\ exists r', topic_from_bytes unit (fun _ _ => Err X_NED) (topic_into_bytes unit (fun _ => w_raw []) r) = Ok r'
                  /\ rs_ms (t_resource_limits unit r') = Unlimited /\ r' <> r.
Proof. exact (ex_intro _ witness_topic topic_limited_max_witness). Qed.

(* ------------------------------------------------------------------ the oracle of the correspondence run *)
(* the comparison applied to the implementation's decoded values accepts equal values only *)
Theorem C13_oracle_sound : forall a b : value, value_eqb a b = true -> a = b.
Proof. exact value_eqb_eq. Qed.

(* ------------------------------------------------------------------ non-vacuity *)
(* the hypotheses are met right at the 16-bit boundary: 65528 bytes of user data fit, 65529 do not *)
Example C13_nonvacuous_boundary :
  wf_participant (witness_participant (rep 0 65528)) /\ tbl_fits participant_wtable (witness_participant (rep 0 65528))
  /\ tbl_fitsb participant_wtable (witness_participant (rep 0 65529)) = false.
Proof. exact participant_boundary_fits. Qed.
(* and by a publication with non-default QoS, partitions (one empty, one non-ASCII), user data,
   a group entity id and a locator *)
Example C13_nonvacuous_publication :
  wf_dwriter unit example_dwriter /\ tbl_fits (dwriter_wtable unit (fun _ => w_raw [])) example_dwriter.
Proof. exact example_dwriter_meets_hypotheses. Qed.

Print Assumptions C13_write_parameter_shape.
Print Assumptions C13_iterator_reads_parameter.
Print Assumptions C13_pl_roundtrip.
Print Assumptions C13_unknown_pids_ignored.
Print Assumptions C13_decode_total_generic.
Print Assumptions C13_topic_roundtrip.
Print Assumptions C13_publication_roundtrip.
Print Assumptions C13_subscription_roundtrip.
Print Assumptions C13_participant_roundtrip.
Print Assumptions C13_topic_unknown_pids_ignored.
Print Assumptions C13_publication_unknown_pids_ignored.
Print Assumptions C13_subscription_unknown_pids_ignored.
Print Assumptions C13_participant_unknown_pids_ignored.
Print Assumptions C13_vendor_pids_are_unknown.
Print Assumptions C13_must_understand_pids_are_unknown.
Print Assumptions C13_decode_total_topic.
Print Assumptions C13_decode_total_publication.
Print Assumptions C13_decode_total_subscription.
Print Assumptions C13_decode_total_participant.
Print Assumptions C13_zero_length_tag_is_an_error.
Print Assumptions C13_big_endian_participant_decodes.
Print Assumptions C13_into_bytes_shape.
Print Assumptions C13_u16_length_refutes_roundtrip.
Print Assumptions C13_limited_max_refutes_roundtrip.
Print Assumptions C13_oracle_sound.
