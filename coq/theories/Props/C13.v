(* C13 — Discovery data round-trips through its parameter-list encoding. *)
From DustDDS Require Import Base.Machine Disc.PlModel Disc.DiscModel Disc.PlProofs.
Open Scope Z_scope.

Theorem C13_placeholder : forall l, 0 <= blen l.
Proof. exact blen_nonneg. Qed.

Print Assumptions C13_placeholder.
