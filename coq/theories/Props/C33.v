(* C33 — Each status change reaches exactly one listener, the most specific enabled one.
   Property file: statements, `exact`, pins, assumptions.
   Model: Sched/ListenerModel.v — one function per dispatch chain as coded
   (communication_methods.rs:306-372, discovery_methods.rs:313-455, 1162-1434, 1779-2040, 2596-2627;
   as of commits 8c56825, 1fc584d, 16b74b1).
     lcfg            one level: listener installed?, listener mask          en l k = mask enables k
     dispatch_X e g p   the calls (level, callback) the coded chain X makes for entity / publisher-or-
                     subscriber / participant configurations e g p
     spec_calls k e g p the rule: the most specific level whose mask enables k gets the callback (a level
                     without listener object has the nil listener: nothing is called), none if no mask enables k
     spec_data       data-on-readers on the subscriber when enabled there, else the rule for data-available *)
From DustDDS Require Import Base.Machine Sched.ListenerModel Sched.ListenerProofs.
Open Scope Z_scope.

(* ---- dispatch_eq_spec, chain by chain: for ALL listener/mask configurations of the three levels *)
Theorem C33_sample_rejected_eq_spec :
  forall r s p, dispatch_sample_rejected r s p = spec_calls KSR r s p.
Proof. exact sample_rejected_eq_spec. Qed.

Theorem C33_requested_deadline_missed_eq_spec :
  forall r s p, dispatch_requested_deadline_missed r s p = spec_calls KRDM r s p.
Proof. exact requested_deadline_missed_eq_spec. Qed.

Theorem C33_subscription_matched_eq_spec :
  forall r s p, dispatch_subscription_matched r s p = spec_calls KSM r s p.
Proof. exact subscription_matched_eq_spec. Qed.

Theorem C33_requested_incompatible_qos_eq_spec :
  forall r s p, dispatch_requested_incompatible_qos r s p = spec_calls KRIQ r s p.
Proof. exact requested_incompatible_qos_eq_spec. Qed.

Theorem C33_offered_deadline_missed_eq_spec :
  forall w b p, dispatch_offered_deadline_missed w b p = spec_calls KODM w b p.
Proof. exact offered_deadline_missed_eq_spec. Qed.

Theorem C33_publication_matched_eq_spec :
  forall w b p, dispatch_publication_matched w b p = spec_calls KPM w b p.
Proof. exact publication_matched_eq_spec. Qed.

Theorem C33_offered_incompatible_qos_eq_spec :
  forall w b p, dispatch_offered_incompatible_qos w b p = spec_calls KOIQ w b p.
Proof. exact offered_incompatible_qos_eq_spec. Qed.

(* inconsistent topic: topic listener, else participant (the rule with an absent middle level) *)
Theorem C33_inconsistent_topic_eq_spec :
  forall t p, dispatch_inconsistent_topic t p =
    map (fun c => (match fst c with Group => Participant | w => w end, snd c)) (spec_calls KIT t no_l p).
Proof. exact inconsistent_topic_is_rule. Qed.

(* a lost match (the matched endpoint was deleted) runs the matched-status chain as well *)
Theorem C33_publication_unmatched_eq_spec :
  forall w b p, dispatch_publication_unmatched w b p = spec_calls KPM w b p.
Proof. exact publication_unmatched_eq_spec. Qed.

Theorem C33_subscription_unmatched_eq_spec :
  forall r s p, dispatch_subscription_unmatched r s p = spec_calls KSM r s p.
Proof. exact subscription_unmatched_eq_spec. Qed.

(* the same nine tables once more as an exhaustive enumeration of the 2^6 = 64 combinations
   (listener installed?, status enabled?) x three levels, evaluated by computation *)
Theorem C33_decision_tables_64 :
  table3 KSR dispatch_sample_rejected = true /\
  table3 KRDM dispatch_requested_deadline_missed = true /\
  table3 KSM dispatch_subscription_matched = true /\
  table3 KRIQ dispatch_requested_incompatible_qos = true /\
  table3 KODM dispatch_offered_deadline_missed = true /\
  table3 KPM dispatch_publication_matched = true /\
  table3 KOIQ dispatch_offered_incompatible_qos = true /\
  table3 KPM dispatch_publication_unmatched = true /\
  table3 KSM dispatch_subscription_unmatched = true.
Proof. exact decision_tables. Qed.

(* and the new-data table over its 2^7 = 128 combinations *)
Theorem C33_decision_table_data_128 : table_data = true.
Proof. exact decision_table_data. Qed.

(* ---- what the rule says, declaratively: level w gets callback k iff w's mask enables k, w has a
   listener, and no more specific level's mask enables k *)
Theorem C33_rule_characterisation :
  forall k e g p w k',
    In (w, k') (spec_calls k e g p) <->
    (k' = k /\ en (lv e g p w) k = true /\ l_inst (lv e g p w) = true /\
     forall w', more_specific w' w = true -> en (lv e g p w') k = false).
Proof. exact spec_calls_char. Qed.

Theorem C33_rule_none_iff_no_mask_or_nil_listener :
  forall k e g p,
    spec_calls k e g p = [] <->
    (spec_target k e g p = None \/ exists w, spec_target k e g p = Some w /\ l_inst (lv e g p w) = false).
Proof. exact spec_calls_none_iff. Qed.

Theorem C33_no_target_iff_no_mask_enables :
  forall k e g p, spec_target k e g p = None <-> (en e k = false /\ en g k = false /\ en p k = false).
Proof. exact spec_target_none_iff. Qed.

(* ---- new data: data-on-readers on the subscriber when enabled there, otherwise data-available
   by the rule (reader, subscriber, participant) *)
Theorem C33_data_eq_spec : forall r s p, dispatch_data r s p = spec_data r s p.
Proof. exact data_eq_spec. Qed.

(* several changes added to readers of one subscriber in ONE worker pass: each is routed by the rule on
   its own; with data-on-readers enabled at the subscriber every one of them is a data-on-readers call *)
Theorem C33_data_pass_eq_spec :
  forall c added, dispatch_data_pass c added = flat_map (fun i => spec_ev c (EvData i)) added.
Proof. exact data_pass_eq_spec. Qed.

Theorem C33_data_pass_all_on_readers :
  forall c added, en (w_sub c) KDOR = true ->
    dispatch_data_pass c added =
      if l_inst (w_sub c) then repeat (LSub, KDOR) (length added) else [].
Proof. exact data_pass_all_on_readers. Qed.

(* ---- histories: every event of every history goes to exactly the listener the rule names *)
Theorem C33_history_eq_spec : forall c es, run_events c es = spec_events c es.
Proof. exact run_events_eq_spec. Qed.

(* ... also when listeners and masks are replaced (set_listener) between the events *)
Theorem C33_history_with_reconfiguration_eq_spec : forall h, run_history h = spec_history h.
Proof. exact run_history_eq_spec. Qed.

Theorem C33_history_with_reconfiguration_calls_bounded :
  forall h, (length (run_history h) <= length h)%nat.
Proof. exact run_history_length. Qed.

(* ---- exactly one or zero listener per status change, for every event of every history *)
Theorem C33_at_most_one_listener_per_event :
  forall c e, (length (dispatch_ev c e) <= 1)%nat.
Proof. exact dispatch_ev_at_most_one. Qed.

Theorem C33_history_calls_bounded :
  forall c es, (length (run_events c es) <= length es)%nat.
Proof. exact run_events_length. Qed.

(* ---- the stricter reading (a level without listener object is skipped) differs from the rule, and
   from the code, exactly on `swallowed` configurations: reported as an observation, not as a defect *)
Theorem C33_strict_reading_eq_unless_swallowed :
  forall k e g p, swallowed k e g p = false -> spec_calls_strict k e g p = spec_calls k e g p.
Proof. exact strict_eq_unless_swallowed. Qed.

Theorem C33_swallowed_differs :
  forall k e g p, swallowed k e g p = true ->
    spec_calls k e g p = [] /\ exists w, spec_calls_strict k e g p = [(w, k)].
Proof. exact swallowed_differs. Qed.

(* non-vacuity: subscriber-level delivery, a swallowed configuration, the data-available fallback
   (regression witness of 8c56825), the un-match callback (regression witness of 16b74b1) *)
Example C33_nonvacuous :
  dispatch_sample_rejected (mkL true []) (mkL true [KSR]) (mkL true [KSR]) = [(Group, KSR)] /\
  swallowed KSR (mkL false [KSR]) (mkL true [KSR]) (mkL false []) = true /\
  dispatch_data (mkL true []) (mkL true [KDA]) (mkL true []) = [(Group, KDA)] /\
  dispatch_data (mkL true []) (mkL true []) (mkL true [KDA]) = [(Participant, KDA)] /\
  dispatch_data (mkL true [KDA]) (mkL true [KDOR]) (mkL true []) = [(Group, KDOR)] /\
  dispatch_publication_unmatched (mkL true [KPM]) (mkL true []) (mkL true []) = [(Entity, KPM)].
Proof. vm_compute. repeat split. Qed.

Print Assumptions C33_sample_rejected_eq_spec.
Print Assumptions C33_requested_deadline_missed_eq_spec.
Print Assumptions C33_subscription_matched_eq_spec.
Print Assumptions C33_requested_incompatible_qos_eq_spec.
Print Assumptions C33_offered_deadline_missed_eq_spec.
Print Assumptions C33_publication_matched_eq_spec.
Print Assumptions C33_offered_incompatible_qos_eq_spec.
Print Assumptions C33_inconsistent_topic_eq_spec.
Print Assumptions C33_publication_unmatched_eq_spec.
Print Assumptions C33_subscription_unmatched_eq_spec.
Print Assumptions C33_decision_tables_64.
Print Assumptions C33_decision_table_data_128.
Print Assumptions C33_rule_characterisation.
Print Assumptions C33_rule_none_iff_no_mask_or_nil_listener.
Print Assumptions C33_no_target_iff_no_mask_enables.
Print Assumptions C33_data_eq_spec.
Print Assumptions C33_history_eq_spec.
Print Assumptions C33_history_with_reconfiguration_eq_spec.
Print Assumptions C33_history_with_reconfiguration_calls_bounded.
Print Assumptions C33_at_most_one_listener_per_event.
Print Assumptions C33_history_calls_bounded.
Print Assumptions C33_strict_reading_eq_unless_swallowed.
Print Assumptions C33_swallowed_differs.
Print Assumptions C33_data_pass_eq_spec.
Print Assumptions C33_data_pass_all_on_readers.
