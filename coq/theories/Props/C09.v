(* C09 — XCDR serialization round-trips every value of every supported type.
   Property file: statements, `exact`, assumptions.  Vocabulary (Xcdr/XcdrModel.v, XcdrProps.v):
     encode v e t x : res (list Z)   serialize_cdr{1,2}_{be,le} on a DynamicData x of DynamicType t
     decode t bytes : res val        deserialize_top_level_type
     wf_ty t        the type only uses kinds the code implements (no todo!() kind), ids distinct
     wt t x         x is a value of t as the code stores it (BTreeMap in id order, ranges, lengths < 2^32;
                    a char8 is one octet 0..255: the serializer truncates a Rust char above U+00FF)
     stage1 t       primitives, string, wstring, enum, sequence, array, FINAL structs, no optional member
     stage2 t       stage1 + APPENDABLE structs + optional members      (stage 3 = mutable structs, unions)
     size_limit v t 2^32-1 (the u32 length fields / DHEADER), or 65535 for XCDR1 types with an optional
                    member (short parameter header; the long one, rule (25), is a TODO in the code)
     sup v t        the type is serializable in version v: in XCDR1 no optional member id >= 2^14 (it would
                    need the long parameter header, rule (25), a TODO in the code: serialize returns InvalidId)
     known_class v t x   0, or the recorded defect class of the case: 4 mutable struct / union somewhere in
                    the type, 5 XCDR1 optional member whose value can be empty (a present empty value has
                    parameter length 0 and is read back as absent).
                    The former classes 1 (char8 >= 0x80), 2 (float128 in XCDR1), 3 (XCDR1 optional member
                    rewound), 6 (XCDR1 parameter id overflow) and the collection part of 5 (zero-size elements
                    rejected by the length guard) were repaired in /repo: c6ffb24, 0b5427b, addc370, 2cf9289,
                    8422ab4. *)
From DustDDS Require Import Base.Machine Xcdr.XcdrBytes Xcdr.XcdrModel Xcdr.XcdrProps Xcdr.XcdrProofs.
Open Scope Z_scope.

(* S1: both XCDR versions, both byte orders; no recorded class is left in S1 *)
Theorem C09_roundtrip_S1 : forall (v : ver) (e : endian) (t : ty) (x : val),
  is_aggr t = true -> wf_ty t = true -> stage1 t = true -> wt t x = true ->
  exists bytes, encode v e t x = Ok bytes /\ (blen bytes <= u32_max -> decode t bytes = Ok x).
Proof. exact roundtrip_S1. Qed.

Theorem C09_S1_classes : forall (v : ver) (t : ty) (x : val), stage1 t = true ->
  known_class v t x = 0%N /\ sup v t = true.
Proof. exact stage1_known. Qed.

(* S2: appendable structures (DHEADER in XCDR2, which delimits the object for the reader),
   optional members (XCDR2 presence flag, XCDR1 parameter read in place) *)
Theorem C09_roundtrip_S2 : forall (v : ver) (e : endian) (t : ty) (x : val),
  is_aggr t = true -> wf_ty t = true -> stage2 t = true -> sup v t = true -> wt t x = true ->
  known_class v t x = 0%N ->
  exists bytes, encode v e t x = Ok bytes /\ (blen bytes <= size_limit v t -> decode t bytes = Ok x).
Proof. exact roundtrip_S2. Qed.

(* The full statement (every supported type incl. S3: mutable structures and unions).  It is
   proved outside the recorded classes only; class 4 is ALL of stage 3, so for S3 this theorem
   says nothing yet: partial. *)
Theorem C09_roundtrip_all_types_partial : forall (v : ver) (e : endian) (t : ty) (x : val),
  is_aggr t = true -> wf_ty t = true -> sup v t = true -> wt t x = true ->
  known_class v t x = 0%N ->
  exists bytes, encode v e t x = Ok bytes /\ (blen bytes <= size_limit v t -> decode t bytes = Ok x).
Proof. exact roundtrip_outside_known. Qed.

(* encapsulation: every successful serialization (any type, any value) is
   header(options byte 3 = n) ++ body ++ n zero bytes, n = padding to a multiple of 4 *)
Theorem C09_padding_recorded : forall (v : ver) (e : endian) (t : ty) (x : val) (bytes : list Z),
  encode v e t x = Ok bytes ->
  exists body p n,
    ser_ty v e t x 0 = Ok (body, p) /\
    n = pad_count (4 + blen body) /\ 0 <= n <= 3 /\
    bytes = [0; repr_id v e (ty_ext t); 0; n] ++ body ++ zeros n /\
    blen bytes mod 4 = 0 /\ nth 3 bytes 0 = n.
Proof. exact encode_shape. Qed.

(* ... and on every S1/S2 sample outside the classes that count is exactly the number of bytes
   behind the position at which the deserializer stops (what the correspondence oracle checks) *)
Theorem C09_padding_is_reader_rest : forall (v : ver) (e : endian) (t : ty) (x : val),
  is_aggr t = true -> tgood v t = true -> wt t x = true ->
  exists bytes, encode v e t x = Ok bytes /\
    (blen bytes <= size_limit v t ->
     decode t bytes = Ok x /\
     exists p, decode_end t bytes = Some p /\ nth 3 bytes 0 = blen bytes - 4 - p).
Proof. exact roundtrip_tgood. Qed.

(* the inputs of the repaired defects round-trip now (former classes 1, 2, 3 -- the last one also
   with an 8-byte member after the optional one --, the zero-size collection elements of the
   former class 5), and the former class-6 input is an error instead of a panic *)
Theorem C09_repaired_inputs_roundtrip :
  (let t := TStruct Final [(mk 0, TPrim PChar8); (mk 1, TPrim PU8)] in
   let x := VData [(0, VP KChar8 233); (1, VP KU8 9)] in
   exists bytes, encode V1 LE t x = Ok bytes /\ decode t bytes = Ok x) /\
  (let t := TStruct Final [(mk 0, TPrim PU64); (mk 1, TPrim PF128)] in
   let x := VData [(0, VP KU64 7); (1, VP KF128 9)] in
   exists bytes, encode V1 LE t x = Ok bytes /\ decode t bytes = Ok x) /\
  (let t := TStruct Final [(mko 0, TPrim PI32); (mk 1, TPrim PI32)] in
   let x := VData [(0, VP KI32 5); (1, VP KI32 77)] in
   exists bytes, encode V1 LE t x = Ok bytes /\ decode t bytes = Ok x) /\
  (let t := TStruct Final [(mko 0, TPrim PU8); (mk 1, TPrim PU64); (mko 2, TPrim PU64)] in
   let x := VData [(0, VP KU8 1); (1, VP KU64 2)] in
   exists bytes, encode V1 BE t x = Ok bytes /\ decode t bytes = Ok x) /\
  (let t := TStruct Final [(mk 0, TPrim PU64); (mk 1, TArr 2 (TStruct Final [(mk 0, TStruct Final [])]))] in
   let x := VData [(0, VP KU64 0); (1, VSeqData [[(0, VData [])]; [(0, VData [])]])] in
   exists bytes, encode V2 BE t x = Ok bytes /\ decode t bytes = Ok x) /\
  encode V1 LE (TStruct Final [(mkM 49152 true false true false [], TPrim PU8)])
         (VData [(49152, VP KU8 1)]) = Err E_ID.
Proof. exact regression_repaired. Qed.

(* the recorded classes are genuine: a well-typed value of a well-formed type in the class that
   does NOT come back (refutes = wf, wt, class k, and encode fails or decode (encode x) <> Ok x) *)
(* S3 is false on the unchanged code (D26 and relatives) *)
Theorem C09_S3_lc5_primitive_sequence_refuted :
  refutes V2 LE (TStruct Mutable [(mk 0, TSeq (TPrim PI32)); (mk 1, TPrim PI32)])
          (VData [(0, VSeqP KI32 [7; 1]); (1, VP KI32 77)]) 4.
Proof. exact witness_lc5_sequence. Qed.

Theorem C09_S3_nested_mutable_xcdr2_refuted :
  refutes V2 LE (TStruct Final [(mk 0, TStruct Mutable [(mk 0, TPrim PI32)]); (mk 1, TPrim PI32)])
          (VData [(0, VData [(0, VP KI32 5)]); (1, VP KI32 77)]) 4.
Proof. exact witness_nested_mutable. Qed.

Theorem C09_S3_xcdr1_mutable_alignment_refuted :
  refutes V1 LE (TStruct Mutable [(mk 0, TPrim PU64)]) (VData [(0, VP KU64 9)]) 4.
Proof. exact witness_xcdr1_mutable_align. Qed.

Theorem C09_S3_appendable_union_xcdr1_refuted :
  refutes V1 LE
    (TStruct Final [(mk 0, TUnion Appendable (TPrim PI32) [(mkM 1 false false false false [10], TPrim PU8)]);
                    (mk 1, TPrim PU8)])
    (VData [(0, VData [(0, VP KI32 10); (1, VP KU8 3)]); (1, VP KU8 4)]) 4.
Proof. exact witness_appendable_union_xcdr1. Qed.

Theorem C09_S3_union_sequence_xcdr2_refuted :
  refutes V2 LE
    (TStruct Final [(mk 0, TSeq (TUnion Appendable (TPrim PI32) [(mkM 1 false false false false [10], TPrim PU8)]))])
    (VData [(0, VSeqData [[(0, VP KI32 10); (1, VP KU8 3)]])]) 4.
Proof. exact witness_union_sequence. Qed.

(* class 5: XCDR1 {@optional E e (present); octet 1}: e is read back as absent *)
Theorem C09_class5_zero_size_optional_xcdr1_refuted :
  refutes V1 LE (TStruct Final [(mko 0, TStruct Final []); (mk 1, TPrim PU8)])
          (VData [(0, VData []); (1, VP KU8 1)]) 5.
Proof. exact witness_zero_size_optional. Qed.

(* the value comparison used by the correspondence oracle is equality *)
Theorem C09_oracle_sound : forall a b : val, val_eqb a b = true <-> a = b.
Proof. exact val_eqb_eq. Qed.

(* non-vacuity: a nested appendable value with an optional member, strings outside ASCII, an
   array of structs with enum and wstring members satisfies every hypothesis in both versions *)
Example C09_nonvacuous :
  is_aggr ex_ty = true /\ wf_ty ex_ty = true /\ stage2 ex_ty = true /\ wt ex_ty ex_val = true /\
  known_class V1 ex_ty ex_val = 0%N /\ known_class V2 ex_ty ex_val = 0%N /\
  (exists bytes, encode V1 BE ex_ty ex_val = Ok bytes /\ blen bytes <= size_limit V1 ex_ty /\
                 decode ex_ty bytes = Ok ex_val).
Proof. exact ex_nonvacuous. Qed.

Print Assumptions C09_roundtrip_S1.
Print Assumptions C09_S1_classes.
Print Assumptions C09_roundtrip_S2.
Print Assumptions C09_roundtrip_all_types_partial.
Print Assumptions C09_padding_recorded.
Print Assumptions C09_padding_is_reader_rest.
Print Assumptions C09_repaired_inputs_roundtrip.
Print Assumptions C09_S3_lc5_primitive_sequence_refuted.
Print Assumptions C09_S3_nested_mutable_xcdr2_refuted.
Print Assumptions C09_S3_xcdr1_mutable_alignment_refuted.
Print Assumptions C09_S3_appendable_union_xcdr1_refuted.
Print Assumptions C09_S3_union_sequence_xcdr2_refuted.
Print Assumptions C09_class5_zero_size_optional_xcdr1_refuted.
Print Assumptions C09_oracle_sound.
