(* C32 — WaitSet wakes whenever an attached condition becomes true.
   Property file: statements, `exact`, non-vacuity, assumptions.

   Vocabulary (Sched/StatusCondModel.v): [cond] = DcpsStatusCondition (mask,
   changed statuses, registered notification senders by channel index); [chan] =
   the notification channel (notified, parked = a waker is stored, wakes = how
   often it was called); [wsys] = all conditions, all channels and any number of
   waiters, each executing WaitSetAsync::wait as atomic steps (one mail handled
   by the DCPS worker, or one poll of the notification receiver) so that a list
   of [wop] is an interleaving.  [fx] selects the patched set_enabled_statuses
   (true) or the code in /repo (false).  [w_d6_free fx s ops] = no step of the
   history is a set_enabled_statuses that makes a trigger value true while a
   notification is registered on that condition (known finding
   C32-enable-no-notify); it is identically true for the patched code. *)
From DustDDS Require Import Base.Machine Sched.StatusCondModel Sched.StatusCondProofs
                            Sched.StatusCondWaitProofs Sched.StatusCondCountProofs.
Close Scope Z_scope.
Open Scope nat_scope.

(* ---- part 1: the trigger value *)

(* get_trigger_value is true exactly when an enabled status is among the changed
   ones — for every value of the fields, reachable or not *)
Theorem C32_trigger_value_iff :
  forall c, cond_trigger c = true <->
            exists k, is_enabled (c_enabled c) k = true /\ In k (c_changes c).
Proof. exact cond_trigger_iff. Qed.

(* the u16 mask collected from a list of kinds enables exactly those kinds *)
Theorem C32_mask_enables_exactly_its_list :
  forall l k, is_enabled (mask_of_list l) k = true <-> In k l.
Proof. exact is_enabled_mask_of_list_In. Qed.

(* after EVERY history (any interleaving of status changes, reads,
   set_enabled_statuses calls and steps of any number of wait calls, D6 histories
   included, patched or not) the trigger value of every condition is "some status
   is enabled by the last set_enabled_statuses (initially all) and has changed
   since it was last read" *)
Theorem C32_trigger_value_after_every_history :
  forall fx nc nw ops c, c < nc ->
    sys_trigger (w_sys (wrun fx (w_init nc nw) ops)) c =
    spec_trigger (hist_en (map wop_ev ops) c) (hist_chg (map wop_ev ops) c).
Proof. exact w_trigger_history. Qed.

(* the same for the condition driven directly (register_notification / receiver
   polls issued by hand instead of by wait) *)
Theorem C32_trigger_value_after_every_direct_history :
  forall fx nc nch ops c, c < nc ->
    sys_trigger (d_sys (drun fx (d_init nc nch) ops)) c =
    spec_trigger (hist_en (map dop_ev ops) c) (hist_chg (map dop_ev ops) c).
Proof. exact d_trigger_history. Qed.

(* ---- part 2: no lost wake-up *)

(* the invariant: a condition with a registered notification has trigger value
   false — for all interleavings outside the known class *)
Theorem C32_registered_notification_implies_trigger_false :
  forall fx nc nw ops, w_d6_free fx (w_init nc nw) ops = true ->
    forall c cd, nth_error (conds (w_sys (wrun fx (w_init nc nw) ops))) c = Some cd ->
      c_registered cd <> [] -> cond_trigger cd = false.
Proof. exact reach_registered_trigger_false. Qed.

(* no waiter sleeps while one of its conditions is true: a wait call that has
   registered everywhere and whose channel is not notified has only false
   conditions attached *)
Theorem C32_no_waiter_sleeps_while_a_condition_is_true :
  forall fx nc nw ops, w_d6_free fx (w_init nc nw) ops = true ->
    forall w wt, nth_error (w_waiters (wrun fx (w_init nc nw) ops)) w = Some wt ->
      w_pc wt = Await ->
      notif (w_sys (wrun fx (w_init nc nw) ops)) (w_ch wt) = false ->
      forall c, In c (w_att wt) -> sys_trigger (w_sys (wrun fx (w_init nc nw) ops)) c = false.
Proof. exact no_sleep_while_true. Qed.

(* every parked waiter is notified and its waker called exactly once at the very
   step that makes one of its conditions true, whatever that step is *)
Theorem C32_parked_waiter_is_woken_at_the_step :
  forall fx nc nw ops o, w_d6_free fx (w_init nc nw) (ops ++ [o]) = true ->
    forall w wt wt' x,
      nth_error (w_waiters (wrun fx (w_init nc nw) ops)) w = Some wt -> w_pc wt = Await ->
      nth_error (chans (w_sys (wrun fx (w_init nc nw) ops))) (w_ch wt) = Some x -> parked x = true ->
      nth_error (w_waiters (wrun fx (w_init nc nw) (ops ++ [o]))) w = Some wt' -> w_pc wt' = Await ->
      (exists c, In c (w_att wt') /\ sys_trigger (w_sys (wrun fx (w_init nc nw) (ops ++ [o]))) c = true) ->
      exists y, nth_error (chans (w_sys (wrun fx (w_init nc nw) (ops ++ [o])))) (w_ch wt) = Some y /\
                notified y = true /\ parked y = false /\ wakes y = S (wakes x).
Proof. exact reach_woken_at_the_step. Qed.

(* ---- part 3: wait returns, with every triggered attached condition *)

(* a condition is true when wait is called (in any state whatsoever): the call
   returns after its first loop with exactly the attached conditions that are true *)
Theorem C32_wait_returns_at_once_if_a_condition_is_true :
  forall fx s w wt cs c,
    nth_error (w_waiters s) w = Some wt -> is_running (w_pc wt) = false ->
    In c cs -> sys_trigger (w_sys s) c = true ->
    let s' := wrun fx s (WStart w cs :: repeat (WStep w) (length cs)) in
    w_sys s' = w_sys s /\
    exists wt', nth_error (w_waiters s') w = Some wt' /\
                w_pc wt' = Done (Ok (filter (sys_trigger (w_sys s)) cs)).
Proof. exact wait_returns_if_true_at_call. Qed.

(* a waiter that has reached the await and has a true condition attached (it
   became true at any earlier point of any interleaving) completes within
   1 + |attached| of its own steps with exactly the attached conditions that are
   true, a non-empty list *)
Theorem C32_wait_returns_when_a_condition_became_true :
  forall fx nc nw ops, w_d6_free fx (w_init nc nw) ops = true ->
    forall w wt c,
      nth_error (w_waiters (wrun fx (w_init nc nw) ops)) w = Some wt -> w_pc wt = Await ->
      In c (w_att wt) -> sys_trigger (w_sys (wrun fx (w_init nc nw) ops)) c = true ->
      exists wt',
        nth_error (w_waiters (wrun fx (w_init nc nw) (ops ++ repeat (WStep w) (S (length (w_att wt)))))) w = Some wt' /\
        w_pc wt' = Done (Ok (filter (sys_trigger (w_sys (wrun fx (w_init nc nw) ops))) (w_att wt))) /\
        filter (sys_trigger (w_sys (wrun fx (w_init nc nw) ops))) (w_att wt) <> [].
Proof. exact reach_wait_returns_when_true. Qed.

(* wherever a running wait call stands after any interleaving, its own next
   steps (at most 3|attached|+1) take it to its return or to the parked state in
   which every attached condition is false: there is no other place to get stuck *)
Theorem C32_wait_alone_returns_or_parks_with_all_false :
  forall fx nc nw ops, w_d6_free fx (w_init nc nw) ops = true ->
    forall w wt, nth_error (w_waiters (wrun fx (w_init nc nw) ops)) w = Some wt ->
      is_running (w_pc wt) = true ->
      exists n, n <= 3 * length (w_att wt) + 1 /\
        exists wt', nth_error (w_waiters (wrun fx (w_init nc nw) (ops ++ repeat (WStep w) n))) w = Some wt' /\
          ((exists r, w_pc wt' = Done r) \/
           parked_all_false (wrun fx (w_init nc nw) (ops ++ repeat (WStep w) n)) wt').
Proof. exact reach_waiter_alone_returns_or_parks. Qed.

(* a running wait call always holds a sender of its own notification channel ... *)
Theorem C32_running_wait_holds_a_sender :
  forall fx nc nw ops, w_d6_free fx (w_init nc nw) ops = true ->
    forall w wt, nth_error (w_waiters (wrun fx (w_init nc nw) ops)) w = Some wt ->
      has_chan (w_pc wt) = true ->
      exists x, nth_error (chans (w_sys (wrun fx (w_init nc nw) ops))) (w_ch wt) = Some x /\ 1 <= senders x.
Proof. exact owner_holds_a_sender. Qed.

(* ... hence its receiver never reports "all senders dropped": no wait call ends
   with Err(AlreadyDeleted) (Err 2) on its own *)
Theorem C32_wait_never_returns_already_deleted :
  forall fx nc nw ops, w_d6_free fx (w_init nc nw) ops = true ->
    forall w wt, nth_error (w_waiters (wrun fx (w_init nc nw) ops)) w = Some wt ->
      w_pc wt <> Done (Err 2%Z).
Proof. exact wait_never_already_deleted. Qed.

(* ---- the known class *)

(* the patched set_enabled_statuses has no excluded history: everything above
   holds for all interleavings of the patched code *)
Theorem C32_patched_code_excludes_nothing :
  forall ops s, w_d6_free true s ops = true.
Proof. exact w_d6_free_fixed. Qed.

(* the code in /repo: enabling a status that has already changed leaves a parked
   waiter asleep for ever although its condition is true (finding
   C32-enable-no-notify, confirmed on the real code by the correspondence run) *)
Theorem C32_enabling_a_changed_status_loses_the_wakeup :
  exists ops, w_d6_free false (w_init 1 1) ops = false /\
    let s := wrun false (w_init 1 1) ops in
    sys_trigger (w_sys s) 0 = true /\
    forall n, exists wt x,
      nth_error (w_waiters (wrun false s (repeat (WStep 0) n))) 0 = Some wt /\
      w_pc wt = Await /\ In 0 (w_att wt) /\
      nth_error (chans (w_sys (wrun false s (repeat (WStep 0) n)))) (w_ch wt) = Some x /\
      parked x = true /\ notified x = false /\ wakes x = 0.
Proof. exact d6_lost_wakeup. Qed.

(* the same for the condition driven directly: the invariant holds for all direct
   histories outside the class *)
Theorem C32_direct_registered_implies_trigger_false :
  forall fx nc nch ops, d_d6_free fx (d_init nc nch) ops = true ->
    forall c cd, nth_error (conds (d_sys (drun fx (d_init nc nch) ops))) c = Some cd ->
      c_registered cd <> [] -> cond_trigger cd = false.
Proof. exact d_reach_registered_trigger_false. Qed.

(* ---- non-vacuity *)
(* a d6-free interleaving of two waiters and two conditions that reaches a state
   with a parked waiter, then the status change that wakes it *)
Example C32_nonvacuous :
  let ops := [WSetEnabled 1 [DataAvailable]; WStart 0 [0; 1]; WStart 1 [1]; WStep 0; WStep 1; WStep 0;
              WStep 1; WStep 0; WStep 0; WStep 1; WStep 0] in
  w_d6_free false (w_init 2 2) (ops ++ [WAdd 1 DataAvailable]) = true /\
  (exists wt x, nth_error (w_waiters (wrun false (w_init 2 2) ops)) 0 = Some wt /\ w_pc wt = Await /\
                nth_error (chans (w_sys (wrun false (w_init 2 2) ops))) (w_ch wt) = Some x /\
                parked x = true) /\
  sys_trigger (w_sys (wrun false (w_init 2 2) (ops ++ [WAdd 1 DataAvailable]))) 1 = true.
Proof. cbn zeta. split; [vm_compute; reflexivity|]. split; [eexists; eexists; vm_compute; repeat split; reflexivity | vm_compute; reflexivity]. Qed.

Print Assumptions C32_trigger_value_iff.
Print Assumptions C32_mask_enables_exactly_its_list.
Print Assumptions C32_trigger_value_after_every_history.
Print Assumptions C32_trigger_value_after_every_direct_history.
Print Assumptions C32_registered_notification_implies_trigger_false.
Print Assumptions C32_no_waiter_sleeps_while_a_condition_is_true.
Print Assumptions C32_parked_waiter_is_woken_at_the_step.
Print Assumptions C32_wait_returns_at_once_if_a_condition_is_true.
Print Assumptions C32_wait_returns_when_a_condition_became_true.
Print Assumptions C32_wait_alone_returns_or_parks_with_all_false.
Print Assumptions C32_running_wait_holds_a_sender.
Print Assumptions C32_wait_never_returns_already_deleted.
Print Assumptions C32_patched_code_excludes_nothing.
Print Assumptions C32_enabling_a_changed_status_loses_the_wakeup.
Print Assumptions C32_direct_registered_implies_trigger_false.
