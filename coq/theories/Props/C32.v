(* C32 — WaitSet wakes whenever an attached condition becomes true.
   Property file: statements, `exact`, assumptions. *)
From DustDDS Require Import Base.Machine Sched.StatusCondModel Sched.StatusCondProofs.
Open Scope Z_scope.

(* the trigger value computed by get_trigger_value is true exactly when an
   enabled status is among the changed ones (any state, reachable or not) *)
Theorem C32_trigger_value_iff :
  forall c, cond_trigger c = true <->
            exists k, is_enabled (c_enabled c) k = true /\ In k (c_changes c).
Proof. exact cond_trigger_iff. Qed.

(* the u16 mask collected from a list of kinds enables exactly those kinds *)
Theorem C32_mask_enables_exactly_its_list :
  forall l k, is_enabled (mask_of_list l) k = true <-> In k l.
Proof. exact is_enabled_mask_of_list_In. Qed.

Print Assumptions C32_trigger_value_iff.
Print Assumptions C32_mask_enables_exactly_its_list.
