(* C41 — IDL compiler output matches the IDL declarations.  PARTIAL: the statements are about
   the model of dds_gen's generator (Lang/IdlModel.v: [compile_defs] = reserved-word rule of the
   grammar + RustGenerator rule by rule; [compile] adds the #define/#ifdef gating of the
   preprocessor); pest parsing of the text and rustc ("the generated code compiles") are outside.
   [shape_of_defs] is the structure the IDL declares, [shape_of_items] the structure of the
   generated items as #[derive(DdsType)] reads them (all #[dust_dds] attributes, a later
   argument overwriting an earlier one; fix 99bf327).
   Property file: statements, `exact`, assumptions. *)
From DustDDS Require Import Base.Machine Lang.IdlModel Lang.IdlProofs.
Open Scope string_scope.
Open Scope list_scope.

(* ---- the property, for all specifications of the supported subset outside the two recorded
   classes (1 bounded string/sequence, 3 array with several dimensions; class 2, annotated member
   with several declarators, was fixed in /repo by 7270bfe and class 4, several #[dust_dds]
   attributes on one item, by 99bf327: both are retired) *)
Theorem C41_idl_structure_preserved :
  forall defs,
    supported defs = true ->
    known_bounds defs = false ->
    known_multi_dim defs = false ->
    exists items, compile_defs defs = Ok items /\ shape_of_items 0 items = shape_of_defs [] defs.
Proof. exact idl_structure_preserved. Qed.

(* ---- for ALL supported specifications: the structure is preserved up to exactly what the
   classes present in the declaration lose (eb: bounds, ed: array dimensions after the first;
   ea, forgetting what lives in attributes, is no longer needed by any class) *)
Theorem C41_structure_preserved_upto_classes :
  forall eb ed ea defs items,
    supported defs = true ->
    (known_bounds defs = true -> eb = true) ->
    (known_multi_dim defs = true -> ed = true) ->
    compile_defs defs = Ok items ->
    map (ev_erase eb ed ea) (shape_of_items 0 items) = map (ev_erase eb ed ea) (shape_of_defs [] defs).
Proof. exact structure_preserved_upto_classes. Qed.

(* bounds are the only loss when class 3 is absent (D34) *)
Theorem C41_everything_but_bounds_preserved :
  forall defs items,
    supported defs = true ->
    known_multi_dim defs = false ->
    compile_defs defs = Ok items ->
    map (ev_erase true false false) (shape_of_items 0 items)
    = map (ev_erase true false false) (shape_of_defs [] defs).
Proof. exact structure_preserved_except_bounds. Qed.

(* the generator is total on the supported subset; it rejects reserved words and panics on
   (exactly the) constructs it has no rule for *)
Theorem C41_compile_total_on_supported :
  forall defs, supported defs = true -> exists items, compile_defs defs = Ok items.
Proof. exact compile_total_on_supported. Qed.

Theorem C41_reserved_word_rejected :
  forall defs s, In s (flat_map def_idents defs) -> ident_ok s = false -> compile_defs defs = Err 0.
Proof. exact reserved_word_rejected. Qed.

Theorem C41_unsupported_construct_panics :
  forall defs, parse_ok defs = true -> forallb def_supported defs = false -> compile_defs defs = Panic 0.
Proof. exact unsupported_panics. Qed.

(* ---- the clauses of the property one by one (each a projection of the declared structure) *)

(* names of all declarations and the module nesting; enumerators and their values; union case
   labels / default / member names: for EVERY supported specification *)
Theorem C41_names_and_nesting_preserved :
  forall defs items, supported defs = true -> compile_defs defs = Ok items ->
    names_of (shape_of_items 0 items) = names_of (shape_of_defs [] defs).
Proof. exact names_preserved. Qed.

Theorem C41_enumerators_preserved :
  forall defs items, supported defs = true -> compile_defs defs = Ok items ->
    enumerators_of (shape_of_items 0 items) = enumerators_of (shape_of_defs [] defs).
Proof. exact enumerators_preserved. Qed.

Theorem C41_union_labels_preserved :
  forall defs items, supported defs = true -> compile_defs defs = Ok items ->
    union_labels_of (shape_of_items 0 items) = union_labels_of (shape_of_defs [] defs).
Proof. exact union_labels_preserved. Qed.

(* member order, keys, member ids, optional members, extensibility / base type / qualified
   name, enum bit bound: for EVERY supported specification (bounds and dimensions irrelevant) *)
Theorem C41_member_order_preserved :
  forall defs items, supported defs = true -> compile_defs defs = Ok items ->
    members_of (shape_of_items 0 items) = members_of (shape_of_defs [] defs).
Proof. exact members_preserved. Qed.

Theorem C41_keys_preserved :
  forall defs items, supported defs = true -> compile_defs defs = Ok items ->
    keys_of (shape_of_items 0 items) = keys_of (shape_of_defs [] defs).
Proof. exact keys_preserved. Qed.

Theorem C41_member_ids_preserved :
  forall defs items, supported defs = true -> compile_defs defs = Ok items ->
    ids_of (shape_of_items 0 items) = ids_of (shape_of_defs [] defs).
Proof. exact ids_preserved. Qed.

Theorem C41_optionals_preserved :
  forall defs items, supported defs = true -> compile_defs defs = Ok items ->
    optionals_of (shape_of_items 0 items) = optionals_of (shape_of_defs [] defs).
Proof. exact optionals_preserved. Qed.

Theorem C41_extensibility_base_name_preserved :
  forall defs items, supported defs = true -> compile_defs defs = Ok items ->
    struct_headers_of (shape_of_items 0 items) = struct_headers_of (shape_of_defs [] defs)
    /\ enums_of (shape_of_items 0 items) = enums_of (shape_of_defs [] defs).
Proof. exact headers_preserved. Qed.

(* union discriminator and case member kinds, aliases, constants: whenever no bound and no
   multi-dimensional array is declared *)
Theorem C41_unions_aliases_consts_preserved :
  forall defs items, supported defs = true -> compile_defs defs = Ok items ->
    known_bounds defs = false -> known_multi_dim defs = false ->
    unions_of (shape_of_items 0 items) = unions_of (shape_of_defs [] defs)
    /\ aliases_of (shape_of_items 0 items) = aliases_of (shape_of_defs [] defs)
    /\ consts_of (shape_of_items 0 items) = consts_of (shape_of_defs [] defs).
Proof. exact unions_aliases_consts_preserved. Qed.

(* ---- the two remaining classes are genuine: in each there is a supported specification, in no other
   class, on which the clause named is violated (recorded findings C41-bounds-dropped,
   C41-array-dimensions-dropped) *)
Theorem C41_bounds_clause_refuted :
  exists defs items,
    (supported defs = true /\ known_bounds defs = true
     /\ known_multi_dim defs = false)
    /\ compile_defs defs = Ok items
    /\ member_kinds_of (shape_of_items 0 items) <> member_kinds_of (shape_of_defs [] defs).
Proof. exact bounds_refuted. Qed.

(* regression for the retired class 2 (fix 7270bfe): in `struct S { @key long a, b; };` both
   declarators are keys and the whole structure is preserved *)
Theorem C41_annotations_reach_every_declarator :
  exists items,
    (supported w_multi_annot = true /\ known_bounds w_multi_annot = false
     /\ known_multi_dim w_multi_annot = false)
    /\ compile_defs w_multi_annot = Ok items
    /\ keys_of (shape_of_items 0 items) = [("S", ["a"; "b"])]
    /\ shape_of_items 0 items = shape_of_defs [] w_multi_annot.
Proof. exact multi_declarator_annotations_preserved. Qed.

Theorem C41_kinds_refuted_for_multi_dim_array :
  exists defs items,
    (supported defs = true /\ known_bounds defs = false
     /\ known_multi_dim defs = true)
    /\ compile_defs defs = Ok items
    /\ member_kinds_of (shape_of_items 0 items) <> member_kinds_of (shape_of_defs [] defs).
Proof. exact multi_dim_refuted. Qed.

(* regression for the retired class 4 (fix 99bf327): in
   `module M { @mutable struct A { @id(7) @key long y; }; };` the key, the id, the extensibility
   and the qualified name all reach the type *)
Theorem C41_all_attributes_are_read :
  exists items,
    (supported w_split = true /\ known_bounds w_split = false /\ known_multi_dim w_split = false)
    /\ compile_defs w_split = Ok items
    /\ keys_of (shape_of_items 0 items) = [("A", ["y"])]
    /\ ids_of (shape_of_items 0 items) = [("A", [("y", Some "7")])]
    /\ struct_headers_of (shape_of_items 0 items) = [("A", (["M"; "A"], Some "mutable", None))]
    /\ shape_of_items 0 items = shape_of_defs [] w_split.
Proof. exact split_attributes_preserved. Qed.

(* ---- preprocessor: without directives nothing changes; #ifdef/#ifndef bodies count exactly
   when the flag is (not) defined before them; a file gated out entirely is rejected *)
Theorem C41_preprocess_identity_without_directives :
  forall defs, preprocess (map PDef defs) = defs.
Proof. exact preprocess_no_directive. Qed.

Theorem C41_ifdef_gates :
  forall n defs rest,
    preprocess (PIf false n (map PDef defs) :: rest) = preprocess rest
    /\ preprocess (PIf true n (map PDef defs) :: rest) = defs ++ preprocess rest
    /\ preprocess (PDefine n :: PIf false n (map PDef defs) :: rest) = defs ++ snd (pp_items [n] rest)
    /\ preprocess (PDefine n :: PIf true n (map PDef defs) :: rest) = snd (pp_items [n] rest).
Proof. exact ifdef_gates. Qed.

Theorem C41_all_gated_out_rejected : forall n body, compile [PIf false n body] = Err 0.
Proof. exact all_gated_out_rejected. Qed.

(* ---- the oracle of the correspondence run decides equality of the declared structures *)
Theorem C41_oracle_sound :
  (forall defs items, structure_preserved defs items = true
                      <-> shape_of_items 0 items = shape_of_defs [] defs)
  /\ (forall eb ed ea defs items, structure_preserved_upto eb ed ea defs items = true
        <-> map (ev_erase eb ed ea) (shape_of_items 0 items) = map (ev_erase eb ed ea) (shape_of_defs [] defs)).
Proof. exact (conj structure_preserved_iff structure_preserved_upto_iff). Qed.

(* non-vacuity: a specification with modules, a keyed mutable struct with ids, an optional
   member, an array, an enum with values, a union, a typedef and a constant is in the
   supported subset and outside every class; its structure is preserved and not trivial *)
Definition C41_example : list def :=
  [DTypedef (TSeq (TPrim PI32) None) (DSimple "Samples") [];
   DConst (TPrim PU16) "LIMIT" "16*4";
   DEnum [] "Colour" (mkEnumr [mkAnnot "value" (Some "3")] "RED") [mkEnumr [] "GREEN"];
   DStruct [mkAnnot "mutable" None; mkAnnot "topic" None] "Reading" None
     [mkMember [mkAnnot "key" None] (TPrim PI64) (DSimple "sensor") [];
      mkMember [mkAnnot "id" (Some "7")] (TName false ["Samples"]) (DSimple "values") [];
      mkMember [mkAnnot "optional" None] (TStr None) (DSimple "note") [];
      mkMember [] (TPrim POctet) (DArray "raw" "8" []) [DSimple "flags"]];
   DModule "m"
     [DUnion "Choice" (TPrim PI16)
        (mkCase (Some "1") [Some "2"] (TName true ["Colour"]) (DSimple "c"))
        [mkCase None [] (TSeq (TStr None) None) (DSimple "names")];
      DModule "inner" [DStruct [] "Leaf" None [mkMember [] (TName true ["m"; "Choice"]) (DSimple "pick") []]]]].

Example C41_nonvacuous :
  supported C41_example = true /\ known_bounds C41_example = false
  /\ known_multi_dim C41_example = false
  /\ keys_of (shape_of_defs [] C41_example) = [("Reading", ["sensor"]); ("Leaf", [])]
  /\ ids_of (shape_of_defs [] C41_example)
     = [("Reading", [("sensor", None); ("values", Some "7"); ("note", None); ("raw", None); ("flags", None)]);
        ("Leaf", [("pick", None)])]
  /\ exists items, compile_defs C41_example = Ok items /\ length items = 5%nat
                   /\ shape_of_items 0 items = shape_of_defs [] C41_example.
Proof.
  repeat split; try (vm_compute; reflexivity).
  eexists. split; [vm_compute; reflexivity|]. split; vm_compute; reflexivity.
Qed.

Print Assumptions C41_idl_structure_preserved.
Print Assumptions C41_structure_preserved_upto_classes.
Print Assumptions C41_everything_but_bounds_preserved.
Print Assumptions C41_compile_total_on_supported.
Print Assumptions C41_reserved_word_rejected.
Print Assumptions C41_unsupported_construct_panics.
Print Assumptions C41_names_and_nesting_preserved.
Print Assumptions C41_enumerators_preserved.
Print Assumptions C41_union_labels_preserved.
Print Assumptions C41_member_order_preserved.
Print Assumptions C41_keys_preserved.
Print Assumptions C41_member_ids_preserved.
Print Assumptions C41_optionals_preserved.
Print Assumptions C41_extensibility_base_name_preserved.
Print Assumptions C41_unions_aliases_consts_preserved.
Print Assumptions C41_bounds_clause_refuted.
Print Assumptions C41_annotations_reach_every_declarator.
Print Assumptions C41_kinds_refuted_for_multi_dim_array.
Print Assumptions C41_all_attributes_are_read.
Print Assumptions C41_preprocess_identity_without_directives.
Print Assumptions C41_ifdef_gates.
Print Assumptions C41_all_gated_out_rejected.
Print Assumptions C41_oracle_sound.
