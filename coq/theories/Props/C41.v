From DustDDS Require Import Base.Machine Lang.IdlModel Lang.IdlProofs.
Open Scope string_scope.
Open Scope list_scope.

Theorem C41_fwd : forall mods u n, gen_def mods (DFwd u n) = Some [].
Proof. exact fwd_generates_nothing. Qed.

Print Assumptions C41_fwd.
