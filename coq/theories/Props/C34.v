(* C34 — Worker channels never lose values or wake-ups. *)
From DustDDS Require Import Base.Machine Sched.ChannelsModel Sched.ChannelsProofs.
Open Scope Z_scope.

Theorem C34_mpsc_fifo_exactly_once :
  forall ops,
    recv_vals (trace mpsc_step mpsc_init ops) ++ mi_data (m_in (run mpsc_step mpsc_init ops))
    = sent_vals (trace mpsc_step mpsc_init ops).
Proof. exact mpsc_fifo_exactly_once. Qed.

Print Assumptions C34_mpsc_fifo_exactly_once.
