(* C34 — Worker channels never lose values or wake-ups.
   Property file: statements, `exact`, non-vacuity examples, assumptions.

   Reading guide.  `oneshot_step`, `mpsc_step`, `notif_step` (Sched/ChannelsModel.v) execute ONE
   critical_section::with body of oneshot.rs / mpsc.rs / notification.rs through a named sender
   handle, the receiver, or a waker token.  `run step init ops` is the state after the list of
   steps `ops`, `trace step init ops` pairs every step with what it returned (return value and the
   wakers it woke).  Every body is atomic, so a list of steps over several handles IS an
   interleaving of the threads that own them: `forall ops` = for all interleavings (unbounded).
     sent_vals tr  values of the accepted sends, in order
     recv_vals tr  values returned by polls (Ready), in order
     wakes tr      waker tokens woken, in order
   A step through a handle that Rust's ownership rules no longer allow to be used (moved into
   send(), dropped) returns RSkip and changes nothing. *)
From DustDDS Require Import Base.Machine Sched.ChannelsModel Sched.ChannelsProofs.
Open Scope Z_scope.

(* ================================================================== mpsc *)

(* exactly once + FIFO + nothing invented: what was received, followed by what is still
   queued, is exactly what was sent, in order *)
Theorem C34_mpsc_fifo_exactly_once :
  forall ops,
    recv_vals (trace mpsc_step mpsc_init ops) ++ mi_data (m_in (run mpsc_step mpsc_init ops))
    = sent_vals (trace mpsc_step mpsc_init ops).
Proof. exact mpsc_fifo_exactly_once. Qed.

(* a poll of the live receiver returns the oldest value sent and not yet received *)
Theorem C34_mpsc_poll_delivers_oldest :
  forall ops w v rest,
    m_recv (run mpsc_step mpsc_init ops) = true ->
    sent_vals (trace mpsc_step mpsc_init ops) = recv_vals (trace mpsc_step mpsc_init ops) ++ v :: rest ->
    o_ret (snd (mpsc_step (run mpsc_step mpsc_init ops) (Poll w))) = RReady v.
Proof. exact mpsc_delivers. Qed.

(* a send through a live handle is always accepted *)
Theorem C34_mpsc_send_accepted :
  forall ops h v,
    hget (m_senders (run mpsc_step mpsc_init ops)) h = HLive ->
    o_ret (snd (mpsc_step (run mpsc_step mpsc_init ops) (Send h v))) = RUnit.
Proof. exact mpsc_send_accepted. Qed.

(* no lost wake-up: the poll after `pre` returned Pending with waker w; `mid` is any further
   interleaving without a poll; if a poll after `mid` would be Ready, then w was woken during `mid` *)
Theorem C34_mpsc_no_lost_wakeup :
  forall pre w mid w',
    let s0 := run mpsc_step mpsc_init pre in
    let s1 := fst (mpsc_step s0 (Poll w)) in
    o_ret (snd (mpsc_step s0 (Poll w))) = RPending ->
    no_poll mid = true ->
    is_ready (o_ret (snd (mpsc_step (run mpsc_step s1 mid) (Poll w')))) = true ->
    In w (wakes (trace mpsc_step s1 mid)).
Proof. exact mpsc_no_lost_wakeup. Qed.

(* wake for every send: a send that finds the receiver still parked wakes exactly its waker *)
Theorem C34_mpsc_send_wakes_parked_receiver :
  forall pre w mid h v,
    let s1 := fst (mpsc_step (run mpsc_step mpsc_init pre) (Poll w)) in
    o_ret (snd (mpsc_step (run mpsc_step mpsc_init pre) (Poll w))) = RPending ->
    no_poll mid = true -> ~ In w (wakes (trace mpsc_step s1 mid)) ->
    o_ret (snd (mpsc_step (run mpsc_step s1 mid) (Send h v))) = RUnit ->
    o_woke (snd (mpsc_step (run mpsc_step s1 mid) (Send h v))) = [w].
Proof. exact mpsc_send_wakes_parked. Qed.

(* disconnection is reported exactly when every sender handle (original and clones) has been
   dropped and nothing sent is outstanding: queued values are still delivered first
   (fixed in /repo commit 112abf8; before it this clause was false for mpsc) *)
Theorem C34_mpsc_disconnect_iff :
  forall ops w,
    m_recv (run mpsc_step mpsc_init ops) = true ->
    (o_ret (snd (mpsc_step (run mpsc_step mpsc_init ops) (Poll w))) = RClosed <->
     all_dropped (m_senders (run mpsc_step mpsc_init ops)) = true /\
     recv_vals (trace mpsc_step mpsc_init ops) = sent_vals (trace mpsc_step mpsc_init ops)).
Proof. exact mpsc_disconnect_iff. Qed.

(* sender_count is the number of sender handles not yet dropped; is_closed is set exactly
   when all of them have been dropped *)
Theorem C34_mpsc_sender_count :
  forall ops,
    mi_count (m_in (run mpsc_step mpsc_init ops)) = live_count (m_senders (run mpsc_step mpsc_init ops)) /\
    mi_closed (m_in (run mpsc_step mpsc_init ops)) = all_dropped (m_senders (run mpsc_step mpsc_init ops)).
Proof. exact (fun ops => conj (mpsc_count ops) (mpsc_closed_iff ops)). Qed.

(* `sender_count += 1` / `-= 1` never overflow or underflow *)
Theorem C34_mpsc_no_panic :
  forall ops, Z.of_nat (length ops) < u64_max -> panics (trace mpsc_step mpsc_init ops) = false.
Proof. exact mpsc_no_panic. Qed.

(* the whole property (trace monitor `oracle`, ChannelsModel.v: accepted sends, oldest-first
   delivery, Closed exactly when all senders are dropped and nothing is outstanding, never a
   parked receiver while a poll would be Ready, no panic) holds for every mpsc history *)
Theorem C34_mpsc_property :
  forall ops, Z.of_nat (length ops) < u64_max ->
    oracle KMpsc (trace mpsc_step mpsc_init ops) = true.
Proof. exact mpsc_oracle. Qed.

(* =============================================================== oneshot *)

(* at most one value is ever sent; it is received at most once, and until then it is stored *)
Theorem C34_oneshot_exactly_once :
  forall ops,
    recv_vals (trace oneshot_step oneshot_init ops)
      ++ opt_list (oi_data (o_in (run oneshot_step oneshot_init ops)))
    = sent_vals (trace oneshot_step oneshot_init ops)
    /\ (length (sent_vals (trace oneshot_step oneshot_init ops)) <= 1)%nat.
Proof. exact oneshot_exactly_once. Qed.

(* a value sent and not yet received is returned by the next poll *)
Theorem C34_oneshot_poll_delivers :
  forall ops w v,
    o_recv (run oneshot_step oneshot_init ops) = true ->
    sent_vals (trace oneshot_step oneshot_init ops) = [v] ->
    recv_vals (trace oneshot_step oneshot_init ops) = [] ->
    o_ret (snd (oneshot_step (run oneshot_step oneshot_init ops) (Poll w))) = RReady v.
Proof. exact oneshot_delivers. Qed.

Theorem C34_oneshot_no_lost_wakeup :
  forall pre w mid w',
    let s0 := run oneshot_step oneshot_init pre in
    let s1 := fst (oneshot_step s0 (Poll w)) in
    o_ret (snd (oneshot_step s0 (Poll w))) = RPending ->
    no_poll mid = true ->
    is_ready (o_ret (snd (oneshot_step (run oneshot_step s1 mid) (Poll w')))) = true ->
    In w (wakes (trace oneshot_step s1 mid)).
Proof. exact oneshot_no_lost_wakeup. Qed.

(* disconnection is reported exactly when the sender has been dropped and no sent value is
   outstanding (in particular: dropped without sending) *)
Theorem C34_oneshot_disconnect_iff :
  forall ops w,
    o_recv (run oneshot_step oneshot_init ops) = true ->
    (o_ret (snd (oneshot_step (run oneshot_step oneshot_init ops) (Poll w))) = RClosed <->
     all_dropped (o_senders (run oneshot_step oneshot_init ops)) = true /\
     recv_vals (trace oneshot_step oneshot_init ops) = sent_vals (trace oneshot_step oneshot_init ops)).
Proof. exact oneshot_disconnect_iff. Qed.

Theorem C34_oneshot_property :
  forall ops, oracle KOneshot (trace oneshot_step oneshot_init ops) = true.
Proof. exact oneshot_oracle. Qed.

(* ========================================================== notification *)

(* sender_count is the number of sender handles not yet dropped (anchor: bookkeeping on drop) *)
Theorem C34_notification_sender_count :
  forall ops,
    ni_count (n_in (run notif_step notif_init ops)) = live_count (n_senders (run notif_step notif_init ops)).
Proof. exact notif_count. Qed.

(* `sender_count += 1` / `-= 1` never overflow or underflow (debug profile: never panic) *)
Theorem C34_notification_no_panic :
  forall ops, Z.of_nat (length ops) < u64_max -> panics (trace notif_step notif_init ops) = false.
Proof. exact notif_no_panic. Qed.

(* no notification is lost or duplicated: the flag is set exactly when at least one notify
   happened since the last successful poll (notifications coalesce, by design) *)
Theorem C34_notification_flag_exact :
  forall ops,
    ni_notified (n_in (run notif_step notif_init ops)) = pending_notify (trace notif_step notif_init ops).
Proof. exact notif_flag. Qed.

Theorem C34_notification_poll_delivers :
  forall ops w,
    n_recv (run notif_step notif_init ops) = true ->
    pending_notify (trace notif_step notif_init ops) = true ->
    o_ret (snd (notif_step (run notif_step notif_init ops) (Poll w))) = RReady 0.
Proof. exact notif_delivers. Qed.

Theorem C34_notification_ready_only_if_notified :
  forall ops w v,
    o_ret (snd (notif_step (run notif_step notif_init ops) (Poll w))) = RReady v ->
    pending_notify (trace notif_step notif_init ops) = true /\ v = 0.
Proof. exact notif_ready_only_if_notified. Qed.

Theorem C34_notification_no_lost_wakeup :
  forall pre w mid w',
    let s0 := run notif_step notif_init pre in
    let s1 := fst (notif_step s0 (Poll w)) in
    o_ret (snd (notif_step s0 (Poll w))) = RPending ->
    no_poll mid = true ->
    is_ready (o_ret (snd (notif_step (run notif_step s1 mid) (Poll w')))) = true ->
    In w (wakes (trace notif_step s1 mid)).
Proof. exact notif_no_lost_wakeup. Qed.

(* disconnection is reported exactly when every sender handle (original and clones) has been
   dropped and no notification is outstanding *)
Theorem C34_notification_disconnect_iff :
  forall ops w,
    n_recv (run notif_step notif_init ops) = true ->
    (o_ret (snd (notif_step (run notif_step notif_init ops) (Poll w))) = RClosed <->
     all_dropped (n_senders (run notif_step notif_init ops)) = true /\
     pending_notify (trace notif_step notif_init ops) = false).
Proof. exact notif_disconnect_iff. Qed.

Theorem C34_notification_property :
  forall ops, Z.of_nat (length ops) < u64_max ->
    oracle KNotif (trace notif_step notif_init ops) = true.
Proof. exact notif_oracle. Qed.

(* ============================== the atomic-section hypothesis is NECESSARY (negative model)
   If OneshotReceiver::poll were two critical sections (test, then register the waker without
   re-checking: `oneshot_split_step`, the granularity of seeded change C34b — not the code of
   /repo), the interleaving  check | send | drop | register  leaves the receiver Pending with
   its waker registered and the value stored, NOBODY was woken, although a poll would be Ready:
   the no-lost-wake-up theorem above is false for that machine.  The correspondence run
   therefore also checks the granularity on the real code (a second thread is released from
   inside poll; ChannelsCorr.v, c_races). *)
Theorem C34_oneshot_split_poll_loses_wakeup :
  forall v : Z,
  let ops := [SPollCheck 1%nat; SAtomic (Send 0%nat v); SAtomic (DropS 0%nat); SPollRegister 1%nat] in
  let s := split_run oneshot_init ops in
  map o_ret (split_outs oneshot_init ops) = [RPending; RUnit; RUnit; RUnit] /\
  flat_map o_woke (split_outs oneshot_init ops) = [] /\
  oi_waker (o_in s) = Some 1%nat /\ oi_data (o_in s) = Some v /\
  o_ret (snd (oneshot_step s (Poll 2%nat))) = RReady v.
Proof. exact oneshot_split_poll_loses_wakeup. Qed.

(* same for the disconnection wake-up: sender dropped inside the window *)
Theorem C34_oneshot_split_poll_loses_disconnect_wakeup :
  let ops := [SPollCheck 1%nat; SAtomic (DropS 0%nat); SPollRegister 1%nat] in
  let s := split_run oneshot_init ops in
  map o_ret (split_outs oneshot_init ops) = [RPending; RUnit; RUnit] /\
  flat_map o_woke (split_outs oneshot_init ops) = [] /\
  oi_waker (o_in s) = Some 1%nat /\
  o_ret (snd (oneshot_step s (Poll 2%nat))) = RClosed.
Proof. exact oneshot_split_poll_loses_disconnect_wakeup. Qed.

(* ============================================================ non-vacuity *)

(* two senders, a parked receiver with waker 7: the send wakes 7, values arrive in order *)
Example C34_mpsc_nonvacuous :
  let pre := [Clone 0%nat] in
  let mid := [Send 1%nat 10; DropS 1%nat; Send 0%nat 20] in
  let s1 := fst (mpsc_step (run mpsc_step mpsc_init pre) (Poll 7%nat)) in
  o_ret (snd (mpsc_step (run mpsc_step mpsc_init pre) (Poll 7%nat))) = RPending /\
  no_poll mid = true /\
  o_ret (snd (mpsc_step (run mpsc_step s1 mid) (Poll 3%nat))) = RReady 10 /\
  wakes (trace mpsc_step s1 mid) = [7%nat] /\
  recv_vals (trace mpsc_step mpsc_init (pre ++ Poll 7%nat :: mid ++ [Poll 3%nat; Poll 3%nat])) = [10; 20] /\
  (* queued value first, then Closed; the last drop wakes the parked receiver *)
  map (fun e => snd e) (trace mpsc_step mpsc_init [Send 0%nat 1; DropS 0%nat; Poll 0%nat; Poll 0%nat])
  = [mkout RUnit []; mkout RUnit []; mkout (RReady 1) []; mkout RClosed []] /\
  map (fun e => snd e) (trace mpsc_step mpsc_init [Poll 5%nat; DropS 0%nat; Poll 6%nat])
  = [mkout RPending []; mkout RUnit [5%nat]; mkout RClosed []].
Proof. vm_compute. repeat split; reflexivity. Qed.

(* oneshot: interleaving poll / send section / poll / drop section / poll *)
Example C34_oneshot_nonvacuous :
  map (fun e => snd e) (trace oneshot_step oneshot_init
        [Poll 1%nat; Send 0%nat 5; Poll 2%nat; DropS 0%nat; Poll 2%nat])
  = [mkout RPending []; mkout RUnit [1%nat]; mkout (RReady 5) []; mkout RUnit []; mkout RClosed []]
  /\ map (fun e => snd e) (trace oneshot_step oneshot_init [Poll 1%nat; DropS 0%nat; Poll 2%nat])
  = [mkout RPending []; mkout RUnit [1%nat]; mkout RClosed []].
Proof. vm_compute. split; reflexivity. Qed.

(* notification: the drop of the LAST clone wakes the parked receiver, which then sees Closed *)
Example C34_notification_nonvacuous :
  map (fun e => snd e) (trace notif_step notif_init
        [Clone 0%nat; Poll 4%nat; DropS 0%nat; Send 1%nat 0; Poll 4%nat; Poll 5%nat; DropS 1%nat; Poll 5%nat])
  = [mkout RUnit []; mkout RPending []; mkout RUnit []; mkout RUnit [4%nat]; mkout (RReady 0) [];
     mkout RPending []; mkout RUnit [5%nat]; mkout RClosed []].
Proof. vm_compute. reflexivity. Qed.

Print Assumptions C34_mpsc_fifo_exactly_once.
Print Assumptions C34_mpsc_poll_delivers_oldest.
Print Assumptions C34_mpsc_send_accepted.
Print Assumptions C34_mpsc_no_lost_wakeup.
Print Assumptions C34_mpsc_send_wakes_parked_receiver.
Print Assumptions C34_mpsc_disconnect_iff.
Print Assumptions C34_mpsc_sender_count.
Print Assumptions C34_mpsc_no_panic.
Print Assumptions C34_mpsc_property.
Print Assumptions C34_oneshot_exactly_once.
Print Assumptions C34_oneshot_poll_delivers.
Print Assumptions C34_oneshot_no_lost_wakeup.
Print Assumptions C34_oneshot_disconnect_iff.
Print Assumptions C34_oneshot_property.
Print Assumptions C34_notification_sender_count.
Print Assumptions C34_notification_no_panic.
Print Assumptions C34_notification_flag_exact.
Print Assumptions C34_notification_poll_delivers.
Print Assumptions C34_notification_ready_only_if_notified.
Print Assumptions C34_notification_no_lost_wakeup.
Print Assumptions C34_notification_disconnect_iff.
Print Assumptions C34_notification_property.
Print Assumptions C34_oneshot_split_poll_loses_wakeup.
Print Assumptions C34_oneshot_split_poll_loses_disconnect_wakeup.
