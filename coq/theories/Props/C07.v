(* C07 (RTPS message part) — the decoder is total.
   Statements over Wire/WireModel.v:
     parse_message bytes   RtpsMessageRead::try_from (header, submessage loop, the 12 parsers)
     C07_known_fnset bytes a NACK_FRAG reached by the loop whose FragmentNumberSet is complete on
                           the wire and has numBits > 256 or a set bit with base + bit > u32::MAX *)
From DustDDS Require Import Base.Machine Base.Bytes Wire.WireModel Wire.WireProofs Wire.WireTotalProofs.
Open Scope Z_scope.

(* for EVERY list of integers (bytes or not) outside the recorded class: a value or an error *)
Theorem C07_parse_message_total : forall bytes,
  C07_known_fnset bytes = false -> is_panic (parse_message bytes) = false.
Proof. exact parse_message_total. Qed.

Print Assumptions C07_parse_message_total.
