From DustDDS Require Import Base.Machine Base.Bytes Wire.WireModel Wire.WireProofs.
Open Scope Z_scope.
Theorem C07_u32_codec : forall x, in_u32 x -> dec_le (enc_le 4 x) = x.
Proof. exact placeholder_u32. Qed.
Print Assumptions C07_u32_codec.
