(* C07 (RTPS message part) — the decoder is total and its memory / work are linear.
   This file covers RtpsMessageRead::try_from only; the discovery parameter-list decoders and
   the XCDR payload decoder named in the property are covered by other checks.
   Statements over Wire/WireModel.v:
     parse_message bytes    RtpsMessageRead::try_from (header, submessage loop with MAX_SUBMESSAGES,
                            the 12 submessage parsers), debug profile
     message_cost bytes     its second output: bytes copied by read_exact + loop iterations +
                            bytes requested from the allocator (modelled struct sizes)
     msg_mem l              heap bytes held by the decoded submessages l
     C07_known_fnset        a NACK_FRAG reached by the loop whose FragmentNumberSet is complete on the
                            wire and has numBits > 256 or a set bit i with base + i > u32::MAX
     C07_known_overread     an INFO_REPLY reached by the loop with 24 * numLocators > submessage_length
     C07_known_rescan       a DATA / DATA_FRAG with submessage_length 0 reached by the loop whose
                            parse returns an error *)
From DustDDS Require Import Base.Machine Base.Bytes Wire.WireModel Wire.WireProofs Wire.WireTotalProofs
  Wire.WireMemProofs Wire.WireCostProofs.
Open Scope Z_scope.

(* for EVERY list of integers (bytes or not) outside the recorded class: a value or an error *)
Theorem C07_parse_message_total : forall bytes,
  C07_known_fnset bytes = false -> is_panic (parse_message bytes) = false.
Proof. exact parse_message_total. Qed.

(* and the class is exactly the failing family: inside it the decoder always panics *)
Theorem C07_panic_class_exact : forall bytes,
  C07_known_fnset bytes = true -> is_panic (parse_message bytes) = true.
Proof. exact parse_message_panics_in_class. Qed.

(* witness (finding C07-fragset-numbits): an 84-byte datagram, NACK_FRAG numBits = 288,
   index 8 of the 8-word bitmap at submessage_elements.rs:151 *)
Theorem C07_fragset_panics :
  len nackfrag_288 = 84 /\ bytes_ok nackfrag_288 /\ C07_known_fnset nackfrag_288 = true /\
  parse_message nackfrag_288 = Panic P_FNSET_INDEX.
Proof. exact fragset_panics. Qed.

(* memory held by the result: at most 26 bytes per input byte, for every byte string outside
   the INFO_REPLY over-read class *)
Theorem C07_decoded_memory_linear : forall bytes h l, bytes_ok bytes ->
  C07_known_overread bytes = false -> parse_message bytes = Ok (h, l) -> msg_mem l <= 26 * len bytes.
Proof. exact decoded_memory_linear. Qed.

(* copy + loop + allocation cost: at most 400 per input byte (+64), for every byte string
   outside the over-read and rescan classes (the allocation of a single try_from call is
   bounded by its cost, hence peak memory too) *)
Theorem C07_message_cost_linear : forall bytes, bytes_ok bytes ->
  C07_known_overread bytes = false -> C07_known_rescan bytes = false ->
  0 <= message_cost bytes <= 400 * len bytes + 64.
Proof. exact message_cost_linear. Qed.

(* inside the classes the bounds are false (findings C07-inforeply-overread, C07-data-rescan) *)
Theorem C07_overread_superlinear :
  len overread_witness = 2068 /\ bytes_ok overread_witness /\ C07_known_overread overread_witness = true /\
  is_ok (parse_message overread_witness) = true /\ decoded_mem overread_witness = 281608 /\
  26 * len overread_witness < decoded_mem overread_witness.
Proof. exact overread_superlinear. Qed.

Theorem C07_rescan_superlinear :
  len rescan_witness = 1044 /\ bytes_ok rescan_witness /\ C07_known_rescan rescan_witness = true /\
  C07_known_overread rescan_witness = false /\ is_ok (parse_message rescan_witness) = true /\
  decoded_mem rescan_witness = 0 /\
  COST_C * len rescan_witness + COST_K < message_cost rescan_witness.
Proof. exact rescan_superlinear. Qed.

(* non-vacuity: a mutated datagram with three submessages is outside all classes and decodes *)
Example C07_nonvacuous :
  let b := hdr20 ++ [9;1;8;0; 4;0;0;0; 5;0;0;0] ++ [18;1;28;0; 1;2;3;4; 6;7;8;9; 0;0;0;0; 9;0;0;0; 2;0;0;0; 0;1;0;0] ++
           [21;7;0;0; 0;0;16;0; 1;2;3;4; 6;7;8;9; 0;0;0;0; 5;0;0;0; 2;0;4;0; 1;2;3;4; 1;0;0;0; 170;187] in
  bytes_ok b /\ C07_known_fnset b = false /\ C07_known_overread b = false /\ C07_known_rescan b = false /\
  is_ok (parse_message b) = true.
Proof.
  cbv zeta. split; [apply bytes_okb_true; vm_compute; reflexivity|].
  split; [vm_compute; reflexivity|]. split; [vm_compute; reflexivity|]. split; vm_compute; reflexivity.
Qed.

Print Assumptions C07_parse_message_total.
Print Assumptions C07_panic_class_exact.
Print Assumptions C07_fragset_panics.
Print Assumptions C07_decoded_memory_linear.
Print Assumptions C07_message_cost_linear.
Print Assumptions C07_overread_superlinear.
Print Assumptions C07_rescan_superlinear.
