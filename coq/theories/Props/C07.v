(* C07 (RTPS message part) — the decoder is total and its memory / work are linear.
   This file covers RtpsMessageRead::try_from; the discovery parameter-list decoders of the
   property are covered by the theorems C13_decode_total_* (Props/C13.v), the XCDR payload
   decoder by its own check.
   Statements over Wire/WireModel.v (the code after the repairs 221c5f8 and 0cb9fa7):
     parse_message bytes    RtpsMessageRead::try_from (header, submessage loop with MAX_SUBMESSAGES,
                            each parser handed exactly the bytes of its submessage), debug profile
     message_cost bytes     its second output: bytes copied by read_exact + loop iterations +
                            bytes requested from the allocator (modelled struct sizes)
     msg_mem l              heap bytes held by the decoded submessages l *)
From DustDDS Require Import Base.Machine Base.Bytes Wire.WireModel Wire.WireProofs Wire.WireTotalProofs
  Wire.WireMemProofs Wire.WireCostProofs.
Open Scope Z_scope.

(* for EVERY input (any list of integers, bytes or not): a value or an error, never a panic *)
Theorem C07_parse_message_total : forall bytes, is_panic (parse_message bytes) = false.
Proof. exact parse_message_total. Qed.

(* memory held by the result: at most 26 bytes per input byte, for every input *)
Theorem C07_decoded_memory_linear : forall bytes h l,
  parse_message bytes = Ok (h, l) -> msg_mem l <= 26 * len bytes.
Proof. exact decoded_memory_linear. Qed.

(* copy + loop + allocation cost: at most 400 per input byte (+64), for every input (the
   allocation of one try_from call is bounded by its cost, hence peak memory too) *)
Theorem C07_message_cost_linear : forall bytes, 0 <= message_cost bytes <= 400 * len bytes + 64.
Proof. exact message_cost_linear. Qed.

(* non-vacuity and regression: a datagram with three submessages decodes; the 84-byte
   NACK_FRAG with numBits = 288 that used to panic is skipped (InvalidData inside) *)
Example C07_nonvacuous :
  let hdr20 := [82; 84; 80; 83; 2; 3; 1; 2; 0; 1; 2; 3; 4; 5; 6; 7; 8; 9; 10; 11] in
  let b := hdr20 ++ [9;1;8;0; 4;0;0;0; 5;0;0;0] ++ [18;1;28;0; 1;2;3;4; 6;7;8;9; 0;0;0;0; 9;0;0;0; 2;0;0;0; 0;0;0;0; 7;0;0;0] ++
           [21;7;0;0; 0;0;16;0; 1;2;3;4; 6;7;8;9; 0;0;0;0; 5;0;0;0; 2;0;4;0; 1;2;3;4; 1;0;0;0; 170;187] in
  let nf288 := hdr20 ++ [18; 1; 60; 0] ++ [1;2;3;4] ++ [6;7;8;9] ++ [0;0;0;0; 9;0;0;0] ++ [2;0;0;0] ++ [32;1;0;0] ++
               repeat 0 32 ++ [7;0;0;0] in
  (match parse_message b with Ok (_, l) => len l | _ => -1 end) = 3 /\
  len nf288 = 84 /\ (match parse_message nf288 with Ok (_, l) => len l | _ => -1 end) = 0.
Proof. cbv zeta. split; [vm_compute; reflexivity|]. split; vm_compute; reflexivity. Qed.

Print Assumptions C07_parse_message_total.
Print Assumptions C07_decoded_memory_linear.
Print Assumptions C07_message_cost_linear.
