(* C36 — Entity deletion follows DDS preconditions.  Property file: statements, `exact`, assumptions.
   Model: Entity/EntityModel.v (factory = list of participants, each with its publisher / subscriber / topic /
   content-filtered-topic lists; fstep = the effect of one mail; a proxy object of the API only carries handles
   and, for topics, the name). *)
From DustDDS Require Import Base.Machine Entity.EntityModel Entity.EntityLemmas Entity.C36Proofs Entity.C35Proofs
     Entity.NoReuseRun Entity.C36History.
Open Scope Z_scope.

(* --- "Deleting an entity that still contains entities ... fails with PreconditionNotMet and changes nothing" *)
Theorem C36_nonempty_participant_delete_fails_unchanged :
  forall pr f ph p, find_part f ph = Some p -> part_is_empty p = false ->
    fstep pr f (FDeletePart ph) = (f, RErr E_PRECONDITION).
Proof. exact delete_part_nonempty. Qed.

Theorem C36_nonempty_publisher_subscriber_delete_fails_unchanged :
  forall pr f sd ph parent gh p g,
    find_part f ph = Some p -> find_first (is_group gh) (groups sd p) = Some g -> g_eps g <> [] ->
    fstep pr f (FDeleteGroup sd ph parent gh) = (f, RErr E_PRECONDITION).
Proof. exact delete_group_nonempty. Qed.

(* --- "... or a topic still used by a reader or writer" *)
Theorem C36_topic_in_use_delete_fails_unchanged :
  forall pr f ph parent name p,
    find_part f ph = Some p -> In name (map t_name (pa_topics p)) ->
    (exists g e, (In g (pa_pubs p) \/ In g (pa_subs p)) /\ In e (g_eps g) /\ e_topic e = name) ->
    fstep pr f (FDeleteTopic ph parent name) = (f, RErr E_PRECONDITION).
Proof. exact delete_topic_in_use. Qed.

(* any failed delete leaves the whole factory state untouched *)
Theorem C36_failed_delete_changes_nothing :
  forall pr f o f' c,
    (match o with
     | FDeletePart _ | FDeleteGroup _ _ _ _ | FDeleteTopic _ _ _ | FDeleteEp _ _ _ _ | FDeleteCft _ _ => True
     | _ => False end) ->
    fstep pr f o = (f', RErr c) -> f' = f.
Proof. exact failed_delete_changes_nothing. Qed.

(* --- "Operations on deleted entities fail with AlreadyDeleted": whatever is not in the tree *)
Theorem C36_operation_on_missing_entity_is_already_deleted :
  forall pr f o, target_missing f o = true -> fstep pr f o = (f, RErr E_DELETED).
Proof. exact op_on_missing_entity. Qed.

(* ... and for ALL histories: an entity handle that existed (after opsA) and is gone (after opsB) is never issued
   again (after any opsC); any_ovf = the u32 participant instance number of the factory has wrapped, i.e. 2^32
   participants were created ... *)
Theorem C36_deleted_entity_never_returns :
  forall pr opsA opsB opsC h,
    let fA := fst (frun pr init_factory opsA) in
    let fB := fst (frun pr fA opsB) in
    let fC := fst (frun pr fB opsC) in
    any_ovf fC = false ->
    In h (all_handles fA) -> ~ In h (all_handles fB) -> ~ In h (all_handles fC).
Proof. exact deleted_handle_never_returns. Qed.

(* ... hence every operation that names the handle of a deleted participant, publisher, subscriber, writer or
   reader (as the participant the mail is routed to, as the publisher/subscriber or as the writer/reader; a
   delete_publisher/subscriber through its own participant) returns AlreadyDeleted for ever and changes nothing. *)
Theorem C36_operations_on_deleted_entities_fail_for_ever :
  forall pr opsA opsB opsC h o,
    let fA := fst (frun pr init_factory opsA) in
    let fB := fst (frun pr fA opsB) in
    let fC := fst (frun pr fB opsC) in
    any_ovf fC = false ->
    In h (all_handles fA) -> ~ In h (all_handles fB) ->
    names_handle o h = true ->
    fstep pr fC o = (fC, RErr E_DELETED).
Proof. exact operations_on_deleted_entities. Qed.

(* Topics are addressed by NAME: the proxy of a deleted topic answers again once the name is reused
   (known finding C36-topic-proxy-by-name); until then it is covered by the theorem on missing entities. *)
Theorem C36_deleted_topic_proxy_answers_again_after_name_reuse :
  let q5 := mkEQ 0 None (Some 0) 0 None 0 (Some 100000000) 0 (Some 5) None None None 0 None 0 0 0 (Some 0) 0 true None in
  snd (frun Debug init_factory
         [FCreatePart None; FCreateTopic (part_handle 0) 1 None; FDeleteTopic (part_handle 0) (part_handle 0) 1;
          FGetTopicQos (part_handle 0) 1; FCreateTopic (part_handle 0) 1 (Some q5); FGetTopicQos (part_handle 0) 1]) =
  [RHandle (part_handle 0); RHandle (mkH 0 0 0 0 10); RUnit; RErr E_DELETED; RHandle (mkH 0 0 1 0 10); REQ q5].
Proof. exact deleted_topic_answers_again_after_name_reuse. Qed.

(* --- deleting through the wrong parent fails and changes nothing *)
Theorem C36_delete_through_wrong_participant_fails :
  forall pr f sd ph parent gh name p, find_part f ph = Some p -> parent <> pa_h p ->
    fstep pr f (FDeleteGroup sd ph parent gh) = (f, RErr E_PRECONDITION) /\
    fstep pr f (FDeleteTopic ph parent name) = (f, RErr E_PRECONDITION).
Proof.
  intros; split; [eapply delete_group_wrong_participant|eapply delete_topic_wrong_participant]; eauto.
Qed.

Theorem C36_delete_endpoint_through_wrong_group_fails :
  forall pr f sd ph gh eh p g,
    find_part f ph = Some p -> find_first (is_group gh) (groups sd p) = Some g ->
    ~ In eh (map e_h (g_eps g)) ->
    fstep pr f (FDeleteEp sd ph gh eh) = (f, RErr E_DELETED).
Proof. exact delete_ep_wrong_group. Qed.

(* --- "delete_contained_entities leaves the parent empty and deletable" (content filtered topics included,
   since 7cc766b) *)
Theorem C36_delete_contained_leaves_empty_and_deletable :
  forall pr f ph p, find_part f ph = Some p ->
    exists f1 p1,
      fstep pr f (FDeleteContained ph) = (f1, RUnit) /\
      find_part f1 ph = Some p1 /\ pa_pubs p1 = [] /\ pa_subs p1 = [] /\ pa_topics p1 = [] /\ pa_cfts p1 = [] /\
      snd (fstep pr f1 (FDeletePart ph)) = RUnit.
Proof. exact delete_contained_leaves_empty_and_deletable. Qed.

(* --- content filtered topics are contained entities (since 7cc766b): the related topic cannot be deleted while
   one refers to it, and a content filtered topic cannot be deleted while a reader was created on it *)
Theorem C36_topic_with_content_filtered_topic_delete_fails_unchanged :
  forall pr f ph parent name p c,
    find_part f ph = Some p -> In c (pa_cfts p) -> c_rel c = name ->
    exists c0, fstep pr f (FDeleteTopic ph parent name) = (f, RErr c0) /\
               (In name (map t_name (pa_topics p)) -> c0 = E_PRECONDITION).
Proof. exact delete_topic_with_cft. Qed.

Theorem C36_content_filtered_topic_in_use_delete_fails_unchanged :
  forall pr f ph name p g e,
    find_part f ph = Some p -> In name (map c_name (pa_cfts p)) ->
    In g (pa_subs p) -> In e (g_eps g) -> e_topic e = name ->
    fstep pr f (FDeleteCft ph name) = (f, RErr E_PRECONDITION).
Proof. exact delete_cft_in_use. Qed.

(* regression of the former finding C36-cft-not-contained, both profiles: the topic is protected by the content
   filtered topic, the latter is deleted once (then AlreadyDeleted), delete_contained_entities removes a second one
   and the participant can be deleted *)
Theorem C36_content_filtered_topic_regression :
  forall pr,
    let P0 := part_handle 0 in
    snd (frun pr init_factory
           [FCreatePart None; FCreateTopic P0 1 None; FCreateCft P0 (-1) 1; FDeleteTopic P0 P0 1; FDeleteCft P0 (-1);
            FDeleteCft P0 (-1); FCreateCft P0 (-2) 1; FDeleteContained P0; FDeletePart P0]) =
    [RHandle P0; RHandle (mkH 0 0 0 0 10); RUnit; RErr E_PRECONDITION; RUnit; RErr E_DELETED; RUnit; RUnit; RUnit].
Proof. exact cft_is_a_contained_entity. Qed.

(* non-vacuity: a reachable state with a publisher holding a writer meets the hypotheses *)
Example C36_nonvacuous :
  let f := fst (frun Debug init_factory
                  [FCreatePart None; FCreateTopic (part_handle 0) 1 None; FCreateGroup SPub (part_handle 0) None;
                   FCreateEp SPub (part_handle 0) (mkH 0 0 0 0 8) 1 None]) in
  exists p g, find_part f (part_handle 0) = Some p /\ part_is_empty p = false /\
              find_first (is_group (mkH 0 0 0 0 8)) (groups SPub p) = Some g /\ g_eps g <> [] /\
              fstep Debug f (FDeleteGroup SPub (part_handle 0) (part_handle 0) (mkH 0 0 0 0 8))
              = (f, RErr E_PRECONDITION).
Proof. vm_compute. eexists; eexists. repeat split; try reflexivity. discriminate. Qed.

Print Assumptions C36_nonempty_participant_delete_fails_unchanged.
Print Assumptions C36_nonempty_publisher_subscriber_delete_fails_unchanged.
Print Assumptions C36_topic_in_use_delete_fails_unchanged.
Print Assumptions C36_failed_delete_changes_nothing.
Print Assumptions C36_operation_on_missing_entity_is_already_deleted.
Print Assumptions C36_deleted_entity_never_returns.
Print Assumptions C36_operations_on_deleted_entities_fail_for_ever.
Print Assumptions C36_deleted_topic_proxy_answers_again_after_name_reuse.
Print Assumptions C36_delete_through_wrong_participant_fails.
Print Assumptions C36_delete_endpoint_through_wrong_group_fails.
Print Assumptions C36_delete_contained_leaves_empty_and_deletable.
Print Assumptions C36_topic_with_content_filtered_topic_delete_fails_unchanged.
Print Assumptions C36_content_filtered_topic_in_use_delete_fails_unchanged.
Print Assumptions C36_content_filtered_topic_regression.
