(* C03 — wait_for_acknowledgments is sound and eventually completes.
   Model: Proto/RelModel.v.  `ackd s` is the test DataWriter::wait_for_acknowledgments performs
   (is_change_acknowledged(last_change_sequence_number) over the reliable reader proxies) when it is
   called, and again whenever an ACKNACK has been accepted; `npend s` counts the parked callers;
   `delivered s`: the reliable matched reader (if it still exists) has been given every change the
   writer holds and that is relevant for it. *)
From DustDDS Require Import Base.Machine Proto.RelModel Proto.RelProofs Proto.RelSound Proto.RelLive Proto.RelAck Proto.RelWitness.
Open Scope Z_scope.

(* SOUNDNESS for KEEP_ALL writers (no removal from the history cache): for every schedule — any
   faults, fragmented samples included, late joiners, VOLATILE or TRANSIENT_LOCAL — whenever the test
   succeeds, delivery has happened. *)
Theorem C03_wfa_sound_immediate :
  forall cf sched, depth cf = 0 -> forallb not_remove sched = true ->
    let s := run cf init sched in ackd s = true -> delivered s.
Proof. exact wfa_sound_immediate. Qed.

(* ... and a caller parked earlier is only answered (while an ACKNACK is processed) when, at the end of
   that step, delivery has happened *)
Theorem C03_wfa_sound_notified :
  forall cf sched a, depth cf = 0 -> forallb not_remove (sched ++ [a]) = true ->
    let s := run cf init sched in let s' := fst (step cf s a) in
    (npend s' < npend s)%nat -> delivered s'.
Proof. exact wfa_sound_notified. Qed.

(* the statement at full strength (every history QoS) is FALSE on the faithful model (known finding
   C03-gap-skip-ack): KEEP_LAST(1), two instances, history {1,3}, DATA(1) lost, GAP(2) delivered:
   the reader acknowledges up to 3 without ever having received sample 1 *)
Definition C03_wfa_sound_statement : Prop :=
  forall cf sched, let s := run cf init sched in ackd s = true -> delivered s.
Theorem C03_wfa_sound_refuted_gap_skip : ~ C03_wfa_sound_statement.
Proof. exact wfa_sound_full_refuted. Qed.

(* COMPLETION at full strength — after the healing rounds every parked caller has been answered — is
   FALSE (known finding C03-stale-waiter): when the matched reader is deleted (delete_datareader on the
   peer, or deletion of its participant) the RTPS reader proxy is removed, so nobody will ever send an
   ACKNACK again, and the wait list is only re-evaluated when an ACKNACK is accepted: a caller parked
   before the deletion is never answered although a fresh call succeeds at once *)
Definition C03_wfa_completes_statement : Prop :=
  forall cf sched k, (rounds_needed sched <= k)%nat -> npend (run cf init (sched ++ heal k)) = 0%nat.
Theorem C03_wfa_completes_refuted_stale_waiter : ~ C03_wfa_completes_statement.
Proof. exact wfa_completes_full_refuted. Qed.

(* COMPLETION, the proved part (stage 1): KEEP_ALL writer, unfragmented samples, schedules without removal
   from the history cache and without deletion of the reader (all loss / duplication / reordering / delay
   patterns, late joiners), at most 256 samples, at least one sample relevant for the reader: after k + 1
   healing rounds that drain the network and one more healing round that drains it, for a matched RELIABLE
   pair the acknowledgement test holds and no caller of wait_for_acknowledgments is parked any more
   (bounded time: k + 2 heartbeat periods of 250 ms). *)
Theorem C03_wfa_completes_partial :
  forall cf sched k,
    0 < fsz cf -> depth cf = 0 -> forallb (live_act cf) sched = true ->
    let s1 := run cf init (sched ++ heal (S k)) in
    let s2 := run cf s1 heal_round in
    s_last s2 <= 256 -> s_net s1 = [] -> s_net s2 = [] ->
    (forall p, s_rp s1 = Some p -> rp_fr p < s_last s1) ->
    forall p r w, s_rp s2 = Some p -> rp_rel p = true -> s_rd s2 = Some r -> rd_wp r = Some w ->
      ackd s2 = true /\ npend s2 = 0%nat.
Proof. exact wfa_completes_unfragmented. Qed.

Theorem C03_stale_waiter_witness_reader :
  let s := run cf_plain init (sched_stale ADelReader) in
  s_rp s = None /\ s_dcps s = false /\ s_net s = [] /\
  snd (step cf_plain s AWfaPoll) = OPoll [1] /\ snd (step cf_plain s AWfa) = OCode 0.
Proof. exact stale_waiter_witness_reader. Qed.
Theorem C03_stale_waiter_witness_participant :
  let s := run cf_plain init (sched_stale ADelPart) in
  s_rp s = None /\ s_dcps s = false /\ s_net s = [] /\
  snd (step cf_plain s AWfaPoll) = OPoll [1] /\ snd (step cf_plain s AWfa) = OCode 0.
Proof. exact stale_waiter_witness_participant. Qed.

(* non-vacuity: a parked caller is answered by the healing round that repairs a lost DATA *)
Example C03_nonvacuous :
  let s := run cf_small init ([AMatch true false; AWrite 1 24 11; AWrite 2 24 22; AWrite 1 24 33;
                               ADrop 0; ADeliver 1; ADup 0; AWfa] ++ heal 1) in
  presented s = s_log s /\ s_net s = [] /\ length (s_log s) = 3%nat /\ snd (step cf_small s AWfaPoll) = OPoll [0].
Proof. exact heal_example_unfragmented. Qed.

Print Assumptions C03_wfa_sound_immediate.
Print Assumptions C03_wfa_sound_notified.
Print Assumptions C03_wfa_sound_refuted_gap_skip.
Print Assumptions C03_wfa_completes_refuted_stale_waiter.
Print Assumptions C03_wfa_completes_partial.
Print Assumptions C03_stale_waiter_witness_reader.
Print Assumptions C03_stale_waiter_witness_participant.
