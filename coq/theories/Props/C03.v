(* C03 — wait_for_acknowledgments is sound and eventually completes.
   Model: Proto/RelModel.v.  `ackd s` is the test DataWriter::wait_for_acknowledgments performs
   (is_change_acknowledged(last_change_sequence_number) over the reliable reader proxies) when it is
   called, and again whenever an ACKNACK has been accepted; `npend s` counts the parked callers;
   `delivered s`: the reliable matched reader (if it still exists) has been given every change the
   writer holds and that is relevant for it. *)
From DustDDS Require Import Base.Machine Proto.RelModel Proto.RelProofs Proto.RelSound Proto.RelSoundG Proto.RelLive Proto.RelAck Proto.RelAckH Proto.RelWitness
  Proto.MultiModel Proto.MultiProofs.
Open Scope Z_scope.

(* SOUNDNESS, unbounded: every configuration (KEEP_ALL or KEEP_LAST, any number of instances, any
   durability) and EVERY schedule - any faults, fragmented samples, removals from the history cache, late
   joiners, deletions: whenever the test succeeds, delivery has happened.  (Former finding C03-gap-skip-ack,
   repaired by 91937ff.) *)
Theorem C03_wfa_sound :
  forall cf sched, let s := run cf init sched in ackd s = true -> delivered s.
Proof. exact wfa_sound. Qed.

(* ... and a caller parked earlier is only answered (while an ACKNACK is processed or the reader proxy is
   removed) when, at the end of that step, delivery has happened *)
Theorem C03_wfa_sound_notified :
  forall cf sched a,
    let s := run cf init sched in let s' := fst (step cf s a) in
    (npend s' < npend s)%nat -> delivered s'.
Proof. exact wfa_sound_answered. Qed.

(* NO STALE WAITER, unbounded: every configuration and EVERY schedule: whenever the acknowledgement test
   holds, nobody is parked in wait_for_acknowledgments - the wait list is re-evaluated at every point where
   the test can become true.  (Former finding C03-stale-waiter, repaired by 66b3297.) *)
Theorem C03_wfa_no_stale_waiter :
  forall cf sched, let s := run cf init sched in ackd s = true -> npend s = 0%nat.
Proof. exact wfa_no_stale_waiter. Qed.

(* COMPLETION after deletion: once the reader proxy is gone (delete_datareader on the peer, or deletion of
   its participant, at any point of any schedule) every caller has been answered *)
Theorem C03_wfa_completes_after_deletion :
  forall cf sched, let s := run cf init sched in s_rp s = None -> npend s = 0%nat.
Proof. exact wfa_completes_after_deletion. Qed.

(* COMPLETION while the reader stays matched, the proved part: ANY history QoS (KEEP_ALL, KEEP_LAST(d) with any
   number of instances: histories with holes), unfragmented samples, schedules without explicit removal from the
   history cache and without deletion of the reader (all loss / duplication / reordering / delay patterns, late
   joiners), at most 256 samples, at least one sample relevant for the reader: after k + 1 healing rounds that
   drain the network and one more healing round that drains it, for a matched RELIABLE pair the
   acknowledgement test holds and no caller of wait_for_acknowledgments is parked any more (bounded time:
   k + 2 heartbeat periods of 250 ms).  `_partial`: fragmented samples are not covered by the theorem. *)
Theorem C03_wfa_completes_partial :
  forall cf sched k,
    0 < fsz cf -> forallb (live_act cf) sched = true ->
    let s1 := run cf init (sched ++ heal (S k)) in
    let s2 := run cf s1 heal_round in
    s_last s2 <= 256 -> s_net s1 = [] -> s_net s2 = [] ->
    (forall p, s_rp s1 = Some p -> rp_fr p < s_last s1) ->
    forall p r w, s_rp s2 = Some p -> rp_rel p = true -> s_rd s2 = Some r -> rd_wp r = Some w ->
      ackd s2 = true /\ npend s2 = 0%nat.
Proof. exact wfa_completes_holes. Qed.

(* SEVERAL READERS AND WRITERS.  Proto/MultiModel.v: W RELIABLE KEEP_ALL writers of one publisher, R RELIABLE
   readers in participants of their own; the model is the product of single-pair machines plus what the pairs
   share (one datagram queue, the wait list of every writer - its test ranges over ALL reader proxies of the
   writer -, the sample cache of every reader).  `mackd w` = the test of wait_for_acknowledgments of writer w,
   `mdelivered w` = every reader matched with w has been given every change w holds that is relevant for it,
   `mnpend w` = callers of writer w still parked. *)

(* PROJECTION: in every state the product can reach, the state of every (writer, reader) pair is a state the
   single-pair model can reach: everything proved above for one pair holds for every pair *)
Theorem C03_pairs_are_single_runs :
  forall cf nw nr sched p,
    In p (m_pairs (mrun cf (minit nw nr) sched)) -> exists sched', pr_st p = run cf init sched'.
Proof. exact pairs_are_single_runs. Qed.

(* SOUNDNESS for any number of matched readers, every schedule (per-reader loss, delay, reordering, late joiners):
   whenever the test of writer w succeeds, EVERY reader matched with w has been given everything relevant *)
Theorem C03_wfa_sound_all_readers :
  forall cf nw nr sched w,
    let ms := mrun cf (minit nw nr) sched in mackd w ms = true -> mdelivered w ms.
Proof. exact mwfa_sound. Qed.

(* ... and a parked caller of writer w is only answered - while the ACKNACK of ONE reader is processed - when at the
   end of that step EVERY reader matched with w has been given everything relevant *)
Theorem C03_wfa_sound_all_readers_notified :
  forall cf nw nr sched a w,
    let ms := mrun cf (minit nw nr) sched in let ms' := fst (mstep cf ms a) in
    (mnpend w ms' < mnpend w ms)%nat -> mdelivered w ms'.
Proof. exact mwfa_sound_answered. Qed.

(* non-vacuity: two readers, the DATA for reader 0 is lost, reader 1 receives and acknowledges: the caller stays
   parked; one healing round later reader 0 has the sample too and the caller is answered *)
Example C03_nonvacuous_two_readers :
  let cf := mkCfg 1344 true false 0 in
  let l := [MMatch 0 false; MMatch 1 false; MWrite 0 1 24 11; MWfa 0; MDrop 0; MDeliver 0; MDeliver 0] in
  let ms1 := mrun cf (minit 1 2) l in
  let ms2 := mrun cf (minit 1 2) (l ++ [MTick; MTick; MTick; MTick; MTick; MPump]) in
  (mnpend 0 ms1 = 1%nat /\ mackd 0 ms1 = false /\ m_rcache ms1 = [[]; [mkCh 1 1 24 11]] /\
   snd (mstep cf ms1 MWfaPoll) = MOPoll [1]) /\
  (mnpend 0 ms2 = 0%nat /\ mackd 0 ms2 = true /\ m_rcache ms2 = [[mkCh 1 1 24 11]; [mkCh 1 1 24 11]] /\
   snd (mstep cf ms2 MWfaPoll) = MOPoll [0]).
Proof. vm_compute. repeat split; reflexivity. Qed.

(* the schedules that exposed C03-stale-waiter, on the repaired code (replayed on the real stack by the corpus) *)
Theorem C03_stale_waiter_repaired_reader :
  let s0 := run cf_plain init [AMatch true false; AWrite 1 24 11; ADrop 0; AWfa] in
  let s := run cf_plain init (sched_stale ADelReader) in
  npend s0 = 1%nat /\ s_rp s = None /\ s_dcps s = false /\ npend s = 0%nat /\
  snd (step cf_plain s AWfaPoll) = OPoll [0] /\ snd (step cf_plain s AWfa) = OCode 0.
Proof. exact stale_waiter_repaired_reader. Qed.

Theorem C03_stale_waiter_repaired_participant :
  let s0 := run cf_plain init [AMatch true false; AWrite 1 24 11; ADrop 0; AWfa] in
  let s := run cf_plain init (sched_stale ADelPart) in
  npend s0 = 1%nat /\ s_rp s = None /\ s_dcps s = false /\ npend s = 0%nat /\
  snd (step cf_plain s AWfaPoll) = OPoll [0] /\ snd (step cf_plain s AWfa) = OCode 0.
Proof. exact stale_waiter_repaired_participant. Qed.

(* non-vacuity: a parked caller is answered by the healing round that repairs a lost DATA *)
Example C03_nonvacuous :
  let s := run cf_small init ([AMatch true false; AWrite 1 24 11; AWrite 2 24 22; AWrite 1 24 33;
                               ADrop 0; ADeliver 1; ADup 0; AWfa] ++ heal 1) in
  presented s = s_log s /\ s_net s = [] /\ length (s_log s) = 3%nat /\ snd (step cf_small s AWfaPoll) = OPoll [0].
Proof. exact heal_example_unfragmented. Qed.

Print Assumptions C03_wfa_sound.
Print Assumptions C03_wfa_sound_notified.
Print Assumptions C03_wfa_no_stale_waiter.
Print Assumptions C03_wfa_completes_after_deletion.
Print Assumptions C03_wfa_completes_partial.
Print Assumptions C03_pairs_are_single_runs.
Print Assumptions C03_wfa_sound_all_readers.
Print Assumptions C03_wfa_sound_all_readers_notified.
Print Assumptions C03_stale_waiter_repaired_reader.
Print Assumptions C03_stale_waiter_repaired_participant.
