(* C23 — read_next_instance / take_next_instance walk instances in handle order.
   Property file: statements, `exact`, non-vacuity examples, assumptions.

   Reading guide (Cache/ReaderModel.v):
     next_instance r prev            model of DataReaderEntity::next_instance
     next_instance_op r max m prev take
                                     model of UserDefinedDataReader::read_next_instance (take = false) /
                                     take_next_instance (take = true): the `while let Some(next_handle)` loop,
                                     with fuel S (number of instance records)
     collect r max m (Some h) take   read/take of instance h (specified completely by C20)
   and from Cache/C23Proofs.v, Cache/C20Proofs.v
     handles r          := map i_handle (r_insts r)
     gt_prev prev h     := h is greater than prev (prev = None: always true)
     sel r m (Some h) s := sample s belongs to instance h and matches the three masks (C20_selection_meaning)
     has_matching r m h := some stored sample is selected by sel r m (Some h)
     next_matching r m prev := the least handle > prev with has_matching (None if there is none)
     walk fuel r max m prev take := the application loop: call next_instance_op, then call it again with
                           prev := instance handle of the returned samples, until no samples are returned
                           (at most fuel times); result = list of (handle, returned collection)
   Everything holds for EVERY cache state r, hence for every state `run q ops` reached by any QoS and
   any operation history, and for all max_samples, masks and previous handles. *)
From Coq Require Import Sorting.Sorted.
From DustDDS Require Import Base.Machine Cache.ReaderModel Cache.ReaderFacts Cache.ReaderCorr
  Cache.C20Proofs Cache.C23Proofs.
Open Scope Z_scope.

(* ---- (a) next_instance: the least instance handle greater than the previous one -------- *)
Theorem C23_next_instance_least :
  forall r prev h,
    next_instance r prev = Some h <->
    In h (map i_handle (r_insts r)) /\ gt_prev prev h = true /\
    forall h', In h' (map i_handle (r_insts r)) -> gt_prev prev h' = true -> h <= h'.
Proof. exact next_instance_least. Qed.

Theorem C23_next_instance_none :
  forall r prev,
    next_instance r prev = None <->
    forall h', In h' (map i_handle (r_insts r)) -> gt_prev prev h' = false.
Proof. exact next_instance_none. Qed.

(* ---- the target instance ---------------------------------------------------------------- *)
Theorem C23_has_matching_meaning :
  forall r m h,
    has_matching r m h = true <-> exists s, In s (r_samples r) /\ sel r m (Some h) s = true.
Proof. exact has_matching_iff. Qed.

Theorem C23_next_matching_least :
  forall r m prev h,
    next_matching r m prev = Some h <->
    In h (map i_handle (r_insts r)) /\ gt_prev prev h = true /\ has_matching r m h = true /\
    forall h', In h' (map i_handle (r_insts r)) -> gt_prev prev h' = true -> has_matching r m h' = true -> h <= h'.
Proof. exact next_matching_some. Qed.

Theorem C23_next_matching_none :
  forall r m prev,
    next_matching r m prev = None <->
    forall h', In h' (map i_handle (r_insts r)) -> gt_prev prev h' = true -> has_matching r m h' = false.
Proof. exact next_matching_none. Qed.

(* ---- (b) read/take_next_instance = read/take of the least handle > prev with matching samples;
   the loop bound S (number of instances) is never the reason for NoData ----------------------- *)
Theorem C23_next_instance_op_spec :
  forall r max m prev take,
    max <> 0 ->
    next_instance_op r max m prev take =
      match next_matching r m prev with
      | Some h => collect r max m (Some h) take
      | None => (r, NoData)
      end.
Proof. exact next_instance_op_spec. Qed.

(* the samples returned: the first max matching samples of that instance, in storage order, all of
   instance h, never empty *)
Theorem C23_next_returns_collection :
  forall r max m prev take h,
    max <> 0 -> next_matching r m prev = Some h ->
    next_instance_op r max m prev take = collect r max m (Some h) take /\
    exists l, snd (collect r max m (Some h) take) = CollOk l /\ l <> [] /\
              l = fill_ranks (map (info_at r) (firstn_z max (filter (sel r m (Some h)) (r_samples r))))
                             (map (info_at r) (firstn_z max (filter (sel r m (Some h)) (r_samples r)))) /\
              Forall (fun x => f_inst x = h) l.
Proof. exact next_returns_collection. Qed.

(* NoData only if no instance with a greater handle has matching samples (or max_samples = 0) *)
Theorem C23_nodata_iff_no_instance :
  forall r max m prev take,
    snd (next_instance_op r max m prev take) = NoData <->
    max = 0 \/ forall h, In h (map i_handle (r_insts r)) -> gt_prev prev h = true -> has_matching r m h = false.
Proof. exact next_nodata_iff. Qed.

Theorem C23_max_samples_zero :
  forall r m prev take, next_instance_op r 0 m prev take = (r, NoData).
Proof. exact next_instance_op_max0. Qed.

(* ---- (c) repeated calls visit every instance with matching samples exactly once ------------- *)
(* for read AND take, every max_samples <> 0, all masks, any starting handle, with no other operation
   in between: the handles visited are strictly increasing (so each at most once), they are exactly
   the instance handles > prev that have matching samples in the state at the start of the walk, and
   each visit returns what read/take of that instance would have returned at the start *)
Theorem C23_walk_visits_each_once :
  forall r max m prev take fuel,
    max <> 0 -> (length (r_insts r) < fuel)%nat ->
    let W := walk fuel r max m prev take in
    StronglySorted Z.lt (map fst W) /\
    (forall h, In h (map fst W) <->
               In h (map i_handle (r_insts r)) /\ gt_prev prev h = true /\ has_matching r m h = true) /\
    (forall h l, In (h, l) W -> snd (collect r max m (Some h) take) = CollOk l).
Proof. exact walk_visits_each_once. Qed.

(* for every QoS and history the instance handles are pairwise distinct and every stored sample has
   its instance record: "instance" and "handle" are the same thing in the statements above *)
Theorem C23_handles_distinct :
  forall q ops,
    (forall s, In s (r_samples (run q ops)) -> In (s_inst s) (map i_handle (r_insts (run q ops)))) /\
    NoDup (map i_handle (r_insts (run q ops))).
Proof. exact reachable_inv. Qed.

(* ---- non-vacuity --------------------------------------------------------------------------- *)
(* the scenario of the fixed defect: instances 1, 2, 3; instance 2 fully read; NOT_READ mask.
   read_next_instance(prev = 1) skips instance 2 and returns instance 3; the walk visits 1 then 3 *)
Example C23_example_skip :
  let r := run q_plain ops_three in
  next_instance r (Some 1) = Some 2 /\ has_matching r not_read_mask 2 = false /\
  next_matching r not_read_mask (Some 1) = Some 3 /\
  (exists r' l, next_instance_op r (-1) not_read_mask (Some 1) false = (r', CollOk l) /\ map f_data l = [102]) /\
  map (fun hl => (fst hl, map f_data (snd hl))) (walk 4 r (-1) not_read_mask None false) = [(1, [100]); (3, [102])] /\
  map (fun hl => (fst hl, map f_data (snd hl))) (walk 4 r 1 all_masks None true) = [(1, [100]); (2, [101]); (3, [102])] /\
  snd (next_instance_op r (-1) not_read_mask (Some 3) false) = NoData.
Proof.
  cbv zeta. split; [vm_compute; reflexivity|]. split; [vm_compute; reflexivity|]. split; [vm_compute; reflexivity|].
  split; [eexists; eexists; split; vm_compute; reflexivity|]. repeat split; vm_compute; reflexivity.
Qed.

Print Assumptions C23_next_instance_least.
Print Assumptions C23_next_instance_none.
Print Assumptions C23_has_matching_meaning.
Print Assumptions C23_next_matching_least.
Print Assumptions C23_next_matching_none.
Print Assumptions C23_next_instance_op_spec.
Print Assumptions C23_next_returns_collection.
Print Assumptions C23_nodata_iff_no_instance.
Print Assumptions C23_max_samples_zero.
Print Assumptions C23_walk_visits_each_once.
Print Assumptions C23_handles_distinct.
