(* C26 — Content-filtered readers present exactly the samples that pass the filter.
   Property file: statements, `exact`, pins, assumptions.
   Model: Cache/FilterModel.v (communication_methods.rs:46-375 as of c4677f2 / 88b96b4, topic_entity.rs:24-45).
     eval_code f s        the filter evaluation of the code for one alive sample (Pass / Fail / Error, or panic)
     spec_eval f s        the property's reading of `member <= %n` / `member = %n` (None = unsupported form)
     run_reader flt gs st the per-reader loop of the worker over the arrival groups gs (one worker step each)
     presented            the samples with valid data in the reader's sample list, in order
     in_domain f c        c is an alive change whose sample the supported form f decides *)
From DustDDS Require Import Base.Machine Cache.FilterModel Cache.FilterProofs.
Open Scope Z_scope.

(* the evaluator computes the DDS predicate for every supported expression, whatever parameter it names *)
Theorem C26_eval_code_eq_spec :
  forall f s b, spec_eval f s = Some b -> eval_code f s = Ok (of_bool b).
Proof. exact eval_code_eq_spec. Qed.

(* (the supported forms are exactly those naming a parameter index n < length params) *)
Theorem C26_spec_defined_index_in_range :
  forall f s b, spec_eval f s = Some b ->
    exists n, spec_index f = Some n /\ (n < length (f_params f))%nat.
Proof. exact spec_eval_index_in_range. Qed.

(* THE PROPERTY: for every supported filter, every list of samples and EVERY arrival grouping the
   reader presents exactly the samples that satisfy the filter, in order *)
Theorem C26_presented_eq_filter_batch :
  forall f groups,
    forallb (forallb (in_domain f)) groups = true ->
    exists st, run_reader (Some f) groups reader_init = Ok st /\
      presented (r_samples st) = map ch_data (filter (spec_true f) (concat groups)).
Proof. exact presented_eq_filter_batch. Qed.

(* a failing sample never costs a passing one: the grouping does not matter at all *)
Theorem C26_grouping_irrelevant :
  forall f g1 g2,
    concat g1 = concat g2 ->
    forallb (forallb (in_domain f)) g1 = true ->
    forallb (forallb (in_domain f)) g2 = true ->
    exists s1 s2, run_reader (Some f) g1 reader_init = Ok s1 /\
                  run_reader (Some f) g2 reader_init = Ok s2 /\
                  presented (r_samples s1) = presented (r_samples s2).
Proof. exact grouping_irrelevant. Qed.

(* a reader on the related (plain) topic presents every sample, whatever its siblings filter *)
Theorem C26_plain_reader_presents_all :
  forall groups, forallb (forallb ch_alive) groups = true ->
    exists st, run_reader None groups reader_init = Ok st /\
      presented (r_samples st) = map ch_data (concat groups).
Proof. exact plain_reader_presents_all. Qed.

Theorem C26_oracle_sound : forall a b, samples_eqb a b = true <-> a = b.
Proof. exact samples_eqb_eq. Qed.

(* non-vacuity, on the witnesses of the two repaired defects: the group [fail; pass] keeps the passing
   sample, and `num = %1` with ["3";"9"] accepts num = 9 *)
Example C26_nonvacuous :
  forallb (forallb (in_domain w_flt)) [[w_ch 9; w_ch 4]; [w_ch 5]] = true /\
  filter (spec_true w_flt) (concat [[w_ch 9; w_ch 4]; [w_ch 5]]) = [w_ch 4; w_ch 5] /\
  (exists st, run_reader (Some w_flt) [[w_ch 9; w_ch 4]; [w_ch 5]] reader_init = Ok st /\
              presented (r_samples st) = [w_sample 4; w_sample 5]) /\
  spec_eval (mkCft w_expr_eq1 [[51]; [57]]) (w_sample 9) = Some true /\
  eval_code (mkCft w_expr_eq1 [[51]; [57]]) (w_sample 9) = Ok Pass.
Proof.
  split; [vm_compute; reflexivity|]. split; [vm_compute; reflexivity|].
  split; [eexists; split; vm_compute; reflexivity|]. split; vm_compute; reflexivity.
Qed.

Print Assumptions C26_eval_code_eq_spec.
Print Assumptions C26_spec_defined_index_in_range.
Print Assumptions C26_presented_eq_filter_batch.
Print Assumptions C26_grouping_irrelevant.
Print Assumptions C26_plain_reader_presents_all.
Print Assumptions C26_oracle_sound.
