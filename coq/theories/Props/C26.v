(* C26 — Content-filtered readers present exactly the samples that pass the filter.
   Property file: statements, `exact`, pins, assumptions.
   Model: Cache/FilterModel.v (communication_methods.rs:46-367, topic_entity.rs:24-45).
     eval_code f s        the filter evaluation of the code for one alive sample (Pass / Fail / Error, or panic)
     spec_eval f s        the property's reading of `member <= %n` / `member = %n` (None = unsupported form)
     run_reader flt gs st the per-reader loop of the worker over the arrival groups gs (one worker step each)
     run_reader_patched   the same loop with `continue` instead of `continue 'data_readers`
     presented            the samples with valid data in the reader's sample list, in order
     in_domain f c        c is an alive change whose sample the supported form f decides
     lossy flt gs         some group has a rejected change followed, in the same group, by a passing one *)
From DustDDS Require Import Base.Machine Cache.FilterModel Cache.FilterProofs.
Open Scope Z_scope.

(* the evaluator computes the DDS predicate for every supported expression that names %0 *)
Theorem C26_eval_code_eq_spec :
  forall f s b, spec_index f = Some 0%nat -> spec_eval f s = Some b -> eval_code f s = Ok (of_bool b).
Proof. exact eval_code_eq_spec. Qed.

(* ... and for %n whenever parameter n equals parameter 0; *)
Theorem C26_eval_code_eq_spec_same_param :
  forall f s b n, spec_index f = Some n ->
    nth_error (f_params f) n = nth_error (f_params f) 0 ->
    spec_eval f s = Some b -> eval_code f s = Ok (of_bool b).
Proof. exact eval_code_eq_spec_same_param. Qed.

(* otherwise it does not (known finding C26-param-index-ignored): `num = %1`, ["3";"9"], num = 9 *)
Theorem C26_param_index_ignored_refutes :
  exists f s, spec_eval f s = Some true /\ eval_code f s = Ok Fail.
Proof. exact param_index_ignored. Qed.

(* THE PROPERTY on the code as written, outside the known class: for every supported filter, every
   list of samples and every arrival grouping without a lossy group, the reader presents exactly the
   samples that satisfy the filter, in order *)
Theorem C26_presented_eq_filter_batch_unless_lossy :
  forall f groups,
    spec_index f = Some 0%nat ->
    forallb (forallb (in_domain f)) groups = true ->
    lossy (Some f) groups = false ->
    exists st, run_reader (Some f) groups reader_init = Ok st /\
      presented (r_samples st) = map ch_data (filter (spec_true f) (concat groups)).
Proof. exact presented_eq_filter_batch_unless_lossy. Qed.

(* the unconditional statement is FALSE on the code as written (known finding C26-batch-dropped):
   one group [num=9 (fails num <= 5); num=4 (passes)] *)
Theorem C26_presented_eq_filter_batch_refuted :
  exists f groups,
    spec_index f = Some 0%nat /\
    forallb (forallb (in_domain f)) groups = true /\
    exists st, run_reader (Some f) groups reader_init = Ok st /\
      presented (r_samples st) <> map ch_data (filter (spec_true f) (concat groups)).
Proof. exact presented_eq_filter_batch_refuted. Qed.

(* the class is exact: every lossy grouping loses at least one passing sample *)
Theorem C26_lossy_loses_a_passing_sample :
  forall f groups,
    spec_index f = Some 0%nat ->
    forallb (forallb (in_domain f)) groups = true ->
    lossy (Some f) groups = true ->
    exists st, run_reader (Some f) groups reader_init = Ok st /\
      (length (presented (r_samples st)) < length (filter (spec_true f) (concat groups)))%nat.
Proof. exact lossy_loses_a_passing_sample. Qed.

(* the half of the property that holds for EVERY grouping: nothing but passing samples is ever
   presented, none twice, in arrival order *)
Theorem C26_presented_sublist_of_passing :
  forall f groups,
    spec_index f = Some 0%nat ->
    forallb (forallb (in_domain f)) groups = true ->
    exists st, run_reader (Some f) groups reader_init = Ok st /\
      sublist (presented (r_samples st)) (map ch_data (filter (spec_true f) (concat groups))).
Proof. exact presented_sublist_of_passing. Qed.

(* one sample per worker step (a dust-dds writer sends one DATA per datagram): exact *)
Theorem C26_presented_eq_filter_one_per_step :
  forall f groups,
    spec_index f = Some 0%nat ->
    forallb (forallb (in_domain f)) groups = true ->
    forallb (fun g => (length g <=? 1)%nat) groups = true ->
    exists st, run_reader (Some f) groups reader_init = Ok st /\
      presented (r_samples st) = map ch_data (filter (spec_true f) (concat groups)).
Proof. exact presented_eq_filter_one_per_step. Qed.

(* THE PROPERTY, unconditionally in the grouping, for the proposed one-token patch *)
Theorem C26_presented_eq_filter_batch_patched :
  forall f groups,
    spec_index f = Some 0%nat ->
    forallb (forallb (in_domain f)) groups = true ->
    exists st, run_reader_patched (Some f) groups reader_init = Ok st /\
      presented (r_samples st) = map ch_data (filter (spec_true f) (concat groups)).
Proof. exact presented_eq_filter_batch_patched. Qed.

(* a reader on the related (plain) topic presents every sample, whatever its siblings filter *)
Theorem C26_plain_reader_presents_all :
  forall groups, forallb (forallb ch_alive) groups = true ->
    exists st, run_reader None groups reader_init = Ok st /\
      presented (r_samples st) = map ch_data (concat groups).
Proof. exact plain_reader_presents_all. Qed.

Theorem C26_oracle_sound : forall a b, samples_eqb a b = true <-> a = b.
Proof. exact samples_eqb_eq. Qed.

(* non-vacuity: a supported filter, in-domain samples, a non-lossy two-group history with a
   failing sample in front of a passing one in different groups *)
Example C26_nonvacuous :
  spec_index w_flt = Some 0%nat /\
  forallb (forallb (in_domain w_flt)) [[w_ch 4; w_ch 9]; [w_ch 5]] = true /\
  lossy (Some w_flt) [[w_ch 4; w_ch 9]; [w_ch 5]] = false /\
  filter (spec_true w_flt) (concat [[w_ch 4; w_ch 9]; [w_ch 5]]) = [w_ch 4; w_ch 5] /\
  lossy (Some w_flt) [[w_ch 9; w_ch 4]] = true.
Proof. vm_compute. repeat split. Qed.

Print Assumptions C26_eval_code_eq_spec.
Print Assumptions C26_eval_code_eq_spec_same_param.
Print Assumptions C26_param_index_ignored_refutes.
Print Assumptions C26_presented_eq_filter_batch_unless_lossy.
Print Assumptions C26_presented_eq_filter_batch_refuted.
Print Assumptions C26_lossy_loses_a_passing_sample.
Print Assumptions C26_presented_sublist_of_passing.
Print Assumptions C26_presented_eq_filter_one_per_step.
Print Assumptions C26_presented_eq_filter_batch_patched.
Print Assumptions C26_plain_reader_presents_all.
Print Assumptions C26_oracle_sound.
