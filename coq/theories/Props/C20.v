(* C20 — read/take return exactly the matching samples with correct SampleInfo.
   Property file: statements, `exact`, non-vacuity examples, assumptions.

   Reading guide (Cache/ReaderModel.v is the model of create_sample_collection):
     collect r max m hsel take   the model of DataReaderEntity::read (take = false) / take (take = true)
                                 in cache state r; returns (new state, result)
     selected r m hsel s         Some i  iff the retain_mut loop picks sample s (i = its instance record)
   and from Cache/C20Proofs.v
     sel r m hsel s              := selected r m hsel s is Some _            (bool)
     inst_of r s                 the instance record of s's instance in r
     info_at r s                 := info_of s (inst_of r s), the SampleInfo of s before the ranks are filled in
     mark_sel r m hsel s         := if sel r m hsel s then mark_read s else s
     unsel r m hsel s            := negb (sel r m hsel s)
     hsel_known r hsel           the instance argument, if given, names an instance of r
     coll_of c                   := NoData if c = [] else CollOk (fill_ranks c c)
     of_h h y                    := f_inst y =? h
     grouped_z                   ReaderCorr.grouped on a list of instance handles
   firstn_z max l (ReaderCorr.v) = l if max < 0, else the first max elements of l.
   All theorems about `collect` hold for EVERY cache state r — in particular for every
   state `run q ops` reached by any QoS q and any operation history ops — and for all
   max_samples, masks and instance arguments.  The last theorems are invariants of
   `run q ops` proved by induction over the history. *)
From Coq Require Import Sorting.Sorted.
From DustDDS Require Import Base.Machine Cache.ReaderModel Cache.ReaderFacts Cache.ReaderCorr Cache.C20Proofs
  Cache.C20GenProofs.
Open Scope Z_scope.

(* ---- which samples match ---------------------------------------------------------- *)
(* a sample is selected iff it belongs to the requested instance (if one is given), its
   instance is known, its sample state is in the sample-state mask and the view / instance
   state of its instance are in the view / instance-state masks *)
Theorem C20_selection_meaning :
  forall r m hsel s,
    sel r m hsel s = true <->
    match hsel with Some h => s_inst s = h | None => True end /\
    exists i, find_inst (s_inst s) (r_insts r) = Some i /\
              ss_in m (s_ss s) = true /\ vs_in m (i_view i) = true /\ is_in m (i_state i) = true.
Proof. exact sel_iff. Qed.

(* for every QoS and every history: every stored sample has its instance record, so in a
   reachable state "selected" is exactly "requested instance and the three masks" *)
Theorem C20_reachable_selection :
  forall q ops m hsel s,
    In s (r_samples (run q ops)) ->
    exists i, find_inst (s_inst s) (r_insts (run q ops)) = Some i /\
      (sel (run q ops) m hsel s = true <->
       match hsel with Some h => s_inst s = h | None => True end /\
       ss_in m (s_ss s) = true /\ vs_in m (i_view i) = true /\ is_in m (i_state i) = true).
Proof. exact reachable_sel_iff. Qed.

Theorem C20_instances_known_and_distinct :
  forall q ops,
    (forall s, In s (r_samples (run q ops)) -> In (s_inst s) (map i_handle (r_insts (run q ops)))) /\
    NoDup (map i_handle (r_insts (run q ops))).
Proof. exact reachable_inv. Qed.

(* ---- (a) the collection: first max_samples matching samples, in storage order ------- *)
Theorem C20_collection_is_filter :
  forall r max m hsel take,
    hsel_known r hsel ->
    snd (collect r max m hsel take) =
      coll_of (map (info_at r) (firstn_z max (filter (sel r m hsel) (r_samples r)))).
Proof. exact collection_is_filter. Qed.

(* ---- (f) every SampleInfo describes its sample: data, instance, valid_data, timestamp,
   publication handle and generation counts are the sample's; sample_state is the state
   BEFORE this call; view_state / instance_state are those of the instance record at the
   time of the call; absolute_generation_rank = generation of the instance now minus
   generation of the sample *)
Theorem C20_sample_info_fields :
  forall r max m hsel take r' l,
    collect r max m hsel take = (r', CollOk l) ->
    Forall2 (fun s x =>
        f_data x = s_data s /\ f_inst x = s_inst s /\ f_valid x = is_alive_kind (s_kind s) /\
        f_ss x = s_ss s /\ f_dgc x = s_dgc s /\ f_nwgc x = s_nwgc s /\ f_ts x = s_ts s /\ f_pub x = s_writer s /\
        exists i, find_inst (s_inst s) (r_insts r) = Some i /\
                  f_vs x = i_view i /\ f_is x = i_state i /\
                  f_agrank x = (i_dgc i + i_nwgc i) - (s_dgc s + s_nwgc s))
      (firstn_z max (filter (sel r m hsel) (r_samples r))) l.
Proof. exact sample_info_fields. Qed.

Theorem C20_collection_data :
  forall r max m hsel take r' l,
    collect r max m hsel take = (r', CollOk l) ->
    let S := firstn_z max (filter (sel r m hsel) (r_samples r)) in
    map f_data l = map s_data S /\ map f_inst l = map s_inst S /\ map f_ss l = map s_ss S /\
    map f_ts l = map s_ts S /\ map f_pub l = map s_writer S /\ length l = length S.
Proof. exact collection_data. Qed.

(* ---- (b) read marks exactly the returned samples READ and keeps everything ----------- *)
(* the loop visits a prefix l1 of the cache whose selected samples are exactly the returned
   ones; they get sample_state READ, every other sample and the order are unchanged *)
Theorem C20_read_marks_only :
  forall r max m hsel,
    hsel_known r hsel ->
    exists l1 l2,
      r_samples r = l1 ++ l2 /\
      filter (sel r m hsel) l1 = firstn_z max (filter (sel r m hsel) (r_samples r)) /\
      r_samples (fst (collect r max m hsel false)) = map (mark_sel r m hsel) l1 ++ l2.
Proof. exact read_marks_only. Qed.

(* pointwise: read neither adds nor drops nor reorders; each sample is untouched, or it is a selected
   sample whose sample_state became READ *)
Theorem C20_read_changes_only_sample_state :
  forall r max m hsel,
    Forall2 (fun s s' => s' = s \/ (s' = mark_read s /\ sel r m hsel s = true))
            (r_samples r) (r_samples (fst (collect r max m hsel false))).
Proof. exact read_changes_only_sample_state. Qed.

(* ---- (c) take removes exactly the returned samples, the rest keeps its order ---------- *)
Theorem C20_take_removes_only :
  forall r max m hsel,
    hsel_known r hsel ->
    exists l1 l2,
      r_samples r = l1 ++ l2 /\
      filter (sel r m hsel) l1 = firstn_z max (filter (sel r m hsel) (r_samples r)) /\
      r_samples (fst (collect r max m hsel true)) = filter (unsel r m hsel) l1 ++ l2.
Proof. exact take_removes_only. Qed.

(* pointwise: take only drops selected samples (keep flag false), alters none, keeps the order *)
Theorem C20_take_only_drops :
  forall r max m hsel,
    exists keep : list bool,
      length keep = length (r_samples r) /\
      r_samples (fst (collect r max m hsel true)) = map fst (filter snd (combine (r_samples r) keep)) /\
      Forall (fun sk => snd sk = false -> sel r m hsel (fst sk) = true) (combine (r_samples r) keep).
Proof. exact take_only_drops. Qed.

(* nothing else changes; exactly the instances named in the collection become NOT_NEW *)
Theorem C20_collect_frame :
  forall r max m hsel take,
    hsel_known r hsel ->
    let r' := fst (collect r max m hsel take) in
    r_owns r' = r_owns r /\ r_matched r' = r_matched r /\ r_qos r' = r_qos r /\
    r_insts r' = map (fun i => if memZ (i_handle i) (map s_inst (firstn_z max (filter (sel r m hsel) (r_samples r))))
                               then mark_viewed i else i) (r_insts r).
Proof. exact collect_frame. Qed.

(* ---- (d) NoData only when nothing matches (or max_samples = 0) ------------------------ *)
Theorem C20_nodata_iff_empty :
  forall r max m hsel take,
    snd (collect r max m hsel take) = NoData <->
    hsel_known r hsel /\ (max = 0 \/ forall s, In s (r_samples r) -> sel r m hsel s = false).
Proof. exact nodata_iff_empty. Qed.

Theorem C20_bad_parameter_iff :
  forall r max m hsel take,
    snd (collect r max m hsel take) = BadParameter <->
    exists h, hsel = Some h /\ find_inst h (r_insts r) = None.
Proof. exact bad_parameter_iff. Qed.

Theorem C20_no_other_error :
  forall r max m hsel take, snd (collect r max m hsel take) <> NotEnabled.
Proof. exact never_not_enabled. Qed.

(* a call that returns no samples changes nothing *)
Theorem C20_no_effect_without_data :
  forall r max m hsel take,
    snd (collect r max m hsel take) = NoData \/ snd (collect r max m hsel take) = BadParameter ->
    fst (collect r max m hsel take) = r.
Proof. exact collect_nodata_unchanged. Qed.

(* ---- (e) ranks, transcribed from DDS 1.4 2.2.2.5.1.5-7 -------------------------------- *)
(* for the sample x at any position of a returned collection l = l1 ++ x :: l2:
   sample_rank = number of samples of the same instance after x in the collection;
   generation_rank = generation of the most recent sample of that instance in the collection
     (y, the last one with the same handle) minus generation of x;
   absolute_generation_rank = current generation of the instance minus generation of x
   (generation = disposed_generation_count + no_writers_generation_count) *)
Theorem C20_ranks_match_dds :
  forall r max m hsel take r' l,
    collect r max m hsel take = (r', CollOk l) ->
    forall l1 x l2, l = l1 ++ x :: l2 ->
      f_srank x = Z.of_nat (length (filter (fun y => f_inst y =? f_inst x) l2)) /\
      (forall a y b, l = a ++ y :: b -> f_inst y = f_inst x -> (forall z, In z b -> f_inst z <> f_inst x) ->
         f_grank x = (f_dgc y + f_nwgc y) - (f_dgc x + f_nwgc x)) /\
      (exists i, find_inst (f_inst x) (r_insts r) = Some i /\
                 f_agrank x = (i_dgc i + i_nwgc i) - (f_dgc x + f_nwgc x)).
Proof. exact ranks_match_dds. Qed.

(* the most recent sample of the instance in the collection always exists *)
Theorem C20_mrsic_exists :
  forall (l : list info) x, In x l ->
    exists a y b, l = a ++ y :: b /\ f_inst y = f_inst x /\ forall z, In z b -> f_inst z <> f_inst x.
Proof. exact mrsic_exists. Qed.

(* ---- ranks over histories ----------------------------------------------------------------- *)
(* invariant of every reachable state (all QoS, all histories): a stored sample never has a
   higher generation than its instance record, and with BY_RECEPTION_TIMESTAMP order the
   generations of the samples of one instance are non-decreasing along the cache *)
Theorem C20_generation_invariant :
  forall q ops,
    (forall s, In s (r_samples (run q ops)) ->
       exists i, find_inst (s_inst s) (r_insts (run q ops)) = Some i /\
                 s_dgc s + s_nwgc s <= i_dgc i + i_nwgc i) /\
    (q_bysrc (r_qos (run q ops)) = false ->
     StronglySorted (fun a b => s_inst a = s_inst b -> s_dgc a + s_nwgc a <= s_dgc b + s_nwgc b)
                    (r_samples (run q ops))).
Proof. exact reachable_gen_inv. Qed.

(* hence, for every BY_RECEPTION_TIMESTAMP reader, after every history, in every collection:
   0 <= sample_rank, 0 <= generation_rank <= absolute_generation_rank *)
Theorem C20_ranks_bounds_by_reception :
  forall q ops max m hsel take r' l,
    q_bysrc q = false ->
    collect (run q ops) max m hsel take = (r', CollOk l) ->
    Forall (fun x => 0 <= f_srank x /\ 0 <= f_grank x /\ f_grank x <= f_agrank x) l.
Proof. exact ranks_bounds_by_reception. Qed.

(* OBSERVATION (not a recorded class; the definitions are still met): with BY_SOURCE_TIMESTAMP the
   most recent sample of the collection (latest source timestamp) can have been received in an
   earlier generation than a sample sorted before it; generation_rank is then negative *)
Theorem C20_grank_negative_by_source_witness :
  exists l, snd (collect (run (mkQ true None None None None false (Some 0))
                              [OpAdd 1 1 KAlive (Some 10) 100 10; OpAdd 1 1 KDisposed (Some 20) 101 20;
                               OpAdd 1 1 KAlive (Some 5) 102 30])
                         (-1) (mkM true true true true true true true) None false) = CollOk l /\
            map f_data l = [102; 100; 101] /\ map f_grank l = [-1; 0; 0].
Proof. exact grank_negative_by_source_witness. Qed.

(* ---- "grouped by instance" -------------------------------------------------------------- *)
(* The collection is in STORAGE order.  It is grouped by instance (ReaderCorr.grouped: the
   samples of one instance are consecutive) exactly when the collected samples are ... *)
Theorem C20_grouped_iff_collected :
  forall r max m hsel take r' l,
    collect r max m hsel take = (r', CollOk l) ->
    grouped l = grouped_z (map s_inst (firstn_z max (filter (sel r m hsel) (r_samples r)))).
Proof. exact grouped_iff_collected. Qed.

(* ... so it IS grouped on the complement of the recorded class C20-not-grouped-by-instance:
   whenever the stored samples matching the call are contiguous per instance, ... *)
Theorem C20_grouped_when_contiguous :
  forall r max m hsel take r' l,
    collect r max m hsel take = (r', CollOk l) ->
    grouped_z (map s_inst (filter (sel r m hsel) (r_samples r))) = true ->
    grouped l = true.
Proof. exact grouped_when_contiguous. Qed.

(* ... in particular whenever they belong to one instance, e.g. with an instance argument
   (read_instance / read_next_instance) *)
Theorem C20_grouped_one_instance :
  forall r max m hsel take r' l h,
    collect r max m hsel take = (r', CollOk l) ->
    (forall s, In s (r_samples r) -> sel r m hsel s = true -> s_inst s = h) ->
    grouped l = true.
Proof. exact grouped_one_instance. Qed.

Theorem C20_grouped_instance_arg :
  forall r max m h take r' l, collect r max m (Some h) take = (r', CollOk l) -> grouped l = true.
Proof. exact grouped_instance_arg. Qed.

(* DEVIATION (known finding C20-not-grouped-by-instance): the class is real.  Instances 1, 2, 1
   are received in this order; read returns them in this order, not grouped. *)
Theorem C20_not_grouped_witness :
  exists l,
    snd (collect (run (mkQ false None None None None false (Some 0))
                      [OpAdd 1 1 KAlive (Some 1) 100 10; OpAdd 1 2 KAlive (Some 2) 101 20;
                       OpAdd 1 1 KAlive (Some 3) 102 30])
                 (-1) (mkM true true true true true true true) None false) = CollOk l /\
    map f_inst l = [1; 2; 1] /\ grouped l = false.
Proof. exact not_grouped_witness. Qed.

(* ---- non-vacuity ----------------------------------------------------------------------- *)
(* read of at most 3 samples after the history ops_lifecycle (instance 1: written, disposed,
   reborn, written; instance 2 written in between): data, sample/generation/absolute ranks,
   states in the infos; the three returned samples become READ, instance 1 NOT_NEW *)
Example C20_example_read :
  let r := run q_plain ops_lifecycle in
  exists r' l, collect r 3 all_masks None false = (r', CollOk l) /\
    map (fun x => (f_data x, f_srank x, f_grank x, f_agrank x)) l = [(100, 2, 1, 1); (101, 1, 1, 1); (102, 0, 0, 0)] /\
    map f_ss l = [SNotRead; SNotRead; SNotRead] /\ map f_vs l = [VNew; VNew; VNew] /\
    map f_valid l = [true; false; true] /\
    map s_ss (r_samples r') = [SRead; SRead; SRead; SNotRead; SNotRead] /\
    map s_data (r_samples r') = [100; 101; 102; 103; 104] /\
    map i_view (r_insts r') = [VNotNew; VNew] /\ grouped l = true.
Proof. cbv zeta. eexists. eexists. split; [vm_compute; reflexivity|]. repeat split; vm_compute; reflexivity. Qed.

(* take of instance 1 only, NOT_READ mask after the read above: only 104 matches *)
Example C20_example_take :
  let r := run q_plain (ops_lifecycle ++ [OpRead 3 all_masks None]) in
  exists r' l, collect r (-1) (mkM false true true true true true true) (Some 1) true = (r', CollOk l) /\
    map f_data l = [104] /\ map s_data (r_samples r') = [100; 101; 102; 103] /\
    map s_ss (r_samples r') = [SRead; SRead; SRead; SNotRead].
Proof. cbv zeta. eexists. eexists. split; [vm_compute; reflexivity|]. repeat split; vm_compute; reflexivity. Qed.

(* NoData / BadParameter are reachable *)
Example C20_example_nodata :
  let r := run q_plain ops_lifecycle in
  snd (collect r 10 (mkM true false true true true true true) None false) = NoData /\
  snd (collect r 0 all_masks None false) = NoData /\
  snd (collect r 10 all_masks (Some 7) false) = BadParameter.
Proof. cbv zeta. repeat split; vm_compute; reflexivity. Qed.

Print Assumptions C20_selection_meaning.
Print Assumptions C20_reachable_selection.
Print Assumptions C20_instances_known_and_distinct.
Print Assumptions C20_collection_is_filter.
Print Assumptions C20_sample_info_fields.
Print Assumptions C20_collection_data.
Print Assumptions C20_read_marks_only.
Print Assumptions C20_take_removes_only.
Print Assumptions C20_read_changes_only_sample_state.
Print Assumptions C20_take_only_drops.
Print Assumptions C20_collect_frame.
Print Assumptions C20_nodata_iff_empty.
Print Assumptions C20_bad_parameter_iff.
Print Assumptions C20_no_other_error.
Print Assumptions C20_no_effect_without_data.
Print Assumptions C20_ranks_match_dds.
Print Assumptions C20_mrsic_exists.
Print Assumptions C20_generation_invariant.
Print Assumptions C20_ranks_bounds_by_reception.
Print Assumptions C20_grank_negative_by_source_witness.
Print Assumptions C20_grouped_iff_collected.
Print Assumptions C20_grouped_when_contiguous.
Print Assumptions C20_grouped_one_instance.
Print Assumptions C20_grouped_instance_arg.
Print Assumptions C20_not_grouped_witness.
