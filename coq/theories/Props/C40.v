(* C40 — #[derive(DdsType)] describes and converts types faithfully.
   PARTIAL by nature: rustc, syn parsing and macro hygiene are exercised only through
   generated programs (props/C40.py); the theorems below are about the model of the
   expansion (Lang/DeriveModel.v), which the correspondence run compares with the real
   `<T as Type>::TYPE`, create_dynamic_sample and create_sample on every check.
   Property file: statements, `exact`, pins, assumptions. *)
From Coq Require Import Strings.String.
From DustDDS Require Import Base.Machine Lang.DeriveModel Lang.DeriveCorr Lang.DeriveDescProofs
  Lang.DeriveRtProofs Lang.DeriveOracleProofs.
From DustDDS Require KeyHash.Md5Model.
Open Scope Z_scope.

(* ------------------------------------------------------------ round trip *)

(* converting a value to dynamic data and back yields an equal value: every
   declaration [t] with pairwise distinct member ids, distinct in-range enum
   discriminants, distinct first union labels and the default variant last
   ([wf_ty]), without non_serialized members, every value of it *)
Theorem C40_derive_roundtrip :
  forall t v d, wf_ty t = true -> no_ns t = true -> has_type t v = true ->
    to_dyn t v = Ok d -> from_dyn t d = Ok (Some v).
Proof. exact derive_roundtrip. Qed.

(* with non_serialized members: they come back as their default ([erase_ns]) *)
Theorem C40_derive_roundtrip_non_serialized :
  forall t v d, wf_ty t = true -> has_type t v = true ->
    to_dyn t v = Ok d -> from_dyn t d = Ok (Some (erase_ns t v)).
Proof. exact derive_roundtrip_gen. Qed.

(* the complete behaviour: create_dynamic_sample panics exactly when an
   `Option::None` sits in a member that is not skipped as `optional`
   (data_storage.rs:667, documented), otherwise the round trip succeeds *)
Theorem C40_roundtrip_complete :
  forall t v, wf_ty t = true -> is_complex t = true -> has_type t v = true ->
    roundtrip t v = if exposes_none t v then Panic 1 else Ok (Some (erase_ns t v)).
Proof. exact derive_roundtrip_total. Qed.

Theorem C40_erase_ns_identity_without_non_serialized :
  forall t, no_ns t = true -> forall v, has_type t v = true -> erase_ns t v = v.
Proof. exact erase_ns_id. Qed.

(* the hypotheses of the round trip are necessary (recorded findings) *)
Theorem C40_duplicate_ids_accepted_and_break_roundtrip :
  exists d, describe clash_decl = Some d /\ map md_id (td_members d) = [0; 0] /\
            roundtrip clash_decl (VStruct [VPrim 1; VPrim 2]) = Ok (Some (VStruct [VPrim 2; VPrim 0])).
Proof. exact ids_clash_accepted. Qed.

Theorem C40_default_variant_not_last_breaks_roundtrip :
  has_type deffirst (VUnion 1 (Some (VPrim 2))) = true /\ roundtrip deffirst (VUnion 1 (Some (VPrim 2))) = Ok None.
Proof. exact default_not_last_refuted. Qed.

(* ------------------------------------------------------------ member ids *)

Theorem C40_ids_sequential :
  forall h ms, no_hashid ms = true -> no_explicit_id ms = true ->
    struct_ids h ms = map Z.of_nat (seq 0 (length ms)).
Proof. exact ids_sequential. Qed.

(* `hashid`: the id is the little-endian u32 of the first four MD5 bytes of the member
   name, masked to the 28 bits of an XTypes member id (fix 470723e) *)
Theorem C40_ids_hashed :
  forall h ms k m, nth_error ms k = Some m -> m_hashid m = true ->
    exists i, nth_error (struct_ids h ms) k = Some i /\ i = hash_id (member_name h k m) /\ 0 <= i < 268435456.
Proof. exact ids_hashed_28bit. Qed.

Theorem C40_hash_id_is_masked_md5 :
  forall n, hash_id n =
    match KeyHash.Md5Model.md5 (string_bytes n) with
    | b0 :: b1 :: b2 :: b3 :: _ => (b0 + 256 * b1 + 65536 * b2 + 16777216 * b3) mod 268435456
    | _ => 0
    end.
Proof. reflexivity. Qed.

(* an explicit id is the member's id in every extensibility kind (fix 7ee9e78) *)
Theorem C40_ids_explicit :
  forall h ms k m i, nth_error ms k = Some m -> m_hashid m = false -> m_id m = Some i ->
    nth_error (struct_ids h ms) k = Some i.
Proof. exact ids_explicit. Qed.

(* Final / Appendable: an un-annotated member gets its index, whatever ids precede it *)
Theorem C40_ids_automatic_is_index_outside_mutable :
  forall h ms k m, s_ext h <> Mutable -> nth_error ms k = Some m -> m_hashid m = false -> m_id m = None ->
    nth_error (struct_ids h ms) k = Some (Z.of_nat k).
Proof. exact ids_auto_is_index. Qed.

(* the sequential rule: in a Mutable structure an un-annotated member that follows an
   un-hashed member gets that member's id + 1 -- the counter is reset by a LOWER explicit
   id as well, it is not monotonic *)
Theorem C40_ids_automatic_is_previous_plus_one :
  forall h ms k m0 m, s_ext h = Mutable ->
    nth_error ms k = Some m0 -> nth_error ms (S k) = Some m ->
    m_hashid m0 = false -> m_hashid m = false -> m_id m = None ->
    exists i, nth_error (struct_ids h ms) k = Some i /\ nth_error (struct_ids h ms) (S k) = Some (i + 1).
Proof. exact ids_auto_previous_plus_one. Qed.

Theorem C40_ids_reset_by_lower_explicit_id :
  struct_ids clash_h_mut [mk_id "a" (Some 10); mk_id "b" None; mk_id "c" (Some 5); mk_id "d" None; mk_id "e" None]
  = [10; 11; 5; 6; 7].
Proof. exact ids_reset_example. Qed.

(* ids_distinct: un-hashed members have pairwise distinct ids when no id is explicit, or
   when the structure is Mutable and every explicit id is at least the automatic counter
   (= larger than the id of the previous un-hashed member) *)
Theorem C40_ids_distinct :
  forall h ms, no_hashid ms = true ->
    (no_explicit_id ms = true \/ (s_ext h = Mutable /\ ids_ascending ms = true)) ->
    NoDup (struct_ids h ms).
Proof. exact ids_distinct_unhashed. Qed.

(* in a Final/Appendable structure an explicit id can collide with the INDEX of another
   member; the macro accepts it (finding C40-duplicate-member-ids) *)
Theorem C40_ids_clash_explicit_vs_index :
  struct_ids (mkS "FinalClash" None Final false false) [mk_id "a" (Some 1); mk_id "b" None] = [1; 1].
Proof. exact ids_clash_explicit_vs_index. Qed.

(* in general (hashed members included) distinctness is exactly the decidable
   test that [wf_ty] applies; the macro itself applies no test (previous section) *)
Theorem C40_ids_distinct_decided :
  forall h ms, nodupb (struct_ids h ms) = true <-> NoDup (struct_ids h ms).
Proof. exact ids_distinct_decided. Qed.

Theorem C40_ids_clash_automatic_after_explicit :
  struct_ids clash_h [clash_m "a" (Some 5) false; clash_m "b" None false; clash_m "c" (Some 6) false] = [5; 6; 6].
Proof. exact ids_clash_auto_after_explicit. Qed.

(* ------------------------------------------- the description reflects the declaration *)

(* [published hs xs]: the entries of xs that belong to members which are not non_serialized;
   a non_serialized member is not part of the published type (fix 0840b55) *)
Theorem C40_descriptor_reflects_struct :
  forall h ms, let hs := map fst ms in
    exists d, describe (TStruct h ms) = Some d /\
    td_kind d = K_STRUCTURE /\ td_name d = tname (s_rname h) (s_cname h) /\
    td_ext d = s_ext h /\ td_nested d = s_nested h /\ td_disc d = None /\
    map md_name (td_members d) = published hs (names_from h 0 hs) /\
    map md_id (td_members d) = published hs (struct_ids h hs) /\
    map md_index (td_members d) = map Z.of_nat (seq 0 (length (published hs hs))) /\
    map md_type (td_members d) = published hs (map (fun m => sig_of (snd m)) ms) /\
    map md_key (td_members d) = published hs (map m_key hs) /\
    map md_optional (td_members d) = published hs (map m_optional hs) /\
    map md_must_understand (td_members d) = published hs (map m_key hs) /\
    map md_tc (td_members d) = published hs (map (fun m => tc_of (m_tc m)) hs).
Proof. exact describe_struct. Qed.

Theorem C40_non_serialized_not_published :
  forall h ms d, describe (TStruct h ms) = Some d ->
    length (td_members d) = length (filter (fun m => negb (m_ns (fst m))) ms).
Proof. exact non_serialized_not_published. Qed.

Theorem C40_descriptor_determines_struct_attributes :
  forall h ms h' ms', describe (TStruct h ms) = describe (TStruct h' ms') ->
    let hs := map fst ms in let hs' := map fst ms' in
    tname (s_rname h) (s_cname h) = tname (s_rname h') (s_cname h') /\ s_ext h = s_ext h' /\ s_nested h = s_nested h' /\
    published hs (names_from h 0 hs) = published hs' (names_from h' 0 hs') /\
    published hs (map m_key hs) = published hs' (map m_key hs') /\
    published hs (map m_optional hs) = published hs' (map m_optional hs') /\
    published hs (map (fun m => sig_of (snd m)) ms) = published hs' (map (fun m => sig_of (snd m)) ms') /\
    published hs (struct_ids h hs) = published hs' (struct_ids h' hs').
Proof. exact describe_struct_injective_on_attributes. Qed.

Theorem C40_descriptor_reflects_union :
  forall h vs, exists dm vm,
    describe (TUnion h vs) =
      Some (mkTD K_UNION (tname (u_rname h) (u_cname h)) (u_ext h) (u_nested h)
                 (Some (Sig (kind_of_prim (u_disc h)) "" [] None)) (dm :: vm)) /\
    md_name dm = "discriminator"%string /\ md_id dm = 0 /\ md_key dm = u_dkey h /\ md_must_understand dm = true /\
    md_type dm = Sig (kind_of_prim (u_disc h)) "" [] None /\
    map md_name vm = map (fun v => v_name (fst v)) vs /\
    map md_id vm = map Z.of_nat (seq 1 (length vs)) /\
    map md_default_label vm = map (fun v => v_default (fst v)) vs /\
    map md_type vm = map (fun v => match snd v with Some t => sig_of t | None => Sig K_NONE "" [] None end) vs /\
    Forall2 (fun d v => md_label d = map label_i32 (match v_cases (fst v) with [] => [md_id d] | l => l end)) vm vs.
Proof. exact describe_union. Qed.

Theorem C40_descriptor_reflects_enum :
  forall e, describe (TEnum e) =
    Some (mkTD K_ENUM (tname (e_rname e) (e_cname e)) Final (e_nested e)
               (Some (Sig (kind_of_prim (bits_prim (e_bits e))) "" [] None)) []).
Proof. exact describe_enum. Qed.

(* the clause "enum literal values are reflected" is FALSE on the code (finding
   C40-enum-literals-not-published): enumerations that differ only in their literals
   are published identically *)
Theorem C40_enum_literals_not_reflected :
  exists e1 e2, enum_discs e1 <> enum_discs e2 /\ describe (TEnum e1) = describe (TEnum e2).
Proof. exact enum_literals_refuted. Qed.

(* ------------------------------------- the correspondence oracle and the theorems *)

(* Outside the recorded known-finding classes the oracle of the correspondence run
   (Lang/DeriveCorr.v, written from the XTypes rules and the README, without using the
   model) accepts what the model predicts; so an oracle rejection of the real code is
   either one of the recorded classes or a disagreement between model and code. *)
Theorem C40_oracle_sound_struct :
  forall h ms d vs,
    describe (TStruct h ms) = Some d -> wf_ty (TStruct h ms) = true ->
    (ser_judged (TStruct h ms) = false \/ Forall (fun p => snd p = true) vs) ->
    Forall (fun p => has_type (TStruct h ms) (fst p) = true) vs ->
    C40_oracle_ok (model_case (TStruct h ms) d vs) = true.
Proof. exact oracle_sound_struct. Qed.

Theorem C40_oracle_sound_union :
  forall h vs d rs,
    describe (TUnion h vs) = Some d -> wf_ty (TUnion h vs) = true ->
    forallb (fun v => forallb in_i32b (v_cases (fst v))) vs = true ->
    Forall (fun p => has_type (TUnion h vs) (fst p) = true) rs ->
    C40_oracle_ok (model_case (TUnion h vs) d rs) = true.
Proof. exact oracle_sound_union. Qed.

(* enumerations with literals: rejected, and only for the recorded reason (class 4) *)
Theorem C40_oracle_rejects_enum_literals :
  forall e d vs,
    describe (TEnum e) = Some d -> wf_ty (TEnum e) = true -> e_variants e <> [] ->
    Forall (fun p => has_type (TEnum e) (fst p) = true) vs ->
    C40_oracle_ok (model_case (TEnum e) d vs) = false /\ C40_known (model_case (TEnum e) d vs) = 4%N.
Proof. exact oracle_rejects_enum_literals. Qed.

(* non-vacuity: a nested declaration with every kind of member meets the hypotheses *)
Example C40_example_wf :
  let inner := TStruct (mkS "In" None Mutable true false)
                 [(mkM "a" (Some 3) true false false false None None, TPrim PU16);
                  (mkM "b" None false true false false None None, TOpt TString)] in
  let en := TEnum (mkE "E" None false B8 [("X"%string, Some 2); ("Y"%string, None)]) in
  let un := TUnion (mkU "U" None Appendable false false PI16)
              [(mkV "P" [-1; 4] false None, Some inner); (mkV "Q" [] false (Some "f"%string), Some (TVec en));
               (mkV "R" [] true None, None)] in
  let t := TStruct (mkS "Out" None Final false true)
             [(mkM "0" None true false false false None None, un);
              (mkM "1" None false false false true None None, TArr inner 2)] in
  let v := VStruct [VUnion 0 (Some (VStruct [VPrim 7; VOpt None]));
                    VList [VStruct [VPrim 1; VOpt (Some (VStr [104; 105]))]; VStruct [VPrim 0; VOpt None]]] in
  wf_ty t = true /\ no_ns t = true /\ has_type t v = true /\ exposes_none t v = false /\
  roundtrip t v = Ok (Some v).
Proof. vm_compute. repeat split; reflexivity. Qed.

Print Assumptions C40_derive_roundtrip.
Print Assumptions C40_derive_roundtrip_non_serialized.
Print Assumptions C40_roundtrip_complete.
Print Assumptions C40_erase_ns_identity_without_non_serialized.
Print Assumptions C40_duplicate_ids_accepted_and_break_roundtrip.
Print Assumptions C40_default_variant_not_last_breaks_roundtrip.
Print Assumptions C40_ids_sequential.
Print Assumptions C40_ids_hashed.
Print Assumptions C40_hash_id_is_masked_md5.
Print Assumptions C40_ids_explicit.
Print Assumptions C40_ids_automatic_is_index_outside_mutable.
Print Assumptions C40_ids_automatic_is_previous_plus_one.
Print Assumptions C40_ids_reset_by_lower_explicit_id.
Print Assumptions C40_ids_distinct.
Print Assumptions C40_ids_clash_explicit_vs_index.
Print Assumptions C40_ids_distinct_decided.
Print Assumptions C40_ids_clash_automatic_after_explicit.
Print Assumptions C40_descriptor_reflects_struct.
Print Assumptions C40_non_serialized_not_published.
Print Assumptions C40_descriptor_determines_struct_attributes.
Print Assumptions C40_descriptor_reflects_union.
Print Assumptions C40_descriptor_reflects_enum.
Print Assumptions C40_enum_literals_not_reflected.
Print Assumptions C40_oracle_sound_struct.
Print Assumptions C40_oracle_sound_union.
Print Assumptions C40_oracle_rejects_enum_literals.
