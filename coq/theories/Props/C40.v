(* C40 — #[derive(DdsType)] describes and converts types faithfully (PARTIAL: rustc,
   syn and macro hygiene are exercised through generated programs only).
   Property file: statements, `exact`, pins, assumptions. *)
From Coq Require Import Strings.String.
From DustDDS Require Import Base.Machine Lang.DeriveModel Lang.DeriveDescProofs.
Open Scope Z_scope.

(* ---- member ids ---- *)

Theorem C40_ids_sequential :
  forall h ms, no_hashid ms = true ->
    (s_ext h <> Mutable \/ forallb (fun m => match m_id m with None => true | _ => false end) ms = true) ->
    struct_ids h ms = map Z.of_nat (seq 0 (length ms)).
Proof. exact ids_sequential. Qed.

Theorem C40_ids_hashed :
  forall h ms k m, nth_error ms k = Some m -> m_hashid m = true ->
    nth_error (struct_ids h ms) k = Some (hash_id (member_name h k m)).
Proof. exact ids_hashed. Qed.

Theorem C40_ids_explicit_in_mutable :
  forall h ms k m i, s_ext h = Mutable -> nth_error ms k = Some m -> m_hashid m = false -> m_id m = Some i ->
    nth_error (struct_ids h ms) k = Some i.
Proof. exact ids_explicit_mutable. Qed.

Theorem C40_ids_distinct :
  forall h ms, no_hashid ms = true -> (s_ext h <> Mutable \/ ids_ascending ms = true) ->
    NoDup (struct_ids h ms).
Proof. exact ids_distinct_unhashed. Qed.

Print Assumptions C40_ids_sequential.
Print Assumptions C40_ids_hashed.
Print Assumptions C40_ids_explicit_in_mutable.
Print Assumptions C40_ids_distinct.
