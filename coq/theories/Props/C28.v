(* C28 — Writer instance-management calls honour their documented contract
   and, as the C28_write_out_of_resources theorems, the writer half of C19.
   Property file: statements, `exact`, non-vacuity, assumptions.

   Vocabulary (WriterHist/WriterModel.v, WriterCorr.v): `run (init keyed enabled q) evs` runs the
   model of the data writer over any list of events (API calls, ACKNACKs, matches, timer ticks,
   each with its time); svc_register / svc_unregister / svc_dispose / svc_lookup / svc_write are the
   five calls on a state.  `c28_ghost` computes, from the replies alone, the specification-level
   sets: g_reg (instances registered by a successful register_instance or write and not
   unregistered since), g_st1 (unregistered, not registered again), g_st2 (unknown instances for
   which a write was refused with OutOfResources).  g_st1 / g_st2 are the two recorded findings. *)
From DustDDS Require Import Base.Machine WriterHist.WriterModel WriterHist.WriterCorr
  WriterHist.WriterLimits WriterHist.C28Proofs.
Open Scope Z_scope.

(* ---- register_instance is idempotent and returns the handle of the sample's key ---- *)
Theorem C28_register_idempotent :
  forall w k ts1 ts2 w1 h,
    svc_register w k ts1 = (w1, RHandle (Some h)) ->
    h = k /\
    exists w2, svc_register w1 k ts2 = (w2, RHandle (Some h)) /\ forget_lwt w2 = forget_lwt w1.
Proof. exact register_idempotent. Qed.

(* ... and keeps returning it after any further events *)
Theorem C28_register_returns_same_handle_forever :
  forall keyed enabled q evs0 k ts0 evs ts,
    let w0 := fst (run (init keyed enabled q) evs0) in
    forall w1, svc_register w0 k ts0 = (w1, RHandle (Some k)) ->
    snd (svc_register (fst (run w1 evs)) k ts) = RHandle (Some k).
Proof. exact register_forever. Qed.

(* ---- lookup_instance returns the handle exactly for registered instances ---- *)
Theorem C28_lookup_iff_registered :
  forall keyed enabled q evs k,
    let w := fst (run (init keyed enabled q) evs) in
    let g := c28_ghost keyed (mkG enabled [] [] []) (combine evs (snd (run (init keyed enabled q) evs))) in
    let h := khandle keyed k in
    g_en g = true -> mem h (g_st1 g) = false -> mem h (g_st2 g) = false ->
    svc_lookup w k = RHandle (if mem h (g_reg g) then Some h else None).
Proof. exact lookup_iff_registered. Qed.

(* D31 confirmed: outside that hypothesis the statement is false *)
Theorem C28_lookup_after_unregister_refuted :
  exists keyed enabled q evs k,
    let w := fst (run (init keyed enabled q) evs) in
    let g := c28_ghost keyed (mkG enabled [] [] []) (combine evs (snd (run (init keyed enabled q) evs))) in
    g_en g = true /\ mem (khandle keyed k) (g_reg g) = false /\
    svc_lookup w k = RHandle (Some (khandle keyed k)) /\
    snd (svc_unregister w k 0) = ROk /\ snd (svc_dispose w k 0) = ROk.
Proof.
  exists true, true, q_plain, [ev0 (ORegister 1 0); ev0 (OUnregister 1 0)], 1.
  vm_compute. repeat split.
Qed.

(* ---- dispose / unregister of an unknown instance: BadParameter, nothing changes ---- *)
Theorem C28_unknown_instance_bad_parameter :
  forall keyed enabled q evs k ts,
    let w := fst (run (init keyed enabled q) evs) in
    let g := c28_ghost keyed (mkG enabled [] [] []) (combine evs (snd (run (init keyed enabled q) evs))) in
    g_en g = true -> keyed = true ->
    mem k (g_reg g) = false -> mem k (g_st1 g) = false -> mem k (g_st2 g) = false ->
    svc_unregister w k ts = (w, RErr E_BAD_PARAMETER) /\ svc_dispose w k ts = (w, RErr E_BAD_PARAMETER).
Proof. exact unknown_instance_bad_parameter. Qed.

(* ---- instance operations on a keyless type: IllegalOperation, nothing changes ---- *)
Theorem C28_keyless_illegal_operation :
  forall enabled q evs k ts,
    let w := fst (run (init false enabled q) evs) in
    w_enabled w = true ->
    svc_register w k ts = (w, RErr E_ILLEGAL_OPERATION) /\
    svc_unregister w k ts = (w, RErr E_ILLEGAL_OPERATION) /\
    svc_dispose w k ts = (w, RErr E_ILLEGAL_OPERATION).
Proof. exact keyless_after. Qed.

(* ---- every operation on a not-yet-enabled writer: NotEnabled, nothing changes ---- *)
Theorem C28_not_enabled_everywhere :
  forall keyed q evs now slot k ts,
    (forall e, In e evs -> e_op e <> OEnable) ->
    let w := fst (run (init keyed false q) evs) in
    svc_register w k ts = (w, RErr E_NOT_ENABLED) /\
    svc_unregister w k ts = (w, RErr E_NOT_ENABLED) /\
    svc_dispose w k ts = (w, RErr E_NOT_ENABLED) /\
    svc_lookup w k = RErr E_NOT_ENABLED /\
    svc_write now w slot k ts = (w, RErr E_NOT_ENABLED).
Proof. exact not_enabled_before_enable. Qed.

(* the writer is enabled exactly when it was created enabled or enable was called; the topic
   kind never changes *)
Theorem C28_enabled_iff_enable_called :
  forall keyed enabled q evs,
    let w := fst (run (init keyed enabled q) evs) in
    w_keyed w = keyed /\
    w_enabled w = (enabled || existsb (fun e => match e_op e with OEnable => true | _ => false end) evs).
Proof. exact flags_after. Qed.

(* ---- all sentences at once, for all sequences: every reply that breaks the contract
        `c28_check` belongs to an operation in one of the two recorded classes ---- *)
Theorem C28_contract_outside_known_classes :
  forall keyed enabled q evs,
    ~ In 0%N (c28_walk keyed (mkG enabled [] [] []) (combine evs (snd (run (init keyed enabled q) evs)))).
Proof. exact contract_outside_known_classes. Qed.

Theorem C28_model_case_accepted_or_known :
  forall keyed enabled q evs,
    let c := mkWC keyed enabled q (combine evs (snd (run (init keyed enabled q) evs))) None None in
    C28_oracle_ok c = true \/ C28_known c <> 0%N.
Proof. exact oracle_or_known. Qed.

(* ---- writer half of C19 ---- *)
(* a write is refused with OutOfResources exactly when it would exceed a limit *)
Theorem C28_write_out_of_resources_iff_limit_reached :
  forall w h ts now slot,
    snd (ent_write w h ts now slot) =
    if would_exceed (w_qos w) h (w_insts w) then E_OUT_OF_RESOURCES else 0.
Proof. exact ent_write_refused_iff. Qed.

(* a refused write adds no sample anywhere; on a known instance it changes nothing at all *)
Theorem C28_write_out_of_resources_stores_no_sample :
  forall w h ts now slot w' c,
    ent_write w h ts now slot = (w', c) -> c <> 0 ->
    w_changes w' = w_changes w /\ w_last_sn w' = w_last_sn w /\
    (forall x, samples_of x (w_insts w') = samples_of x (w_insts w)) /\
    total_samples (w_insts w') = total_samples (w_insts w) /\
    w_proxies w' = w_proxies w /\ w_pending w' = w_pending w /\
    (has_inst h (w_insts w) = true -> w' = w).
Proof. exact ent_write_refused_stores_nothing. Qed.

(* the same through the service call (KEEP_LAST replacement included), for every reachable
   state of a writer with a consistent QoS *)
Theorem C28_write_out_of_resources_stores_nothing :
  forall keyed enabled q evs now slot k ts w',
    qos_consistent q = true ->
    (forall m, q_mspi q = Some m -> 0 <= m <= i32_max) ->
    (forall ms, q_max_samples q = Some ms -> 0 <= ms) ->
    let w := fst (run (init keyed enabled q) evs) in
    svc_write now w slot k ts = (w', RErr E_OUT_OF_RESOURCES) ->
    w_changes w' = w_changes w /\ w_last_sn w' = w_last_sn w /\
    (forall x, samples_of x (w_insts w') = samples_of x (w_insts w)) /\
    w_pending w' = w_pending w /\
    (has_inst (hof w k) (w_insts w) = true -> w' = w).
Proof. exact svc_write_refused_after_trace. Qed.

(* ... but a refused write on an unknown instance leaves its instance record behind *)
Theorem C28_write_out_of_resources_registers_instance_refuted :
  exists keyed enabled q evs now slot k ts,
    let w := fst (run (init keyed enabled q) evs) in
    let '(w', r) := svc_write now w slot k ts in
    svc_lookup w k = RHandle None /\ r = RErr E_OUT_OF_RESOURCES /\
    svc_lookup w' k = RHandle (Some k) /\ w_changes w' = w_changes w.
Proof.
  exists true, true, q_tight, [ev0 (OWrite 0 1 0)], 1000000000, 1, 2, 0.
  vm_compute. repeat split.
Qed.

(* the writer never holds more than its limits allow, whatever happens *)
Theorem C28_write_out_of_resources_limits_never_exceeded :
  forall keyed enabled q evs,
    let w := fst (run (init keyed enabled q) evs) in
    (forall i, In i (w_insts w) -> opt_le (zlen (i_samples i)) (inst_bound q)) /\
    opt_le (total_samples (w_insts w)) (nonneg_lim (q_max_samples q)) /\
    opt_le (zlen (w_insts w)) (nonneg_lim (q_max_instances q)).
Proof. exact limits_after_trace. Qed.

(* DESIGN's note confirmed: a sample already expired when written is recorded in the instance
   (and counts against the limits from then on) but never enters the history *)
Theorem C28_write_expired_sample_recorded_not_stored :
  forall w h ts now slot w',
    expired (w_qos w) ts now = true -> ent_write w h ts now slot = (w', 0) ->
    w_changes w' = w_changes w /\ w_last_sn w' = w_last_sn w + 1 /\
    samples_of h (w_insts w') = samples_of h (w_insts w) ++ [w_last_sn w + 1].
Proof. exact ent_write_expired_recorded_not_stored. Qed.

(* ---- non-vacuity: a concrete reachable state meets the hypotheses ---- *)
Example C28_nonvacuous :
  let evs := [ev0 (ORegister 1 0); ev0 (OWrite 0 2 0); ev0 (OUnregister 3 0)] in
  let w := fst (run (init true true q_plain) evs) in
  let g := c28_ghost true (mkG true [] [] []) (combine evs (snd (run (init true true q_plain) evs))) in
  g_en g = true /\ mem 1 (g_reg g) = true /\ mem 2 (g_reg g) = true /\ mem 3 (g_reg g) = false /\
  g_st1 g = [] /\ g_st2 g = [] /\
  svc_lookup w 1 = RHandle (Some 1) /\ svc_lookup w 3 = RHandle None /\
  snd (svc_dispose w 3 0) = RErr E_BAD_PARAMETER /\
  snd (svc_register (fst (run (init false true q_plain) [])) 1 0) = RErr E_ILLEGAL_OPERATION /\
  snd (svc_register (fst (run (init true false q_plain) [ev0 (OLookup 1)])) 1 0) = RErr E_NOT_ENABLED /\
  qos_consistent q_tight = true /\
  snd (ent_write (fst (run (init true true q_tight) [ev0 (OWrite 0 1 0)])) 1 0 0 1) = E_OUT_OF_RESOURCES.
Proof. vm_compute. repeat split. Qed.

Print Assumptions C28_register_idempotent.
Print Assumptions C28_register_returns_same_handle_forever.
Print Assumptions C28_lookup_iff_registered.
Print Assumptions C28_lookup_after_unregister_refuted.
Print Assumptions C28_unknown_instance_bad_parameter.
Print Assumptions C28_keyless_illegal_operation.
Print Assumptions C28_not_enabled_everywhere.
Print Assumptions C28_enabled_iff_enable_called.
Print Assumptions C28_contract_outside_known_classes.
Print Assumptions C28_model_case_accepted_or_known.
Print Assumptions C28_write_out_of_resources_iff_limit_reached.
Print Assumptions C28_write_out_of_resources_stores_no_sample.
Print Assumptions C28_write_out_of_resources_stores_nothing.
Print Assumptions C28_write_out_of_resources_registers_instance_refuted.
Print Assumptions C28_write_out_of_resources_limits_never_exceeded.
Print Assumptions C28_write_expired_sample_recorded_not_stored.
