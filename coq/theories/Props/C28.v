(* C28 — Writer instance-management calls honour their documented contract
   and, as the C28_write_out_of_resources theorems, the writer half of C19.
   Property file: statements, `exact`, non-vacuity, assumptions.

   Vocabulary (WriterHist/WriterModel.v, WriterCorr.v): `run (init keyed enabled q) evs` runs the
   model of the data writer over any list of events (API calls, ACKNACKs, matches, timer ticks,
   each with its time); svc_register / svc_unregister / svc_dispose / svc_lookup / svc_write are the
   five calls on a state.  `c28_ghost` computes, from the replies alone, the specification-level
   state: g_reg (instances registered by a successful register_instance or write, at once or
   after having been parked, and not unregistered since) and g_park (the instance of the write
   that is parked at the moment). *)
From DustDDS Require Import Base.Machine WriterHist.WriterModel WriterHist.WriterCorr
  WriterHist.WriterLimits WriterHist.C28Proofs.
Open Scope Z_scope.

(* ---- register_instance is idempotent and returns the handle of the sample's key ---- *)
Theorem C28_register_idempotent :
  forall w k ts1 ts2 w1 h,
    svc_register w k ts1 = (w1, RHandle (Some h)) ->
    h = k /\
    exists w2, svc_register w1 k ts2 = (w2, RHandle (Some h)) /\ forget_lwt w2 = forget_lwt w1.
Proof. exact register_idempotent. Qed.

(* ... and keeps returning it after any further events *)
Theorem C28_register_returns_same_handle_forever :
  forall keyed enabled q evs0 k ts0 evs ts,
    let w0 := fst (run (init keyed enabled q) evs0) in
    forall w1, svc_register w0 k ts0 = (w1, RHandle (Some k)) ->
    snd (svc_register (fst (run w1 evs)) k ts) = RHandle (Some k).
Proof. exact register_forever. Qed.

(* ---- lookup_instance returns the handle exactly for registered instances, for every run ---- *)
Theorem C28_lookup_iff_registered :
  forall keyed enabled q evs k,
    let w := fst (run (init keyed enabled q) evs) in
    let g := c28_ghost keyed (mkG enabled [] None) (combine evs (snd (run (init keyed enabled q) evs))) in
    let h := khandle keyed k in
    g_en g = true ->
    svc_lookup w k = RHandle (if mem h (g_reg g) then Some h else None).
Proof. exact lookup_iff_registered. Qed.

(* ---- dispose / unregister of an unknown instance: BadParameter, nothing changes ---- *)
Theorem C28_unknown_instance_bad_parameter :
  forall keyed enabled q evs k ts,
    let w := fst (run (init keyed enabled q) evs) in
    let g := c28_ghost keyed (mkG enabled [] None) (combine evs (snd (run (init keyed enabled q) evs))) in
    g_en g = true -> keyed = true -> mem k (g_reg g) = false ->
    svc_unregister w k ts = (w, RErr E_BAD_PARAMETER) /\ svc_dispose w k ts = (w, RErr E_BAD_PARAMETER).
Proof. exact unknown_instance_bad_parameter. Qed.

(* unregister_instance really unregisters (D31 repaired): in every reachable state, after a
   successful unregister_instance the instance is unknown again *)
Theorem C28_unregister_then_unknown :
  forall keyed enabled q evs k ts w1,
    let w := fst (run (init keyed enabled q) evs) in
    svc_unregister w k ts = (w1, ROk) ->
    forall ts', svc_lookup w1 k = RHandle None /\
                svc_unregister w1 k ts' = (w1, RErr E_BAD_PARAMETER) /\
                svc_dispose w1 k ts' = (w1, RErr E_BAD_PARAMETER).
Proof. exact unregister_then_unknown. Qed.

(* ---- instance operations on a keyless type: IllegalOperation, nothing changes ---- *)
Theorem C28_keyless_illegal_operation :
  forall enabled q evs k ts,
    let w := fst (run (init false enabled q) evs) in
    w_enabled w = true ->
    svc_register w k ts = (w, RErr E_ILLEGAL_OPERATION) /\
    svc_unregister w k ts = (w, RErr E_ILLEGAL_OPERATION) /\
    svc_dispose w k ts = (w, RErr E_ILLEGAL_OPERATION).
Proof. exact keyless_after. Qed.

(* ---- every operation on a not-yet-enabled writer: NotEnabled, nothing changes ---- *)
Theorem C28_not_enabled_everywhere :
  forall keyed q evs now slot k ts,
    (forall e, In e evs -> e_op e <> OEnable) ->
    let w := fst (run (init keyed false q) evs) in
    svc_register w k ts = (w, RErr E_NOT_ENABLED) /\
    svc_unregister w k ts = (w, RErr E_NOT_ENABLED) /\
    svc_dispose w k ts = (w, RErr E_NOT_ENABLED) /\
    svc_lookup w k = RErr E_NOT_ENABLED /\
    svc_write now w slot k ts = (w, RErr E_NOT_ENABLED).
Proof. exact not_enabled_before_enable. Qed.

(* the writer is enabled exactly when it was created enabled or enable was called; the topic
   kind never changes *)
Theorem C28_enabled_iff_enable_called :
  forall keyed enabled q evs,
    let w := fst (run (init keyed enabled q) evs) in
    w_keyed w = keyed /\
    w_enabled w = (enabled || existsb (fun e => match e_op e with OEnable => true | _ => false end) evs).
Proof. exact flags_after. Qed.

(* ---- all sentences at once: for every run, every reply honours the contract `c28_check`
        (true in the list = a reply that breaks it) ---- *)
Theorem C28_contract_for_all_runs :
  forall keyed enabled q evs,
    existsb (fun b => b)
      (c28_walk keyed (mkG enabled [] None) (combine evs (snd (run (init keyed enabled q) evs)))) = false.
Proof. exact contract_for_all_runs. Qed.

Theorem C28_model_case_accepted :
  forall keyed enabled q evs,
    C28_oracle_ok (mkWC (qos_consistent q) keyed enabled q
                        (combine evs (snd (run (init keyed enabled q) evs))) None None) = true.
Proof. exact model_case_accepted. Qed.

(* ---- writer half of C19 ---- *)
(* a write is refused with OutOfResources exactly when it would exceed a limit *)
Theorem C28_write_out_of_resources_iff_limit_reached :
  forall w h ts now slot,
    snd (ent_write w h ts now slot) =
    if would_exceed (w_qos w) h (w_insts w) then E_OUT_OF_RESOURCES else 0.
Proof. exact ent_write_refused_iff. Qed.

(* a refused write stores nothing: no sample, no sequence number, no instance record *)
Theorem C28_write_out_of_resources_stores_no_sample :
  forall w h ts now slot w' c,
    ent_write w h ts now slot = (w', c) -> c <> 0 -> w' = w.
Proof. exact ent_write_refused_stores_nothing. Qed.

(* the same through the service call (KEEP_LAST replacement included), for every reachable
   state of a writer with a consistent QoS: the state is unchanged *)
Theorem C28_write_out_of_resources_stores_nothing :
  forall keyed enabled q evs now slot k ts w',
    qos_consistent q = true ->
    (forall m, q_mspi q = Some m -> 0 <= m <= i32_max) ->
    (forall ms, q_max_samples q = Some ms -> 0 <= ms) ->
    let w := fst (run (init keyed enabled q) evs) in
    svc_write now w slot k ts = (w', RErr E_OUT_OF_RESOURCES) -> w' = w.
Proof. exact svc_write_refused_after_trace. Qed.

(* the writer never holds more than its limits allow, whatever happens *)
Theorem C28_write_out_of_resources_limits_never_exceeded :
  forall keyed enabled q evs,
    let w := fst (run (init keyed enabled q) evs) in
    (forall i, In i (w_insts w) -> opt_le (zlen (i_samples i)) (inst_bound q)) /\
    opt_le (total_samples (w_insts w)) (nonneg_lim (q_max_samples q)) /\
    opt_le (zlen (w_insts w)) (nonneg_lim (q_max_instances q)).
Proof. exact limits_after_trace. Qed.

(* DESIGN's note confirmed: a sample already expired when written is recorded in the instance
   (and counts against the limits from then on) but never enters the history *)
Theorem C28_write_expired_sample_recorded_not_stored :
  forall w h ts now slot w',
    expired (w_qos w) ts now = true -> ent_write w h ts now slot = (w', 0) ->
    w_changes w' = w_changes w /\ w_last_sn w' = w_last_sn w + 1 /\
    samples_of h (w_insts w') = samples_of h (w_insts w) ++ [w_last_sn w + 1].
Proof. exact ent_write_expired_recorded_not_stored. Qed.

(* ---- non-vacuity: a concrete reachable state meets the hypotheses ---- *)
Example C28_nonvacuous :
  let evs := [ev0 (ORegister 1 0); ev0 (OWrite 0 2 0); ev0 (OUnregister 3 0)] in
  let w := fst (run (init true true q_plain) evs) in
  let g := c28_ghost true (mkG true [] None) (combine evs (snd (run (init true true q_plain) evs))) in
  g_en g = true /\ mem 1 (g_reg g) = true /\ mem 2 (g_reg g) = true /\ mem 3 (g_reg g) = false /\
  svc_lookup w 1 = RHandle (Some 1) /\ svc_lookup w 3 = RHandle None /\
  snd (svc_dispose w 3 0) = RErr E_BAD_PARAMETER /\
  snd (svc_register (fst (run (init false true q_plain) [])) 1 0) = RErr E_ILLEGAL_OPERATION /\
  snd (svc_register (fst (run (init true false q_plain) [ev0 (OLookup 1)])) 1 0) = RErr E_NOT_ENABLED /\
  qos_consistent q_tight = true /\
  snd (ent_write (fst (run (init true true q_tight) [ev0 (OWrite 0 1 0)])) 1 0 0 1) = E_OUT_OF_RESOURCES.
Proof. vm_compute. repeat split. Qed.

Print Assumptions C28_register_idempotent.
Print Assumptions C28_register_returns_same_handle_forever.
Print Assumptions C28_lookup_iff_registered.
Print Assumptions C28_unknown_instance_bad_parameter.
Print Assumptions C28_unregister_then_unknown.
Print Assumptions C28_keyless_illegal_operation.
Print Assumptions C28_not_enabled_everywhere.
Print Assumptions C28_enabled_iff_enable_called.
Print Assumptions C28_contract_for_all_runs.
Print Assumptions C28_model_case_accepted.
Print Assumptions C28_write_out_of_resources_iff_limit_reached.
Print Assumptions C28_write_out_of_resources_stores_no_sample.
Print Assumptions C28_write_out_of_resources_stores_nothing.
Print Assumptions C28_write_out_of_resources_limits_never_exceeded.
Print Assumptions C28_write_expired_sample_recorded_not_stored.
