(* C42 — Standard runtime timers and blocking helpers behave as specified.  PARTIAL:
   the statements are about the state-machine models of std_runtime/timer.rs
   (Sched/TimerModel.v) and executor.rs block_timeout / block_on
   (Sched/TimerBlockModel.v); `run ops init` ranges over ALL interleavings of the
   threads' atomic steps and all clock advances (Tick).  What no model can exhibit -
   how long the OS takes to schedule a thread, park/unpark, the accuracy of
   recv_timeout - is not claimed. *)
From DustDDS Require Import Base.Machine Sched.TimerModel Sched.TimerProofs
                            Sched.TimerBlockModel Sched.TimerBlockProofs
                            Sched.TimerExecModel Sched.TimerExecProofs
                            Sched.TimerCorr Sched.TimerCorrProofs.
Open Scope Z_scope.

(* A sleep never completes before its deadline: whenever Sleep::poll returned Ready
   (event EvReady id now dl t0 dur: at clock reading now, deadline dl, set by the
   reset at t0 for duration dur), now is strictly after the deadline, the deadline
   is reset-time + duration, and (unless Instant overflows) more than the duration
   has passed. *)
Theorem C42_no_early_completion : forall ops id now dl t0 dur,
  In (EvReady id now dl t0 dur) (log (run ops init)) ->
  dl < now /\ dl = add_dur t0 dur /\ (t0 + dur <= instant_max -> dur < now - t0).
Proof. exact no_early_completion. Qed.

(* The timer thread wakes a waker only at a clock reading strictly after the
   deadline carried by its Wake message. *)
Theorem C42_no_early_wake : forall ops w now,
  In (EvWoken w now) (log (run ops init)) -> w_dl w < now <= clock (run ops init).
Proof. exact no_early_wake. Qed.

(* The first poll of a Sleep is Pending whatever the duration (also zero). *)
Theorem C42_first_poll_pending : forall s id sl delta,
  find_sleep id (sleeps s) = Some sl -> s_dl sl = None ->
  exists d, snd (step s (SPoll id delta)) = OPoll false d.
Proof. exact first_poll_pending. Qed.

(* ... and always completes after it (the logic part).
   (a) polled at a clock reading after its deadline, a Sleep returns Ready: *)
Theorem C42_poll_ready_after_deadline : forall s id sl d delta,
  find_sleep id (sleeps s) = Some sl -> s_dl sl = Some d -> d < clock s ->
  snd (step s (SPoll id delta)) = OPoll true d.
Proof. exact poll_ready_after_deadline. Qed.

(* (b) in particular once its waker has been woken for the current deadline: *)
Theorem C42_woken_then_ready : forall ops w t sl delta,
  let s := run ops init in
  In (EvWoken w t) (log s) ->
  find_sleep (w_id w) (sleeps s) = Some sl -> s_dl sl = Some (w_dl w) ->
  snd (step s (SPoll (w_id w) delta)) = OPoll true (w_dl w).
Proof. exact woken_then_ready. Qed.

(* (c) fires_when_due: a Wake that was sent and taken out of the channel, whose sleep
   was not cancelled, HAS been woken whenever the timer thread sits in recv having
   last read the clock after that deadline: *)
Theorem C42_fires_when_due : forall ops w lim seen,
  let s := run ops init in
  In (EvSent w) (log s) ->
  ~ In (MWake w) (queue s) ->
  ~ In (EvCancelled (w_id w)) (log s) ->
  pc s = Receiving lim seen -> w_dl w < seen ->
  exists t, In (EvWoken w t) (log s) /\ w_dl w < t.
Proof. exact fires_when_due. Qed.

(* (d) whenever the thread blocks in recv/recv_timeout the timeout was computed from
   the earliest deadline in the heap and nothing in the heap was due: *)
Theorem C42_timer_waits_until_next_deadline : forall ops lim seen,
  let s := run ops init in
  pc s = Receiving lim seen ->
  lim = min_dl (heap s) /\ (forall x, In x (heap s) -> seen <= w_dl x) /\ seen <= clock s.
Proof. exact timer_waits_until_next_deadline. Qed.

(* (e) from ANY reachable state with the thread at the top of its loop, its own next
   steps (no clock advance, no other thread) wake every heap entry whose deadline is
   before the current clock, then block in recv: *)
Theorem C42_due_entries_get_woken : forall ops,
  let s := run ops init in
  pc s = Firing ->
  exists toks, let s' := run (map TFire toks ++ [TIdle]) s in
    (forall x, In x (heap s) -> w_dl x < clock s -> exists t, In (EvWoken x t) (log s')) /\
    (exists lim, pc s' = Receiving lim (clock s)) /\ clock s' = clock s.
Proof. exact due_entries_get_woken. Qed.

(* TimerHeap ordering: the entry the timer thread pops and wakes is due and has a
   minimal deadline among the whole heap. *)
Theorem C42_wakes_in_deadline_order : forall s tok w,
  snd (step s (TFire tok)) = OWoken w ->
  In w (heap s) /\ w_dl w < clock s /\ forall x, In x (heap s) -> w_dl w <= w_dl x.
Proof. exact fire_pops_minimum. Qed.

(* TimerHeap removal: consuming Cancel(id) removes every entry of id and nothing else. *)
Theorem C42_cancel_step_removes : forall s id q lim seen,
  pc s = Receiving lim seen -> queue s = MCancel id :: q ->
  let s' := fst (step s TRecv) in
  (forall x, In x (heap s') <-> In x (heap s) /\ w_id x <> id) /\ queue s' = q.
Proof. exact cancel_step_removes. Qed.

(* The send in Sleep::poll ("Shouldn't fail to send") never fails: the timer thread
   only leaves its loop when no Sleep and no handle is left. *)
Theorem C42_no_send_failure : forall ops, ~ In EvPanic (log (run ops init)).
Proof. exact no_send_failure. Qed.

(* A dropped sleep never wakes its task - from the moment its Cancel message has been
   consumed: in every continuation the list of wake-ups issued for that id stays the
   same (every heap entry of the id was removed, none can be added). *)
Theorem C42_cancel_removes_all : forall s id more,
  reachable s -> dropped id s -> cancel_consumed id s ->
  woken_of id (log (run more s)) = woken_of id (log s).
Proof. exact cancel_removes_all. Qed.

(* ... but not before: between the drop and the consumption of the Cancel a wake-up of
   the dropped sleep is possible (the log is newest first). *)
Theorem C42_drop_window_exists :
  exists ops w,
    let s := run ops init in
    dropped (w_id w) s /\ ~ cancel_consumed (w_id w) s /\
    log s = [EvWoken w 10; EvDropped (w_id w); EvSent w].
Proof. exact drop_window_exists. Qed.

(* block_on returns the future's output (and only after the future completed). *)
Theorem C42_block_on_returns_output : forall ops val v,
  o_pc (orun ops (oinit val)) = ODone v -> v = val /\ o_done (orun ops (oinit val)) = true.
Proof. exact block_on_returns_output. Qed.

(* block_timeout: Ok(v) is the future's own output, returned after its completion. *)
Theorem C42_block_timeout_ok_is_output : forall ops now dur val v at_,
  let s := brun ops (binit now dur val) in
  b_pc s = BDone (BOk v) at_ -> v = val /\ exists t, b_done s = Some t /\ t <= at_.
Proof. exact block_timeout_ok_is_output. Qed.

(* block_timeout returns Timeout only after the whole duration has passed and only if
   the future had not completed within the duration: its completion time t, if any, is
   not before start + duration nor before the return.  (All interleavings, all thread
   timings; no excluded class any more - fix 8591c31.) *)
Theorem C42_block_timeout_only_late : forall ops now dur val at_,
  let s := brun ops (binit now dur val) in
  b_pc s = BDone BTimeout at_ ->
  now + dur <= at_ /\
  (forall t, b_done s = Some t -> now + dur <= t /\ at_ <= t).
Proof. exact block_timeout_only_late. Qed.

(* the scenario of the former finding C42-timeout-unseen-wake: the poll said Pending, the
   future completed (and woke) meanwhile, and the clock read finds the duration over -
   in every reachable such state the thread's own next steps (try_recv sees the wake,
   last poll) return the output *)
Theorem C42_late_wake_is_seen : forall ops now dur val,
  let s := brun ops (binit now dur val) in
  b_pc s = BChecking -> b_done s <> None -> b_dur s < b_clock s - b_start s ->
  exists at_, b_pc (brun [BCheck; BCheck2; BPoll] s) = BDone (BOk val) at_.
Proof. exact late_wake_is_seen_reachable. Qed.

Example C42_late_wake_is_seen_run :
  b_pc (brun [BPoll; BComplete; BTick 11; BCheck; BCheck2; BPoll] (binit 0 10 7)) = BDone (BOk 7) 11.
Proof. exact late_wake_is_seen_run. Qed.

(* After fix 7de0553 (the waker does try_send; former finding
   C42-block-timeout-self-wake-deadlock): a wake issued from inside poll - also with a
   token already buffered - never blocks the polling thread: its place in the loop, the
   clock and the future are unchanged and a token is buffered afterwards; a wake from
   any other thread does not change the blocked thread's place either.  The theorems
   above (Ok is the output, Timeout only late) quantify over ALL op lists, in-poll
   wakes (BSelfWake) included. *)
Theorem C42_self_wake_never_blocks : forall s,
  b_pc (bstep s BSelfWake) = b_pc s /\
  (b_pc s = BPolling -> b_tok (bstep s BSelfWake) = true) /\
  b_clock (bstep s BSelfWake) = b_clock s /\ b_done (bstep s BSelfWake) = b_done s /\
  b_pc (bstep s BSpurious) = b_pc s.
Proof. exact self_wake_never_blocks. Qed.

(* the old hanging input (two wakes inside one poll): the poll proceeds - Pending leads to
   the clock check with a token buffered, Ready to Ok(output) *)
Theorem C42_self_wake_then_poll_proceeds : forall s,
  b_pc s = BPolling ->
  let s' := brun [BSelfWake; BSelfWake; BPoll] s in
  match b_done s with
  | None => b_pc s' = BChecking /\ b_tok s' = true
  | Some _ => exists at_, b_pc s' = BDone (BOk (b_val s)) at_
  end.
Proof. exact self_wake_then_poll_proceeds. Qed.

(* a completed future whose wake token is in the channel is returned by the thread's
   own next steps, whatever the clock (in the loop or by the last poll) *)
Theorem C42_block_timeout_completes : forall s lim,
  b_pc s = BWaiting lim -> b_done s <> None -> b_tok s = true ->
  exists at_, b_pc (brun [BRecvOk; BCheck2; BPoll] s) = BDone (BOk (b_val s)) at_.
Proof. exact block_timeout_completes. Qed.

(* Executor join handshake (ExecutorTaskHandle::join against the executor thread, all
   interleavings of their atomic steps): once the joiner has gone to sleep and the
   executor has done its take-and-wake, the joiner HAS been unparked (no lost wake-up);
   join's future is Ready only for a finished task; the executor never polls a task's
   future again after it returned Ready. *)
Theorem C42_join_handshake : forall ops,
  let s := xrun ops xinit in
  (x_jpc s = JPending -> x_epc s = EDone -> x_woken s = true) /\
  (x_jpc s = JReady -> x_fin s = true) /\
  x_polls_after_fin s = 0.
Proof. exact join_handshake. Qed.

Example C42_nonvacuous_join :
  let s := xrun [J1; J2; EPoll true; J3; ETake; TWake; EPoll false] xinit in
  x_jpc s = JReady /\ x_epc s = EDone /\ x_fin s = true.
Proof. vm_compute. auto. Qed.

(* The tie: the timer-thread steps by which the correspondence run replays a recorded
   trace (TimerCorr.consume1 / replay_fire) are the model's own TRecv / TFire steps;
   only the unobservable loop position pc is overridden (erase forgets it). *)
Theorem C42_replay_steps_are_model_steps :
  (forall s lim seen, pc s = Receiving lim seen ->
     erase (fst (do_recv (force_pc (Receiving None 0) s))) = erase (fst (step s TRecv))) /\
  (forall s tok, pc s = Firing -> do_fire (force_pc Firing s) tok = step s (TFire tok)).
Proof. exact (conj replay_recv_is_model_step replay_fire_is_model_step). Qed.

(* non-vacuity: a reachable state with a cancelled-and-consumed sleep (never woken)
   and a sleep woken after its deadline and then Ready *)
Example C42_nonvacuous :
  let s := run demo_ops init in
  dropped 0 s /\ cancel_consumed 0 s /\
  In (EvWoken (mkW 1 7 1) 8) (log s) /\ In (EvReady 1 8 7 0 7) (log s) /\
  woken_of 0 (log s) = [] /\ pc s = Receiving None 8.
Proof. exact demo_facts. Qed.

Example C42_nonvacuous_timeout :
  let s := brun [BPoll; BCheck; BTick 10; BRecvTimeout; BTick 5; BComplete] (binit 0 10 7) in
  b_pc s = BDone BTimeout 10 /\ b_done s = Some 15.
Proof. vm_compute. split; reflexivity. Qed.

Print Assumptions C42_no_early_completion.
Print Assumptions C42_no_early_wake.
Print Assumptions C42_first_poll_pending.
Print Assumptions C42_poll_ready_after_deadline.
Print Assumptions C42_woken_then_ready.
Print Assumptions C42_fires_when_due.
Print Assumptions C42_timer_waits_until_next_deadline.
Print Assumptions C42_due_entries_get_woken.
Print Assumptions C42_wakes_in_deadline_order.
Print Assumptions C42_cancel_step_removes.
Print Assumptions C42_no_send_failure.
Print Assumptions C42_cancel_removes_all.
Print Assumptions C42_drop_window_exists.
Print Assumptions C42_block_on_returns_output.
Print Assumptions C42_block_timeout_ok_is_output.
Print Assumptions C42_block_timeout_only_late.
Print Assumptions C42_late_wake_is_seen.
Print Assumptions C42_self_wake_never_blocks.
Print Assumptions C42_self_wake_then_poll_proceeds.
Print Assumptions C42_block_timeout_completes.
Print Assumptions C42_join_handshake.
Print Assumptions C42_replay_steps_are_model_steps.
