(* C35 — Entity handles stay unique and entity creation never panics.  Property file.
   Model: Entity/EntityModel.v.  `frun pr f ops` runs a history of mails (create / delete / qos / enable of every
   entity kind, for any number of participants) on the factory state, `wrun` a scenario of calls through the
   dds_async proxies; `pr` is the build profile (Debug = overflow checks, Release = wrapping arithmetic).  Since
   b2cf990 the five entity-id counters (u8 publisher / subscriber, u16 writer / reader / topic) are incremented with
   checked_add and an exhausted counter makes the creation return OutOfResources, so the profile no longer matters.
   The only wrapping counter left is the AtomicU32 participant instance number of the factory (fetch_add): the
   theorems ask for fewer than 2^32 create_participant calls in the history. *)
From DustDDS Require Import Base.Machine Entity.EntityModel Entity.C35Proofs Entity.WorldInv.
Open Scope Z_scope.

(* For ALL histories of mails and both profiles: no creation panics (it returns a handle or an error) and all
   entities existing at the same time have pairwise distinct instance handles and distinct RTPS GUIDs. *)
Theorem C35_no_panic_and_distinct_handles :
  forall pr ops,
    Z.of_nat (length (filter is_create_part ops)) <= u32_max ->
    let f := fst (frun pr init_factory ops) in
    ~ In RPanic (snd (frun pr init_factory ops)) /\ NoDup (all_handles f) /\ NoDup (all_guids f).
Proof. exact no_panic_and_distinct. Qed.

(* The same for ALL application-level scenarios: every call through a dds_async proxy (create / delete / get_qos /
   set_qos / enable / status of any entity, delete_contained_entities, the create+delete loops of the harness) only
   sends mails, so the scenario traces compared with the real stack enjoy the property as well. *)
Theorem C35_every_scenario_no_panic_and_distinct_handles :
  forall pr ops,
    Z.of_nat (length (filter is_wp ops)) <= u32_max ->
    let w := wfinal pr init_world ops in
    ~ In RPanic (wrun pr init_world ops) /\ NoDup (all_handles (w_f w)) /\ NoDup (all_guids (w_f w)).
Proof. exact scenario_no_panic_and_distinct. Qed.

(* A creation whose id counter is exhausted is refused with an error and changes nothing (publishers and
   subscribers: OutOfResources; topics, writers, readers: OutOfResources unless an earlier test of the same call
   already refuses it). *)
Theorem C35_exhausted_counter_is_an_error :
  (forall pr sd p q, gcounter sd p = 255 -> create_group pr sd p q = (p, RErr E_OUT_OF_RESOURCES)) /\
  (forall pr p name q, pa_tc p = 65535 ->
     fst (create_topic pr p name q) = p /\ exists c, snd (create_topic pr p name q) = RErr c) /\
  (forall pr sd p gh name q r, ecounter sd p = 65535 -> snd (create_endpoint pr sd p gh name q) = r ->
     exists c, r = RErr c /\ fst (create_endpoint pr sd p gh name q) = p).
Proof.
  split; [exact exhausted_group_counter|split; [exact exhausted_topic_counter|exact exhausted_endpoint_counter]].
Qed.

(* The invariant behind it holds in every reachable state and is what the C36 theorems reuse
   (any_ovf = the participant instance number has wrapped). *)
Theorem C35_invariant_of_all_histories :
  forall pr ops, any_ovf (fst (frun pr init_factory ops)) = false -> finv (fst (frun pr init_factory ops)).
Proof. intros pr ops H. exact (proj1 (frun_inv pr ops init_factory finv_init H)). Qed.

(* regression of the former finding C35-counter-overflow: 257 publishers in one participant, both profiles *)
Theorem C35_publishers_256_and_257_are_refused :
  forall pr,
    let r := frun pr init_factory (FCreatePart None :: repeat_op (FCreateGroup SPub (part_handle 0) None) 257) in
    nth 255 (snd r) RUnit = RHandle (mkH 0 254 0 0 8) /\
    nth 256 (snd r) RUnit = RErr E_OUT_OF_RESOURCES /\ nth 257 (snd r) RUnit = RErr E_OUT_OF_RESOURCES /\
    length (all_handles (fst r)) = 256%nat.
Proof. exact publishers_256_and_257_are_refused. Qed.

(* non-vacuity: a history with two participants, publishers, subscribers, topics, writers, readers and deletions
   has 10 live handles *)
Example C35_nonvacuous :
  let P0 := part_handle 0 in let P1 := part_handle 1 in
  let ops := [FCreatePart None; FCreatePart None; FCreateTopic P0 1 None; FCreateGroup SPub P0 None;
              FCreateGroup SSub P0 None; FCreateEp SPub P0 (mkH 0 0 0 0 8) 1 None;
              FCreateEp SSub P0 (mkH 0 0 0 0 9) 1 None; FCreateEp SPub P0 (mkH 0 0 0 0 8) 1 None;
              FDeleteEp SPub P0 (mkH 0 0 0 0 8) (mkH 0 0 0 0 2); FCreateGroup SPub P1 None;
              FCreateTopic P1 1 None; FCreateEp SPub P1 (mkH 1 0 0 0 8) 1 None] in
  Z.of_nat (length (filter is_create_part ops)) = 2 /\
  length (all_handles (fst (frun Debug init_factory ops))) = 10%nat.
Proof. vm_compute. split; reflexivity. Qed.

Print Assumptions C35_no_panic_and_distinct_handles.
Print Assumptions C35_every_scenario_no_panic_and_distinct_handles.
Print Assumptions C35_exhausted_counter_is_an_error.
Print Assumptions C35_invariant_of_all_histories.
Print Assumptions C35_publishers_256_and_257_are_refused.
