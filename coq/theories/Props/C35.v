(* C35 — Entity handles stay unique and entity creation never panics.  Property file.
   Model: Entity/EntityModel.v.  `frun pr f ops` runs a history of mails (create / delete / qos / enable of every
   entity kind, for any number of participants) on the factory state; `pr` is the build profile: in Debug a
   `counter += 1` at the counter's maximum panics, in Release it wraps.  The ghost flag any_ovf is raised exactly by
   such an increment (EntityModel.bump), i.e. when the u8 publisher/subscriber counter of a participant holds 255,
   a u16 writer/reader/topic counter holds 65535 (or the u32 participant counter holds 2^32-1) and one more entity
   of that kind is created in that participant. *)
From DustDDS Require Import Base.Machine Entity.EntityModel Entity.C35Proofs Entity.WorldInv.
Open Scope Z_scope.

(* For ALL histories, both profiles: as long as no counter was incremented at its maximum, no creation panics and
   all entities existing at the same time have pairwise distinct instance handles and distinct RTPS GUIDs. *)
Theorem C35_no_panic_and_distinct_handles_outside_overflow_class :
  forall pr ops,
    let f := fst (frun pr init_factory ops) in
    any_ovf f = false ->
    ~ In RPanic (snd (frun pr init_factory ops)) /\ NoDup (all_handles f) /\ NoDup (all_guids f).
Proof. exact no_panic_and_distinct. Qed.

(* The same for ALL application-level scenarios: every call through a dds_async proxy (create / delete / get_qos /
   set_qos / enable / status of any entity, delete_contained_entities, the create+delete loops of the harness) only
   sends mails, so the scenario traces compared with the real stack enjoy the property as well. *)
Theorem C35_every_scenario_no_panic_and_distinct_handles_outside_overflow_class :
  forall pr ops,
    let w := wfinal pr init_world ops in
    any_ovf (w_f w) = false ->
    ~ In RPanic (wrun pr init_world ops) /\ NoDup (all_handles (w_f w)) /\ NoDup (all_guids (w_f w)).
Proof. exact scenario_no_panic_and_distinct. Qed.

(* The invariant behind it holds in every reachable state and is what the C36 theorems reuse. *)
Theorem C35_invariant_of_all_histories :
  forall pr ops, any_ovf (fst (frun pr init_factory ops)) = false -> finv (fst (frun pr init_factory ops)).
Proof. intros pr ops H. exact (proj1 (frun_inv pr ops init_factory finv_init H)). Qed.

(* Inside the class the property is false (known finding C35-counter-overflow).
   Debug profile (the profile of the harness): the 256th publisher of one participant panics the worker task. *)
Theorem C35_debug_profile_panics_at_256th_publisher :
  let ops := FCreatePart None :: repeat_op (FCreateGroup SPub (part_handle 0) None) 256 in
  nth 256 (snd (frun Debug init_factory ops)) RUnit = RPanic /\
  length (snd (frun Debug init_factory ops)) = 257%nat.
Proof. exact debug_panics_at_256th_publisher. Qed.

(* Release profile: no panic, but the 257th publisher gets the handle of the first one, which is still alive. *)
Theorem C35_release_profile_reuses_a_live_handle :
  let r := frun Release init_factory (FCreatePart None :: repeat_op (FCreateGroup SPub (part_handle 0) None) 257) in
  ~ In RPanic (snd r) /\ nth 1 (snd r) RUnit = nth 257 (snd r) RUnit /\
  nth 1 (snd r) RUnit = RHandle (mkH 0 0 0 0 8) /\ ~ NoDup (all_handles (fst r)).
Proof. exact release_duplicates_handle_at_257th_publisher. Qed.

(* non-vacuity: a history with two participants, publishers, subscribers, topics, writers, readers and deletions
   stays outside the class and has 10 live handles *)
Example C35_nonvacuous :
  let P0 := part_handle 0 in let P1 := part_handle 1 in
  let ops := [FCreatePart None; FCreatePart None; FCreateTopic P0 1 None; FCreateGroup SPub P0 None;
              FCreateGroup SSub P0 None; FCreateEp SPub P0 (mkH 0 0 0 0 8) 1 None;
              FCreateEp SSub P0 (mkH 0 0 0 0 9) 1 None; FCreateEp SPub P0 (mkH 0 0 0 0 8) 1 None;
              FDeleteEp SPub P0 (mkH 0 0 0 0 8) (mkH 0 0 0 0 2); FCreateGroup SPub P1 None;
              FCreateTopic P1 1 None; FCreateEp SPub P1 (mkH 1 0 0 0 8) 1 None] in
  any_ovf (fst (frun Debug init_factory ops)) = false /\
  length (all_handles (fst (frun Debug init_factory ops))) = 10%nat.
Proof. vm_compute. split; reflexivity. Qed.

Print Assumptions C35_no_panic_and_distinct_handles_outside_overflow_class.
Print Assumptions C35_every_scenario_no_panic_and_distinct_handles_outside_overflow_class.
Print Assumptions C35_invariant_of_all_histories.
Print Assumptions C35_debug_profile_panics_at_256th_publisher.
Print Assumptions C35_release_profile_reuses_a_live_handle.
