(* C15 — Endpoints match exactly when topic, type, partition and RxO QoS are compatible.
   Property file: statements, `exact`, non-vacuity examples, assumptions.
   Vocabulary (all in Qos/*Model.v):
     reader_incompatible w r / writer_incompatible r w : the two functions of discovery_methods.rs
     dds_rxo, spec_policy_fails, spec_failing           : DDS 1.4 request/offered table
     fnmatch_to_regex, compile, reps_match, partition_matched : translator, regex crate, partition test
     fnmatch, dds_partition_match                       : POSIX fnmatch, DDS 1.4 PARTITION rule
     writer_side / reader_side                          : the decision of the two call sites
     dds_should_match, dds_incompatible_pair            : the property *)
From DustDDS Require Import Base.Machine Qos.CompatModel Qos.CompatProofs Qos.PartitionModel
  Qos.PartitionProofs Qos.MatchModel Qos.MatchProofs.
From Coq Require Import Permutation.
Open Scope Z_scope.

(* ---- request/offered QoS ---- *)

(* get_discovered_reader_incompatible_qos_policy_list (as fixed by f03d4da and 908a0e8) returns
   the empty list (the pair gets matched) exactly when every RxO policy is compatible per the
   DDS table -- liveliness kind and lease separately: all kinds, all normalized durations *)
Theorem C15_reader_side_eq_spec :
  forall w r, eqos_normalized w -> eqos_normalized r ->
    (reader_incompatible w r = [] <-> dds_rxo w r = true).
Proof. exact reader_side_eq_spec. Qed.

Theorem C15_writer_side_eq_spec :
  forall r w, eqos_normalized w -> eqos_normalized r ->
    (writer_incompatible r w = [] <-> dds_rxo w r = true).
Proof. exact writer_side_eq_spec. Qed.

(* the writer-side and the reader-side function always agree (no hypothesis at all, not even
   normalization): same policy ids, in a different order *)
Theorem C15_both_functions_agree :
  forall w r, Permutation (reader_incompatible w r) (writer_incompatible r w).
Proof. exact both_sides_permutation. Qed.

(* the reported list names exactly the failing policies, each once *)
Theorem C15_reader_reported_policies_exact :
  forall w r, eqos_normalized w -> eqos_normalized r ->
    forall id, In id (reader_incompatible w r) <-> spec_policy_fails id w r = true.
Proof. exact reader_reported_policies_exact. Qed.

Theorem C15_writer_reported_policies_exact :
  forall r w, eqos_normalized w -> eqos_normalized r ->
    forall id, In id (writer_incompatible r w) <-> spec_policy_fails id w r = true.
Proof. exact writer_reported_policies_exact. Qed.

Theorem C15_reported_policies_no_duplicates :
  forall w r, NoDup (reader_incompatible w r) /\ NoDup (writer_incompatible r w).
Proof. exact (fun w r => conj (NoDup_reader_incompatible w r) (NoDup_writer_incompatible r w)). Qed.

(* the derived (sec, nanosec) order is the order of the lengths exactly on normalized values *)
Theorem C15_duration_order_is_length_order :
  forall a b, duration_normalized a -> duration_normalized b ->
    duration_pcmp a b = Some (duration_ns a ?= duration_ns b).
Proof. exact duration_pcmp_ns. Qed.

(* regression: the inputs on which the code before f03d4da / 908a0e8 was wrong (D18) *)
Example C15_fixed_defects_regression :
  reader_incompatible (with_lease qdefault Automatic 20) (with_lease qdefault Automatic 10) = [LIVELINESS_ID] /\
  writer_incompatible (with_lease qdefault Automatic 10) (with_lease qdefault Automatic 20) = [LIVELINESS_ID] /\
  reader_incompatible (with_lease qdefault Automatic 10) (with_lease qdefault Automatic 20) = [] /\
  reader_incompatible (with_presentation qdefault (mkpresentation ScopeInstance true false)) qdefault = [] /\
  writer_incompatible qdefault (with_presentation qdefault (mkpresentation ScopeInstance true false)) = [].
Proof. exact fixed_defects_regression. Qed.

(* ---- partitions ---- *)

(* for every pattern fnmatch can read (plain characters, `*`, `?`, `\x`, bracket lists and
   ranges) without an unquoted `+`: the regex built by fnmatch_to_regex compiles, and on
   every name (line feeds included, since d70d0d9) it decides exactly what fnmatch decides *)
Theorem C15_translator_is_fnmatch :
  forall p fts, fn_tokens p = Some fts -> has_plus p = false ->
    compile p = POk (map rep_of fts) /\
    forall s, reps_match (map rep_of fts) s = fn_match fts s.
Proof. exact compile_is_fnmatch. Qed.

(* the partition test of both call sites is the PARTITION rule of DDS 1.4 on all lists of
   supported names outside the three recorded deviation classes *)
Theorem C15_partition_match_eq_spec :
  forall received local,
    names_supported received = true -> names_supported local = true ->
    known_partition received local = false ->
    partition_matched received local = Some (dds_partition_match received local).
Proof. exact partition_match_eq_spec. Qed.

(* which side is "received" and which "local" never matters *)
Theorem C15_partition_roles_symmetric :
  forall a b, partition_matched a b = partition_matched b a /\
              dds_partition_match a b = dds_partition_match b a.
Proof. exact (fun a b => conj (partition_matched_sym a b) (dds_partition_match_sym a b)). Qed.

(* each deviation class contains a pair of lists on which the code and the standard differ:
   "a+" ~ "aa";  [] vs [""];  "a*" ~ "ab*" *)
Theorem C15_partition_classes_refuted :
  (exists a b, known_plus a b = true /\ partition_matched a b = Some true /\ dds_partition_match a b = false) /\
  (exists a b, known_default a b = true /\ partition_matched a b = Some false /\ dds_partition_match a b = true) /\
  (exists a b, known_two_wildcards a b = true /\ partition_matched a b = Some true /\ dds_partition_match a b = false).
Proof.
  exact (conj (ex_intro _ _ (ex_intro _ _ plus_refuted))
        (conj (ex_intro _ _ (ex_intro _ _ default_refuted))
              (ex_intro _ _ (ex_intro _ _ two_wildcards_refuted)))).
Qed.

(* ---- the whole decision ---- *)

(* both participants reach the same verdict, for EVERY configuration (no hypothesis):
   nothing / inconsistent topic / matched on both, or incompatible on both with the same
   policy ids (as a permutation) *)
Theorem C15_both_sides_agree :
  forall c, option_equiv (writer_side c) (reader_side c).
Proof. exact both_sides_agree. Qed.

(* matched iff topic names equal, types compatible, partitions match per DDS, every RxO
   policy compatible per the DDS table; config_known is now only the three partition
   deviation classes (known_partition of the two name lists) *)
Theorem C15_writer_side_matched_iff_spec :
  forall c, config_in_domain c = true -> config_known c = false ->
    (writer_side c = Some VMatched <-> dds_should_match c = true).
Proof. exact writer_side_matched_iff_spec. Qed.

Theorem C15_reader_side_matched_iff_spec :
  forall c, config_in_domain c = true -> config_known c = false ->
    (reader_side c = Some VMatched <-> dds_should_match c = true).
Proof. exact reader_side_matched_iff_spec. Qed.

(* an incompatible pair is reported as offered / requested incompatible QoS, the status
   naming exactly the offending policies (each once, last_policy_id among them) *)
Theorem C15_writer_side_reports_incompatible :
  forall c, config_in_domain c = true -> config_known c = false -> dds_incompatible_pair c = true ->
    exists v, writer_side c = Some v /\ names_exactly v (spec_failing (c_off c) (c_req c)).
Proof. exact writer_side_reports_incompatible. Qed.

Theorem C15_reader_side_reports_incompatible :
  forall c, config_in_domain c = true -> config_known c = false -> dds_incompatible_pair c = true ->
    exists v, reader_side c = Some v /\ names_exactly v (spec_failing (c_off c) (c_req c)).
Proof. exact reader_side_reports_incompatible. Qed.

(* the boolean oracle applied to the implementation's observations means `names_exactly` *)
Theorem C15_oracle_sound :
  forall v fs, reports v fs = true <-> names_exactly v fs.
Proof. exact reports_sound. Qed.

(* non-vacuity: concrete non-trivial configurations meet the hypotheses *)
Example C15_nonvacuous_match :
  let c := example_cfg (mkeqos Volatile (mkpresentation ScopeInstance true false) Infinite (Finite (mkduration 1 0))
                          (mkliveliness Automatic (Finite (mkduration 10 0))) BestEffort ByReceptionTimestamp Shared [0; 2]) in
  config_in_domain c = true /\ config_known c = false /\ dds_should_match c = true /\ writer_side c = Some VMatched.
Proof. exact example_matches. Qed.
Example C15_nonvacuous_incompatible :
  let c := example_cfg (mkeqos Persistent (mkpresentation ScopeInstance true false) Infinite (Finite (mkduration 1 0))
                          (mkliveliness ManualByParticipant (Finite (mkduration 10 0))) BestEffort ByReceptionTimestamp Exclusive [0]) in
  config_in_domain c = true /\ config_known c = false /\ dds_incompatible_pair c = true /\
  writer_side c = Some (VIncompatible 2 [2; 6; 23]) /\ reader_side c = Some (VIncompatible 2 [2; 6; 23]).
Proof. exact example_incompatible. Qed.
Example C15_nonvacuous_partition :
  names_supported [[97; 91; 97; 45; 99; 93; 42]; [120]] = true /\
  known_partition [[97; 91; 97; 45; 99; 93; 42]; [120]] [[121]; [97; 98; 122; 122]] = false /\
  partition_matched [[97; 91; 97; 45; 99; 93; 42]; [120]] [[121]; [97; 98; 122; 122]] = Some true.
Proof. exact partition_example. Qed.

(* regression of d70d0d9: `?` and `*` match a line feed *)
Example C15_newline_regression :
  partition_matched [[97; 63; 98]] [[97; 10; 98]] = Some true /\ dds_partition_match [[97; 63; 98]] [[97; 10; 98]] = true /\
  partition_matched [[97; 42; 98]] [[97; 10; 98]] = Some true /\ known_partition [[97; 63; 98]] [[97; 10; 98]] = false.
Proof. exact newline_regression. Qed.

Print Assumptions C15_reader_side_eq_spec.
Print Assumptions C15_writer_side_eq_spec.
Print Assumptions C15_both_functions_agree.
Print Assumptions C15_reader_reported_policies_exact.
Print Assumptions C15_writer_reported_policies_exact.
Print Assumptions C15_reported_policies_no_duplicates.
Print Assumptions C15_duration_order_is_length_order.
Print Assumptions C15_translator_is_fnmatch.
Print Assumptions C15_partition_match_eq_spec.
Print Assumptions C15_partition_roles_symmetric.
Print Assumptions C15_partition_classes_refuted.
Print Assumptions C15_both_sides_agree.
Print Assumptions C15_writer_side_matched_iff_spec.
Print Assumptions C15_reader_side_matched_iff_spec.
Print Assumptions C15_writer_side_reports_incompatible.
Print Assumptions C15_reader_side_reports_incompatible.
Print Assumptions C15_oracle_sound.
