(* C15 — Endpoints match exactly when topic, type, partition and RxO QoS are compatible.
   Property file: statements, `exact`, assumptions. *)
From DustDDS Require Import Base.Machine Qos.CompatModel Qos.CompatProofs.
Open Scope Z_scope.

(* get_discovered_reader_incompatible_qos_policy_list returns the empty list (the pair is
   matched) exactly when every request/offered policy is compatible per the DDS table --
   for all QoS values with normalized durations outside the two recorded defect classes *)
Theorem C15_reader_side_eq_spec :
  forall w r, eqos_normalized w -> eqos_normalized r -> known_rxo w r = false ->
    (reader_incompatible w r = [] <-> dds_rxo w r = true).
Proof. exact reader_side_eq_spec. Qed.

Theorem C15_writer_side_eq_spec :
  forall r w, eqos_normalized w -> eqos_normalized r -> known_rxo w r = false ->
    (writer_incompatible r w = [] <-> dds_rxo w r = true).
Proof. exact writer_side_eq_spec. Qed.

Print Assumptions C15_reader_side_eq_spec.
Print Assumptions C15_writer_side_eq_spec.
