(* C02 — Best-effort delivery never duplicates, reorders or corrupts samples.
   Model: Proto/RelModel.v (one writer, one reader, a network of queued datagrams, schedules of
   writes / removals / ticks / deliveries in ANY order / drops / duplications).  `presented s` is the
   list of samples the reader made available to read/take, `s_log s` the publication log. *)
From DustDDS Require Import Base.Machine Proto.RelModel Proto.RelProofs.
Open Scope Z_scope.

(* For EVERY configuration (in particular BEST_EFFORT readers of reliable or best-effort writers, any
   history depth, any fragment size) and EVERY finite schedule: what the reader presented is a
   subsequence of what the writer published, in publication order (sublist), with strictly increasing
   sequence numbers — so each sample at most once — and the presented records are the published
   records themselves (same key, length and payload checksum). *)
Theorem C02_best_effort_safety :
  forall (cf : cfg) (sched : list action),
    let s := run cf init sched in
    sublist (presented s) (s_log s) /\
    StronglySorted Z.lt (map c_sn (presented s)) /\
    NoDup (presented s).
Proof. exact safety_all. Qed.

(* a duplicated DATA_FRAG is recognised and buffered once (fragments are compared as a whole) *)
Theorem C02_frag_dedupe : forall w f, push_frag (push_frag w f) f = push_frag w f.
Proof. exact push_frag_idem. Qed.

(* non-vacuity: a best-effort pair, four samples (the second one fragmented in three), DATA 3 overtakes
   DATA 1, DATA 1 arrives late and twice, a fragment of sample 2 is lost, DATA 4 is duplicated:
   the reader presents exactly 3, 4 *)
Example C02_nonvacuous_reorder_dup_loss :
  presented (run (mkCfg 64 false false 0) init
     [AMatch false false; AWrite 1 16 11; AWrite 1 132 22; AWrite 2 16 33; AWrite 1 16 44;
      ADeliver 4; ADup 0; ADrop 1; ADeliver 2; ADup 0; ADeliver 0; ATake])
  = [mkCh 3 2 16 33; mkCh 4 1 16 44].
Proof. vm_compute. reflexivity. Qed.

(* non-vacuity: fragments of sample 2 arrive out of order, one of them twice, interleaved with later
   samples: the sample is reassembled once and presented before sample 3 *)
Example C02_nonvacuous_fragments_out_of_order :
  presented (run (mkCfg 64 false false 0) init
     [AMatch false false; AWrite 1 16 11; AWrite 1 132 22; AWrite 2 16 33;
      ADeliver 2; ADeliver 2; ADup 1; ADeliver 1; ADeliver 0; ATake])
  = [mkCh 2 1 132 22; mkCh 3 2 16 33].
Proof. vm_compute. reflexivity. Qed.

Print Assumptions C02_best_effort_safety.
Print Assumptions C02_frag_dedupe.
