(* C11 — Instance identity: same instance handle exactly when key fields are equal.
   Property file: statements, `exact`, non-vacuity, assumptions. *)
From DustDDS Require Import Base.Machine KeyHash.Md5Model KeyHash.KeyModel KeyHash.KeyProofs.
Open Scope Z_scope.

(* <= : two samples with equal key members get the same handle, whatever their other
   members hold (unconditional: any type, any data, errors included) *)
Theorem C11_equal_keys_equal_handles :
  forall t d1 d2, key_vals_ty t d1 = key_vals_ty t d2 -> instance_handle t d1 = instance_handle t d2.
Proof. exact handle_eq_of_key_eq. Qed.

Print Assumptions C11_equal_keys_equal_handles.
