(* C11 — Instance identity: same instance handle exactly when key fields are equal; the
   handle a writer assigns equals the handle the reader derives, with or without key hash.
   Property file: statements, `exact`, non-vacuity, assumptions.

   Vocabulary (KeyHash/KeyModel.v): `instance_handle t d` is
   get_instance_handle_from_dynamic_data on a sample d of the keyed type t;
   `key_vals_ty t d` are the values of the key members of d (depth first through non-key
   nested structures); `key_type_ok t`: the key members lie in the supported fragment (no
   optional / MUTABLE / nested-collection key members, ids unique inside every structure);
   `key_ids_unique t`: no two members of the flattened key holder share a member id (a
   theorem since the key holder numbers its members afresh, fix c1628d5);
   `key_ok t d`: the key members hold in-range, in-bound values. *)
From DustDDS Require Import Base.Machine KeyHash.Md5Model KeyHash.KeyModel KeyHash.KeyProofs
  KeyHash.KeyMainProofs KeyHash.KeyReaderProofs KeyHash.KeyTotalProofs.
Open Scope Z_scope.

(* <= : two samples with equal key members get the same handle, whatever their other
   members hold (unconditional: any type, any data, error results included) *)
Theorem C11_equal_keys_equal_handles :
  forall t d1 d2, key_vals_ty t d1 = key_vals_ty t d2 -> instance_handle t d1 = instance_handle t d2.
Proof. exact handle_eq_of_key_eq. Qed.

(* => : two samples with the same handle have equal key members, unless their two
   (different) serialized keys are an explicit MD5 coincidence *)
Theorem C11_equal_handles_equal_keys_unless_md5_coincidence :
  forall t d1 d2 h,
    key_type_ok t = true -> key_ok t d1 = true -> key_ok t d2 = true ->
    instance_handle t d1 = Ok h -> instance_handle t d2 = Ok h ->
    key_vals_ty t d1 = key_vals_ty t d2 \/
    exists b1 b2, key_bytes t d1 = Ok b1 /\ key_bytes t d2 = Ok b2 /\ md5_coincidence b1 b2.
Proof. exact key_eq_of_handle_eq'. Qed.

(* the two directions together: barring an MD5 coincidence of the two serialized keys,
   same handle <-> same key members *)
Theorem C11_same_handle_iff_same_key :
  forall t d1 d2,
    key_type_ok t = true -> key_ok t d1 = true -> key_ok t d2 = true ->
    ~ (exists b1 b2, key_bytes t d1 = Ok b1 /\ key_bytes t d2 = Ok b2 /\ md5_coincidence b1 b2) ->
    (instance_handle t d1 = instance_handle t d2 <-> key_vals_ty t d1 = key_vals_ty t d2).
Proof. exact same_handle_iff_same_key'. Qed.

(* every well-formed key is assigned a 16-byte handle *)
Theorem C11_wellformed_key_gets_a_handle :
  forall t d, key_type_ok t = true -> key_ok t d = true ->
    exists h, instance_handle t d = Ok h /\ length h = 16%nat.
Proof. exact handle_total'. Qed.

(* the flattened key holder never has two members with the same id: the former class of
   finding C11-key-id-collision (fixed by c1628d5) is empty *)
Theorem C11_key_holder_ids_never_collide : forall t, key_ids_unique t = true.
Proof. exact key_ids_unique_always. Qed.

(* reader side, serialized key without key hash: deriving the handle from the decoded key
   holder gives the writer's handle (every type, collisions included) *)
Theorem C11_reader_derivation_from_key_equals_writer_handle :
  forall t d kd, key_holder_data t d = Ok kd -> reader_handle_from_key t kd = instance_handle t d.
Proof. exact reader_key_derivation. Qed.

(* the whole reader side (communication_methods.rs / builtin_data_reader.rs), with and
   without PID_KEY_HASH, sample and serialized key, over any codec that returns what it was
   given (round trip: property C09) *)
Theorem C11_writer_and_reader_agree :
  forall (decode_sample decode_key : ty -> list Z -> option fields)
         (encode_sample encode_key : ty -> fields -> list Z),
  (forall t d, decode_sample t (encode_sample t d) = Some d) ->
  (forall t kd, decode_key (key_holder_ty t) (encode_key t kd) = Some kd) ->
  forall t d kd h,
    instance_handle t d = Ok h -> key_holder_data t d = Ok kd ->
    (forall alive payload, reader_handle decode_sample decode_key t alive (Some h) payload = Ok h) /\
    reader_handle decode_sample decode_key t true None (encode_sample t d) = Ok h /\
    reader_handle decode_sample decode_key t false None (encode_key t kd) = Ok h.
Proof. exact writer_reader_agree. Qed.

(* the boolean the correspondence oracle uses for "the key members are equal" *)
Theorem C11_oracle_sound :
  forall t d1 d2 vs1 vs2, key_vals_ty t d1 = Ok vs1 -> key_vals_ty t d2 = Ok vs2 ->
    (keys_eqb t d1 d2 = true <-> key_vals_ty t d1 = key_vals_ty t d2).
Proof. exact keys_eqb_iff. Qed.

(* non-vacuity: struct T { a: Inner{ #[key] id: u8 (id 10) } (id 0); #[key] name: string (id 1);
   #[key] pos: [u16; 2] (id 2); other: i32 (id 3) } — nested key, string key, array key;
   the two samples differ in the non-key member only / in the string key *)
Definition ex_t : ty :=
  TStruct Final
    (MCons 0 false false (TStruct Final (MCons 10 true false (TPrim PU8) MNil))
    (MCons 1 true false (TStr 0)
    (MCons 2 true false (TArr (TPrim PU16) [2])
    (MCons 3 false false (TPrim PI32) MNil)))).
Definition ex_d (name : list Z) (other : Z) : fields :=
  FCons 0 (VStruct (FCons 10 (VPrim SU8 1) FNil))
  (FCons 1 (VStr name)
  (FCons 2 (VSeqPrim SU16 [3; 4])
  (FCons 3 (VPrim SI32 other) FNil))).

Example C11_nonvacuous :
  key_type_ok ex_t = true /\ key_ids_unique ex_t = true /\
  key_ok ex_t (ex_d [97; 98] 5) = true /\ key_ok ex_t (ex_d [97; 99] 5) = true /\
  key_vals_ty ex_t (ex_d [97; 98] 5) = key_vals_ty ex_t (ex_d [97; 98] (-7)) /\
  instance_handle ex_t (ex_d [97; 98] 5) = Ok [1;0;0;0;0;0;0;3;97;98;0;0;0;3;0;4] /\
  instance_handle ex_t (ex_d [97; 98] (-7)) = Ok [1;0;0;0;0;0;0;3;97;98;0;0;0;3;0;4] /\
  instance_handle ex_t (ex_d [97; 99] 5) = Ok [1;0;0;0;0;0;0;3;97;99;0;0;0;3;0;4] /\
  (kd <- key_holder_data ex_t (ex_d [97; 98] 5) ;; reader_handle_from_key ex_t kd)
    = Ok [1;0;0;0;0;0;0;3;97;98;0;0;0;3;0;4].
Proof. repeat (match goal with |- _ /\ _ => split end); vm_compute; reflexivity. Qed.

Print Assumptions C11_equal_keys_equal_handles.
Print Assumptions C11_equal_handles_equal_keys_unless_md5_coincidence.
Print Assumptions C11_same_handle_iff_same_key.
Print Assumptions C11_wellformed_key_gets_a_handle.
Print Assumptions C11_key_holder_ids_never_collide.
Print Assumptions C11_reader_derivation_from_key_equals_writer_handle.
Print Assumptions C11_writer_and_reader_agree.
Print Assumptions C11_oracle_sound.
