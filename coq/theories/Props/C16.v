(* C16 — Matched-status counts track the actual matched set.
   Model: Disc/MatchedModel.v — `run compat st0 acts` is the bookkeeping of one local DataWriter
   or DataReader (both sides run the same logic) driven by the discovery actions `acts`:
   participant discovered, endpoint announced / updated, endpoint deleted, participant departed
   or ignored, participant lease expired, idle worker iteration, status read.
   `irun compat ideal0 acts` is the specification: the set of remote endpoints that are
   announced with compatible QoS, not deleted and whose participant has not departed; total
   counts every unmatched->matched transition once; a status read returns
   (total, total - total at the last read, |set|, |set| - |set| at the last read).
   `compat` (QoS/topic/partition/type compatibility) is an arbitrary predicate. *)
From DustDDS Require Import Base.Machine Disc.MatchedModel Disc.MatchedProofs.
Open Scope Z_scope.

(* For ALL histories of endpoint creation, QoS update, deletion, participant departure / lease
   expiry / ignore, interleaved with status reads: every status read returns exactly the specified
   four numbers (so the change fields are the differences since the last read), the matched list
   is the specified set (same order, no duplicates), current_count = its length, total_count =
   the number of distinct matches, and the RTPS proxy set is exactly the matched set (no DATA /
   HEARTBEAT is addressed to an endpoint that is deleted, incompatible or whose participant is gone). *)
Theorem C16_counts_track_matched_set :
  forall compat acts,
    let r := run compat st0 acts in
    let ir := irun compat ideal0 acts in
    snd r = snd ir /\
    keys (matched (fst r)) = i_keys (fst ir) /\
    cur (fst r) = zlen (matched (fst r)) /\
    total (fst r) = i_total (fst ir) /\
    NoDup (keys (matched (fst r))) /\
    map x_key (prox (fst r)) = keys (matched (fst r)).
Proof. exact counts_track_matched_set. Qed.

(* The specification itself: a status read returns (total, total - total at the previous read,
   size of the set, size - size at the previous read); total grows by one exactly when an
   endpoint that is not in the set is announced with compatible QoS. *)
Theorem C16_spec_read_and_match :
  forall compat i d,
    snd (istep compat i ARead) =
      Some (i_total i, i_total i - i_rt i, zlen (i_keys i), zlen (i_keys i) - i_rc i) /\
    i_rt (fst (istep compat i ARead)) = i_total i /\
    i_rc (fst (istep compat i ARead)) = zlen (i_keys i) /\
    (compat d = true -> kmem (ekey d) (i_keys i) = false ->
       i_keys (fst (istep compat i (ADisc d))) = i_keys i ++ [ekey d] /\
       i_total (fst (istep compat i (ADisc d))) = i_total i + 1) /\
    (compat d = true -> kmem (ekey d) (i_keys i) = true -> fst (istep compat i (ADisc d)) = i).
Proof. exact spec_read_and_match. Qed.

(* non-vacuity / regression: the four histories that broke the property before the fixes (QoS
   update of a matched endpoint; update to incompatible QoS; lease expiry of the participant;
   deletion) and a mixed history, with their status replies (reader deadline >= 10 is compatible) *)
Example C16_nonvacuous :
  snd (run wcompat st0 [APart 1; ADisc w_r; ARead; ADisc (mkEp 1 7 0 20 5); ARead]) = [(1, 1, 1, 1); (1, 0, 1, 0)] /\
  snd (run wcompat st0 [APart 1; ADisc w_r; ARead; ADisc (mkEp 1 7 0 5 0); ARead]) = [(1, 1, 1, 1); (1, 0, 0, -1)] /\
  snd (run wcompat st0 [APart 1; ADisc w_r; ARead; AStale 1; ATick; ARead]) = [(1, 1, 1, 1); (1, 0, 0, -1)] /\
  prox (fst (run wcompat st0 [APart 1; ADisc w_r; AGone (1, 7)])) = [] /\
  snd (run wcompat st0 [APart 1; APart 2; ADisc w_r; ADisc (mkEp 2 3 0 30 1); ADisc (mkEp 2 4 0 5 1); ARead;
                        AGone (2, 3); AGone (2, 4); APartGone 2; ARead]) = [(2, 2, 2, 2); (2, 0, 1, -1)].
Proof. exact regression_histories. Qed.

Print Assumptions C16_counts_track_matched_set.
Print Assumptions C16_spec_read_and_match.
