(* C16 — Matched-status counts track the actual matched set.
   Model: Disc/MatchedModel.v — `run sd fx compat st0 acts` is the bookkeeping of one local
   DataWriter (sd = Wr) / DataReader (sd = Rd) driven by the discovery actions `acts`
   (fx = false: the code as it is; fx = true: the code with proposed_fixes/C16-matched-bookkeeping.diff);
   `irun compat ideal0 acts` is the specification: the set of remote endpoints that are
   announced with compatible QoS, not deleted and whose participant has not departed; total
   counts every unmatched->matched transition once; a status read returns
   (total, total - total at the last read, |set|, |set| - |set| at the last read).
   `compat` (QoS/topic/partition/type compatibility) is an arbitrary predicate. *)
From DustDDS Require Import Base.Machine Disc.MatchedModel Disc.MatchedProofs.
Open Scope Z_scope.

(* With the proposed patch, for ALL histories of endpoint creation, QoS update, deletion,
   participant departure / lease expiry / ignore, interleaved with status reads, on both sides:
   every status read returns exactly the specified four numbers, the matched list is the
   specified set (same order, no duplicates), current_count = its length, total_count = the
   number of distinct matches, and the RTPS proxy set is exactly the matched set (so no DATA /
   HEARTBEAT is addressed to an unmatched endpoint). *)
Theorem C16_patched_code_meets_spec :
  forall sd compat acts,
    let r := run sd true compat st0 acts in
    let ir := irun compat ideal0 acts in
    snd r = snd ir /\
    keys (matched (fst r)) = i_keys (fst ir) /\
    cur (fst r) = zlen (matched (fst r)) /\
    total (fst r) = i_total (fst ir) /\
    NoDup (keys (matched (fst r))) /\
    map x_key (prox (fst r)) = keys (matched (fst r)).
Proof. exact fixed_refines_spec_clean. Qed.

(* The code as it is: the same for every history that never (1) updates a matched endpoint with
   compatible QoS, (2) updates a matched endpoint to incompatible QoS, (3) removes a participant
   that owns a matched endpoint (classes decided on the specification state, see class_of);
   deletions of matched endpoints (class 4) are allowed here: status replies, list, counts. *)
Theorem C16_counts_track_matched_set_outside_known_classes :
  forall sd compat acts,
    first_class compat false ideal0 acts = 0%N ->
    let r := run sd false compat st0 acts in
    let ir := irun compat ideal0 acts in
    snd r = snd ir /\
    keys (matched (fst r)) = i_keys (fst ir) /\
    cur (fst r) = zlen (matched (fst r)) /\
    total (fst r) = i_total (fst ir) /\
    NoDup (keys (matched (fst r))).
Proof. exact faithful_counts_clean. Qed.

(* ... and the RTPS proxy set equals the matched set for every history that in addition never
   deletes a matched endpoint (class 4). *)
Theorem C16_proxies_eq_matched_outside_known_classes :
  forall sd compat acts,
    first_class compat true ideal0 acts = 0%N ->
    let r := run sd false compat st0 acts in
    map x_key (prox (fst r)) = keys (matched (fst r)).
Proof. exact faithful_proxies_clean. Qed.

(* The specification itself: a status read returns (total, total - total at the previous read,
   size of the set, size - size at the previous read); total grows by one exactly when an
   endpoint that is not in the set is announced with compatible QoS. *)
Theorem C16_spec_read_and_match :
  forall compat i d,
    snd (istep compat i ARead) =
      Some (i_total i, i_total i - i_rt i, zlen (i_keys i), zlen (i_keys i) - i_rc i) /\
    i_rt (fst (istep compat i ARead)) = i_total i /\
    i_rc (fst (istep compat i ARead)) = zlen (i_keys i) /\
    (compat d = true -> kmem (ekey d) (i_keys i) = false ->
       i_keys (fst (istep compat i (ADisc d))) = i_keys i ++ [ekey d] /\
       i_total (fst (istep compat i (ADisc d))) = i_total i + 1) /\
    (compat d = true -> kmem (ekey d) (i_keys i) = true -> fst (istep compat i (ADisc d)) = i).
Proof. exact spec_read_and_match. Qed.

(* Each class really breaks the property on the code as it is (both sides). *)
Theorem C16_update_of_matched_endpoint_is_recounted :
  exists acts,
    first_class wcompat false ideal0 acts = 1%N /\
    snd (run Wr false wcompat st0 acts) <> snd (irun wcompat ideal0 acts) /\
    snd (run Rd false wcompat st0 acts) <> snd (irun wcompat ideal0 acts).
Proof. exact class1_refuted. Qed.

Theorem C16_incompatible_update_stays_matched :
  exists acts,
    first_class wcompat false ideal0 acts = 2%N /\
    snd (run Wr false wcompat st0 acts) <> snd (irun wcompat ideal0 acts) /\
    snd (run Rd false wcompat st0 acts) <> snd (irun wcompat ideal0 acts).
Proof. exact class2_refuted. Qed.

Theorem C16_participant_removal_keeps_counts :
  exists acts,
    first_class wcompat false ideal0 acts = 3%N /\
    snd (run Wr false wcompat st0 acts) <> snd (irun wcompat ideal0 acts) /\
    snd (run Rd false wcompat st0 acts) <> snd (irun wcompat ideal0 acts).
Proof. exact class3_refuted. Qed.

Theorem C16_deleted_endpoint_keeps_rtps_proxy :
  exists acts,
    first_class wcompat true ideal0 acts = 4%N /\
    first_class wcompat false ideal0 acts = 0%N /\
    map x_key (prox (fst (run Wr false wcompat st0 acts))) <>
    keys (matched (fst (run Wr false wcompat st0 acts))).
Proof. exact class4_refuted. Qed.

(* non-vacuity: a history outside the classes with matches, an incompatible endpoint,
   deletions and a graceful departure; the statuses are non-trivial *)
Example C16_nonvacuous :
  let acts := [APart 1; APart 2; ADisc w_r; ADisc (mkEp 2 3 0 30 1); ADisc (mkEp 2 4 0 5 1); ARead;
               AGone (2, 3); AGone (2, 4); APartGone 2; ARead] in
  first_class wcompat false ideal0 acts = 0%N /\
  snd (run Wr false wcompat st0 acts) = [(2, 2, 2, 2); (2, 0, 1, -1)].
Proof. exact clean_history_nonvacuous. Qed.

Print Assumptions C16_patched_code_meets_spec.
Print Assumptions C16_counts_track_matched_set_outside_known_classes.
Print Assumptions C16_proxies_eq_matched_outside_known_classes.
Print Assumptions C16_spec_read_and_match.
Print Assumptions C16_update_of_matched_endpoint_is_recounted.
Print Assumptions C16_incompatible_update_stays_matched.
Print Assumptions C16_participant_removal_keeps_counts.
Print Assumptions C16_deleted_endpoint_keeps_rtps_proxy.
