(* C22 — Instance and view states follow the DDS instance life cycle.

   Vocabulary (defined in Cache/C22Proofs.v):
     inst_or_new l h     the record (view, state, disposed/no-writers generation count) of
                         instance h in the instance table l; InstanceState::new for an
                         instance the reader has not heard of
     events b h ops xs   what happened to instance h in the history ops with observed results
                         xs: `LChange w k` for every change of h (b = true: only those that were
                         Added; b = false: every one that reached update_state), `LAccess` for
                         every read/take/..next_instance that returned a sample of h
     spec_step           the DDS 1.4 (2.2.2.5.1.3) automaton with the set of registered writers:
                         write: ALIVE, on rebirth view NEW and the matching counter +1;
                         dispose: ALIVE -> NOT_ALIVE_DISPOSED; unregister: writer leaves the set,
                         ALIVE -> NOT_ALIVE_NO_WRITERS when the set becomes empty; access: NOT_NEW
     all_stored xs       every add returned Added (or the unknown-instance error that leaves the
                         reader untouched)                        -- complement of class 2
     sole_unregister evs every unregister arrives when no OTHER writer is registered
                                                                  -- complement of class 1 *)
From DustDDS Require Import Base.Machine Cache.ReaderModel Cache.C22Proofs.
Open Scope Z_scope.

(* For every QoS, every history and every instance: the reader's instance record equals the
   fold of the DDS automaton over the stored changes of the instance and the accesses to it. *)
Theorem C22_lifecycle_refines_spec :
  forall (q : qos) (ops : list op) (h : Z),
    let xs := snd (run_obs (init_reader q) ops) in
    let evs := events true h ops xs in
    all_stored xs -> sole_unregister evs ->
    let i := inst_or_new (r_insts (run q ops)) h in
    let s := fold_left spec_step evs l_new in
    i_state i = l_state s /\ i_view i = l_view s /\ i_dgc i = l_dgc s /\ i_nwgc i = l_nwgc s.
Proof. exact lifecycle_refines_spec. Qed.

(* the same with the hypothesis on the input only: all changes of the instance come from one
   writer *)
Theorem C22_lifecycle_refines_spec_single_writer :
  forall (q : qos) (ops : list op) (h : Z),
    let xs := snd (run_obs (init_reader q) ops) in
    all_stored xs ->
    (exists w0, forall w k t d rts, In (OpAdd w h k t d rts) ops -> w = w0) ->
    let i := inst_or_new (r_insts (run q ops)) h in
    let s := fold_left spec_step (events true h ops xs) l_new in
    i_state i = l_state s /\ i_view i = l_view s /\ i_dgc i = l_dgc s /\ i_nwgc i = l_nwgc s.
Proof. exact lifecycle_refines_spec_single_writer. Qed.

(* Without any hypothesis: the record is the fold of the code's own update_state /
   mark_viewed over EVERY received change (stored or not) and every access; this is the
   exact statement of the recorded deviation class 2. *)
Theorem C22_lifecycle_received :
  forall (q : qos) (ops : list op) (h : Z),
    inst_or_new (r_insts (run q ops)) h =
    fold_left (fun i e => match e with LChange _ k => update_state i k | LAccess => mark_viewed i end)
              (events false h ops (snd (run_obs (init_reader q) ops))) (new_inst h).
Proof. exact lifecycle_received. Qed.

(* add_reader_change applies update_state before and after the gates: idempotent *)
Theorem C22_update_state_idempotent :
  forall i k, update_state (update_state i k) k = update_state i k.
Proof. exact update_state_idem. Qed.

(* generation counts stored in a sample are the instance's counts at reception *)
Theorem C22_sample_generation_counts :
  forall r w data k h t rts,
    snd (add_change r w data k h t rts) = Added ->
    exists smp i,
      In smp (r_samples (fst (add_change r w data k h t rts))) /\
      find_inst h (r_insts (fst (add_change r w data k h t rts))) = Some i /\
      s_inst smp = h /\ s_data smp = data /\ s_writer smp = w /\ s_kind smp = k /\ s_ts smp = t /\
      s_dgc smp = i_dgc i /\ s_nwgc smp = i_nwgc i.
Proof. exact add_change_stored_counts. Qed.

(* ... and they are the generation of the DDS automaton in which the sample was written *)
Theorem C22_sample_generation_counts_spec :
  forall q ops1 w h k t d rts,
    let ops := ops1 ++ [OpAdd w h k t d rts] in
    let xs := snd (run_obs (init_reader q) ops) in
    let evs := events true h ops xs in
    all_stored xs -> sole_unregister evs ->
    snd (add_change (run q ops1) w d k h t rts) = Added ->
    exists smp, In smp (r_samples (run q ops)) /\ s_inst smp = h /\ s_data smp = d /\ s_writer smp = w /\
                s_dgc smp = l_dgc (fold_left spec_step evs l_new) /\
                s_nwgc smp = l_nwgc (fold_left spec_step evs l_new).
Proof. exact stored_sample_counts_spec. Qed.

(* what a SampleInfo shows: instance and view state of the instance before the access, the
   generation counts of the sample *)
Theorem C22_sample_info :
  forall r o l x,
    coll_of (snd (step r o)) = CollOk l -> In x l ->
    exists s i, In s (r_samples r) /\ find_inst (f_inst x) (r_insts r) = Some i /\
      s_inst s = f_inst x /\ f_data x = s_data s /\ f_ts x = s_ts s /\
      f_is x = i_state i /\ f_vs x = i_view i /\ f_dgc x = s_dgc s /\ f_nwgc x = s_nwgc s.
Proof. exact step_presents. Qed.

(* view state: an unknown instance starts NEW; an operation that returns a sample of the
   instance leaves it NOT_NEW; any other operation leaves it NEW exactly when it was NEW or
   the operation is a rebirth (an ALIVE change received while the instance is not alive) *)
Theorem C22_view_new_exactly_first_access_or_rebirth :
  forall r o h,
    let i := inst_or_new (r_insts r) h in
    let x := snd (step r o) in
    let i' := inst_or_new (r_insts (fst (step r o))) h in
    (find_inst h (r_insts r) = None -> i_view i = VNew) /\
    (accessed (coll_of x) h = true -> i_view i' = VNotNew) /\
    (accessed (coll_of x) h = false ->
       (i_view i' = VNew <->
        i_view i = VNew \/
        exists w k, ev_of false h o x = [LChange w k] /\ k = KAlive /\ i_state i <> IAlive)).
Proof. exact view_new_characterisation. Qed.

(* recorded deviations (both hypotheses of the refinement theorem are necessary) *)
Theorem C22_class1_nowriters_multiwriter_witness :
  let q := mkQ false None None None None false (Some 0) in
  let ops := [OpAdd 1 1 KAlive (Some 10) 100 10; OpAdd 2 1 KAlive (Some 20) 101 20;
              OpAdd 1 1 KUnregistered (Some 30) 102 30] in
  let xs := snd (run_obs (init_reader q) ops) in
  all_stored xs /\
  i_state (inst_or_new (r_insts (run q ops)) 1) = INoWriters /\
  l_state (fold_left spec_step (events true 1 ops xs) l_new) = IAlive /\
  l_writers (fold_left spec_step (events true 1 ops xs) l_new) = [2].
Proof. exact class1_witness. Qed.

Theorem C22_class2_nonstored_change_witness :
  let q := mkQ false None (Some 1) None None false (Some 0) in
  let ops := [OpAdd 1 1 KAlive (Some 10) 100 10; OpAdd 1 1 KDisposed (Some 20) 101 20] in
  let xs := snd (run_obs (init_reader q) ops) in
  xs = [ObsAdd Added; ObsAdd (Rejected 1 2)] /\
  map s_data (r_samples (run q ops)) = [100] /\
  i_state (inst_or_new (r_insts (run q ops)) 1) = IDisposed /\
  l_state (fold_left spec_step (events true 1 ops xs) l_new) = IAlive /\
  sole_unregister (events true 1 ops xs).
Proof. exact class2_witness. Qed.

(* non-vacuity: a history with dispose, rebirth, read, unregister, rebirth by the single
   writer meets the hypotheses and walks through all states *)
Example C22_nonvacuous :
  let q := mkQ false None None None None false (Some 0) in
  let mAll := mkM true true true true true true true in
  let ops := [OpAdd 1 7 KAlive (Some 1) 100 10; OpRead 10 mAll None; OpAdd 1 7 KDisposed (Some 2) 101 20;
              OpAdd 1 7 KAlive (Some 3) 102 30; OpAdd 1 7 KUnregistered (Some 4) 103 40;
              OpAdd 1 7 KAlive (Some 5) 104 50] in
  let xs := snd (run_obs (init_reader q) ops) in
  all_stored xs /\ sole_unregister (events true 7 ops xs) /\
  inst_or_new (r_insts (run q ops)) 7 = mkI 7 VNew IAlive 1 1 /\
  map (fun s => (s_dgc s, s_nwgc s)) (r_samples (run q ops)) = [(0, 0); (0, 0); (1, 0); (1, 0); (1, 1)].
Proof. exact nonvacuous. Qed.

Print Assumptions C22_lifecycle_refines_spec.
Print Assumptions C22_lifecycle_refines_spec_single_writer.
Print Assumptions C22_lifecycle_received.
Print Assumptions C22_update_state_idempotent.
Print Assumptions C22_sample_generation_counts.
Print Assumptions C22_sample_generation_counts_spec.
Print Assumptions C22_sample_info.
Print Assumptions C22_view_new_exactly_first_access_or_rebirth.
Print Assumptions C22_class1_nowriters_multiwriter_witness.
Print Assumptions C22_class2_nonstored_change_witness.
