(* C10 — XCDR encoding matches the DDS-XTypes standard as implemented independently.
   PARTIAL: there is no independent DDS implementation in the sandbox; the oracle is
   Xcdr/SpecEncode.v, a second encoder written by us from the rule table of DDS-XTypes 1.3
   7.4.3.5.3 (structure independent of the code model).  Common subset = stage2 (primitives,
   strings, enumerations, sequences, arrays, FINAL/APPENDABLE structures, optional members);
   mutable structures and unions are not compared (the implementation does not round-trip
   there, see C09).
     encode / decode     model of the implementation (tied to the code by the correspondence run)
     spec_encode         the specification encoder
     c10_class v t x     0, or the recorded difference class: 1 char8 >= 0x80, 2 wide string,
                         3 XCDR1 optional member, 4 XCDR1 float128 (bytes agree, reader fails) *)
From DustDDS Require Import Base.Machine Xcdr.XcdrBytes Xcdr.XcdrModel Xcdr.XcdrProps Xcdr.XcdrProofs
  Xcdr.SpecEncode Xcdr.SpecProofs.
Open Scope Z_scope.

(* outside the recorded classes the implementation's bytes ARE the specification encoder's
   bytes, and the implementation reads them back to the same value *)
Theorem C10_bytes_equal_and_decodable_partial : forall (v : ver) (e : endian) (t : ty) (x : val),
  is_aggr t = true -> wf_ty t = true -> stage2 t = true -> wt t x = true ->
  c10_class v t x = 0%N ->
  encode v e t x = Ok (spec_encode v e t x) /\ decode t (spec_encode v e t x) = Ok x.
Proof. exact c10_outside_classes. Qed.

(* the writer agrees with the specification encoder also for XCDR1 float128 (class 4 is a
   reader defect only): equality on `common`, which does not exclude float128 *)
Theorem C10_bytes_equal_on_common : forall (v : ver) (e : endian) (t : ty) (x : val),
  is_aggr t = true -> common v t = true -> wt t x = true -> val_nonascii_char x = false ->
  encode v e t x = Ok (spec_encode v e t x).
Proof. exact code_eq_spec. Qed.

(* the recorded differences are real differences between the two encoders *)
Theorem C10_wstring_differs :
  differs V2 LE (TStruct Final [(mk 0, TWStr)]) (VData [(0, VStr [97])]).
Proof. exact diff_wstring. Qed.

Theorem C10_char8_differs :
  differs V2 LE (TStruct Final [(mk 0, TPrim PChar8)]) (VData [(0, VP KChar8 233)]).
Proof. exact diff_char8. Qed.

Theorem C10_xcdr1_optional_origin_differs :
  differs V1 LE (TStruct Final [(mko 0, TPrim PU8); (mk 1, TPrim PU64)])
          (VData [(0, VP KU8 1); (1, VP KU64 2)]).
Proof. exact diff_xcdr1_optional_origin. Qed.

Example C10_nonvacuous :
  is_aggr ex_ty = true /\ wf_ty ex_ty = true /\ stage2 ex_ty = true /\ wt ex_ty ex_val = true /\
  c10_class V1 (TStruct Appendable [(mk 0, TPrim PU8); (mk 2, TStr); (mk 3, TSeq (TPrim PI16))])
            (VData [(0, VP KU8 7); (2, VStr [104; 233]); (3, VSeqP KI16 [-1; 300])]) = 0%N.
Proof. repeat split; vm_compute; reflexivity. Qed.

Print Assumptions C10_bytes_equal_and_decodable_partial.
Print Assumptions C10_bytes_equal_on_common.
Print Assumptions C10_wstring_differs.
Print Assumptions C10_char8_differs.
Print Assumptions C10_xcdr1_optional_origin_differs.
