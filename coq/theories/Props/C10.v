(* C10 — XCDR encoding matches the DDS-XTypes standard as implemented independently.
   PARTIAL: there is no independent DDS implementation in the sandbox; the oracle is
   Xcdr/SpecEncode.v, a second encoder written by us from the rule table of DDS-XTypes 1.3
   7.4.3.5.3 (structure independent of the code model).  Common subset = stage2 (primitives,
   strings, enumerations, sequences, arrays, FINAL/APPENDABLE structures, optional members);
   mutable structures and unions are not compared (the implementation does not round-trip
   there, see C09).
     encode / decode     model of the implementation (tied to the code by the correspondence run)
     spec_encode         the specification encoder
     c10_class v t x     0, or the recorded difference class: 2 wide string (the former classes 1 char8
                         >= 0x80, 3 XCDR1 optional member origin and 4 XCDR1 float128 reader were repaired
                         in /repo: c6ffb24, addc370, 0b5427b)
     known_class v t x   the C09 classes (4 stage 3, 5 XCDR1 optional member that can be empty)
     sup v t             XCDR1: no optional member id >= 2^14 (not serializable with the short header) *)
From DustDDS Require Import Base.Machine Xcdr.XcdrBytes Xcdr.XcdrModel Xcdr.XcdrProps Xcdr.XcdrProofs
  Xcdr.SpecEncode Xcdr.SpecProofs.
Open Scope Z_scope.

(* outside the recorded classes (c10_class: wide strings; known_class: the C09 classes that
   remain) the implementation's bytes ARE the specification encoder's bytes, and the
   implementation reads them back to the same value (samples within the size limit of the
   length fields) *)
Theorem C10_bytes_equal_and_decodable_partial : forall (v : ver) (e : endian) (t : ty) (x : val),
  is_aggr t = true -> wf_ty t = true -> sup v t = true -> wt t x = true ->
  c10_class v t x = 0%N -> known_class v t x = 0%N ->
  encode v e t x = Ok (spec_encode v e t x) /\
  (blen (spec_encode v e t x) <= size_limit v t -> decode t (spec_encode v e t x) = Ok x).
Proof. exact c10_outside_classes. Qed.

(* the same on the structural subset `common` (no union, no mutable type, no wide string, no
   XCDR1 optional member that can be empty or has an id >= 2^14) without reference to the classes *)
Theorem C10_bytes_equal_on_common : forall (v : ver) (e : endian) (t : ty) (x : val),
  is_aggr t = true -> common v t = true -> wt t x = true ->
  encode v e t x = Ok (spec_encode v e t x) /\
  (blen (spec_encode v e t x) <= size_limit v t -> decode t (spec_encode v e t x) = Ok x).
Proof. intros. split; [now apply code_eq_spec|intros; now apply spec_decodable]. Qed.

(* the inputs of the repaired differences (char8 0xE9; XCDR1 float128; XCDR1 optional member
   followed by an 8-byte member) agree and come back *)
Theorem C10_repaired_inputs_agree :
  (let t := TStruct Final [(mk 0, TPrim PChar8)] in let x := VData [(0, VP KChar8 233)] in
   encode V2 LE t x = Ok (spec_encode V2 LE t x) /\ decode t (spec_encode V2 LE t x) = Ok x) /\
  (let t := TStruct Final [(mk 0, TPrim PU64); (mk 1, TPrim PF128)] in
   let x := VData [(0, VP KU64 7); (1, VP KF128 9)] in
   encode V1 BE t x = Ok (spec_encode V1 BE t x) /\ decode t (spec_encode V1 BE t x) = Ok x) /\
  (let t := TStruct Final [(mko 0, TPrim PU8); (mk 1, TPrim PU64)] in
   let x := VData [(0, VP KU8 1); (1, VP KU64 2)] in
   encode V1 LE t x = Ok (spec_encode V1 LE t x) /\ decode t (spec_encode V1 LE t x) = Ok x).
Proof. exact regression_c10. Qed.

(* the recorded differences are real differences between the two encoders *)
Theorem C10_wstring_differs :
  differs V2 LE (TStruct Final [(mk 0, TWStr)]) (VData [(0, VStr [97])]).
Proof. exact diff_wstring. Qed.

Example C10_nonvacuous :
  is_aggr ex_ty = true /\ wf_ty ex_ty = true /\ stage2 ex_ty = true /\ wt ex_ty ex_val = true /\
  c10_class V1 (TStruct Appendable [(mk 0, TPrim PU8); (mk 2, TStr); (mk 3, TSeq (TPrim PI16))])
            (VData [(0, VP KU8 7); (2, VStr [104; 233]); (3, VSeqP KI16 [-1; 300])]) = 0%N.
Proof. repeat split; vm_compute; reflexivity. Qed.

Print Assumptions C10_bytes_equal_and_decodable_partial.
Print Assumptions C10_bytes_equal_on_common.
Print Assumptions C10_wstring_differs.
Print Assumptions C10_repaired_inputs_agree.
