(* C39 — Compatible type evolution preserves common members; assignability is reflexive and
   agrees with decoding.  Property file: statements, `exact`, assumptions.

   Vocabulary (Xcdr/AssignModel.v): `struct_assignable tc T1 T2` is the decision of
   CompleteTypeObject::is_assignable_from_w_type_consistency (reader T1 := writer T2) on two
   structure type objects; `cto_of d` is the type object the code builds from the run-time type
   d; `ty_of d` is d as the XCDR codec sees it; `encode` / `decode` are serialize_cdr{1,2}_{le,be}
   and deserialize_top_level_type (Xcdr/XcdrModel.v); `projects T1 v d` says that the decoded
   DynamicData d holds the writer's value for every member of T1 the writer sample v has, and
   nothing or the default value for every other member of T1, and no other entry.
   PARTIAL: the family is `flat_desc` (top-level structures of primitives and (w)strings, no
   optional members, distinct 28-bit ids); unions, collections, optional members, nested
   evolution and TryConstruct are outside (see the witnesses at the end).  The XCDR codec model
   follows /repo after the C09 repairs (char8 one octet, XCDR1 float128 alignment). *)
From DustDDS Require Import Base.Machine Xcdr.XcdrBytes Xcdr.XcdrModel Xcdr.XcdrProps
  Xcdr.AssignModel Xcdr.AssignProofs Xcdr.AssignEvolve Xcdr.AssignSpec Xcdr.AssignCorr Xcdr.AssignWitness.
Open Scope Z_scope.

(* ------------------------------------------------------------------ reflexivity *)
(* every structure type object is assignable from itself, whatever its flags and members *)
Theorem C39_assignable_refl : forall tc t, struct_assignable tc t t = Ok true.
Proof. exact assignable_refl. Qed.

(* also without the `self == t2` shortcut: the rules accept T := T when the member type
   identifiers are ones the code can compare (`tid_supported`: not TkNone / map / SCC / extended,
   which are assignable from nothing - see C39_unsupported_identifier_rejected) and T is FINAL,
   or has a member and distinct member ids *)
Theorem C39_rules_refl : forall tc t,
  forallb (fun m => tid_supported (sm_tid m)) (st_members t) = true ->
  (st_final t = true /\ st_mutable t = false) \/
  (st_members t <> [] /\ nodup_z (sm_ids (st_members t)) = true) ->
  struct_rules tc t t = Ok true.
Proof. exact rules_refl. Qed.

(* a decision is always returned: no panic for ANY two structure type objects, hostile flags
   and type identifiers (TkNone, maps, SCC, extended) included *)
Theorem C39_decision_total : forall tc t1 t2, exists b, struct_assignable tc t1 t2 = Ok b.
Proof. exact assignable_total. Qed.

(* ------------------------------------------------------------------ evolution decodes *)
(* FINAL / APPENDABLE, XCDR1 and XCDR2, both byte orders: whenever the reader type is declared
   assignable from the writer type (members appended by the writer OR by the reader), every
   well-typed writer sample (whose encoding is shorter than 4 GiB, the DHEADER range) decodes
   into its projection on the reader type *)
Theorem C39_evolution_decodes_appendable : forall V E tc t1 t2 xv,
  flat_desc t1 = true -> flat_desc t2 = true ->
  ad_ext t2 <> Mutable ->
  struct_assignable tc (cto_of t1) (cto_of t2) = Ok true ->
  wt (ty_of t2) (VData xv) = true ->
  exists bs, encode V E (ty_of t2) (VData xv) = Ok bs /\
    (blen bs <= u32_max ->
     exists d, decode (ty_of t1) bs = Ok (VData d) /\ projects t1 xv d = true).
Proof. exact evolution_prefix. Qed.

(* MUTABLE, XCDR2, both byte orders: members added, removed, reordered; any 28-bit member ids *)
Theorem C39_evolution_decodes_mutable : forall E tc t1 t2 xv,
  flat_desc t1 = true -> flat_desc t2 = true -> ad_ext t2 = Mutable ->
  struct_assignable tc (cto_of t1) (cto_of t2) = Ok true ->
  wt (ty_of t2) (VData xv) = true -> small_dyn xv = true ->
  exists bs d, encode V2 E (ty_of t2) (VData xv) = Ok bs /\
               decode (ty_of t1) bs = Ok (VData d) /\ projects t1 xv d = true.
Proof. exact evolution_mutable. Qed.

(* ------------------------------------------------------- agreement with decoding *)
(* a positive decision on the family implies what decoding needs: same extensibility; FINAL /
   APPENDABLE: the member lists agree (id, codec type) on their common prefix and FINAL lists
   have the same length; MUTABLE: members with the same id have the same codec type.  Hence a
   pair whose common members differ in type (e.g. long vs long long) is never declared
   assignable. *)
Theorem C39_assignable_implies_compatible : forall tc t1 t2,
  flat_desc t1 = true -> flat_desc t2 = true ->
  struct_assignable tc (cto_of t1) (cto_of t2) = Ok true ->
  ad_ext t1 = ad_ext t2 /\
  match ad_ext t1 with
  | Mutable =>
    forall m1 m2, In m1 (ad_members t1) -> In m2 (ad_members t2) -> am_id m1 = am_id m2 ->
      ty_of_aty (am_ty m1) = ty_of_aty (am_ty m2)
  | x =>
    let k := Nat.min (length (ad_members t1)) (length (ad_members t2)) in
    Forall2 am_match (firstn k (ad_members t1)) (firstn k (ad_members t2)) /\
    (x = Final -> length (ad_members t1) = length (ad_members t2))
  end.
Proof. exact assignable_shape. Qed.

(* the decision on the family IS the declarative relation `evolves` of AssignModel.v (FINAL:
   member lists agree pairwise; APPENDABLE: they agree on the common prefix and the by-id rules
   hold; MUTABLE: the by-id rules hold - corresponding members have the same name and type,
   at least one member is common, members present on one side only are neither key nor
   must-understand and do not reuse a name of the reader type), or the type objects are equal *)
Theorem C39_decision_is_evolves : forall tc t1 t2,
  flat_desc t1 = true -> flat_desc t2 = true ->
  struct_assignable tc (cto_of t1) (cto_of t2) =
  Ok (stype_eqb (cto_of t1) (cto_of t2) || evolves tc t1 t2).
Proof. exact assignable_flat. Qed.

(* hence every legitimate evolution of the family is accepted (and, by the two theorems above,
   decodes into the projection): assignability and decoding agree on the family *)
Theorem C39_legitimate_evolution_accepted : forall tc t1 t2,
  flat_desc t1 = true -> flat_desc t2 = true -> evolves tc t1 t2 = true ->
  struct_assignable tc (cto_of t1) (cto_of t2) = Ok true.
Proof. exact evolves_accepted. Qed.

(* the oracle applied to the implementation's output means what it says *)
Theorem C39_projects_meaning : forall t1 xv d, projects t1 xv d = true <->
  (forall m, In m (ad_members t1) ->
     match lookup (am_id m) xv with
     | Some x => lookup (am_id m) d = Some x
     | None => lookup (am_id m) d = None \/
               (exists z, default_val (ty_of_aty (am_ty m)) = Some z /\ lookup (am_id m) d = Some z)
     end) /\
  (forall k, In k (keys d) -> In k (aids (ad_members t1))).
Proof. exact projects_spec. Qed.

(* ------------------------------------------------------- recorded deviations (witnesses) *)
(* 1: an integer member is assignable from any hashed type; the nested sample decodes wrongly *)
Theorem C39_refuted_int_from_hashed :
  (forall h, struct_assignable tce_default (cto_of w1_t1) (mkST 1 1 [mkSM 0 1 0 (EkComplete h)]) = Ok true) /\
  refuted V2 w1_t1 w1_t2 w1_x /\
  C39_known (mkC39 (Ev V2 LE tce_default w1_t1 w1_t2 (VData w1_x)) (OAs (Ok true))) = 1%N.
Proof. exact witness_int_from_hashed. Qed.

(* 2: two hashed member types are never compared *)
Theorem C39_refuted_nested_unchecked :
  (forall h1 h2, struct_assignable tce_default (mkST 1 1 [mkSM 0 1 0 (EkComplete h1)])
                                   (mkST 1 1 [mkSM 0 1 0 (EkComplete h2)]) = Ok true) /\
  refuted V2 w2_t1 w2_t2 w2_x /\
  C39_known (mkC39 (Ev V2 LE tce_default w2_t1 w2_t2 (VData w2_x)) (OAs (Ok true))) = 2%N.
Proof. exact witness_nested_unchecked. Qed.

(* former findings 3 (nested appendable DHEADER ignored, e71c8f0) and 4 (member ids compared as
   u16, 1abc6cd) are repaired in /repo: the regression inputs decode into the projection *)
Theorem C39_repaired_decoding :
  (exists bs, encode V2 LE (ty_of w3_t2) (VData w3_x) = Ok bs /\
              decode (ty_of w3_t1) bs = Ok (VData w3_y) /\ projects_n w3_t1 w3_x w3_y = true) /\
  (exists bs, encode V2 LE (ty_of w3_t1) (VData w3_y) = Ok bs /\
              decode (ty_of w3_t2) bs = Ok (VData w3_y) /\ projects_n w3_t2 w3_y w3_y = true) /\
  struct_assignable tce_default (cto_of w4_t1) (cto_of w4_t2) = Ok true /\
  (exists bs, encode V2 LE (ty_of w4_t2) (VData w4_x) = Ok bs /\
              decode (ty_of w4_t1) bs = Ok (VData w4_x) /\ projects w4_t1 w4_x w4_x = true).
Proof. exact repaired_decoding. Qed.

(* former finding 5 (todo!() on TkNone / maps / SCC / extended identifiers) is repaired in /repo
   (abb552f): such member types are rejected; T := T still holds through the equality shortcut,
   while the rules alone answer false *)
Theorem C39_unsupported_identifier_rejected :
  struct_assignable tce_default (mkST 1 1 [mkSM 0 1 0 TkNone]) (mkST 1 2 [mkSM 0 1 0 TkInt32]) = Ok false /\
  struct_assignable tce_default (mkST 1 1 [mkSM 0 1 0 TiMapSmall]) (mkST 1 2 [mkSM 0 1 0 TkInt32]) = Ok false /\
  struct_assignable tce_default (mkST 1 1 [mkSM 0 1 0 TiScc]) (mkST 1 2 [mkSM 0 1 0 TkInt32]) = Ok false /\
  struct_assignable tce_default (mkST 1 1 [mkSM 0 1 0 TiDefault]) (mkST 1 2 [mkSM 0 1 0 TkInt32]) = Ok false /\
  struct_assignable tce_default (mkST 1 1 [mkSM 0 1 0 TkNone]) (mkST 1 1 [mkSM 0 1 0 TkNone]) = Ok true /\
  struct_rules tce_default (mkST 1 1 [mkSM 0 1 0 TkNone]) (mkST 1 1 [mkSM 0 1 0 TkNone]) = Ok false.
Proof. exact unsupported_rejected. Qed.

(* former finding 6 (05c4a3c): a member optional on one side only is rejected for FINAL /
   APPENDABLE types *)
Theorem C39_optional_mismatch_rejected :
  struct_assignable tce_default (cto_of w6_t1) (cto_of w6_t2) = Ok false /\
  struct_assignable tce_default (cto_of w6_t2) (cto_of w6_t1) = Ok false /\
  struct_assignable tce_default (cto_of (mkAD Mutable 1 (ad_members w6_t1)))
                                (cto_of (mkAD Mutable 1 (ad_members w6_t2))) = Ok true.
Proof. exact optional_mismatch_rejected. Qed.

(* the oracle's nested projection is `projects` on the family *)
Theorem C39_oracle_projection_flat : forall t1 xv d,
  flat_desc t1 = true -> projects_n t1 xv d = projects t1 xv d.
Proof. exact projects_n_flat. Qed.

(* 7: compile-time (derive) reader types: the decoded DynamicData is the projection, but the
   typed sample built from it is None when the reader type has a new plain member *)
Theorem C39_refuted_typed_sample_none :
  struct_assignable tce_default (cto_of w7_t1) (cto_of w7_t2) = Ok true /\
  flat_desc w7_t1 = true /\ flat_desc w7_t2 = true /\ evolves tce_default w7_t1 w7_t2 = true /\
  (exists bs, encode V2 LE (ty_of w7_t2) (VData w7_x) = Ok bs /\
              decode (ty_of w7_t1) bs = Ok (VData [(0, VP KI32 5)]) /\
              projects w7_t1 w7_x [(0, VP KI32 5)] = true /\
              typed_sample w7_t1 [(0, VP KI32 5)] = None) /\
  typed_sample (mkAD Appendable 3 [am 0 0 (APrim PI32); mkAM (mi 1) 1 true (APrim PI32)]) [(0, VP KI32 5)]
    = Some [(0, VP KI32 5); (1, VP KI32 0)] /\
  C39_known (mkC39 (Ty V2 LE tce_default w7_t1 w7_t2 (VData w7_x)) (OAs (Ok true))) = 7%N.
Proof. exact witness_typed_none. Qed.

(* outside class 7 the typed sample is delivered *)
Theorem C39_typed_sample_delivered : forall t1 d,
  (forall m, In m (ad_members t1) ->
     lookup (am_id m) d <> None \/ m_opt (am_info m) = true \/ am_use_default m = true) ->
  exists s, typed_sample t1 d = Some s.
Proof. exact typed_sample_delivered. Qed.

(* the integer-widening candidate of DESIGN.md (D35) is not present in this tree *)
Theorem C39_no_integer_widening :
  struct_assignable tce_default (mkST 1 1 [mkSM 0 1 0 TkInt32]) (mkST 1 1 [mkSM 0 1 0 TkInt64]) = Ok false /\
  struct_assignable tce_default (mkST 1 1 [mkSM 0 1 0 TkInt32]) (mkST 1 1 [mkSM 0 1 0 TkInt16]) = Ok false /\
  struct_assignable tce_default (mkST 1 1 [mkSM 0 1 0 TkInt32]) (mkST 1 1 [mkSM 0 1 0 TkUint32]) = Ok false.
Proof. exact no_integer_widening. Qed.

(* non-vacuity: concrete appendable and mutable evolutions meet the hypotheses *)
Example C39_nonvacuous :
  flat_desc ex_a1 = true /\ flat_desc ex_a2 = true /\
  struct_assignable tce_default (cto_of ex_a1) (cto_of ex_a2) = Ok true /\
  struct_assignable tce_default (cto_of ex_a2) (cto_of ex_a1) = Ok true /\
  wt (ty_of ex_a2) (VData ex_ax) = true /\
  (exists bs, encode V2 LE (ty_of ex_a2) (VData ex_ax) = Ok bs /\
              decode (ty_of ex_a1) bs = Ok (VData [(0, VP KU8 7); (1, VStr [104; 105])])) /\
  flat_desc ex_m1 = true /\ flat_desc ex_m2 = true /\
  struct_assignable tce_default (cto_of ex_m1) (cto_of ex_m2) = Ok true /\
  wt (ty_of ex_m2) (VData ex_mx) = true /\ small_dyn ex_mx = true /\
  (exists bs, encode V2 LE (ty_of ex_m2) (VData ex_mx) = Ok bs /\
              decode (ty_of ex_m1) bs = Ok (VData [(1, VP KU8 200); (9, VStr [104; 105])])).
Proof. exact ex_nonvacuous. Qed.

Print Assumptions C39_assignable_refl.
Print Assumptions C39_rules_refl.
Print Assumptions C39_decision_total.
Print Assumptions C39_evolution_decodes_appendable.
Print Assumptions C39_evolution_decodes_mutable.
Print Assumptions C39_assignable_implies_compatible.
Print Assumptions C39_decision_is_evolves.
Print Assumptions C39_legitimate_evolution_accepted.
Print Assumptions C39_projects_meaning.
Print Assumptions C39_refuted_int_from_hashed.
Print Assumptions C39_refuted_nested_unchecked.
Print Assumptions C39_repaired_decoding.
Print Assumptions C39_unsupported_identifier_rejected.
Print Assumptions C39_optional_mismatch_rejected.
Print Assumptions C39_oracle_projection_flat.
Print Assumptions C39_refuted_typed_sample_none.
Print Assumptions C39_typed_sample_delivered.
Print Assumptions C39_no_integer_widening.
