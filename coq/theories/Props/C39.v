(* C39 — Compatible type evolution preserves common members; assignability is reflexive and
   agrees with decoding.  Property file: statements, `exact`, assumptions. *)
From DustDDS Require Import Base.Machine Xcdr.XcdrBytes Xcdr.XcdrModel Xcdr.XcdrProps
  Xcdr.AssignModel Xcdr.AssignProofs.
Open Scope Z_scope.

(* every structure type object is assignable from itself, whatever its flags and members *)
Theorem C39_assignable_refl : forall tc t, struct_assignable tc t t = Ok true.
Proof. exact assignable_refl. Qed.

Print Assumptions C39_assignable_refl.
