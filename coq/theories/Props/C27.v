(* C27 — Reliable KEEP_LAST writers block instead of dropping unacknowledged samples.
   Property file: statements, `exact`, non-vacuity, assumptions.

   Vocabulary (WriterHist/WriterModel.v): `step w e` processes one event (API call, ACKNACK,
   match/unmatch, timer tick, each with its time) on the writer state w and returns the new
   state and the replies; `run` iterates it.  w_changes is the RTPS history, w_proxies the
   matched reader proxies, `acked w sn` is RtpsStatefulWriter::is_change_acknowledged (true when
   there is no reliable proxy), w_pending the single parked write (PendingWriteSample) with its
   expiration pd_exp.  A completion (slot, code, time) in o_done answers the parked write `slot`. *)
From DustDDS Require Import Base.Machine WriterHist.WriterModel WriterHist.WriterCorr
  WriterHist.WriterLimits WriterHist.C28Proofs WriterHist.C27Proofs.
Open Scope Z_scope.

(* ---- never drops unacknowledged samples ----
   In every state, whatever event is processed: a change leaves the history of a RELIABLE writer
   only if every matched reliable reader proxy has acknowledged it (there may be none), judged
   with the proxies at removal time; the only other way out is the LIFESPAN of the change. *)
Theorem C27_never_drops_unacked :
  forall w e w' o,
    q_reliable (w_qos w) = true -> step w e = (w', o) ->
    forall c, In c (w_changes w) -> ~ In c (w_changes w') ->
      acked w' (c_sn c) = true \/
      match q_lifespan (w_qos w) with Some ls => c_ts c + ls <= e_now e | None => False end.
Proof. exact never_drops_unacked. Qed.

(* ---- depth bound: a writer can only be created with a consistent QoS (is_consistent now rejects
        KEEP_LAST(0), so depth >= 1; depth is a u32); such a writer never holds more than depth
        ALIVE samples of an instance in its history, for every run ---- *)
Theorem C27_created_writer_has_positive_depth :
  forall q d, qos_consistent q = true -> q_hist q = KeepLast d -> 0 <= d -> 1 <= d.
Proof. exact consistent_depth_positive. Qed.

Theorem C27_depth_bound :
  forall keyed enabled q evs d h,
    qos_consistent q = true -> q_hist q = KeepLast d -> 0 <= d ->
    zlen (filter (fun c => (c_kind c =? K_ALIVE) && (c_h c =? h))
                 (w_changes (fst (run (init keyed enabled q) evs)))) <= d.
Proof. exact depth_bound_created. Qed.

(* the same for the samples the DCPS writer accounts per instance, with the other limits *)
Theorem C27_depth_bound_instance_records :
  forall keyed enabled q evs,
    let w := fst (run (init keyed enabled q) evs) in
    (forall i, In i (w_insts w) -> opt_le (zlen (i_samples i)) (inst_bound q)) /\
    opt_le (total_samples (w_insts w)) (nonneg_lim (q_max_samples q)) /\
    opt_le (zlen (w_insts w)) (nonneg_lim (q_max_instances q)).
Proof. exact limits_after_trace. Qed.

(* ---- such a write blocks ----
   A write is parked exactly when it would replace a sample that some matched reliable reader
   has not acknowledged (and no other write is parked) ... *)
Theorem C27_write_parked_iff :
  forall now w slot k ts,
    w_enabled w = true ->
    (snd (svc_write now w slot k ts) = RBlocked <->
     exists d sn, q_hist (w_qos w) = KeepLast d /\ smallest_full d (hof w k) (w_insts w) = Some sn /\
                  q_reliable (w_qos w) = true /\ acked w sn = false /\ w_pending w = None).
Proof. exact write_parked_iff. Qed.

(* ... the parked sample is stored nowhere but in the pending slot, with expiration
   now + max_blocking_time *)
Theorem C27_parked_write_stores_nothing :
  forall now w slot k ts w',
    svc_write now w slot k ts = (w', RBlocked) ->
    w' = set_pending w (Some (mkPend slot k ts
           (match q_mbt (w_qos w) with Some t => Some (now + t) | None => None end))) /\
    w_pending w = None.
Proof. exact write_parked_state. Qed.

(* ---- ... until max_blocking_time elapses, and then returns Timeout ----
   the first event at or after the expiration answers Timeout, stamped with the expiration *)
Theorem C27_timeout_at_expiration :
  forall w p e ev w' o,
    w_pending w = Some p -> pd_exp p = Some e -> e <= e_now ev ->
    step w ev = (w', o) -> hd_error (o_done o) = Some (pd_slot p, E_TIMEOUT, e).
Proof. exact timeout_at_expiration. Qed.

(* and not earlier: before the expiration, without an acknowledgement, it stays parked *)
Theorem C27_still_parked_before_expiration :
  forall w p e now w' o,
    w_pending w = Some p -> pd_exp p = Some e -> now < e ->
    (forall d sn, q_hist (w_qos w) = KeepLast d ->
                  smallest_full d (hof w (pd_key p)) (w_insts w) = Some sn -> acked w sn = false) ->
    q_reliable (w_qos w) = true -> w_enabled w = true ->
    (exists d sn, q_hist (w_qos w) = KeepLast d /\ smallest_full d (hof w (pd_key p)) (w_insts w) = Some sn) ->
    step w (mkEv now OTick) = (w', o) ->
    o_done o = [] /\ w_pending w' = Some p /\ w_insts w' = w_insts w.
Proof. exact still_parked_before_expiration. Qed.

(* ---- ... without storing the new sample ----
   answering Timeout touches neither the history nor the instance records nor the sequence
   counter, and frees the pending slot *)
Theorem C27_timeout_stores_nothing :
  forall now w w' d,
    check_timeout now w = (w', d) ->
    w_changes w' = w_changes w /\ w_insts w' = w_insts w /\ w_last_sn w' = w_last_sn w /\
    (forall s c t, In (s, c, t) d ->
       c = E_TIMEOUT /\ w_pending w' = None /\
       exists p, w_pending w = Some p /\ pd_slot p = s /\ pd_exp p = Some t /\ t <= now).
Proof. exact check_timeout_stores_nothing. Qed.

(* for every run: whatever is in the history is a dispose/unregister record or the sample of a
   write that was answered Ok — a write answered Timeout (or Error) never stored its sample *)
Theorem C27_history_only_holds_ok_writes :
  forall keyed enabled q evs x,
    In x (w_changes (fst (run (init keyed enabled q) evs))) ->
    c_slot x = -1 \/
    In (c_slot x) (ok_slots (combine evs (snd (run (init keyed enabled q) evs)))).
Proof. exact history_only_ok_writes. Qed.

(* ---- ... blocks until the sample is acknowledged ----
   the ACKNACK that acknowledges the oldest sample of the full instance completes the parked
   write with Ok at that very moment *)
Theorem C27_parked_write_completes_on_acknack :
  forall w p d sn r base count now w' o,
    Lim w -> qos_wf (w_qos w) -> w_enabled w = true -> w_pending w = Some p ->
    q_hist (w_qos w) = KeepLast d ->
    smallest_full d (hof w (pd_key p)) (w_insts w) = Some sn ->
    match pd_exp p with Some e => now < e | None => True end ->
    acked (set_proxies w (on_acknack r base count (w_proxies w))) sn = true ->
    step w (mkEv now (OAck r base count)) = (w', o) ->
    In (pd_slot p, 0, now) (o_done o) /\ w_pending w' = None.
Proof. exact ack_completes_parked_write. Qed.

(* and the sample is then in the history (unless its lifespan is already over) *)
Theorem C27_parked_sample_written_once_acknowledged :
  forall now w p d sn,
    Lim w -> qos_wf (w_qos w) -> w_enabled w = true -> w_pending w = Some p ->
    q_hist (w_qos w) = KeepLast d ->
    smallest_full d (hof w (pd_key p)) (w_insts w) = Some sn ->
    acked w sn = true ->
    exists w', process_pending now w = (w', [(pd_slot p, 0, now)]) /\ w_pending w' = None /\
      (expired (w_qos w) (pd_ts p) now = false ->
         In (mkCh (w_last_sn w + 1) K_ALIVE (hof w (pd_key p)) (pd_ts p) (pd_slot p)) (w_changes w')).
Proof. exact process_pending_completes. Qed.

(* ---- recorded deviation: a second write that would have to wait is answered Error at once ---- *)
Theorem C27_second_blocked_write_is_refused :
  forall now w slot k ts p d sn,
    w_enabled w = true -> w_pending w = Some p ->
    q_hist (w_qos w) = KeepLast d -> smallest_full d (hof w k) (w_insts w) = Some sn ->
    q_reliable (w_qos w) = true -> acked w sn = false ->
    svc_write now w slot k ts = (w, RErr E_ERROR).
Proof. exact second_blocked_write_error. Qed.

(* ---- non-vacuity: a reliable KEEP_LAST(1) writer with one matched reliable reader that has
        acknowledged nothing: the second write is parked, a third is refused with Error, the
        ACKNACK completes the parked one, a later one times out at issue + 100 ms ---- *)
Definition q_kl1 : qos := mkQos (KeepLast 1) true None None None None (Some 100000000) true.
Example C27_nonvacuous :
  let evs := [mkEv 1000 (OMatch 0 true); mkEv 1000 (OWrite 0 1 1000); mkEv 1000 (OWrite 1 1 1000);
              mkEv 1000 (OWrite 2 1 1000); mkEv 2000 (OAck 0 2 1); mkEv 3000 (OWrite 3 1 3000);
              mkEv 200000000 OTick] in
  map (fun o => (o_imm o, o_done o)) (snd (run (init true true q_kl1) evs)) =
  [(None, []); (Some ROk, []); (Some RBlocked, []); (Some (RErr E_ERROR), []);
   (None, [(1, 0, 2000)]); (Some RBlocked, []); (None, [(3, E_TIMEOUT, 100003000)])] /\
  map c_slot (w_changes (fst (run (init true true q_kl1) evs))) = [1] /\
  qos_wf q_kl1.
Proof.
  split; [vm_compute; reflexivity|]. split; [vm_compute; reflexivity|].
  unfold qos_wf. split; [reflexivity|]. split; intros ? H; discriminate H.
Qed.

Print Assumptions C27_never_drops_unacked.
Print Assumptions C27_created_writer_has_positive_depth.
Print Assumptions C27_depth_bound.
Print Assumptions C27_depth_bound_instance_records.
Print Assumptions C27_write_parked_iff.
Print Assumptions C27_parked_write_stores_nothing.
Print Assumptions C27_timeout_at_expiration.
Print Assumptions C27_still_parked_before_expiration.
Print Assumptions C27_timeout_stores_nothing.
Print Assumptions C27_history_only_holds_ok_writes.
Print Assumptions C27_parked_write_completes_on_acknack.
Print Assumptions C27_parked_sample_written_once_acknowledged.
Print Assumptions C27_second_blocked_write_is_refused.
