(* C05 — Fragmented samples are reassembled byte-identically for any size. *)
From DustDDS Require Import Base.Machine Proto.FragModel Proto.FragProofs.
Open Scope Z_scope.

Theorem C05_concat_of_fragments_is_payload :
  forall (p : bytes) f, 0 < f ->
    concat (map (fun i => slice p (i * f) (Z.min ((i + 1) * f) (blen p))) (zseq (div_ceil (blen p) f))) = p.
Proof. exact concat_frags. Qed.

Print Assumptions C05_concat_of_fragments_is_payload.
