(* C05 — Fragmented samples are reassembled byte-identically for any size.
   Statements over the model Proto/FragModel.v (as_data_frag_submessage, the writer's fragment
   emission and NACK_FRAG / ACKNACK answers, RtpsWriterProxy push / total_fragments_expected /
   reconstruct_data_from_frag / NACK_FRAG generation, RtpsStatefulReader::on_data_frag_submessage).
   Positive half: byte identity for all payloads, all fragment sizes 1..65535, all arrival orders,
   duplications, losses and interleavings.  Negative half (the `lost (reliable)` clause and the
   NACK_FRAG numbering are FALSE on the code as it is): universal refutations + witnesses. *)
From DustDDS Require Import Base.Machine Proto.FragModel Proto.FragProofs.

Open Scope Z_scope.

(* ------------------------------------------------------------------ writer side *)

Theorem C05_concat_of_fragments_is_payload :
  forall (p : bytes) f, 0 < f ->
    concat (map (fun i => slice p (i * f) (Z.min ((i + 1) * f) (blen p))) (zseq (div_ceil (blen p) f))) = p.
Proof. exact concat_frags. Qed.

(* a payload not larger than f goes out as one DATA; a larger one as ceil(len/f) DATA_FRAGs numbered
   1, 2, ... each announcing (f, len), each f bytes long but the last, concatenating to the payload *)
Theorem C05_writer_emits_numbered_fragments :
  forall rid f sn p, 0 < f < 65536 -> blen p < two32 ->
    (blen p <= f -> send_change rid f sn p = Ok [WData rid sn p]) /\
    (f < blen p ->
       exists frs, send_change rid f sn p = Ok (map WFrag frs) /\
         Z.of_nat (length frs) = div_ceil (blen p) f /\
         concat (map fr_data frs) = p /\
         forall k fr, nth_error frs k = Some fr ->
           fr_rid fr = rid /\ fr_sn fr = sn /\ fr_start fr = Z.of_nat k + 1 /\ fr_nsub fr = 1 /\
           fr_fsize fr = f /\ fr_dsize fr = blen p /\
           blen (fr_data fr) = Z.min f (blen p - Z.of_nat k * f)).
Proof. exact send_change_spec. Qed.

(* the reader's total_fragments_expected of any genuine fragment is ceil(len/f) *)
Theorem C05_expected_count_is_ceil :
  forall rid f sn p i, 0 < f < 65536 -> blen p < two32 -> 0 <= i < div_ceil (blen p) f ->
    total_fragments_expected (mk_data_frag rid sn p f i) = Ok (div_ceil (blen p) f) /\
    blen p <= div_ceil (blen p) f * f /\ (div_ceil (blen p) f - 1) * f < blen p.
Proof. exact expected_count_is_ceil. Qed.

(* ------------------------------------------------------------------ RtpsWriterProxy level *)

(* l: ANY list of received DATA_FRAGs in which everything that speaks for sn is a fragment of p
   (so: any permutation, any duplication, interleaved with fragments of any other sequence numbers).
   If every fragment of p occurs in l, reconstruct returns exactly p and removes sn's fragments. *)
Theorem C05_reassemble_any_order :
  forall f rid sn (p : bytes) (l : list frag),
    0 < f < 65536 -> blen p < two32 -> 1 <= div_ceil (blen p) f ->
    (forall x, In x l -> fr_sn x = sn -> exists i, 0 <= i < div_ceil (blen p) f /\ x = mk_data_frag rid sn p f i) ->
    (forall i, 0 <= i < div_ceil (blen p) f -> In (mk_data_frag rid sn p f i) l) ->
    reconstruct (fold_left push_frag l []) sn =
      Ok (Some p, filter (fun x => negb (has_sn sn x)) (fold_left push_frag l [])).
Proof. exact C05_reassemble_any_order_stmt. Qed.

(* ... and from an incomplete set it returns nothing, never a wrong payload, never a panic *)
Theorem C05_incomplete_set_gives_nothing :
  forall f rid sn (p : bytes) (l : list frag),
    0 < f < 65536 -> blen p < two32 ->
    (forall x, In x l -> fr_sn x = sn -> exists i, 0 <= i < div_ceil (blen p) f /\ x = mk_data_frag rid sn p f i) ->
    ~ (forall i, 0 <= i < div_ceil (blen p) f -> In (mk_data_frag rid sn p f i) l) ->
    reconstruct (fold_left push_frag l []) sn = Ok (None, fold_left push_frag l []).
Proof. exact C05_incomplete_stmt. Qed.

Theorem C05_never_a_wrong_payload :
  forall f rid sn (p : bytes) (l : list frag) d b',
    0 < f < 65536 -> blen p < two32 ->
    (forall x, In x l -> fr_sn x = sn -> exists i, 0 <= i < div_ceil (blen p) f /\ x = mk_data_frag rid sn p f i) ->
    reconstruct (fold_left push_frag l []) sn = Ok (Some d, b') -> d = p.
Proof. exact C05_never_wrong_stmt. Qed.

(* ------------------------------------------------------------------ whole system, all histories *)

(* For EVERY history of the fault-schedule language (writes; deliveries of the writer's datagrams in
   any order, any number of times, any subset; heartbeats; the reader's ACKNACK / NACK_FRAG fed to
   the writer and the answers delivered; forged NACK_FRAGs), with a reliable or best-effort reader:
   the reader only ever holds the payload that was written under that sequence number, each sequence
   number at most once, in increasing order.  op_ok excludes hand-made fragments and fragments
   addressed to another reader (known finding C05-mixed-readerid-truncation). *)
Theorem C05_delivered_changes_are_byte_identical :
  forall rel nreaders f ops s obs,
    0 < f < 65536 -> Forall op_ok ops -> run (s_init rel nreaders f) ops = Ok (s, obs) ->
    StronglySorted Z.lt (map fst (r_changes (s_r s))) /\
    forall sn d, In (sn, d) (r_changes (s_r s)) -> nth_written (written ops) sn = Some d.
Proof. exact delivered_identical. Qed.

(* RELIABLE reader expecting sample sn: as soon as every fragment has arrived — any order, any
   duplication, interleaved with any other genuine traffic — it holds (sn, p). *)
Theorem C05_complete_set_is_delivered :
  forall f ch sn p r ws,
    0 < f < 65536 -> history_ok ch -> lookup sn ch = Some p ->
    rinv f ch r -> r_rel r = true -> available_changes_max r + 1 = sn ->
    ~ complete f 1 (r_buf r) sn p ->
    Forall (wire_genuine f ch) ws ->
    (forall i, 0 <= i < div_ceil (blen p) f -> In (WFrag (mk_data_frag 1 sn p f i)) ws) ->
    exists r', r_deliver_all r ws = Ok r' /\ In (sn, p) (r_changes r').
Proof. exact C05_complete_set_stmt. Qed.

(* ------------------------------------------------------------------ repair: FALSE on this code *)

(* `nackfrag_not_filtered` is false: in every history the reader's nack_frag_count stays 0, every
   NACK_FRAG it emits carries count 0, and the writer answers each of them with nothing *)
Theorem C05_nackfrag_is_always_filtered :
  forall rel nreaders f ops s obs,
    run (s_init rel nreaders f) ops = Ok (s, obs) ->
    r_nfcount (s_r s) = 0 /\
    Forall2 (fun o b => (o = ONackFrag -> exists n, b = BResp [] n) /\
                        (forall a nf, b = BReply (Some (a, Some nf)) -> n_count nf = 0)) ops obs.
Proof. exact nackfrag_always_filtered. Qed.

(* the `lost (reliable)` clause is false: once fragment j >= 1 (0-based) of sample sn is lost in the
   first transmission, no continuation (other deliveries, heartbeats, ACKNACK and NACK_FRAG rounds,
   further writes) ever gives the reader sample sn *)
Theorem C05_lost_fragment_is_never_repaired :
  forall rel nreaders f ps ops sn j p s obs,
    0 < f < 65536 -> Forall (fun q => blen q < two32) ps ->
    nth_written ps sn = Some p -> 1 <= j < div_ceil (blen p) f ->
    Forall op_ok ops -> Forall (lost_op sn j) ops ->
    run (s_init rel nreaders f) (map OWrite ps ++ ops) = Ok (s, obs) ->
    ~ In sn (map fst (r_changes (s_r s))).
Proof. exact lost_fragment_never_repaired. Qed.

(* `nackfrag_numbering` is false: a NACK_FRAG that passes the filter is answered with the fragments
   whose wire number is (requested number + 1) *)
Theorem C05_nackfrag_resends_successor :
  forall w count sn base set p,
    0 < w_f w < 65536 -> blen p < two32 -> w_rel w = true -> w_last_nf w < count ->
    lookup sn (w_changes w) = Some p ->
    0 <= base -> Forall (fun k => 0 <= k) set ->
    exists w' ws, w_on_nack_frag w count sn base set = Ok (w', ws) /\
      ws = map (fun k => WFrag (mk_data_frag 1 sn p (w_f w) k))
               (filter (fun k => k <? div_ceil (blen p) (w_f w)) (base :: set)) /\
      forall fr, In (WFrag fr) ws ->
        exists k, In k (base :: set) /\ k < div_ceil (blen p) (w_f w) /\ fr_start fr = k + 1.
Proof. exact nackfrag_resends_successor. Qed.

Theorem C05_nackfrag_never_resends_the_requested_fragment :
  forall w count sn n p,
    0 < w_f w < 65536 -> blen p < two32 -> w_rel w = true -> w_last_nf w < count ->
    lookup sn (w_changes w) = Some p -> 1 <= n <= div_ceil (blen p) (w_f w) ->
    exists w' ws, w_on_nack_frag w count sn n [n] = Ok (w', ws) /\
      (forall fr, In (WFrag fr) ws -> fr_start fr = n + 1) /\
      (n = div_ceil (blen p) (w_f w) -> ws = []).
Proof. exact nackfrag_never_resends_requested. Qed.

(* outside the classes C05-fragsize-zero-div, C05-nackfrag-none-missing-panic (no hand-made fragments,
   no fragments addressed to another reader: op_ok) and C05-nackfrag-bitmap-overflow (every sample has
   at most 256 fragments: small_op) no history panics *)
Theorem C05_no_panic_outside_known_classes :
  forall rel nreaders f ops,
    0 < f < 65536 -> Forall op_ok ops -> Forall (small_op f) ops ->
    exists s obs, run (s_init rel nreaders f) ops = Ok (s, obs).
Proof. exact run_never_panics. Qed.

(* the byte-identity oracle applied to the implementation's changes decides exactly the conclusion of
   C05_delivered_changes_are_byte_identical (increasing sequence numbers, written payloads) *)
Theorem C05_identity_oracle_sound :
  forall ws ch prev,
    identicalb ws prev ch = true <->
    (StronglySorted Z.lt (prev :: map fst ch) /\
     forall sn d, In (sn, d) ch -> nth_written ws sn = Some d).
Proof. exact identicalb_sound. Qed.

(* ------------------------------------------------------------------ the known classes are inhabited *)

Theorem C05_witness_nackfrag_count_zero :
  exists s ack, run (s_init true 1 8) [OWrite p21; ODeliver 1 0 1; ODeliver 1 2 1; OHb 1 1 1 false; ONackFrag] =
    Ok (s, [BSent [WFrag (mk_data_frag 1 1 p21 8 0); WFrag (mk_data_frag 1 1 p21 8 1); WFrag (mk_data_frag 1 1 p21 8 2)];
            BCount 0; BCount 0; BReply (Some (ack, Some (mkNf 1 2 [2] 0))); BResp [] 0]) /\
    r_changes (s_r s) = [].
Proof. exact witness_count_zero. Qed.

Theorem C05_witness_nackfrag_off_by_one :
  exists w', w_on_nack_frag (mkW 8 true 1 [(1, p21)] 0 0) 1 1 2 [2] =
    Ok (w', [WFrag (mk_data_frag 1 1 p21 8 2); WFrag (mk_data_frag 1 1 p21 8 2)]) /\
    fr_start (mk_data_frag 1 1 p21 8 2) = 3.
Proof. exact witness_off_by_one. Qed.

Theorem C05_witness_fragment_size_zero_panics :
  run (s_init true 1 8) [OForeign (mkfrag 1 1 1 1 0 21 [1; 2])] = Panic 28.
Proof. exact witness_fragsize_zero. Qed.

Theorem C05_witness_nackfrag_bitmap_overflow :
  run (s_init true 1 8) [OWrite (repeat 7 2400); ODeliver 1 0 1; OHb 1 1 1 false] = Panic 123.
Proof. exact witness_bitmap_overflow. Qed.

Theorem C05_witness_mixed_readerid_truncates :
  exists s obs, run (s_init true 2 8) [OWrite p29; ODeliver 1 0 1; ODeliver 1 1 1; ODeliver 1 0 2; ODeliver 1 1 2] =
    Ok (s, obs) /\ r_changes (s_r s) = [(1, firstn 16 p29)] /\ firstn 16 p29 <> p29.
Proof. exact witness_mixed_readerid. Qed.

Theorem C05_witness_none_missing_panics :
  run (s_init true 2 8) [OWrite [1;2;3;4;5;6;7;8;9]; ODeliver 1 1 1; ODeliver 1 1 2; ODeliver 1 0 1; ODeliver 1 0 2;
                         OHb 1 1 1 false] = Panic 4.
Proof. exact witness_none_missing_panic. Qed.

(* non-vacuity: a concrete reordered, duplicated, interleaved schedule of two samples meets the
   hypotheses of C05_delivered_changes_are_byte_identical and delivers both *)
Example C05_nonvacuous :
  exists s obs, run (s_init true 1 8)
    [OWrite p21; OWrite p29; ODeliver 2 1 1; ODeliver 1 2 1; ODeliver 1 0 1; ODeliver 1 2 1; ODeliver 2 0 1;
     ODeliver 1 1 1; ODeliver 2 3 1; ODeliver 2 1 1; ODeliver 2 0 1; ODeliver 2 2 1] = Ok (s, obs) /\
    r_changes (s_r s) = [(1, p21); (2, p29)].
Proof. exact example_reordered. Qed.

Example C05_nonvacuous_reassemble :
  reconstruct (fold_left push_frag
     [mk_data_frag 1 1 p21 8 2; mk_data_frag 1 2 p29 8 0; mk_data_frag 1 1 p21 8 0; mk_data_frag 1 1 p21 8 2;
      mk_data_frag 1 1 p21 8 1] []) 1 = Ok (Some p21, [mk_data_frag 1 2 p29 8 0]).
Proof. exact example_reassemble. Qed.

Print Assumptions C05_concat_of_fragments_is_payload.
Print Assumptions C05_writer_emits_numbered_fragments.
Print Assumptions C05_expected_count_is_ceil.
Print Assumptions C05_reassemble_any_order.
Print Assumptions C05_incomplete_set_gives_nothing.
Print Assumptions C05_never_a_wrong_payload.
Print Assumptions C05_delivered_changes_are_byte_identical.
Print Assumptions C05_complete_set_is_delivered.
Print Assumptions C05_nackfrag_is_always_filtered.
Print Assumptions C05_lost_fragment_is_never_repaired.
Print Assumptions C05_nackfrag_resends_successor.
Print Assumptions C05_nackfrag_never_resends_the_requested_fragment.
Print Assumptions C05_no_panic_outside_known_classes.
Print Assumptions C05_identity_oracle_sound.
Print Assumptions C05_witness_nackfrag_count_zero.
Print Assumptions C05_witness_nackfrag_off_by_one.
Print Assumptions C05_witness_fragment_size_zero_panics.
Print Assumptions C05_witness_nackfrag_bitmap_overflow.
Print Assumptions C05_witness_mixed_readerid_truncates.
Print Assumptions C05_witness_none_missing_panics.
