(* C05 — Fragmented samples are reassembled byte-identically for any size.
   Statements over the model Proto/FragModel.v (as_data_frag_submessage, the writer's fragment
   emission and NACK_FRAG / ACKNACK answers, RtpsWriterProxy push / total_fragments_expected /
   reconstruct_data_from_frag / NACK_FRAG generation, RtpsStatefulReader::on_data_frag_submessage),
   which follows /repo after the six C05 fix commits and 1f8d93c, 9291c1e, 84c5233 (HEARTBEAT with
   firstSN <= 0, sequence number i64::MAX, fragments_in_submessage > payload length + 1 are ignored).  Byte identity for all payloads, all fragment
   sizes 1..65535, all arrival orders, duplications, losses and interleavings; and the repair half:
   every NACK_FRAG is fresh and processed, the fragment resent for number n is fragment n, lost
   fragments of a reliable sample are repaired by heartbeat -> NACK_FRAG -> resend rounds. *)
From DustDDS Require Import Base.Machine Proto.FragModel Proto.FragProofs.
Open Scope Z_scope.

(* ------------------------------------------------------------------ writer side *)

Theorem C05_concat_of_fragments_is_payload :
  forall (p : bytes) f, 0 < f ->
    concat (map (fun i => slice p (i * f) (Z.min ((i + 1) * f) (blen p))) (zseq (div_ceil (blen p) f))) = p.
Proof. exact concat_frags. Qed.

(* a payload not larger than f goes out as one DATA; a larger one as ceil(len/f) DATA_FRAGs numbered
   1, 2, ... each announcing (f, len), each f bytes long but the last, concatenating to the payload *)
Theorem C05_writer_emits_numbered_fragments :
  forall rid f sn p, 0 < f < 65536 -> blen p < two32 ->
    (blen p <= f -> send_change rid f sn p = Ok [WData rid sn p]) /\
    (f < blen p ->
       exists frs, send_change rid f sn p = Ok (map WFrag frs) /\
         Z.of_nat (length frs) = div_ceil (blen p) f /\
         concat (map fr_data frs) = p /\
         forall k fr, nth_error frs k = Some fr ->
           fr_rid fr = rid /\ fr_sn fr = sn /\ fr_start fr = Z.of_nat k + 1 /\ fr_nsub fr = 1 /\
           fr_fsize fr = f /\ fr_dsize fr = blen p /\
           blen (fr_data fr) = Z.min f (blen p - Z.of_nat k * f)).
Proof. exact send_change_spec. Qed.

(* the reader's total_fragments_expected of any genuine fragment is ceil(len/f) *)
Theorem C05_expected_count_is_ceil :
  forall rid f sn p i, 0 < f < 65536 -> blen p < two32 -> 0 <= i < div_ceil (blen p) f ->
    total_fragments_expected (mk_data_frag rid sn p f i) = Ok (div_ceil (blen p) f) /\
    blen p <= div_ceil (blen p) f * f /\ (div_ceil (blen p) f - 1) * f < blen p.
Proof. exact expected_count_is_ceil. Qed.

(* ------------------------------------------------------------------ RtpsWriterProxy level *)

(* l: ANY list of received DATA_FRAGs in which everything that speaks for sn is a fragment of p,
   addressed to whichever reader (so: any permutation, any duplication, copies for other readers of
   the participant, interleaved with fragments of any other sequence numbers).
   If every fragment of p occurs in l, reconstruct returns exactly p and removes sn's fragments. *)
Theorem C05_reassemble_any_order :
  forall f sn (p : bytes) (l : list frag),
    0 < f < 65536 -> blen p < two32 -> 1 <= div_ceil (blen p) f ->
    (forall x, In x l -> fr_sn x = sn ->
       exists rid i, 0 <= i < div_ceil (blen p) f /\ x = mk_data_frag rid sn p f i) ->
    (forall i, 0 <= i < div_ceil (blen p) f -> exists rid, In (mk_data_frag rid sn p f i) l) ->
    reconstruct (fold_left push_frag l []) sn =
      Ok (Some p, filter (fun x => negb (has_sn sn x)) (fold_left push_frag l [])).
Proof. exact C05_reassemble_any_order_stmt. Qed.

(* ... and from an incomplete set it returns nothing, never a wrong payload, never a panic *)
Theorem C05_incomplete_set_gives_nothing :
  forall f sn (p : bytes) (l : list frag),
    0 < f < 65536 -> blen p < two32 ->
    (forall x, In x l -> fr_sn x = sn ->
       exists rid i, 0 <= i < div_ceil (blen p) f /\ x = mk_data_frag rid sn p f i) ->
    ~ (forall i, 0 <= i < div_ceil (blen p) f -> exists rid, In (mk_data_frag rid sn p f i) l) ->
    reconstruct (fold_left push_frag l []) sn = Ok (None, fold_left push_frag l []).
Proof. exact C05_incomplete_stmt. Qed.

Theorem C05_never_a_wrong_payload :
  forall f sn (p : bytes) (l : list frag) d b',
    0 < f < 65536 -> blen p < two32 ->
    (forall x, In x l -> fr_sn x = sn ->
       exists rid i, 0 <= i < div_ceil (blen p) f /\ x = mk_data_frag rid sn p f i) ->
    reconstruct (fold_left push_frag l []) sn = Ok (Some d, b') -> d = p.
Proof. exact C05_never_wrong_stmt. Qed.

(* ------------------------------------------------------------------ whole system, all histories *)

(* For EVERY history of the fault-schedule language (writes; deliveries of the writer's datagrams —
   including those addressed to the other reader of the participant — in any order, any number of
   times, any subset; heartbeats; the reader's ACKNACK / NACK_FRAG fed to the writer and the answers
   delivered; forged NACK_FRAGs), with a reliable or best-effort reader: the reader only ever holds the
   payload that was written under that sequence number, each sequence number at most once, in
   increasing order.  (op_ok: payloads below 4 GiB, no hand-made DATA_FRAGs.) *)
Theorem C05_delivered_changes_are_byte_identical :
  forall rel nreaders f ops s obs,
    0 < f < 65536 -> Forall op_ok ops -> run (s_init rel nreaders f) ops = Ok (s, obs) ->
    StronglySorted Z.lt (map fst (r_changes (s_r s))) /\
    forall sn d, In (sn, d) (r_changes (s_r s)) -> nth_written (written ops) sn = Some d.
Proof. exact delivered_identical. Qed.

(* RELIABLE reader expecting sample sn: as soon as every fragment has arrived — any order, any
   duplication, addressed to whichever reader, interleaved with any other genuine traffic — it holds (sn, p) *)
Theorem C05_complete_set_is_delivered :
  forall f ch sn p r ws,
    0 < f < 65536 -> history_ok ch -> lookup sn ch = Some p -> sn < i64_max ->
    rinv f ch r -> r_rel r = true -> available_changes_max r + 1 = sn ->
    ~ complete f (r_buf r) sn p ->
    Forall (wire_genuine f ch) ws ->
    (forall i, 0 <= i < div_ceil (blen p) f -> exists rid, In (WFrag (mk_data_frag rid sn p f i)) ws) ->
    exists r', r_deliver_all r ws = Ok r' /\ In (sn, p) (r_changes r').
Proof. exact complete_set_is_delivered. Qed.

(* no history panics.  What remains outside: data_max_size_serialized = 0 (the writer divides by it),
   fragment sizes above 65535 (the u16 wire field), payloads of 4 GiB and more, and hand-made fragments:
   with those the only panic left in the model is the debug-profile overflow of the u32 sum of
   fragments_in_submessage in reconstruct_data_from_frag (fragment_size 0 and the `no fragment missing`
   expect are gone), which needs more than 65537 buffered fragments of one sample *)
Theorem C05_no_panic :
  forall rel nreaders f ops,
    0 < f < 65536 -> Forall op_ok ops -> exists s obs, run (s_init rel nreaders f) ops = Ok (s, obs).
Proof. exact run_never_panics. Qed.

(* the byte-identity oracle applied to the implementation's changes decides exactly the conclusion of
   C05_delivered_changes_are_byte_identical (increasing sequence numbers, written payloads) *)
Theorem C05_identity_oracle_sound :
  forall ws ch prev,
    identicalb ws prev ch = true <->
    (StronglySorted Z.lt (prev :: map fst ch) /\
     forall sn d, In (sn, d) ch -> nth_written ws sn = Some d).
Proof. exact identicalb_sound. Qed.

(* ------------------------------------------------------------------ repair *)

(* `nackfrag_not_filtered`: after ANY history (no forged NACK_FRAGs, fewer than 2^31 - 1 operations) the
   next heartbeat that makes the reader emit a NACK_FRAG gives it a count exactly one above the previous
   one and strictly above everything the writer has seen: the writer processes it — the first one and
   every later one — and answers with every requested fragment *)
Theorem C05_every_nackfrag_is_processed :
  forall rel nreaders f ops s obs,
    Forall no_forged ops -> Z.of_nat (length ops) < i32_max ->
    run (s_init rel nreaders f) ops = Ok (s, obs) ->
    forall first last count final s' a nf,
      step s (OHb first last count final) = Ok (s', BReply (Some (a, Some nf))) ->
      n_count nf = r_nfcount (s_r s) + 1 /\ r_nfcount (s_r s') = n_count nf /\
      w_last_nf (s_w s') < n_count nf /\
      (forall sn' p', w_rel (s_w s') = true -> 0 < w_f (s_w s') < 65536 -> blen p' < two32 ->
         lookup sn' (w_changes (s_w s')) = Some p' ->
         exists ws, w_on_nack_frag (s_w s') (n_count nf) sn' (n_base nf) (n_set nf)
                    = Ok (set_last_nf (s_w s') (n_count nf), ws) /\
           forall k, In k (n_base nf :: n_set nf) -> 1 <= k <= div_ceil (blen p') (w_f (s_w s')) ->
             In (WFrag (mk_data_frag 1 sn' p' (w_f (s_w s')) (k - 1))) ws).
Proof. exact nackfrag_is_processed. Qed.

(* `nackfrag_numbering`: a NACK_FRAG that passes the filter is answered with exactly the requested
   fragments: wire number k (index k - 1) for every requested k in 1..total, the base once *)
Theorem C05_nackfrag_resends_the_requested_fragments :
  forall w count sn base set p,
    0 < w_f w < 65536 -> blen p < two32 -> w_rel w = true -> w_last_nf w < count ->
    lookup sn (w_changes w) = Some p ->
    exists ws, w_on_nack_frag w count sn base set = Ok (set_last_nf w count, ws) /\
      ws = map (fun k => WFrag (mk_data_frag 1 sn p (w_f w) (k - 1)))
               (filter (fun k => (1 <=? k) && (k <=? div_ceil (blen p) (w_f w))) (nack_requests base set)) /\
      (forall fr, In (WFrag fr) ws ->
         exists k, In k (base :: set) /\ 1 <= k <= div_ceil (blen p) (w_f w) /\
                   fr = mk_data_frag 1 sn p (w_f w) (k - 1) /\ fr_start fr = k) /\
      (forall k, In k (base :: set) -> 1 <= k <= div_ceil (blen p) (w_f w) ->
         In (WFrag (mk_data_frag 1 sn p (w_f w) (k - 1))) ws).
Proof. exact nackfrag_resends_requested. Qed.

(* the fragment resent for requested number n is fragment n, for every 1 <= n <= total (the last included) *)
Theorem C05_nackfrag_for_n_resends_fragment_n :
  forall w count sn n p,
    0 < w_f w < 65536 -> blen p < two32 -> w_rel w = true -> w_last_nf w < count ->
    lookup sn (w_changes w) = Some p -> 1 <= n <= div_ceil (blen p) (w_f w) ->
    w_on_nack_frag w count sn n [n] =
      Ok (set_last_nf w count, [WFrag (mk_data_frag 1 sn p (w_f w) (n - 1))]) /\
    fr_start (mk_data_frag 1 sn p (w_f w) (n - 1)) = n.
Proof. exact nackfrag_resends_fragment_n. Qed.

(* REPAIR (the `lost (reliable)` clause).  rep: sample sn = p is written and fragmented, reliable reader
   and writer.  pending L: the reader still waits for sn and holds ANY incomplete subset of its fragments
   (any loss pattern) in which all numbers below L are present.  If at least one fragment arrived and all
   missing ones lie within 256 of L, ONE round heartbeat -> ACKNACK/NACK_FRAG -> resend, with the resent
   fragments delivered, completes the sample. *)
Theorem C05_repair_one_round :
  forall sn p first last, 0 < first -> forall L N c final s,
    rep sn p last s -> cinv N s -> N + 3 <= i32_max -> r_hbcount (s_r s) < c ->
    pending sn p first L s -> r_buf (s_r s) <> [] ->
    div_ceil (blen p) (w_f (s_w s)) < L + 256 ->
    exists s' obs, run s (round first last c final) = Ok (s', obs) /\ In (sn, p) (r_changes (s_r s')).
Proof. exact repair_one_round. Qed.

(* ... and in general, from ANY loss pattern (even all fragments lost), k + 1 rounds complete a sample of
   fewer than 2 + 256 k fragments: the first round fetches at least fragment 1 (through the ACKNACK if
   nothing arrived), every further round the next 256 fragment numbers *)
Theorem C05_repair_k_rounds :
  forall sn p first last, 0 < first -> forall k N c final s,
    rep sn p last s -> cinv N s -> N + 3 * (1 + Z.of_nat k) <= i32_max -> r_hbcount (s_r s) < c ->
    pending sn p first 1 s ->
    div_ceil (blen p) (w_f (s_w s)) < 2 + 256 * Z.of_nat k ->
    exists s' obs, run s (rounds first last c final (S k)) = Ok (s', obs) /\ In (sn, p) (r_changes (s_r s')).
Proof. exact repair_k_rounds. Qed.

(* ------------------------------------------------------------------ regressions and non-vacuity *)

(* the inputs of the six repaired findings, on the model of the repaired code *)
Theorem C05_regression_lost_fragment_is_repaired :
  exists s ack, run (s_init true 1 8) [OWrite p21; ODeliver 1 0 1; ODeliver 1 2 1; OHb 1 1 1 false; ONackFrag] =
    Ok (s, [BSent [WFrag (mk_data_frag 1 1 p21 8 0); WFrag (mk_data_frag 1 1 p21 8 1); WFrag (mk_data_frag 1 1 p21 8 2)];
            BCount 0; BCount 0; BReply (Some (ack, Some (mkNf 1 2 [2] 1)));
            BResp [WFrag (mk_data_frag 1 1 p21 8 1)] 1]) /\
    r_changes (s_r s) = [(1, p21)].
Proof. exact regress_count_zero. Qed.

Theorem C05_regression_requested_fragment_is_resent :
  (exists w', w_on_nack_frag (mkW 8 true 1 [(1, p21)] 0 0) 1 1 2 [2] =
     Ok (w', [WFrag (mk_data_frag 1 1 p21 8 1)]) /\ fr_start (mk_data_frag 1 1 p21 8 1) = 2) /\
  (exists w', w_on_nack_frag (mkW 8 true 1 [(1, p21)] 0 0) 1 1 3 [3] =
     Ok (w', [WFrag (mk_data_frag 1 1 p21 8 2)]) /\ fr_start (mk_data_frag 1 1 p21 8 2) = 3).
Proof. exact regress_off_by_one. Qed.

Theorem C05_regression_fragment_size_zero_is_ignored :
  exists s, run (s_init true 1 8) [OForeign (mkfrag 1 1 1 1 0 21 [1; 2]); OHb 1 1 1 false] =
    Ok (s, [BCount 0; BReply (Some (mkAck 1 [1] 1, None))]) /\ r_buf (s_r s) = [].
Proof. exact regress_fragsize_zero. Qed.

Theorem C05_regression_300_fragments_two_rounds :
  exists s obs, run (s_init true 1 8)
      ([OWrite (repeat 7 2400); ODeliver 1 0 1] ++ rounds 1 1 1 false 2) = Ok (s, obs) /\
    r_changes (s_r s) = [(1, repeat 7 2400)].
Proof. exact regress_bitmap_overflow. Qed.

Theorem C05_regression_two_readers_full_payload :
  exists s obs, run (s_init true 2 8)
      [OWrite p29; ODeliver 1 0 1; ODeliver 1 1 1; ODeliver 1 0 2; ODeliver 1 1 2; ODeliver 1 2 2; ODeliver 1 3 1] =
    Ok (s, obs) /\ r_changes (s_r s) = [(1, p29)].
Proof. exact regress_mixed_readerid. Qed.

Theorem C05_regression_copies_before_first_fragment :
  exists s obs, run (s_init true 2 8) [OWrite [1;2;3;4;5;6;7;8;9]; ODeliver 1 1 1; ODeliver 1 1 2; ODeliver 1 0 1; ODeliver 1 0 2;
                         OHb 1 1 1 false] = Ok (s, obs) /\ r_changes (s_r s) = [(1, [1;2;3;4;5;6;7;8;9])].
Proof. exact regress_none_missing. Qed.

(* non-vacuity: a reordered, duplicated, interleaved schedule of two samples meets the hypotheses of
   C05_delivered_changes_are_byte_identical and delivers both *)
Example C05_nonvacuous :
  exists s obs, run (s_init true 1 8)
    [OWrite p21; OWrite p29; ODeliver 2 1 1; ODeliver 1 2 1; ODeliver 1 0 1; ODeliver 1 2 1; ODeliver 2 0 1;
     ODeliver 1 1 1; ODeliver 2 3 1; ODeliver 2 1 1; ODeliver 2 0 1; ODeliver 2 2 1] = Ok (s, obs) /\
    r_changes (s_r s) = [(1, p21); (2, p29)].
Proof. exact example_reordered. Qed.

Example C05_nonvacuous_reassemble :
  reconstruct (fold_left push_frag
     [mk_data_frag 1 1 p21 8 2; mk_data_frag 1 2 p29 8 0; mk_data_frag 2 1 p21 8 0; mk_data_frag 1 1 p21 8 2;
      mk_data_frag 1 1 p21 8 1] []) 1 = Ok (Some p21, [mk_data_frag 1 2 p29 8 0]).
Proof. exact example_reassemble. Qed.

(* non-vacuity of the repair theorems: 21 bytes, f = 8, fragment 2 lost — a reachable state that meets
   every hypothesis of C05_repair_one_round (L = 1, N = 0, c = 1) *)
Example C05_nonvacuous_repair :
  exists s obs, run (s_init true 1 8) [OWrite p21; ODeliver 1 0 1; ODeliver 1 2 1] = Ok (s, obs) /\
    rep 1 p21 1 s /\ cinv 0 s /\ pending 1 p21 1 1 s /\ r_buf (s_r s) <> [] /\ r_hbcount (s_r s) < 1 /\
    div_ceil (blen p21) (w_f (s_w s)) < 1 + 256.
Proof. exact example_repair_hypotheses. Qed.

Print Assumptions C05_concat_of_fragments_is_payload.
Print Assumptions C05_writer_emits_numbered_fragments.
Print Assumptions C05_expected_count_is_ceil.
Print Assumptions C05_reassemble_any_order.
Print Assumptions C05_incomplete_set_gives_nothing.
Print Assumptions C05_never_a_wrong_payload.
Print Assumptions C05_delivered_changes_are_byte_identical.
Print Assumptions C05_complete_set_is_delivered.
Print Assumptions C05_no_panic.
Print Assumptions C05_identity_oracle_sound.
Print Assumptions C05_every_nackfrag_is_processed.
Print Assumptions C05_nackfrag_resends_the_requested_fragments.
Print Assumptions C05_nackfrag_for_n_resends_fragment_n.
Print Assumptions C05_repair_one_round.
Print Assumptions C05_repair_k_rounds.
Print Assumptions C05_regression_lost_fragment_is_repaired.
Print Assumptions C05_regression_requested_fragment_is_resent.
Print Assumptions C05_regression_fragment_size_zero_is_ignored.
Print Assumptions C05_regression_300_fragments_two_rounds.
Print Assumptions C05_regression_two_readers_full_payload.
Print Assumptions C05_regression_copies_before_first_fragment.
