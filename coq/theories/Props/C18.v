(* C18 — KEEP_LAST history keeps the newest samples and never rejects for depth;
   KEEP_ALL keeps every received sample until taken.
   Vocabulary (Cache/LimitsDefs.v, definitions only):
     run q ops            the reader after the history `ops` (ReaderModel.v)
     run_trace r ops      the history paired with what every operation returned
     accepted h tr        payloads of the adds to instance h that returned Added, in order
     replaces_b r h       KEEP_LAST d and exactly d KAlive samples of instance h are stored
     place q t smp l      l with smp appended (BY_RECEPTION) / inserted by timestamp (BY_SOURCE)
     lim_ok lim n         n <= lim, or lim unlimited;  lastn n l  the last n elements of l
     model_case q ops     the correspondence case (outputs, final state) the model produces *)
From DustDDS Require Import Base.Machine Cache.ReaderModel Cache.ReaderCorr Cache.LimitsDefs Cache.C18Proofs.
Open Scope Z_scope.

(* (a) for every QoS with KEEP_LAST d and EVERY history of add/read/take/next_instance/
   match/unmatch operations, no instance ever holds more than d data (KAlive) samples *)
Theorem C18_keep_last_bound :
  forall (q : qos) (ops : list op) (d h : Z), q_depth q = Some d -> 0 <= d ->
    count (alive_of_inst h) (r_samples (run q ops)) <= d.
Proof. exact keep_last_bound. Qed.

(* (b) in ANY state, an accepted sample is put at its place and, when the instance already
   holds depth KAlive samples, exactly the first stored (oldest) KAlive sample of that
   instance is dropped; every other sample stays, in order.  Otherwise nothing is dropped. *)
Theorem C18_replaced_is_oldest :
  forall r w data k h t rts, snd (add_change r w data k h t rts) = Added ->
  exists smp, s_kind smp = k /\ s_inst smp = h /\ s_data smp = data /\ s_ts smp = t /\ s_writer smp = w /\
    if replaces_b r h then
      exists l1 x l2, r_samples r = l1 ++ x :: l2 /\ alive_of_inst h x = true /\
                      (forall y, In y l1 -> alive_of_inst h y = false) /\
                      r_samples (fst (add_change r w data k h t rts)) = place (r_qos r) t smp (l1 ++ l2)
    else r_samples (fst (add_change r w data k h t rts)) = place (r_qos r) t smp (r_samples r).
Proof. exact replaced_is_oldest. Qed.

(* (c) BY_RECEPTION order, KEEP_LAST d (d >= 1), only KAlive data arrives and nothing is
   taken (reads, next_instance reads, match/unmatch are allowed): after every such history
   the payloads stored for instance h are exactly the last d accepted ones, in order *)
Theorem C18_keep_last_newest :
  forall (q : qos) (ops : list op) (d h : Z),
    q_bysrc q = false -> q_depth q = Some d -> 1 <= d ->
    forallb (fun o => alive_add o && not_take o) ops = true ->
    map s_data (filter (of_inst h) (r_samples (run q ops))) =
    lastn (Z.to_nat d) (accepted h (run_trace (init_reader q) ops)).
Proof. exact keep_last_newest. Qed.

(* (d) never rejected for depth.  With depth <= max_samples_per_instance (or unlimited):
   - over every history in which only KAlive data arrives (reads AND takes allowed, any
     other limits, any order, ownership, filter), no add is ever answered with
     RejectedBySamplesPerInstanceLimit — also when max_samples_per_instance = depth; *)
Theorem C18_never_rejected_for_depth :
  forall (q : qos) (ops : list op) (d : Z),
    q_depth q = Some d -> 0 <= d -> lim_ok (q_mspi q) d = true -> forallb alive_add ops = true ->
    Forall (fun ox => forall h, snd ox <> ObsAdd (Rejected h 3)) (run_trace (init_reader q) ops).
Proof. exact never_rejected_for_depth_run. Qed.

(*  - at every reachable state, for a change of ANY kind: not rejected for the per-instance
     limit if all stored samples of its instance are KAlive data; *)
Theorem C18_never_rejected_for_depth_state :
  forall q ops d w data k h t rts h',
    q_depth q = Some d -> 0 <= d -> lim_ok (q_mspi q) d = true ->
    (forall s, In s (r_samples (run q ops)) -> s_inst s = h -> s_kind s = KAlive) ->
    snd (add_change (run q ops) w data k h t rts) <> Rejected h' 3.
Proof. exact never_rejected_for_depth_reach. Qed.

(*  - and exactly when it does happen: the instance holds max_samples_per_instance samples,
     fewer than depth of them KAlive, so at least one stored sample of the instance is a
     dispose/unregister marker or a filtered sample (these are never displaced by KEEP_LAST) *)
Theorem C18_rejected_for_mspi_iff :
  forall r w data k h t rts h',
    snd (add_change r w data k h t rts) = Rejected h' 3 <->
    h' = h /\ passes_gates r w k h t rts = true /\ ms_hit r h = false /\ mi_hit r h = false /\
    mspi_hit r h = true.
Proof. exact rejected3_iff. Qed.
Theorem C18_rejected_for_mspi_needs_non_alive :
  forall q ops d w data k h t rts h',
    q_depth q = Some d -> 0 <= d -> lim_ok (q_mspi q) d = true ->
    snd (add_change (run q ops) w data k h t rts) = Rejected h' 3 ->
    exists s, In s (r_samples (run q ops)) /\ s_inst s = h /\ s_kind s <> KAlive.
Proof. exact rejected3_needs_non_alive_reach. Qed.

(* (e) KEEP_ALL: in any state no add removes a stored sample; *)
Theorem C18_keep_all_add_keeps :
  forall r w data k h t rts, q_depth (r_qos r) = None ->
    forall s, In s (r_samples r) -> In s (r_samples (fst (add_change r w data k h t rts))).
Proof. exact keep_all_add_keeps. Qed.

(* over every history without take, every accepted payload is still stored, and with
   BY_RECEPTION order the stored payloads of an instance are exactly the accepted ones *)
Theorem C18_keep_all_keeps :
  forall (q : qos) (ops : list op), q_depth q = None -> forallb not_take ops = true ->
    (forall h d, In d (accepted h (run_trace (init_reader q) ops)) -> In d (map s_data (r_samples (run q ops)))) /\
    (q_bysrc q = false -> forall h,
       map s_data (filter (of_inst h) (r_samples (run q ops))) = accepted h (run_trace (init_reader q) ops)).
Proof. exact keep_all_keeps. Qed.

(* the link to the correspondence run: the oracle C18_oracle_ok (ReaderCorr.v), which ./check
   applies to the REAL reader's outputs, accepts whatever the model produces, for every QoS
   with depth >= 1 and every history — so an oracle failure on the implementation is always
   also a model disagreement or a property violation, never an artefact of the oracle *)
Theorem C18_oracle_holds_on_model :
  forall (q : qos) (ops : list op),
    match q_depth q with Some d => 1 <= d | None => True end ->
    C18_oracle_ok (model_case q ops) = true.
Proof. exact oracle_holds_on_model. Qed.

(* ---- non-vacuity ---- *)
Definition m_all : masks := mkM true true true true true true true.
(* KEEP_LAST 2 with max_samples_per_instance = 2 = depth and max_samples 4: five samples for
   instance 1 and three for instance 2, a read in between: all accepted, the newest two kept *)
Definition ex_q : qos := mkQ false (Some 2) (Some 4) None (Some 2) false (Some 0).
Definition ex_ops : list op :=
  [OpAdd 1 1 KAlive (Some 1) 101 10; OpAdd 1 1 KAlive (Some 2) 102 20; OpAdd 1 2 KAlive (Some 3) 103 30;
   OpRead 10 m_all None; OpAdd 1 1 KAlive (Some 4) 104 40; OpAdd 2 2 KAlive (Some 5) 105 50;
   OpAdd 1 1 KAlive (Some 6) 106 60; OpAdd 1 2 KAlive (Some 7) 107 70; OpAdd 1 1 KAlive (Some 8) 108 80].
Example C18_nonvacuous_keep_last :
  q_depth ex_q = Some 2 /\ lim_ok (q_mspi ex_q) 2 = true /\
  forallb (fun o => alive_add o && not_take o) ex_ops = true /\
  map s_data (r_samples (run ex_q ex_ops)) = [105; 106; 107; 108] /\
  accepted 1 (run_trace (init_reader ex_q) ex_ops) = [101; 102; 104; 106; 108] /\
  count (alive_of_inst 1) (r_samples (run ex_q ex_ops)) = 2 /\
  replaces_b (run ex_q ex_ops) 1 = true.
Proof. vm_compute. repeat split; reflexivity. Qed.

(* the per-instance rejection that remains possible: depth 2 = max_samples_per_instance,
   a dispose marker occupies a slot that KEEP_LAST never frees *)
Example C18_nonvacuous_rejected_mspi :
  let q := mkQ false (Some 2) None None (Some 2) false (Some 0) in
  let ops := [OpAdd 1 1 KAlive (Some 1) 101 10; OpAdd 1 1 KDisposed (Some 2) 102 20] in
  snd (add_change (run q ops) 1 103 KAlive 1 (Some 3) 30) = Rejected 1 3 /\
  map s_kind (r_samples (run q ops)) = [KAlive; KDisposed].
Proof. vm_compute. split; reflexivity. Qed.

Example C18_nonvacuous_keep_all :
  let q := mkQ true None None None None false (Some 0) in
  let ops := [OpAdd 1 1 KAlive (Some 5) 101 10; OpAdd 1 1 KDisposed (Some 2) 102 20; OpRead 1 m_all None;
              OpAdd 2 2 KAlive (Some 3) 103 30] in
  forallb not_take ops = true /\ map s_data (r_samples (run q ops)) = [102; 103; 101] /\
  accepted 1 (run_trace (init_reader q) ops) = [101; 102].
Proof. vm_compute. repeat split; reflexivity. Qed.

Print Assumptions C18_keep_last_bound.
Print Assumptions C18_replaced_is_oldest.
Print Assumptions C18_keep_last_newest.
Print Assumptions C18_never_rejected_for_depth.
Print Assumptions C18_never_rejected_for_depth_state.
Print Assumptions C18_rejected_for_mspi_iff.
Print Assumptions C18_rejected_for_mspi_needs_non_alive.
Print Assumptions C18_keep_all_add_keeps.
Print Assumptions C18_keep_all_keeps.
Print Assumptions C18_oracle_holds_on_model.
