(* C29 — Expired samples (lifespan) are never delivered.
   Property file: statements, `exact`, pins, assumptions.

   Model (Sched/LifespanModel.v), times in ns: a writer with lifespan L (expired-at-write
   check, cleanup at worker iterations LWake), (re)transmissions from the history (LSendAll /
   LSend: repair, late joiner), a network that delivers, holds and releases datagrams at
   arbitrary times, a reader without lifespan check (as the code), read/take.  l_pres = the
   samples presented to the application with the time of the read/take. *)
From DustDDS Require Import Base.Machine Sched.LifespanModel Sched.LifespanProofs.
Open Scope Z_scope.

(* first transmission: a sample already expired at write time is neither stored nor sent ... *)
Theorem C29_expired_at_write_dropped :
  forall L s ts send, ts + L <= l_now s ->
    l_hist (lstep L s (LWrite ts send)) = l_hist s /\ l_flight (lstep L s (LWrite ts send)) = l_flight s.
Proof. exact expired_at_write_dropped. Qed.

(* ... and is never presented, whatever happens afterwards (all op sequences before and after) *)
Theorem C29_expired_at_write_never_presented :
  forall L t0 ops1 ts send ops2,
    let s := lrun L ops1 (linit t0) in
    ts + L <= l_now s ->
    forall ts' T, ~ In (l_next s, ts', T) (l_pres (lrun L ops2 (lstep L s (LWrite ts send)))).
Proof. exact expired_at_write_never_presented. Qed.

(* repair / history for a late joiner: right after a worker iteration the history — hence
   everything (re)sent in that iteration — is unexpired *)
Theorem C29_hist_unexpired_after_wake :
  forall L s c, In c (l_hist (lstep L s LWake)) -> l_now (lstep L s LWake) < snd c + L.
Proof. exact hist_unexpired_after_wake. Qed.
Theorem C29_sent_after_wake_fresh :
  forall L s c, In c (l_flight (lstep L (lstep L s LWake) LSendAll)) ->
    In c (l_flight s) \/ l_now s < snd c + L.
Proof. exact sent_after_wake_fresh. Qed.

(* the property outside the recorded class C29-no-reader-side-expiry: for ALL schedules of
   writes, worker iterations, retransmissions, deliveries, holds, reads and takes, if no sample
   is read/taken at or after (the timestamp it was written with) + lifespan, then no expired
   sample is presented *)
Theorem C29_no_expired_presented_unless_late :
  forall L t0 ops, late L (lrun L ops (linit t0)) = false ->
    no_expired_presented L (lrun L ops (linit t0)).
Proof. exact no_expired_presented_unless_late. Qed.

(* the unrestricted property is false on the code as it is: (1) a datagram delivered after
   source_timestamp + lifespan is presented (no reader-side check); (2) a repair or
   late-joiner transmission between two worker iterations resends an expired change *)
Theorem C29_no_expired_presented_refuted_by_delay :
  exists L ops, ~ no_expired_presented L (lrun L ops (linit 0)).
Proof. exact no_expired_presented_refuted_by_delay. Qed.
Theorem C29_no_expired_presented_refuted_by_repair :
  exists L ops, ~ no_expired_presented L (lrun L ops (linit 0)).
Proof. exact no_expired_presented_refuted_by_repair. Qed.

(* non-vacuity: a schedule with delivery and take in time is outside the class and presents
   the sample; the held one is inside *)
Example C29_nonvacuous :
  late 200 (lrun 200 [LWrite 0 true; LWake; LTick 150; LWake; LDeliverAll; LTake] (linit 0)) = false /\
  l_pres (lrun 200 [LWrite 0 true; LWake; LTick 150; LWake; LDeliverAll; LTake] (linit 0)) = [(1, 0, 150)] /\
  late 200 (lrun 200 [LWrite 0 true; LWake; LHoldAll; LTick 201; LWake; LRelease; LDeliverAll; LTake] (linit 0)) = true.
Proof. repeat split; vm_compute; reflexivity. Qed.

Print Assumptions C29_expired_at_write_dropped.
Print Assumptions C29_expired_at_write_never_presented.
Print Assumptions C29_hist_unexpired_after_wake.
Print Assumptions C29_sent_after_wake_fresh.
Print Assumptions C29_no_expired_presented_unless_late.
Print Assumptions C29_no_expired_presented_refuted_by_delay.
Print Assumptions C29_no_expired_presented_refuted_by_repair.
