(* C01 — Reliable delivery: every sample arrives exactly once, in order, despite faults.
   Model: Proto/RelModel.v — one RELIABLE writer and one reader, the RTPS state machines of
   stateful_writer.rs / reader_proxy.rs / writer_proxy.rs / stateful_reader.rs with the DCPS glue,
   a network of queued datagrams; a schedule is a list of actions (writes, removals, ticks of the
   worker, deliver / drop / duplicate the i-th queued datagram, FIFO pump, match/delete the reader ...);
   `heal k` = k rounds of (5 ticks = 250 ms >= one heartbeat period; loss-free FIFO delivery,
   replies included, until nothing is queued).
   `presented s` = samples made available to read/take, `s_log s` = publication log,
   `s_changes s` = what the writer still holds, `delivered s` = every held change that is relevant for
   the reliable matched reader is in its presented list. *)
From DustDDS Require Import Base.Machine Proto.RelModel Proto.RelProofs Proto.RelSoundG Proto.RelLive Proto.RelLiveH Proto.RelWitness.
Open Scope Z_scope.

(* SAFETY, unbounded: for every configuration and EVERY finite schedule (any loss, duplication,
   reordering, delay; fragmented samples included) the presented list is a subsequence of the
   publication log, in publication order, sequence numbers strictly increasing — each sample at most
   once — and made of the published records themselves (payload intact). *)
Theorem C01_reliable_safety :
  forall (cf : cfg) (sched : list action),
    let s := run cf init sched in
    sublist (presented s) (s_log s) /\
    StronglySorted Z.lt (map c_sn (presented s)) /\
    NoDup (presented s).
Proof. exact safety_all. Qed.

(* NOTHING IS SKIPPED, unbounded, every history QoS (KEEP_LAST with several instances, removals from the
   history cache included): whatever the RELIABLE reader accounts for - every sequence number up to
   available_changes_max, which is what its ACKNACKs acknowledge - has been presented as far as the writer
   still holds it and it is relevant for this reader.  (Before 91937ff a GAP raised highest_received past
   undelivered, still held samples: former finding C01-gap-skip.) *)
Theorem C01_reliable_no_skip :
  forall (cf : cfg) (sched : list action),
    let s := run cf init sched in
    forall p r w, s_rp s = Some p -> rp_rel p = true -> s_rd s = Some r -> rd_wp r = Some w ->
      forall c, In c (s_changes s) -> rp_fr p < c_sn c -> c_sn c <= avail_max w -> In c (rd_pres r).
Proof. exact no_skip. Qed.

(* LIVENESS, the proved part: ANY history QoS - KEEP_ALL or KEEP_LAST(d) with any number of instances, so the
   sequence numbers the writer holds may have holes (former finding C01-gap-skip lived exactly there) -,
   schedules without explicit removal from the history cache and without deletion of the reader, every sample
   fits one DATA submessage, at most 256 samples: after ANY such schedule (all loss / duplication / reordering
   / delay patterns, late joiners of any durability), five ticks of the worker (250 ms >= the heartbeat
   period) and ANY loss-free delivery sequence - single deliveries in any order, FIFO pumps - whenever
   nothing is queued any more, every change the writer holds and that is relevant for the RELIABLE matched
   reader has been presented.  Proof: the general soundness invariant (a GAP in flight only covers sequence
   numbers at which nothing relevant is held; whatever the reader accounts for has been presented) plus a
   healing invariant: the newest HEARTBEAT is on its way or processed; once processed, the newest ACKNACK -
   which requests the last sample - is on its way; when the writer processes it, it emits a newer HEARTBEAT.
   `_partial`: fragmented samples are not covered by the theorem (they are by the scenarios of the check and
   the examples below). *)
Theorem C01_reliable_liveness_partial :
  forall cf sched dels,
    0 < fsz cf ->
    forallb (live_act cf) sched = true -> forallb is_delivery dels = true ->
    let s := run cf init (sched ++ five_ticks ++ dels) in
    s_last s <= 256 -> s_net s = [] -> delivered s.
Proof. exact reliable_liveness_holes. Qed.

(* the same in scenario vocabulary: k + 1 healing rounds, nothing queued at the end *)
Theorem C01_reliable_liveness_heal_partial :
  forall cf sched k,
    0 < fsz cf -> forallb (live_act cf) sched = true ->
    let s := run cf init (sched ++ heal (S k)) in
    s_last s <= 256 -> s_net s = [] -> delivered s.
Proof. exact reliable_liveness_holes_heal. Qed.

(* the schedule that exposed C01-gap-skip, on the repaired code (replayed on the real stack by the corpus of
   the check): KEEP_LAST(1), two instances, the writer holds {1,3}, DATA(1) is lost: the non-contiguous
   GAP(2) is ignored and one healing round delivers 1 and 3, in order *)
Theorem C01_gap_skip_repaired :
  let s0 := run cf_gap init sched_gap in
  let s := run cf_gap s0 (heal 1) in
  s_changes s0 = [mkCh 1 1 24 11; mkCh 3 2 24 33] /\
  presented s0 = [] /\ ackd s0 = false /\
  snd (step cf_gap s0 AWfhPoll) = OPoll [1] /\ snd (step cf_gap s0 AWfaPoll) = OPoll [1] /\
  presented s = [mkCh 1 1 24 11; mkCh 3 2 24 33] /\
  s_net s = [] /\ ackd s = true /\
  snd (step cf_gap s AWfhPoll) = OPoll [0] /\ snd (step cf_gap s AWfaPoll) = OPoll [0].
Proof. exact gap_skip_repaired. Qed.

(* non-vacuity: loss + reordering + duplication repaired by one healing round; a lost fragment and a
   completely lost fragmented sample repaired by HEARTBEAT -> ACKNACK -> fragment 1 -> NACK_FRAG *)
Example C01_nonvacuous_heal :
  let s := run cf_small init ([AMatch true false; AWrite 1 24 11; AWrite 2 24 22; AWrite 1 24 33;
                               ADrop 0; ADeliver 1; ADup 0; AWfa] ++ heal 1) in
  presented s = s_log s /\ s_net s = [] /\ length (s_log s) = 3%nat /\ snd (step cf_small s AWfaPoll) = OPoll [0].
Proof. exact heal_example_unfragmented. Qed.

Example C01_nonvacuous_lost_fragment :
  let s := run cf_small init ([AMatch true false; AWrite 1 132 11; ADrop 1] ++ heal 2) in
  presented s = [mkCh 1 1 132 11] /\ s_net s = [] /\ is_acked (s_rp s) (s_last s) = true.
Proof. exact heal_example_lost_fragment. Qed.

Example C01_nonvacuous_lost_fragmented_sample :
  let s := run cf_small init ([AMatch true false; AWrite 1 132 11; ADrop 0; ADrop 0; ADrop 0] ++ heal 2) in
  presented s = [mkCh 1 1 132 11] /\ s_net s = [] /\ is_acked (s_rp s) (s_last s) = true.
Proof. exact heal_example_lost_fragmented_sample. Qed.

Print Assumptions C01_reliable_safety.
Print Assumptions C01_reliable_no_skip.
Print Assumptions C01_reliable_liveness_partial.
Print Assumptions C01_reliable_liveness_heal_partial.
Print Assumptions C01_gap_skip_repaired.
