(* C01 — Reliable delivery: every sample arrives exactly once, in order, despite faults.
   Model: Proto/RelModel.v — one RELIABLE writer and one reader, the RTPS state machines of
   stateful_writer.rs / reader_proxy.rs / writer_proxy.rs / stateful_reader.rs with the DCPS glue,
   a network of queued datagrams; a schedule is a list of actions (writes, removals, ticks of the
   worker, deliver / drop / duplicate the i-th queued datagram, FIFO pump, match/delete the reader ...);
   `heal k` = k rounds of (5 ticks = 250 ms >= one heartbeat period; loss-free FIFO delivery,
   replies included, until nothing is queued).
   `presented s` = samples made available to read/take, `s_log s` = publication log,
   `s_changes s` = what the writer still holds, `delivered s` = every held change that is relevant for
   the reliable matched reader is in its presented list. *)
From DustDDS Require Import Base.Machine Proto.RelModel Proto.RelProofs Proto.RelLive Proto.RelWitness.
Open Scope Z_scope.

(* SAFETY, unbounded: for every configuration and EVERY finite schedule (any loss, duplication,
   reordering, delay; fragmented samples included) the presented list is a subsequence of the
   publication log, in publication order, sequence numbers strictly increasing — each sample at most
   once — and made of the published records themselves (payload intact). *)
Theorem C01_reliable_safety :
  forall (cf : cfg) (sched : list action),
    let s := run cf init sched in
    sublist (presented s) (s_log s) /\
    StronglySorted Z.lt (map c_sn (presented s)) /\
    NoDup (presented s).
Proof. exact safety_all. Qed.

(* LIVENESS, the statement at full strength: after the healing rounds granted to the schedule every
   held relevant change has been presented ... *)
Definition C01_reliable_liveness_statement : Prop :=
  forall cf sched k, (rounds_needed sched <= k)%nat -> delivered (run cf init (sched ++ heal k)).

(* ... is FALSE on the faithful model (known finding C01-gap-skip): KEEP_LAST(1) with two instances,
   the writer holds {1,3}; DATA(1) is lost, GAP(2) is delivered and raises highest_received past the
   undelivered, still held sample 1, which is never requested again. *)
Theorem C01_reliable_liveness_refuted_gap_skip : ~ C01_reliable_liveness_statement.
Proof. exact reliable_liveness_full_refuted. Qed.

(* LIVENESS, the proved part (stage 1: hole-free and unfragmented).  KEEP_ALL writer (depth = 0), schedules
   without removal from the history cache and without deletion of the reader, every sample fits one DATA
   submessage, at most 256 samples: after ANY such schedule (all loss / duplication / reordering /
   delay patterns, late joiners of any durability), five ticks of the worker (250 ms >= the heartbeat
   period) and ANY loss-free delivery sequence - single deliveries in any order, FIFO pumps - whenever
   nothing is queued any more, every change the writer holds and that is relevant for the RELIABLE
   matched reader has been presented.  Proof: class invariant (GAPs only cover irrelevant samples,
   nothing relevant below highest_received is skipped, counts bounded) plus a healing invariant: the
   newest HEARTBEAT is on its way or processed; once processed, the newest ACKNACK - which requests the
   last sample - is on its way; when the writer processes it, it emits a newer HEARTBEAT. *)
Theorem C01_reliable_liveness_partial :
  forall cf sched dels,
    0 < fsz cf -> depth cf = 0 ->
    forallb (live_act cf) sched = true -> forallb is_delivery dels = true ->
    let s := run cf init (sched ++ five_ticks ++ dels) in
    s_last s <= 256 -> s_net s = [] -> delivered s.
Proof. exact reliable_liveness_unfragmented. Qed.

(* the same in scenario vocabulary: k + 1 healing rounds, nothing queued at the end *)
Theorem C01_reliable_liveness_heal_partial :
  forall cf sched k,
    0 < fsz cf -> depth cf = 0 -> forallb (live_act cf) sched = true ->
    let s := run cf init (sched ++ heal (S k)) in
    s_last s <= 256 -> s_net s = [] -> delivered s.
Proof. exact reliable_liveness_heal. Qed.

(* the witness in detail (replayed on the real stack by the corpus of the check) *)
Theorem C01_gap_skip_witness :
  let s := run cf_gap init sched_gap in
  s_changes s = [mkCh 1 1 24 11; mkCh 3 2 24 33] /\ presented s = [mkCh 3 2 24 33] /\ s_net s = [] /\
  is_acked (s_rp s) (s_last s) = true /\ snd (step cf_gap s AWfhPoll) = OPoll [0].
Proof. exact gap_skip_witness. Qed.

(* non-vacuity: loss + reordering + duplication repaired by one healing round; a lost fragment and a
   completely lost fragmented sample repaired by HEARTBEAT -> ACKNACK -> fragment 1 -> NACK_FRAG *)
Example C01_nonvacuous_heal :
  let s := run cf_small init ([AMatch true false; AWrite 1 24 11; AWrite 2 24 22; AWrite 1 24 33;
                               ADrop 0; ADeliver 1; ADup 0; AWfa] ++ heal 1) in
  presented s = s_log s /\ s_net s = [] /\ length (s_log s) = 3%nat /\ snd (step cf_small s AWfaPoll) = OPoll [0].
Proof. exact heal_example_unfragmented. Qed.

Example C01_nonvacuous_lost_fragment :
  let s := run cf_small init ([AMatch true false; AWrite 1 132 11; ADrop 1] ++ heal 2) in
  presented s = [mkCh 1 1 132 11] /\ s_net s = [] /\ is_acked (s_rp s) (s_last s) = true.
Proof. exact heal_example_lost_fragment. Qed.

Example C01_nonvacuous_lost_fragmented_sample :
  let s := run cf_small init ([AMatch true false; AWrite 1 132 11; ADrop 0; ADrop 0; ADrop 0] ++ heal 2) in
  presented s = [mkCh 1 1 132 11] /\ s_net s = [] /\ is_acked (s_rp s) (s_last s) = true.
Proof. exact heal_example_lost_fragmented_sample. Qed.

Print Assumptions C01_reliable_safety.
Print Assumptions C01_reliable_liveness_refuted_gap_skip.
Print Assumptions C01_reliable_liveness_partial.
Print Assumptions C01_reliable_liveness_heal_partial.
Print Assumptions C01_gap_skip_witness.
