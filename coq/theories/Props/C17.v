(* C17 — Participant discovery, domain isolation and lease expiry.
   Model: Disc/LeaseModel.v — `prun c s evs` runs one local participant (domain id / tag `c`)
   through worker iterations `(event, time)`; every iteration ends with
   remove_stale_participants(time).  Time is in nanoseconds.  `WF c s` (well-formed state: unique
   keys, ghost fields, ignored set disjoint from the list) holds for every reachable state. *)
From DustDDS Require Import Base.Machine Disc.LeaseModel Disc.LeaseProofs.
Open Scope Z_scope.

(* Reachable states are well-formed (so the theorems below apply to every reachable state). *)
Theorem C17_reachable_states_wellformed :
  forall c evs, WF c (prun c pst0 evs).
Proof. intros c evs; apply wf_run, wf0. Qed.

(* Isolation: whatever announcements arrive (all histories), every discovered participant
   announced the local domain id (or none) and the local domain tag. *)
Theorem C17_isolation :
  forall c evs d, In d (p_disc (prun c pst0 evs)) ->
    (d_dom d = None \/ d_dom d = Some (c_dom c)) /\ d_tag d = c_tag c.
Proof. exact isolation. Qed.

(* An announcement with another domain id or tag never changes the list. *)
Theorem C17_refused_announcement_has_no_effect :
  forall c s a now, accepts c a = false ->
    dkeys (p_disc (apply_ev c (ESpdp a) now s)) = dkeys (p_disc s).
Proof. exact refused_never_added. Qed.

(* An ignored participant is never (re)discovered, whatever happens afterwards. *)
Theorem C17_ignored_never_discovered :
  forall c evs1 k now evs2,
    ~ In k (dkeys (p_disc (prun c pst0 (evs1 ++ (EIgnore k, now) :: evs2)))).
Proof. exact ignored_never_discovered. Qed.

(* Lease: a discovered participant d that stops communicating (no event of the history concerns
   it) is still in the list after the history iff every iteration so far had
   now - last_communication <= lease: never removed early, removed by the FIRST iteration with
   now - last > lease and never back without a new announcement. *)
Theorem C17_lease_bounds :
  forall c l s d, WF c s -> In d (p_disc s) ->
    Forall (fun en => touches (d_key d) (fst en) = false) l ->
    (In (d_key d) (dkeys (p_disc (prun c s l))) <->
     Forall (fun en => snd en - d_last d <= d_lease d) l).
Proof. exact lease_bounds. Qed.

(* ... hence, when iterations are at most `period` apart (worker: 50 ms), the removing iteration
   lies in (lease, lease + period] after the last communication. *)
Theorem C17_lease_removal_window :
  forall c pre en s d period t0, WF c s -> In d (p_disc s) ->
    Forall (fun en => touches (d_key d) (fst en) = false) (pre ++ [en]) ->
    In (d_key d) (dkeys (p_disc (prun c s pre))) ->
    ~ In (d_key d) (dkeys (p_disc (prun c s (pre ++ [en])))) ->
    t0 - d_last d <= d_lease d -> snd en - t0 <= period ->
    d_lease d < snd en - d_last d <= d_lease d + period.
Proof. exact lease_removal_window. Qed.

(* The `while let` loop of remove_stale_participants removes exactly the stale entries. *)
Theorem C17_remove_stale_is_filter :
  forall now s, NoDup (dkeys (p_disc s)) ->
    remove_stale now s = mkP (filter (fun d => negb (stale now d)) (p_disc s)) (p_ign s).
Proof. exact remove_stale_filter. Qed.

(* Discovery: once an acceptable announcement of a non-ignored participant gets through, the
   sender is in the list and stays there as long as iterations happen within the lease (L = lower
   bound of the announced leases) and it is neither disposed nor ignored — whatever was lost before. *)
Theorem C17_eventual_discovery :
  forall c s a now L evs, WF c s ->
    accepts c a = true -> ~ In (a_key a) (p_ign s) -> 0 <= L <= a_lease a ->
    (forall d, In d (p_disc s) -> d_key d = a_key a -> L <= d_lease d) ->
    Forall (fun en => removes (a_key a) (fst en) = false /\ now <= snd en <= now + L) evs ->
    In (a_key a) (dkeys (p_disc (prun c s ((ESpdp a, now) :: evs)))).
Proof. exact eventual_discovery. Qed.

(* Both directions: two participants whose announcements eventually get through have each
   other in their lists. *)
Theorem C17_mutual_discovery :
  forall cp cq sp sq ap aq tp tq L evp evq,
    WF cp sp -> WF cq sq ->
    accepts cp aq = true -> accepts cq ap = true ->
    ~ In (a_key aq) (p_ign sp) -> ~ In (a_key ap) (p_ign sq) ->
    0 <= L <= a_lease aq -> 0 <= L <= a_lease ap ->
    (forall d, In d (p_disc sp) -> d_key d = a_key aq -> L <= d_lease d) ->
    (forall d, In d (p_disc sq) -> d_key d = a_key ap -> L <= d_lease d) ->
    Forall (fun en => removes (a_key aq) (fst en) = false /\ tp <= snd en <= tp + L) evp ->
    Forall (fun en => removes (a_key ap) (fst en) = false /\ tq <= snd en <= tq + L) evq ->
    In (a_key aq) (dkeys (p_disc (prun cp sp ((ESpdp aq, tp) :: evp)))) /\
    In (a_key ap) (dkeys (p_disc (prun cq sq ((ESpdp ap, tq) :: evq)))).
Proof. exact mutual_discovery. Qed.

(* non-vacuity: lease 2000 announced at 1000: present at 3000 (= last + lease), gone at 3001;
   another domain id / another tag is refused *)
Example C17_nonvacuous :
  let c := mkCfg 0 0 in
  let a := mkAnn 7 (Some 0) 0 2000 in
  dkeys (p_disc (prun c pst0 [(ESpdp a, 1000); (EWake, 3000)])) = [7] /\
  dkeys (p_disc (prun c pst0 [(ESpdp a, 1000); (EWake, 3000); (EWake, 3001)])) = [] /\
  dkeys (p_disc (prun c pst0 [(ESpdp (mkAnn 8 (Some 1) 0 2000), 1000); (ESpdp (mkAnn 9 None 1 2000), 1000)])) = [].
Proof. exact lease_example. Qed.

Print Assumptions C17_reachable_states_wellformed.
Print Assumptions C17_isolation.
Print Assumptions C17_refused_announcement_has_no_effect.
Print Assumptions C17_ignored_never_discovered.
Print Assumptions C17_lease_bounds.
Print Assumptions C17_lease_removal_window.
Print Assumptions C17_remove_stale_is_filter.
Print Assumptions C17_eventual_discovery.
Print Assumptions C17_mutual_discovery.
