(* C30 — Deadline-missed counts increase once per missed period.
   Property file: statements, `exact`, pins, assumptions.

   Per-instance model (Sched/DeadlineModel.v), times in ns: events `Sample t` (a new sample
   for the instance) and `Wake t` (one iteration of the worker loop body at time t);
   wrun / rrun apply check_missed_writer_deadline / check_missed_reader_deadline to one
   instance; d_count = contribution to total_count, d_signals = the totals carried by the
   listener calls / status-condition triggers; elapsed_periods D x = number of full
   periods D that have (strictly) elapsed in a silence of length x. *)
From DustDDS Require Import Base.Machine Time.TimeModel Time.TimeProofs Sched.WorkerModel Sched.DeadlineModel Sched.DeadlineProofs.
Open Scope Z_scope.

(* writer: with at least one worker iteration per period (dense), after any silence the count
   is exactly the number of elapsed periods and the instance is re-armed by count periods *)
Theorem C30_writer_count_eq_elapsed_periods :
  forall D t0 ws, 0 < D -> dense D t0 ws ->
    let s := wrun D (map Wake ws) (dinit t0) in
    d_count s = elapsed_periods D (last ws t0 - t0) /\ d_t s = t0 + d_count s * D.
Proof. exact writer_count_eq_elapsed_periods. Qed.

(* writer, any iteration times: never more misses than elapsed periods *)
Theorem C30_writer_count_le_elapsed_periods :
  forall D t0 ws, 0 < D -> nondecr t0 ws ->
    d_count (wrun D (map Wake ws) (dinit t0)) <= elapsed_periods D (last ws t0 - t0).
Proof. exact writer_count_le_elapsed_periods. Qed.

(* no miss is reported while samples keep arriving within the period (writer and reader),
   for every interleaving of samples and worker iterations *)
Theorem C30_writer_no_miss_while_on_time :
  forall D evs s, on_time D (d_t s) evs ->
    d_count (wrun D evs s) = d_count s /\ d_signals (wrun D evs s) = d_signals s.
Proof. exact writer_no_miss_while_on_time. Qed.
Theorem C30_reader_no_miss_while_on_time :
  forall D evs s, on_time D (d_t s) evs ->
    d_count (rrun D evs s) = d_count s /\ d_signals (rrun D evs s) = d_signals s.
Proof. exact reader_no_miss_while_on_time. Qed.

(* each increase is signalled: the signals sent are exactly the totals 1, 2, ..., count *)
Theorem C30_each_increase_signalled :
  forall D t0 evs,
    d_signals (wrun D evs (dinit t0)) = totals (d_count (wrun D evs (dinit t0))) /\
    d_signals (rrun D evs (dinit t0)) = totals (d_count (rrun D evs (dinit t0))).
Proof. exact each_increase_signalled. Qed.

(* reader, same form: with at least one worker iteration per period the count is exactly the
   number of elapsed periods (the instance is re-armed by count periods) ... *)
Theorem C30_reader_count_eq_elapsed_periods :
  forall D t0 ws, 0 < D -> dense D t0 ws ->
    let s := rrun D (map Wake ws) (dinit t0) in
    d_count s = elapsed_periods D (last ws t0 - t0) /\ d_t s = t0 + d_count s * D.
Proof. exact reader_count_eq_elapsed_periods. Qed.

(* ... and for any iteration times it never over-counts *)
Theorem C30_reader_count_le_elapsed_periods :
  forall D t0 ws, 0 < D -> nondecr t0 ws ->
    d_count (rrun D (map Wake ws) (dinit t0)) <= elapsed_periods D (last ws t0 - t0).
Proof. exact reader_count_le_elapsed_periods. Qed.

(* the per-instance rules in ns are the ones of the (sec, nanosec) worker model that is tied
   to the code (Sched/WorkerModel.v), away from the i32 clamp of the seconds *)
Theorem C30_check_inst_refines_wstep :
  forall now dl t key, small now -> small t -> small dl ->
    let '(i', n) := check_inst now dl (mkSI key (Some t)) in
    let s' := wstep (nanos dl) (mkD (nanos t) 0 []) (Wake (nanos now)) in
    option_map nanos (si_last i') = Some (d_t s') /\ n = d_count s'.
Proof. exact check_inst_refines_wstep. Qed.
Theorem C30_check_rinst_refines_rstep :
  forall now dl last key, small now -> small last -> small dl ->
    let '(i', n) := check_rinst now dl (key, last) in
    let s' := rstep (nanos dl) (mkD (nanos last) 0 []) (Wake (nanos now)) in
    nanos (snd i') = d_t s' /\ n = d_count s'.
Proof. exact check_rinst_refines_rstep. Qed.

(* non-vacuity: a dense wake sequence over 3.3 periods gives 3 misses on both sides (the
   former witness of C30-reader-no-rearm: iterations at 150, 200, 250 now give 2, not 3) *)
Example C30_nonvacuous :
  dense 100 0 [50; 100; 101; 151; 200; 201; 251; 300; 301; 330] /\
  d_count (wrun 100 (map Wake [50; 100; 101; 151; 200; 201; 251; 300; 301; 330]) (dinit 0)) = 3 /\
  d_count (rrun 100 (map Wake [50; 100; 101; 151; 200; 201; 251; 300; 301; 330]) (dinit 0)) = 3 /\
  d_count (rrun 100 (map Wake [150; 200; 250]) (dinit 0)) = 2 /\
  on_time 100 0 [Wake 50; Sample 90; Wake 100; Wake 150; Sample 190; Wake 200].
Proof. cbn [dense on_time]. repeat split; try lia; vm_compute; reflexivity. Qed.

Print Assumptions C30_writer_count_eq_elapsed_periods.
Print Assumptions C30_writer_count_le_elapsed_periods.
Print Assumptions C30_writer_no_miss_while_on_time.
Print Assumptions C30_reader_no_miss_while_on_time.
Print Assumptions C30_each_increase_signalled.
Print Assumptions C30_reader_count_eq_elapsed_periods.
Print Assumptions C30_reader_count_le_elapsed_periods.
Print Assumptions C30_check_inst_refines_wstep.
Print Assumptions C30_check_rinst_refines_rstep.
