(* C06 — no datagram can crash, hang or exhaust a running participant.  PARTIAL, see below.

   Statements over Wire/RecvModel.v composed with the decoder model Wire/WireModel.v (C07/C08):
     handle_datagram st bytes   DcpsDomainParticipant::handle_data: RtpsMessageRead::try_from, the
                                MessageReceiver (INFO_TS / INFO_SRC / INFO_DST / INFO_REPLY) and, per
                                submessage, every stateful reader (on_data_submessage,
                                on_data_frag_submessage + reconstruct_data_from_frag, GAP, HEARTBEAT +
                                the ACKNACK / NACK_FRAG reply, HEARTBEAT_FRAG) and every stateful
                                writer (ACKNACK + resending of requested changes, NACK_FRAG) of the
                                participant, user-defined and builtin alike; fields are arbitrary
                                integers, debug-profile arithmetic (overflow = Panic)
     pstate                     the RTPS state these handlers read and write: per reader its writer
                                proxies (sequence number state, counts, fragment buffer), per writer
                                its history and reader proxies
     InvC C st                  every proxy's sequence numbers are such that `+ 1` / `- 1` are in
                                range, every buffered fragment is plausible, at most C bytes of
                                fragments are buffered per proxy, writers have sent all their changes
     datagram_steps st bytes    iterations of the two loops whose bound is computed from wire values
                                (GAP range; reassembly loop x buffer scan); every other handler loop
                                runs over a decoded set (<= 256 members) or a container of the state
     C06_known_dgram bytes      the datagram decodes to a submessage of one of the recorded classes
                                (known_sub: k_inforeply, k_gap_range, k_set_max, k_acknack_min,
                                k_hb_min, k_sn_max, k_frag_count; k_fset cannot come out of the decoder)
   NOT covered by these theorems (differential run only, see props/C06.py): what the worker does
   afterwards with an ACCEPTED sample (XCDR / discovery-data deserialization, type lookup and type
   assignability, QoS matching, partition regex, listeners), the transport / socket layer, the
   allocator; HEARTBEAT-only messages of writers.  Release builds wrap where the debug build panics. *)
From DustDDS Require Import Base.Machine Base.Bytes Wire.WireModel Wire.RecvModel Wire.RecvProofs
  Wire.RecvMemProofs Wire.RecvIsoProofs Wire.RecvWitness Disc.DiscModel Disc.DiscTotProofs.
Open Scope Z_scope.

(* never a panic, for EVERY state satisfying the invariant and EVERY byte string outside the
   classes; the invariant is kept (so the next datagram is covered again) and at most 26 bytes per
   datagram byte are added to any fragment buffer *)
Theorem C06_handle_datagram_total : forall C st bytes,
  InvC C st -> C + 26 * len bytes <= FRAG_CAP -> C06_known_dgram bytes = false ->
  exists st' o, handle_datagram st bytes = Ok (st', o) /\ InvC (C + 26 * len bytes) st' /\
                length (ps_readers st') = length (ps_readers st).
Proof. exact handle_datagram_total. Qed.

(* all sequences of such datagrams (histories): the participant survives all of them *)
Theorem C06_history_total : forall ds C st,
  InvC C st -> C + 26 * sumZ (map (@len Z) ds) <= FRAG_CAP -> Forall (fun d => C06_known_dgram d = false) ds ->
  exists st', run_datagrams st ds = Ok st' /\ InvC (C + 26 * sumZ (map (@len Z) ds)) st'.
Proof. exact run_datagrams_total. Qed.

(* whatever a datagram does (no hypothesis on the state or the bytes), it does not change a proxy
   of a participant it does not speak for (header prefix, INFO_SOURCE prefixes): the sessions with
   well-behaved peers whose identity is not claimed continue from exactly the same state *)
Theorem C06_other_peers_untouched : forall st bytes st' o,
  handle_datagram st bytes = Ok (st', o) -> others (claimed bytes) st' = others (claimed bytes) st.
Proof. exact handle_datagram_isolated. Qed.

(* sender-chosen work, PARTIAL with respect to "linear": outside the classes it is bounded by
   #submessages x #readers x max(65536, (buffered fragment bytes + 1)^2) — the reassembly loop of
   reconstruct_data_from_frag is quadratic in the fragments buffered for one sample even for
   honest fragments.  (The decoder's own work is linear: C07_message_cost_linear.) *)
Theorem C06_datagram_steps_bounded_partial : forall C st bytes, 0 <= C ->
  InvC C st -> C + 26 * len bytes <= FRAG_CAP -> C06_known_dgram bytes = false ->
  0 <= datagram_steps st bytes <= steps_bound (len (subs_of bytes)) (len (ps_readers st)) (C + 26 * len bytes).
Proof. exact datagram_steps_bounded. Qed.

(* first DCPS stage behind the SPDP stateless reader, which accepts DATA from ANY sender: the
   participant-data decoder (C13) returns a value or an error for every payload *)
Theorem C06_spdp_payload_decoder_total : forall d p, participant_from_bytes d <> Panic p.
Proof. exact participant_from_bytes_total. Qed.

(* ------------------------------------------- inside the classes the property is false *)
(* finding C06-inforeply-todo: a 52-byte datagram from an unknown sender, any state *)
Theorem C06_inforeply_panics : forall st,
  handle_datagram st w_inforeply = Panic S_MR_INFO_REPLY /\ C06_known_dgram w_inforeply = true /\ len w_inforeply = 52.
Proof. exact (fun st => conj (inforeply_panics st) inforeply_class). Qed.

(* finding C06-gap-range-loop: 2^62 - 1 loop iterations for 52 bytes *)
Theorem C06_gap_range_unbounded :
  datagram_steps demo_state w_gap_range = 2 ^ 62 - 1 /\ len w_gap_range = 52 /\
  existsb k_gap_range (subs_of w_gap_range) = true /\ existsb known_panic (subs_of w_gap_range) = false.
Proof. exact gap_range_steps. Qed.

(* finding C06-snset-member-overflow: iterator overflow; member i64::MAX requested; member
   i64::MAX in a GAP poisons the proxy so that the next ordinary DATA panics *)
Theorem C06_set_member_overflow :
  handle_datagram demo_state w_set_iter = Panic (S_SE + 63) /\
  handle_datagram demo_state w_set_member_max = Panic S_SW_REQGAP /\
  exists st1 o, handle_datagram demo_state w_gap_member_max = Ok (st1, o) /\
                C06_known_dgram w_data_5 = false /\ handle_datagram st1 w_data_5 = Panic S_SR_EXPECTED.
Proof. exact (conj set_iter_panics (conj set_member_max_panics gap_member_max_poisons)). Qed.

(* finding C06-acknack-base-underflow *)
Theorem C06_acknack_min_panics : handle_datagram demo_state w_acknack_min = Panic S_SW_ACKED.
Proof. exact acknack_min_panics. Qed.

(* finding C06-heartbeat-first-underflow: at once, or at the next DATA *)
Theorem C06_heartbeat_min_panics :
  handle_datagram demo_state w_hb_min = Panic S_WP_FIRST /\
  exists st1 o, handle_datagram demo_state w_hb_min_final = Ok (st1, o) /\
                C06_known_dgram w_data_1 = false /\ handle_datagram st1 w_data_1 = Panic S_WP_FIRST.
Proof. exact (conj hb_min_panics hb_min_poisons). Qed.

(* finding C06-seqnum-max-overflow *)
Theorem C06_seqnum_max_panics :
  handle_datagram demo_state w_nackfrag_max = Panic S_SW_NFGAP /\
  exists st1 o1 st2 o2, handle_datagram demo_state w_hb_first_max = Ok (st1, o1) /\
    C06_known_dgram w_hb_first_max = false /\
    handle_datagram st1 w_data_max = Ok (st2, o2) /\
    C06_known_dgram w_data_3 = false /\ handle_datagram st2 w_data_3 = Panic S_SR_EXPECTED.
Proof. exact (conj nackfrag_max_panics data_max_poisons). Qed.

(* finding C06-frag-reassembly-cost: 50 one-byte fragments (1870 bytes): 65535 * 50 * 50 scans,
   above the bound claimed outside the class *)
Theorem C06_frag_reassembly_superlinear :
  datagram_steps demo_state w_frag_flood = (65535 * 50 + 1) * 50 /\ len w_frag_flood = 1870 /\
  existsb k_frag_count (subs_of w_frag_flood) = true /\ existsb known_panic (subs_of w_frag_flood) = false /\
  steps_bound (len (subs_of w_frag_flood)) 1 (frag_bytes (subs_of w_frag_flood)) < datagram_steps demo_state w_frag_flood.
Proof. exact frag_flood_steps. Qed.

(* non-vacuity: a state satisfying the invariant and a 276-byte datagram with eight submessages
   (INFO_TS, HEARTBEAT, GAP, ACKNACK, DATA_FRAG, NACK_FRAG, INFO_SRC, DATA) outside every class:
   handled, four reply datagrams *)
Example C06_nonvacuous :
  InvC 0 demo_state /\ C06_known_dgram w_clean = false /\ len (subs_of w_clean) = 8 /\
  exists st1 o, handle_datagram demo_state w_clean = Ok (st1, o) /\ len o = 4.
Proof.
  split; [exact demo_inv|]. destruct clean_handled as ([_ K] & N & st1 & o & H & L & _).
  split; [exact K|]. split; [exact N|]. exists st1, o. auto.
Qed.

Print Assumptions C06_handle_datagram_total.
Print Assumptions C06_history_total.
Print Assumptions C06_other_peers_untouched.
Print Assumptions C06_datagram_steps_bounded_partial.
Print Assumptions C06_spdp_payload_decoder_total.
Print Assumptions C06_inforeply_panics.
Print Assumptions C06_gap_range_unbounded.
Print Assumptions C06_set_member_overflow.
Print Assumptions C06_acknack_min_panics.
Print Assumptions C06_heartbeat_min_panics.
Print Assumptions C06_seqnum_max_panics.
Print Assumptions C06_frag_reassembly_superlinear.
