(* C06 — no datagram can crash, hang or exhaust a running participant (handler part).
   PROVISIONAL: extended below as the proofs land. *)
From DustDDS Require Import Base.Machine Base.Bytes Wire.WireModel Wire.RecvModel Wire.RecvProofs.
Open Scope Z_scope.

Theorem C06_handle_datagram_total : forall C st bytes,
  InvC C st -> C + frag_bytes (subs_of bytes) <= FRAG_CAP ->
  is_panic (parse_message bytes) = false -> C06_known_dgram bytes = false ->
  exists st' o, handle_datagram st bytes = Ok (st', o) /\ InvC (C + frag_bytes (subs_of bytes)) st' /\
                length (ps_readers st') = length (ps_readers st).
Proof. exact handle_datagram_ok. Qed.

Print Assumptions C06_handle_datagram_total.
