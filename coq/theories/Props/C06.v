(* C06 — no datagram can crash, hang or exhaust a running participant.  PARTIAL, see below.

   Statements over Wire/RecvModel.v composed with the decoder model Wire/WireModel.v (C07/C08),
   both describing the code AFTER the repairs recorded in known_findings.json (C06-*: a89778b
   8329c8d 6f37365 df6af72 1f8d93c 9291c1e 84c5233; C07: 221c5f8 0cb9fa7):
     handle_datagram st bytes   DcpsDomainParticipant::handle_data: RtpsMessageRead::try_from, the
                                MessageReceiver (INFO_TS / INFO_SRC / INFO_DST / INFO_REPLY) and, per
                                submessage, every stateful reader (on_data_submessage,
                                on_data_frag_submessage + reconstruct_data_from_frag, GAP, HEARTBEAT +
                                the ACKNACK / NACK_FRAG reply, HEARTBEAT_FRAG) and every stateful
                                writer (ACKNACK + resending of requested changes, NACK_FRAG) of the
                                participant, user-defined and builtin alike; debug-profile arithmetic
                                (overflow = Panic)
     pstate                     the RTPS state these handlers read and write: per reader its writer
                                proxies (sequence number state, counts, fragment buffer), per writer
                                its history and reader proxies
     InvC C st                  every proxy's sequence numbers are such that `+ 1` / `- 1` are in
                                range, every buffered fragment is plausible, at most C bytes of
                                fragments are buffered per proxy, writers have sent all their changes
     bytes_ok bytes             every element is an octet (0..255)
     datagram_alloc st bytes    bytes copied into the reassembly buffers (the one handler allocation whose
                                size depends on wire values)
     datagram_steps st bytes    iterations of the one loop whose bound is computed from wire values
                                (reassembly loop x buffer scan); every other handler loop runs over a
                                decoded set (<= 256 members) or a container of the state
   NOT covered by these theorems (differential run only, see props/C06.py): what the worker does
   afterwards with an ACCEPTED sample (XCDR / discovery-data deserialization incl. the repaired
   with_capacity(wire length) f05259a and EMHEADER arithmetic 166bae1, type lookup and type
   assignability, QoS matching, partition regex, listeners), the transport / socket layer, the
   allocator; HEARTBEAT-only messages of writers.  Release builds wrap where a debug build would
   panic.  Identity spoofing through discovery DATA (announcing another participant's GUID with
   other locators) is a DDS-Security matter and outside this property. *)
From DustDDS Require Import Base.Machine Base.Bytes Wire.WireModel Wire.RecvModel Wire.RecvProofs
  Wire.RecvRangeProofs Wire.RecvMemProofs Wire.RecvIsoProofs Wire.RecvWitness Disc.DiscModel Disc.DiscTotProofs.
Open Scope Z_scope.

(* handle_datagram_total + handle_preserves_inv: never a panic, for EVERY state satisfying the
   invariant and EVERY byte string; the invariant is kept (so the next datagram is covered again)
   and at most 26 bytes per datagram byte are added to any fragment buffer (retained memory
   proportional to the datagram) *)
Theorem C06_handle_datagram_total : forall C st bytes,
  InvC C st -> C + 26 * len bytes <= FRAG_CAP -> bytes_ok bytes ->
  exists st' o, handle_datagram st bytes = Ok (st', o) /\ InvC (C + 26 * len bytes) st' /\
                length (ps_readers st') = length (ps_readers st).
Proof. exact handle_datagram_total. Qed.

(* all sequences of datagrams (histories): the participant survives all of them *)
Theorem C06_history_total : forall ds C st,
  InvC C st -> C + 26 * sumZ (map (@len Z) ds) <= FRAG_CAP -> Forall bytes_ok ds ->
  exists st', run_datagrams st ds = Ok st' /\ InvC (C + 26 * sumZ (map (@len Z) ds)) st'.
Proof. exact run_datagrams_total. Qed.

(* whatever a datagram does (no hypothesis on the state or the bytes), it does not change a proxy
   of a participant it does not speak for (header prefix, INFO_SOURCE prefixes): the sessions with
   well-behaved peers whose identity is not claimed continue from exactly the same state *)
Theorem C06_other_peers_untouched : forall st bytes st' o,
  handle_datagram st bytes = Ok (st', o) -> others (claimed bytes) st' = others (claimed bytes) st.
Proof. exact handle_datagram_isolated. Qed.

(* handle_datagram_cost, PARTIAL with respect to "linear": the sender-chosen work is bounded by
   #submessages x #readers x (buffered fragment bytes + 1)^2 for every byte string — the
   reassembly loop of reconstruct_data_from_frag is quadratic in the fragments buffered for one
   sample even for honest fragments (C06_reassembly_quadratic).  The decoder's own work and
   allocation are linear: C07_message_cost_linear, C07_decoded_memory_linear. *)
Theorem C06_datagram_steps_bounded_partial : forall C st bytes, 0 <= C ->
  InvC C st -> C + 26 * len bytes <= FRAG_CAP -> bytes_ok bytes ->
  0 <= datagram_steps st bytes <= steps_bound (len (subs_of bytes)) (len (ps_readers st)) (C + 26 * len bytes).
Proof. exact datagram_steps_bounded. Qed.

Theorem C06_reassembly_quadratic :
  bytes_okb w_honest_frags = true /\ datagram_steps demo_state w_honest_frags = 41 * 40.
Proof. exact reassembly_quadratic. Qed.

(* allocation of the fragment reassembly path (the handlers' only allocation sized from wire
   values): the buffers hold bytes that were RECEIVED — per submessage and reader at most the bytes
   already buffered + 26 per datagram byte — whatever data_size / fragment_size / counts announce;
   e.g. a consistent forged fragment announcing 65 535 000 bytes costs the 1000 bytes it carries.
   (Vec growth can request up to twice that; the run-time oracle bounds every single request of the
   real code by 64 x datagram length + 64 KiB.) *)
Theorem C06_reassembly_alloc_bounded : forall C st bytes, 0 <= C ->
  InvC C st -> C + 26 * len bytes <= FRAG_CAP -> bytes_ok bytes ->
  0 <= datagram_alloc st bytes <= alloc_bound (len (subs_of bytes)) (len (ps_readers st)) (C + 26 * len bytes).
Proof. exact datagram_alloc_bounded. Qed.

Theorem C06_forged_fragment_alloc :
  bytes_okb w_forged_frag = true /\ len w_forged_frag = 1056 /\
  datagram_alloc demo_state w_forged_frag = 1000 /\ is_ok (handle_datagram demo_state w_forged_frag) = true.
Proof. exact forged_frag_alloc. Qed.

(* the decoder hands the handlers values in their machine ranges, for every byte string *)
Theorem C06_decoded_in_range : forall bytes, bytes_ok bytes -> Forall sub_range (subs_of bytes).
Proof. exact decoded_in_range. Qed.

(* first DCPS stage behind the SPDP stateless reader, which accepts DATA from ANY sender: the
   participant-data decoder (C13) returns a value or an error for every payload *)
Theorem C06_spdp_payload_decoder_total : forall d p, participant_from_bytes d <> Panic p.
Proof. exact participant_from_bytes_total. Qed.

(* regression: the fifteen datagrams that panicked or hung the participant before the repairs
   are handled in one history, without sender-chosen work; INFO_REPLY is ignored in every state *)
Theorem C06_former_witnesses_handled :
  forallb bytes_okb former_witnesses = true /\
  is_ok (run_datagrams demo_state former_witnesses) = true /\
  datagram_steps demo_state w_gap_range = 0 /\ datagram_steps demo_state w_frag_flood = 0 /\
  (forall st, handle_datagram st w_inforeply = Ok (st, [])).
Proof. exact (conj former_witnesses_bytes former_witnesses_handled). Qed.

(* non-vacuity: a state satisfying the invariant and a 276-byte datagram with eight submessages
   (INFO_TS, HEARTBEAT, GAP, ACKNACK, DATA_FRAG, NACK_FRAG, INFO_SRC, DATA): handled, four reply
   datagrams *)
Example C06_nonvacuous :
  InvC 0 demo_state /\ bytes_okb w_clean = true /\ len (subs_of w_clean) = 8 /\
  exists st1 o, handle_datagram demo_state w_clean = Ok (st1, o) /\ len o = 4.
Proof. exact (conj demo_inv clean_handled). Qed.

Print Assumptions C06_handle_datagram_total.
Print Assumptions C06_history_total.
Print Assumptions C06_other_peers_untouched.
Print Assumptions C06_datagram_steps_bounded_partial.
Print Assumptions C06_reassembly_quadratic.
Print Assumptions C06_reassembly_alloc_bounded.
Print Assumptions C06_forged_fragment_alloc.
Print Assumptions C06_decoded_in_range.
Print Assumptions C06_spdp_payload_decoder_total.
Print Assumptions C06_former_witnesses_handled.
