(* C24 — Exclusive ownership: only the strongest live writer affects an instance.

   Vocabulary (Cache/C24Proofs.v), r a reader state:
     owner_of r h      the writer recorded as owner of instance h (instance_ownership)
     strength_of r w   ownership strength of writer w if it is matched
     entitled r w h    THE RULE: h has no owner, or w is the owner, or w is strictly stronger
                       than the owner (owner and w both matched)
     no_other_gate q   no resource limit, minimum_separation 0, depth <> 0
   Every theorem is about `run q ops` for ALL QoS with EXCLUSIVE ownership and ALL histories.
   PARTIAL with respect to the property text: the hand-over when the owner misses its DEADLINE
   (discovery_methods.rs::check_missed_reader_deadline removes the ownership entry) is outside
   the shared reader model and is not covered here; instance-STATE changes caused by a
   non-owner are the recorded deviation class 1 (witness below), see also C22. *)
From DustDDS Require Import Base.Machine Cache.ReaderModel Cache.C22Proofs Cache.C24Proofs.
Open Scope Z_scope.

(* a change from a writer other than the owner whose strength is not greater than the owner's
   is NotAdded; the cache and the ownership table are unchanged *)
Theorem C24_only_owner_stores :
  forall (q : qos) (ops : list op), q_excl q = true ->
  forall w data k h t rts o so sw,
    owner_of (run q ops) h = Some o -> o <> w ->
    strength_of (run q ops) o = Some so -> strength_of (run q ops) w = Some sw -> sw <= so ->
    snd (add_change (run q ops) w data k h t rts) = NotAdded /\
    r_samples (fst (add_change (run q ops) w data k h t rts)) = r_samples (run q ops) /\
    r_owns (fst (add_change (run q ops) w data k h t rts)) = r_owns (run q ops).
Proof. exact only_owner_stores. Qed.

(* the same for every way of not being entitled (e.g. an unmatched writer against an owner) *)
Theorem C24_not_entitled_not_stored :
  forall (q : qos) (ops : list op), q_excl q = true ->
  forall w data k h t rts,
    entitled (run q ops) w h = false ->
    snd (add_change (run q ops) w data k h t rts) = NotAdded /\
    r_samples (fst (add_change (run q ops) w data k h t rts)) = r_samples (run q ops) /\
    r_owns (fst (add_change (run q ops) w data k h t rts)) = r_owns (run q ops).
Proof. exact not_entitled_not_stored. Qed.

(* THE POINT OF FIX 9c92a58 - for ALL QoS (EXCLUSIVE or SHARED), ALL histories, every writer and
   every change: a change that is not stored (NotAdded by ownership or by the time-based filter,
   Rejected by a resource limit, unknown-instance error) leaves the ownership table unchanged.
   (depth 0 makes the real code panic and is excluded.) *)
Theorem C24_not_stored_ownership_unchanged :
  forall (q : qos) (ops : list op) w data k h t rts,
    q_depth q <> Some 0 ->
    snd (add_change (run q ops) w data k h t rts) <> Added ->
    r_owns (fst (add_change (run q ops) w data k h t rts)) = r_owns (run q ops).
Proof. exact not_stored_owns_unchanged_run. Qed.

(* a strictly stronger matched writer takes the instance over (and only this instance) exactly
   when its sample is stored; otherwise nothing changes; its sample is Added when nothing but
   ownership can refuse it *)
Theorem C24_strongest_wins :
  forall (q : qos) (ops : list op), q_excl q = true ->
  forall w data k h t rts o so sw,
    owner_of (run q ops) h = Some o ->
    strength_of (run q ops) o = Some so -> strength_of (run q ops) w = Some sw -> so < sw ->
    is_alive_kind k = true ->
    let r' := fst (add_change (run q ops) w data k h t rts) in
    let a := snd (add_change (run q ops) w data k h t rts) in
    (a = Added -> owner_of r' h = Some w /\ forall h', h' <> h -> owner_of r' h' = owner_of (run q ops) h') /\
    (a <> Added -> q_depth q <> Some 0 -> forall h', owner_of r' h' = owner_of (run q ops) h') /\
    (no_other_gate q -> a = Added).
Proof. exact strongest_wins. Qed.

(* ties: with equal strengths the current owner keeps the instance *)
Theorem C24_tie_is_stable :
  forall (q : qos) (ops : list op), q_excl q = true ->
  forall w data k h t rts o s,
    owner_of (run q ops) h = Some o -> o <> w ->
    strength_of (run q ops) o = Some s -> strength_of (run q ops) w = Some s ->
    snd (add_change (run q ops) w data k h t rts) = NotAdded /\
    owner_of (fst (add_change (run q ops) w data k h t rts)) h = Some o /\
    entitled (run q ops) o h = true.
Proof. exact tie_is_stable. Qed.

(* the general effect of a change from an entitled writer: ownership changes exactly when the
   change is stored - then the writer becomes the owner (alive change) or the ownership is
   released (dispose / unregister) and no other instance is affected; a change refused by the
   time-based filter or a resource limit changes nothing *)
Theorem C24_entitled_effect :
  forall (q : qos) (ops : list op), q_excl q = true ->
  forall w data k h t rts,
    entitled (run q ops) w h = true ->
    (is_alive_kind k = true \/ find_inst h (r_insts (run q ops)) <> None) ->
    let r' := fst (add_change (run q ops) w data k h t rts) in
    let a := snd (add_change (run q ops) w data k h t rts) in
    a <> AddError /\
    (a = Added ->
     forall h', owner_of r' h' =
                if h' =? h then (if is_alive_kind k then Some w else None) else owner_of (run q ops) h') /\
    (a <> Added -> q_depth q <> Some 0 -> forall h', owner_of r' h' = owner_of (run q ops) h') /\
    (no_other_gate q -> a = Added).
Proof. exact entitled_effect. Qed.

(* every stored change was written by a writer entitled to the instance at that moment
   (together with C24_not_stored_ownership_unchanged: ownership changes ONLY through stored
   changes and remove_matched_publication); afterwards that writer is the owner, or - when the stored change is the owner's dispose or
   unregister - the ownership is released and the next writer of ANY strength is entitled *)
Theorem C24_stored_by_owner :
  forall (q : qos) (ops : list op), q_excl q = true ->
  forall w data k h t rts,
    snd (add_change (run q ops) w data k h t rts) = Added ->
    let r' := fst (add_change (run q ops) w data k h t rts) in
    entitled (run q ops) w h = true /\
    owner_of r' h = (if is_alive_kind k then Some w else None) /\
    (is_alive_kind k = false -> forall w', entitled r' w' h = true).
Proof. exact stored_by_owner. Qed.

(* remove_matched_publication of the owner releases exactly its instances; the next writer of
   any strength is entitled *)
Theorem C24_unmatch_releases :
  forall (q : qos) (ops : list op), q_excl q = true ->
  forall w h,
    strength_of (run q ops) w <> None ->
    owner_of (remove_matched (run q ops) w) h =
      match owner_of (run q ops) h with Some o => if o =? w then None else Some o | None => None end /\
    (owner_of (run q ops) h = Some w -> forall w', entitled (remove_matched (run q ops) w) w' h = true).
Proof. exact unmatch_releases. Qed.

(* at most one owner per instance in every reachable state *)
Theorem C24_one_owner_per_instance :
  forall (q : qos) (ops : list op), q_excl q = true -> NoDup (map o_inst (r_owns (run q ops))).
Proof. exact one_owner_run. Qed.

(* recorded deviation class 1: writer 2 (strength 0) unregisters the instance owned by writer 1
   (strength 5): correctly NotAdded, cache and owner unchanged, but the instance state flips *)
Theorem C24_class1_nonowner_state_witness :
  let q := mkQ false None None None None true (Some 0) in
  let r := run q [OpMatch 1 5; OpMatch 2 0; OpAdd 1 1 KAlive (Some 12) 101 20] in
  let r' := fst (add_change r 2 103 KUnregistered 1 (Some 28) 27) in
  owner_of r 1 = Some 1 /\ entitled r 2 1 = false /\
  snd (add_change r 2 103 KUnregistered 1 (Some 28) 27) = NotAdded /\
  r_samples r' = r_samples r /\ owner_of r' 1 = Some 1 /\
  i_state (inst_or_new (r_insts r) 1) = IAlive /\
  i_state (inst_or_new (r_insts r') 1) = INoWriters.
Proof. exact class1_witness. Qed.

(* non-vacuity: writers 1 (5), 2 (7), 3 (5): 1 owns; 3 refused (tie); 2 takes over; 1 refused;
   2 disposes (released); 3 accepted; 3 unmatched (released); 1 accepted *)
Example C24_nonvacuous :
  let q := mkQ false None None None None true (Some 0) in
  let ops := [OpMatch 1 5; OpMatch 2 7; OpMatch 3 5; OpAdd 1 1 KAlive (Some 10) 100 10;
              OpAdd 3 1 KAlive (Some 11) 101 11; OpAdd 2 1 KAlive (Some 12) 102 12;
              OpAdd 1 1 KAlive (Some 13) 103 13; OpAdd 2 1 KDisposed (Some 14) 104 14;
              OpAdd 3 1 KAlive (Some 15) 105 15; OpUnmatch 3; OpAdd 1 1 KAlive (Some 16) 106 16] in
  no_other_gate q /\
  snd (run_obs (init_reader q) ops) =
    [ObsUnit; ObsUnit; ObsUnit; ObsAdd Added; ObsAdd NotAdded; ObsAdd Added; ObsAdd NotAdded; ObsAdd Added;
     ObsAdd Added; ObsUnit; ObsAdd Added] /\
  map s_writer (r_samples (run q ops)) = [1; 2; 2; 3; 1] /\
  owner_of (run q ops) 1 = Some 1.
Proof. exact nonvacuous. Qed.

(* the case that exposed the defect repaired by 9c92a58 (replays/C24-a01b301e15), on the model of
   the fixed code: max_samples_per_instance 1, the dispose of the owner (writer 3, strength 5) is
   Rejected, so writer 3 stays the owner and both samples of writer 2 (strength 1) are NotAdded *)
Example C24_fix_9c92a58_replay :
  let q := mkQ true None (Some 2) (Some 2) (Some 1) true (Some 0) in
  let ops := [OpMatch 1 2; OpMatch 2 1; OpMatch 3 5; OpAdd 3 1 KAlive (Some 11) 101 13;
              OpAdd 3 1 KDisposed (Some 23) 102 16; OpAdd 2 1 KAlive (Some 30) 103 18;
              OpTake 2147483647 (mkM true true true true true true true) (Some 1);
              OpAdd 2 1 KAlive (Some 5) 104 18] in
  map (fun x => match x with ObsAdd a => Some a | _ => None end) (snd (run_obs (init_reader q) ops)) =
    [None; None; None; Some Added; Some (Rejected 1 3); Some NotAdded; None; Some NotAdded] /\
  owner_of (run q ops) 1 = Some 3 /\ r_samples (run q ops) = [].
Proof. exact fix_replay. Qed.

Print Assumptions C24_only_owner_stores.
Print Assumptions C24_not_entitled_not_stored.
Print Assumptions C24_not_stored_ownership_unchanged.
Print Assumptions C24_strongest_wins.
Print Assumptions C24_tie_is_stable.
Print Assumptions C24_entitled_effect.
Print Assumptions C24_stored_by_owner.
Print Assumptions C24_unmatch_releases.
Print Assumptions C24_one_owner_per_instance.
Print Assumptions C24_class1_nonowner_state_witness.
