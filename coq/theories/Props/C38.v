(* C38 — UDP transport accepts exactly the fragment sizes 8..=65000. *)
From DustDDS Require Import Base.Machine Transport.FragSizeModel Transport.FragSizeProofs.
Open Scope Z_scope.

Theorem C38_accepts_iff_in_range :
  forall cur n,
    (fst (set_fragment_size cur n) = Ok tt <-> 8 <= n <= 65000) /\
    (fst (set_fragment_size cur n) = Err BAD_PARAMETER <-> ~ (8 <= n <= 65000)).
Proof. exact accepts_iff. Qed.

Theorem C38_reject_keeps_previous :
  forall cur n, ~ (8 <= n <= 65000) -> snd (set_fragment_size cur n) = cur.
Proof. exact reject_keeps. Qed.

Theorem C38_accept_stores :
  forall cur n, 8 <= n <= 65000 -> snd (set_fragment_size cur n) = n.
Proof. exact accept_stores. Qed.

Theorem C38_stored_value_always_valid :
  forall calls : list Z, 8 <= run calls <= 65000.
Proof. exact run_in_range. Qed.

Example C38_nonvacuous : run [3; 9; 70000; 65000; 7] = 65000.
Proof. reflexivity. Qed.

Print Assumptions C38_accepts_iff_in_range.
Print Assumptions C38_reject_keeps_previous.
Print Assumptions C38_accept_stores.
Print Assumptions C38_stored_value_always_valid.
