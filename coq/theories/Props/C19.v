(* C19 — resource limits are enforced and rejections are reported with the matching reason.
   Part 1: the reader history cache (ReaderModel.v).  Part 2: the writer,
   DataWriterEntity::write_w_timestamp with the KEEP_LAST step of its caller (WriterModel.v).
   Not modelled: the sample-rejected status counter (see props/C19.py).
   Vocabulary (Cache/LimitsDefs.v, definitions only):
     within q l       l respects max_samples, max_instances and max_samples_per_instance of q
     limits_nonneg q  every limit that is set is >= 0
     passes_gates     the tests add_reader_change makes BEFORE it looks at history and limits:
                      instance-state update possible, exclusive-ownership gate, time-based filter
     ms_hit/mi_hit/mspi_hit  the three limit tests of the code (their meaning: C19_*_hit_means)
     accepted h tr    payloads of the adds to instance h that returned Added *)
From DustDDS Require Import Base.Machine Cache.ReaderModel Cache.ReaderCorr Cache.LimitsDefs
  Cache.C18Proofs Cache.C19Proofs Cache.WriterModel Cache.WriterProofs.
Open Scope Z_scope.

(* (a) for ALL QoS values — any history kind and depth, any order/ownership/filter; the
   consistency conditions of DataReaderQos::is_consistent are NOT needed, only that set
   limits are non-negative — and EVERY operation history:
     number of stored samples <= max_samples,
     number of distinct instances among them <= max_instances,
     samples of any one instance <= max_samples_per_instance *)
Theorem C19_limits_invariant :
  forall (q : qos) (ops : list op), limits_nonneg q ->
    lim_ok (q_ms q) (Z.of_nat (length (r_samples (run q ops)))) = true /\
    lim_ok (q_mi q) (Z.of_nat (length (distinct_insts (r_samples (run q ops)) []))) = true /\
    forall h, lim_ok (q_mspi q) (count (of_inst h) (r_samples (run q ops))) = true.
Proof. exact limits_invariant. Qed.

(* distinct_insts really is the set of instance handles of the stored samples *)
Theorem C19_distinct_insts_spec :
  forall l x, (In x (distinct_insts l []) <-> In x (map s_inst l)) /\ NoDup (distinct_insts l []).
Proof.
  intros l x. split; [rewrite distinct_in; cbn [In]; tauto|apply distinct_nodup; constructor].
Qed.

(* (b),(d) in ANY state: a change that is not accepted — Rejected for any reason, NotAdded
   (ownership / time filter), or an error — leaves the stored samples untouched *)
Theorem C19_not_accepted_not_stored :
  forall r w data k h t rts, snd (add_change r w data k h t rts) <> Added ->
    r_samples (fst (add_change r w data k h t rts)) = r_samples r.
Proof. exact rejected_not_stored. Qed.

(* over every history: each stored sample is one that was accepted (so a rejected sample is
   never stored, nor can it show up later) *)
Theorem C19_stored_was_accepted :
  forall (q : qos) (ops : list op) (s : sample), In s (r_samples (run q ops)) ->
    In (s_data s) (accepted (s_inst s) (run_trace (init_reader q) ops)).
Proof. exact stored_was_accepted. Qed.

(* (c) the reason reported, in the code's priority order samples > instances > per-instance;
   in ANY state *)
Theorem C19_reason_samples :
  forall r w data k h t rts h',
    snd (add_change r w data k h t rts) = Rejected h' 2 <->
    h' = h /\ passes_gates r w k h t rts = true /\ ms_hit r h = true.
Proof. exact rejected2_iff. Qed.
Theorem C19_reason_instances :
  forall r w data k h t rts h',
    snd (add_change r w data k h t rts) = Rejected h' 1 <->
    h' = h /\ passes_gates r w k h t rts = true /\ ms_hit r h = false /\ mi_hit r h = true.
Proof. exact rejected1_iff. Qed.
Theorem C19_reason_samples_per_instance :
  forall r w data k h t rts h',
    snd (add_change r w data k h t rts) = Rejected h' 3 <->
    h' = h /\ passes_gates r w k h t rts = true /\ ms_hit r h = false /\ mi_hit r h = false /\
    mspi_hit r h = true.
Proof. exact rejected3_iff. Qed.
Theorem C19_reason_is_one_of_three :
  forall r w data k h t rts h' c,
    snd (add_change r w data k h t rts) = Rejected h' c -> h' = h /\ (c = 1 \/ c = 2 \/ c = 3).
Proof. exact rejected_reasons. Qed.
(* and nothing is dropped silently: a change that passes the gates is stored unless one of
   the three limits is hit (depth = 0 is the code's "Samples must exist" panic) *)
Theorem C19_accepted_iff :
  forall r w data k h t rts,
    snd (add_change r w data k h t rts) = Added <->
    passes_gates r w k h t rts = true /\ ms_hit r h = false /\ mi_hit r h = false /\ mspi_hit r h = false /\
    ~ (q_depth (r_qos r) = Some 0 /\ count (alive_of_inst h) (r_samples r) = 0).
Proof. exact added_iff. Qed.

(* what the three tests mean: the limit is exactly full and storing the sample would add
   one (it is not a KEEP_LAST replacement / it is a new instance) *)
Theorem C19_samples_hit_means :
  forall r h, ms_hit r h = true <->
    q_ms (r_qos r) = Some (Z.of_nat (length (r_samples r))) /\
    q_depth (r_qos r) <> Some (count (alive_of_inst h) (r_samples r)).
Proof. exact ms_hit_spec. Qed.
Theorem C19_instances_hit_means :
  forall r h, mi_hit r h = true <->
    q_mi (r_qos r) = Some (Z.of_nat (length (distinct_insts (r_samples r) []))) /\
    ~ In h (map s_inst (r_samples r)).
Proof. exact mi_hit_spec. Qed.
Theorem C19_samples_per_instance_hit_means :
  forall r h, mspi_hit r h = true <->
    q_mspi (r_qos r) = Some (count (of_inst h) (r_samples r)) /\
    q_depth (r_qos r) <> Some (count (alive_of_inst h) (r_samples r)).
Proof. exact mspi_hit_spec. Qed.

(* ---- non-vacuity: one history that meets every limit and every rejection reason ---- *)
Definition ex_q : qos := mkQ false None (Some 3) (Some 2) (Some 2) false (Some 0).
Definition ex_ops : list op :=
  [OpAdd 1 1 KAlive (Some 1) 101 10; OpAdd 1 1 KAlive (Some 2) 102 20;
   OpAdd 1 1 KAlive (Some 3) 103 30;   (* per-instance limit *)
   OpAdd 1 2 KAlive (Some 4) 104 40;
   OpAdd 1 3 KAlive (Some 5) 105 50;   (* samples limit has priority over instances limit *)
   OpTake 1 (mkM true true true true true true true) None;
   OpAdd 1 3 KAlive (Some 6) 106 60].  (* instances limit *)
Example C19_nonvacuous :
  limits_nonneg ex_q /\
  snd (run_obs (init_reader ex_q) ex_ops) =
    [ObsAdd Added; ObsAdd Added; ObsAdd (Rejected 1 3); ObsAdd Added; ObsAdd (Rejected 3 2);
     ObsColl (CollOk [mkInfo 101 1 true SNotRead VNew IAlive 0 0 0 0 0 (Some 1) 1]); ObsAdd (Rejected 3 1)] /\
  map s_data (r_samples (run ex_q ex_ops)) = [102; 104] /\
  accepted 1 (run_trace (init_reader ex_q) ex_ops) = [101; 102].
Proof. vm_compute. repeat split; intros; try reflexivity; discriminate. Qed.

(* ======================================================================================
   Part 2 — the writer.  Vocabulary (Cache/WriterModel.v, definitions only):
     w_write w h data ts now   DataWriterEntity::write_w_timestamp
     w_pre w h                 the caller's KEEP_LAST step (pop the oldest sample of h when it holds depth)
     WApp h data ts now        DataWriter::write = w_pre then w_write;  w_run q ops  the writer after ops
     w_register / w_mspi_hit / w_ms_hit   the three tests of write_w_timestamp, in its order
     total l                   samples recorded over all instances;  slen x  samples of instance x
   ====================================================================================== *)

(* for ALL QoS values (set limits >= 0, KEEP_LAST depth >= 1; depth <= max_samples_per_instance
   and max_samples >= max_samples_per_instance are NOT needed) and EVERY history of
   DataWriter::write calls: samples <= max_samples, registered instances <= max_instances,
   samples of each instance <= max_samples_per_instance *)
Theorem C19_writer_limits_invariant :
  forall (q : wqos) (ops : list wop),
    wlim_nonneg (wq_ms q) -> wlim_nonneg (wq_mi q) -> wlim_nonneg (wq_mspi q) ->
    (forall d, wq_depth q = Some d -> 1 <= d) -> forallb app_op ops = true ->
    wlim_ok (wq_ms q) (total (w_insts (w_run q ops))) = true /\
    wlim_ok (wq_mi q) (Z.of_nat (length (w_insts (w_run q ops)))) = true /\
    forall x, In x (w_insts (w_run q ops)) -> wlim_ok (wq_mspi q) (slen x) = true.
Proof. exact w_limits_invariant. Qed.

(* write_w_timestamp alone does NOT keep max_samples_per_instance with KEEP_LAST: it relies on
   the step its caller performs first *)
Theorem C19_writer_entity_alone_exceeds :
  exists q ops, wq_mspi q = Some 2 /\ wq_depth q = Some 2 /\ map slen (w_insts (w_run q ops)) = [3].
Proof. exact w_entity_alone_exceeds_refuted. Qed.

(* in ANY state: OutOfResources exactly when a limit is in the way, tests in the code's order *)
Theorem C19_writer_refused_iff :
  forall w h data ts now,
    snd (w_write w h data ts now) = WOutOfResources <->
    w_register w h = None \/
    exists insts1, w_register w h = Some insts1 /\
                   (w_mspi_hit (w_qos w) insts1 h = true \/ w_ms_hit (w_qos w) insts1 = true).
Proof. exact w_refused_iff. Qed.
Theorem C19_writer_instances_test_means :
  forall w h, w_register w h = None <->
    find_wi h (w_insts w) = None /\ exists v, wq_mi (w_qos w) = Some v /\ v <= Z.of_nat (length (w_insts w)).
Proof. exact w_register_none_iff. Qed.
Theorem C19_writer_samples_per_instance_test_means :
  forall q insts h, w_mspi_hit q insts h = true <->
    exists m s, wq_mspi q = Some m /\ find_wi h insts = Some s /\ m <= slen s /\
                (forall d, wq_depth q = Some d -> m < d).
Proof. exact w_mspi_hit_iff. Qed.
Theorem C19_writer_samples_test_means :
  forall q insts, w_ms_hit q insts = true <-> exists m, wq_ms q = Some m /\ m <= total insts.
Proof. exact w_ms_hit_iff. Qed.
Theorem C19_writer_no_panic :
  forall w h data ts now, snd (w_write w h data ts now) <> WPanic.
Proof. exact w_write_no_panic. Qed.

(* a refused write stores nothing: sequence number, transport writer, every instance's samples
   AND the list of registered instances are unchanged (the state is the same) *)
Theorem C19_writer_refused_stores_no_sample :
  forall w h data ts now, snd (w_write w h data ts now) = WOutOfResources ->
    let w' := fst (w_write w h data ts now) in
    w_seq w' = w_seq w /\ w_changes w' = w_changes w /\ w_qos w' = w_qos w /\ w_insts w' = w_insts w.
Proof. exact w_refused_stores_no_sample. Qed.
Theorem C19_writer_refused_unchanged :
  forall w h data ts now, snd (w_write w h data ts now) = WOutOfResources -> fst (w_write w h data ts now) = w.
Proof. exact w_refused_unchanged. Qed.
Theorem C19_writer_refused_registered_unchanged :
  forall w h data ts now s, find_wi h (w_insts w) = Some s ->
    snd (w_write w h data ts now) = WOutOfResources -> fst (w_write w h data ts now) = w.
Proof. exact w_refused_registered_unchanged. Qed.

(* an accepted write records exactly one sample with the next sequence number *)
Theorem C19_writer_accepted_records_one :
  forall w h data ts now, snd (w_write w h data ts now) = WOk ->
    let w' := fst (w_write w h data ts now) in
    w_seq w' = w_seq w + 1 /\
    (exists s', find_wi h (w_insts w') = Some s' /\
       wi_samples s' = match find_wi h (w_insts w) with Some s => wi_samples s | None => [] end ++ [w_seq w + 1]) /\
    total (w_insts w') = total (w_insts w) + 1 /\
    (w_changes w' = w_changes w \/ w_changes w' = w_changes w ++ [mkCh (w_seq w + 1) h data ts]).
Proof. exact w_accepted_records_one. Qed.

(* KEEP_LAST: at most depth samples per instance, and a replacement never loses the old sample
   to a refused write: whenever the caller's step removes the oldest sample, the write succeeds *)
Theorem C19_writer_keep_last_bound :
  forall q ops d x,
    wlim_nonneg (wq_ms q) -> wlim_nonneg (wq_mi q) -> wlim_nonneg (wq_mspi q) ->
    wq_depth q = Some d -> 1 <= d -> forallb app_op ops = true ->
    In x (w_insts (w_run q ops)) -> slen x <= d.
Proof. exact w_keep_last_bound. Qed.
Theorem C19_writer_replacement_not_refused :
  forall q ops h data ts now d s,
    wlim_nonneg (wq_ms q) -> wlim_nonneg (wq_mi q) -> wlim_nonneg (wq_mspi q) ->
    wq_depth q = Some d -> 1 <= d -> forallb app_op ops = true ->
    find_wi h (w_insts (w_run q ops)) = Some s -> slen s = d ->
    snd (w_step (w_run q ops) (WApp h data ts now)) = WOk.
Proof. exact w_replacement_not_refused. Qed.

Example C19_writer_nonvacuous :
  let q := mkWQ (Some 2) (Some 3) (Some 2) (Some 2) None in
  let ops := [WApp 1 101 10 10; WApp 1 102 20 20; WApp 1 103 30 30; WApp 2 104 40 40; WApp 2 105 50 50;
              WApp 3 106 60 60; WApp 1 107 70 70] in
  forallb app_op ops = true /\
  snd (w_run_obs (init_writer q) ops) = [WOk; WOk; WOk; WOk; WOutOfResources; WOutOfResources; WOk] /\
  map wi_samples (w_insts (w_run q ops)) = [[3; 5]; [4]] /\
  map c_data (w_changes (w_run q ops)) = [103; 104; 107].
Proof. vm_compute. repeat split; reflexivity. Qed.

Print Assumptions C19_limits_invariant.
Print Assumptions C19_distinct_insts_spec.
Print Assumptions C19_not_accepted_not_stored.
Print Assumptions C19_stored_was_accepted.
Print Assumptions C19_reason_samples.
Print Assumptions C19_reason_instances.
Print Assumptions C19_reason_samples_per_instance.
Print Assumptions C19_reason_is_one_of_three.
Print Assumptions C19_accepted_iff.
Print Assumptions C19_samples_hit_means.
Print Assumptions C19_instances_hit_means.
Print Assumptions C19_samples_per_instance_hit_means.
Print Assumptions C19_writer_limits_invariant.
Print Assumptions C19_writer_entity_alone_exceeds.
Print Assumptions C19_writer_refused_iff.
Print Assumptions C19_writer_instances_test_means.
Print Assumptions C19_writer_samples_per_instance_test_means.
Print Assumptions C19_writer_samples_test_means.
Print Assumptions C19_writer_no_panic.
Print Assumptions C19_writer_refused_stores_no_sample.
Print Assumptions C19_writer_refused_unchanged.
Print Assumptions C19_writer_refused_registered_unchanged.
Print Assumptions C19_writer_accepted_records_one.
Print Assumptions C19_writer_keep_last_bound.
Print Assumptions C19_writer_replacement_not_refused.
