(* C19 — the reader's resource limits are enforced and rejections are reported with the
   matching reason.  (Reader history cache only: the sample-rejected status counter and the
   writer-side limits are not part of this model, see props/C19.py.)
   Vocabulary (Cache/LimitsDefs.v, definitions only):
     within q l       l respects max_samples, max_instances and max_samples_per_instance of q
     limits_nonneg q  every limit that is set is >= 0
     passes_gates     the tests add_reader_change makes BEFORE it looks at history and limits:
                      instance-state update possible, exclusive-ownership gate, time-based filter
     ms_hit/mi_hit/mspi_hit  the three limit tests of the code (their meaning: C19_*_hit_means)
     accepted h tr    payloads of the adds to instance h that returned Added *)
From DustDDS Require Import Base.Machine Cache.ReaderModel Cache.ReaderCorr Cache.LimitsDefs
  Cache.C18Proofs Cache.C19Proofs.
Open Scope Z_scope.

(* (a) for ALL QoS values — any history kind and depth, any order/ownership/filter; the
   consistency conditions of DataReaderQos::is_consistent are NOT needed, only that set
   limits are non-negative — and EVERY operation history:
     number of stored samples <= max_samples,
     number of distinct instances among them <= max_instances,
     samples of any one instance <= max_samples_per_instance *)
Theorem C19_limits_invariant :
  forall (q : qos) (ops : list op), limits_nonneg q ->
    lim_ok (q_ms q) (Z.of_nat (length (r_samples (run q ops)))) = true /\
    lim_ok (q_mi q) (Z.of_nat (length (distinct_insts (r_samples (run q ops)) []))) = true /\
    forall h, lim_ok (q_mspi q) (count (of_inst h) (r_samples (run q ops))) = true.
Proof. exact limits_invariant. Qed.

(* distinct_insts really is the set of instance handles of the stored samples *)
Theorem C19_distinct_insts_spec :
  forall l x, (In x (distinct_insts l []) <-> In x (map s_inst l)) /\ NoDup (distinct_insts l []).
Proof.
  intros l x. split; [rewrite distinct_in; cbn [In]; tauto|apply distinct_nodup; constructor].
Qed.

(* (b),(d) in ANY state: a change that is not accepted — Rejected for any reason, NotAdded
   (ownership / time filter), or an error — leaves the stored samples untouched *)
Theorem C19_not_accepted_not_stored :
  forall r w data k h t rts, snd (add_change r w data k h t rts) <> Added ->
    r_samples (fst (add_change r w data k h t rts)) = r_samples r.
Proof. exact rejected_not_stored. Qed.

(* over every history: each stored sample is one that was accepted (so a rejected sample is
   never stored, nor can it show up later) *)
Theorem C19_stored_was_accepted :
  forall (q : qos) (ops : list op) (s : sample), In s (r_samples (run q ops)) ->
    In (s_data s) (accepted (s_inst s) (run_trace (init_reader q) ops)).
Proof. exact stored_was_accepted. Qed.

(* (c) the reason reported, in the code's priority order samples > instances > per-instance;
   in ANY state *)
Theorem C19_reason_samples :
  forall r w data k h t rts h',
    snd (add_change r w data k h t rts) = Rejected h' 2 <->
    h' = h /\ passes_gates r w k h t rts = true /\ ms_hit r h = true.
Proof. exact rejected2_iff. Qed.
Theorem C19_reason_instances :
  forall r w data k h t rts h',
    snd (add_change r w data k h t rts) = Rejected h' 1 <->
    h' = h /\ passes_gates r w k h t rts = true /\ ms_hit r h = false /\ mi_hit r h = true.
Proof. exact rejected1_iff. Qed.
Theorem C19_reason_samples_per_instance :
  forall r w data k h t rts h',
    snd (add_change r w data k h t rts) = Rejected h' 3 <->
    h' = h /\ passes_gates r w k h t rts = true /\ ms_hit r h = false /\ mi_hit r h = false /\
    mspi_hit r h = true.
Proof. exact rejected3_iff. Qed.
Theorem C19_reason_is_one_of_three :
  forall r w data k h t rts h' c,
    snd (add_change r w data k h t rts) = Rejected h' c -> h' = h /\ (c = 1 \/ c = 2 \/ c = 3).
Proof. exact rejected_reasons. Qed.
(* and nothing is dropped silently: a change that passes the gates is stored unless one of
   the three limits is hit (depth = 0 is the code's "Samples must exist" panic) *)
Theorem C19_accepted_iff :
  forall r w data k h t rts,
    snd (add_change r w data k h t rts) = Added <->
    passes_gates r w k h t rts = true /\ ms_hit r h = false /\ mi_hit r h = false /\ mspi_hit r h = false /\
    ~ (q_depth (r_qos r) = Some 0 /\ count (alive_of_inst h) (r_samples r) = 0).
Proof. exact added_iff. Qed.

(* what the three tests mean: the limit is exactly full and storing the sample would add
   one (it is not a KEEP_LAST replacement / it is a new instance) *)
Theorem C19_samples_hit_means :
  forall r h, ms_hit r h = true <->
    q_ms (r_qos r) = Some (Z.of_nat (length (r_samples r))) /\
    q_depth (r_qos r) <> Some (count (alive_of_inst h) (r_samples r)).
Proof. exact ms_hit_spec. Qed.
Theorem C19_instances_hit_means :
  forall r h, mi_hit r h = true <->
    q_mi (r_qos r) = Some (Z.of_nat (length (distinct_insts (r_samples r) []))) /\
    ~ In h (map s_inst (r_samples r)).
Proof. exact mi_hit_spec. Qed.
Theorem C19_samples_per_instance_hit_means :
  forall r h, mspi_hit r h = true <->
    q_mspi (r_qos r) = Some (count (of_inst h) (r_samples r)) /\
    q_depth (r_qos r) <> Some (count (alive_of_inst h) (r_samples r)).
Proof. exact mspi_hit_spec. Qed.

(* ---- non-vacuity: one history that meets every limit and every rejection reason ---- *)
Definition ex_q : qos := mkQ false None (Some 3) (Some 2) (Some 2) false (Some 0).
Definition ex_ops : list op :=
  [OpAdd 1 1 KAlive (Some 1) 101 10; OpAdd 1 1 KAlive (Some 2) 102 20;
   OpAdd 1 1 KAlive (Some 3) 103 30;   (* per-instance limit *)
   OpAdd 1 2 KAlive (Some 4) 104 40;
   OpAdd 1 3 KAlive (Some 5) 105 50;   (* samples limit has priority over instances limit *)
   OpTake 1 (mkM true true true true true true true) None;
   OpAdd 1 3 KAlive (Some 6) 106 60].  (* instances limit *)
Example C19_nonvacuous :
  limits_nonneg ex_q /\
  snd (run_obs (init_reader ex_q) ex_ops) =
    [ObsAdd Added; ObsAdd Added; ObsAdd (Rejected 1 3); ObsAdd Added; ObsAdd (Rejected 3 2);
     ObsColl (CollOk [mkInfo 101 1 true SNotRead VNew IAlive 0 0 0 0 0 (Some 1) 1]); ObsAdd (Rejected 3 1)] /\
  map s_data (r_samples (run ex_q ex_ops)) = [102; 104] /\
  accepted 1 (run_trace (init_reader ex_q) ex_ops) = [101; 102].
Proof. vm_compute. repeat split; intros; try reflexivity; discriminate. Qed.

Print Assumptions C19_limits_invariant.
Print Assumptions C19_distinct_insts_spec.
Print Assumptions C19_not_accepted_not_stored.
Print Assumptions C19_stored_was_accepted.
Print Assumptions C19_reason_samples.
Print Assumptions C19_reason_instances.
Print Assumptions C19_reason_samples_per_instance.
Print Assumptions C19_reason_is_one_of_three.
Print Assumptions C19_accepted_iff.
Print Assumptions C19_samples_hit_means.
Print Assumptions C19_instances_hit_means.
Print Assumptions C19_samples_per_instance_hit_means.
