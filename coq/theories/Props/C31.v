(* C31 — The DDS worker never oversleeps its periodic duties.
   Property file: statements, `exact`, pins, assumptions.

   Snapshot model (Sched/WorkerModel.v): `ps` = all participants with their readers
   (deadline, last_received_time of every owned instance), writers (deadline,
   last_write_time of every registered instance, lifespan, source timestamps of the history,
   pending write with expiration time), discovered participants (lease, last communication)
   and announcement state; `n` = the six clock readings of one loop iteration;
   next_task_time = the minimum the code computes; requested_delay = what
   `timer.delay(next_task_time.into())` is asked for, in ns. *)
From DustDDS Require Import Base.Machine Time.TimeModel Sched.WorkerModel Sched.WorkerProofs.
Open Scope Z_scope.

(* the minimum itself never exceeds the poke period (for ALL snapshots) *)
Theorem C31_min_le_poke :
  forall ps n, dur_le (next_task_time ps n) poke_time.
Proof. exact next_le_poke. Qed.

(* first clause, outside the recorded class C31-negative-sleep: the worker asks for at most
   50 ms, whatever the entities, deadlines, leases, lifespans, timestamps, clock readings *)
Theorem C31_sleep_le_poke_unless_negative :
  forall ps n, Forall wf_part ps -> wf_nows n -> negative_sleep ps n = false ->
    exists d, requested_delay ps n = Ok d /\ 0 <= d <= POKE_NS.
Proof. exact sleep_le_poke_unless_negative. Qed.

(* the class is exactly "something is overdue": if no deadline / lease / lifespan item is
   overdue at its clock reading, the minimum is not negative and the bound holds *)
Theorem C31_sleep_le_poke_when_nothing_overdue :
  forall ps n, Forall wf_part ps -> wf_nows n -> all_nonneg ps n = true ->
    exists d, requested_delay ps n = Ok d /\ 0 <= d <= POKE_NS.
Proof. exact sleep_le_poke_when_nothing_overdue. Qed.

(* the full statement "for all inputs the delay is <= 50 ms" is FALSE on the code as it is:
   inside the class the delay exceeds 1.8e19 seconds (finding C31-negative-sleep) *)
Theorem C31_negative_sleep_is_huge :
  forall ps n, Forall wf_part ps -> wf_nows n -> negative_sleep ps n = true ->
    exists d, requested_delay ps n = Ok d /\ 18446744071000000000 * NS <= d.
Proof. exact negative_sleep_is_huge. Qed.

Theorem C31_sleep_le_poke_refuted :
  exists ps n d, Forall wf_part ps /\ wf_nows n /\ requested_delay ps n = Ok d /\ POKE_NS < d.
Proof. exact sleep_le_poke_refuted. Qed.

(* second clause: a write that blocks at t0 with max_blocking_time mbt on a worker whose
   loop iterations (`wakes`, in order) are at most one poke period apart is answered Timeout
   by check_pending_writer_sample_timeout no later than t0 + mbt + 50 ms (and not before
   t0 + mbt) *)
Theorem C31_blocked_write_timeout_bound :
  forall t0 mbt wakes, 0 <= mbt -> gaps_le POKE_NS t0 wakes ->
    (exists w, In w wakes /\ t0 + mbt <= w) ->
    exists w, pending_timeout (t0 + mbt) wakes = Some w /\ t0 + mbt <= w <= t0 + mbt + POKE_NS.
Proof. exact blocked_write_timeout_bound. Qed.

(* non-vacuity: the witness snapshot is well-formed and inside the class; a snapshot with a
   deadline that is exactly due is outside *)
Example C31_nonvacuous :
  negative_sleep [witness_part] (same_now (mkdur 10 0)) = true /\
  all_nonneg [mkP true (Some (mkdur 10 0)) (mkdur 5 0) [(mkdur 100 0, mkdur 3 0)]
                [mkR (Some (mkdur 0 100000000)) [mkdur 9 900000000]]
                [mkW (Some (mkdur 0 100000000)) [Some (mkdur 9 950000000)] (Some (mkdur 1 0))
                     [Some (mkdur 9 10000000)] (Some (Some (mkdur 10 20000000)))]]
             (same_now (mkdur 10 0)) = true /\
  pending_timeout (1000 + 120) [1050; 1100; 1150; 1200] = Some 1150.
Proof. repeat split; vm_compute; reflexivity. Qed.

Print Assumptions C31_min_le_poke.
Print Assumptions C31_sleep_le_poke_unless_negative.
Print Assumptions C31_sleep_le_poke_when_nothing_overdue.
Print Assumptions C31_negative_sleep_is_huge.
Print Assumptions C31_sleep_le_poke_refuted.
Print Assumptions C31_blocked_write_timeout_bound.
