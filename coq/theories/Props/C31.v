(* C31 — The DDS worker never oversleeps its periodic duties.
   Property file: statements, `exact`, pins, assumptions.

   Snapshot model (Sched/WorkerModel.v): `ps` = all participants with their readers
   (deadline, last_received_time_stamp of every instance), writers (deadline,
   last_write_time of every registered instance, lifespan, source timestamps of the history,
   pending write with expiration time), discovered participants (lease, last communication)
   and announcement state; `n` = the six clock readings of one loop iteration;
   next_task_time = the minimum the code computes, clamped at zero; requested_delay = what
   `timer.delay(next_task_time.into())` is asked for, in ns. *)
From DustDDS Require Import Base.Machine Time.TimeModel Sched.WorkerModel Sched.WorkerProofs.
Open Scope Z_scope.

(* the sleep never exceeds the poke period and is never negative (for ALL snapshots) *)
Theorem C31_min_le_poke :
  forall ps n, dur_le (next_task_time ps n) poke_time /\ 0 <= sec (next_task_time ps n).
Proof. exact (fun ps n => conj (next_le_poke ps n) (next_nonneg ps n)). Qed.

(* first clause: the worker asks the timer for at most 50 ms (and for a non-negative time),
   whatever the entities, deadlines, leases, lifespans, timestamps — including items that
   are already overdue when the sleep is computed — and whatever the six clock readings *)
Theorem C31_sleep_le_poke :
  forall ps n, Forall wf_part ps -> wf_nows n ->
    exists d, requested_delay ps n = Ok d /\ 0 <= d <= POKE_NS.
Proof. exact sleep_le_poke. Qed.

(* second clause: a write that blocks at t0 with max_blocking_time mbt on a worker whose
   loop iterations (`wakes`, in order) are at most one poke period apart is answered Timeout
   by check_pending_writer_sample_timeout no later than t0 + mbt + 50 ms (and not before
   t0 + mbt) *)
Theorem C31_blocked_write_timeout_bound :
  forall t0 mbt wakes, 0 <= mbt -> gaps_le POKE_NS t0 wakes ->
    (exists w, In w wakes /\ t0 + mbt <= w) ->
    exists w, pending_timeout (t0 + mbt) wakes = Some w /\ t0 + mbt <= w <= t0 + mbt + POKE_NS.
Proof. exact blocked_write_timeout_bound. Qed.

(* non-vacuity: a well-formed snapshot with an instance 2.5 deadline periods behind (the
   former witness of C31-negative-sleep) now yields delay 0; one with items exactly due or
   in the future yields a positive delay below the poke period *)
Example C31_nonvacuous :
  requested_delay [overdue_part] (same_now (mkdur 10 0)) = Ok 0 /\
  requested_delay [mkP true (Some (mkdur 10 0)) (mkdur 5 0) [(mkdur 100 0, mkdur 3 0)]
                [mkR (Some (mkdur 0 100000000)) [mkdur 9 930000000]]
                [mkW (Some (mkdur 0 100000000)) [Some (mkdur 9 950000000)] (Some (mkdur 1 0))
                     [Some (mkdur 9 10000000)] (Some (Some (mkdur 10 20000000)))]]
             (same_now (mkdur 10 0)) = Ok 10000000 /\
  pending_timeout (1000 + 120) [1050; 1100; 1150; 1200] = Some 1150.
Proof. repeat split; vm_compute; reflexivity. Qed.

Print Assumptions C31_min_le_poke.
Print Assumptions C31_sleep_le_poke.
Print Assumptions C31_blocked_write_timeout_bound.
