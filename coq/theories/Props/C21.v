(* C21 — BY_SOURCE_TIMESTAMP readers present samples in source-timestamp order. *)
From Coq Require Import Sorting.Sorted.
From DustDDS Require Import Base.Machine Cache.ReaderModel Cache.C21Proofs.
Open Scope Z_scope.

(* for every QoS with BY_SOURCE_TIMESTAMP and EVERY history of add/read/take/
   next_instance/match/unmatch operations the cache is sorted by source timestamp *)
Theorem C21_cache_sorted :
  forall (q : qos) (ops : list op), q_bysrc q = true ->
    StronglySorted (fun a b => ts_leb (s_ts a) (s_ts b) = true) (r_samples (run q ops)).
Proof. exact sorted_invariant. Qed.

(* hence whatever read/take returns after any history is in non-decreasing
   source-timestamp order (for all instances together, so also per instance) *)
Theorem C21_presented_sorted :
  forall q ops max m hsel take l, q_bysrc q = true ->
    snd (collect (run q ops) max m hsel take) = CollOk l ->
    StronglySorted (fun a b => ts_leb (f_ts a) (f_ts b) = true) l.
Proof. exact presented_sorted. Qed.

Example C21_nonvacuous :
  let q := mkQ true None None None None false (Some 0) in
  map s_data (r_samples (run q [OpAdd 1 1 KAlive (Some 2) 100 10; OpAdd 1 1 KAlive (Some 1) 101 20;
                                OpAdd 2 1 KAlive (Some 2) 102 30; OpAdd 1 1 KAlive None 103 40]))
  = [103; 101; 100; 102].
Proof. vm_compute. reflexivity. Qed.

Print Assumptions C21_cache_sorted.
Print Assumptions C21_presented_sorted.
