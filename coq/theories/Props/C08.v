(* C08 — RTPS messages round-trip through their wire encoding.
   Property file: statements over the definitions of Wire/WireModel.v, `exact`, assumptions.
     encode_umessage e h subs  RtpsMessageWrite::new on submessages built with the public
                               constructors (sets from base + members through new());
                               e = true is the little-endian layout dust-dds writes,
                               e = false the big-endian layout of the same message
     parse_observe bytes       RtpsMessageRead::try_from, every submessage read through its accessors
     canon_sub                 identity except: set members ordered, parameter values padded to 4,
                               fields excluded by flags come back as defaults
     wf_subb / wf_hdrb         the bounds of the Rust types (array sizes, i32/u32/i64/u16 ranges),
                               set members within base..base+255, SequenceNumberSet members < i64::MAX
                               (i64::MAX is not a usable sequence number: set() ends there since
                               6f37365), parameter id <> PID_SENTINEL
     C08_known_len             a submessage body or a padded parameter longer than 65535 bytes
   (INFO_REPLY with the multicast flag round-trips since the repair 4006ca4; no class left for it) *)
From DustDDS Require Import Base.Machine Base.Bytes Wire.WireModel Wire.WireProofs Wire.WireRoundProofs.
Open Scope Z_scope.

(* full statement: all 12 submessage kinds, any number of submessages up to MAX_SUBMESSAGES,
   both endiannesses, every length field exact *)
Theorem C08_message_roundtrip : forall e h subs,
  wf_hdrb h = true -> forallb wf_subb subs = true -> len subs <= 65536 ->
  existsb C08_known_len subs = false ->
  exists bytes,
    encode_umessage e h subs = Ok bytes /\
    parse_observe bytes = Ok (h, map (fun s => Ok (canon_sub s)) subs) /\
    lengths_exact e (map sub_id subs) (skipn 20 bytes) = true.
Proof. exact message_roundtrip. Qed.

(* the unconditional version is false: 16-bit length truncation (finding C08-length-truncation) *)
Theorem C08_roundtrip_refuted_big :
  wf_hdrb h0 = true /\ forallb wf_subb [big_data; hb] = true /\ C08_known_len big_data = true /\
  encode_umessage true h0 [big_data; hb] = Ok big_bytes /\
  parse_observe big_bytes <> Ok (h0, map (fun s => Ok (canon_sub s)) [big_data; hb]) /\
  lengths_exact true (map sub_id [big_data; hb]) (skipn 20 big_bytes) = false.
Proof. exact roundtrip_refuted_big. Qed.

(* the integer codecs in both endiannesses, and sequence numbers over the full i64 range *)
Theorem C08_int_codec : forall e n x, dec_int e (enc_int e n x) = x mod 256 ^ Z.of_nat n.
Proof. exact dec_enc_int. Qed.

Theorem C08_sequence_number_full_range : forall e x rest, in_i64 x ->
  fst (read_sn e (enc_sn e x ++ rest)) = Ok (x, rest).
Proof. exact (fun e x rest H => rd_sn e x H rest). Qed.

(* SequenceNumberSet / FragmentNumberSet: new() on any valid member list never panics and the
   set() iterator of the result lists exactly the canonical members *)
Theorem C08_sequence_number_set_new : forall s, valid_snsetb s = true ->
  exists x, snset_new (ns_base s) (ns_members s) = Ok x /\ ss_base x = ns_base s /\
            snset_members x = Ok (canon_members (ns_members s)).
Proof. intros s H; destruct (snset_new_valid s H) as (x & A & _ & B & C); exists x; auto. Qed.

Theorem C08_fragment_number_set_new : forall s, valid_fnsetb s = true ->
  exists x, fnset_new (ns_base s) (ns_members s) = Ok x /\ fs_base x = ns_base s /\
            fnset_members x = Ok (canon_members (ns_members s)).
Proof. intros s H; destruct (fnset_new_valid s H) as (x & A & _ & B & C); exists x; auto. Qed.

(* non-vacuity: a concrete message with sets, inline QoS, payload and an INFO_REPLY with the
   multicast flag (regression of 4006ca4) meets the hypotheses *)
Example C08_nonvacuous :
  let subs : list usub :=
    [InfoTs false 4 5;
     Data true true false false [1;2;3;4] [6;7;8;9] 9223372036854775807 [mk_param 112 [10;11;12]] [170;187;204];
     AckNack true [1;2;3;4] [6;7;8;9] (mk_nset (-9223372036854775808) [-9223372036854775808; -9223372036854775553]) (-3);
     NackFrag [1;2;3;4] [6;7;8;9] 7 (mk_nset 4294967040 [4294967295; 4294967040]) 1;
     reply_m] in
  wf_hdrb h0 = true /\ forallb wf_subb subs = true /\
  existsb C08_known_len subs = false /\
  is_ok (encode_umessage false h0 subs) = true.
Proof.
  cbv zeta. split; [vm_compute; reflexivity|]. split; [vm_compute; reflexivity|].
  split; [vm_compute; reflexivity|].
  vm_compute; reflexivity.
Qed.

Print Assumptions C08_message_roundtrip.
Print Assumptions C08_roundtrip_refuted_big.
Print Assumptions C08_int_codec.
Print Assumptions C08_sequence_number_full_range.
Print Assumptions C08_sequence_number_set_new.
Print Assumptions C08_fragment_number_set_new.
