(* C04 — Durability: late TRANSIENT_LOCAL readers get history, VOLATILE readers do not.
   Model: Proto/RelModel.v.  AMatch rel tl = the data reader (RELIABLE iff rel, TRANSIENT_LOCAL iff tl)
   is created and discovery completes: add_matched_reader computes the proxy's first relevant sample. *)
From DustDDS Require Import Base.Machine Proto.RelModel Proto.RelProofs Proto.RelSoundG Proto.RelLive Proto.RelLiveH Proto.RelWitness.
Open Scope Z_scope.

(* A VOLATILE reader - RELIABLE or BEST_EFFORT - never presents a sample that was written before it was
   matched: for every schedule before the match and every schedule after it (all faults, all history QoS).
   (The BEST_EFFORT half is former finding C04-volatile-besteffort-history, repaired by 0faf897.) *)
Theorem C04_volatile_no_history :
  forall cf rel before after,
    let s1 := run cf init before in
    s_rd s1 = None -> s_rp s1 = None -> s_rdead s1 = false -> rxo_ok cf rel false = true ->
    let s := run cf init (before ++ AMatch rel false :: after) in
    forall c, In c (s_log s1) -> ~ In c (presented s).
Proof. exact volatile_no_history. Qed.

(* The boundary "written just before / just after matching": the new proxy's first relevant sample is
   0 for a TRANSIENT_LOCAL reader and the highest held sequence number for a VOLATILE one; every
   change held at that moment is at or below it, everything written before has a sequence number
   <= last_change_sequence_number, every sample written afterwards has a larger one: a sample is
   classified by its sequence number only. *)
Theorem C04_match_boundary :
  forall cf before rel tl,
    let s1 := run cf init before in
    s_rd s1 = None -> s_rp s1 = None -> s_rdead s1 = false -> rxo_ok cf rel tl = true ->
    let s2 := fst (step cf s1 (AMatch rel tl)) in
    exists p, s_rp s2 = Some p /\ rp_rel p = rel /\
      rp_fr p = (if tl then 0 else last_sn (s_changes s1)) /\
      rp_fr p <= s_last s1 /\
      (tl = false -> forall c, In c (s_changes s1) -> c_sn c <= rp_fr p) /\
      (forall c, In c (s_log s1) -> c_sn c <= s_last s1) /\
      (forall after c, In c (s_log (run cf s2 after)) -> ~ In c (s_log s1) -> s_last s1 < c_sn c).
Proof. exact match_boundary. Qed.

(* HISTORY is never skipped, unbounded, every history QoS (retained histories with holes included): when the
   test of wait_for_historical_data succeeds for a RELIABLE reader (a HEARTBEAT was received and nothing it
   announced is missing), every retained relevant change up to the announced last sequence number has been
   presented.  (Former finding C04-gap-skip-history, repaired by 91937ff.) *)
Theorem C04_wait_for_historical_data_sound :
  forall cf sched,
    let s := run cf init sched in
    forall p r w, s_rp s = Some p -> rp_rel p = true -> s_rd s = Some r -> rd_wp r = Some w ->
      hist_received (rd_wp r) = true ->
      forall c, In c (s_changes s) -> rp_fr p < c_sn c -> c_sn c <= wp_la w -> In c (rd_pres r).
Proof. exact wfh_sound. Qed.

(* HISTORY is eventually complete, the proved part: ANY history QoS (retained histories with holes included:
   KEEP_LAST(d) with any number of instances), unfragmented samples, no explicit removal, no deletion, at most 256
   samples: after any such schedule (lossy catch-up included) and k + 1 healing rounds, when nothing is queued any
   more, a RELIABLE TRANSIENT_LOCAL reader - late or not - has been given EVERY change the writer retains.
   `_partial`: fragmented samples are not covered by the theorem. *)
Theorem C04_transient_local_history_partial :
  forall cf sched k,
    0 < fsz cf -> forallb (live_act cf) sched = true ->
    let s := run cf init (sched ++ heal (S k)) in
    s_last s <= 256 -> s_net s = [] ->
    forall p r w, s_rp s = Some p -> rp_rel p = true -> rp_tl p = true -> s_rd s = Some r -> rd_wp r = Some w ->
      forall c, In c (s_changes s) -> In c (rd_pres r).
Proof. exact transient_local_history_holes. Qed.

(* the schedule that exposed the GAP skip, on the repaired code: retained history {1,3} (KEEP_LAST(1), two
   instances), DATA(1) lost: wait_for_historical_data stays pending until 1 and 3 have been presented *)
Theorem C04_gap_skip_repaired :
  let s0 := run cf_gap init sched_gap in
  let s := run cf_gap s0 (heal 1) in
  s_changes s0 = [mkCh 1 1 24 11; mkCh 3 2 24 33] /\
  presented s0 = [] /\ ackd s0 = false /\
  snd (step cf_gap s0 AWfhPoll) = OPoll [1] /\ snd (step cf_gap s0 AWfaPoll) = OPoll [1] /\
  presented s = [mkCh 1 1 24 11; mkCh 3 2 24 33] /\
  s_net s = [] /\ ackd s = true /\
  snd (step cf_gap s AWfhPoll) = OPoll [0] /\ snd (step cf_gap s AWfaPoll) = OPoll [0].
Proof. exact gap_skip_repaired. Qed.

(* the schedule that exposed C04-volatile-besteffort-history, on the repaired code *)
Theorem C04_volatile_best_effort_repaired :
  let before := [AWrite 1 24 11; AWrite 1 24 22] in
  let s := run cf_plain init (before ++ [AMatch false false; APump; AWrite 1 24 33; APump]) in
  s_changes s = [mkCh 1 1 24 11; mkCh 2 1 24 22; mkCh 3 1 24 33] /\ presented s = [mkCh 3 1 24 33] /\ s_net s = [].
Proof. exact volatile_best_effort_repaired. Qed.

(* non-vacuity: KEEP_LAST(2), one instance: a late TRANSIENT_LOCAL reader gets the two retained samples
   despite a lost DATA, and wait_for_historical_data completes *)
Example C04_nonvacuous_history :
  let s := run (mkCfg 1344 true true 2) init
             ([AWrite 1 24 11; AWrite 1 24 22; AWrite 1 24 33; AMatch true true; AWfh; ADrop 1] ++ heal 2) in
  s_changes s = [mkCh 2 1 24 22; mkCh 3 1 24 33] /\ presented s = s_changes s /\
  snd (step (mkCfg 1344 true true 2) s AWfhPoll) = OPoll [0].
Proof. exact heal_example_history. Qed.

(* the schedule that exposed C04-besteffort-hole-skips-sample, on the repaired code (d974049): KEEP_LAST(1), keys
   1,2,2: the writer holds {1,3}; a late BEST_EFFORT TRANSIENT_LOCAL reader is sent DATA(1), GAP(2) and DATA(3) *)
Example C04_best_effort_hole_repaired :
  let s := run cf_gap init [AWrite 1 24 11; AWrite 2 24 22; AWrite 2 24 33; AMatch false true; APump] in
  s_changes s = [mkCh 1 1 24 11; mkCh 3 2 24 33] /\ presented s = [mkCh 1 1 24 11; mkCh 3 2 24 33] /\ s_net s = [].
Proof. exact best_effort_hole_repaired. Qed.

Print Assumptions C04_volatile_no_history.
Print Assumptions C04_match_boundary.
Print Assumptions C04_wait_for_historical_data_sound.
Print Assumptions C04_transient_local_history_partial.
Print Assumptions C04_gap_skip_repaired.
Print Assumptions C04_volatile_best_effort_repaired.
