(* C04 — Durability: late TRANSIENT_LOCAL readers get history, VOLATILE readers do not.
   Model: Proto/RelModel.v.  AMatch rel tl = the data reader (RELIABLE iff rel, TRANSIENT_LOCAL iff tl)
   is created and discovery completes: add_matched_reader computes the proxy's first relevant sample. *)
From DustDDS Require Import Base.Machine Proto.RelModel Proto.RelProofs Proto.RelLive Proto.RelWitness.
Open Scope Z_scope.

(* A RELIABLE VOLATILE reader never presents a sample that was written before it was matched: for
   every schedule before the match and every schedule after it (all faults, all history QoS). *)
Theorem C04_volatile_no_history_reliable :
  forall cf before after,
    let s1 := run cf init before in
    s_rd s1 = None -> s_rp s1 = None -> s_rdead s1 = false -> w_rel cf = true ->
    let s := run cf init (before ++ AMatch true false :: after) in
    forall c, In c (s_log s1) -> ~ In c (presented s).
Proof. exact volatile_no_history_reliable. Qed.

(* The same statement for every reliability kind is FALSE on the faithful model (known finding
   C04-volatile-besteffort-history): write_message_best_effort does not look at
   first_relevant_sample_seq_num, a BEST_EFFORT VOLATILE late joiner is sent the retained history. *)
Definition C04_volatile_no_history_statement : Prop :=
  forall cf before rel after,
    let s1 := run cf init before in
    s_rd s1 = None -> s_rp s1 = None ->
    let s := run cf init (before ++ AMatch rel false :: after) in
    forall c, In c (s_log s1) -> ~ In c (presented s).
Theorem C04_volatile_no_history_refuted_best_effort : ~ C04_volatile_no_history_statement.
Proof. exact volatile_no_history_full_refuted. Qed.

(* The boundary "written just before / just after matching": the new proxy's first relevant sample is
   0 for a TRANSIENT_LOCAL reader and the highest held sequence number for a VOLATILE one; every
   change held at that moment is at or below it, everything written before has a sequence number
   <= last_change_sequence_number, every sample written afterwards has a larger one: a sample is
   classified by its sequence number only. *)
Theorem C04_match_boundary :
  forall cf before rel tl,
    let s1 := run cf init before in
    s_rd s1 = None -> s_rp s1 = None -> s_rdead s1 = false -> rxo_ok cf rel tl = true ->
    let s2 := fst (step cf s1 (AMatch rel tl)) in
    exists p, s_rp s2 = Some p /\ rp_rel p = rel /\
      rp_fr p = (if tl then 0 else last_sn (s_changes s1)) /\
      rp_fr p <= s_last s1 /\
      (tl = false -> forall c, In c (s_changes s1) -> c_sn c <= rp_fr p) /\
      (forall c, In c (s_log s1) -> c_sn c <= s_last s1) /\
      (forall after c, In c (s_log (run cf s2 after)) -> ~ In c (s_log s1) -> s_last s1 < c_sn c).
Proof. exact match_boundary. Qed.

(* HISTORY at full strength — after the healing rounds a reliable TRANSIENT_LOCAL late joiner has been
   given everything the writer retains — is the liveness statement of C01 and is FALSE for a retained
   history with holes (known finding C04-gap-skip-history, same witness): history {1,3}, DATA(1) lost:
   sample 1 is never delivered and wait_for_historical_data completes nevertheless *)
Definition C04_transient_local_history_statement : Prop :=
  forall cf sched k, (rounds_needed sched <= k)%nat -> delivered (run cf init (sched ++ heal k)).
Theorem C04_transient_local_history_refuted_gap_skip : ~ C04_transient_local_history_statement.
Proof. exact reliable_liveness_full_refuted. Qed.
(* HISTORY, the proved part (stage 1): KEEP_ALL writer, unfragmented samples, no removal, no deletion, at
   most 256 samples: after any such schedule (lossy catch-up included) and k + 1 healing rounds, when nothing
   is queued any more, a RELIABLE TRANSIENT_LOCAL reader - late or not - has been given EVERY change the
   writer retains *)
Theorem C04_transient_local_history_partial :
  forall cf sched k,
    0 < fsz cf -> depth cf = 0 -> forallb (live_act cf) sched = true ->
    let s := run cf init (sched ++ heal (S k)) in
    s_last s <= 256 -> s_net s = [] ->
    forall p r w, s_rp s = Some p -> rp_rel p = true -> rp_tl p = true -> s_rd s = Some r -> rd_wp r = Some w ->
      forall c, In c (s_changes s) -> In c (rd_pres r).
Proof. exact transient_local_history_unfragmented. Qed.

Theorem C04_gap_skip_witness :
  let s := run cf_gap init sched_gap in
  s_changes s = [mkCh 1 1 24 11; mkCh 3 2 24 33] /\ presented s = [mkCh 3 2 24 33] /\ s_net s = [] /\
  is_acked (s_rp s) (s_last s) = true /\ snd (step cf_gap s AWfhPoll) = OPoll [0].
Proof. exact gap_skip_witness. Qed.

Theorem C04_volatile_best_effort_witness :
  let before := [AWrite 1 24 11; AWrite 1 24 22] in
  let s := run cf_plain init (before ++ [AMatch false false; APump]) in
  presented s = s_log (run cf_plain init before) /\ presented s = [mkCh 1 1 24 11; mkCh 2 1 24 22].
Proof. exact volatile_best_effort_witness. Qed.

(* non-vacuity: KEEP_LAST(2), one instance: a late TRANSIENT_LOCAL reader gets the two retained samples
   despite a lost DATA, and wait_for_historical_data completes *)
Example C04_nonvacuous_history :
  let s := run (mkCfg 1344 true true 2) init
             ([AWrite 1 24 11; AWrite 1 24 22; AWrite 1 24 33; AMatch true true; AWfh; ADrop 1] ++ heal 2) in
  s_changes s = [mkCh 2 1 24 22; mkCh 3 1 24 33] /\ presented s = s_changes s /\
  snd (step (mkCfg 1344 true true 2) s AWfhPoll) = OPoll [0].
Proof. exact heal_example_history. Qed.

Print Assumptions C04_volatile_no_history_reliable.
Print Assumptions C04_volatile_no_history_refuted_best_effort.
Print Assumptions C04_match_boundary.
Print Assumptions C04_transient_local_history_refuted_gap_skip.
Print Assumptions C04_transient_local_history_partial.
Print Assumptions C04_gap_skip_witness.
Print Assumptions C04_volatile_best_effort_witness.
