(* C14 — Timestamps and durations survive wire conversion exactly; arithmetic is
   normalized and monotone.  Property file: statements, `exact`, pins, assumptions. *)
From DustDDS Require Import Base.Machine Time.TimeModel Time.TimeProofs.
Open Scope Z_scope.

Theorem C14_roundtrip_duration :
  forall d, normalized d -> dds_of_rtps_duration (rtps_of_dds_duration d) = d.
Proof. exact roundtrip_duration. Qed.

Theorem C14_roundtrip_rtpstime :
  forall d, normalized d -> dds_duration_of_rtpstime (rtpstime_of_dds_duration d) = d.
Proof. exact roundtrip_rtpstime. Qed.

Theorem C14_roundtrip_source_timestamp :
  forall t, normalized t -> timestamp_roundtrip t = Ok t.
Proof. exact roundtrip_timestamp. Qed.

Theorem C14_fraction_fits_u32 :
  forall n, 0 <= n < NS -> 0 <= (n * two32 + 999999999) / NS < two32.
Proof. exact n2f_fits. Qed.

Theorem C14_wire_fraction_gives_normalized :
  forall f, in_u32 f -> 0 <= fraction_to_nanosec f < NS.
Proof. exact f2n_normalized. Qed.

Theorem C14_new_normalized : forall s n, in_u32 n -> normalized (dur_new s n).
Proof. exact new_normalized. Qed.

Theorem C14_add_normalized :
  forall a b, normalized a -> normalized b -> normalized (dur_add a b).
Proof. exact add_normalized. Qed.

Theorem C14_sub_normalized :
  forall a b, normalized a -> normalized b -> normalized (dur_sub a b).
Proof. exact sub_normalized. Qed.

Theorem C14_time_sub_normalized :
  forall a b, wf_dur a -> wf_dur b -> normalized (time_sub a b).
Proof. exact time_sub_normalized. Qed.

(* monotone wherever the i32 seconds do not clamp; inside the clamping class the
   statement is false (next theorem) — recorded finding C14-saturation *)
Theorem C14_add_monotone_unless_saturating :
  forall a b c, normalized a -> normalized b -> normalized c ->
    add_saturates a c = false -> add_saturates b c = false ->
    dur_le a b -> dur_le (dur_add a c) (dur_add b c).
Proof. exact add_monotone. Qed.

Theorem C14_sub_monotone_unless_saturating :
  forall a b c, normalized a -> normalized b -> normalized c ->
    sub_saturates a c = false -> sub_saturates b c = false ->
    dur_le a b -> dur_le (dur_sub a c) (dur_sub b c).
Proof. exact sub_monotone. Qed.

Theorem C14_saturation_class_refutes_monotone :
  exists a b c, normalized a /\ normalized b /\ normalized c /\
    add_saturates b c = true /\ dur_le a b /\ ~ dur_le (dur_add a c) (dur_add b c).
Proof. exact add_monotone_refuted_when_saturating. Qed.

Theorem C14_oracle_sound :
  (forall a b, oracle_roundtrip a b = true <-> a = b) /\
  (forall d, oracle_normalized_out d = true <-> normalized d).
Proof. exact (conj dur_eqb_eq normalizedb_true). Qed.

(* non-vacuity: a concrete non-trivial value meets the hypotheses *)
Example C14_nonvacuous :
  normalized (mkdur 1700000000 999999999) /\
  timestamp_roundtrip (mkdur 1700000000 999999999) = Ok (mkdur 1700000000 999999999).
Proof. split; [unfold normalized, in_i32, i32_min, i32_max, NS; cbn; lia | reflexivity]. Qed.

Print Assumptions C14_roundtrip_duration.
Print Assumptions C14_roundtrip_rtpstime.
Print Assumptions C14_roundtrip_source_timestamp.
Print Assumptions C14_fraction_fits_u32.
Print Assumptions C14_wire_fraction_gives_normalized.
Print Assumptions C14_new_normalized.
Print Assumptions C14_add_normalized.
Print Assumptions C14_sub_normalized.
Print Assumptions C14_time_sub_normalized.
Print Assumptions C14_add_monotone_unless_saturating.
Print Assumptions C14_sub_monotone_unless_saturating.
Print Assumptions C14_saturation_class_refutes_monotone.
Print Assumptions C14_oracle_sound.
