(* C25 — Time-based filter drops samples closer than minimum_separation.

   Vocabulary (Cache/C25Proofs.v):
     in_order r ops   every OpAdd of the history carries a source timestamp not earlier than
                      any sample of its instance that is in the cache when it arrives
                      (Option<Time> order, None first)            -- complement of class 1
     ts_monotone ops  the same on the input alone: per instance the source timestamps of the
                      adds are non-decreasing
     is_take o        o is take or take_next_instance; with KEEP_ALL (q_depth = None) and no
                      take nothing ever leaves the cache            -- complement of class 2
     coll_of x        the collection returned by an operation (NoData for adds etc.)
   None of the theorems needs minimum_separation > 0 (for s <= 0 they hold trivially). *)
From DustDDS Require Import Base.Machine Cache.ReaderModel Cache.C22Proofs Cache.C25Proofs.
Open Scope Z_scope.

(* For every QoS with minimum_separation = s and every history that arrives in order, no two
   samples of one instance in the cache have source timestamps closer than s. *)
Theorem C25_stored_separated :
  forall (q : qos) (ops : list op) (s : Z),
    q_sep q = Some s -> in_order (init_reader q) ops ->
    ForallOrdPairs (fun a b => s_inst a = s_inst b ->
                      forall x y, s_ts a = Some x -> s_ts b = Some y -> s <= Z.abs (x - y))
                   (r_samples (run q ops)).
Proof. exact stored_separated. Qed.

Theorem C25_stored_separated_monotone :
  forall (q : qos) (ops : list op) (s : Z),
    q_sep q = Some s -> ts_monotone ops ->
    ForallOrdPairs (fun a b => s_inst a = s_inst b ->
                      forall x y, s_ts a = Some x -> s_ts b = Some y -> s <= Z.abs (x - y))
                   (r_samples (run q ops)).
Proof. exact stored_separated_monotone. Qed.

(* hence every collection that read / take / read_next_instance / take_next_instance returns
   after such a history is separated *)
Theorem C25_presented_separated :
  forall (q : qos) (ops : list op) (o : op) (s : Z) (l : list info),
    q_sep q = Some s -> in_order (init_reader q) ops ->
    coll_of (snd (step (run q ops) o)) = CollOk l ->
    ForallOrdPairs (fun a b => f_inst a = f_inst b ->
                      forall x y, f_ts a = Some x -> f_ts b = Some y -> s <= Z.abs (x - y)) l.
Proof. exact presented_separated. Qed.

(* and with KEEP_ALL and no take, whatever ANY read during the history returned is still a
   sample of the final cache (same instance, timestamp, payload): together with
   C25_stored_separated, any two different samples ever presented are separated *)
Theorem C25_presented_are_stored :
  forall (q : qos) (ops1 : list op) (o : op) (ops2 : list op) (l : list info) (x : info),
    q_depth q = None -> forallb (fun o => negb (is_take o)) (ops1 ++ o :: ops2) = true ->
    coll_of (snd (step (run q ops1) o)) = CollOk l -> In x l ->
    exists y, In y (r_samples (run q (ops1 ++ o :: ops2))) /\
              s_inst y = f_inst x /\ s_ts y = f_ts x /\ s_data y = f_data x.
Proof. exact presented_are_stored. Qed.

(* no over-filtering: in ANY reader state a sample at least s after every stored sample of its
   instance is accepted by the filter, so (SHARED ownership) it is not answered NotAdded *)
Theorem C25_no_over_filtering :
  forall r w data k h t0 rts s,
    q_sep (r_qos r) = Some s -> q_excl (r_qos r) = false ->
    (forall x a, In x (r_samples r) -> s_inst x = h -> s_ts x = Some a -> a + s <= t0) ->
    of_interest r h (Some t0) = true /\
    snd (add_change r w data k h (Some t0) rts) <> NotAdded.
Proof. exact no_over_filtering_both. Qed.

(* the filter does drop: a sample less than s after a stored sample of its instance (and not
   earlier than it) is not stored *)
Theorem C25_filter_drops :
  forall r w data k h t0 rts s x a,
    q_sep (r_qos r) = Some s ->
    In x (r_samples r) -> s_inst x = h -> s_ts x = Some a -> a <= t0 < a + s ->
    (snd (add_change r w data k h (Some t0) rts) = NotAdded \/
     snd (add_change r w data k h (Some t0) rts) = AddError) /\
    r_samples (fst (add_change r w data k h (Some t0) rts)) = r_samples r.
Proof. exact filter_drops. Qed.

(* recorded deviations: minimum_separation 8 *)
Theorem C25_class1_out_of_order_witness :
  let q := mkQ false None None None None false (Some 8) in
  let mAll := mkM true true true true true true true in
  let ops := [OpAdd 1 1 KAlive (Some 10) 100 10; OpAdd 1 1 KAlive (Some 5) 101 20] in
  snd (run_obs (init_reader q) ops) = [ObsAdd Added; ObsAdd Added] /\
  map (fun x => (f_inst x, f_ts x)) (infos_of (snd (collect (run q ops) 10 mAll None false)))
    = [(1, Some 10); (1, Some 5)] /\
  ~ in_order (init_reader q) ops.
Proof. exact class1_witness. Qed.

Theorem C25_class2_forgotten_witness :
  let q := mkQ false None None None None false (Some 8) in
  let mAll := mkM true true true true true true true in
  let ops1 := [OpAdd 1 1 KAlive (Some 10) 100 10] in
  let ops2 := [OpTake 10 mAll None; OpAdd 1 1 KAlive (Some 12) 101 20] in
  map (fun x => (f_inst x, f_ts x)) (infos_of (snd (collect (run q ops1) 10 mAll None true)))
    = [(1, Some 10)] /\
  snd (run_obs (init_reader q) (ops1 ++ ops2)) =
    [ObsAdd Added; ObsColl (snd (collect (run q ops1) 10 mAll None true)); ObsAdd Added] /\
  map (fun x => (f_inst x, f_ts x)) (infos_of (snd (collect (run q (ops1 ++ ops2)) 10 mAll None false)))
    = [(1, Some 12)] /\
  in_order (init_reader q) (ops1 ++ ops2).
Proof. exact class2_witness. Qed.

(* non-vacuity: an in-order history in which the filter drops the middle sample *)
Example C25_nonvacuous :
  let q := mkQ false None None None None false (Some 8) in
  let ops := [OpAdd 1 1 KAlive (Some 10) 100 10; OpAdd 1 1 KAlive (Some 17) 101 20;
              OpAdd 1 2 KAlive (Some 17) 102 25; OpAdd 1 1 KAlive (Some 18) 103 30] in
  ts_monotone ops /\ forallb (fun o => negb (is_take o)) ops = true /\
  snd (run_obs (init_reader q) ops) = [ObsAdd Added; ObsAdd NotAdded; ObsAdd Added; ObsAdd Added] /\
  map s_data (r_samples (run q ops)) = [100; 102; 103].
Proof. exact nonvacuous. Qed.

Print Assumptions C25_stored_separated.
Print Assumptions C25_stored_separated_monotone.
Print Assumptions C25_presented_separated.
Print Assumptions C25_presented_are_stored.
Print Assumptions C25_no_over_filtering.
Print Assumptions C25_filter_drops.
Print Assumptions C25_class1_out_of_order_witness.
Print Assumptions C25_class2_forgotten_witness.
