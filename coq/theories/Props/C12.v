(* C12 — Key hash on the wire follows DDS-XTypes 7.6.8: the big-endian XCDR serialization
   of the key members, zero-padded to 16 bytes when the key's maximum serialized size is
   at most 16 bytes, its MD5 digest otherwise.
   Property file: statements, `exact`, non-vacuity, assumptions.

   Vocabulary (KeyHash/KeyModel.v): `instance_handle t d` is what the code computes (it
   is both the handle and the PID_KEY_HASH value); `key_bytes t d` the big-endian XCDR1
   serialization of the key holder; `key_max_le16 t`: the maximum serialized size of the
   key of type t is at most 16 bytes (max_end); `spec_handle t d` the value 7.6.8
   prescribes; `short_of_long t d`: the key type can pass 16 bytes but this sample's
   serialized key is at most 16 bytes long. *)
From DustDDS Require Import Base.Machine KeyHash.Md5Model KeyHash.KeyModel KeyHash.KeyProofs
  KeyHash.KeyMainProofs KeyHash.KeyMaxProofs.
Open Scope Z_scope.

(* what the rule says, spelled out *)
Theorem C12_spec_handle_is_the_7_6_8_rule :
  forall t d, spec_handle t d =
    match key_bytes t d with
    | Ok b => Ok (if key_max_le16 t then b ++ zeros (16 - len b) else md5 b)
    | Err c => Err c
    | Panic s => Panic s
    end.
Proof. intros. unfold spec_handle. destruct (key_bytes t d); reflexivity. Qed.

(* the maximum-size computation is an upper bound of every well-formed key *)
Theorem C12_max_size_bounds_every_key :
  forall t d b, key_type_ok t = true -> key_ok t d = true ->
    key_max_le16 t = true -> key_bytes t d = Ok b -> len b <= 16.
Proof. exact key_max_le16_sound'. Qed.

(* the handle follows 7.6.8 outside the class where the actual length and the maximum
   length fall on different sides of 16 *)
Theorem C12_handle_follows_rule_outside_short_of_long :
  forall t d, key_type_ok t = true -> key_ok t d = true ->
    short_of_long t d = false -> instance_handle t d = spec_handle t d.
Proof. exact spec_handle_outside_class'. Qed.

(* inside that class the rule is violated: struct { @key string name } with name = "ab" is
   zero-padded instead of hashed (recorded finding C12-actual-length) *)
Theorem C12_short_of_long_class_refutes_rule :
  exists t d, key_type_ok t = true /\ key_ids_unique t = true /\ key_ok t d = true /\
    short_of_long t d = true /\
    instance_handle t d = Ok [0;0;0;3;97;98;0;0;0;0;0;0;0;0;0;0] /\
    instance_handle t d <> spec_handle t d.
Proof. exact spec_handle_refuted. Qed.

(* MD5 in Coq against RFC 1321 A.5 ("abc" and the 80-digit string: two blocks) *)
Theorem C12_md5_rfc1321_vectors :
  md5 [97; 98; 99] = [144; 1; 80; 152; 60; 210; 79; 176; 214; 150; 63; 125; 40; 225; 127; 114] /\
  md5 [49;50;51;52;53;54;55;56;57;48;49;50;51;52;53;54;55;56;57;48;49;50;51;52;53;54;55;56;57;48;
       49;50;51;52;53;54;55;56;57;48;49;50;51;52;53;54;55;56;57;48;49;50;51;52;53;54;55;56;57;48;
       49;50;51;52;53;54;55;56;57;48;49;50;51;52;53;54;55;56;57;48] =
  [87; 237; 244; 162; 43; 227; 201; 85; 172; 73; 218; 46; 33; 7; 182; 122].
Proof. exact (conj md5_rfc_3 md5_rfc_7). Qed.

(* non-vacuity: { @key u32, @key u64 } has maximum size 16 and is zero padded; with a third
   key member u8 the maximum is 17 and the key is hashed; both follow the rule *)
Definition ex_t16 : ty :=
  TStruct Final (MCons 0 true false (TPrim PU32) (MCons 1 true false (TPrim PU64) MNil)).
Definition ex_t17 : ty :=
  TStruct Final (MCons 0 true false (TPrim PU32) (MCons 1 true false (TPrim PU64)
                (MCons 2 true false (TPrim PU8) MNil))).
Definition ex_d16 : fields := FCons 0 (VPrim SU32 1) (FCons 1 (VPrim SU64 2) FNil).
Definition ex_d17 : fields := FCons 0 (VPrim SU32 1) (FCons 1 (VPrim SU64 2) (FCons 2 (VPrim SU8 3) FNil)).

Example C12_nonvacuous :
  key_type_ok ex_t16 = true /\ key_ids_unique ex_t16 = true /\ key_ok ex_t16 ex_d16 = true /\
  key_max_le16 ex_t16 = true /\ short_of_long ex_t16 ex_d16 = false /\
  instance_handle ex_t16 ex_d16 = Ok [0;0;0;1;0;0;0;0;0;0;0;0;0;0;0;2] /\
  key_type_ok ex_t17 = true /\ key_ok ex_t17 ex_d17 = true /\
  key_max_le16 ex_t17 = false /\ short_of_long ex_t17 ex_d17 = false /\
  key_bytes ex_t17 ex_d17 = Ok [0;0;0;1;0;0;0;0;0;0;0;0;0;0;0;2;3] /\
  instance_handle ex_t17 ex_d17 = Ok (md5 [0;0;0;1;0;0;0;0;0;0;0;0;0;0;0;2;3]).
Proof. repeat (match goal with |- _ /\ _ => split end); vm_compute; reflexivity. Qed.

Print Assumptions C12_spec_handle_is_the_7_6_8_rule.
Print Assumptions C12_max_size_bounds_every_key.
Print Assumptions C12_handle_follows_rule_outside_short_of_long.
Print Assumptions C12_short_of_long_class_refutes_rule.
Print Assumptions C12_md5_rfc1321_vectors.
