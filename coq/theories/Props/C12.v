(* C12 — Key hash on the wire follows DDS-XTypes 7.6.8.
   Property file: statements, `exact`, non-vacuity, assumptions. *)
From DustDDS Require Import Base.Machine KeyHash.Md5Model KeyHash.KeyModel KeyHash.KeyProofs.
Open Scope Z_scope.

Theorem C12_md5_rfc1321_vector_abc :
  md5 [97; 98; 99] = [144; 1; 80; 152; 60; 210; 79; 176; 214; 150; 63; 125; 40; 225; 127; 114].
Proof. exact md5_rfc_3. Qed.

Print Assumptions C12_md5_rfc1321_vector_abc.
