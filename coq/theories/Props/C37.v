(* C37 — QoS validation: inconsistent and immutable changes are rejected atomically.  Property file.
   Model: Entity/EntityModel.v (is_consistent / check_immutability of qos.rs with the Length / usize / DurationKind
   orders of qos_policy.rs, the set_*_qos / get_*_qos / create_* paths); spec-side predicates: Entity/C37Corr.v.
   Every theorem holds for ANY factory state f (hence after any history) in which the addressed entity exists. *)
From DustDDS Require Import Base.Machine Entity.EntityModel Entity.EntityLemmas Entity.C37Corr Entity.C37Proofs.
Open Scope Z_scope.

(* --- DataWriter / DataReader --- *)
Theorem C37_endpoint_inconsistent_set_rejected_unchanged :
  forall pr f sd ph gh eh p g e q,
    find_part f ph = Some p -> find_first (is_group gh) (groups sd p) = Some g ->
    find_first (is_ep eh) (g_eps g) = Some e ->
    is_consistent (ekind_of sd) q = false ->
    fstep pr f (FSetEpQos sd ph gh eh (Some q)) = (f, RErr E_INCONSISTENT) /\
    fstep pr f (FGetEpQos sd ph gh eh) = (f, REQ (e_q e)).
Proof. intros; split; [eapply ep_set_inconsistent|eapply ep_get]; eauto. Qed.

Theorem C37_endpoint_immutable_change_rejected_when_enabled :
  forall pr f sd ph gh eh p g e q,
    find_part f ph = Some p -> find_first (is_group gh) (groups sd p) = Some g ->
    find_first (is_ep eh) (g_eps g) = Some e ->
    e_en e = true -> is_consistent (ekind_of sd) q = true -> check_immutability (e_q e) q = false ->
    fstep pr f (FSetEpQos sd ph gh eh (Some q)) = (f, RErr E_IMMUTABLE) /\
    fstep pr f (FGetEpQos sd ph gh eh) = (f, REQ (e_q e)).
Proof. intros; split; [eapply ep_set_immutable|eapply ep_get]; eauto. Qed.

(* accepted exactly when consistent and (not enabled or no immutable policy changed); then get_qos returns it *)
Theorem C37_endpoint_accepted_qos_is_returned :
  forall pr f sd ph gh eh p g e q,
    find_part f ph = Some p -> find_first (is_group gh) (groups sd p) = Some g ->
    find_first (is_ep eh) (g_eps g) = Some e ->
    is_consistent (ekind_of sd) q = true -> (e_en e = false \/ check_immutability (e_q e) q = true) ->
    exists f', fstep pr f (FSetEpQos sd ph gh eh (Some q)) = (f', RUnit) /\
               fstep pr f' (FGetEpQos sd ph gh eh) = (f', REQ q).
Proof. intros; eapply ep_set_accepted; eauto. Qed.

Theorem C37_endpoint_set_qos_is_atomic :
  forall pr f sd ph gh eh p g e q,
    find_part f ph = Some p -> find_first (is_group gh) (groups sd p) = Some g ->
    find_first (is_ep eh) (g_eps g) = Some e ->
    let r := fstep pr f (FSetEpQos sd ph gh eh (Some q)) in
    snd r = RUnit \/ r = (f, RErr E_INCONSISTENT) \/ r = (f, RErr E_IMMUTABLE).
Proof. intros; eapply ep_set_cases; eauto. Qed.

Theorem C37_endpoint_creation_with_inconsistent_qos_is_refused :
  forall pr sd p gh name q,
    is_consistent (ekind_of sd) q = false ->
    lookup_topic sd p name <> None -> find_first (is_group gh) (groups sd p) <> None ->
    let r := create_endpoint pr sd p gh name (Some q) in
    (snd r = RErr E_INCONSISTENT \/ (sd = SPub /\ 65535 <= ecounter sd p /\ snd r = RErr E_OUT_OF_RESOURCES)) /\
    pa_pubs (fst r) = pa_pubs p /\ pa_subs (fst r) = pa_subs p /\ pa_topics (fst r) = pa_topics p.
Proof. exact create_endpoint_inconsistent. Qed.

(* --- Topic --- *)
(* since 3e9f0b1: create_topic with an inconsistent QoS is refused (an existing name is refused first) *)
Theorem C37_topic_creation_with_inconsistent_qos_is_refused :
  forall pr f ph name q p,
    find_part f ph = Some p -> is_consistent KTopic q = false ->
    fstep pr f (FCreateTopic ph name (Some q)) = (f, RErr E_INCONSISTENT) \/
    fstep pr f (FCreateTopic ph name (Some q)) = (f, RErr E_PRECONDITION).
Proof. exact create_topic_inconsistent. Qed.

Theorem C37_topic_inconsistent_set_rejected_unchanged :
  forall pr f ph name p t q,
    find_part f ph = Some p -> find_first (is_topic name) (pa_topics p) = Some t ->
    is_consistent KTopic q = false ->
    fstep pr f (FSetTopicQos ph name (Some q)) = (f, RErr E_INCONSISTENT) /\
    fstep pr f (FGetTopicQos ph name) = (f, REQ (t_q t)).
Proof. intros; split; [eapply topic_set_inconsistent|eapply topic_get]; eauto. Qed.

Theorem C37_topic_immutable_change_rejected_when_enabled :
  forall pr f ph name p t q,
    find_part f ph = Some p -> find_first (is_topic name) (pa_topics p) = Some t ->
    t_en t = true -> is_consistent KTopic q = true -> check_immutability (t_q t) q = false ->
    fstep pr f (FSetTopicQos ph name (Some q)) = (f, RErr E_IMMUTABLE) /\
    fstep pr f (FGetTopicQos ph name) = (f, REQ (t_q t)).
Proof. intros; split; [eapply topic_set_immutable|eapply topic_get]; eauto. Qed.

Theorem C37_topic_accepted_qos_is_returned :
  forall pr f ph name p t q,
    find_part f ph = Some p -> find_first (is_topic name) (pa_topics p) = Some t ->
    is_consistent KTopic q = true -> (t_en t = false \/ check_immutability (t_q t) q = true) ->
    exists f', fstep pr f (FSetTopicQos ph name (Some q)) = (f', RUnit) /\
               fstep pr f' (FGetTopicQos ph name) = (f', REQ q).
Proof. intros; eapply topic_set_accepted; eauto. Qed.

(* --- Publisher (since 5256dfd) and Subscriber: presentation is immutable once enabled; Participant --- *)
Theorem C37_publisher_subscriber_presentation_change_rejected_when_enabled :
  forall pr f sd ph gh p g q,
    find_part f ph = Some p -> find_first (is_group gh) (groups sd p) = Some g ->
    g_en g = true -> presentation_eqb (g_q g) q = false ->
    fstep pr f (FSetGroupQos sd ph gh (Some q)) = (f, RErr E_IMMUTABLE) /\
    fstep pr f (FGetGroupQos sd ph gh) = (f, RGQ (g_q g)).
Proof. intros; split; [eapply group_set_immutable|eapply group_get]; eauto. Qed.

Theorem C37_publisher_subscriber_accepted_qos_is_returned :
  forall pr f sd ph gh p g q,
    find_part f ph = Some p -> find_first (is_group gh) (groups sd p) = Some g ->
    (g_en g = false \/ presentation_eqb (g_q g) q = true) ->
    exists f', fstep pr f (FSetGroupQos sd ph gh (Some q)) = (f', RUnit) /\
               fstep pr f' (FGetGroupQos sd ph gh) = (f', RGQ q).
Proof. intros; eapply group_set_accepted; eauto. Qed.

Theorem C37_participant_accepted_qos_is_returned :
  forall pr f ph p q, find_part f ph = Some p ->
    exists f', fstep pr f (FSetPartQos ph (Some q)) = (f', RUnit) /\ fstep pr f' (FGetPartQos ph) = (f', RPQ q).
Proof. exact part_set_get. Qed.

(* --- the code's checks are the rules of the specification --- *)
Theorem C37_is_consistent_is_the_specified_rule :
  forall k q,
    (match q_ms q with None => True | Some v => 0 <= v <= i32_max end) ->
    (match q_mspi q with None => True | Some v => 0 <= v <= i32_max end) ->
    (match q_hist q with None => True | Some d => 0 <= d <= u32_max end) ->
    is_consistent k q = spec_consistent k q.
Proof. intros k q H1 H2 H3. apply is_consistent_spec. repeat split; assumption. Qed.

Theorem C37_check_immutability_is_the_specified_rule :
  forall a b, check_immutability a b = spec_imm_same a b.
Proof. exact check_immutability_spec. Qed.

(* --- regression of the former findings C37-topic-create-inconsistent and C37-publisher-presentation-mutable --- *)
Theorem C37_fixed_defects_regression :
  forall pr,
    let P0 := part_handle 0 in let g8 := mkH 0 0 0 0 8 in
    let qbad := mkEQ 0 None (Some 0) 0 None 0 (Some 100000000) 0 (Some 5) None None (Some 3) 0 None 0 0 0 (Some 0) 0 true None in
    snd (frun pr init_factory [FCreatePart None; FCreateTopic P0 1 (Some qbad); FGetTopicQos P0 1;
                               FCreateGroup SPub P0 None; FSetGroupQos SPub P0 g8 (Some (mkGQ 1 true false 0 0 true));
                               FGetGroupQos SPub P0 g8]) =
    [RHandle P0; RErr E_INCONSISTENT; RErr E_DELETED; RHandle g8; RErr E_IMMUTABLE; RGQ default_gqos].
Proof. exact fixed_defects_regression. Qed.

(* non-vacuity: a reachable state with an enabled writer; changing HISTORY is refused, changing DEADLINE accepted *)
Example C37_nonvacuous :
  let P0 := part_handle 0 in let g8 := mkH 0 0 0 0 8 in let w := mkH 0 0 0 0 2 in
  let f := fst (frun Debug init_factory [FCreatePart None; FCreateTopic P0 1 None; FCreateGroup SPub P0 None;
                                         FCreateEp SPub P0 g8 1 None]) in
  let q1 := mkEQ 0 None (Some 0) 0 None 1 (Some 100000000) 0 (Some 7) None None None 0 None 0 0 0 (Some 0) 0 true None in
  let q2 := mkEQ 0 (Some 5) (Some 0) 0 None 1 (Some 100000000) 0 (Some 1) None None None 0 None 0 0 0 (Some 0) 0 true None in
  fstep Debug f (FSetEpQos SPub P0 g8 w (Some q1)) = (f, RErr E_IMMUTABLE) /\
  snd (fstep Debug f (FSetEpQos SPub P0 g8 w (Some q2))) = RUnit.
Proof. vm_compute. split; reflexivity. Qed.

Print Assumptions C37_endpoint_inconsistent_set_rejected_unchanged.
Print Assumptions C37_endpoint_immutable_change_rejected_when_enabled.
Print Assumptions C37_endpoint_accepted_qos_is_returned.
Print Assumptions C37_endpoint_set_qos_is_atomic.
Print Assumptions C37_endpoint_creation_with_inconsistent_qos_is_refused.
Print Assumptions C37_topic_inconsistent_set_rejected_unchanged.
Print Assumptions C37_topic_immutable_change_rejected_when_enabled.
Print Assumptions C37_topic_accepted_qos_is_returned.
Print Assumptions C37_topic_creation_with_inconsistent_qos_is_refused.
Print Assumptions C37_publisher_subscriber_presentation_change_rejected_when_enabled.
Print Assumptions C37_publisher_subscriber_accepted_qos_is_returned.
Print Assumptions C37_participant_accepted_qos_is_returned.
Print Assumptions C37_is_consistent_is_the_specified_rule.
Print Assumptions C37_check_immutability_is_the_specified_rule.
Print Assumptions C37_fixed_defects_regression.
