(* Model of the DDS worker's periodic duties (shared by C31, C30, C29).
   Definitions only.

   Part 1 (snapshot level) follows
     dds/src/dds_async/domain_participant_factory.rs  (worker loop: poke_time, the six
         time_until_* values, next_task_time = min, timer.delay(next_task_time.into()))
     dds/src/dcps/dcps_participant_factory.rs         (min over the participants)
     dds/src/dcps/dcps_domain_participant/participant_entity.rs (the six expressions)
     dds/src/dcps/infrastructure/time.rs              (derived Ord, From<Duration> for
         core::time::Duration: `x.sec as u64`)
   over an abstract snapshot of the participants (lists in storage order).  The
   arithmetic of Duration/Time is the one of Time/TimeModel.v.

   Part 2 (worker level) is the body of one loop iteration for one participant with
   user-defined writers and readers (check_missed_reader_deadline,
   check_missed_writer_deadline, remove_stale_writer_samples,
   announce_participant_if_needed) and the timer-driven wake sequence, used by the
   whole-stack simulation tie. *)
From DustDDS Require Export Base.Machine Time.TimeModel.
Open Scope Z_scope.

(* ------------------------------------------------------------------ Ord on Duration *)
Definition dzero : dur := mkdur 0 0.
Definition poke_time : dur := mkdur 0 50000000.          (* Duration::new(0, 50_000_000) *)
Definition POKE_NS : Z := 50000000.

Definition dur_ltb (a b : dur) : bool := negb (dur_leb b a).
(* Ord::min(self, other): other if other < self, else self *)
Definition dur_min (a b : dur) : dur := if dur_ltb b a then b else a.
(* Ord::max(self, other): self if other < self, else other *)
Definition dur_max (a b : dur) : dur := if dur_ltb b a then a else b.
(* Iterator::min *)
Definition min_list (l : list dur) : option dur :=
  match l with
  | [] => None
  | x :: r => Some (fold_left dur_min r x)
  end.
Definition somes {A} (l : list (option A)) : list A :=
  flat_map (fun o => match o with Some x => [x] | None => [] end) l.

(* Time::from(transport::types::Time) = Time::new(sec, nanosec) *)
Definition time_of_transport (t : dur) : dur := dur_new (sec t) (nanosec t).

(* ------------------------------------------------------------------ snapshot *)
Record reader_s : Type := mkR {
  r_deadline : option dur;              (* qos.deadline.period, None = Infinite *)
  r_last : list dur                     (* instances[..].last_received_time_stamp *)
}.
Record writer_s : Type := mkW {
  w_deadline : option dur;
  w_last : list (option dur);           (* registered_instance_info[..].last_write_time *)
  w_lifespan : option dur;
  w_changes : list (option dur);        (* transport_writer.changes()[..].source_timestamp *)
  w_pending : option (option dur)       (* pending_write_sample: Some expiration_time *)
}.
Record part_s : Type := mkP {
  p_enabled : bool;
  p_last_ann : option dur;              (* last_announcement_timestamp *)
  p_interval : dur;                     (* participant_announcement_interval *)
  p_disc : list (dur * dur);            (* discovered participants: (lease_duration, last_communication_timestamp) *)
  p_readers : list reader_s;            (* subscribers' readers, flattened in order *)
  p_writers : list writer_s
}.

(* participant_entity.rs:118 *)
Definition tu_stale_participant (now : dur) (p : part_s) : option dur :=
  min_list (map (fun d => dur_sub (fst d) (time_sub now (snd d))) (p_disc p)).

(* participant_entity.rs:126 *)
Definition tu_reader (now : dur) (r : reader_s) : option dur :=
  match r_deadline r with
  | Some dl => min_list (map (fun last => dur_sub dl (time_sub now last)) (r_last r))
  | None => None
  end.
Definition tu_missed_reader_deadline (now : dur) (p : part_s) : option dur :=
  min_list (somes (map (tu_reader now) (p_readers p))).

(* participant_entity.rs:145 *)
Definition tu_writer_deadline (now : dur) (w : writer_s) : option dur :=
  match w_deadline w with
  | Some dl => min_list (map (fun last => dur_sub dl (time_sub now last)) (somes (w_last w)))
  | None => None
  end.
Definition tu_missed_writer_deadline (now : dur) (p : part_s) : option dur :=
  min_list (somes (map (tu_writer_deadline now) (p_writers p))).

(* participant_entity.rs:165:  Time::from(source_timestamp) + lifespan - now *)
Definition tu_writer_sample (now : dur) (w : writer_s) : option dur :=
  match w_lifespan w with
  | Some ls => min_list (map (fun ts => time_sub (dur_add (time_of_transport ts) ls) now)
                             (somes (w_changes w)))
  | None => None
  end.
Definition tu_stale_writer_sample (now : dur) (p : part_s) : option dur :=
  min_list (somes (map (tu_writer_sample now) (p_writers p))).

(* participant_entity.rs:186 *)
Definition tu_writer_pending (now : dur) (w : writer_s) : option dur :=
  match w_pending w with
  | Some (Some exp) => if dur_ltb now exp then Some (time_sub exp now) else Some dzero
  | _ => None
  end.
Definition tu_pending_writer_sample_timeout (now : dur) (p : part_s) : option dur :=
  min_list (somes (map (tu_writer_pending now) (p_writers p))).

(* participant_entity.rs:306 *)
Definition tu_participant_announcement (now : dur) (p : part_s) : option dur :=
  if p_enabled p then
    match p_last_ann p with
    | Some la =>
        let elapsed := time_sub now la in
        if dur_leb (p_interval p) elapsed then Some dzero
        else Some (dur_sub (p_interval p) elapsed)
    | None => Some dzero
    end
  else None.

(* dcps_participant_factory.rs:138-185: min over the participants *)
Definition factory_min (f : dur -> part_s -> option dur) (now : dur) (ps : list part_s) : option dur :=
  min_list (somes (map (f now) ps)).

(* the clock is read once per time_until_* call: six readings *)
Record nows : Type := mkNows { n_rd : dur; n_wd : dur; n_sp : dur; n_ws : dur; n_pw : dur; n_pa : dur }.
Definition same_now (t : dur) : nows := mkNows t t t t t t.

Definition unwrap_or (o : option dur) (d : dur) : dur := match o with Some x => x | None => d end.

(* domain_participant_factory.rs:287-309: the minimum, clamped at zero (`.max(Duration::new(0, 0))`) *)
Definition next_task_time (ps : list part_s) (n : nows) : dur :=
  let t1 := factory_min tu_missed_reader_deadline (n_rd n) ps in
  let t2 := factory_min tu_missed_writer_deadline (n_wd n) ps in
  let t3 := factory_min tu_stale_participant (n_sp n) ps in
  let t4 := factory_min tu_stale_writer_sample (n_ws n) ps in
  let t5 := factory_min tu_pending_writer_sample_timeout (n_pw n) ps in
  let t6 := factory_min tu_participant_announcement (n_pa n) ps in
  dur_max (dur_min (dur_min (dur_min (dur_min (dur_min (dur_min poke_time
    (unwrap_or t1 poke_time)) (unwrap_or t2 poke_time)) (unwrap_or t3 poke_time))
    (unwrap_or t4 poke_time)) (unwrap_or t5 poke_time)) (unwrap_or t6 poke_time)) dzero.

(* time.rs:160  core::time::Duration::new(x.sec as u64, x.nanosec); the result as total
   nanoseconds (u128).  Duration::new carries nanosec / 1e9 into the seconds with a checked
   add (panics on overflow). *)
Definition to_core_ns (d : dur) : res Z :=
  let secs := wrap_u64 (sec d) in
  let secs' := secs + nanosec d / NS in
  if secs' <=? u64_max then Ok (secs' * NS + nanosec d mod NS) else Panic 1.

Definition requested_delay (ps : list part_s) (n : nows) : res Z :=
  to_core_ns (next_task_time ps n).

(* ------------------------------------------------------------------ worker level *)
(* SimClock::now: Time::new((n / 1e9) as i32, (n % 1e9) as u32) *)
Definition time_of_ns (n : Z) : dur := dur_new (wrap_i32 (n / NS)) (wrap_u32 (n mod NS)).

Record sinst : Type := mkSI { si_key : Z; si_last : option dur }.
Record swriter : Type := mkSW {
  sw_deadline : option dur;
  sw_lifespan : option dur;
  sw_insts : list sinst;                (* registered_instance_info, storage order *)
  sw_changes : list dur;                (* source timestamps of the history, storage order *)
  sw_odm : Z                            (* offered_deadline_missed_status.total_count *)
}.
(* a reader: `instances` (InstanceState: handle, last_received_time_stamp — never removed);
   both check_missed_reader_deadline and time_until_missed_reader_deadline look at it *)
Record sreader : Type := mkSR {
  sr_deadline : option dur;
  sr_insts : list (Z * dur);
  sr_rdm : Z                            (* requested_deadline_missed_status.total_count *)
}.
Record sstate : Type := mkSS {
  ss_now : Z;                           (* simulated clock, ns *)
  ss_wake : Z;                          (* absolute deadline of the timer the worker sleeps on *)
  ss_last_ann : option dur;
  ss_interval : dur;
  ss_writers : list swriter;
  ss_readers : list sreader
}.

Definition snap_writer (w : swriter) : writer_s :=
  mkW (sw_deadline w) (map si_last (sw_insts w)) (sw_lifespan w) (map Some (sw_changes w)) None.
Definition snap_reader (r : sreader) : reader_s := mkR (sr_deadline r) (map snd (sr_insts r)).
Definition snap (s : sstate) : part_s :=
  mkP true (ss_last_ann s) (ss_interval s) [] (map snap_reader (ss_readers s)) (map snap_writer (ss_writers s)).

(* discovery_methods.rs:372 check_missed_writer_deadline, one writer:
   `if now - *t > deadline { *t += deadline; missed }` — re-arms by ONE period *)
Definition check_inst (now dl : dur) (i : sinst) : sinst * Z :=
  match si_last i with
  | Some t => if dur_ltb dl (time_sub now t) then (mkSI (si_key i) (Some (dur_add t dl)), 1) else (i, 0)
  | None => (i, 0)
  end.
Fixpoint check_insts (now dl : dur) (l : list sinst) : list sinst * Z :=
  match l with
  | [] => ([], 0)
  | i :: r => let '(i', a) := check_inst now dl i in
              let '(r', b) := check_insts now dl r in (i' :: r', a + b)
  end.
Definition check_writer_deadline (now : dur) (w : swriter) : swriter :=
  match sw_deadline w with
  | Some dl => let '(l, n) := check_insts now dl (sw_insts w) in
               mkSW (sw_deadline w) (sw_lifespan w) l (sw_changes w) (sw_odm w + n)
  | None => w
  end.
(* discovery_methods.rs:465 remove_stale_writer_samples: retain `Time::from(ts) + lifespan > now` *)
Definition remove_stale (now : dur) (w : swriter) : swriter :=
  match sw_lifespan w with
  | Some ls => mkSW (sw_deadline w) (sw_lifespan w) (sw_insts w)
                 (filter (fun ts => dur_ltb now (dur_add (time_of_transport ts) ls)) (sw_changes w)) (sw_odm w)
  | None => w
  end.

(* discovery_methods.rs:315 check_missed_reader_deadline, one reader: an instance with
   `now - last_received_time_stamp > deadline` is reported once and re-armed by ONE period
   (InstanceState::rearm_deadline), as on the writer side *)
Definition check_rinst (now dl : dur) (i : Z * dur) : (Z * dur) * Z :=
  if dur_ltb dl (time_sub now (snd i)) then ((fst i, dur_add (snd i) dl), 1) else (i, 0).
Fixpoint check_rinsts (now dl : dur) (l : list (Z * dur)) : list (Z * dur) * Z :=
  match l with
  | [] => ([], 0)
  | i :: r => let '(i', a) := check_rinst now dl i in
              let '(r', b) := check_rinsts now dl r in (i' :: r', a + b)
  end.
Definition check_reader_deadline (now : dur) (r : sreader) : sreader :=
  match sr_deadline r with
  | Some dl => let '(l, n) := check_rinsts now dl (sr_insts r) in
               mkSR (sr_deadline r) l (sr_rdm r + n)
  | None => r
  end.

(* the part of one loop iteration after the select: the checks at `now`, the announcement,
   then the next sleep is computed (the clock does not move in the simulation) *)
Definition delay_floor (r : res Z) : Z := match r with Ok d => Z.max 1 d | _ => 1 end.
Definition body (s : sstate) : sstate * res Z :=
  let now := time_of_ns (ss_now s) in
  let rs := map (check_reader_deadline now) (ss_readers s) in
  let ws := map (fun w => remove_stale now (check_writer_deadline now w)) (ss_writers s) in
  let s1 := mkSS (ss_now s) (ss_wake s) (ss_last_ann s) (ss_interval s) ws rs in
  let la := match tu_participant_announcement now (snap s1) with
            | Some d => if dur_eqb d dzero then Some now else ss_last_ann s
            | None => ss_last_ann s end in
  let s2 := mkSS (ss_now s) (ss_wake s) la (ss_interval s) ws rs in
  let d := requested_delay [snap s2] (same_now now) in
  (mkSS (ss_now s) (ss_now s + delay_floor d) la (ss_interval s) ws rs, d).

Fixpoint bodies (k : nat) (s : sstate) : sstate * list (Z * res Z) :=
  match k with
  | O => (s, [])
  | S k' => let '(s1, d) := body s in
            let '(s2, l) := bodies k' s1 in (s2, (ss_now s, d) :: l)
  end.

(* data_writer_entity.rs:70 write_w_timestamp (KEEP_ALL, unlimited resources) *)
Fixpoint touch_inst (key : Z) (ts : dur) (l : list sinst) : list sinst :=
  match l with
  | [] => [mkSI key (Some ts)]
  | i :: r => if si_key i =? key
              then mkSI key (match si_last i with
                             | Some t => if dur_ltb t ts then Some ts else Some t
                             | None => Some ts end) :: r
              else i :: touch_inst key ts r
  end.
Definition write_writer (now ts : dur) (key : Z) (w : swriter) : swriter :=
  let expired := match sw_lifespan w with
                 | Some ls => dur_leb (dur_add (time_sub ts now) ls) dzero
                 | None => false end in
  mkSW (sw_deadline w) (sw_lifespan w) (touch_inst key ts (sw_insts w))
       (if expired then sw_changes w else sw_changes w ++ [ts]) (sw_odm w).
Fixpoint update_nth {A} (n : nat) (f : A -> A) (l : list A) : list A :=
  match l, n with
  | [], _ => []
  | x :: r, O => f x :: r
  | x :: r, S n' => x :: update_nth n' f r
  end.

Inductive sop : Type :=
| SCreateW (dl ls : option Z)               (* create_datawriter, deadline / lifespan in ns *)
| SWrite (w : nat) (key : Z) (ts : option Z) (* write / write_w_timestamp(ts ns) *)
| SAdv (dt : Z)                              (* the clock advances, timers fire *)
| SCreateR (dl : option Z)                  (* create_datareader with deadline *)
| SRecv (r : nat) (keys : list Z)           (* `net`: samples for these keys reach reader r now *)
| SScr (r : nat)                            (* reader status condition (REQUESTED_DEADLINE_MISSED only): trigger value *)
| SOdm (w : nat)                             (* get_offered_deadline_missed_status *)
| SQuery.                                    (* an API call that changes nothing *)

Definition dur_of_ns (n : Z) : dur := dur_new (wrap_i32 (n / NS)) (wrap_u32 (n mod NS)).

(* data_reader_entity.rs add_change (Alive sample, reception_timestamp = now):
   InstanceState.update_state sets last_received_time_stamp *)
Fixpoint set_key (key : Z) (t : dur) (l : list (Z * dur)) : list (Z * dur) :=
  match l with
  | [] => [(key, t)]
  | i :: r => if fst i =? key then (key, t) :: r else i :: set_key key t r
  end.
Definition recv_reader (now : dur) (keys : list Z) (r : sreader) : sreader :=
  fold_left (fun r key => mkSR (sr_deadline r) (set_key key now (sr_insts r)) (sr_rdm r)) keys r.

Definition apply_mail (o : sop) (s : sstate) : sstate :=
  match o with
  | SCreateW dl ls =>
      mkSS (ss_now s) (ss_wake s) (ss_last_ann s) (ss_interval s)
           (ss_writers s ++ [mkSW (option_map dur_of_ns dl) (option_map dur_of_ns ls) [] [] 0]) (ss_readers s)
  | SCreateR dl =>
      mkSS (ss_now s) (ss_wake s) (ss_last_ann s) (ss_interval s) (ss_writers s)
           (ss_readers s ++ [mkSR (option_map dur_of_ns dl) [] 0])
  | SWrite w key ts =>
      let now := time_of_ns (ss_now s) in
      let t := match ts with Some x => time_of_ns x | None => now end in
      mkSS (ss_now s) (ss_wake s) (ss_last_ann s) (ss_interval s)
           (update_nth w (write_writer now t key) (ss_writers s)) (ss_readers s)
  | SRecv r keys =>
      mkSS (ss_now s) (ss_wake s) (ss_last_ann s) (ss_interval s) (ss_writers s)
           (update_nth r (recv_reader (time_of_ns (ss_now s)) keys) (ss_readers s))
  | _ => s
  end.

(* timer-driven wakes until `target` (sim.advance): the worker wakes when the clock
   reaches the deadline of its timer *)
Fixpoint adv_loop (fuel : nat) (target : Z) (s : sstate) : sstate * list (Z * res Z) :=
  match fuel with
  | O => (s, [])
  | S f =>
      if ss_wake s <=? target then
        let s0 := mkSS (ss_wake s) (ss_wake s) (ss_last_ann s) (ss_interval s) (ss_writers s) (ss_readers s) in
        let '(s1, d) := body s0 in
        let '(s2, l) := adv_loop f target s1 in (s2, (ss_now s0, d) :: l)
      else (mkSS target (ss_wake s) (ss_last_ann s) (ss_interval s) (ss_writers s) (ss_readers s), [])
  end.

(* one scenario op; k = number of loop iterations the real worker ran during the op
   (= number of delays it requested), part of the schedule.  An API call's mail is
   handled in the last iteration (the earlier ones serve get_current_time etc.). *)
Definition ADV_FUEL : nat := 4000.
(* the reply of the mail (read when the mail is handled, before the checks of that iteration) *)
Definition reply_of (o : sop) (s : sstate) : Z :=
  match o with
  | SOdm w => sw_odm (nth w (ss_writers s) (mkSW None None [] [] 0))
  | SScr r => if 0 <? sr_rdm (nth r (ss_readers s) (mkSR None [] 0)) then 1 else 0
  | _ => 0
  end.
Definition step (s : sstate) (o : sop) (k : nat) : sstate * list (Z * res Z) * Z :=
  match o with
  | SAdv dt => (adv_loop ADV_FUEL (ss_now s + dt) s, 0)
  | SRecv _ _ => (bodies k (apply_mail o s), 0)   (* the DATA datagram is the first one delivered *)
  | _ => let '(s1, l1) := bodies (pred k) s in
         let '(s2, l2) := bodies (Nat.min k 1) (apply_mail o s1) in (s2, l1 ++ l2, reply_of o s1)
  end.

(* after the prologue `P 0 ; T 0 t ; PUB 0` at t = 1 s: announced once, sleeping *)
Definition init_state (interval_ns : Z) : sstate :=
  mkSS 1000000000 (1000000000 + Z.max 1 (Z.min POKE_NS interval_ns))
       (Some (time_of_ns 1000000000)) (dur_of_ns interval_ns) [] [].

(* ------------------------------------------------------------------ blocked write *)
(* writer_methods.rs:382 expiration_time = now + max_blocking_time; writer_methods.rs:695
   check_pending_writer_sample_timeout runs at every worker wake: `now >= expiration_time`
   -> reply Timeout.  Times in ns; `wakes` = the times of the worker's loop iterations
   after the write blocked, in order.  Result: the time at which Timeout is replied. *)
Fixpoint pending_timeout (exp : Z) (wakes : list Z) : option Z :=
  match wakes with
  | [] => None
  | w :: r => if exp <=? w then Some w else pending_timeout exp r
  end.
(* consecutive wakes (starting from `last`) are at most P apart *)
Fixpoint gaps_le (P last : Z) (wakes : list Z) : Prop :=
  match wakes with
  | [] => True
  | w :: r => last <= w /\ w - last <= P /\ gaps_le P w r
  end.
