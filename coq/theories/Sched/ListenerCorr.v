(* Correspondence vocabulary for C33: one case = one simulated scenario (harness bin `lst`) with
   recording listeners: the listener/mask configuration of every entity, the status-raising events of
   each phase of the script, and the listener calls recorded in each phase (label, callback, count). *)
From DustDDS Require Export Base.Machine Sched.ListenerModel.
Open Scope Z_scope.

Record C33_case : Type := mkC33 {
  c_world : world;
  c_phases : list (list ev);
  c_obs : list (list (lcall * nat))
}.

Definition lab_eqb (a b : lab) : bool :=
  match a, b with
  | LW i, LW j | LR i, LR j | LP i, LP j => Nat.eqb i j
  | LPub, LPub | LSub, LSub => true
  | _, _ => false
  end.
Definition lcall_eqb (a b : lcall) : bool := lab_eqb (fst a) (fst b) && kind_eqb (snd a) (snd b).

Definition count_in (cs : list lcall) (c : lcall) : nat := length (filter (lcall_eqb c) cs).
Fixpoint obs_count (o : list (lcall * nat)) (c : lcall) : nat :=
  match o with
  | [] => 0
  | (d, n) :: t => (if lcall_eqb c d then n else 0) + obs_count t c
  end.

(* the incompatible-QoS callbacks are repeated by the worker while the incompatible pair exists
   (every pass of process_discovered_readers / _writers re-evaluates the unmatched pair and runs the
   chain again): the model predicts the level, not the count *)
Definition repeated_kind (k : kind) : bool :=
  match k with KOIQ | KRIQ => true | _ => false end.

Definition agree_on (exact : bool) (calls : list lcall) (obs : list (lcall * nat)) (c : lcall) : bool :=
  if exact || negb (repeated_kind (snd c))
  then Nat.eqb (count_in calls c) (obs_count obs c)
  else Bool.eqb (Nat.eqb (count_in calls c) 0) (Nat.eqb (obs_count obs c) 0).

Definition agree (exact : bool) (calls : list lcall) (obs : list (lcall * nat)) : bool :=
  forallb (agree_on exact calls obs) (calls ++ map fst obs).

Fixpoint phases_ok (f : list ev -> list (lcall * nat) -> bool)
         (ps : list (list ev)) (os : list (list (lcall * nat))) : bool :=
  match ps, os with
  | [], [] => true
  | p :: ps', o :: os' => f p o && phases_ok f ps' os'
  | _, _ => false
  end.

(* model = code: per phase, the recorded calls are the ones the coded chains produce *)
Definition C33_model_ok (c : C33_case) : bool :=
  phases_ok (fun p o => agree false (run_events (c_world c) p) o) (c_phases c) (c_obs c).

(* the property on the implementation's output: per phase, every status change was delivered
   exactly once to the listener the rule names and nothing else was called *)
Definition C33_oracle_ok (c : C33_case) : bool :=
  phases_ok (fun p o => agree true (spec_events (c_world c) p) o) (c_phases c) (c_obs c).

(* known classes.  A disagreement with the rule on callback c is explained only if the observation
   equals what the coded chains do (the model), and then by the kind of c:
     1 DataAvailable  -> no subscriber/participant fallback      (C33-data-available-no-fallback)
     2 PM / SM        -> un-match reaches no listener            (C33-unmatch-no-listener)
     3 OIQ / RIQ      -> callback repeated without status change (C33-incompatible-qos-repeated) *)
Definition explain (w : world) (p : list ev) (o : list (lcall * nat)) (c : lcall) : N :=
  if agree_on false (run_events w p) o c then
    match snd c with
    | KDA => if existsb (ev_known w) p then 1%N else 0%N
    | KPM | KSM => if existsb (ev_known w) p then 2%N else 0%N
    | KOIQ | KRIQ => 3%N
    | _ => 0%N
    end
  else 0%N.

Definition phase_classes (w : world) (p : list ev) (o : list (lcall * nat)) : list N :=
  let spec := spec_events w p in
  map (explain w p o) (filter (fun c => negb (agree_on true spec o c)) (spec ++ map fst o)).

Fixpoint all_classes (w : world) (ps : list (list ev)) (os : list (list (lcall * nat))) : list N :=
  match ps, os with
  | p :: ps', o :: os' => phase_classes w p o ++ all_classes w ps' os'
  | _, _ => []
  end.

Definition C33_known (c : C33_case) : N :=
  let l := all_classes (c_world c) (c_phases c) (c_obs c) in
  if existsb (N.eqb 0) l then 0%N
  else if existsb (N.eqb 1) l then 1%N
  else if existsb (N.eqb 2) l then 2%N
  else hd 0%N l.
