(* Correspondence vocabulary for C33: one case = one simulated scenario (harness bin `lst`) with
   recording listeners: the listener/mask configuration of every entity, the status-raising events of
   each phase of the script, and the listener calls recorded in each phase (label, callback, count). *)
From DustDDS Require Export Base.Machine Sched.ListenerModel.
Open Scope Z_scope.

Record C33_case : Type := mkC33 {
  c_world : world;
  c_phases : list (list ev);
  c_obs : list (list (lcall * nat))
}.

Definition lab_eqb (a b : lab) : bool :=
  match a, b with
  | LW i, LW j | LR i, LR j | LP i, LP j => Nat.eqb i j
  | LPub, LPub | LSub, LSub => true
  | _, _ => false
  end.
Definition lcall_eqb (a b : lcall) : bool := lab_eqb (fst a) (fst b) && kind_eqb (snd a) (snd b).

Definition count_in (cs : list lcall) (c : lcall) : nat := length (filter (lcall_eqb c) cs).
Fixpoint obs_count (o : list (lcall * nat)) (c : lcall) : nat :=
  match o with
  | [] => 0
  | (d, n) :: t => (if lcall_eqb c d then n else 0) + obs_count t c
  end.

Definition agree_on (calls : list lcall) (obs : list (lcall * nat)) (c : lcall) : bool :=
  Nat.eqb (count_in calls c) (obs_count obs c).

Definition agree (calls : list lcall) (obs : list (lcall * nat)) : bool :=
  forallb (agree_on calls obs) (calls ++ map fst obs).

Fixpoint phases_ok (f : list ev -> list (lcall * nat) -> bool)
         (ps : list (list ev)) (os : list (list (lcall * nat))) : bool :=
  match ps, os with
  | [], [] => true
  | p :: ps', o :: os' => f p o && phases_ok f ps' os'
  | _, _ => false
  end.

(* model = code: per phase, the recorded calls are exactly the ones the coded chains produce
   (callback by callback, with their multiplicity) *)
Definition C33_model_ok (c : C33_case) : bool :=
  phases_ok (fun p o => agree (run_events (c_world c) p) o) (c_phases c) (c_obs c).

(* the property on the implementation's output: per phase, every status change was delivered
   exactly once to the listener the rule names and nothing else was called *)
Definition C33_oracle_ok (c : C33_case) : bool :=
  phases_ok (fun p o => agree (spec_events (c_world c) p) o) (c_phases c) (c_obs c).

(* no known classes: the three defects once recorded here (no data-available fallback, un-match
   without listener, repeated incompatible-QoS callbacks) are repaired in /repo
   (8c56825, 16b74b1, 1fc584d) *)
Definition C33_known (c : C33_case) : N := 0%N.
