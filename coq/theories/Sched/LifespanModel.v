(* C29 — lifespan: writer-side expiry composed with network delay and the reader.
   Definitions only.  Times in ns (Z); a change is (sequence number, source timestamp).

   data_writer_entity.rs:159  write_w_timestamp: `sample_timestamp - now + lifespan <= 0`
       -> the change is not added to the history (and not sent);
   discovery_methods.rs:465  remove_stale_writer_samples at every worker iteration:
       retain `Time::from(ts) + lifespan > now`;
   the RTPS writer (re)sends whatever is in its history (first transmission at write,
   repairs on ACKNACK, history to a late-joining reader);
   the network delivers a datagram after an arbitrary delay (or holds it);
   the reader has NO lifespan check: data_reader_entity.rs add_change / read / take never
   look at source_timestamp + lifespan (faithful). *)
From DustDDS Require Export Base.Machine.
Open Scope Z_scope.

Definition change : Type := (Z * Z)%type.          (* (sn, source timestamp) *)

Record lstate : Type := mkL {
  l_now : Z;
  l_next : Z;                       (* next sequence number *)
  l_hist : list change;             (* writer history *)
  l_written : list change;          (* ghost: every sample ever written, with its timestamp *)
  l_flight : list change;           (* datagrams in the network *)
  l_held : list change;             (* datagrams held back by the network *)
  l_seen : list Z;                  (* sequence numbers the reader has received *)
  l_cache : list change;            (* reader cache *)
  l_pres : list (Z * Z * Z)         (* presented to the application: (sn, ts, time of read/take) *)
}.

Inductive lop : Type :=
| LWrite (ts : Z) (send : bool)   (* write_w_timestamp; send = a matched reader exists *)
| LWake                           (* one worker iteration: remove_stale_writer_samples *)
| LSendAll                        (* repair / late joiner: the whole history is (re)sent *)
| LSend (sn : Z)                  (* repair of one change, if still in the history *)
| LDeliverAll                     (* the network delivers what is in flight *)
| LHoldAll                        (* the network holds back what is in flight *)
| LRelease                        (* held datagrams are in flight again *)
| LTake                           (* reader.take(): everything in the cache is presented, removed *)
| LRead                           (* reader.read(): presented, kept *)
| LTick (dt : Z).                 (* time passes *)

Definition expired (L now ts : Z) : bool := ts + L <=? now.

Fixpoint deliver (seen : list Z) (cache : list change) (msgs : list change) : list Z * list change :=
  match msgs with
  | [] => (seen, cache)
  | m :: r => if existsb (Z.eqb (fst m)) seen then deliver seen cache r
              else deliver (fst m :: seen) (cache ++ [m]) r
  end.

Definition lstep (L : Z) (s : lstate) (o : lop) : lstate :=
  match o with
  | LWrite ts send =>
      let c := (l_next s, ts) in
      if expired L (l_now s) ts
      then mkL (l_now s) (l_next s + 1) (l_hist s) (l_written s ++ [c]) (l_flight s) (l_held s)
               (l_seen s) (l_cache s) (l_pres s)
      else mkL (l_now s) (l_next s + 1) (l_hist s ++ [c]) (l_written s ++ [c])
               (if send then l_flight s ++ [c] else l_flight s) (l_held s) (l_seen s) (l_cache s) (l_pres s)
  | LWake =>
      mkL (l_now s) (l_next s) (filter (fun c => negb (expired L (l_now s) (snd c))) (l_hist s))
          (l_written s) (l_flight s) (l_held s) (l_seen s) (l_cache s) (l_pres s)
  | LSendAll =>
      mkL (l_now s) (l_next s) (l_hist s) (l_written s) (l_flight s ++ l_hist s) (l_held s)
          (l_seen s) (l_cache s) (l_pres s)
  | LSend sn =>
      mkL (l_now s) (l_next s) (l_hist s) (l_written s)
          (l_flight s ++ filter (fun c => fst c =? sn) (l_hist s)) (l_held s) (l_seen s) (l_cache s) (l_pres s)
  | LDeliverAll =>
      let '(seen, cache) := deliver (l_seen s) (l_cache s) (l_flight s) in
      mkL (l_now s) (l_next s) (l_hist s) (l_written s) [] (l_held s) seen cache (l_pres s)
  | LHoldAll =>
      mkL (l_now s) (l_next s) (l_hist s) (l_written s) [] (l_held s ++ l_flight s) (l_seen s) (l_cache s) (l_pres s)
  | LRelease =>
      mkL (l_now s) (l_next s) (l_hist s) (l_written s) (l_flight s ++ l_held s) [] (l_seen s) (l_cache s) (l_pres s)
  | LTake =>
      mkL (l_now s) (l_next s) (l_hist s) (l_written s) (l_flight s) (l_held s) (l_seen s) []
          (l_pres s ++ map (fun c => (fst c, snd c, l_now s)) (l_cache s))
  | LRead =>
      mkL (l_now s) (l_next s) (l_hist s) (l_written s) (l_flight s) (l_held s) (l_seen s) (l_cache s)
          (l_pres s ++ map (fun c => (fst c, snd c, l_now s)) (l_cache s))
  | LTick dt =>
      mkL (l_now s + Z.max 0 dt) (l_next s) (l_hist s) (l_written s) (l_flight s) (l_held s)
          (l_seen s) (l_cache s) (l_pres s)
  end.
Definition lrun (L : Z) (ops : list lop) (s : lstate) : lstate := fold_left (lstep L) ops s.
Definition linit (t0 : Z) : lstate := mkL t0 1 [] [] [] [] [] [] [].

(* the property: nothing is presented at or after source timestamp + lifespan *)
Definition pres_ok (L : Z) (p : Z * Z * Z) : bool := snd p <? snd (fst p) + L.
Definition no_expired_presented (L : Z) (s : lstate) : Prop :=
  forall sn ts T, In (sn, ts, T) (l_pres s) -> T < ts + L.

(* class of the recorded finding C29-no-reader-side-expiry, on the schedule: some sample is
   read/taken at or after (the timestamp it was WRITTEN with) + lifespan, i.e. it spent its
   remaining lifetime in the network (delay, hold, repair of an expired change between two
   worker iterations) or in the reader cache *)
Fixpoint lookup (sn : Z) (l : list change) : option Z :=
  match l with
  | [] => None
  | c :: r => if fst c =? sn then Some (snd c) else lookup sn r
  end.
Definition late (L : Z) (s : lstate) : bool :=
  existsb (fun p => match lookup (fst (fst p)) (l_written s) with
                    | Some ts => ts + L <=? snd p
                    | None => true
                    end) (l_pres s).
