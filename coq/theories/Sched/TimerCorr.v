(* C42 — correspondence vocabulary.  One case = one run of the REAL std_runtime
   code (timer script / block_timeout / block_on / executor) together with the
   event trace the harness recorded (times = ns since the start of the case, log
   order = time order).  C42_model_ok replays the trace through the model's own
   step functions; C42_oracle_ok applies the property to the trace alone. *)
From DustDDS Require Export Base.Machine Sched.TimerModel Sched.TimerBlockModel.
Open Scope Z_scope.

(* ------------------------------------------------------------ timer traces *)
Inductive tev : Type :=
| VNew (k id dur : Z)                              (* TimerHandle::sleep(dur) -> Sleep #k *)
| VPoll (k t0 t1 : Z) (ready : bool) (tok dl : Z)  (* Sleep::poll; Pending: placed at its begin, tok = ordinal of
                                                      the Pending poll; Ready: placed at its end; dl = deadline after *)
| VDrop (k t : Z)
| VElapsed (k t0 t1 : Z) (b : bool)
| VReset (k t0 t1 dl : Z)
| VFire (tok t : Z)                                (* timer thread called wake() on the waker cloned by poll #tok *)
| VFire2 (tok t : Z)                               (* ... a second time *)
| VGone (tok t : Z)                                (* timer thread dropped that waker without waking it *)
| VSync (t : Z)                                    (* a zero sleep sent after everything before has fired *)
| VLost (k : Z).                                   (* gave up waiting for a wake-up *)

Inductive stage : Type := GSleep (dur : Z) | GExt | GYield | GNever.

Inductive bev : Type :=
| XStart (t : Z)
| XPollP (t0 t1 : Z)            (* poll of the scripted future returned Pending (placed at its begin) *)
| XPollR (t0 t1 : Z)            (* ... returned Ready (placed at its end) *)
| XWake (st t : Z)              (* the future's waker is about to be woken for stage st *)
| XWoke (st t : Z)              (* ... the wake call has returned *)
| XTs (st t dur : Z)            (* stage st created a timer sleep *)
| XTe (st t : Z)                (* ... which returned Ready *)
| XRet (t code v : Z)           (* code 1 = Ok(v) / output v, 0 = Timeout, 2 = other error *)
| XSpawn (i t : Z) | XTaskDone (i t : Z) | XJoin (i t : Z).

Inductive C42_case : Type :=
| CTimer (exact : bool) (evs : list tev) (ok : bool) (alive : list Z)
| CBt (dur val : Z) (stages : list stage) (evs : list bev)
| CBo (val : Z) (stages : list stage) (evs : list bev)
| CEx (ntasks : Z) (evs : list bev).

Definition dur_max : Z := u64_max * NSEC + 999999999.   (* Duration::MAX *)

(* ================================================================ timer replay *)
(* the place of the timer thread in its loop is not observable: the replay
   overrides pc before each thread step (and does not use TIdle/TTimeout) *)
Definition force_pc (p : tpc) (s : st) : st :=
  mkSt (clock s) (next_id s) (next_tok s) (handles s) (sleeps s) (queue s) (heap s) p (log s).
Definition set_clock (s : st) (t : Z) : st := fst (do_tick s (t - clock s)).

Record rs : Type := mkR { r_m : st; r_removed : list Z }.

Definition victims (s : st) : list Z :=
  match queue s with
  | MCancel id :: _ => map w_tok (filter (fun w => w_id w =? id) (heap s))
  | _ => []
  end.
Definition consume1 (r : rs) : rs :=
  mkR (fst (do_recv (force_pc (Receiving None 0) (r_m r)))) (victims (r_m r) ++ r_removed r).

Fixpoint consume_until (p : msg -> bool) (n : nat) (r : rs) : option rs :=
  match n with
  | O => None
  | S n' =>
      match queue (r_m r) with
      | [] => None
      | x :: _ => if p x then Some (consume1 r) else consume_until p n' (consume1 r)
      end
  end.

Definition is_wake_tok (tok : Z) (m : msg) : bool :=
  match m with MWake w => w_tok w =? tok | MCancel _ => false end.
Definition queue_wake (tok : Z) (q : list msg) : option wake :=
  match find (is_wake_tok tok) q with Some (MWake w) => Some w | _ => None end.

(* entries that would have to leave the heap before `w` may be popped *)
Definition blockers (w : wake) (h : list wake) : list wake := filter (fun y => w_dl y <? w_dl w) h.
Definition cancels_one_of (b : list wake) (m : msg) : bool :=
  match m with MCancel i => existsb (fun y => w_id y =? i) b | MWake _ => false end.

Fixpoint unblock (tok : Z) (n : nat) (r : rs) : option rs :=
  match find_tok tok (heap (r_m r)) with
  | None => None
  | Some w =>
      match blockers w (heap (r_m r)) with
      | [] => Some r
      | b =>
          match n with
          | O => None
          | S n' =>
              match consume_until (cancels_one_of b) (length (queue (r_m r))) r with
              | None => None
              | Some r' => unblock tok n' r'
              end
          end
      end
  end.

Definition replay_fire (tok t : Z) (r : rs) : option rs :=
  let r1 := match queue_wake tok (queue (r_m r)) with
            | Some _ => consume_until (is_wake_tok tok) (length (queue (r_m r))) r
            | None => Some r
            end in
  match r1 with
  | None => None
  | Some r1 =>
      match unblock tok (S (length (queue (r_m r1)))) r1 with
      | None => None
      | Some r2 =>
          let s := force_pc Firing (set_clock (r_m r2) t) in
          match do_fire s tok with
          | (s', OWoken w) => if w_dl w <? t then Some (mkR s' (r_removed r2)) else None
          | _ => None
          end
      end
  end.

Fixpoint remove1 (x : Z) (l : list Z) : list Z :=
  match l with [] => [] | y :: t => if y =? x then t else y :: remove1 x t end.
Definition mem (x : Z) (l : list Z) : bool := existsb (Z.eqb x) l.

Definition replay_gone (tok : Z) (r : rs) : option rs :=
  if mem tok (r_removed r) then Some (mkR (r_m r) (remove1 tok (r_removed r)))
  else
    let idw := match find_tok tok (heap (r_m r)) with
               | Some w => Some (w_id w)
               | None => match queue_wake tok (queue (r_m r)) with Some w => Some (w_id w) | None => None end
               end in
    match idw with
    | None => None
    | Some id =>
        match consume_until (is_cancel_of id) (length (queue (r_m r))) r with
        | None => None
        | Some r' => if mem tok (r_removed r') then Some (mkR (r_m r') (remove1 tok (r_removed r'))) else None
        end
    end.

Definition inb (lo x hi : Z) : bool := (lo <=? x) && (x <=? hi).

(* the clock reading of Sleep::reset, recovered from the observed deadline *)
Definition reset_time (dl dur t0 t1 : Z) : option Z :=
  if inb t0 (dl - dur) t1 then Some (dl - dur)
  else if inb t0 (dl - day_ns) t1 then Some (dl - day_ns)
  else None.

Definition replay_ev (r : rs) (e : tev) : option rs :=
  let s := r_m r in
  match e with
  | VNew k id dur =>
      match do_sleep s dur with
      | (s', ONew i) => if (i =? id) && (i =? k) then Some (mkR s' (r_removed r)) else None
      | _ => None
      end
  | VPoll k t0 t1 true _ dl =>
      match do_poll (set_clock s t1) k 0 with
      | (s', OPoll true d) => if d =? dl then Some (mkR s' (r_removed r)) else None
      | _ => None
      end
  | VPoll k t0 t1 false tok dl =>
      let s0 := set_clock s t0 in
      match find_sleep k (sleeps s0) with
      | None => None
      | Some sl =>
          let delta := match s_dl sl with
                       | Some _ => Some 0
                       | None => match reset_time dl (s_dur sl) t0 t1 with
                                 | Some n => Some (n - clock s0)
                                 | None => None
                                 end
                       end in
          match delta with
          | None => None
          | Some dlt =>
              if (next_tok s0 =? tok) && (0 <=? dlt) then
                match do_poll s0 k dlt with
                | (s', OPoll false d) => if d =? dl then Some (mkR s' (r_removed r)) else None
                | _ => None
                end
              else None
          end
      end
  | VDrop k t =>
      match do_drop (set_clock s t) k with
      | (s', ONone) => Some (mkR s' (r_removed r))
      | _ => None
      end
  | VElapsed k t0 t1 b =>
      match do_elapsed (set_clock s t0) k, do_elapsed (set_clock s t1) k with
      | (s', OBool b0), (_, OBool b1) => if Bool.eqb b b0 || Bool.eqb b b1 then Some (mkR s' (r_removed r)) else None
      | _, _ => None
      end
  | VReset k t0 t1 dl =>
      match find_sleep k (sleeps s) with
      | None => None
      | Some sl =>
          match reset_time dl (s_dur sl) t0 t1 with
          | None => None
          | Some n =>
              match do_reset (set_clock s n) k with
              | (s', ODl d) => if d =? dl then Some (mkR s' (r_removed r)) else None
              | _ => None
              end
          end
      end
  | VFire tok t => replay_fire tok t r
  | VFire2 _ _ => None
  | VGone tok _ => replay_gone tok r
  | VSync _ => Some r
  | VLost _ => None
  end.

Fixpoint replay (evs : list tev) (r : rs) : option rs :=
  match evs with
  | [] => Some r
  | e :: t => match replay_ev r e with None => None | Some r' => replay t r' end
  end.

Definition model_alive (s : st) : list Z :=
  map w_tok (heap s) ++
  flat_map (fun m => match m with MWake w => [w_tok w] | MCancel _ => [] end) (queue s).
Definition same_set (a b : list Z) : bool :=
  (Nat.eqb (length a) (length b)) && forallb (fun x => mem x b) a && forallb (fun x => mem x a) b.

Definition timer_model_ok (exact : bool) (evs : list tev) (ok : bool) (alive : list Z) : bool :=
  if negb exact then true else
  match replay evs (mkR init []) with
  | None => false
  | Some r => ok && same_set alive (model_alive (r_m r)) &&
              match r_removed r with [] => true | _ => false end
  end.

(* ================================================================ timer oracle *)
Fixpoint lookup {A} (k : Z) (l : list (Z * A)) : option A :=
  match l with [] => None | (x, v) :: t => if x =? k then Some v else lookup k t end.

Record os : Type := mkOs {
  o_durs : list (Z * Z);          (* sleep -> duration *)
  o_starts : list (Z * Z);        (* sleep -> begin of the poll/reset that set its deadline *)
  o_toks : list (Z * (Z * Z));    (* token -> (sleep, earliest admissible wake = start + duration) *)
  o_dropped : list Z;             (* dropped, no barrier seen since *)
  o_synced : list Z;              (* dropped and a barrier has fired since *)
  o_last : list (Z * bool);       (* sleep -> result of its last poll *)
  o_good : bool
}.
Definition bad (o : os) : os :=
  mkOs (o_durs o) (o_starts o) (o_toks o) (o_dropped o) (o_synced o) (o_last o) false.


Definition oracle_ev (o : os) (e : tev) : os :=
  match e with
  | VNew k _ dur => mkOs ((k, dur) :: o_durs o) (o_starts o) (o_toks o) (o_dropped o) (o_synced o) (o_last o) (o_good o)
  | VPoll k t0 t1 ready tok dl =>
      match lookup k (o_durs o) with
      | None => bad o
      | Some dur =>
          if ready then
            (* never Ready on the first poll; only strictly later than start + duration *)
            match lookup k (o_starts o) with
            | None => bad o
            | Some ts =>
                mkOs (o_durs o) (o_starts o) (o_toks o) (o_dropped o) (o_synced o) ((k, true) :: o_last o)
                     (o_good o && (ts + dur <? t1))
            end
          else
            let starts := match lookup k (o_starts o) with Some _ => o_starts o | None => (k, t0) :: o_starts o end in
            let ts := match lookup k starts with Some x => x | None => t0 end in
            mkOs (o_durs o) starts ((tok, (k, ts + dur)) :: o_toks o) (o_dropped o) (o_synced o)
                 ((k, false) :: o_last o) (o_good o)
      end
  | VDrop k _ => mkOs (o_durs o) (o_starts o) (o_toks o) (k :: o_dropped o) (o_synced o) (o_last o) (o_good o)
  | VElapsed k t0 t1 b =>
      (* is_elapsed true only strictly later than start + duration *)
      if b then
        match lookup k (o_durs o), lookup k (o_starts o) with
        | Some dur, Some ts => if ts + dur <? t1 then o else bad o
        | _, _ => bad o
        end
      else o
  | VReset k t0 _ _ => mkOs (o_durs o) ((k, t0) :: o_starts o) (o_toks o) (o_dropped o) (o_synced o) (o_last o) (o_good o)
  | VFire tok t | VFire2 tok t =>
      match lookup tok (o_toks o) with
      | None => bad o
      | Some (k, earliest) =>
          (* never woken before the deadline; never woken once the Cancel is known consumed *)
          if (earliest <? t) && negb (mem k (o_synced o)) then o else bad o
      end
  | VGone _ _ => o
  | VSync _ => mkOs (o_durs o) (o_starts o) (o_toks o) [] (o_dropped o ++ o_synced o) (o_last o) (o_good o)
  | VLost _ => bad o
  end.

Definition far_ns : Z := 1000000000.

Definition timer_oracle_ok (evs : list tev) (ok : bool) (alive : list Z) : bool :=
  let o := fold_left oracle_ev evs (mkOs [] [] [] [] [] [] true) in
  o_good o && ok &&
  (* the case ends with a barrier: no dropped sleep still has a waker at the timer *)
  forallb (fun tok => match lookup tok (o_toks o) with
                      | Some (k, _) => negb (mem k (o_dropped o ++ o_synced o))
                      | None => false
                      end) alive &&
  (* every live near sleep that was polled has completed *)
  forallb (fun kd => let '(k, dur) := kd in
             if (dur <? far_ns) && negb (mem k (o_dropped o ++ o_synced o)) then
               match lookup k (o_last o) with Some r => r | None => true end
             else true) (o_durs o).

(* ================================================================ block_timeout *)
Definition final_idx (stages : list stage) : Z := Z.of_nat (length stages) - 1.
Definition final_stage (stages : list stage) : stage := last stages GNever.

(* does this event complete the scripted future? *)
Definition completes (stages : list stage) (seen : list Z) (e : bev) : bool :=
  match e, final_stage stages with
  | XWake st _, GExt | XWake st _, GYield => (st =? final_idx stages) && negb (mem st seen)
  | XTe st _, GSleep _ => st =? final_idx stages
  | _, _ => false
  end.

Definition btick (s : bst) (t : Z) : bst := bstep s (BTick (t - b_clock s)).

(* The replay keeps a small set of candidate model states.  After a Pending poll the
   thread reads the clock twice (before recv_timeout/try_recv, and after having been
   woken) at unobserved moments between the end of that poll (lo) and its next
   observed action (hi = begin of the next poll / the return): both readings are
   tried at either end.  Wake events are applied without moving the thread's clock. *)
Definition bpc_eqb (a b : bpc) : bool :=
  match a, b with
  | BPolling, BPolling | BChecking, BChecking | BWoken, BWoken | BLastPoll, BLastPoll => true
  | BWaiting x, BWaiting y => x =? y
  | BDone (BOk v) x, BDone (BOk w) y => (v =? w) && (x =? y)
  | BDone BTimeout x, BDone BTimeout y => x =? y
  | _, _ => false
  end.
Definition cand_eqb (a b : bst) : bool :=
  bpc_eqb (b_pc a) (b_pc b) && Bool.eqb (b_tok a) (b_tok b) && (b_clock a =? b_clock b) &&
  Bool.eqb (match b_done a with Some _ => true | None => false end)
           (match b_done b with Some _ => true | None => false end).
Fixpoint dedup (l : list bst) : list bst :=
  match l with
  | [] => []
  | x :: t => if existsb (cand_eqb x) t then dedup t else x :: dedup t
  end.

(* from BChecking: first reading at c1, recv (if a token is there), second reading at c2 *)
Definition after_pending (s : bst) (c1 c2 : Z) : bst :=
  let s1 := bstep (btick s c1) BCheck in
  let s2 := match b_pc s1 with BWaiting _ => bstep s1 BRecvOk | _ => s1 end in
  match b_pc s2 with
  | BWoken => bstep (btick s2 c2) BCheck2
  | _ => s2
  end.

Definition expand (lo hi : Z) (s : bst) : list bst :=
  match b_pc s with
  | BChecking => [after_pending s lo lo; after_pending s lo hi; after_pending s hi hi]
  | _ => [s]
  end.

Record brs : Type := mkBr {
  br_c : list bst;         (* candidates *)
  br_side : list bst;      (* the candidates as they were before the first wake logged after the time
                              limit: the thread may have timed out before that wake (its return is
                              logged later); only used to explain a Timeout return *)
  br_lo : Z;               (* end of the last Pending poll *)
  br_seen : list Z;        (* stages for which a wake was seen *)
  br_ret : option (Z * Z)
}.

Definition can_poll (s : bst) : bool :=
  match b_pc s with BPolling | BLastPoll => true | _ => false end.

Definition bt_ev (stages : list stage) (r : brs) (e : bev) : brs :=
  let cpl := completes stages (br_seen r) e in
  match e with
  | XStart _ => r
  | XPollP t0 t1 =>
      let cs := flat_map (expand (br_lo r) t0) (br_c r) in
      let cs := map (fun s => bstep (btick s t0) BPoll) (filter can_poll cs) in
      mkBr (dedup cs) [] t1 (br_seen r) (br_ret r)
  | XPollR t0 t1 =>
      let cs := flat_map (expand (br_lo r) t0) (br_c r) in
      let cs := map (fun s => bstep (btick s t1) BPoll) (filter can_poll cs) in
      mkBr (dedup (filter (fun s => match b_pc s with BDone (BOk _) _ => true | _ => false end) cs))
           [] t1 (br_seen r) (br_ret r)
  | XWake st t =>
      let f := fun s => bstep s (if cpl then BComplete else BSpurious) in
      let side := match br_side r with
                  | [] => if existsb (fun s => b_start s + b_dur s <=? t) (br_c r) then br_c r else []
                  | l => l
                  end in
      mkBr (map f (br_c r)) side (br_lo r) (st :: br_seen r) (br_ret r)
  | XTe st t =>
      if cpl then mkBr (map (fun s => bstep s BComplete) (br_c r)) (br_side r) (br_lo r) (br_seen r) (br_ret r)
      else r
  | XWoke _ _ | XTs _ _ _ => r
  | XRet t code v =>
      let cs := flat_map (expand (br_lo r) t) (br_c r ++ br_side r) in
      (* blocked in recv_timeout without a token: it times out *)
      let cs := map (fun s => match b_pc s with
                              | BWaiting _ => bstep (btick s t) BRecvTimeout
                              | _ => s
                              end) cs in
      mkBr (dedup cs) [] (br_lo r) (br_seen r) (Some (code, v))
  | _ => mkBr [] [] (br_lo r) (br_seen r) (br_ret r)
  end.

Definition bt_replay (stages : list stage) (evs : list bev) (r : brs) : brs :=
  fold_left (bt_ev stages) evs r.

Definition ret_time (evs : list bev) : Z :=
  fold_left (fun a e => match e with XRet t _ _ => t | _ => a end) evs 0.
Definition start_time (evs : list bev) : Z :=
  fold_left (fun a e => match e with XStart t => t | _ => a end) evs 0.
Definition first_poll_time (evs : list bev) : Z :=
  match find (fun e => match e with XPollP _ _ | XPollR _ _ => true | _ => false end) evs with
  | Some (XPollP t0 _) => t0
  | Some (XPollR t0 _) => t0
  | _ => start_time evs
  end.

Definition bt_model_with (start dur val : Z) (stages : list stage) (evs : list bev) : bool :=
  let s0 := match stages with [] => bstep (binit start dur val) BComplete | _ => binit start dur val end in
  let r := bt_replay stages evs (mkBr [s0] [] start [] None) in
  match br_ret r with
  | Some (1, v) => existsb (fun s => match b_pc s with BDone (BOk v') _ => v' =? v | _ => false end) (br_c r)
  | Some (0, _) => existsb (fun s => match b_pc s with BDone BTimeout _ => true | _ => false end) (br_c r)
  | _ => false
  end.

(* start_instant lies between the call and the first poll: either bound may be the
   one under which the model reproduces the run *)
Definition bt_model_ok (dur val : Z) (stages : list stage) (evs : list bev) : bool :=
  bt_model_with (start_time evs) dur val stages evs ||
  bt_model_with (first_poll_time evs) dur val stages evs.

(* ---- oracle ---- *)
Definition ret_of (evs : list bev) : option (Z * Z) :=
  fold_left (fun a e => match e with XRet _ c v => Some (c, v) | _ => a end) evs None.
(* the moment the completing wake call had returned (Ext / Yield final stage) *)
Definition completed_at (stages : list stage) (evs : list bev) : option Z :=
  match final_stage stages with
  | GExt | GYield =>
      match find (fun e => match e with XWoke st _ => st =? final_idx stages | _ => false end) evs with
      | Some (XWoke _ t) => Some t
      | _ => None
      end
  | _ => None
  end.

(* sleeps inside the future never complete early *)
Definition stage_sleeps_ok (evs : list bev) : bool :=
  forallb (fun e => match e with
                    | XTe st t =>
                        match find (fun x => match x with XTs s' _ _ => s' =? st | _ => false end) evs with
                        | Some (XTs _ ts dur) => ts + dur <? t
                        | _ => false
                        end
                    | _ => true
                    end) evs.

Definition bt_oracle_ok (dur val : Z) (stages : list stage) (evs : list bev) : bool :=
  stage_sleeps_ok evs &&
  match ret_of evs with
  | Some (1, v) => v =? val
  | Some (0, _) =>
      (* Timeout: not before the duration has passed ... *)
      (start_time evs + dur <=? ret_time evs) &&
      (* ... and not when the future had completed (and its wake call had returned)
         within the duration *)
      match completed_at stages evs with
      | Some tc => start_time evs + dur <? tc
      | None => true
      end
  | _ => false
  end.

(* ================================================================ block_on *)
Fixpoint bo_replay (stages : list stage) (evs : list bev) (s : ost) (seen : list Z) : option ost :=
  match evs with
  | [] => Some s
  | e :: t =>
      let cpl := completes stages seen e in
      let s1 := if cpl then ostep s NComplete else s in
      let seen1 := match e with XWake st _ => st :: seen | _ => seen end in
      match e with
      | XPollP _ _ =>
          let s2 := ostep (ostep s1 NUnpark) NPoll in
          match o_pc s2 with OParked => bo_replay stages t s2 seen1 | _ => None end
      | XPollR _ _ =>
          let s2 := ostep (ostep s1 NUnpark) NPoll in
          match o_pc s2 with ODone _ => bo_replay stages t s2 seen1 | _ => None end
      | XSpawn _ _ | XTaskDone _ _ | XJoin _ _ => None
      | _ => bo_replay stages t s1 seen1
      end
  end.

Definition bo_model_ok (val : Z) (stages : list stage) (evs : list bev) : bool :=
  let s0 := match stages with [] => ostep (oinit val) NComplete | _ => oinit val end in
  match bo_replay stages evs s0 [], ret_of evs with
  | Some s, Some (1, v) => match o_pc s with ODone v' => v' =? v | _ => false end
  | _, _ => false
  end.

Definition bo_oracle_ok (val : Z) (evs : list bev) : bool :=
  stage_sleeps_ok evs &&
  match ret_of evs with Some (1, v) => v =? val | _ => false end.

(* ================================================================ executor *)
Definition count_done (i : Z) (evs : list bev) : nat :=
  length (filter (fun e => match e with XTaskDone j _ => j =? i | _ => false end) evs).
Definition time_of (p : bev -> option Z) (evs : list bev) : option Z :=
  fold_left (fun a e => match p e with Some t => Some t | None => a end) evs None.

Definition ex_ok (n : Z) (evs : list bev) : bool :=
  stage_sleeps_ok evs &&
  forallb (fun i =>
    let i := Z.of_nat i in
    Nat.eqb (count_done i evs) 1 &&
    match time_of (fun e => match e with XSpawn j t => if j =? i then Some t else None | _ => None end) evs,
          time_of (fun e => match e with XTaskDone j t => if j =? i then Some t else None | _ => None end) evs,
          time_of (fun e => match e with XJoin j t => if j =? i then Some t else None | _ => None end) evs with
    | Some ts, Some td, Some tj => (ts <=? td) && (td <=? tj)
    | _, _, _ => false
    end) (seq 0 (Z.to_nat n)).

(* ================================================================ entry points *)
Definition C42_model_ok (c : C42_case) : bool :=
  match c with
  | CTimer exact evs ok alive => timer_model_ok exact evs ok alive
  | CBt dur val stages evs => bt_model_ok dur val stages evs
  | CBo val stages evs => bo_model_ok val stages evs
  | CEx n evs => ex_ok n evs
  end.

Definition C42_oracle_ok (c : C42_case) : bool :=
  match c with
  | CTimer _ evs ok alive => timer_oracle_ok evs ok alive
  | CBt dur val stages evs => bt_oracle_ok dur val stages evs
  | CBo val _ evs => bo_oracle_ok val evs
  | CEx n evs => ex_ok n evs
  end.

(* no known class is left (C42-timeout-unseen-wake fixed by 8591c31) *)
Definition C42_known (c : C42_case) : N := 0%N.
