(* Proofs about the lifespan model (C29). *)
From DustDDS Require Import Base.Machine Sched.LifespanModel.
From Coq Require Import Lia ZArith List Bool.
Import ListNotations.
Open Scope Z_scope.

(* ------------------------------------------------------------------ writer side, one step *)
(* a sample that is already expired when written is neither stored nor sent *)
Theorem expired_at_write_dropped L s ts send :
  ts + L <= l_now s ->
  l_hist (lstep L s (LWrite ts send)) = l_hist s /\ l_flight (lstep L s (LWrite ts send)) = l_flight s.
Proof.
  intros H. unfold lstep, expired. destruct (ts + L <=? l_now s) eqn:E; [split; reflexivity|].
  apply Z.leb_gt in E. lia.
Qed.
(* ... and one that is not expired is stored and (with a matched reader) sent *)
Theorem live_at_write_kept L s ts :
  l_now s < ts + L ->
  l_hist (lstep L s (LWrite ts true)) = l_hist s ++ [(l_next s, ts)] /\
  l_flight (lstep L s (LWrite ts true)) = l_flight s ++ [(l_next s, ts)].
Proof.
  intros H. unfold lstep, expired. destruct (ts + L <=? l_now s) eqn:E; [apply Z.leb_le in E; lia|].
  split; reflexivity.
Qed.

(* right after a worker iteration the history holds unexpired changes only *)
Theorem hist_unexpired_after_wake L s c :
  In c (l_hist (lstep L s LWake)) -> l_now (lstep L s LWake) < snd c + L.
Proof.
  cbn [lstep l_hist l_now]. intros H. apply filter_In in H. destruct H as [_ H].
  unfold expired in H. apply negb_true_iff, Z.leb_gt in H. exact H.
Qed.

(* hence whatever a repair or a late-joiner transmission puts on the wire in that iteration
   is unexpired at that time *)
Theorem sent_after_wake_fresh L s c :
  In c (l_flight (lstep L (lstep L s LWake) LSendAll)) ->
  In c (l_flight s) \/ l_now s < snd c + L.
Proof.
  intros H. change (l_flight (lstep L (lstep L s LWake) LSendAll))
    with (l_flight s ++ l_hist (lstep L s LWake)) in H.
  apply in_app_or in H. destruct H as [H|H]; [left; exact H | right].
  apply hist_unexpired_after_wake in H. exact H.
Qed.

(* ------------------------------------------------------------------ coherence invariant *)
Definition carried (s : lstate) : list change := l_hist s ++ l_flight s ++ l_held s ++ l_cache s.
Definition uniq (l : list change) : Prop := forall sn ts ts', In (sn, ts) l -> In (sn, ts') l -> ts = ts'.
Definition coh (s : lstate) : Prop :=
  incl (carried s) (l_written s) /\
  (forall p, In p (l_pres s) -> In (fst p) (l_written s)) /\
  (forall c, In c (l_written s) -> fst c < l_next s) /\
  uniq (l_written s).

Lemma deliver_incl : forall msgs seen cache c,
  In c (snd (deliver seen cache msgs)) -> In c cache \/ In c msgs.
Proof.
  induction msgs as [|m r IH]; intros seen cache c H; cbn [deliver] in H; [left; exact H|].
  destruct (existsb (Z.eqb (fst m)) seen).
  - destruct (IH _ _ _ H) as [H1|H1]; [left; exact H1 | right; right; exact H1].
  - destruct (IH _ _ _ H) as [H1|H1]; [|right; right; exact H1].
    apply in_app_or in H1. destruct H1 as [H1|[<-|[]]]; [left; exact H1 | right; left; reflexivity].
Qed.

Ltac in_apps :=
  repeat match goal with
         | H : In _ (_ ++ _) |- _ => apply in_app_or in H; destruct H as [H|H]
         end.

Lemma coh_init t0 : coh (linit t0).
Proof.
  unfold coh, carried, linit, uniq; cbn [l_hist l_flight l_held l_cache l_written l_pres l_next app].
  split; [intros c [] | split; [intros p [] | split; [intros c [] | intros sn ts ts' []]]].
Qed.

Lemma coh_step L s o : coh s -> coh (lstep L s o).
Proof.
  intros (Hc & Hp & Hn & Hu). unfold carried in Hc.
  assert (Hc' : forall c, In c (l_hist s) \/ In c (l_flight s) \/ In c (l_held s) \/ In c (l_cache s) -> In c (l_written s)).
  { intros c H. apply Hc. repeat rewrite in_app_iff. tauto. }
  destruct o; unfold coh, carried; cbn [lstep].
  - (* LWrite *)
    assert (Hu' : uniq (l_written s ++ [(l_next s, ts)])).
    { intros sn t1 t2 H1 H2. apply in_app_or in H1. apply in_app_or in H2.
      destruct H1 as [H1|[H1|[]]], H2 as [H2|[H2|[]]].
      - eapply Hu; eauto.
      - injection H2 as <- <-. apply Hn in H1. cbn [fst] in H1. lia.
      - injection H1 as <- <-. apply Hn in H2. cbn [fst] in H2. lia.
      - congruence. }
    destruct (expired L (l_now s) ts); cbn [l_hist l_flight l_held l_cache l_written l_pres l_next];
      (split; [|split; [|split; [|exact Hu']]]).
    + intros c H. apply in_or_app. left. apply Hc'. repeat rewrite in_app_iff in H. tauto.
    + intros p H. apply in_or_app. left. apply Hp, H.
    + intros c H. apply in_app_or in H. destruct H as [H|[<-|[]]]; [apply Hn in H; lia | cbn [fst]; lia].
    + intros c H. repeat rewrite in_app_iff in H. apply in_or_app.
      assert (In c (l_written s) \/ c = (l_next s, ts)) as [X|X].
      { destruct send; repeat rewrite in_app_iff in H; cbn [In] in H;
          intuition (try (left; apply Hc'; tauto); auto). }
      * left; exact X.
      * right; left; symmetry; exact X.
    + intros p H. apply in_or_app. left. apply Hp, H.
    + intros c H. apply in_app_or in H. destruct H as [H|[<-|[]]]; [apply Hn in H; lia | cbn [fst]; lia].
  - (* LWake *)
    cbn [l_hist l_flight l_held l_cache l_written l_pres l_next]. repeat split; try assumption.
    intros c H. repeat rewrite in_app_iff in H. apply Hc'.
    destruct H as [H|H]; [apply filter_In in H; tauto | tauto].
  - (* LSendAll *)
    cbn [l_hist l_flight l_held l_cache l_written l_pres l_next]. repeat split; try assumption.
    intros c H. repeat rewrite in_app_iff in H. apply Hc'. tauto.
  - (* LSend *)
    cbn [l_hist l_flight l_held l_cache l_written l_pres l_next]. repeat split; try assumption.
    intros c H. repeat rewrite in_app_iff in H. apply Hc'.
    destruct H as [H|[[H|H]|H]]; try tauto. apply filter_In in H. tauto.
  - (* LDeliverAll *)
    destruct (deliver (l_seen s) (l_cache s) (l_flight s)) as [seen cache] eqn:E.
    cbn [l_hist l_flight l_held l_cache l_written l_pres l_next]. repeat split; try assumption.
    intros c H. repeat rewrite in_app_iff in H. apply Hc'.
    destruct H as [H|[[]|[H|H]]]; try tauto.
    assert (X := deliver_incl (l_flight s) (l_seen s) (l_cache s) c). rewrite E in X. cbn [snd] in X.
    destruct (X H); tauto.
  - (* LHoldAll *)
    cbn [l_hist l_flight l_held l_cache l_written l_pres l_next]. repeat split; try assumption.
    intros c H. repeat rewrite in_app_iff in H. apply Hc'. cbn [In] in H. tauto.
  - (* LRelease *)
    cbn [l_hist l_flight l_held l_cache l_written l_pres l_next]. repeat split; try assumption.
    intros c H. repeat rewrite in_app_iff in H. apply Hc'. cbn [In] in H. tauto.
  - (* LTake *)
    cbn [l_hist l_flight l_held l_cache l_written l_pres l_next]. repeat split; try assumption.
    + intros c H. repeat rewrite in_app_iff in H. apply Hc'. cbn [In] in H. tauto.
    + intros p H. apply in_app_or in H. destruct H as [H|H]; [apply Hp, H|].
      apply in_map_iff in H. destruct H as [c [<- H]]. cbn [fst]. destruct c as [a b]. apply Hc'. tauto.
  - (* LRead *)
    cbn [l_hist l_flight l_held l_cache l_written l_pres l_next]. repeat split; try assumption.
    intros p H. apply in_app_or in H. destruct H as [H|H]; [apply Hp, H|].
    apply in_map_iff in H. destruct H as [c [<- H]]. cbn [fst]. destruct c as [a b]. apply Hc'. tauto.
  - (* LTick *)
    cbn [l_hist l_flight l_held l_cache l_written l_pres l_next]. repeat split; assumption.
Qed.

Lemma coh_run L : forall ops s, coh s -> coh (lrun L ops s).
Proof. induction ops as [|o r IH]; intros s H; [exact H|]. apply (IH (lstep L s o)), coh_step, H. Qed.

Lemma lookup_in l : uniq l -> forall sn ts, In (sn, ts) l -> lookup sn l = Some ts.
Proof.
  induction l as [|c r IH]; intros Hu sn ts H; [destruct H|]. cbn [lookup].
  destruct (fst c =? sn) eqn:E.
  - apply Z.eqb_eq in E. f_equal. destruct c as [a b]. cbn [fst snd] in *. subst a.
    apply (Hu sn b ts); [left; reflexivity | exact H].
  - apply Z.eqb_neq in E. destruct H as [H|H]; [subst c; cbn [fst] in E; congruence|].
    apply IH; [|exact H]. intros a t1 t2 H1 H2. apply (Hu a); right; assumption.
Qed.

(* C29 outside the recorded class: on EVERY schedule of writes, worker iterations,
   (re)transmissions, deliveries, holds, reads and takes, if no sample is read/taken at or
   after (the timestamp it was written with) + lifespan, no expired sample is presented —
   i.e. what the reader presents always carries the writer's own timestamp *)
Theorem no_expired_presented_unless_late L t0 ops :
  late L (lrun L ops (linit t0)) = false -> no_expired_presented L (lrun L ops (linit t0)).
Proof.
  intros Hl sn ts T Hin. pose proof (coh_run L ops _ (coh_init t0)) as (Hc & Hp & Hn & Hu).
  set (s := lrun L ops (linit t0)) in *.
  unfold late in Hl.
  destruct (existsb_exists (fun p => match lookup (fst (fst p)) (l_written s) with
                                     | Some ts0 => ts0 + L <=? snd p | None => true end) (l_pres s)) as [_ X].
  assert (Y : (match lookup sn (l_written s) with Some ts0 => ts0 + L <=? T | None => true end) = false).
  { destruct (match lookup sn (l_written s) with Some ts0 => ts0 + L <=? T | None => true end) eqn:E; [|reflexivity].
    rewrite X in Hl; [discriminate|]. exists (sn, ts, T). split; [exact Hin | exact E]. }
  rewrite (lookup_in _ Hu sn ts (Hp _ Hin)) in Y. apply Z.leb_gt in Y. exact Y.
Qed.

(* ------------------------------------------------------------------ expired at write: never presented *)
Definition absent (x : Z) (s : lstate) : Prop :=
  (forall c, In c (carried s) -> fst c <> x) /\ (forall p, In p (l_pres s) -> fst (fst p) <> x) /\ x < l_next s.

Lemma absent_step L x s o : absent x s -> absent x (lstep L s o).
Proof.
  intros (Ha & Hp & Hn). unfold carried in Ha.
  assert (Ha' : forall c, In c (l_hist s) \/ In c (l_flight s) \/ In c (l_held s) \/ In c (l_cache s) -> fst c <> x).
  { intros c H. apply Ha. repeat rewrite in_app_iff. tauto. }
  destruct o; unfold absent, carried; cbn [lstep].
  - destruct (expired L (l_now s) ts); cbn [l_hist l_flight l_held l_cache l_pres l_next];
      (split; [|split; [exact Hp | lia]]).
    + intros c H. apply Ha'. repeat rewrite in_app_iff in H. tauto.
    + intros c H. repeat rewrite in_app_iff in H.
      assert ((In c (l_hist s) \/ In c (l_flight s) \/ In c (l_held s) \/ In c (l_cache s)) \/ c = (l_next s, ts)) as [X|X].
      { destruct send; repeat rewrite in_app_iff in H; cbn [In] in H; intuition auto. }
      * apply Ha', X.
      * subst c. cbn [fst]. lia.
  - cbn [l_hist l_flight l_held l_cache l_pres l_next]. repeat split; try assumption.
    intros c H. repeat rewrite in_app_iff in H. apply Ha'.
    destruct H as [H|H]; [apply filter_In in H; tauto | tauto].
  - cbn [l_hist l_flight l_held l_cache l_pres l_next]. repeat split; try assumption.
    intros c H. repeat rewrite in_app_iff in H. apply Ha'. tauto.
  - cbn [l_hist l_flight l_held l_cache l_pres l_next]. repeat split; try assumption.
    intros c H. repeat rewrite in_app_iff in H. apply Ha'.
    destruct H as [H|[[H|H]|H]]; try tauto. apply filter_In in H. tauto.
  - destruct (deliver (l_seen s) (l_cache s) (l_flight s)) as [seen cache] eqn:E.
    cbn [l_hist l_flight l_held l_cache l_pres l_next]. repeat split; try assumption.
    intros c H. repeat rewrite in_app_iff in H. apply Ha'.
    destruct H as [H|[[]|[H|H]]]; try tauto.
    assert (X := deliver_incl (l_flight s) (l_seen s) (l_cache s) c). rewrite E in X. cbn [snd] in X.
    destruct (X H); tauto.
  - cbn [l_hist l_flight l_held l_cache l_pres l_next]. repeat split; try assumption.
    intros c H. repeat rewrite in_app_iff in H. apply Ha'. cbn [In] in H. tauto.
  - cbn [l_hist l_flight l_held l_cache l_pres l_next]. repeat split; try assumption.
    intros c H. repeat rewrite in_app_iff in H. apply Ha'. cbn [In] in H. tauto.
  - cbn [l_hist l_flight l_held l_cache l_pres l_next]. repeat split; try assumption.
    + intros c H. repeat rewrite in_app_iff in H. apply Ha'. cbn [In] in H. tauto.
    + intros p H. apply in_app_or in H. destruct H as [H|H]; [apply Hp, H|].
      apply in_map_iff in H. destruct H as [c [<- H]]. cbn [fst]. apply Ha'. tauto.
  - cbn [l_hist l_flight l_held l_cache l_pres l_next]. repeat split; try assumption.
    intros p H. apply in_app_or in H. destruct H as [H|H]; [apply Hp, H|].
    apply in_map_iff in H. destruct H as [c [<- H]]. cbn [fst]. apply Ha'. tauto.
  - cbn [l_hist l_flight l_held l_cache l_pres l_next]. repeat split; assumption.
Qed.
Lemma absent_run L x : forall ops s, absent x s -> absent x (lrun L ops s).
Proof. induction ops as [|o r IH]; intros s H; [exact H|]. apply (IH (lstep L s o)), absent_step, H. Qed.

(* every carried / presented sequence number is below l_next *)
Definition below (s : lstate) : Prop :=
  (forall c, In c (carried s) -> fst c < l_next s) /\ (forall p, In p (l_pres s) -> fst (fst p) < l_next s).
Lemma below_of_coh s : coh s -> below s.
Proof.
  intros (Hc & Hp & Hn & _). split.
  - intros c H. apply Hn, Hc, H.
  - intros p H. apply (Hn (fst p)), Hp, H.
Qed.

(* a sample that is expired when written (first transmission) is never presented, whatever
   happens afterwards (repairs, late joiners, delays) *)
Theorem expired_at_write_never_presented L t0 ops1 ts send ops2 :
  let s := lrun L ops1 (linit t0) in
  ts + L <= l_now s ->
  forall ts' T, ~ In (l_next s, ts', T) (l_pres (lrun L ops2 (lstep L s (LWrite ts send)))).
Proof.
  intros s Hexp ts' T Hin.
  assert (Hb : below s) by (apply below_of_coh, coh_run, coh_init).
  assert (Ha : absent (l_next s) (lstep L s (LWrite ts send))).
  { destruct Hb as [B1 B2]. unfold absent, carried. cbn [lstep]. unfold expired.
    destruct (ts + L <=? l_now s) eqn:E; [|apply Z.leb_gt in E; lia].
    cbn [l_hist l_flight l_held l_cache l_pres l_next]. repeat split.
    - intros c H. apply B1 in H. lia.
    - intros p H. apply B2 in H. lia.
    - lia. }
  destruct (absent_run L _ ops2 _ Ha) as (_ & Hp & _). apply (Hp _ Hin). reflexivity.
Qed.

(* ------------------------------------------------------------------ the unrestricted claim is false *)
(* (1) a datagram delivered after the lifespan: written at 0 with lifespan 200, held by the
       network, delivered and taken at 201 (the writer cleaned up in time) *)
Theorem no_expired_presented_refuted_by_delay :
  exists L ops, ~ no_expired_presented L (lrun L ops (linit 0)).
Proof.
  exists 200, [LWrite 0 true; LWake; LHoldAll; LTick 201; LWake; LRelease; LDeliverAll; LTake].
  intros H. assert (X : 201 < 0 + 200) by (apply (H 1 0 201); vm_compute; left; reflexivity). lia.
Qed.
(* (2) a repair / late-joiner transmission between two worker iterations resends a change
       that has expired since the last cleanup *)
Theorem no_expired_presented_refuted_by_repair :
  exists L ops, ~ no_expired_presented L (lrun L ops (linit 0)).
Proof.
  exists 200, [LWrite 0 false; LWake; LTick 201; LSendAll; LDeliverAll; LTake].
  intros H. assert (X : 201 < 0 + 200) by (apply (H 1 0 201); vm_compute; left; reflexivity). lia.
Qed.
