(* Proofs about the channel models (ChannelsModel.v). *)
From DustDDS Require Import Base.Machine Sched.ChannelsModel.
Open Scope Z_scope.

(* ------------------------------------------------------------ histories *)
Section ExecLemmas.
  Context {S : Type} (step : S -> op -> S * out).
  Lemma run_app s a b : run step s (a ++ b) = run step (run step s a) b.
  Proof. unfold run. apply fold_left_app. Qed.
  Lemma run_snoc s a o : run step s (a ++ [o]) = fst (step (run step s a) o).
  Proof. rewrite run_app. reflexivity. Qed.
  Lemma run_cons s o t : run step s (o :: t) = run step (fst (step s o)) t.
  Proof. reflexivity. Qed.
  Lemma trace_app s a b :
    trace step s (a ++ b) = trace step s a ++ trace step (run step s a) b.
  Proof. revert s; induction a as [|o a IH]; intros s; cbn [trace app]; [reflexivity|].
         f_equal. rewrite IH. reflexivity. Qed.
  Lemma trace_snoc s a o :
    trace step s (a ++ [o]) = trace step s a ++ [(o, snd (step (run step s a) o))].
  Proof. rewrite trace_app. reflexivity. Qed.
End ExecLemmas.

Lemma sent_vals_app a b : sent_vals (a ++ b) = sent_vals a ++ sent_vals b.
Proof. apply flat_map_app. Qed.
Lemma recv_vals_app a b : recv_vals (a ++ b) = recv_vals a ++ recv_vals b.
Proof. apply flat_map_app. Qed.
Lemma wakes_app a b : wakes (a ++ b) = wakes a ++ wakes b.
Proof. apply flat_map_app. Qed.
Lemma sent_vals_one e : sent_vals [e] = sent_of e.
Proof. unfold sent_vals; cbn. apply app_nil_r. Qed.
Lemma recv_vals_one e : recv_vals [e] = recv_of e.
Proof. unfold recv_vals; cbn. apply app_nil_r. Qed.

(* ------------------------------------------------------------ handle tables *)
Lemma hset_length hs h x : length (hset hs h x) = length hs.
Proof. revert h; induction hs as [|y t IH]; intros [|h]; cbn; auto. Qed.

Lemma live_count_app hs : live_count (hs ++ [HLive]) = live_count hs + 1.
Proof. unfold live_count. rewrite filter_app, app_length. cbn. lia. Qed.

Lemma live_count_nonneg hs : 0 <= live_count hs.
Proof. unfold live_count. lia. Qed.

Lemma live_count_drop hs h :
  undropped (hget hs h) = true -> live_count (hset hs h HDead) = live_count hs - 1.
Proof.
  unfold hget, live_count. revert h; induction hs as [|y t IH]; intros h Hh.
  - destruct h; discriminate.
  - destruct h as [|h]; cbn [nth hset filter] in *.
    + rewrite Hh. cbn [undropped length]. lia.
    + specialize (IH h Hh). destruct (undropped y); cbn [length]; lia.
Qed.

Lemma all_dropped_count hs : all_dropped hs = (live_count hs =? 0).
Proof.
  unfold all_dropped, live_count. induction hs as [|y t IH]; [reflexivity|].
  cbn [forallb filter]. destruct (undropped y); cbn [negb andb length].
  - symmetry. apply Z.eqb_neq. lia.
  - exact IH.
Qed.

Lemma live_count_le_length hs : live_count hs <= Z.of_nat (length hs).
Proof.
  unfold live_count. induction hs as [|y t IH]; [cbn; lia|].
  cbn [filter]. destruct (undropped y); cbn [length]; lia.
Qed.

Lemma live_count_pos hs h : undropped (hget hs h) = true -> 1 <= live_count hs.
Proof.
  intros Hu. pose proof (live_count_drop hs h Hu). pose proof (live_count_nonneg (hset hs h HDead)). lia.
Qed.

(* ------------------------------------------------------------------- mpsc *)
Definition mrun := run mpsc_step mpsc_init.
Definition mtrace := trace mpsc_step mpsc_init.

Ltac mpsc_cases s o :=
  destruct s as [[d wk cl cnt] hs rc]; destruct o as [h v|h|h|pw|];
  unfold mpsc_step, mpsc_send_body, mpsc_clone_body, mpsc_drop_body, mpsc_poll_body;
  cbn [m_in m_senders m_recv mi_data mi_waker mi_closed mi_count].

(* sender_count is the number of sender handles not yet dropped, and the channel is closed
   exactly when that number is zero *)
Definition mpsc_cinv (s : mpsc) : Prop :=
  mi_count (m_in s) = live_count (m_senders s) /\ mi_closed (m_in s) = (mi_count (m_in s) =? 0).

Lemma mpsc_cinv_step s o : mpsc_cinv s -> mpsc_cinv (fst (mpsc_step s o)).
Proof.
  unfold mpsc_cinv. mpsc_cases s o; intros [Hc Hcl].
  - destruct (hget hs h); cbn; auto. destruct cl; cbn; auto.
  - destruct (hget hs h) eqn:Hh; cbn; auto.
    destruct (cnt + 1 <=? u64_max); cbn; auto.
    assert (Hu : undropped (hget hs h) = true) by (rewrite Hh; reflexivity).
    pose proof (live_count_pos hs h Hu). rewrite live_count_app. split; [lia|].
    rewrite Hcl. transitivity false; [|symmetry]; apply Z.eqb_neq; lia.
  - destruct (undropped (hget hs h)) eqn:Hu; cbn; auto.
    pose proof (live_count_drop hs h Hu) as Hd. pose proof (live_count_nonneg (hset hs h HDead)).
    destruct (0 <=? cnt - 1) eqn:Hz; cbn.
    + destruct (cnt - 1 =? 0) eqn:E; cbn; split; try lia.
      rewrite E, Hcl. apply Z.leb_le in Hz. apply Z.eqb_neq. lia.
    + apply Z.leb_gt in Hz. lia.
  - destruct rc; [destruct d; [destruct cl|]|]; cbn; auto.
  - destruct rc; cbn; auto.
Qed.

Lemma mpsc_cinv_run ops : mpsc_cinv (mrun ops).
Proof.
  induction ops as [|o ops IH] using rev_ind; [split; reflexivity|].
  unfold mrun in *. rewrite run_snoc. apply mpsc_cinv_step, IH.
Qed.

Lemma mpsc_count ops : mi_count (m_in (mrun ops)) = live_count (m_senders (mrun ops)).
Proof. apply mpsc_cinv_run. Qed.

Lemma mpsc_closed_iff ops : mi_closed (m_in (mrun ops)) = all_dropped (m_senders (mrun ops)).
Proof. rewrite all_dropped_count, <- mpsc_count. apply mpsc_cinv_run. Qed.

(* one step keeps "received ++ stored = sent" *)
Lemma mpsc_vals_step s o R :
  (R ++ recv_of (o, snd (mpsc_step s o))) ++ mi_data (m_in (fst (mpsc_step s o)))
  = (R ++ mi_data (m_in s)) ++ sent_of (o, snd (mpsc_step s o)).
Proof.
  mpsc_cases s o; cbn [recv_of sent_of].
  - destruct (hget hs h); cbn; rewrite ?app_nil_r; try reflexivity.
    destruct cl; cbn; rewrite ?app_nil_r, ?app_assoc; reflexivity.
  - destruct (hget hs h); cbn; rewrite ?app_nil_r; try reflexivity.
    destruct (cnt + 1 <=? u64_max); cbn; rewrite ?app_nil_r; reflexivity.
  - destruct (undropped (hget hs h)); cbn; rewrite ?app_nil_r; try reflexivity.
    destruct (0 <=? cnt - 1); [destruct (cnt - 1 =? 0)|]; cbn; rewrite ?app_nil_r; reflexivity.
  - destruct rc; [destruct d as [|x t]; [destruct cl|]|]; cbn; rewrite ?app_nil_r; try reflexivity.
    rewrite <- app_assoc. reflexivity.
  - destruct rc; cbn; rewrite ?app_nil_r; reflexivity.
Qed.

Lemma mpsc_fifo_exactly_once ops :
  recv_vals (mtrace ops) ++ mi_data (m_in (mrun ops)) = sent_vals (mtrace ops).
Proof.
  induction ops as [|o ops IH] using rev_ind; [reflexivity|].
  unfold mtrace, mrun in *. rewrite trace_snoc, run_snoc, recv_vals_app, sent_vals_app,
    recv_vals_one, sent_vals_one.
  rewrite mpsc_vals_step. rewrite IH. reflexivity.
Qed.

Lemma mpsc_delivers ops w v rest :
  m_recv (mrun ops) = true ->
  sent_vals (mtrace ops) = recv_vals (mtrace ops) ++ v :: rest ->
  o_ret (snd (mpsc_step (mrun ops) (Poll w))) = RReady v.
Proof.
  intros Hr Hs. rewrite <- mpsc_fifo_exactly_once in Hs. apply app_inv_head in Hs.
  destruct (mrun ops) as [[d wk cl cnt] hs rc]. cbn in *. subst. reflexivity.
Qed.

(* a live handle keeps the channel open: its sends are accepted *)
Lemma mpsc_send_accepted ops h v :
  hget (m_senders (mrun ops)) h = HLive ->
  o_ret (snd (mpsc_step (mrun ops) (Send h v))) = RUnit.
Proof.
  intros Hh. destruct (mpsc_cinv_run ops) as [Hc Hcl].
  assert (Hu : undropped (hget (m_senders (mrun ops)) h) = true) by (rewrite Hh; reflexivity).
  pose proof (live_count_pos _ _ Hu) as Hpos.
  destruct (mrun ops) as [[d wk cl cnt] hs rc].
  unfold mpsc_step, mpsc_send_body. cbn [m_in m_senders m_recv mi_data mi_waker mi_closed mi_count] in *.
  rewrite Hh, Hcl. replace (cnt =? 0) with false by (symmetry; apply Z.eqb_neq; lia). reflexivity.
Qed.

(* parked on an idle channel *)
Definition mpsc_parked (w : nat) (s : mpsc) : Prop :=
  mi_waker (m_in s) = Some w /\ mi_data (m_in s) = [] /\ mi_closed (m_in s) = false.

Lemma mpsc_pending_parks s w :
  o_ret (snd (mpsc_step s (Poll w))) = RPending -> mpsc_parked w (fst (mpsc_step s (Poll w))).
Proof.
  destruct s as [[d wk cl cnt] hs rc]. unfold mpsc_parked, mpsc_step, mpsc_poll_body.
  cbn [m_in m_senders m_recv mi_data mi_waker mi_closed mi_count].
  destruct rc; [destruct d; [destruct cl|]|]; cbn; intros H; try discriminate. auto.
Qed.

Lemma mpsc_parked_step s o w :
  mpsc_parked w s -> is_poll o = false ->
  mpsc_parked w (fst (mpsc_step s o)) \/ In w (o_woke (snd (mpsc_step s o))).
Proof.
  unfold mpsc_parked. mpsc_cases s o; intros (-> & -> & ->) Hp; try discriminate.
  - destruct (hget hs h); cbn; auto.
  - destruct (hget hs h); cbn; auto. destruct (cnt + 1 <=? u64_max); cbn; auto.
  - destruct (undropped (hget hs h)); cbn; auto.
    destruct (0 <=? cnt - 1); [destruct (cnt - 1 =? 0)|]; cbn; auto.
  - destruct rc; cbn; auto.
Qed.

Lemma mpsc_parked_run w mid : forall s,
  mpsc_parked w s -> no_poll mid = true ->
  mpsc_parked w (run mpsc_step s mid) \/ In w (wakes (trace mpsc_step s mid)).
Proof.
  induction mid as [|o mid IH]; intros s Hp Hn; [left; exact Hp|].
  cbn [no_poll forallb] in Hn. apply andb_prop in Hn as [Ho Hn].
  apply negb_true_iff in Ho. rewrite run_cons. cbn [trace wakes flat_map snd].
  destruct (mpsc_parked_step s o w Hp Ho) as [Hp'|Hw].
  - destruct (IH _ Hp' Hn) as [H|H]; [left; exact H|right]. apply in_or_app. right. exact H.
  - right. apply in_or_app. left. exact Hw.
Qed.

Lemma mpsc_parked_not_ready s w w' :
  mpsc_parked w s -> is_ready (o_ret (snd (mpsc_step s (Poll w')))) = false.
Proof.
  destruct s as [[d wk cl cnt] hs rc]. unfold mpsc_parked, mpsc_step, mpsc_poll_body.
  cbn [m_in m_senders m_recv mi_data mi_waker mi_closed mi_count]. intros (-> & -> & ->).
  destruct rc; reflexivity.
Qed.

Lemma mpsc_no_lost_wakeup pre w mid w' :
  let s0 := mrun pre in
  let s1 := fst (mpsc_step s0 (Poll w)) in
  o_ret (snd (mpsc_step s0 (Poll w))) = RPending ->
  no_poll mid = true ->
  is_ready (o_ret (snd (mpsc_step (run mpsc_step s1 mid) (Poll w')))) = true ->
  In w (wakes (trace mpsc_step s1 mid)).
Proof.
  intros s0 s1 Hp Hn Hr. subst s0 s1. apply mpsc_pending_parks in Hp.
  destruct (mpsc_parked_run w mid _ Hp Hn) as [H|H]; [|exact H].
  rewrite (mpsc_parked_not_ready _ _ w' H) in Hr. discriminate.
Qed.

(* the very step that makes the channel ready carries the wake *)
Lemma mpsc_send_wakes_parked pre w mid h v :
  let s1 := fst (mpsc_step (mrun pre) (Poll w)) in
  o_ret (snd (mpsc_step (mrun pre) (Poll w))) = RPending ->
  no_poll mid = true -> ~ In w (wakes (trace mpsc_step s1 mid)) ->
  o_ret (snd (mpsc_step (run mpsc_step s1 mid) (Send h v))) = RUnit ->
  o_woke (snd (mpsc_step (run mpsc_step s1 mid) (Send h v))) = [w].
Proof.
  intros s1 Hp Hn Hw Hs. subst s1. apply mpsc_pending_parks in Hp.
  destruct (mpsc_parked_run w mid _ Hp Hn) as [H|H]; [|contradiction].
  destruct (run mpsc_step _ mid) as [[d wk cl cnt] hs rc].
  destruct H as (H1 & H2 & H3).
  unfold mpsc_step, mpsc_send_body in *. cbn [m_in m_senders m_recv mi_data mi_waker mi_closed mi_count] in *.
  subst. destruct (hget hs h); cbn in *; try discriminate. reflexivity.
Qed.

(* disconnection: reported exactly when every sender handle is dropped and the queue is empty *)
Lemma mpsc_disconnect_iff ops w :
  m_recv (mrun ops) = true ->
  (o_ret (snd (mpsc_step (mrun ops) (Poll w))) = RClosed <->
   all_dropped (m_senders (mrun ops)) = true /\ recv_vals (mtrace ops) = sent_vals (mtrace ops)).
Proof.
  intros Hr. rewrite <- mpsc_closed_iff, <- mpsc_fifo_exactly_once.
  destruct (mrun ops) as [[d wk cl cnt] hs rc].
  unfold mpsc_step, mpsc_poll_body. cbn [m_in m_senders m_recv mi_data mi_waker mi_closed mi_count] in *.
  subst rc. destruct d as [|x t].
  - rewrite app_nil_r. destruct cl; cbn [fst snd o_ret]; split; intros H;
      try discriminate; try (destruct H; discriminate); auto.
  - cbn [fst snd o_ret]. split; [discriminate|]. intros [_ H]. exfalso.
    apply (f_equal (@length Z)) in H. rewrite app_length in H. cbn in H. lia.
Qed.

Lemma mpsc_senders_length ops : (length (m_senders (mrun ops)) <= 1 + length ops)%nat.
Proof.
  induction ops as [|o ops IH] using rev_ind; [cbn; lia|].
  unfold mrun in *. rewrite run_snoc, app_length. cbn [length].
  revert IH. generalize (run mpsc_step mpsc_init ops) as s. intros s.
  mpsc_cases s o; intros IH.
  - destruct (hget hs h); [destruct cl| |]; cbn; lia.
  - destruct (hget hs h); cbn; try lia. destruct (cnt + 1 <=? u64_max); cbn; rewrite ?app_length; cbn; lia.
  - destruct (undropped (hget hs h)); cbn; try lia.
    destruct (0 <=? cnt - 1); [destruct (cnt - 1 =? 0)|]; cbn; rewrite hset_length; lia.
  - destruct rc; [destruct d; [destruct cl|]|]; cbn; lia.
  - destruct rc; cbn; lia.
Qed.

Lemma mpsc_step_no_panic s o :
  mi_count (m_in s) = live_count (m_senders s) -> mi_count (m_in s) < u64_max ->
  o_ret (snd (mpsc_step s o)) <> RPanic.
Proof.
  mpsc_cases s o; intros Hc Hb.
  - destruct (hget hs h); [destruct cl| |]; cbn; discriminate.
  - destruct (hget hs h); cbn; try discriminate.
    destruct (cnt + 1 <=? u64_max) eqn:E; cbn; try discriminate. apply Z.leb_gt in E. lia.
  - destruct (undropped (hget hs h)) eqn:Hu; cbn; try discriminate.
    pose proof (live_count_drop hs h Hu). pose proof (live_count_nonneg (hset hs h HDead)).
    destruct (0 <=? cnt - 1) eqn:E; [destruct (cnt - 1 =? 0)|]; cbn; try discriminate.
    apply Z.leb_gt in E. lia.
  - destruct rc; [destruct d; [destruct cl|]|]; cbn; discriminate.
  - destruct rc; cbn; discriminate.
Qed.

Lemma mpsc_no_panic ops :
  Z.of_nat (length ops) < u64_max -> panics (mtrace ops) = false.
Proof.
  induction ops as [|o ops IH] using rev_ind; [reflexivity|].
  rewrite app_length. cbn [length]. intros Hb.
  unfold mtrace in *. rewrite trace_snoc. unfold panics in *. rewrite existsb_app.
  apply orb_false_iff. split; [apply IH; lia|].
  cbn [existsb orb snd]. rewrite orb_false_r.
  pose proof (mpsc_step_no_panic (mrun ops) o (mpsc_count ops)) as H.
  pose proof (mpsc_senders_length ops). pose proof (live_count_le_length (m_senders (mrun ops))).
  rewrite mpsc_count in H. unfold mrun in *.
  destruct (o_ret (snd (mpsc_step (run mpsc_step mpsc_init ops) o))); try reflexivity.
  exfalso. apply H; [lia|reflexivity].
Qed.

(* ----------------------------------------------------------- notification *)
Definition nrun := run notif_step notif_init.
Definition ntrace := trace notif_step notif_init.

Ltac notif_cases s o :=
  destruct s as [[nf wk cnt] hs rc]; destruct o as [h v|h|h|pw|];
  unfold notif_step, notif_notify_body, notif_clone_body, notif_drop_body, notif_poll_body;
  cbn [n_in n_senders n_recv ni_notified ni_waker ni_count].

(* sender_count is the number of sender handles that have not been dropped *)
Lemma notif_count_step s o :
  ni_count (n_in s) = live_count (n_senders s) ->
  ni_count (n_in (fst (notif_step s o))) = live_count (n_senders (fst (notif_step s o))).
Proof.
  notif_cases s o; intros Hc.
  - destruct (hget hs h); cbn; exact Hc.
  - destruct (hget hs h); cbn; try exact Hc.
    destruct (cnt + 1 <=? u64_max); cbn; [rewrite live_count_app; lia|exact Hc].
  - destruct (undropped (hget hs h)) eqn:Hu; cbn; [|exact Hc].
    pose proof (live_count_drop hs h Hu) as Hd.
    destruct (0 <=? cnt - 1) eqn:Hz; cbn.
    + destruct (cnt - 1 =? 0); cbn; lia.
    + apply Z.leb_gt in Hz. pose proof (live_count_nonneg (hset hs h HDead)). lia.
  - destruct rc; [destruct nf; [|destruct (cnt =? 0)]|]; cbn; exact Hc.
  - destruct rc; cbn; exact Hc.
Qed.

Lemma notif_count ops : ni_count (n_in (nrun ops)) = live_count (n_senders (nrun ops)).
Proof.
  induction ops as [|o ops IH] using rev_ind; [reflexivity|].
  unfold nrun in *. rewrite run_snoc. apply notif_count_step, IH.
Qed.

Lemma pending_notify_snoc tr e :
  pending_notify (tr ++ [e]) =
  match e with
  | (Send _ _, mkout RUnit _) => true
  | (Poll _, mkout (RReady _) _) => false
  | _ => pending_notify tr
  end.
Proof. unfold pending_notify. rewrite fold_left_app. reflexivity. Qed.

(* the flag is set iff a notify happened since the last successful poll *)
Lemma notif_flag ops : ni_notified (n_in (nrun ops)) = pending_notify (ntrace ops).
Proof.
  induction ops as [|o ops IH] using rev_ind; [reflexivity|].
  unfold nrun, ntrace in *. rewrite run_snoc, trace_snoc, pending_notify_snoc. rewrite <- IH.
  generalize (run notif_step notif_init ops) as s. intros s. clear IH.
  notif_cases s o.
  - destruct (hget hs h); reflexivity.
  - destruct (hget hs h); try reflexivity. destruct (cnt + 1 <=? u64_max); reflexivity.
  - destruct (undropped (hget hs h)); try reflexivity.
    destruct (0 <=? cnt - 1); try reflexivity. destruct (cnt - 1 =? 0); reflexivity.
  - destruct rc; [destruct nf; [|destruct (cnt =? 0)]|]; reflexivity.
  - destruct rc; reflexivity.
Qed.

Lemma notif_delivers ops w :
  n_recv (nrun ops) = true -> pending_notify (ntrace ops) = true ->
  o_ret (snd (notif_step (nrun ops) (Poll w))) = RReady 0.
Proof.
  intros Hr Hp. rewrite <- notif_flag in Hp.
  destruct (nrun ops) as [[nf wk cnt] hs rc]. cbn in *. subst. reflexivity.
Qed.

Lemma notif_ready_only_if_notified ops w v :
  o_ret (snd (notif_step (nrun ops) (Poll w))) = RReady v ->
  pending_notify (ntrace ops) = true /\ v = 0.
Proof.
  rewrite <- notif_flag. destruct (nrun ops) as [[nf wk cnt] hs rc].
  unfold notif_step, notif_poll_body; cbn [n_in n_senders n_recv ni_notified ni_waker ni_count].
  destruct rc; [destruct nf; [|destruct (cnt =? 0)]|]; cbn; intros H; try discriminate.
  inversion H. split; reflexivity.
Qed.

Lemma notif_disconnect_iff ops w :
  n_recv (nrun ops) = true ->
  (o_ret (snd (notif_step (nrun ops) (Poll w))) = RClosed <->
   all_dropped (n_senders (nrun ops)) = true /\ pending_notify (ntrace ops) = false).
Proof.
  intros Hr. rewrite <- notif_flag, all_dropped_count, <- notif_count.
  destruct (nrun ops) as [[nf wk cnt] hs rc].
  unfold notif_step, notif_poll_body; cbn [n_in n_senders n_recv ni_notified ni_waker ni_count] in *.
  subst rc.
  destruct nf; [|destruct (cnt =? 0)]; cbn [fst snd o_ret]; split; intros H;
    try discriminate; try (destruct H; discriminate); auto.
Qed.

Definition notif_parked (w : nat) (s : notif) : Prop :=
  ni_waker (n_in s) = Some w /\ ni_notified (n_in s) = false /\ 0 < ni_count (n_in s).

Lemma notif_pending_parks s w :
  0 <= ni_count (n_in s) ->
  o_ret (snd (notif_step s (Poll w))) = RPending -> notif_parked w (fst (notif_step s (Poll w))).
Proof.
  destruct s as [[nf wk cnt] hs rc]. unfold notif_parked, notif_step, notif_poll_body.
  cbn [n_in n_senders n_recv ni_notified ni_waker ni_count]. intros H0.
  destruct rc; [destruct nf; [|destruct (cnt =? 0) eqn:E]|]; cbn; intros H; try discriminate.
  apply Z.eqb_neq in E. repeat split; lia.
Qed.

Lemma notif_parked_step s o w :
  notif_parked w s -> is_poll o = false ->
  notif_parked w (fst (notif_step s o)) \/ In w (o_woke (snd (notif_step s o))).
Proof.
  unfold notif_parked. notif_cases s o; intros (-> & -> & Hc) Hp; try discriminate.
  - destruct (hget hs h); cbn; auto.
  - destruct (hget hs h); cbn; auto.
    destruct (cnt + 1 <=? u64_max); cbn; auto. left. repeat split; lia.
  - destruct (undropped (hget hs h)); cbn; auto.
    destruct (0 <=? cnt - 1) eqn:Hz; cbn; auto.
    destruct (cnt - 1 =? 0) eqn:E; cbn; auto.
    apply Z.eqb_neq in E. apply Z.leb_le in Hz. left. repeat split; lia.
  - destruct rc; cbn; auto.
Qed.

Lemma notif_parked_run w mid : forall s,
  notif_parked w s -> no_poll mid = true ->
  notif_parked w (run notif_step s mid) \/ In w (wakes (trace notif_step s mid)).
Proof.
  induction mid as [|o mid IH]; intros s Hp Hn; [left; exact Hp|].
  cbn [no_poll forallb] in Hn. apply andb_prop in Hn as [Ho Hn].
  apply negb_true_iff in Ho. rewrite run_cons. cbn [trace wakes flat_map snd].
  destruct (notif_parked_step s o w Hp Ho) as [Hp'|Hw].
  - destruct (IH _ Hp' Hn) as [H|H]; [left; exact H|right]. apply in_or_app. right. exact H.
  - right. apply in_or_app. left. exact Hw.
Qed.

Lemma notif_parked_not_ready s w w' :
  notif_parked w s -> is_ready (o_ret (snd (notif_step s (Poll w')))) = false.
Proof.
  destruct s as [[nf wk cnt] hs rc]. unfold notif_parked, notif_step, notif_poll_body.
  cbn [n_in n_senders n_recv ni_notified ni_waker ni_count]. intros (-> & -> & Hc).
  destruct rc; [|reflexivity]. destruct (cnt =? 0) eqn:E; [|reflexivity].
  apply Z.eqb_eq in E. lia.
Qed.

Lemma notif_no_lost_wakeup pre w mid w' :
  let s0 := nrun pre in
  let s1 := fst (notif_step s0 (Poll w)) in
  o_ret (snd (notif_step s0 (Poll w))) = RPending ->
  no_poll mid = true ->
  is_ready (o_ret (snd (notif_step (run notif_step s1 mid) (Poll w')))) = true ->
  In w (wakes (trace notif_step s1 mid)).
Proof.
  intros s0 s1 Hp Hn Hr. subst s0 s1. apply notif_pending_parks in Hp.
  - destruct (notif_parked_run w mid _ Hp Hn) as [H|H]; [|exact H].
    rewrite (notif_parked_not_ready _ _ w' H) in Hr. discriminate.
  - rewrite notif_count. apply live_count_nonneg.
Qed.

(* no overflow / underflow of sender_count *)
Lemma notif_senders_length ops : (length (n_senders (nrun ops)) <= 1 + length ops)%nat.
Proof.
  induction ops as [|o ops IH] using rev_ind; [cbn; lia|].
  unfold nrun in *. rewrite run_snoc, app_length. cbn [length].
  revert IH. generalize (run notif_step notif_init ops) as s. intros s.
  notif_cases s o; intros IH.
  - destruct (hget hs h); cbn; lia.
  - destruct (hget hs h); cbn; try lia. destruct (cnt + 1 <=? u64_max); cbn; rewrite ?app_length; cbn; lia.
  - destruct (undropped (hget hs h)); cbn; try lia.
    destruct (0 <=? cnt - 1); [destruct (cnt - 1 =? 0)|]; cbn; rewrite hset_length; lia.
  - destruct rc; [destruct nf; [|destruct (cnt =? 0)]|]; cbn; lia.
  - destruct rc; cbn; lia.
Qed.

Lemma notif_step_no_panic s o :
  ni_count (n_in s) = live_count (n_senders s) -> ni_count (n_in s) < u64_max ->
  o_ret (snd (notif_step s o)) <> RPanic.
Proof.
  notif_cases s o; intros Hc Hb.
  - destruct (hget hs h); cbn; discriminate.
  - destruct (hget hs h); cbn; try discriminate.
    destruct (cnt + 1 <=? u64_max) eqn:E; cbn; try discriminate. apply Z.leb_gt in E. lia.
  - destruct (undropped (hget hs h)) eqn:Hu; cbn; try discriminate.
    pose proof (live_count_drop hs h Hu). pose proof (live_count_nonneg (hset hs h HDead)).
    destruct (0 <=? cnt - 1) eqn:E; [destruct (cnt - 1 =? 0)|]; cbn; try discriminate.
    apply Z.leb_gt in E. lia.
  - destruct rc; [destruct nf; [|destruct (cnt =? 0)]|]; cbn; discriminate.
  - destruct rc; cbn; discriminate.
Qed.

Lemma notif_no_panic ops :
  Z.of_nat (length ops) < u64_max -> panics (ntrace ops) = false.
Proof.
  induction ops as [|o ops IH] using rev_ind; [reflexivity|].
  rewrite app_length. cbn [length]. intros Hb.
  unfold ntrace in *. rewrite trace_snoc. unfold panics in *. rewrite existsb_app.
  apply orb_false_iff. split; [apply IH; lia|].
  cbn [existsb orb snd]. rewrite orb_false_r.
  pose proof (notif_step_no_panic (nrun ops) o (notif_count ops)) as H.
  pose proof (notif_senders_length ops). pose proof (live_count_le_length (n_senders (nrun ops))).
  rewrite notif_count in H. unfold nrun in *.
  destruct (o_ret (snd (notif_step (run notif_step notif_init ops) o))); try reflexivity.
  exfalso. apply H; [lia|reflexivity].
Qed.

(* ---------------------------------------------------------------- oneshot *)
Definition orun := run oneshot_step oneshot_init.
Definition otrace := trace oneshot_step oneshot_init.

Definition oinv (s : oneshot) (R S : list Z) : Prop :=
  exists x, o_senders s = [x] /\ oi_has_sender (o_in s) = undropped x /\
    (x = HLive -> oi_data (o_in s) = None) /\ (x = HLive -> S = []) /\ (length S <= 1)%nat /\
    R ++ opt_list (oi_data (o_in s)) = S.

Lemma hget_single x h : hget [x] h = match h with O => x | _ => HDead end.
Proof. destruct h as [|[|h]]; reflexivity. Qed.

Ltac oneshot_cases s o :=
  destruct s as [[d wk hsd] hs rc]; destruct o as [h v|h|h|pw|];
  unfold oneshot_step, oneshot_send_body, oneshot_drop_body, oneshot_poll_body;
  cbn [o_in o_senders o_recv oi_data oi_waker oi_has_sender].

Ltac oinv_fin y :=
  exists y; cbn [o_in o_senders o_recv oi_data oi_waker oi_has_sender opt_list undropped];
  repeat split; intros; auto; try discriminate; try congruence.

Lemma oneshot_inv_step s o R S :
  oinv s R S ->
  oinv (fst (oneshot_step s o)) (R ++ recv_of (o, snd (oneshot_step s o)))
       (S ++ sent_of (o, snd (oneshot_step s o))).
Proof.
  intros (x & Hs & Hh & Hl1 & Hl2 & Hn & Hv). revert Hs Hh Hl1 Hl2 Hn Hv.
  oneshot_cases s o; intros -> -> Hl1 Hl2 Hn Hv; rewrite ?hget_single.
  - destruct h as [|h]; [destruct x|]; cbn [fst snd recv_of sent_of skip hset];
      rewrite ?app_nil_r.
    + rewrite (Hl1 eq_refl) in Hv. rewrite (Hl2 eq_refl) in *. cbn [opt_list] in Hv.
      rewrite app_nil_r in Hv. subst R. oinv_fin HSent.
    + oinv_fin HSent.
    + oinv_fin HDead.
    + oinv_fin x.
  - cbn [fst snd recv_of sent_of skip]. rewrite ?app_nil_r. oinv_fin x.
  - destruct h as [|h]; [destruct x|]; cbn [fst snd recv_of sent_of skip hset undropped];
      rewrite ?app_nil_r.
    + oinv_fin HDead.
    + oinv_fin HDead.
    + oinv_fin HDead.
    + oinv_fin x.
  - destruct rc; [destruct d as [v|]; [|destruct (undropped x) eqn:Hu]|];
      cbn [fst snd recv_of sent_of skip negb]; rewrite ?app_nil_r.
    + oinv_fin x. cbn [opt_list] in Hv. rewrite app_nil_r. exact Hv.
    + oinv_fin x.
    + oinv_fin x.
    + oinv_fin x.
  - destruct rc; cbn [fst snd recv_of sent_of skip]; rewrite ?app_nil_r; oinv_fin x.
Qed.

Lemma oneshot_inv ops : oinv (orun ops) (recv_vals (otrace ops)) (sent_vals (otrace ops)).
Proof.
  induction ops as [|o ops IH] using rev_ind.
  - oinv_fin HLive.
  - unfold orun, otrace in *. rewrite run_snoc, trace_snoc, recv_vals_app, sent_vals_app,
      recv_vals_one, sent_vals_one. apply oneshot_inv_step, IH.
Qed.

Lemma oneshot_exactly_once ops :
  recv_vals (otrace ops) ++ opt_list (oi_data (o_in (orun ops))) = sent_vals (otrace ops)
  /\ (length (sent_vals (otrace ops)) <= 1)%nat.
Proof. destruct (oneshot_inv ops) as (x & _ & _ & _ & _ & Hn & Hv). split; assumption. Qed.

Lemma oneshot_delivers ops w v :
  o_recv (orun ops) = true ->
  sent_vals (otrace ops) = [v] -> recv_vals (otrace ops) = [] ->
  o_ret (snd (oneshot_step (orun ops) (Poll w))) = RReady v.
Proof.
  intros Hr Hs Hrv. destruct (oneshot_exactly_once ops) as [Hv _]. rewrite Hs, Hrv in Hv.
  destruct (orun ops) as [[d wk hsd] hs rc]. cbn in *. subst rc.
  destruct d as [x|]; cbn in Hv; [|discriminate]. inversion Hv. reflexivity.
Qed.

Lemma oneshot_disconnect_iff ops w :
  o_recv (orun ops) = true ->
  (o_ret (snd (oneshot_step (orun ops) (Poll w))) = RClosed <->
   all_dropped (o_senders (orun ops)) = true /\ recv_vals (otrace ops) = sent_vals (otrace ops)).
Proof.
  intros Hr. destruct (oneshot_inv ops) as (x & Hs & Hh & Hl1 & Hl2 & Hn & Hv).
  destruct (orun ops) as [[d wk hsd] hs rc].
  unfold oneshot_step, oneshot_poll_body. cbn [o_in o_senders o_recv oi_data oi_waker oi_has_sender] in *.
  subst rc hs hsd. cbn [all_dropped forallb andb]. rewrite andb_true_r.
  destruct d as [v|]; cbn [opt_list] in Hv.
  - cbn [fst snd o_ret]. split; [discriminate|]. intros [_ H]. rewrite H in Hv.
    exfalso. apply (f_equal (@length Z)) in Hv. rewrite app_length in Hv. cbn in Hv. lia.
  - rewrite app_nil_r in Hv. destruct (undropped x); cbn [negb fst snd o_ret]; split;
      intros H; try discriminate; try (destruct H; discriminate); auto.
Qed.

Definition oneshot_parked (w : nat) (s : oneshot) : Prop :=
  oi_waker (o_in s) = Some w /\ oi_data (o_in s) = None /\ oi_has_sender (o_in s) = true.

Lemma oneshot_pending_parks s w :
  o_ret (snd (oneshot_step s (Poll w))) = RPending -> oneshot_parked w (fst (oneshot_step s (Poll w))).
Proof.
  destruct s as [[d wk hsd] hs rc]. unfold oneshot_parked, oneshot_step, oneshot_poll_body.
  cbn [o_in o_senders o_recv oi_data oi_waker oi_has_sender].
  destruct rc; [destruct d; [|destruct hsd]|]; cbn; intros H; try discriminate. auto.
Qed.

Lemma oneshot_parked_step s o w :
  oneshot_parked w s -> is_poll o = false ->
  oneshot_parked w (fst (oneshot_step s o)) \/ In w (o_woke (snd (oneshot_step s o))).
Proof.
  unfold oneshot_parked. oneshot_cases s o; intros (-> & -> & ->) Hp; try discriminate.
  - destruct (hget hs h); cbn; auto.
  - cbn; auto.
  - destruct (undropped (hget hs h)); cbn; auto.
  - destruct rc; cbn; auto.
Qed.

Lemma oneshot_parked_run w mid : forall s,
  oneshot_parked w s -> no_poll mid = true ->
  oneshot_parked w (run oneshot_step s mid) \/ In w (wakes (trace oneshot_step s mid)).
Proof.
  induction mid as [|o mid IH]; intros s Hp Hn; [left; exact Hp|].
  cbn [no_poll forallb] in Hn. apply andb_prop in Hn as [Ho Hn].
  apply negb_true_iff in Ho. rewrite run_cons. cbn [trace wakes flat_map snd].
  destruct (oneshot_parked_step s o w Hp Ho) as [Hp'|Hw].
  - destruct (IH _ Hp' Hn) as [H|H]; [left; exact H|right]. apply in_or_app. right. exact H.
  - right. apply in_or_app. left. exact Hw.
Qed.

Lemma oneshot_parked_not_ready s w w' :
  oneshot_parked w s -> is_ready (o_ret (snd (oneshot_step s (Poll w')))) = false.
Proof.
  destruct s as [[d wk hsd] hs rc]. unfold oneshot_parked, oneshot_step, oneshot_poll_body.
  cbn [o_in o_senders o_recv oi_data oi_waker oi_has_sender]. intros (-> & -> & ->).
  destruct rc; reflexivity.
Qed.

Lemma oneshot_no_lost_wakeup pre w mid w' :
  let s0 := orun pre in
  let s1 := fst (oneshot_step s0 (Poll w)) in
  o_ret (snd (oneshot_step s0 (Poll w))) = RPending ->
  no_poll mid = true ->
  is_ready (o_ret (snd (oneshot_step (run oneshot_step s1 mid) (Poll w')))) = true ->
  In w (wakes (trace oneshot_step s1 mid)).
Proof.
  intros s0 s1 Hp Hn Hr. subst s0 s1. apply oneshot_pending_parks in Hp.
  destruct (oneshot_parked_run w mid _ Hp Hn) as [H|H]; [|exact H].
  rewrite (oneshot_parked_not_ready _ _ w' H) in Hr. discriminate.
Qed.

(* ------------------------------------------------ the trace monitor accepts every history
   (simulation between each model and the abstract channel of the monitor) *)

Lemma unpark_self w : unpark (Some w) [w] = None.
Proof. unfold unpark. cbn. rewrite Nat.eqb_refl. reflexivity. Qed.
Lemma unpark_nil p : unpark p [] = p.
Proof. destruct p; reflexivity. Qed.

Lemma all_dropped_app_live hs : all_dropped (hs ++ [HLive]) = false.
Proof. unfold all_dropped. rewrite forallb_app. cbn. apply andb_false_r. Qed.

Ltac spec_unfold :=
  unfold spec_step, enabled, no_sleeper, spec_ready, enq;
  cbn [sp_queue sp_senders sp_recv sp_parked o_ret o_woke fst snd skip].

Ltac simcbn :=
  cbn [fst snd sp_queue sp_senders sp_recv sp_parked
       m_in m_senders m_recv mi_data mi_waker mi_closed mi_count
       n_in n_senders n_recv ni_notified ni_waker ni_count].
Ltac simfin Hp :=
  eexists; split; [reflexivity|]; simcbn; repeat split; intros; auto; try congruence; try lia;
  try (eapply Hp; eauto).

(* ------------------------------------------------------------------- mpsc *)
Definition mrel (s : mpsc) (sp : spec) : Prop :=
  sp_queue sp = mi_data (m_in s) /\ sp_senders sp = m_senders s /\ sp_recv sp = m_recv s /\
  mi_count (m_in s) = live_count (m_senders s) /\
  mi_closed (m_in s) = (mi_count (m_in s) =? 0) /\
  (forall w, sp_parked sp = Some w ->
     mi_waker (m_in s) = Some w /\ mi_data (m_in s) = [] /\ 0 < mi_count (m_in s)).

Lemma mpsc_sim_step s sp o :
  mrel s sp -> mi_count (m_in s) < u64_max ->
  exists sp', spec_step KMpsc sp (o, snd (mpsc_step s o)) = Some sp'
              /\ mrel (fst (mpsc_step s o)) sp'.
Proof.
  destruct sp as [q ss r p]. unfold mrel. cbn [sp_queue sp_senders sp_recv sp_parked].
  intros (Hq & Hss & Hr & Hc & Hcl & Hp) Hb. revert Hq Hss Hr Hc Hcl Hp Hb.
  mpsc_cases s o; intros -> -> -> Hc Hcl Hp Hb; spec_unfold.
  - destruct (hget hs h) eqn:Hh; cbn [is_live negb fst snd skip o_ret o_woke];
      try (simfin Hp; fail).
    assert (Hu : undropped (hget hs h) = true) by (rewrite Hh; reflexivity).
    pose proof (live_count_pos hs h Hu) as Hpos.
    assert (cl = false) as -> by (rewrite Hcl; apply Z.eqb_neq; lia).
    cbn [fst snd o_ret o_woke ret_eqb]. destruct p as [w|].
    + destruct (Hp w eq_refl) as (-> & -> & _). cbn [wake]. rewrite unpark_self. simfin Hp.
    + cbn [unpark]. simfin Hp.
  - destruct (hget hs h) eqn:Hh; cbn [is_live negb fst snd skip o_ret o_woke];
      try (simfin Hp; fail).
    assert (Hu : undropped (hget hs h) = true) by (rewrite Hh; reflexivity).
    pose proof (live_count_pos hs h Hu) as Hpos.
    destruct (cnt + 1 <=? u64_max) eqn:E; [|apply Z.leb_gt in E; lia].
    cbn [fst snd o_ret o_woke ret_eqb]. rewrite unpark_nil.
    assert (Hcl' : cl = (cnt + 1 =? 0)).
    { rewrite Hcl. transitivity false; [|symmetry]; apply Z.eqb_neq; lia. }
    destruct p as [w|].
    + destruct (Hp w eq_refl) as (-> & -> & Hpos'). rewrite all_dropped_app_live, !andb_false_r.
      simfin Hp; rewrite live_count_app; lia.
    + simfin Hp; rewrite live_count_app; lia.
  - destruct (undropped (hget hs h)) eqn:Hu; cbn [is_live negb fst snd skip o_ret o_woke];
      try (simfin Hp; fail).
    pose proof (live_count_drop hs h Hu) as Hd. pose proof (live_count_nonneg (hset hs h HDead)) as Hnn.
    destruct (0 <=? cnt - 1) eqn:E; [|apply Z.leb_gt in E; lia].
    destruct (cnt - 1 =? 0) eqn:E0; cbn [fst snd o_ret o_woke ret_eqb].
    + assert (E0' := E0). apply Z.eqb_eq in E0'. destruct p as [w|].
      * destruct (Hp w eq_refl) as (-> & -> & Hpos). cbn [wake]. rewrite unpark_self. simfin Hp.
      * cbn [unpark]. simfin Hp.
    + assert (Hcl' : cl = (cnt - 1 =? 0)).
      { rewrite E0, Hcl. apply Z.leb_le in E. apply Z.eqb_neq. lia. }
      rewrite unpark_nil. destruct p as [w|].
      * destruct (Hp w eq_refl) as (-> & -> & Hpos).
        rewrite all_dropped_count, Hd, <- Hc, E0, !andb_false_r.
        apply Z.eqb_neq in E0. simfin Hp.
      * simfin Hp.
  - destruct rc; cbn [negb fst snd skip o_ret o_woke];
      try (simfin Hp; fail).
    destruct d as [|x t]; cbn [fst snd o_ret o_woke ret_eqb].
    + rewrite all_dropped_count, <- Hc, <- Hcl. destruct cl eqn:Ecl; cbn [fst snd o_ret o_woke ret_eqb].
      * simfin Hp.
      * symmetry in Hcl. apply Z.eqb_neq in Hcl. pose proof (live_count_nonneg hs). simfin Hp.
    + rewrite Z.eqb_refl. simfin Hp.
  - destruct rc; cbn [negb fst snd skip o_ret o_woke ret_eqb]; simfin Hp.
Qed.

Lemma mpsc_count_grows s o : mi_count (m_in (fst (mpsc_step s o))) <= mi_count (m_in s) + 1.
Proof.
  mpsc_cases s o.
  - destruct (hget hs h); [destruct cl| |]; cbn; lia.
  - destruct (hget hs h); cbn; try lia. destruct (cnt + 1 <=? u64_max); cbn; lia.
  - destruct (undropped (hget hs h)); cbn; try lia.
    destruct (0 <=? cnt - 1); [destruct (cnt - 1 =? 0)|]; cbn; lia.
  - destruct rc; [destruct d; [destruct cl|]|]; cbn; lia.
  - destruct rc; cbn; lia.
Qed.

Lemma mpsc_sim_run : forall ops s sp,
  mrel s sp -> mi_count (m_in s) + Z.of_nat (length ops) <= u64_max ->
  exists sp', spec_run KMpsc sp (trace mpsc_step s ops) = Some sp'.
Proof.
  induction ops as [|o t IH]; intros s sp Hrel Hb; cbn [trace spec_run]; [eauto|].
  cbn [length] in Hb.
  destruct (mpsc_sim_step s sp o Hrel) as (sp1 & -> & Hrel1); [lia|].
  apply IH; [exact Hrel1|]. pose proof (mpsc_count_grows s o). lia.
Qed.

Lemma mrel_init : mrel mpsc_init spec_init.
Proof. unfold mrel. cbn. repeat split; intros; auto; discriminate. Qed.

Lemma mpsc_oracle ops :
  Z.of_nat (length ops) < u64_max -> oracle KMpsc (mtrace ops) = true.
Proof.
  intros Hb. unfold oracle, mtrace.
  destruct (mpsc_sim_run ops _ _ mrel_init) as (sp' & ->); [|reflexivity].
  change (mi_count (m_in mpsc_init)) with 1. lia.
Qed.

(* ----------------------------------------------------------- notification *)
Definition nrel (s : notif) (sp : spec) : Prop :=
  sp_queue sp = (if ni_notified (n_in s) then [0] else []) /\
  sp_senders sp = n_senders s /\ sp_recv sp = n_recv s /\
  ni_count (n_in s) = live_count (n_senders s) /\
  (forall w, sp_parked sp = Some w ->
     ni_waker (n_in s) = Some w /\ ni_notified (n_in s) = false /\ 0 < ni_count (n_in s)).

Lemma notif_sim_step s sp o :
  nrel s sp -> ni_count (n_in s) < u64_max ->
  exists sp', spec_step KNotif sp (o, snd (notif_step s o)) = Some sp'
              /\ nrel (fst (notif_step s o)) sp'.
Proof.
  destruct sp as [q ss r p]. unfold nrel. cbn [sp_queue sp_senders sp_recv sp_parked].
  intros (Hq & Hss & Hr & Hc & Hp) Hb. revert Hq Hss Hr Hc Hp Hb.
  notif_cases s o; intros -> -> -> Hc Hp Hb; spec_unfold.
  - destruct (hget hs h); cbn [is_live negb fst snd skip o_ret o_woke];
      try (eexists; split; [reflexivity|]; cbn; auto; fail).
    cbn [ret_eqb]. destruct p as [w|].
    + destruct (Hp w eq_refl) as (-> & -> & Hpos). cbn [wake]. rewrite unpark_self.
      simfin Hp.
    + cbn [unpark]. simfin Hp.
  - destruct (hget hs h); cbn [is_live negb fst snd skip o_ret o_woke];
      try (eexists; split; [reflexivity|]; cbn; auto; fail).
    destruct (cnt + 1 <=? u64_max) eqn:E; [|apply Z.leb_gt in E; lia].
    cbn [fst snd o_ret o_woke ret_eqb]. rewrite unpark_nil. destruct p as [w|].
    + destruct (Hp w eq_refl) as (-> & -> & Hpos). rewrite all_dropped_app_live, !andb_false_r.
      simfin Hp; rewrite live_count_app; lia.
    + simfin Hp; rewrite live_count_app; lia.
  - destruct (undropped (hget hs h)) eqn:Hu; cbn [is_live negb fst snd skip o_ret o_woke];
      try (eexists; split; [reflexivity|]; cbn; auto; fail).
    pose proof (live_count_drop hs h Hu) as Hd. pose proof (live_count_nonneg (hset hs h HDead)) as Hnn.
    destruct (0 <=? cnt - 1) eqn:E; [|apply Z.leb_gt in E; lia].
    destruct (cnt - 1 =? 0) eqn:E0; cbn [fst snd o_ret o_woke ret_eqb].
    + apply Z.eqb_eq in E0. destruct p as [w|].
      * destruct (Hp w eq_refl) as (-> & -> & Hpos). cbn [wake]. rewrite unpark_self. simfin Hp.
      * cbn [unpark]. simfin Hp.
    + rewrite unpark_nil. destruct p as [w|].
      * destruct (Hp w eq_refl) as (-> & -> & Hpos).
        rewrite all_dropped_count, Hd, <- Hc, E0, !andb_false_r.
        apply Z.eqb_neq in E0. simfin Hp.
      * simfin Hp.
  - destruct rc; cbn [negb fst snd skip o_ret o_woke];
      try (eexists; split; [reflexivity|]; cbn; auto; fail).
    destruct nf; cbn [fst snd o_ret o_woke ret_eqb].
    + rewrite Z.eqb_refl. simfin Hp.
    + rewrite all_dropped_count, <- Hc. destruct (cnt =? 0) eqn:E0; cbn [fst snd o_ret o_woke ret_eqb].
      * simfin Hp.
      * apply Z.eqb_neq in E0. pose proof (live_count_nonneg hs). simfin Hp.
  - destruct rc; cbn [negb fst snd skip o_ret o_woke ret_eqb]; simfin Hp.
Qed.

Lemma notif_count_grows s o : ni_count (n_in (fst (notif_step s o))) <= ni_count (n_in s) + 1.
Proof.
  notif_cases s o.
  - destruct (hget hs h); cbn; lia.
  - destruct (hget hs h); cbn; try lia. destruct (cnt + 1 <=? u64_max); cbn; lia.
  - destruct (undropped (hget hs h)); cbn; try lia.
    destruct (0 <=? cnt - 1); [destruct (cnt - 1 =? 0)|]; cbn; lia.
  - destruct rc; [destruct nf; [|destruct (cnt =? 0)]|]; cbn; lia.
  - destruct rc; cbn; lia.
Qed.

Lemma notif_sim_run : forall ops s sp,
  nrel s sp -> ni_count (n_in s) + Z.of_nat (length ops) <= u64_max ->
  exists sp', spec_run KNotif sp (trace notif_step s ops) = Some sp'.
Proof.
  induction ops as [|o t IH]; intros s sp Hrel Hb; cbn [trace spec_run]; [eauto|].
  cbn [length] in Hb.
  destruct (notif_sim_step s sp o Hrel) as (sp1 & -> & Hrel1); [lia|].
  apply IH; [exact Hrel1|]. pose proof (notif_count_grows s o). lia.
Qed.

Lemma nrel_init : nrel notif_init spec_init.
Proof. unfold nrel. cbn. repeat split; intros; auto; discriminate. Qed.

Lemma notif_oracle ops :
  Z.of_nat (length ops) < u64_max -> oracle KNotif (ntrace ops) = true.
Proof.
  intros Hb. unfold oracle, ntrace.
  destruct (notif_sim_run ops _ _ nrel_init) as (sp' & ->); [|reflexivity].
  change (ni_count (n_in notif_init)) with 1. lia.
Qed.

(* ---------------------------------------------------------------- oneshot *)
Definition orel (s : oneshot) (sp : spec) : Prop :=
  sp_queue sp = opt_list (oi_data (o_in s)) /\
  sp_senders sp = o_senders s /\ sp_recv sp = o_recv s /\
  (exists x, o_senders s = [x] /\ oi_has_sender (o_in s) = undropped x /\
             (x = HLive -> oi_data (o_in s) = None)) /\
  (forall w, sp_parked sp = Some w ->
     oi_waker (o_in s) = Some w /\ oi_data (o_in s) = None /\ oi_has_sender (o_in s) = true).

Ltac osimfin Hp y :=
  eexists; split; [reflexivity|]; cbn; repeat split; intros; auto; try congruence;
  try (exists y; cbn; repeat split; intros; auto; congruence);
  try (eapply Hp; eauto).

Lemma oneshot_sim_step s sp o :
  orel s sp ->
  exists sp', spec_step KOneshot sp (o, snd (oneshot_step s o)) = Some sp'
              /\ orel (fst (oneshot_step s o)) sp'.
Proof.
  destruct sp as [q ss r p]. unfold orel. cbn [sp_queue sp_senders sp_recv sp_parked].
  intros (Hq & Hss & Hr & (x & Hx & Hh & Hl) & Hp). revert Hq Hss Hr Hx Hh Hl Hp.
  oneshot_cases s o; intros -> -> -> -> -> Hl Hp; spec_unfold; rewrite ?hget_single.
  - destruct h as [|h]; [destruct x|]; cbn [is_live negb fst snd skip o_ret o_woke hset ret_eqb].
    + rewrite (Hl eq_refl) in *. cbn [opt_list app]. destruct p as [w|].
      * destruct (Hp w eq_refl) as (-> & _ & _). cbn [wake]. rewrite unpark_self. osimfin Hp HSent.
      * cbn [unpark]. osimfin Hp HSent.
    + osimfin Hp HSent.
    + osimfin Hp HDead.
    + osimfin Hp x.
  - cbn [negb fst snd skip o_ret o_woke]. osimfin Hp x.
  - destruct h as [|h]; [destruct x|]; cbn [undropped negb fst snd skip o_ret o_woke hset ret_eqb].
    + destruct p as [w|].
      * destruct (Hp w eq_refl) as (-> & -> & _). cbn [wake]. rewrite unpark_self. osimfin Hp HDead.
      * cbn [unpark]. osimfin Hp HDead.
    + destruct p as [w|].
      * destruct (Hp w eq_refl) as (-> & -> & _). cbn [wake]. rewrite unpark_self. osimfin Hp HDead.
      * cbn [unpark]. osimfin Hp HDead.
    + osimfin Hp HDead.
    + osimfin Hp x.
  - destruct rc; cbn [negb fst snd skip o_ret o_woke]; [|osimfin Hp x].
    destruct d as [v|]; cbn [opt_list fst snd o_ret o_woke ret_eqb].
    + rewrite Z.eqb_refl. osimfin Hp x.
    + cbn [all_dropped forallb]. rewrite andb_true_r.
      destruct (undropped x) eqn:Hu; cbn [negb fst snd o_ret o_woke ret_eqb]; osimfin Hp x.
  - destruct rc; cbn [negb fst snd skip o_ret o_woke ret_eqb]; osimfin Hp x.
Qed.

Lemma oneshot_sim_run : forall ops s sp,
  orel s sp -> exists sp', spec_run KOneshot sp (trace oneshot_step s ops) = Some sp'.
Proof.
  induction ops as [|o t IH]; intros s sp Hrel; cbn [trace spec_run]; [eauto|].
  destruct (oneshot_sim_step s sp o Hrel) as (sp1 & -> & Hrel1). apply IH, Hrel1.
Qed.

Lemma orel_init : orel oneshot_init spec_init.
Proof.
  unfold orel. cbn. repeat split; intros; auto; try discriminate.
  exists HLive. repeat split; auto.
Qed.

Lemma oneshot_oracle ops : oracle KOneshot (otrace ops) = true.
Proof.
  unfold oracle, otrace. destruct (oneshot_sim_run ops _ _ orel_init) as (sp' & ->). reflexivity.
Qed.


(* ------------------------------------------ the split poll loses the wake-up (negative) *)
Lemma oneshot_split_poll_loses_wakeup :
  forall v : Z,
  let ops := [SPollCheck 1%nat; SAtomic (Send 0%nat v); SAtomic (DropS 0%nat); SPollRegister 1%nat] in
  let s := split_run oneshot_init ops in
  map o_ret (split_outs oneshot_init ops) = [RPending; RUnit; RUnit; RUnit] /\
  flat_map o_woke (split_outs oneshot_init ops) = [] /\
  oi_waker (o_in s) = Some 1%nat /\ oi_data (o_in s) = Some v /\
  o_ret (snd (oneshot_step s (Poll 2%nat))) = RReady v.
Proof. intros v. cbv. repeat split; reflexivity. Qed.

Lemma oneshot_split_poll_loses_disconnect_wakeup :
  let ops := [SPollCheck 1%nat; SAtomic (DropS 0%nat); SPollRegister 1%nat] in
  let s := split_run oneshot_init ops in
  map o_ret (split_outs oneshot_init ops) = [RPending; RUnit; RUnit] /\
  flat_map o_woke (split_outs oneshot_init ops) = [] /\
  oi_waker (o_in s) = Some 1%nat /\
  o_ret (snd (oneshot_step s (Poll 2%nat))) = RClosed.
Proof. cbv. repeat split; reflexivity. Qed.
