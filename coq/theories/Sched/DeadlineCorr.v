(* Correspondence vocabulary for C30: one case = one whole-stack simulation scenario (one
   participant with deadline writers and readers on the same topic; harness bin `timing`)
   with, per op, the delays the real worker requested and the deadline-missed listener
   calls of every writer and reader.  The model run is the one of Sched/WorkerCorr.v. *)
From DustDDS Require Export Base.Machine Time.TimeModel Sched.WorkerModel Sched.WorkerCorr Sched.DeadlineModel.
Open Scope Z_scope.

Record C30_case : Type := mkC30 { c30_interval : Z; c30_ops : list (sop * obs) }.

Definition C30_model_ok (c : C30_case) : bool := fst (run_sim (init_state (c30_interval c)) (c30_ops c)).

(* ---- the property on the observations ----
   per entity: deadline, sample times per instance (in order), listener calls so far *)
Record ent : Type := mkEnt { e_dl : option Z; e_insts : list (Z * list Z); e_calls : Z }.

Fixpoint add_sample (key t : Z) (l : list (Z * list Z)) : list (Z * list Z) :=
  match l with
  | [] => [(key, [t])]
  | i :: r => if fst i =? key
              then (key, if List.last (snd i) t <? t then snd i ++ [t] else
                         match snd i with [] => [t] | _ => snd i end) :: r
              else i :: add_sample key t r
  end.
Definition ent_sample (key t : Z) (e : ent) : ent := mkEnt (e_dl e) (add_sample key t (e_insts e)) (e_calls e).

(* after an op that ended at time T: every listener call carried the running total
   (each increase signalled, one by one), and the total is the number of elapsed periods,
   allowing the one that is elapsing within the last poke period *)
Definition ent_ok (T : Z) (sig : Z * Z) (e : ent) : bool * ent :=
  let calls := e_calls e + fst sig in
  let ok_sig := (0 <=? fst sig) && (if 0 <? fst sig then snd sig =? calls else true) in
  let ok_cnt := match e_dl e with
                | Some D => (expected_total D (map snd (e_insts e)) (T - POKE_NS) <=? calls) &&
                            (calls <=? expected_total D (map snd (e_insts e)) T)
                | None => calls =? 0
                end in
  (ok_sig && ok_cnt, mkEnt (e_dl e) (e_insts e) calls).
Fixpoint ents_ok (T : Z) (sigs : list (Z * Z)) (es : list ent) : bool * list ent :=
  match es, sigs with
  | [], [] => (true, [])
  | e :: er, s :: sr => let '(ok, e') := ent_ok T s e in
                        let '(okr, er') := ents_ok T sr er in (ok && okr, e' :: er')
  | _, _ => (false, es)
  end.

Definition apply_op (now : Z) (o : sop) (ws rs : list ent) : list ent * list ent :=
  match o with
  | SCreateW dl _ => (ws ++ [mkEnt dl [] 0], rs)
  | SCreateR dl => (ws, rs ++ [mkEnt dl [] 0])
  | SWrite w key ts => (update_nth w (ent_sample key (match ts with Some t => t | None => now end)) ws, rs)
  | SRecv r keys => (ws, update_nth r (fun e => fold_left (fun e k => ent_sample k now e) keys e) rs)
  | _ => (ws, rs)
  end.

(* (writers fine, readers fine) *)
Fixpoint oracle_ops (now : Z) (ws rs : list ent) (ops : list (sop * obs)) : bool * bool :=
  match ops with
  | [] => (true, true)
  | (o, ob) :: r =>
      let now' := match o with SAdv dt => now + dt | _ => now end in
      let '(ws1, rs1) := apply_op now o ws rs in
      let '(okw, ws2) := ents_ok now' (o_wsig ob) ws1 in
      let '(okr, rs2) := ents_ok now' (o_rsig ob) rs1 in
      let '(okw', okr') := oracle_ops now' ws2 rs2 r in
      (* a status condition restricted to the deadline status triggers iff a miss was counted *)
      let oksc := match o with
                  | SScr i => o_reply ob =? (if 0 <? e_calls (nth i rs2 (mkEnt None [] 0)) then 1 else 0)
                  | _ => true end in
      (okw && okw', okr && okr' && oksc)
  end.

Definition C30_oracle_ok (c : C30_case) : bool :=
  let '(a, b) := oracle_ops 1000000000 [] [] (c30_ops c) in a && b.

(* no known classes (C30-reader-no-rearm was fixed by 10574fc: the reader re-arms a missed
   instance by one period and times the next check from the same timestamp) *)
Definition C30_known (c : C30_case) : N := 0%N.
