(* C42 — proofs about the timer model (all interleavings = all op lists). *)
From DustDDS Require Import Base.Machine Sched.TimerModel.
Open Scope Z_scope.

Ltac inv H := inversion H; subst; clear H.

(* unfold one step into its branches *)
Ltac unstep :=
  unfold step_st, step, do_tick, do_sleep, do_drop_handles, do_poll, do_elapsed, do_reset,
         do_drop, do_fire, do_idle, do_recv, do_timeout, do_stop, set_log in *.
Ltac brk :=
  repeat match goal with
         | |- context [match ?x with _ => _ end] => destruct x eqn:?
         | |- context [if ?x then _ else _] => destruct x eqn:?
         end.
Ltac sstep := unstep; brk; cbn [fst snd clock next_id next_tok handles sleeps queue heap pc log] in *.

(* ------------------------------------------------------------------ lists *)
Lemma find_sleep_in : forall id l sl, find_sleep id l = Some sl -> In sl l /\ s_id sl = id.
Proof.
  induction l as [|a l IH]; cbn; intros sl H; [discriminate|].
  destruct (s_id a =? id) eqn:E.
  - inv H. split; [now left | now apply Z.eqb_eq].
  - destruct (IH _ H); split; [now right | assumption].
Qed.

Lemma find_sleep_none : forall id l, find_sleep id l = None <-> ~ In id (map s_id l).
Proof.
  induction l as [|a l IH]; cbn; [tauto|].
  destruct (s_id a =? id) eqn:E.
  - apply Z.eqb_eq in E. split; [discriminate | intros H; exfalso; apply H; now left].
  - apply Z.eqb_neq in E. rewrite IH. tauto.
Qed.

Lemma upd_sleep_ids : forall s' l, map s_id (upd_sleep s' l) = map s_id l.
Proof.
  induction l as [|a l IH]; cbn; [reflexivity|].
  destruct (s_id a =? s_id s') eqn:E; cbn; [apply Z.eqb_eq in E; now rewrite E | now rewrite IH].
Qed.

Lemma upd_sleep_in : forall s' l x, In x (upd_sleep s' l) -> x = s' \/ In x l.
Proof.
  induction l as [|a l IH]; cbn; intros x H; [tauto|].
  destruct (s_id a =? s_id s'); cbn in H; destruct H as [H|H]; auto.
  destruct (IH _ H); auto.
Qed.

Lemma find_sleep_upd_none : forall id s' l,
  find_sleep id (upd_sleep s' l) = None <-> find_sleep id l = None.
Proof. intros. rewrite !find_sleep_none, upd_sleep_ids. tauto. Qed.

Lemma find_sleep_app_none : forall id l n,
  find_sleep id (l ++ [n]) = None <-> find_sleep id l = None /\ s_id n <> id.
Proof.
  intros. rewrite !find_sleep_none, map_app, in_app_iff. cbn. tauto.
Qed.

Lemma del_sleep_ids : forall id l x, In x (map s_id (del_sleep id l)) <-> In x (map s_id l) /\ x <> id.
Proof.
  unfold del_sleep. induction l as [|a l IH]; cbn; intros x; [tauto|].
  destruct (s_id a =? id) eqn:E; cbn.
  - apply Z.eqb_eq in E. rewrite IH. split; [tauto|]. intros [[H|H] N]; [congruence|tauto].
  - apply Z.eqb_neq in E. rewrite IH. split; [|tauto]. intros [H|H]; [subst; tauto|tauto].
Qed.

Lemma find_sleep_del_none : forall id i l,
  find_sleep id (del_sleep i l) = None <-> find_sleep id l = None \/ id = i.
Proof.
  intros. rewrite !find_sleep_none, del_sleep_ids.
  destruct (Z.eq_dec id i); tauto.
Qed.

Lemma del_sleep_in : forall id l x, In x (del_sleep id l) -> In x l.
Proof. unfold del_sleep. intros id l x H. apply filter_In in H. tauto. Qed.

Lemma find_tok_in : forall tok h w, find_tok tok h = Some w -> In w h /\ w_tok w = tok.
Proof.
  induction h as [|a h IH]; cbn; intros w H; [discriminate|].
  destruct (w_tok a =? tok) eqn:E.
  - inv H. split; [now left | now apply Z.eqb_eq].
  - destruct (IH _ H). split; [now right|assumption].
Qed.

Lemma del_tok_in : forall tok h x, In x (del_tok tok h) -> In x h.
Proof.
  induction h as [|a h IH]; cbn; intros x H; [tauto|].
  destruct (w_tok a =? tok); [now right|]. destruct H; [now left | right; auto].
Qed.

Lemma del_tok_keep : forall tok h w0 x,
  find_tok tok h = Some w0 -> In x h -> x = w0 \/ In x (del_tok tok h).
Proof.
  induction h as [|a h IH]; cbn; intros w0 x F H; [tauto|].
  destruct (w_tok a =? tok).
  - inv F. destruct H; [left; auto | right; auto].
  - destruct H as [H|H]; [right; left; auto|]. destruct (IH _ _ F H); [auto | right; right; auto].
Qed.

Lemma heap_remove_in : forall id h x, In x (heap_remove id h) <-> In x h /\ w_id x <> id.
Proof.
  unfold heap_remove. intros. rewrite filter_In, negb_true_iff, Z.eqb_neq. tauto.
Qed.

Lemma heap_has_false : forall id h, heap_has id h = false <-> forall x, In x h -> w_id x <> id.
Proof.
  unfold heap_has. induction h as [|a h IH]; cbn; [split; [tauto|reflexivity]|].
  rewrite orb_false_iff, IH, Z.eqb_neq. split.
  - intros [A B] x [H|H]; [subst; auto | auto].
  - intros H. split; [apply H; now left | intros x Hx; apply H; now right].
Qed.

Lemma heap_has_remove : forall id i h,
  heap_has id (heap_remove i h) = if i =? id then false else heap_has id h.
Proof.
  intros id i. unfold heap_has, heap_remove. induction h as [|a h IH]; cbn.
  - now destruct (i =? id).
  - destruct (w_id a =? i) eqn:E; cbn.
    + rewrite IH. apply Z.eqb_eq in E. destruct (i =? id) eqn:F; [reflexivity|].
      apply Z.eqb_neq in F. assert (w_id a =? id = false) by (apply Z.eqb_neq; congruence).
      now rewrite H.
    + rewrite IH. destruct (i =? id) eqn:F; [|reflexivity].
      apply Z.eqb_eq in F. apply Z.eqb_neq in E.
      assert (w_id a =? id = false) by (apply Z.eqb_neq; congruence). now rewrite H.
Qed.

Lemma heap_has_del_tok : forall id tok h, heap_has id h = false -> heap_has id (del_tok tok h) = false.
Proof.
  intros id tok h. rewrite !heap_has_false. intros H x Hx. apply H. eapply del_tok_in; eauto.
Qed.

(* ---------------------------------------------------------------- residue *)
Lemma residue_app : forall id q1 q2 h, residue id (q1 ++ q2) h = residue id q2 (residue id q1 h).
Proof.
  induction q1 as [|m q1 IH]; cbn; intros; [reflexivity|]. destruct m; apply IH.
Qed.

Lemma residue_mono : forall id q, residue id q true = false -> residue id q false = false.
Proof.
  induction q as [|m q IH]; cbn; [discriminate|]. destruct m as [w|i].
  - cbn. destruct (w_id w =? id); auto.
  - destruct (i =? id); auto.
Qed.

Lemma residue_le : forall id q h h', (h' = true -> h = true) ->
  residue id q h = false -> residue id q h' = false.
Proof.
  intros id q h h' L H. destruct h, h'; auto; [now apply residue_mono | exfalso; now discriminate (L eq_refl)].
Qed.

Lemma residue_no_cancel : forall id q h,
  existsb (is_cancel_of id) q = false -> residue id q h = h || existsb (is_wake_of id) q.
Proof.
  induction q as [|m q IH]; cbn; intros h H; [now rewrite orb_false_r|].
  apply orb_false_iff in H. destruct H as [A B]. destruct m as [w|i]; cbn in *.
  - rewrite IH by assumption. now rewrite orb_assoc.
  - rewrite A. now apply IH.
Qed.


(* ------------------------------------------------- shape of the steps *)
Lemma poll_shape : forall s id delta,
  let s' := fst (do_poll s id delta) in
  next_id s' = next_id s /\ heap s' = heap s /\ pc s' = pc s /\ handles s' = handles s /\
  map s_id (sleeps s') = map s_id (sleeps s) /\
  (queue s' = queue s \/
   exists w, queue s' = queue s ++ [MWake w] /\ w_id w = id /\ In id (map s_id (sleeps s)) /\
             pc s <> Stopped).
Proof.
  intros s id delta. unfold do_poll.
  destruct (find_sleep id (sleeps s)) as [sl|] eqn:F; cbn zeta; [|cbn; tauto].
  destruct (find_sleep_in _ _ _ F) as [Hin Hid].
  assert (Hmem : In id (map s_id (sleeps s))) by (rewrite <- Hid; now apply in_map).
  destruct (elapsed sl (clock s)).
  - destruct (s_dl sl); cbn; tauto.
  - destruct (pc s) eqn:P; cbn; rewrite ?upd_sleep_ids; repeat split; auto;
      right; eexists; (split; [reflexivity|]); cbn; repeat split; auto; discriminate.
Qed.

(* ------------------------------------------------- the cancel invariant *)
(* for every dropped sleep: once the channel is drained the heap holds no entry of
   it (the Cancel comes after every Wake of that id); and the thread only stops
   when no Sleep is left *)
Definition inv_cancel (s : st) : Prop :=
  (forall id, dropped id s -> residue id (queue s) (heap_has id (heap s)) = false) /\
  (pc s = Stopped -> sleeps s = [] /\ handles s = false).

Lemma inv_cancel_init : inv_cancel init.
Proof. split; [intros id [A B]; cbn in *; lia | discriminate]. Qed.

Lemma dropped_ids : forall id s, dropped id s <-> 0 <= id < next_id s /\ ~ In id (map s_id (sleeps s)).
Proof. unfold dropped. intros. now rewrite find_sleep_none. Qed.

Lemma inv_cancel_step : forall s o, inv_cancel s -> inv_cancel (step_st s o).
Proof.
  intros s o I. pose proof I as [R S]. unfold step_st.
  destruct o; cbn [step].
  - (* Tick *) exact I.
  - (* HSleep *) unfold do_sleep. destruct (handles s && (0 <=? dur)) eqn:G; [|exact I].
    cbn. split.
    + intros id D. apply dropped_ids in D. cbn in D. destruct D as [A B].
      rewrite map_app, in_app_iff in B. cbn in B.
      apply R. apply dropped_ids. split; [|tauto].
      assert (next_id s <> id) by tauto. lia.
    + intros P. destruct (S P) as [_ F]. rewrite F in G. discriminate.
  - (* HDropHandles *) cbn. split; [exact R|]. intros P. destruct (S P). auto.
  - (* SPoll *)
    pose proof (poll_shape s id delta) as H. cbn zeta in H.
    destruct H as (Hn & Hh & Hp & Hha & Hids & Hq).
    set (s' := fst (do_poll s id delta)) in *. split.
    + intros i D. apply dropped_ids in D. rewrite Hn, Hids in D.
      assert (D0 : dropped i s) by (now apply dropped_ids).
      rewrite Hh. destruct Hq as [Hq | (w & Hq & Hw & Hin & _)]; rewrite Hq; [now apply R|].
      rewrite residue_app, (R i D0). cbn.
      assert (w_id w =? i = false) as ->; [|reflexivity].
      apply Z.eqb_neq. intro; subst. tauto.
    + rewrite Hp, Hha. intros P. destruct (S P) as [E F]. split; [|assumption].
      apply map_eq_nil with (f := s_id). rewrite Hids, E. reflexivity.
  - (* SElapsed *) unfold do_elapsed. destruct (find_sleep id (sleeps s)); exact I.
  - (* SReset *) unfold do_reset. destruct (find_sleep id (sleeps s)) eqn:F; [|exact I].
    cbn. split.
    + intros i D. apply dropped_ids in D. cbn in D. rewrite upd_sleep_ids in D.
      apply R. now apply dropped_ids.
    + intros P. destruct (S P) as [E _]. rewrite E in F. discriminate.
  - (* SDrop *) unfold do_drop. destruct (find_sleep id (sleeps s)) eqn:F; [|exact I].
    cbn. split.
    + intros i D. apply dropped_ids in D. cbn in D. destruct D as [A B].
      rewrite del_sleep_ids in B.
      assert (P : pc s <> Stopped).
      { intro P. destruct (S P) as [E _]. rewrite E in F. discriminate. }
      assert (Q : (match pc s with Stopped => queue s | _ => queue s ++ [MCancel id] end)
                  = queue s ++ [MCancel id]) by (destruct (pc s); congruence).
      cbn [queue heap]. rewrite Q, residue_app. cbn [residue].
      destruct (Z.eq_dec i id) as [->|N].
      * now rewrite Z.eqb_refl.
      * assert (id =? i = false) as -> by (apply Z.eqb_neq; congruence).
        apply R. apply dropped_ids. split; [assumption|]. tauto.
    + intros P. destruct (S P) as [E _]. rewrite E in F. discriminate.
  - (* TFire *) unfold do_fire. destruct (pc s) eqn:P; try (exact I).
    destruct (find_tok tok (heap s)) eqn:F; [|exact I].
    destruct (is_min w (heap s) && (w_dl w <? clock s)); [|exact I].
    cbn [fst]. split; [|discriminate].
    intros i D. cbn [queue heap]. eapply residue_le; [|apply (R i D)].
    intros H. destruct (heap_has i (heap s)) eqn:E; [reflexivity|].
    rewrite (heap_has_del_tok _ tok _ E) in H. discriminate.
  - (* TIdle *) unfold do_idle. destruct (pc s) eqn:P; try (exact I).
    destruct (none_due (clock s) (heap s)); [|exact I].
    cbn. split; [exact R | discriminate].
  - (* TRecv *) unfold do_recv. destruct (pc s) eqn:P; try (exact I).
    destruct (queue s) as [|[w|i] q] eqn:Q; try (exact I); cbn; (split; [|discriminate]).
    + intros i D. specialize (R i D). try rewrite Q in R. cbn in R.
      cbn [queue heap heap_has existsb]. fold (heap_has i (heap s)). rewrite orb_comm. exact R.
    + intros j D. specialize (R j D). try rewrite Q in R. cbn in R.
      cbn [queue heap]. now rewrite heap_has_remove.
  - (* TTimeout *) unfold do_timeout. destruct (pc s) eqn:P; try (exact I).
    destruct lim; [|exact I]. destruct (z <=? clock s); [|exact I].
    cbn. split; [exact R | discriminate].
  - (* TStop *) unfold do_stop. destruct (pc s) eqn:P; try (exact I).
    destruct (queue s) eqn:Q; try (exact I).
    destruct (sleeps s) eqn:L; try (exact I).
    destruct (handles s) eqn:Hh; try (exact I).
    cbn. split; [|auto]. intros i D.
    assert (D0 : dropped i s).
    { apply dropped_ids. apply dropped_ids in D. cbn in D. rewrite L. exact D. }
    exact (R i D0).
Qed.

Lemma run_app : forall a b s, run (a ++ b) s = run b (run a s).
Proof. intros. unfold run. apply fold_left_app. Qed.

Lemma inv_cancel_run : forall ops s, inv_cancel s -> inv_cancel (run ops s).
Proof.
  induction ops as [|o ops IH]; cbn; intros s H; [assumption|].
  apply IH. now apply inv_cancel_step.
Qed.

(* ------------------------------------------- after the Cancel was consumed *)
Definition quiet (id : Z) (s : st) : Prop :=
  dropped id s /\ heap_has id (heap s) = false /\ existsb (is_wake_of id) (queue s) = false.

Lemma consumed_quiet : forall id s,
  inv_cancel s -> dropped id s -> cancel_consumed id s -> quiet id s.
Proof.
  intros id s [R _] D C. specialize (R id D). unfold cancel_consumed in C.
  rewrite residue_no_cancel in R by assumption. apply orb_false_iff in R. destruct R. now split.
Qed.

Lemma poll_log : forall s id delta i,
  woken_of i (log (fst (do_poll s id delta))) = woken_of i (log s).
Proof.
  intros. unfold do_poll. destruct (find_sleep id (sleeps s)); [|reflexivity].
  destruct (elapsed s0 (clock s)); [destruct (s_dl s0); reflexivity|].
  cbn zeta. destruct (pc s); reflexivity.
Qed.

Lemma existsb_app_false : forall A (f : A -> bool) l x,
  existsb f l = false -> f x = false -> existsb f (l ++ [x]) = false.
Proof. intros. rewrite existsb_app. cbn. now rewrite H, H0. Qed.

Lemma quiet_step : forall id s o, quiet id s ->
  quiet id (step_st s o) /\ woken_of id (log (step_st s o)) = woken_of id (log s).
Proof.
  intros id s o Qt. pose proof Qt as (D & Hh & Hq). unfold step_st.
  destruct o; cbn [step].
  - (* Tick *) split; [exact Qt | reflexivity].
  - (* HSleep *) unfold do_sleep. destruct (handles s && (0 <=? dur)); [|split; [exact Qt|reflexivity]].
    cbn. split; [|reflexivity]. split; [|split; assumption].
    apply dropped_ids in D. apply dropped_ids. cbn. rewrite map_app, in_app_iff. cbn.
    destruct D as [A B]. split; [lia|]. intros [H|[H|[]]]; [tauto|lia].
  - split; [exact Qt | reflexivity].
  - (* SPoll *)
    pose proof (poll_shape s id0 delta) as H. cbn zeta in H.
    destruct H as (Hn & Hhp & Hp & Hha & Hids & Hqq).
    split; [|apply poll_log]. split; [|split].
    + apply dropped_ids. apply dropped_ids in D. now rewrite Hn, Hids.
    + now rewrite Hhp.
    + destruct Hqq as [E | (w & E & Hw & Hin & _)]; rewrite E; [assumption|].
      apply existsb_app_false; [assumption|]. cbn. apply Z.eqb_neq. intro; subst id.
      apply dropped_ids in D. rewrite Hw in D. tauto.
  - (* SElapsed *) unfold do_elapsed. destruct (find_sleep id0 (sleeps s)); (split; [exact Qt|reflexivity]).
  - (* SReset *) unfold do_reset. destruct (find_sleep id0 (sleeps s)); [|split; [exact Qt|reflexivity]].
    cbn. split; [|reflexivity]. split; [|split; assumption].
    apply dropped_ids. apply dropped_ids in D. cbn. now rewrite upd_sleep_ids.
  - (* SDrop *) unfold do_drop. destruct (find_sleep id0 (sleeps s)); [|split; [exact Qt|reflexivity]].
    cbn [fst log woken_of filter]. split; [|reflexivity]. split; [|split].
    + apply dropped_ids. apply dropped_ids in D. cbn. rewrite del_sleep_ids. tauto.
    + exact Hh.
    + cbn [queue]. destruct (pc s); try assumption; (apply existsb_app_false; [assumption|reflexivity]).
  - (* TFire *) unfold do_fire. destruct (pc s); try (split; [exact Qt|reflexivity]).
    destruct (find_tok tok (heap s)) eqn:F; [|split; [exact Qt|reflexivity]].
    destruct (is_min w (heap s) && (w_dl w <? clock s)); [|split; [exact Qt|reflexivity]].
    cbn [fst log woken_of filter]. split.
    + split; [exact D|]. split; [|exact Hq]. cbn [heap]. now apply heap_has_del_tok.
    + apply find_tok_in in F. destruct F as [F _].
      pose proof (proj1 (heap_has_false id (heap s)) Hh w F) as N.
      apply Z.eqb_neq in N. now rewrite N.
  - (* TIdle *) unfold do_idle. destruct (pc s); try (split; [exact Qt|reflexivity]).
    destruct (none_due (clock s) (heap s)); split; try exact Qt; reflexivity.
  - (* TRecv *) unfold do_recv. destruct (pc s); try (split; [exact Qt|reflexivity]).
    destruct (queue s) as [|[w|i] q] eqn:Q; try (split; [exact Qt|reflexivity]).
    + cbn [existsb is_wake_of] in Hq. apply orb_false_iff in Hq. destruct Hq as [Hq1 Hq2].
      cbn [fst log woken_of filter]. split; [|reflexivity]. split; [exact D|split]; cbn [heap queue]; [|assumption].
      cbn [heap_has existsb]. fold (heap_has id (heap s)). now rewrite Hq1, Hh.
    + cbn [existsb is_wake_of orb] in Hq.
      cbn [fst log woken_of filter]. split; [|reflexivity]. split; [exact D|split]; cbn [heap queue]; [|assumption].
      rewrite heap_has_remove. now destruct (i =? id).
  - (* TTimeout *) unfold do_timeout. destruct (pc s); try (split; [exact Qt|reflexivity]).
    destruct lim; [|split; [exact Qt|reflexivity]].
    destruct (z <=? clock s); split; try exact Qt; reflexivity.
  - (* TStop *) unfold do_stop. destruct (pc s); try (split; [exact Qt|reflexivity]).
    destruct (queue s) eqn:Q; try (split; [exact Qt|reflexivity]).
    destruct (sleeps s) eqn:L; try (split; [exact Qt|reflexivity]).
    destruct (handles s) eqn:Hhh; try (split; [exact Qt|reflexivity]).
    cbn. split; [|reflexivity]. split; [|split; assumption].
    apply dropped_ids. apply dropped_ids in D. cbn. rewrite L in D. exact D.
Qed.

Lemma quiet_run : forall id ops s, quiet id s ->
  quiet id (run ops s) /\ woken_of id (log (run ops s)) = woken_of id (log s).
Proof.
  induction ops as [|o ops IH]; intros s Qt; [split; [assumption|reflexivity]|].
  change (run (o :: ops) s) with (run ops (step_st s o)).
  destruct (quiet_step id s o Qt) as [Q1 E1]. destruct (IH _ Q1) as [Q2 E2].
  split; [assumption | now rewrite E2].
Qed.

Definition reachable (s : st) : Prop := exists ops, s = run ops init.

(* cancel_removes_all *)
Theorem cancel_removes_all : forall s id more,
  reachable s -> dropped id s -> cancel_consumed id s ->
  woken_of id (log (run more s)) = woken_of id (log s).
Proof.
  intros s id more [ops ->] D C.
  apply quiet_run. apply consumed_quiet; auto. apply inv_cancel_run, inv_cancel_init.
Qed.

(* ------------------------------------------------------- time invariant *)
Definition ev_ok (c : Z) (e : ev) : Prop :=
  match e with
  | EvReady id now dl t0 dur => dl < now <= c /\ dl = add_dur t0 dur /\ t0 <= now
  | EvWoken w now => w_dl w < now <= c
  | _ => True
  end.
Definition sleep_ok (c : Z) (sl : sleep) : Prop :=
  match s_dl sl with
  | Some d => d = add_dur (s_t0 sl) (s_dur sl) /\ s_t0 sl <= c
  | None => True
  end.
Definition inv_time (s : st) : Prop :=
  Forall (ev_ok (clock s)) (log s) /\ Forall (sleep_ok (clock s)) (sleeps s).

Lemma ev_ok_mono : forall c c' e, c <= c' -> ev_ok c e -> ev_ok c' e.
Proof. intros c c' [] L; cbn; intros; try exact I; lia. Qed.
Lemma sleep_ok_mono : forall c c' sl, c <= c' -> sleep_ok c sl -> sleep_ok c' sl.
Proof. unfold sleep_ok. intros c c' sl L. destruct (s_dl sl); [|auto]. intros [A B]. split; [assumption|lia]. Qed.

Lemma Forall_upd : forall (P : sleep -> Prop) s' l, Forall P l -> P s' -> Forall P (upd_sleep s' l).
Proof.
  intros P s' l H Hs. apply Forall_forall. intros x Hx.
  destruct (upd_sleep_in _ _ _ Hx); [subst; assumption|]. rewrite Forall_forall in H. auto.
Qed.

Lemma inv_time_init : inv_time init.
Proof. split; constructor. Qed.

Lemma inv_time_step : forall s o, inv_time s -> inv_time (step_st s o).
Proof.
  intros s o I. pose proof I as [L S]. unfold step_st.
  destruct o; cbn [step].
  - (* Tick *) unfold do_tick, inv_time. cbn [fst clock log sleeps]. split.
    + eapply Forall_impl; [|exact L]. intros e. apply (ev_ok_mono (clock s)). lia.
    + eapply Forall_impl; [|exact S]. intros e. apply (sleep_ok_mono (clock s)). lia.
  - unfold do_sleep. destruct (handles s && (0 <=? dur)); [|exact I]. cbn. split; [assumption|].
    apply Forall_app. split; [assumption|]. constructor; [exact Logic.I|constructor].
  - exact I.
  - (* SPoll *) unfold do_poll. destruct (find_sleep id (sleeps s)) as [sl|] eqn:F; [|exact I].
    destruct (find_sleep_in _ _ _ F) as [Hin Hid].
    assert (Hsl : sleep_ok (clock s) sl) by (rewrite Forall_forall in S; auto).
    unfold elapsed. destruct (s_dl sl) as [d|] eqn:Ed.
    + unfold sleep_ok in Hsl. rewrite Ed in Hsl. destruct Hsl as [Hd Ht].
      destruct (d <? clock s) eqn:El.
      * apply Z.ltb_lt in El. cbn. split; [|assumption]. constructor; [|assumption].
        cbn. repeat split; solve [lia | assumption].
      * cbn zeta. rewrite Ed.
        assert (Hs' : Forall (sleep_ok (clock s)) (upd_sleep sl (sleeps s))).
        { apply Forall_upd; [assumption|]. unfold sleep_ok. rewrite Ed. auto. }
        destruct (pc s); cbn; (split; [constructor; [exact Logic.I|assumption] | assumption]).
    + cbn zeta. set (now2 := clock s + Z.max 0 delta).
      assert (Hle : clock s <= now2) by (unfold now2; lia).
      assert (Hs' : Forall (sleep_ok now2)
                (upd_sleep (mkS id (Some (add_dur now2 (s_dur sl))) (s_dur sl) now2) (sleeps s))).
      { apply Forall_upd.
        - eapply Forall_impl; [|exact S]. intros e. now apply sleep_ok_mono.
        - unfold sleep_ok. cbn. split; [reflexivity|lia]. }
      assert (Hl' : Forall (ev_ok now2) (log s)).
      { eapply Forall_impl; [|exact L]. intros e. now apply ev_ok_mono. }
      destruct (pc s); cbn; (split; [constructor; [exact Logic.I|assumption] | assumption]).
  - unfold do_elapsed. destruct (find_sleep id (sleeps s)); exact I.
  - (* SReset *) unfold do_reset. destruct (find_sleep id (sleeps s)); [|exact I].
    cbn. split; [assumption|]. apply Forall_upd; [assumption|]. unfold sleep_ok. cbn. split; [reflexivity|lia].
  - (* SDrop *) unfold do_drop. destruct (find_sleep id (sleeps s)); [|exact I].
    cbn. split; [constructor; [exact Logic.I|assumption]|].
    apply Forall_forall. intros x Hx. apply del_sleep_in in Hx. rewrite Forall_forall in S. auto.
  - (* TFire *) unfold do_fire. destruct (pc s); try exact I.
    destruct (find_tok tok (heap s)); [|exact I].
    destruct (is_min w (heap s) && (w_dl w <? clock s)) eqn:G; [|exact I].
    apply andb_true_iff in G. destruct G as [_ G]. apply Z.ltb_lt in G.
    cbn. split; [|assumption]. constructor; [cbn; lia|assumption].
  - unfold do_idle. destruct (pc s); try exact I. destruct (none_due (clock s) (heap s)); exact I.
  - unfold do_recv. destruct (pc s); try exact I.
    destruct (queue s) as [|[w|i] q]; try exact I; cbn; (split; [|assumption]); try assumption.
    constructor; [exact Logic.I|assumption].
  - unfold do_timeout. destruct (pc s); try exact I. destruct lim; [|exact I].
    destruct (z <=? clock s); exact I.
  - unfold do_stop. destruct (pc s); try exact I. destruct (queue s); try exact I.
    destruct (sleeps s) eqn:E; try exact I. destruct (handles s); try exact I.
    cbn. split; [assumption|constructor].
Qed.

Lemma inv_time_run : forall ops s, inv_time s -> inv_time (run ops s).
Proof.
  induction ops as [|o ops IH]; intros s H; [assumption|].
  change (run (o :: ops) s) with (run ops (step_st s o)). apply IH. now apply inv_time_step.
Qed.

(* no_early_completion: a Poll::Ready is only ever returned at a clock reading
   strictly after the deadline, and the deadline is reset-time + duration *)
Theorem no_early_completion : forall ops id now dl t0 dur,
  In (EvReady id now dl t0 dur) (log (run ops init)) ->
  dl < now /\ dl = add_dur t0 dur /\ (t0 + dur <= instant_max -> dur < now - t0).
Proof.
  intros ops id now dl t0 dur H.
  destruct (inv_time_run ops init inv_time_init) as [L _].
  rewrite Forall_forall in L. specialize (L _ H). cbn in L. destruct L as (A & B & C).
  repeat split; try lia; try assumption.
  intros F. unfold add_dur in B. apply Z.leb_le in F. rewrite F in B. lia.
Qed.

(* no early wake-up: the timer thread calls wake() only for an entry whose
   deadline is strictly before its clock reading *)
Theorem no_early_wake : forall ops w now,
  In (EvWoken w now) (log (run ops init)) -> w_dl w < now <= clock (run ops init).
Proof.
  intros ops w now H.
  destruct (inv_time_run ops init inv_time_init) as [L _].
  rewrite Forall_forall in L. exact (L _ H).
Qed.

(* ------------------------------------------ the timer thread's wait invariant *)
(* whenever the thread blocks in recv/recv_timeout: the timeout was computed from
   the earliest deadline of the heap, and at the clock reading `seen` (just before
   blocking) no entry of the heap was due *)
Definition inv_wait (s : st) : Prop :=
  match pc s with
  | Receiving lim seen => lim = min_dl (heap s) /\ seen <= clock s /\ none_due seen (heap s) = true
  | _ => True
  end.

Lemma poll_clock : forall s id delta, clock s <= clock (fst (do_poll s id delta)).
Proof.
  intros. unfold do_poll. destruct (find_sleep id (sleeps s)); [|cbn; lia].
  destruct (elapsed s0 (clock s)); [destruct (s_dl s0); cbn; lia|].
  cbn zeta. destruct (s_dl s0), (pc s); cbn [fst clock]; lia.
Qed.

Lemma inv_wait_step : forall s o, inv_wait s -> inv_wait (step_st s o).
Proof.
  intros s o I. unfold step_st. destruct o; cbn [step].
  - unfold inv_wait, do_tick in *. cbn [fst pc heap clock]. destruct (pc s); auto.
    destruct I as (A & B & C). repeat split; auto; lia.
  - unfold do_sleep. destruct (handles s && (0 <=? dur)); exact I.
  - exact I.
  - pose proof (poll_shape s id delta) as H. cbn zeta in H.
    destruct H as (_ & Hh & Hp & _). pose proof (poll_clock s id delta) as Hc.
    unfold inv_wait in *. rewrite Hp, Hh. destruct (pc s); auto.
    destruct I as (A & B & C). repeat split; auto; lia.
  - unfold do_elapsed. destruct (find_sleep id (sleeps s)); exact I.
  - unfold do_reset. destruct (find_sleep id (sleeps s)); exact I.
  - unfold do_drop. destruct (find_sleep id (sleeps s)); exact I.
  - unfold do_fire. destruct (pc s) eqn:P; try exact I.
    destruct (find_tok tok (heap s)); [|exact I].
    destruct (is_min w (heap s) && (w_dl w <? clock s)); [exact Logic.I|exact I].
  - unfold do_idle. destruct (pc s) eqn:P; try exact I.
    destruct (none_due (clock s) (heap s)) eqn:N; [|exact I].
    unfold inv_wait. cbn. repeat split; auto; lia.
  - unfold do_recv. destruct (pc s) eqn:P; try exact I.
    destruct (queue s) as [|[w|i] q]; try exact I; exact Logic.I.
  - unfold do_timeout. destruct (pc s) eqn:P; try exact I. destruct lim; [|exact I].
    destruct (z <=? clock s); [exact Logic.I|exact I].
  - unfold do_stop. destruct (pc s) eqn:P; try exact I. destruct (queue s); try exact I.
    destruct (sleeps s); try exact I. destruct (handles s); try exact I. exact Logic.I.
Qed.

Lemma inv_wait_run : forall ops s, inv_wait s -> inv_wait (run ops s).
Proof.
  induction ops as [|o ops IH]; intros s H; [assumption|].
  change (run (o :: ops) s) with (run ops (step_st s o)). apply IH. now apply inv_wait_step.
Qed.

(* ------------------------------------------------- no wake-up is ever lost *)
Definition acct (s : st) (w : wake) : Prop :=
  In (MWake w) (queue s) \/ In w (heap s) \/ (exists t, In (EvWoken w t) (log s)) \/
  In (EvCancelled (w_id w)) (log s).
Definition inv_lost (s : st) : Prop := forall w, In (EvSent w) (log s) -> acct s w.

Lemma acct_weaken : forall s s' w,
  (forall m, In m (queue s) -> In m (queue s')) ->
  (forall x, In x (heap s) -> In x (heap s')) ->
  (forall e, In e (log s) -> In e (log s')) ->
  acct s w -> acct s' w.
Proof.
  unfold acct. intros s s' w Q H L [A|[A|[[t A]|A]]]; eauto 6.
Qed.

Lemma inv_lost_step : forall s o, inv_lost s -> inv_lost (step_st s o).
Proof.
  intros s o I. unfold step_st. destruct o; cbn [step]; try exact I.
  - unfold do_sleep. destruct (handles s && (0 <=? dur)); exact I.
  - (* SPoll *) unfold do_poll. destruct (find_sleep id (sleeps s)) as [sl|]; [|exact I].
    destruct (elapsed sl (clock s)).
    + destruct (s_dl sl); [|exact I]. intros w H. cbn in H. destruct H as [H|H]; [discriminate|].
      eapply acct_weaken; [| | |apply (I w H)]; cbn; auto.
    + cbn zeta. destruct (pc s) eqn:P; intros w H; cbn [fst log] in H; destruct H as [H|H];
        try discriminate;
        try (eapply acct_weaken; [| | |apply (I w H)]; cbn [fst queue heap log]; intros;
             try apply in_or_app; auto with datatypes; fail).
      * inv H. left. cbn. apply in_or_app. right. now left.
      * inv H. left. cbn. apply in_or_app. right. now left.
  - unfold do_elapsed. destruct (find_sleep id (sleeps s)); exact I.
  - unfold do_reset. destruct (find_sleep id (sleeps s)); exact I.
  - unfold do_drop. destruct (find_sleep id (sleeps s)); [|exact I].
    intros w H. cbn in H. destruct H as [H|H]; [discriminate|].
    eapply acct_weaken; [| | |apply (I w H)]; cbn [fst queue heap log]; intros; auto with datatypes.
    destruct (pc s); auto; apply in_or_app; auto.
  - (* TFire *) unfold do_fire. destruct (pc s) eqn:P; try exact I.
    destruct (find_tok tok (heap s)) as [w0|] eqn:F; [|exact I].
    destruct (is_min w0 (heap s) && (w_dl w0 <? clock s)); [|exact I].
    intros w H. cbn in H. destruct H as [H|H]; [discriminate|].
    destruct (I w H) as [A|[A|[[t A]|A]]]; unfold acct; cbn [fst queue heap log].
    + auto.
    + destruct (del_tok_keep _ _ _ _ F A) as [->|B]; [|auto].
      right. right. left. exists (clock s). now left.
    + right. right. left. exists t. now right.
    + right. right. right. now right.
  - unfold do_idle. destruct (pc s); try exact I. destruct (none_due (clock s) (heap s)); exact I.
  - (* TRecv *) unfold do_recv. destruct (pc s) eqn:P; try exact I.
    destruct (queue s) as [|[w0|i] q] eqn:Q; try exact I; intros w H; cbn [fst log] in H.
    + destruct (I w H) as [A|[A|[[t A]|A]]]; unfold acct; cbn [fst queue heap log].
      * rewrite Q in A. destruct A as [A|A]; [inv A; right; left; now left | auto].
      * right. left. now right.
      * eauto.
      * auto.
    + destruct H as [H|H]; [discriminate|].
      destruct (I w H) as [A|[A|[[t A]|A]]]; unfold acct; cbn [fst queue heap log].
      * rewrite Q in A. destruct A as [A|A]; [discriminate | auto].
      * destruct (Z.eq_dec (w_id w) i) as [E|E].
        -- right. right. right. left. now rewrite E.
        -- right. left. apply heap_remove_in. auto.
      * right. right. left. exists t. now right.
      * right. right. right. now right.
  - unfold do_timeout. destruct (pc s); try exact I. destruct lim; [|exact I].
    destruct (z <=? clock s); exact I.
  - unfold do_stop. destruct (pc s); try exact I. destruct (queue s) eqn:Q; try exact I.
    destruct (sleeps s); try exact I. destruct (handles s); try exact I.
    intros w H. cbn in H. specialize (I w H). unfold acct in *. cbn [fst queue heap log]. now rewrite Q in I.
Qed.

Lemma inv_lost_run : forall ops s, inv_lost s -> inv_lost (run ops s).
Proof.
  induction ops as [|o ops IH]; intros s H; [assumption|].
  change (run (o :: ops) s) with (run ops (step_st s o)). apply IH. now apply inv_lost_step.
Qed.

Lemma none_due_in : forall now h x, none_due now h = true -> In x h -> now <= w_dl x.
Proof.
  unfold none_due. intros now h x H Hx. rewrite forallb_forall in H. apply Z.leb_le. auto.
Qed.

(* fires_when_due: a Wake that was sent and has been taken out of the channel, whose
   sleep was not cancelled, HAS been woken by the time the timer thread blocks in
   recv with a clock reading past the deadline *)
Theorem fires_when_due : forall ops w lim seen,
  let s := run ops init in
  In (EvSent w) (log s) ->
  ~ In (MWake w) (queue s) ->
  ~ In (EvCancelled (w_id w)) (log s) ->
  pc s = Receiving lim seen -> w_dl w < seen ->
  exists t, In (EvWoken w t) (log s) /\ w_dl w < t.
Proof.
  intros ops w lim seen s Hs Hq Hc Hp Hd.
  assert (L : inv_lost s) by (apply inv_lost_run; intros x []).
  assert (W : inv_wait s) by (apply inv_wait_run; exact Logic.I).
  destruct (L w Hs) as [A|[A|[[t A]|A]]]; try tauto.
  - unfold inv_wait in W. rewrite Hp in W. destruct W as (_ & _ & N).
    pose proof (none_due_in _ _ _ N A). lia.
  - exists t. split; [assumption|]. apply (no_early_wake ops w t A).
Qed.

(* the thread never sleeps past a deadline it holds: the recv timeout is computed
   from the minimal deadline of the heap *)
Theorem timer_waits_until_next_deadline : forall ops lim seen,
  let s := run ops init in
  pc s = Receiving lim seen ->
  lim = min_dl (heap s) /\ (forall x, In x (heap s) -> seen <= w_dl x) /\ seen <= clock s.
Proof.
  intros ops lim seen s Hp.
  assert (W : inv_wait s) by (apply inv_wait_run; exact Logic.I).
  unfold inv_wait in W. rewrite Hp in W. destruct W as (A & B & C).
  repeat split; auto. intros x Hx. eapply none_due_in; eauto.
Qed.

(* ------------------------------------------------------ tokens are unique *)
From Coq Require Import Permutation.

Definition wtoks (q : list msg) : list Z :=
  flat_map (fun m => match m with MWake w => [w_tok w] | MCancel _ => [] end) q.
Definition all_toks (s : st) : list Z := map w_tok (heap s) ++ wtoks (queue s).
Definition inv_tok (s : st) : Prop :=
  NoDup (all_toks s) /\ forall t, In t (all_toks s) -> t < next_tok s.

Lemma NoDup_snoc : forall (l : list Z) x, NoDup l -> ~ In x l -> NoDup (l ++ [x]).
Proof.
  intros l x H N. apply NoDup_rev in H. rewrite <- (rev_involutive (l ++ [x])).
  apply NoDup_rev. rewrite rev_app_distr. cbn. constructor; [|assumption].
  intro I. apply N. now apply in_rev.
Qed.

Lemma NoDup_app_iff : forall (l r : list Z),
  NoDup (l ++ r) <-> NoDup l /\ NoDup r /\ (forall x, In x l -> ~ In x r).
Proof.
  induction l as [|a l IH]; cbn; intros r.
  - split; [intros H; repeat split; [constructor|assumption|tauto] | tauto].
  - split.
    + intros H. inv H. apply IH in H3. destruct H3 as (A & B & C).
      rewrite in_app_iff in H2. repeat split; auto.
      * constructor; tauto.
      * intros x [->|Hx]; [tauto | auto].
    + intros (A & B & C). inv A. constructor.
      * rewrite in_app_iff. intros [H|H]; [tauto | apply (C a); auto].
      * apply IH. repeat split; auto.
Qed.

Lemma sub_nodup : forall (h h' : list wake) r,
  (forall x, In x (map w_tok h') -> In x (map w_tok h)) ->
  NoDup (map w_tok h') ->
  NoDup (map w_tok h ++ r) -> NoDup (map w_tok h' ++ r).
Proof.
  intros h h' r Sub N H. apply NoDup_app_iff in H. destruct H as (A & B & C).
  apply NoDup_app_iff. repeat split; auto.
Qed.

Lemma del_tok_nodup : forall tok h, NoDup (map w_tok h) -> NoDup (map w_tok (del_tok tok h)).
Proof.
  induction h as [|a h IH]; cbn; intros N; [constructor|]. inv N.
  destruct (w_tok a =? tok); [assumption|]. cbn. constructor; [|auto].
  intro I. apply H1. apply in_map_iff in I. destruct I as (x & E & I).
  apply in_map_iff. exists x. split; [assumption|]. eapply del_tok_in; eauto.
Qed.

Lemma filter_nodup_map : forall (p : wake -> bool) h,
  NoDup (map w_tok h) -> NoDup (map w_tok (filter p h)).
Proof.
  induction h as [|a h IH]; cbn; intros N; [constructor|]. inv N.
  destruct (p a); cbn; [constructor|]; auto.
  intro I. apply H1. apply in_map_iff in I. destruct I as (x & E & I).
  apply in_map_iff. exists x. split; [assumption|]. apply filter_In in I. tauto.
Qed.

Lemma inv_tok_init : inv_tok init.
Proof. split; [constructor | intros t []]. Qed.

Lemma inv_tok_step : forall s o, inv_tok s -> inv_tok (step_st s o).
Proof.
  intros s o I. pose proof I as [N B]. unfold step_st, all_toks in *.
  destruct o; cbn [step]; try exact I.
  - unfold do_sleep. destruct (handles s && (0 <=? dur)); exact I.
  - (* SPoll *) unfold do_poll. destruct (find_sleep id (sleeps s)) as [sl|]; [|exact I].
    destruct (elapsed sl (clock s)); [destruct (s_dl sl); exact I|].
    cbn zeta. destruct (pc s); unfold inv_tok, all_toks; cbn [fst heap queue next_tok];
      try (split; [assumption | intros t Ht; specialize (B t Ht); lia]);
      (unfold wtoks; rewrite flat_map_app; cbn [flat_map w_tok app]; rewrite app_assoc; split;
       [apply NoDup_snoc; [assumption|]; intro A; specialize (B _ A); lia
       | intros t Ht; apply in_app_iff in Ht; destruct Ht as [Ht|[<-|[]]]; [specialize (B t Ht)|]; lia]).
  - unfold do_elapsed. destruct (find_sleep id (sleeps s)); exact I.
  - unfold do_reset. destruct (find_sleep id (sleeps s)); exact I.
  - unfold do_drop. destruct (find_sleep id (sleeps s)); [|exact I].
    unfold inv_tok, all_toks. cbn [fst heap queue next_tok].
    destruct (pc s); try exact I; unfold wtoks; rewrite flat_map_app; cbn [flat_map app];
      rewrite app_nil_r; exact I.
  - (* TFire *) unfold do_fire. destruct (pc s); try exact I.
    destruct (find_tok tok (heap s)) as [w0|]; [|exact I].
    destruct (is_min w0 (heap s) && (w_dl w0 <? clock s)); [|exact I].
    unfold inv_tok, all_toks. cbn [fst heap queue next_tok].
    assert (Sub : forall x, In x (map w_tok (del_tok tok (heap s))) -> In x (map w_tok (heap s))).
    { intros x Hx. apply in_map_iff in Hx. destruct Hx as (y & E & Hy). apply in_map_iff.
      exists y. split; [assumption|]. eapply del_tok_in; eauto. }
    split.
    + eapply sub_nodup; [exact Sub| |exact N]. apply del_tok_nodup. apply NoDup_app_iff in N. tauto.
    + intros t Ht. apply B. apply in_app_iff in Ht. apply in_app_iff. destruct Ht; auto.
  - unfold do_idle. destruct (pc s); try exact I. destruct (none_due (clock s) (heap s)); exact I.
  - (* TRecv *) unfold do_recv. destruct (pc s); try exact I.
    destruct (queue s) as [|[w0|i] q] eqn:Q; try exact I; unfold inv_tok, all_toks;
      cbn [fst heap queue next_tok]; cbn [wtoks flat_map app] in N, B; fold (wtoks q) in N, B.
    + assert (P : Permutation (map w_tok (heap s) ++ w_tok w0 :: wtoks q)
                              (map w_tok (w0 :: heap s) ++ wtoks q)).
      { cbn. symmetry. apply Permutation_middle. }
      split; [eapply Permutation_NoDup; eauto|].
      intros t Ht. apply B. eapply Permutation_in; [symmetry; exact P|exact Ht].
    + assert (Sub : forall x, In x (map w_tok (heap_remove i (heap s))) -> In x (map w_tok (heap s))).
      { intros x Hx. apply in_map_iff in Hx. destruct Hx as (y & E & Hy). apply in_map_iff.
        exists y. split; [assumption|]. apply heap_remove_in in Hy. tauto. }
      split.
      * eapply sub_nodup; [exact Sub| |exact N]. apply filter_nodup_map. apply NoDup_app_iff in N. tauto.
      * intros t Ht. apply B. apply in_app_iff in Ht. apply in_app_iff. destruct Ht; auto.
  - unfold do_timeout. destruct (pc s); try exact I. destruct lim; [|exact I].
    destruct (z <=? clock s); exact I.
  - unfold do_stop. destruct (pc s); try exact I. destruct (queue s) eqn:Q; try exact I.
    destruct (sleeps s); try exact I. destruct (handles s); try exact I.
    unfold inv_tok, all_toks. cbn [fst heap queue next_tok]. split; assumption.
Qed.

Lemma inv_tok_run : forall ops s, inv_tok s -> inv_tok (run ops s).
Proof.
  induction ops as [|o ops IH]; intros s H; [assumption|].
  change (run (o :: ops) s) with (run ops (step_st s o)). apply IH. now apply inv_tok_step.
Qed.

(* --------------------------------------------- progress of the timer thread *)
Lemma exists_min : forall h, h <> [] -> exists m, In m h /\ is_min m h = true.
Proof.
  induction h as [|a t IH]; [congruence|]. intros _.
  destruct t as [|b t'].
  - exists a. split; [now left|]. cbn. now rewrite Z.leb_refl.
  - destruct IH as (m & Hm & Mm); [discriminate|].
    unfold is_min in *. rewrite forallb_forall in Mm.
    destruct (Z_le_gt_dec (w_dl a) (w_dl m)) as [L|G].
    + exists a. split; [now left|]. apply forallb_forall. intros x [<-|Hx]; [apply Z.leb_refl|].
      apply Z.leb_le. specialize (Mm x Hx). apply Z.leb_le in Mm. lia.
    + exists m. split; [now right|]. apply forallb_forall. intros x [<-|Hx]; [apply Z.leb_le; lia|auto].
Qed.

Lemma find_tok_nodup : forall h m, NoDup (map w_tok h) -> In m h -> find_tok (w_tok m) h = Some m.
Proof.
  induction h as [|a h IH]; cbn; intros m N Hm; [tauto|]. inv N.
  destruct Hm as [->|Hm]; [now rewrite Z.eqb_refl|].
  destruct (w_tok a =? w_tok m) eqn:E; [|auto].
  apply Z.eqb_eq in E. exfalso. apply H1. rewrite E. now apply in_map.
Qed.

Lemma del_tok_length : forall tok h w, find_tok tok h = Some w -> S (length (del_tok tok h)) = length h.
Proof.
  induction h as [|a h IH]; cbn; intros w F; [discriminate|].
  destruct (w_tok a =? tok); [reflexivity|]. cbn. f_equal. eauto.
Qed.

Lemma none_due_false : forall now h, none_due now h = false -> exists x, In x h /\ w_dl x < now.
Proof.
  unfold none_due. induction h as [|a h IH]; cbn; [discriminate|]. intros H.
  apply andb_false_iff in H. destruct H as [H|H].
  - exists a. split; [now left|]. apply Z.leb_gt in H. lia.
  - destruct (IH H) as (x & Hx & L). exists x. split; [now right|assumption].
Qed.

(* at the top of its loop the thread can always take a step: wake a due entry of
   minimal deadline, or (nothing due) go and block in recv *)
Theorem timer_progress : forall s, pc s = Firing -> inv_tok s ->
  (exists tok w, snd (step s (TFire tok)) = OWoken w /\ In w (heap s) /\ w_dl w < clock s /\
                 is_min w (heap s) = true) \/
  (none_due (clock s) (heap s) = true /\ snd (step s TIdle) = ONone).
Proof.
  intros s P [N _]. destruct (none_due (clock s) (heap s)) eqn:D.
  - right. split; [reflexivity|]. cbn. unfold do_idle. now rewrite P, D.
  - left. destruct (none_due_false _ _ D) as (x & Hx & Lx).
    destruct (exists_min (heap s)) as (m & Hm & Mm); [intro E; rewrite E in Hx; inv Hx|].
    assert (Dm : w_dl m < clock s).
    { unfold is_min in Mm. rewrite forallb_forall in Mm. specialize (Mm x Hx). apply Z.leb_le in Mm. lia. }
    exists (w_tok m), m. cbn. unfold do_fire. rewrite P.
    unfold all_toks in N. apply NoDup_app_iff in N. destruct N as (N & _).
    rewrite (find_tok_nodup _ _ N Hm), Mm. apply Z.ltb_lt in Dm. rewrite Dm. cbn. apply Z.ltb_lt in Dm. auto.
Qed.

(* the fire loop terminates: after finitely many TFire steps (no time needs to
   pass) the thread reaches recv, and then nothing in the heap is due *)
Lemma drain : forall n s, (length (heap s) <= n)%nat -> pc s = Firing -> inv_tok s ->
  exists toks, let s' := run (map TFire toks ++ [TIdle]) s in
    pc s' = Receiving (min_dl (heap s')) (clock s) /\ clock s' = clock s /\ queue s' = queue s /\
    none_due (clock s) (heap s') = true.
Proof.
  induction n as [|n IH]; intros s L P T.
  - exists []. assert (E : heap s = []) by (destruct (heap s); [reflexivity | cbn in L; lia]).
    cbn. unfold step_st. cbn. unfold do_idle. rewrite P, E. cbn. auto.
  - destruct (timer_progress s P T) as [(tok & w & O & Hw & Dw & Mw)|[D O]].
    + cbn in O. unfold do_fire in O. rewrite P in O.
      destruct (find_tok tok (heap s)) as [w0|] eqn:F; [|discriminate].
      destruct (is_min w0 (heap s) && (w_dl w0 <? clock s)) eqn:G; [|discriminate].
      set (s1 := step_st s (TFire tok)).
      assert (E1 : s1 = fst (do_fire s tok)) by reflexivity.
      unfold do_fire in E1. rewrite P, F, G in E1. cbn [fst] in E1.
      assert (P1 : pc s1 = Firing) by (rewrite E1; reflexivity).
      assert (L1 : (length (heap s1) <= n)%nat).
      { rewrite E1. cbn [heap]. pose proof (del_tok_length _ _ _ F). lia. }
      assert (T1 : inv_tok s1) by (apply inv_tok_step; assumption).
      destruct (IH s1 L1 P1 T1) as (toks & H).
      exists (tok :: toks). cbn zeta in *.
      change (run (map TFire (tok :: toks) ++ [TIdle]) s) with (run (map TFire toks ++ [TIdle]) s1).
      assert (C1 : clock s1 = clock s) by (rewrite E1; reflexivity).
      assert (Q1 : queue s1 = queue s) by (rewrite E1; reflexivity).
      rewrite C1, Q1 in H. exact H.
    + exists []. cbn. unfold step_st. cbn. unfold do_idle. rewrite P, D. cbn. auto.
Qed.

Lemma fire_log_keep : forall toks s e, In e (log s) -> In e (log (run (map TFire toks) s)).
Proof.
  induction toks as [|k ks IH]; intros s e A; [exact A|].
  change (run (map TFire (k :: ks)) s) with (run (map TFire ks) (step_st s (TFire k))).
  apply IH. unfold step_st. cbn [step]. unfold do_fire. destruct (pc s); try exact A.
  destruct (find_tok k (heap s)); [|exact A].
  destruct (is_min w (heap s) && (w_dl w <? clock s)); [|exact A]. cbn. now right.
Qed.

Lemma fire_acct : forall toks s x, In x (heap s) ->
  let s' := run (map TFire toks) s in
  In x (heap s') \/ exists t, In (EvWoken x t) (log s').
Proof.
  induction toks as [|tok toks IH]; intros s x Hx; [left; exact Hx|].
  cbn zeta. change (run (map TFire (tok :: toks)) s) with (run (map TFire toks) (step_st s (TFire tok))).
  set (s1 := step_st s (TFire tok)).
  assert (A : In x (heap s1) \/ exists t, In (EvWoken x t) (log s1)).
  { unfold s1, step_st. cbn [step]. unfold do_fire. destruct (pc s); try (left; exact Hx).
    destruct (find_tok tok (heap s)) as [w0|] eqn:F; [|left; exact Hx].
    destruct (is_min w0 (heap s) && (w_dl w0 <? clock s)); [|left; exact Hx].
    cbn [fst heap log]. destruct (del_tok_keep _ _ _ _ F Hx) as [->|B]; [|auto].
    right. exists (clock s). now left. }
  destruct A as [A|[t A]]; [now apply IH|].
  right. exists t. now apply fire_log_keep.
Qed.

(* fires_when_due, constructive form: from ANY reachable state in which the thread
   is at the top of its loop there is a continuation of timer-thread steps alone
   (no clock advance, no help from other threads) that wakes every heap entry
   whose deadline is before the current clock and then blocks in recv *)
Theorem due_entries_get_woken : forall ops,
  let s := run ops init in
  pc s = Firing ->
  exists toks, let s' := run (map TFire toks ++ [TIdle]) s in
    (forall x, In x (heap s) -> w_dl x < clock s -> exists t, In (EvWoken x t) (log s')) /\
    (exists lim, pc s' = Receiving lim (clock s)) /\ clock s' = clock s.
Proof.
  intros ops s P.
  assert (T : inv_tok s) by (apply inv_tok_run, inv_tok_init).
  destruct (drain (length (heap s)) s (le_n _) P T) as (toks & H). cbn zeta in H.
  exists toks. cbn zeta. destruct H as (Hp & Hc & Hq & Hn).
  split; [|split; [eexists; exact Hp|exact Hc]].
  intros x Hx Dx. rewrite run_app in *.
  set (s1 := run (map TFire toks) s) in *.
  assert (E : heap (run [TIdle] s1) = heap s1 /\ log (run [TIdle] s1) = log s1).
  { cbn. unfold step_st. cbn. unfold do_idle. destruct (pc s1); auto.
    destruct (none_due (clock s1) (heap s1)); auto. }
  destruct E as [Eh El]. rewrite El. rewrite Eh in Hn.
  destruct (fire_acct toks s x Hx) as [A|A]; [|exact A].
  fold s1 in A. pose proof (none_due_in _ _ _ Hn A). lia.
Qed.

(* ----------------------------------------------------- the Sleep side *)
(* "always completes after it": polled at a clock reading after its deadline, a
   Sleep returns Ready *)
Theorem poll_ready_after_deadline : forall s id sl d delta,
  find_sleep id (sleeps s) = Some sl -> s_dl sl = Some d -> d < clock s ->
  snd (step s (SPoll id delta)) = OPoll true d.
Proof.
  intros s id sl d delta F D L. cbn. unfold do_poll, elapsed. rewrite F, D.
  apply Z.ltb_lt in L. now rewrite L.
Qed.

(* ...in particular after the waker was woken for the sleep's current deadline *)
Theorem woken_then_ready : forall ops w t sl delta,
  let s := run ops init in
  In (EvWoken w t) (log s) ->
  find_sleep (w_id w) (sleeps s) = Some sl -> s_dl sl = Some (w_dl w) ->
  snd (step s (SPoll (w_id w) delta)) = OPoll true (w_dl w).
Proof.
  intros ops w t sl delta s H F D.
  eapply poll_ready_after_deadline; eauto.
  pose proof (no_early_wake ops w t H). fold s in H0. lia.
Qed.

(* the first poll is never Ready (deadline is None), whatever the duration *)
Theorem first_poll_pending : forall s id sl delta,
  find_sleep id (sleeps s) = Some sl -> s_dl sl = None ->
  exists d, snd (step s (SPoll id delta)) = OPoll false d.
Proof.
  intros s id sl delta F D. cbn. unfold do_poll, elapsed. rewrite F, D. cbn zeta.
  destruct (pc s); eexists; reflexivity.
Qed.

(* the send in Sleep::poll never fails ("Shouldn't fail to send") *)
Theorem no_send_failure : forall ops, ~ In EvPanic (log (run ops init)).
Proof.
  intros ops.
  assert (G : forall ops s, inv_cancel s -> ~ In EvPanic (log s) -> ~ In EvPanic (log (run ops s))).
  { clear ops. induction ops as [|o ops IH]; intros s I N; [exact N|].
    change (run (o :: ops) s) with (run ops (step_st s o)).
    apply IH; [now apply inv_cancel_step|].
    destruct I as [_ S]. unfold step_st. destruct o; cbn [step]; try exact N.
    - unfold do_sleep. destruct (handles s && (0 <=? dur)); exact N.
    - unfold do_poll. destruct (find_sleep id (sleeps s)) eqn:F; [|exact N].
      destruct (elapsed s0 (clock s)).
      + destruct (s_dl s0); [|exact N]. cbn. intros [H|H]; [discriminate|auto].
      + cbn zeta. destruct (pc s) eqn:P; cbn; try (intros [H|H]; [discriminate|auto]).
        destruct (S eq_refl) as [E _]. rewrite E in F. discriminate.
    - unfold do_elapsed. destruct (find_sleep id (sleeps s)); exact N.
    - unfold do_reset. destruct (find_sleep id (sleeps s)); exact N.
    - unfold do_drop. destruct (find_sleep id (sleeps s)); [|exact N]. cbn. intros [H|H]; [discriminate|auto].
    - unfold do_fire. destruct (pc s); try exact N. destruct (find_tok tok (heap s)); [|exact N].
      destruct (is_min w (heap s) && (w_dl w <? clock s)); [|exact N]. cbn. intros [H|H]; [discriminate|auto].
    - unfold do_idle. destruct (pc s); try exact N. destruct (none_due (clock s) (heap s)); exact N.
    - unfold do_recv. destruct (pc s); try exact N. destruct (queue s) as [|[w|i] q]; try exact N.
      cbn. intros [H|H]; [discriminate|auto].
    - unfold do_timeout. destruct (pc s); try exact N. destruct lim; [|exact N].
      destruct (z <=? clock s); exact N.
    - unfold do_stop. destruct (pc s); try exact N. destruct (queue s); try exact N.
      destruct (sleeps s); try exact N. destruct (handles s); exact N. }
  apply G; [apply inv_cancel_init | intros []].
Qed.

(* ------------------------------------------------------------- witnesses *)
(* the window between drop and consumption of the Cancel: the wake-up is issued
   AFTER the Sleep was dropped (log is newest first) *)
Theorem drop_window_exists :
  exists ops w,
    let s := run ops init in
    dropped (w_id w) s /\ ~ cancel_consumed (w_id w) s /\
    log s = [EvWoken w 10; EvDropped (w_id w); EvSent w].
Proof.
  exists [HSleep 5; SPoll 0 0; TIdle; TRecv; Tick 10; SDrop 0; TFire 0], (mkW 0 5 0).
  cbn zeta. split; [|split].
  - unfold dropped. split; [split; [apply Z.leb_le | apply Z.ltb_lt]; vm_compute; reflexivity | vm_compute; reflexivity].
  - unfold cancel_consumed. vm_compute. discriminate.
  - vm_compute. reflexivity.
Qed.

(* non-vacuity: a reachable state with two sleeps, one cancelled and consumed, one
   woken at its deadline and then Ready *)
Definition demo_ops : list op :=
  [HSleep 5; HSleep 7; SPoll 0 0; SPoll 1 0; TIdle; TRecv; TIdle; TRecv; SDrop 0; TIdle; TRecv;
   Tick 8; TFire 1; TIdle; SPoll 1 0].

Example demo_facts :
  let s := run demo_ops init in
  dropped 0 s /\ cancel_consumed 0 s /\
  In (EvWoken (mkW 1 7 1) 8) (log s) /\ In (EvReady 1 8 7 0 7) (log s) /\
  woken_of 0 (log s) = [] /\ pc s = Receiving None 8.
Proof.
  cbn zeta. split; [|split; [|split; [|split; [|split]]]].
  - unfold dropped. split; [split; [apply Z.leb_le | apply Z.ltb_lt]; vm_compute; reflexivity | vm_compute; reflexivity].
  - unfold cancel_consumed. vm_compute. reflexivity.
  - vm_compute. tauto.
  - vm_compute. tauto.
  - vm_compute. reflexivity.
  - vm_compute. reflexivity.
Qed.

(* pop order: the entry the timer thread wakes has a minimal deadline among the
   whole heap (TimerHeap ordering), and is due *)
Theorem fire_pops_minimum : forall s tok w,
  snd (step s (TFire tok)) = OWoken w ->
  In w (heap s) /\ w_dl w < clock s /\ forall x, In x (heap s) -> w_dl w <= w_dl x.
Proof.
  intros s tok w H. cbn in H. unfold do_fire in H.
  destruct (pc s); try discriminate.
  destruct (find_tok tok (heap s)) as [w0|] eqn:F; [|discriminate].
  destruct (is_min w0 (heap s) && (w_dl w0 <? clock s)) eqn:G; [|discriminate].
  cbn in H. inv H. apply andb_true_iff in G. destruct G as [M D].
  apply find_tok_in in F. destruct F as [F _]. apply Z.ltb_lt in D.
  repeat split; auto. intros x Hx. unfold is_min in M. rewrite forallb_forall in M.
  apply Z.leb_le. auto.
Qed.

(* TimerHeap::remove: consuming Cancel(id) leaves no entry of id and keeps all others *)
Theorem cancel_step_removes : forall s id q lim seen,
  pc s = Receiving lim seen -> queue s = MCancel id :: q ->
  let s' := fst (step s TRecv) in
  (forall x, In x (heap s') <-> In x (heap s) /\ w_id x <> id) /\ queue s' = q.
Proof.
  intros s id q lim seen P Q. cbn. unfold do_recv. rewrite P, Q. cbn.
  split; [|reflexivity]. intros x. apply heap_remove_in.
Qed.
