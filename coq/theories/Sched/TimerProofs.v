(* C42 — proofs about the timer model (all interleavings = all op lists). *)
From DustDDS Require Import Base.Machine Sched.TimerModel.
Open Scope Z_scope.

Ltac inv H := inversion H; subst; clear H.

(* unfold one step into its branches *)
Ltac unstep :=
  unfold step_st, step, do_tick, do_sleep, do_drop_handles, do_poll, do_elapsed, do_reset,
         do_drop, do_fire, do_idle, do_recv, do_timeout, do_stop, set_log in *.
Ltac brk :=
  repeat match goal with
         | |- context [match ?x with _ => _ end] => destruct x eqn:?
         | |- context [if ?x then _ else _] => destruct x eqn:?
         end.
Ltac sstep := unstep; brk; cbn [fst snd clock next_id next_tok handles sleeps queue heap pc log] in *.

(* ------------------------------------------------------------------ lists *)
Lemma find_sleep_in : forall id l sl, find_sleep id l = Some sl -> In sl l /\ s_id sl = id.
Proof.
  induction l as [|a l IH]; cbn; intros sl H; [discriminate|].
  destruct (s_id a =? id) eqn:E.
  - inv H. split; [now left | now apply Z.eqb_eq].
  - destruct (IH _ H); split; [now right | assumption].
Qed.

Lemma find_sleep_none : forall id l, find_sleep id l = None <-> ~ In id (map s_id l).
Proof.
  induction l as [|a l IH]; cbn; [tauto|].
  destruct (s_id a =? id) eqn:E.
  - apply Z.eqb_eq in E. split; [discriminate | intros H; exfalso; apply H; now left].
  - apply Z.eqb_neq in E. rewrite IH. tauto.
Qed.

Lemma upd_sleep_ids : forall s' l, map s_id (upd_sleep s' l) = map s_id l.
Proof.
  induction l as [|a l IH]; cbn; [reflexivity|].
  destruct (s_id a =? s_id s') eqn:E; cbn; [apply Z.eqb_eq in E; now rewrite E | now rewrite IH].
Qed.

Lemma upd_sleep_in : forall s' l x, In x (upd_sleep s' l) -> x = s' \/ In x l.
Proof.
  induction l as [|a l IH]; cbn; intros x H; [tauto|].
  destruct (s_id a =? s_id s'); cbn in H; destruct H as [H|H]; auto.
  destruct (IH _ H); auto.
Qed.

Lemma find_sleep_upd_none : forall id s' l,
  find_sleep id (upd_sleep s' l) = None <-> find_sleep id l = None.
Proof. intros. rewrite !find_sleep_none, upd_sleep_ids. tauto. Qed.

Lemma find_sleep_app_none : forall id l n,
  find_sleep id (l ++ [n]) = None <-> find_sleep id l = None /\ s_id n <> id.
Proof.
  intros. rewrite !find_sleep_none, map_app, in_app_iff. cbn. tauto.
Qed.

Lemma del_sleep_ids : forall id l x, In x (map s_id (del_sleep id l)) <-> In x (map s_id l) /\ x <> id.
Proof.
  unfold del_sleep. induction l as [|a l IH]; cbn; intros x; [tauto|].
  destruct (s_id a =? id) eqn:E; cbn.
  - apply Z.eqb_eq in E. rewrite IH. split; [tauto|]. intros [[H|H] N]; [congruence|tauto].
  - apply Z.eqb_neq in E. rewrite IH. split; [|tauto]. intros [H|H]; [subst; tauto|tauto].
Qed.

Lemma find_sleep_del_none : forall id i l,
  find_sleep id (del_sleep i l) = None <-> find_sleep id l = None \/ id = i.
Proof.
  intros. rewrite !find_sleep_none, del_sleep_ids.
  destruct (Z.eq_dec id i); tauto.
Qed.

Lemma del_sleep_in : forall id l x, In x (del_sleep id l) -> In x l.
Proof. unfold del_sleep. intros id l x H. apply filter_In in H. tauto. Qed.

Lemma find_tok_in : forall tok h w, find_tok tok h = Some w -> In w h /\ w_tok w = tok.
Proof.
  induction h as [|a h IH]; cbn; intros w H; [discriminate|].
  destruct (w_tok a =? tok) eqn:E.
  - inv H. split; [now left | now apply Z.eqb_eq].
  - destruct (IH _ H). split; [now right|assumption].
Qed.

Lemma del_tok_in : forall tok h x, In x (del_tok tok h) -> In x h.
Proof.
  induction h as [|a h IH]; cbn; intros x H; [tauto|].
  destruct (w_tok a =? tok); [now right|]. destruct H; [now left | right; auto].
Qed.

Lemma del_tok_keep : forall tok h w0 x,
  find_tok tok h = Some w0 -> In x h -> x = w0 \/ In x (del_tok tok h).
Proof.
  induction h as [|a h IH]; cbn; intros w0 x F H; [tauto|].
  destruct (w_tok a =? tok).
  - inv F. destruct H; [left; auto | right; auto].
  - destruct H as [H|H]; [right; left; auto|]. destruct (IH _ _ F H); [auto | right; right; auto].
Qed.

Lemma heap_remove_in : forall id h x, In x (heap_remove id h) <-> In x h /\ w_id x <> id.
Proof.
  unfold heap_remove. intros. rewrite filter_In, negb_true_iff, Z.eqb_neq. tauto.
Qed.

Lemma heap_has_false : forall id h, heap_has id h = false <-> forall x, In x h -> w_id x <> id.
Proof.
  unfold heap_has. induction h as [|a h IH]; cbn; [split; [tauto|reflexivity]|].
  rewrite orb_false_iff, IH, Z.eqb_neq. split.
  - intros [A B] x [H|H]; [subst; auto | auto].
  - intros H. split; [apply H; now left | intros x Hx; apply H; now right].
Qed.

Lemma heap_has_remove : forall id i h,
  heap_has id (heap_remove i h) = if i =? id then false else heap_has id h.
Proof.
  intros id i. unfold heap_has, heap_remove. induction h as [|a h IH]; cbn.
  - now destruct (i =? id).
  - destruct (w_id a =? i) eqn:E; cbn.
    + rewrite IH. apply Z.eqb_eq in E. destruct (i =? id) eqn:F; [reflexivity|].
      apply Z.eqb_neq in F. assert (w_id a =? id = false) by (apply Z.eqb_neq; congruence).
      now rewrite H.
    + rewrite IH. destruct (i =? id) eqn:F; [|reflexivity].
      apply Z.eqb_eq in F. apply Z.eqb_neq in E.
      assert (w_id a =? id = false) by (apply Z.eqb_neq; congruence). now rewrite H.
Qed.

Lemma heap_has_del_tok : forall id tok h, heap_has id h = false -> heap_has id (del_tok tok h) = false.
Proof.
  intros id tok h. rewrite !heap_has_false. intros H x Hx. apply H. eapply del_tok_in; eauto.
Qed.

(* ---------------------------------------------------------------- residue *)
Lemma residue_app : forall id q1 q2 h, residue id (q1 ++ q2) h = residue id q2 (residue id q1 h).
Proof.
  induction q1 as [|m q1 IH]; cbn; intros; [reflexivity|]. destruct m; apply IH.
Qed.

Lemma residue_mono : forall id q, residue id q true = false -> residue id q false = false.
Proof.
  induction q as [|m q IH]; cbn; [discriminate|]. destruct m as [w|i].
  - cbn. destruct (w_id w =? id); auto.
  - destruct (i =? id); auto.
Qed.

Lemma residue_le : forall id q h h', (h' = true -> h = true) ->
  residue id q h = false -> residue id q h' = false.
Proof.
  intros id q h h' L H. destruct h, h'; auto; [now apply residue_mono | exfalso; now discriminate (L eq_refl)].
Qed.

Lemma residue_no_cancel : forall id q h,
  existsb (is_cancel_of id) q = false -> residue id q h = h || existsb (is_wake_of id) q.
Proof.
  induction q as [|m q IH]; cbn; intros h H; [now rewrite orb_false_r|].
  apply orb_false_iff in H. destruct H as [A B]. destruct m as [w|i]; cbn in *.
  - rewrite IH by assumption. now rewrite orb_assoc.
  - rewrite A. now apply IH.
Qed.


(* ------------------------------------------------- shape of the steps *)
Lemma poll_shape : forall s id delta,
  let s' := fst (do_poll s id delta) in
  next_id s' = next_id s /\ heap s' = heap s /\ pc s' = pc s /\ handles s' = handles s /\
  map s_id (sleeps s') = map s_id (sleeps s) /\
  (queue s' = queue s \/
   exists w, queue s' = queue s ++ [MWake w] /\ w_id w = id /\ In id (map s_id (sleeps s)) /\
             pc s <> Stopped).
Proof.
  intros s id delta. unfold do_poll.
  destruct (find_sleep id (sleeps s)) as [sl|] eqn:F; cbn zeta; [|cbn; tauto].
  destruct (find_sleep_in _ _ _ F) as [Hin Hid].
  assert (Hmem : In id (map s_id (sleeps s))) by (rewrite <- Hid; now apply in_map).
  destruct (elapsed sl (clock s)).
  - destruct (s_dl sl); cbn; tauto.
  - destruct (pc s) eqn:P; cbn; rewrite ?upd_sleep_ids; repeat split; auto;
      right; eexists; (split; [reflexivity|]); cbn; repeat split; auto; discriminate.
Qed.

(* ------------------------------------------------- the cancel invariant *)
(* for every dropped sleep: once the channel is drained the heap holds no entry of
   it (the Cancel comes after every Wake of that id); and the thread only stops
   when no Sleep is left *)
Definition inv_cancel (s : st) : Prop :=
  (forall id, dropped id s -> residue id (queue s) (heap_has id (heap s)) = false) /\
  (pc s = Stopped -> sleeps s = [] /\ handles s = false).

Lemma inv_cancel_init : inv_cancel init.
Proof. split; [intros id [A B]; cbn in *; lia | discriminate]. Qed.

Lemma dropped_ids : forall id s, dropped id s <-> 0 <= id < next_id s /\ ~ In id (map s_id (sleeps s)).
Proof. unfold dropped. intros. now rewrite find_sleep_none. Qed.

Lemma inv_cancel_step : forall s o, inv_cancel s -> inv_cancel (step_st s o).
Proof.
  intros s o [R S]. unfold step_st.
  destruct o; cbn [step].
  - (* Tick *) split; [exact R | exact S].
  - (* HSleep *) unfold do_sleep. destruct (handles s && (0 <=? dur)) eqn:G; [|split; assumption].
    cbn. split.
    + intros id D. apply dropped_ids in D. cbn in D. destruct D as [A B].
      rewrite map_app, in_app_iff in B. cbn in B.
      apply R. apply dropped_ids. split; [|tauto].
      assert (next_id s <> id) by tauto. lia.
    + intros P. destruct (S P) as [_ F]. rewrite F in G. discriminate.
  - (* HDropHandles *) cbn. split; [exact R|]. intros P. destruct (S P). auto.
  - (* SPoll *)
    pose proof (poll_shape s id delta) as H. cbn zeta in H.
    destruct H as (Hn & Hh & Hp & Hha & Hids & Hq).
    set (s' := fst (do_poll s id delta)) in *. split.
    + intros i D. apply dropped_ids in D. rewrite Hn, Hids in D.
      assert (D0 : dropped i s) by (now apply dropped_ids).
      rewrite Hh. destruct Hq as [Hq | (w & Hq & Hw & Hin & _)]; rewrite Hq; [now apply R|].
      rewrite residue_app, (R i D0). cbn.
      assert (w_id w =? i = false) as ->; [|reflexivity].
      apply Z.eqb_neq. intro; subst. tauto.
    + rewrite Hp, Hha. intros P. destruct (S P) as [E F]. split; [|assumption].
      apply map_eq_nil with (f := s_id). rewrite Hids, E. reflexivity.
  - (* SElapsed *) unfold do_elapsed. destruct (find_sleep id (sleeps s)); split; assumption.
  - (* SReset *) unfold do_reset. destruct (find_sleep id (sleeps s)) eqn:F; [|split; assumption].
    cbn. split.
    + intros i D. apply dropped_ids in D. cbn in D. rewrite upd_sleep_ids in D.
      apply R. now apply dropped_ids.
    + intros P. destruct (S P) as [E _]. rewrite E in F. discriminate.
  - (* SDrop *) unfold do_drop. destruct (find_sleep id (sleeps s)) eqn:F; [|split; assumption].
    cbn. split.
    + intros i D. apply dropped_ids in D. cbn in D. destruct D as [A B].
      rewrite del_sleep_ids in B.
      assert (P : pc s <> Stopped).
      { intro P. destruct (S P) as [E _]. rewrite E in F. discriminate. }
      assert (Q : (match pc s with Stopped => queue s | _ => queue s ++ [MCancel id] end)
                  = queue s ++ [MCancel id]) by (destruct (pc s); congruence).
      rewrite Q, residue_app. cbn.
      destruct (Z.eq_dec i id) as [->|N].
      * now rewrite Z.eqb_refl.
      * assert (id =? i = false) as -> by (apply Z.eqb_neq; congruence).
        apply R. apply dropped_ids. split; [assumption|]. tauto.
    + intros P. destruct (S P) as [E _]. rewrite E in F. discriminate.
  - (* TFire *) unfold do_fire. destruct (pc s) eqn:P; try (split; assumption).
    destruct (find_tok tok (heap s)) eqn:F; [|split; assumption].
    destruct (is_min w (heap s) && (w_dl w <? clock s)); [|split; assumption].
    cbn. split; [|discriminate].
    intros i D. eapply residue_le; [|apply (R i D)].
    intros H. destruct (heap_has i (heap s)) eqn:E; [reflexivity|].
    rewrite (heap_has_del_tok _ tok _ E) in H. discriminate.
  - (* TIdle *) unfold do_idle. destruct (pc s) eqn:P; try (split; assumption).
    destruct (none_due (clock s) (heap s)); [|split; assumption].
    cbn. split; [exact R | discriminate].
  - (* TRecv *) unfold do_recv. destruct (pc s) eqn:P; try (split; assumption).
    destruct (queue s) as [|[w|i] q] eqn:Q; try (split; assumption); cbn; (split; [|discriminate]).
    + intros i D. specialize (R i D). rewrite Q in R. cbn in R.
      cbn. rewrite orb_comm. exact R.
    + intros j D. specialize (R j D). rewrite Q in R. cbn in R.
      now rewrite heap_has_remove.
  - (* TTimeout *) unfold do_timeout. destruct (pc s) eqn:P; try (split; assumption).
    destruct lim; [|split; assumption]. destruct (z <=? clock s); [|split; assumption].
    cbn. split; [exact R | discriminate].
  - (* TStop *) unfold do_stop. destruct (pc s) eqn:P; try (split; assumption).
    destruct (queue s) eqn:Q; try (split; assumption).
    destruct (sleeps s) eqn:L; try (split; assumption).
    destruct (handles s) eqn:Hh; try (split; assumption).
    cbn. split; [|auto]. intros i D. specialize (R i D). now rewrite Q in R.
Qed.

Lemma run_app : forall a b s, run (a ++ b) s = run b (run a s).
Proof. intros. unfold run. apply fold_left_app. Qed.

Lemma inv_cancel_run : forall ops s, inv_cancel s -> inv_cancel (run ops s).
Proof.
  induction ops as [|o ops IH]; cbn; intros s H; [assumption|].
  apply IH. now apply inv_cancel_step.
Qed.
