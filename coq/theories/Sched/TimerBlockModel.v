(* C42 — model of dds/src/std_runtime/executor.rs block_timeout / block_on
   (definitions only).  Follows the code after fixes 7de0553 and 8591c31.

   block_timeout(duration, future): a loop on one thread:
       poll; Ready(t) -> return Ok(t)
             Pending  ->
               woken = if duration >= now - start  then recv_timeout(duration - (now - start)).is_ok()
                       else                             try_recv().is_ok()
               if !woken                 -> return Timeout
               if now - start > duration -> one LAST poll: Ready(t) -> Ok(t), Pending -> Timeout
               else loop
   The waker does try_send(()) into a sync_channel(1): b_tok = the buffer holds a
   token; a wake on a full buffer is dropped and never blocks the waking thread
   (one buffered token already guarantees the next recv returns).
   The future is the environment.  It is taken to be well behaved: it has one
   completion event (BComplete: from then on poll returns Ready(value)) and the
   completion wakes the waker; it may also wake without completing (BSpurious:
   intermediate progress).  b_done is the ghost completion time.
   Any thread timing = any interleaving of BTick with the other steps.
   A wake may also be issued from inside poll by the polling thread itself
   (BSelfWake, the yield pattern); like every wake it never blocks.
   recv_timeout is taken as specified: it returns Ok if a token is there, and
   Timeout only when no token is there and the limit has been reached. *)
From DustDDS Require Export Base.Machine.
Open Scope Z_scope.

Inductive bres : Type := BOk (v : Z) | BTimeout.

Inductive bpc : Type :=
| BPolling                         (* about to poll the future *)
| BChecking                        (* poll returned Pending; about to read the clock *)
| BWaiting (lim : Z)               (* in recv_timeout; lim = absolute time limit *)
| BWoken                           (* woken = true; about to read the clock again *)
| BLastPoll                        (* the duration is over: about to poll one last time *)
| BDone (r : bres) (at_ : Z).      (* returned r at clock at_ *)

Record bst : Type := mkB {
  b_clock : Z;
  b_start : Z;          (* start_instant *)
  b_dur : Z;            (* duration *)
  b_val : Z;            (* the future's output *)
  b_tok : bool;
  b_pc : bpc;
  b_done : option Z;    (* ghost: clock at which the future completed *)
  b_polls : Z           (* number of polls so far *)
}.

Definition binit (now dur val : Z) : bst := mkB now now dur val false BPolling None 0.

Inductive bop : Type :=
| BTick (d : Z)
| BComplete          (* the future completes (another thread / the timer) and wakes *)
| BSpurious          (* the future makes progress and wakes, without completing *)
| BSelfWake          (* the future wakes its waker from INSIDE poll (yield pattern): the try_send is
                        done by the polling thread itself *)
| BPoll              (* poll (in the loop, or the last one) *)
| BCheck             (* first clock read: recv_timeout(remaining) or try_recv *)
| BRecvOk
| BRecvTimeout
| BCheck2.           (* second clock read, after having been woken *)

(* try_send: fills the one-slot buffer, or is dropped when it is already full *)
Definition bwake (s : bst) : bst :=
  mkB (b_clock s) (b_start s) (b_dur s) (b_val s) true (b_pc s) (b_done s) (b_polls s).

Definition set_bpc (s : bst) (p : bpc) : bst :=
  mkB (b_clock s) (b_start s) (b_dur s) (b_val s) (b_tok s) p (b_done s) (b_polls s).
(* a token is taken out of the channel *)
Definition take_tok (s : bst) (p : bpc) : bst :=
  mkB (b_clock s) (b_start s) (b_dur s) (b_val s) false p (b_done s) (b_polls s).

Definition bstep (s : bst) (o : bop) : bst :=
  match o with
  | BTick d => mkB (b_clock s + Z.max 0 d) (b_start s) (b_dur s) (b_val s) (b_tok s)
                   (b_pc s) (b_done s) (b_polls s)
  | BComplete =>
      match b_done s with
      | Some _ => s
      | None => bwake (mkB (b_clock s) (b_start s) (b_dur s) (b_val s) (b_tok s)
                           (b_pc s) (Some (b_clock s)) (b_polls s))
      end
  | BSpurious => bwake s
  | BSelfWake =>
      match b_pc s with
      | BPolling | BLastPoll => bwake s
      | _ => s
      end
  | BPoll =>
      let s' := mkB (b_clock s) (b_start s) (b_dur s) (b_val s) (b_tok s)
                    (b_pc s) (b_done s) (b_polls s + 1) in
      match b_pc s with
      | BPolling =>
          match b_done s with
          | Some _ => set_bpc s' (BDone (BOk (b_val s)) (b_clock s))
          | None => set_bpc s' BChecking
          end
      | BLastPoll =>
          match b_done s with
          | Some _ => set_bpc s' (BDone (BOk (b_val s)) (b_clock s))
          | None => set_bpc s' (BDone BTimeout (b_clock s))
          end
      | _ => s
      end
  | BCheck =>
      match b_pc s with
      | BChecking =>
          (* duration.checked_sub(now - start) *)
          if b_clock s - b_start s <=? b_dur s
          then set_bpc s (BWaiting (b_start s + b_dur s))
          else if b_tok s then take_tok s BWoken            (* try_recv = Ok *)
          else set_bpc s (BDone BTimeout (b_clock s))       (* try_recv = Err *)
      | _ => s
      end
  | BRecvOk =>
      match b_pc s with
      | BWaiting _ => if b_tok s then take_tok s BWoken else s
      | _ => s
      end
  | BRecvTimeout =>
      match b_pc s with
      | BWaiting lim =>
          if negb (b_tok s) && (lim <=? b_clock s)
          then set_bpc s (BDone BTimeout (b_clock s))
          else s
      | _ => s
      end
  | BCheck2 =>
      match b_pc s with
      | BWoken => if b_dur s <? b_clock s - b_start s then set_bpc s BLastPoll else set_bpc s BPolling
      | _ => s
      end
  end.

Definition brun (ops : list bop) (s : bst) : bst := fold_left bstep ops s.

(* ---- block_on: poll; Pending -> thread::park() (which may return at any time) ---- *)
Inductive opc : Type := OPolling | OParked | ODone (v : Z).
Record ost : Type := mkO { o_val : Z; o_done : bool; o_pc : opc; o_polls : Z }.
Inductive oop : Type := NComplete | NPoll | NUnpark.
Definition ostep (s : ost) (o : oop) : ost :=
  match o with
  | NComplete => mkO (o_val s) true (o_pc s) (o_polls s)
  | NPoll =>
      match o_pc s with
      | OPolling => if o_done s then mkO (o_val s) true (ODone (o_val s)) (o_polls s + 1)
                    else mkO (o_val s) false OParked (o_polls s + 1)
      | _ => s
      end
  | NUnpark => match o_pc s with OParked => mkO (o_val s) (o_done s) OPolling (o_polls s) | _ => s end
  end.
Definition orun (ops : list oop) (s : ost) : ost := fold_left ostep ops s.
Definition oinit (val : Z) : ost := mkO val false OPolling 0.
