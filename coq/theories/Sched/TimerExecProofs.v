(* C42 — the join handshake never loses the wake-up; a finished task is never polled. *)
From DustDDS Require Import Base.Machine Sched.TimerExecModel.
Open Scope Z_scope.

Definition xinv (s : xst) : Prop :=
  (x_epc s = ERunning <-> x_fin s = false) /\
  x_polls_after_fin s = 0 /\
  match x_jpc s with
  | JStored => x_epc s = EDone \/ x_waker s = true
  | JPending => (x_epc s <> EDone /\ x_waker s = true) \/ x_woken s = true
  | JReady => x_fin s = true
  | _ => True
  end.

Lemma xinv_init : xinv xinit.
Proof. unfold xinv. cbn. repeat split; auto; discriminate. Qed.

Lemma xinv_step : forall s o, xinv s -> xinv (xstep s o).
Proof.
  intros s o I. destruct s as [fin wk e j wo q p]. unfold xinv in *. cbn in *.
  destruct o; destruct e, j, fin, wk; cbn in *;
    repeat (match goal with |- context [if ?b then _ else _] => destruct b eqn:? end); cbn in *;
    try (intuition (try discriminate; try congruence; try lia); fail).
Qed.

Lemma xinv_run : forall ops s, xinv s -> xinv (xrun ops s).
Proof.
  induction ops as [|o ops IH]; intros s H; [assumption|].
  change (xrun (o :: ops) s) with (xrun ops (xstep s o)). apply IH. now apply xinv_step.
Qed.

(* join never misses the wake-up: when the joiner has gone to sleep (JoinFuture
   returned Pending) and the executor has finished its take-and-wake, the joiner's
   thread HAS been unparked; and Ready is returned only for a finished task; and the
   executor never polls the future again after it returned Ready *)
Theorem join_handshake : forall ops,
  let s := xrun ops xinit in
  (x_jpc s = JPending -> x_epc s = EDone -> x_woken s = true) /\
  (x_jpc s = JReady -> x_fin s = true) /\
  x_polls_after_fin s = 0.
Proof.
  intros ops s. destruct (xinv_run ops xinit xinv_init) as (A & B & C). fold s in A, B, C.
  repeat split; auto.
  - intros J E. rewrite J in C. destruct C as [[C _]|C]; [congruence|exact C].
  - intros J. rewrite J in C. exact C.
Qed.
