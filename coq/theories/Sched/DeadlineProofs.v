(* Proofs about deadline-missed counting (C30). *)
From DustDDS Require Import Base.Machine Sched.DeadlineModel.
From Coq Require Import Lia ZArith List Bool.
Import ListNotations.
Open Scope Z_scope.
Ltac Zify.zify_post_hook ::= Z.div_mod_to_equations.

(* ------------------------------------------------------------------ elapsed_periods *)
Lemma ep_small D x : 0 < D -> x <= D -> elapsed_periods D x = 0.
Proof.
  intros HD Hx. unfold elapsed_periods. destruct (x <=? 0) eqn:E; [reflexivity|].
  apply Z.leb_gt in E. apply Z.div_small. lia.
Qed.
Lemma ep_exact D c r : 0 < D -> 0 <= c -> 0 < r <= D -> elapsed_periods D (c * D + r) = c.
Proof.
  intros HD Hc Hr. unfold elapsed_periods. destruct (c * D + r <=? 0) eqn:E.
  - apply Z.leb_le in E. nia.
  - symmetry. apply Z.div_unique with (r := r - 1); nia.
Qed.
Lemma ep_nonneg D x : 0 < D -> 0 <= elapsed_periods D x.
Proof.
  intros HD. unfold elapsed_periods. destruct (x <=? 0) eqn:E; [lia|]. apply Z.leb_gt in E.
  apply Z.div_pos; lia.
Qed.

Lemma last_cons {A} (r : list A) : forall x w, last (x :: r) w = last r x.
Proof.
  induction r as [|y r IH]; intros x w; [reflexivity|].
  change (last (x :: y :: r) w) with (last (y :: r) w). rewrite (IH y w), (IH y x). reflexivity.
Qed.

(* ------------------------------------------------------------------ writer *)
(* invariant after the wake at time w (or w = t0 initially): the re-armed time is
   t0 + count * D, it is at most one period behind w, and strictly behind once a miss
   has been counted *)
Definition winv (D t0 w : Z) (s : dstate) : Prop :=
  0 <= d_count s /\ d_t s = t0 + d_count s * D /\ w - d_t s <= D /\ (d_count s = 0 \/ 0 < w - d_t s) /\ t0 <= w.

Lemma winv_count D t0 w s : 0 < D -> winv D t0 w s -> d_count s = elapsed_periods D (w - t0).
Proof.
  intros HD (Hc & Ht & Hle & Hpos & H0).
  destruct Hpos as [Hz|Hp].
  - rewrite Hz in *. symmetry. apply ep_small; [assumption | lia].
  - replace (w - t0) with (d_count s * D + (w - d_t s)) by lia. symmetry. apply ep_exact; lia.
Qed.
Lemma winv_step D t0 w w' s :
  0 < D -> winv D t0 w s -> w <= w' -> w' - w <= D -> winv D t0 w' (wstep D s (Wake w')).
Proof.
  intros HD (Hc & Ht & Hle & Hpos & H0) Hw Hgap. unfold wstep.
  destruct (D <? w' - d_t s) eqn:E.
  - apply Z.ltb_lt in E. unfold winv; cbn [d_count d_t]. repeat split; try lia; try (right; lia).
  - apply Z.ltb_ge in E. unfold winv. repeat split; try lia; try (destruct Hpos as [Hz|Hp]; [left; exact Hz | right; lia]).
Qed.
Lemma winv_run D t0 : 0 < D -> forall ws w s,
  winv D t0 w s -> dense D w ws -> winv D t0 (last ws w) (wrun D (map Wake ws) s).
Proof.
  intros HD. induction ws as [|x r IH]; intros w s Hi Hd; [exact Hi|].
  cbn [dense] in Hd. destruct Hd as (H1 & H2 & H3).
  change (wrun D (map Wake (x :: r)) s) with (wrun D (map Wake r) (wstep D s (Wake x))).
  rewrite last_cons.
  apply IH; [apply (winv_step D t0 w x s); assumption | assumption].
Qed.

(* C30, writer: with at least one worker iteration per period, the offered-deadline-missed
   count of an instance after a silence is the number of full periods that elapsed, and the
   instance is re-armed to t0 + count * D *)
Theorem writer_count_eq_elapsed_periods D t0 ws :
  0 < D -> dense D t0 ws ->
  let s := wrun D (map Wake ws) (dinit t0) in
  d_count s = elapsed_periods D (last ws t0 - t0) /\ d_t s = t0 + d_count s * D.
Proof.
  intros HD Hd s.
  assert (Hi : winv D t0 (last ws t0) s).
  { apply winv_run; [assumption | | assumption]. unfold winv, dinit; cbn [d_count d_t]. lia. }
  split; [apply winv_count; assumption | apply Hi].
Qed.

(* whatever the wake times (even rarer than once per period), the writer never reports more
   misses than periods have elapsed *)
Definition wub (D t0 w : Z) (s : dstate) : Prop :=
  0 <= d_count s /\ d_t s = t0 + d_count s * D /\ (d_count s = 0 \/ 0 < w - d_t s) /\ t0 <= w.
Lemma wub_count D t0 w s : 0 < D -> wub D t0 w s -> d_count s <= elapsed_periods D (w - t0).
Proof.
  intros HD (Hc & Ht & Hpos & H0). destruct Hpos as [Hz|Hp]; [rewrite Hz; apply ep_nonneg; assumption|].
  unfold elapsed_periods. destruct (w - t0 <=? 0) eqn:E; [apply Z.leb_le in E; nia|].
  apply Z.leb_gt in E. apply Z.div_le_lower_bound; [lia | nia].
Qed.
Fixpoint nondecr (last : Z) (ws : list Z) : Prop :=
  match ws with [] => True | w :: r => last <= w /\ nondecr w r end.
Lemma wub_run D t0 : 0 < D -> forall ws w s,
  wub D t0 w s -> nondecr w ws -> wub D t0 (last ws w) (wrun D (map Wake ws) s).
Proof.
  intros HD. induction ws as [|x r IH]; intros w s Hi Hd; [exact Hi|].
  cbn [nondecr] in Hd. destruct Hd as (H1 & H3).
  change (wrun D (map Wake (x :: r)) s) with (wrun D (map Wake r) (wstep D s (Wake x))).
  rewrite last_cons.
  apply IH; [|assumption]. destruct Hi as (Hc & Ht & Hpos & H0). unfold wstep.
  destruct (D <? x - d_t s) eqn:E.
  - apply Z.ltb_lt in E. unfold wub; cbn [d_count d_t]. repeat split; try lia; try (right; lia).
  - apply Z.ltb_ge in E. unfold wub. repeat split; try lia; try (destruct Hpos as [Hz|Hp]; [left; exact Hz | right; lia]).
Qed.
Theorem writer_count_le_elapsed_periods D t0 ws :
  0 < D -> nondecr t0 ws ->
  d_count (wrun D (map Wake ws) (dinit t0)) <= elapsed_periods D (last ws t0 - t0).
Proof.
  intros HD Hn. apply wub_count; [assumption|]. apply wub_run; [assumption | | assumption].
  unfold wub, dinit; cbn [d_count d_t]. lia.
Qed.

(* ------------------------------------------------------------------ on time => no miss *)
(* samples arrive in time order and every worker iteration finds the latest sample at most
   one period old *)
Fixpoint on_time (D t : Z) (evs : list dev) : Prop :=
  match evs with
  | [] => True
  | Sample a :: r => t <= a /\ on_time D a r
  | Wake w :: r => w - t <= D /\ on_time D t r
  end.

Theorem writer_no_miss_while_on_time D : forall evs s,
  on_time D (d_t s) evs ->
  d_count (wrun D evs s) = d_count s /\ d_signals (wrun D evs s) = d_signals s.
Proof.
  induction evs as [|e r IH]; intros s H; [split; reflexivity|].
  change (wrun D (e :: r) s) with (wrun D r (wstep D s e)). destruct e as [a|w]; cbn [on_time] in H.
  - destruct H as [H1 H2]. destruct (IH (wstep D s (Sample a))) as [E1 E2].
    + cbn [wstep d_t]. destruct (d_t s <? a) eqn:E; [exact H2|]. apply Z.ltb_ge in E.
      replace (d_t s) with a by lia. exact H2.
    + rewrite E1, E2. split; reflexivity.
  - destruct H as [H1 H2]. assert (E : wstep D s (Wake w) = s).
    { unfold wstep. destruct (D <? w - d_t s) eqn:E; [apply Z.ltb_lt in E; lia | reflexivity]. }
    rewrite E. apply IH. exact H2.
Qed.
Theorem reader_no_miss_while_on_time D : forall evs s,
  on_time D (d_t s) evs ->
  d_count (rrun D evs s) = d_count s /\ d_signals (rrun D evs s) = d_signals s.
Proof.
  induction evs as [|e r IH]; intros s H; [split; reflexivity|].
  change (rrun D (e :: r) s) with (rrun D r (rstep D s e)). destruct e as [a|w]; cbn [on_time] in H.
  - destruct H as [H1 H2]. destruct (IH (rstep D s (Sample a))) as [E1 E2]; [exact H2|].
    rewrite E1, E2. split; reflexivity.
  - destruct H as [H1 H2]. assert (E : rstep D s (Wake w) = s).
    { unfold rstep. destruct (D <? w - d_t s) eqn:E; [apply Z.ltb_lt in E; lia | reflexivity]. }
    rewrite E. apply IH. exact H2.
Qed.

(* ------------------------------------------------------------------ every increase is signalled *)
Definition totals (n : Z) : list Z := map Z.of_nat (seq 1 (Z.to_nat n)).
Definition sig_inv (s : dstate) : Prop := 0 <= d_count s /\ d_signals s = totals (d_count s).
Lemma totals_succ n : 0 <= n -> totals (n + 1) = totals n ++ [n + 1].
Proof.
  intros Hn. unfold totals. replace (Z.to_nat (n + 1)) with (S (Z.to_nat n)) by lia.
  rewrite seq_S, map_app. cbn [map]. f_equal. f_equal. lia.
Qed.
Lemma sig_inv_wstep D s e : sig_inv s -> sig_inv (wstep D s e).
Proof.
  intros [H0 H]. destruct e as [a|w]; unfold wstep; [split; assumption|].
  destruct (D <? w - d_t s); [|split; assumption]. split; cbn [d_count d_signals]; [lia|].
  rewrite totals_succ by assumption. rewrite H. reflexivity.
Qed.
Lemma sig_inv_rstep D s e : sig_inv s -> sig_inv (rstep D s e).
Proof.
  intros [H0 H]. destruct e as [a|w]; unfold rstep; [split; assumption|].
  destruct (D <? w - d_t s); [|split; assumption]. split; cbn [d_count d_signals]; [lia|].
  rewrite totals_succ by assumption. rewrite H. reflexivity.
Qed.
(* the signals (listener call / status condition) sent so far are exactly the totals
   1, 2, ..., count: every increase by one is signalled once, with the running total *)
Theorem each_increase_signalled D t0 evs :
  d_signals (wrun D evs (dinit t0)) = totals (d_count (wrun D evs (dinit t0))) /\
  d_signals (rrun D evs (dinit t0)) = totals (d_count (rrun D evs (dinit t0))).
Proof.
  assert (Hw : forall evs s, sig_inv s -> sig_inv (wrun D evs s)).
  { induction evs0 as [|e r IH]; intros s H; [exact H|]. apply (IH (wstep D s e)), sig_inv_wstep, H. }
  assert (Hr : forall evs s, sig_inv s -> sig_inv (rrun D evs s)).
  { induction evs0 as [|e r IH]; intros s H; [exact H|]. apply (IH (rstep D s e)), sig_inv_rstep, H. }
  assert (Hi : sig_inv (dinit t0)) by (split; [cbn; lia | reflexivity]).
  split; [apply (Hw evs _ Hi) | apply (Hr evs _ Hi)].
Qed.

(* ------------------------------------------------------------------ reader *)
(* on a silence (worker iterations only) the reader rule is the writer rule *)
Lemma rrun_wakes D : forall ws s, rrun D (map Wake ws) s = wrun D (map Wake ws) s.
Proof.
  induction ws as [|x r IH]; intros s; [reflexivity|].
  change (rrun D (map Wake (x :: r)) s) with (rrun D (map Wake r) (rstep D s (Wake x))).
  change (wrun D (map Wake (x :: r)) s) with (wrun D (map Wake r) (wstep D s (Wake x))).
  rewrite IH. reflexivity.
Qed.

(* C30, reader: with at least one worker iteration per period, the requested-deadline-missed
   count of an instance after a silence is the number of full periods that elapsed *)
Theorem reader_count_eq_elapsed_periods D t0 ws :
  0 < D -> dense D t0 ws ->
  let s := rrun D (map Wake ws) (dinit t0) in
  d_count s = elapsed_periods D (last ws t0 - t0) /\ d_t s = t0 + d_count s * D.
Proof. intros HD Hd. rewrite rrun_wakes. apply writer_count_eq_elapsed_periods; assumption. Qed.
(* and for any iteration times it never reports more misses than periods have elapsed *)
Theorem reader_count_le_elapsed_periods D t0 ws :
  0 < D -> nondecr t0 ws ->
  d_count (rrun D (map Wake ws) (dinit t0)) <= elapsed_periods D (last ws t0 - t0).
Proof. intros HD Hn. rewrite rrun_wakes. apply writer_count_le_elapsed_periods; assumption. Qed.

(* ------------------------------------------------------------------ tie to the (sec, nanosec) model *)
(* The per-instance rules above are the ones of Sched/WorkerModel.v (which keeps the code's
   Duration/Time representation and saturating arithmetic) read in nanoseconds, as long as
   the seconds stay away from the i32 clamp. *)
From DustDDS Require Import Time.TimeModel Time.TimeProofs Sched.WorkerModel.

Definition small (d : dur) : Prop := normalized d /\ -536870912 <= sec d <= 536870912.

Lemma small_add_exact a b : small a -> small b -> nanos (dur_add a b) = nanos a + nanos b.
Proof.
  intros [Na Sa] [Nb Sb]. apply add_exact; try assumption.
  destruct a as [sa na], b as [sb nb]. unfold normalized, NS in *. cbn [sec nanosec] in *.
  unfold add_saturates; cbn [sec nanosec]. apply orb_false_iff. split; apply negb_false_iff, in_i32b_true;
    unfold in_i32, i32_min, i32_max, NS; lia.
Qed.
Lemma small_sub_exact a b : small a -> small b -> nanos (dur_sub a b) = nanos a - nanos b.
Proof.
  intros [Na Sa] [Nb Sb]. apply sub_exact; try assumption.
  destruct a as [sa na], b as [sb nb]. unfold normalized, NS in *. cbn [sec nanosec] in *.
  unfold sub_saturates; cbn [sec nanosec]. apply orb_false_iff. split; apply negb_false_iff, in_i32b_true;
    unfold in_i32, i32_min, i32_max; destruct (na - nb <? 0); lia.
Qed.
Lemma dur_new_norm d : normalized d -> dur_new (sec d) (nanosec d) = d.
Proof. destruct d as [s n]. intros [H1 H2]. cbn [sec nanosec]. apply dur_new_normalized; assumption. Qed.
Lemma small_time_sub_exact a b : small a -> small b -> nanos (time_sub a b) = nanos a - nanos b.
Proof.
  intros Ha Hb. unfold time_sub. rewrite (dur_new_norm a (proj1 Ha)), (dur_new_norm b (proj1 Hb)).
  apply small_sub_exact; assumption.
Qed.
Lemma dur_ltb_nanos a b : normalized a -> normalized b -> dur_ltb a b = (nanos a <? nanos b).
Proof.
  intros Na Nb. unfold dur_ltb. destruct (dur_leb b a) eqn:E.
  - assert (H : dur_le b a).
    { unfold dur_leb in E. unfold dur_le. apply orb_true_iff in E. destruct E as [E|E];
        [apply Z.ltb_lt in E; left; exact E | apply andb_true_iff in E; destruct E as [E1 E2];
         apply Z.eqb_eq in E1; apply Z.leb_le in E2; right; split; assumption]. }
    apply (dur_le_nanos b a Nb Na) in H. symmetry. apply Z.ltb_ge. exact H.
  - assert (H : ~ dur_le b a).
    { intros H. unfold dur_le in H. unfold dur_leb in E. apply orb_false_iff in E. destruct E as [E1 E2].
      apply Z.ltb_ge in E1. destruct H as [H|[H1 H2]]; [lia|].
      rewrite H1, Z.eqb_refl in E2. cbn [andb] in E2. apply Z.leb_gt in E2. lia. }
    symmetry. apply Z.ltb_lt. destruct (Z.lt_ge_cases (nanos a) (nanos b)) as [X|X]; [exact X|].
    exfalso. apply H. apply (dur_le_nanos b a Nb Na). exact X.
Qed.

Lemma small_time_sub_norm a b : small a -> small b -> normalized (time_sub a b).
Proof.
  intros [[A1 A2] _] [[B1 B2] _]. apply time_sub_normalized; split; try assumption;
    unfold in_u32, u32_max, NS in *; lia.
Qed.

(* check_missed_writer_deadline on one instance (WorkerModel.check_inst) is wstep in ns *)
Theorem check_inst_refines_wstep now dl t key :
  small now -> small t -> small dl ->
  let '(i', n) := check_inst now dl (mkSI key (Some t)) in
  let s' := wstep (nanos dl) (mkD (nanos t) 0 []) (Wake (nanos now)) in
  option_map nanos (si_last i') = Some (d_t s') /\ n = d_count s'.
Proof.
  intros Hn Ht Hd. pose proof (small_time_sub_norm now t Hn Ht) as Hts. unfold check_inst; cbn [si_last si_key]. unfold wstep; cbn [d_t d_count d_signals].
  rewrite (dur_ltb_nanos dl (time_sub now t) (proj1 Hd) Hts).
  rewrite (small_time_sub_exact now t Hn Ht).
  destruct (nanos dl <? nanos now - nanos t); cbn [si_last option_map d_t d_count].
  - rewrite (small_add_exact t dl Ht Hd). split; reflexivity.
  - split; reflexivity.
Qed.

(* check_missed_reader_deadline on one instance (WorkerModel.check_rinst) is rstep in ns *)
Theorem check_rinst_refines_rstep now dl last key :
  small now -> small last -> small dl ->
  let '(i', n) := check_rinst now dl (key, last) in
  let s' := rstep (nanos dl) (mkD (nanos last) 0 []) (Wake (nanos now)) in
  nanos (snd i') = d_t s' /\ n = d_count s'.
Proof.
  intros Hn Hl Hd. pose proof (small_time_sub_norm now last Hn Hl) as Hts.
  unfold check_rinst; cbn [fst snd]. unfold rstep; cbn [d_t d_count d_signals].
  rewrite (dur_ltb_nanos dl (time_sub now last) (proj1 Hd) Hts).
  rewrite (small_time_sub_exact now last Hn Hl).
  destruct (nanos dl <? nanos now - nanos last); cbn [fst snd d_t d_count].
  - rewrite (small_add_exact last dl Hl Hd). split; reflexivity.
  - split; reflexivity.
Qed.
