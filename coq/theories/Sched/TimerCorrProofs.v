(* C42 — the thread steps used by the trace replay (TimerCorr) are the model's own
   steps; only the unobservable loop position (pc) is overridden. *)
From DustDDS Require Import Base.Machine Sched.TimerModel Sched.TimerCorr.
Open Scope Z_scope.

Definition erase (s : st) : st := force_pc Firing s.

(* consuming a message in the replay = the model's TRecv from a state in which the
   thread is blocked in recv (same queue, heap, log; pc erased) *)
Lemma replay_recv_is_model_step : forall s lim seen,
  pc s = Receiving lim seen ->
  erase (fst (do_recv (force_pc (Receiving None 0) s))) = erase (fst (step s TRecv)).
Proof.
  intros s lim seen P. destruct s as [c ni nt h sl q hp p l]. cbn in P. subst p.
  cbn [step]. unfold do_recv, force_pc, erase. cbn.
  destruct q as [|[w|i] q]; reflexivity.
Qed.

(* waking an entry in the replay = the model's TFire from a state in which the
   thread is at the top of its loop, with the same result *)
Lemma replay_fire_is_model_step : forall s tok,
  pc s = Firing -> do_fire (force_pc Firing s) tok = step s (TFire tok).
Proof.
  intros s tok P. cbn [step]. unfold force_pc. rewrite <- P. destruct s; reflexivity.
Qed.

(* the Sleep-side steps of the replay are literally the model's steps *)
Lemma replay_sleep_steps_are_model_steps : forall s k d,
  do_poll s k d = step s (SPoll k d) /\ do_drop s k = step s (SDrop k) /\
  do_reset s k = step s (SReset k) /\ do_elapsed s k = step s (SElapsed k) /\
  do_sleep s d = step s (HSleep d).
Proof. intros. repeat split; reflexivity. Qed.
