(* Correspondence vocabulary for C29: one case = one whole-stack simulation scenario (writer
   with a finite lifespan in participant 0, reader in participant 1; harness bin `timing`)
   translated to the ops of Sched/LifespanModel.v, with the simulated clock and the samples
   returned by every read/take of the real reader. *)
From DustDDS Require Export Base.Machine Sched.LifespanModel.
Open Scope Z_scope.

(* per op: the op, the simulated clock observed after it, the samples (sn, ts) a read/take
   returned (sorted by sn) *)
Record C29_case : Type := mkC29 { c29_L : Z; c29_ops : list (lop * Z * list change) }.

Fixpoint insert (c : change) (l : list change) : list change :=
  match l with
  | [] => [c]
  | x :: r => if fst c <=? fst x then c :: l else x :: insert c r
  end.
Definition sort (l : list change) : list change := fold_right insert [] l.
Definition change_eqb (a b : change) : bool := (fst a =? fst b) && (snd a =? snd b).
Fixpoint changes_eqb (x y : list change) : bool :=
  match x, y with
  | [], [] => true
  | a :: x', b :: y' => change_eqb a b && changes_eqb x' y'
  | _, _ => false
  end.

Definition is_present (o : lop) : bool := match o with LTake | LRead => true | _ => false end.

(* every harness op is followed by at least one worker iteration (cleanup) at the same time *)
Fixpoint run_obs (L : Z) (s : lstate) (ops : list (lop * Z * list change)) : bool :=
  match ops with
  | [] => true
  | (o, now, got) :: r =>
      let s1 := lstep L (lstep L s o) LWake in
      (l_now s1 =? now) &&
      (if is_present o then changes_eqb (sort (l_cache s)) (sort got) else true) &&
      run_obs L s1 r
  end.
Definition C29_model_ok (c : C29_case) : bool := run_obs (c29_L c) (linit 1000000000) (c29_ops c).

(* the property on the real reader's output: nothing returned at or after ts + lifespan *)
Definition C29_oracle_ok (c : C29_case) : bool :=
  forallb (fun x => let '(o, now, got) := x in
                    forallb (fun g => now <? snd g + c29_L c) got) (c29_ops c).

(* class 1: the schedule makes the model (no reader-side check) present a sample at or after
   the timestamp it was written with + lifespan *)
Definition C29_known (c : C29_case) : N :=
  let s := lrun (c29_L c) (flat_map (fun x => [fst (fst x); LWake]) (c29_ops c)) (linit 1000000000) in
  if late (c29_L c) s then 1%N else 0%N.
