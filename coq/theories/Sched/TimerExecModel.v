(* C42 — model of the join handshake of dds/src/std_runtime/executor.rs
   (definitions only): one spawned task, the executor thread finishing it, and one
   thread blocked in ExecutorTaskHandle::join (block_on(JoinFuture)).

     executor, when the task's poll returned Ready:
        EFinish : task.finished.store(true, Release)
        ETake   : if let Some(w) = task.join_waker.lock().take() { w.wake() }
     JoinFuture::poll:
        J1 : if task.is_finished() { Ready }
        J2 : else { *task.join_waker.lock() = Some(cx.waker().clone());
        J3 :        if task.is_finished() { Ready } else { Pending } }
     block_on re-polls after an unpark (JRepoll; park may also return spuriously).
   Also: the executor polls a task only if it is not finished (EPoll), and
   Task::wake_by_ref enqueues only if not finished (TWake). *)
From DustDDS Require Export Base.Machine.
Open Scope Z_scope.

Inductive epc : Type := ERunning | EFinishing | EDone.
Inductive jpc : Type := JIdle | JChecked | JStored | JPending | JReady.

Record xst : Type := mkX {
  x_fin : bool;            (* task.finished *)
  x_waker : bool;          (* task.join_waker is Some *)
  x_epc : epc;
  x_jpc : jpc;
  x_woken : bool;          (* the joiner's thread has an unconsumed unpark *)
  x_queue : Z;             (* how often the task sits in the executor's channel *)
  x_polls_after_fin : Z    (* polls of the future after it returned Ready *)
}.

Definition xinit : xst := mkX false false ERunning JIdle false 1 0.

Inductive xop : Type :=
| TWake                 (* Task::wake_by_ref *)
| EPoll (ready : bool)  (* executor takes the task from the channel and polls it *)
| ETake
| J1 | J2 | J3
| JRepoll.

Definition xstep (s : xst) (o : xop) : xst :=
  match o with
  | TWake =>
      if x_fin s then s
      else mkX (x_fin s) (x_waker s) (x_epc s) (x_jpc s) (x_woken s) (x_queue s + 1) (x_polls_after_fin s)
  | EPoll ready =>
      match x_epc s with
      | ERunning =>
          if 0 <? x_queue s then
            if x_fin s then
              (* `if !task.is_finished()` : skipped *)
              mkX (x_fin s) (x_waker s) (x_epc s) (x_jpc s) (x_woken s) (x_queue s - 1) (x_polls_after_fin s)
            else if ready then
              mkX true (x_waker s) EFinishing (x_jpc s) (x_woken s) (x_queue s - 1) (x_polls_after_fin s)
            else
              mkX false (x_waker s) ERunning (x_jpc s) (x_woken s) (x_queue s - 1) (x_polls_after_fin s)
          else s
      | EDone =>
          if 0 <? x_queue s then
            if x_fin s then
              mkX (x_fin s) (x_waker s) (x_epc s) (x_jpc s) (x_woken s) (x_queue s - 1) (x_polls_after_fin s)
            else
              mkX (x_fin s) (x_waker s) (x_epc s) (x_jpc s) (x_woken s) (x_queue s - 1) (x_polls_after_fin s + 1)
          else s
      | EFinishing => s
      end
  | ETake =>
      match x_epc s with
      | EFinishing =>
          if x_waker s
          then mkX (x_fin s) false EDone (x_jpc s) true (x_queue s) (x_polls_after_fin s)
          else mkX (x_fin s) false EDone (x_jpc s) (x_woken s) (x_queue s) (x_polls_after_fin s)
      | _ => s
      end
  | J1 =>
      match x_jpc s with
      | JIdle => mkX (x_fin s) (x_waker s) (x_epc s) (if x_fin s then JReady else JChecked) (x_woken s)
                     (x_queue s) (x_polls_after_fin s)
      | _ => s
      end
  | J2 =>
      match x_jpc s with
      | JChecked => mkX (x_fin s) true (x_epc s) JStored (x_woken s) (x_queue s) (x_polls_after_fin s)
      | _ => s
      end
  | J3 =>
      match x_jpc s with
      | JStored => mkX (x_fin s) (x_waker s) (x_epc s) (if x_fin s then JReady else JPending) (x_woken s)
                       (x_queue s) (x_polls_after_fin s)
      | _ => s
      end
  | JRepoll =>
      match x_jpc s with
      | JPending => mkX (x_fin s) (x_waker s) (x_epc s) JIdle false (x_queue s) (x_polls_after_fin s)
      | _ => s
      end
  end.

Definition xrun (ops : list xop) (s : xst) : xst := fold_left xstep ops s.
