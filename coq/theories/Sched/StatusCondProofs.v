(* C32, part 1: StatusMask, trigger value, and the invariants of the shared state
   (conditions + notification channels) under each primitive operation. *)
From DustDDS Require Import Base.Machine Sched.StatusCondModel.
Open Scope Z_scope.

(* ------------------------------------------------------------ kinds and masks *)
Lemma kind_eqb_eq : forall a b, kind_eqb a b = true <-> a = b.
Proof.
  intros a b; unfold kind_eqb; split.
  - destruct a, b; cbn; intro H; try reflexivity; discriminate.
  - intros ->. apply Z.eqb_refl.
Qed.

Lemma kind_eqb_refl : forall a, kind_eqb a a = true.
Proof. intro a; apply kind_eqb_eq; reflexivity. Qed.

Lemma kind_eqb_sym : forall a b, kind_eqb a b = kind_eqb b a.
Proof. intros; unfold kind_eqb; apply Z.eqb_sym. Qed.

Lemma all_kinds_complete : forall k, In k all_kinds.
Proof. destruct k; cbn; tauto. Qed.

Lemma kind_idx_range : forall k, 0 <= kind_idx k <= 12.
Proof. destruct k; cbn; lia. Qed.

Lemma kind_bit_pow2 : forall k, kind_bit k = 2 ^ kind_idx k.
Proof. destruct k; reflexivity. Qed.

Lemma land_pow2 : forall m i, 0 <= i ->
  Z.land m (2 ^ i) = if Z.testbit m i then 2 ^ i else 0.
Proof.
  intros m i Hi. apply Z.bits_inj'. intros n Hn.
  rewrite Z.land_spec, Z.pow2_bits_eqb by assumption.
  destruct (Z.eqb_spec i n) as [->|Hne].
  - destruct (Z.testbit m n) eqn:E; cbn.
    + rewrite Z.pow2_bits_eqb, Z.eqb_refl by assumption. reflexivity.
    + rewrite Z.bits_0. reflexivity.
  - rewrite andb_false_r.
    destruct (Z.testbit m i).
    + rewrite Z.pow2_bits_eqb by assumption. symmetry. apply Z.eqb_neq. assumption.
    + rewrite Z.bits_0. reflexivity.
Qed.

Lemma is_enabled_testbit : forall m k, is_enabled m k = Z.testbit m (kind_idx k).
Proof.
  intros m k. unfold is_enabled. rewrite kind_bit_pow2.
  pose proof (kind_idx_range k) as R.
  rewrite land_pow2 by lia.
  destruct (Z.testbit m (kind_idx k)).
  - assert (0 < 2 ^ kind_idx k) by (apply Z.pow_pos_nonneg; lia).
    destruct (Z.eqb_spec (2 ^ kind_idx k) 0); [lia | reflexivity].
  - reflexivity.
Qed.

Lemma mask_fold_testbit : forall l a i, 0 <= i ->
  Z.testbit (fold_left (fun m k => Z.lor m (kind_bit k)) l a) i =
  Z.testbit a i || existsb (fun k => kind_idx k =? i) l.
Proof.
  induction l as [|k l IH]; intros a i Hi; cbn [fold_left existsb].
  - rewrite orb_false_r. reflexivity.
  - rewrite IH by assumption. rewrite Z.lor_spec, kind_bit_pow2.
    rewrite Z.pow2_bits_eqb by (pose proof (kind_idx_range k); lia).
    rewrite orb_assoc. reflexivity.
Qed.

(* the mask built from a list of kinds enables exactly the kinds of the list *)
Lemma is_enabled_mask_of_list : forall l k,
  is_enabled (mask_of_list l) k = existsb (kind_eqb k) l.
Proof.
  intros l k. rewrite is_enabled_testbit. unfold mask_of_list.
  rewrite mask_fold_testbit by (pose proof (kind_idx_range k); lia).
  rewrite Z.bits_0. cbn [orb].
  induction l as [|x l IH]; cbn [existsb]; [reflexivity|].
  rewrite IH. f_equal. unfold kind_eqb. apply Z.eqb_sym.
Qed.

Lemma is_enabled_mask_of_list_In : forall l k,
  is_enabled (mask_of_list l) k = true <-> In k l.
Proof.
  intros l k. rewrite is_enabled_mask_of_list, existsb_exists. split.
  - intros [x [Hin Heq]]. apply kind_eqb_eq in Heq. subst. assumption.
  - intro Hin. exists k. split; [assumption | apply kind_eqb_refl].
Qed.

Lemma default_mask_all : forall k, is_enabled default_mask k = true.
Proof. intro k. apply is_enabled_mask_of_list_In. apply all_kinds_complete. Qed.

(* ----------------------------------------------------------------- the trigger *)
Lemma trigger_loop_existsb : forall m l, trigger_loop m l = existsb (is_enabled m) l.
Proof.
  induction l as [|k l IH]; cbn [trigger_loop existsb]; [reflexivity|].
  destruct (is_enabled m k); [reflexivity | exact IH].
Qed.

Theorem cond_trigger_iff : forall c,
  cond_trigger c = true <->
  exists k, is_enabled (c_enabled c) k = true /\ In k (c_changes c).
Proof.
  intro c. unfold cond_trigger. rewrite trigger_loop_existsb, existsb_exists.
  split; intros [k [A B]]; exists k; tauto.
Qed.

Lemma spec_trigger_iff : forall en ch,
  spec_trigger en ch = true <-> exists k, en k = true /\ ch k = true.
Proof.
  intros en ch. unfold spec_trigger. rewrite existsb_exists. split.
  - intros [k [_ H]]. apply andb_true_iff in H. exists k. exact H.
  - intros [k [A B]]. exists k. split; [apply all_kinds_complete|]. rewrite A, B. reflexivity.
Qed.

(* trigger value of a condition whose fields represent the sets en / ch *)
Definition cond_repr (cd : cond) (en ch : StatusKind -> bool) : Prop :=
  (forall k, is_enabled (c_enabled cd) k = en k) /\
  (forall k, In k (c_changes cd) <-> ch k = true).

Lemma cond_repr_trigger : forall cd en ch,
  cond_repr cd en ch -> cond_trigger cd = spec_trigger en ch.
Proof.
  intros cd en ch [He Hc].
  apply eq_true_iff_eq. rewrite cond_trigger_iff, spec_trigger_iff.
  split; intros [k [A B]]; exists k.
  - rewrite <- He. split; [assumption | apply Hc; assumption].
  - rewrite He. split; [assumption | apply Hc; assumption].
Qed.

Lemma cond_repr_init : cond_repr cond_init (fun _ => true) (fun _ => false).
Proof.
  split; intro k; cbn [cond_init c_enabled c_changes].
  - apply default_mask_all.
  - split; [intros [] | discriminate].
Qed.

Lemma cond_repr_add : forall cd en ch k r,
  cond_repr cd en ch ->
  cond_repr (mkCond (c_enabled cd) (c_changes cd ++ [k]) r) en (set_add ch k).
Proof.
  intros cd en ch k r [He Hc]. split; intro x; cbn [c_enabled c_changes].
  - apply He.
  - unfold set_add. rewrite in_app_iff. cbn [In].
    destruct (kind_eqb x k) eqn:E.
    + apply kind_eqb_eq in E. subst. tauto.
    + rewrite Hc. split; [intros [H|[H|[]]]; [assumption|] | tauto].
      subst. rewrite kind_eqb_refl in E. discriminate.
Qed.

Lemma cond_repr_remove : forall cd en ch k r,
  cond_repr cd en ch ->
  cond_repr (mkCond (c_enabled cd) (filter (fun x => negb (kind_eqb x k)) (c_changes cd)) r)
            en (set_del ch k).
Proof.
  intros cd en ch k r [He Hc]. split; intro x; cbn [c_enabled c_changes].
  - apply He.
  - unfold set_del. rewrite filter_In, Hc.
    destruct (kind_eqb x k); cbn [negb]; split; intro H; try tauto; try discriminate.
Qed.

Lemma cond_repr_set_enabled : forall cd en ch l r,
  cond_repr cd en ch ->
  cond_repr (mkCond (mask_of_list l) (c_changes cd) r) (set_of_list l) ch.
Proof.
  intros cd en ch l r [He Hc]. split; intro x; cbn [c_enabled c_changes].
  - unfold set_of_list. apply is_enabled_mask_of_list.
  - apply Hc.
Qed.
