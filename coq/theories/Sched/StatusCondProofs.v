(* C32, part 1: StatusMask, trigger value, and the invariants of the shared state
   (conditions + notification channels) under each primitive operation. *)
From DustDDS Require Import Base.Machine Sched.StatusCondModel.
Open Scope Z_scope.

(* ------------------------------------------------------------ kinds and masks *)
Lemma kind_eqb_eq : forall a b, kind_eqb a b = true <-> a = b.
Proof.
  intros a b; unfold kind_eqb; split.
  - destruct a, b; cbn; intro H; try reflexivity; discriminate.
  - intros ->. apply Z.eqb_refl.
Qed.

Lemma kind_eqb_refl : forall a, kind_eqb a a = true.
Proof. intro a; apply kind_eqb_eq; reflexivity. Qed.

Lemma kind_eqb_sym : forall a b, kind_eqb a b = kind_eqb b a.
Proof. intros; unfold kind_eqb; apply Z.eqb_sym. Qed.

Lemma all_kinds_complete : forall k, In k all_kinds.
Proof. destruct k; cbn; tauto. Qed.

Lemma kind_idx_range : forall k, 0 <= kind_idx k <= 12.
Proof. destruct k; cbn; lia. Qed.

Lemma kind_bit_pow2 : forall k, kind_bit k = 2 ^ kind_idx k.
Proof. destruct k; reflexivity. Qed.

Lemma land_pow2 : forall m i, 0 <= i ->
  Z.land m (2 ^ i) = if Z.testbit m i then 2 ^ i else 0.
Proof.
  intros m i Hi. apply Z.bits_inj'. intros n Hn.
  rewrite Z.land_spec, Z.pow2_bits_eqb by assumption.
  destruct (Z.eqb_spec i n) as [->|Hne].
  - destruct (Z.testbit m n) eqn:E; cbn.
    + rewrite Z.pow2_bits_eqb, Z.eqb_refl by assumption. reflexivity.
    + rewrite Z.bits_0. reflexivity.
  - rewrite andb_false_r.
    destruct (Z.testbit m i).
    + rewrite Z.pow2_bits_eqb by assumption. symmetry. apply Z.eqb_neq. assumption.
    + rewrite Z.bits_0. reflexivity.
Qed.

Lemma is_enabled_testbit : forall m k, is_enabled m k = Z.testbit m (kind_idx k).
Proof.
  intros m k. unfold is_enabled. rewrite kind_bit_pow2.
  pose proof (kind_idx_range k) as R.
  rewrite land_pow2 by lia.
  destruct (Z.testbit m (kind_idx k)).
  - assert (0 < 2 ^ kind_idx k) by (apply Z.pow_pos_nonneg; lia).
    destruct (Z.eqb_spec (2 ^ kind_idx k) 0); [lia | reflexivity].
  - reflexivity.
Qed.

Lemma mask_fold_testbit : forall l a i, 0 <= i ->
  Z.testbit (fold_left (fun m k => Z.lor m (kind_bit k)) l a) i =
  Z.testbit a i || existsb (fun k => kind_idx k =? i) l.
Proof.
  induction l as [|k l IH]; intros a i Hi; cbn [fold_left existsb].
  - rewrite orb_false_r. reflexivity.
  - rewrite IH by assumption. rewrite Z.lor_spec, kind_bit_pow2.
    rewrite Z.pow2_bits_eqb by (pose proof (kind_idx_range k); lia).
    rewrite orb_assoc. reflexivity.
Qed.

(* the mask built from a list of kinds enables exactly the kinds of the list *)
Lemma is_enabled_mask_of_list : forall l k,
  is_enabled (mask_of_list l) k = existsb (kind_eqb k) l.
Proof.
  intros l k. rewrite is_enabled_testbit. unfold mask_of_list.
  rewrite mask_fold_testbit by (pose proof (kind_idx_range k); lia).
  rewrite Z.bits_0. cbn [orb].
  induction l as [|x l IH]; cbn [existsb]; [reflexivity|].
  rewrite IH. f_equal. unfold kind_eqb. apply Z.eqb_sym.
Qed.

Lemma is_enabled_mask_of_list_In : forall l k,
  is_enabled (mask_of_list l) k = true <-> In k l.
Proof.
  intros l k. rewrite is_enabled_mask_of_list, existsb_exists. split.
  - intros [x [Hin Heq]]. apply kind_eqb_eq in Heq. subst. assumption.
  - intro Hin. exists k. split; [assumption | apply kind_eqb_refl].
Qed.

Lemma default_mask_all : forall k, is_enabled default_mask k = true.
Proof. intro k. apply is_enabled_mask_of_list_In. apply all_kinds_complete. Qed.

(* ----------------------------------------------------------------- the trigger *)
Lemma trigger_loop_existsb : forall m l, trigger_loop m l = existsb (is_enabled m) l.
Proof.
  induction l as [|k l IH]; cbn [trigger_loop existsb]; [reflexivity|].
  destruct (is_enabled m k); [reflexivity | exact IH].
Qed.

Theorem cond_trigger_iff : forall c,
  cond_trigger c = true <->
  exists k, is_enabled (c_enabled c) k = true /\ In k (c_changes c).
Proof.
  intro c. unfold cond_trigger. rewrite trigger_loop_existsb, existsb_exists.
  split; intros [k [A B]]; exists k; tauto.
Qed.

Lemma spec_trigger_iff : forall en ch,
  spec_trigger en ch = true <-> exists k, en k = true /\ ch k = true.
Proof.
  intros en ch. unfold spec_trigger. rewrite existsb_exists. split.
  - intros [k [_ H]]. apply andb_true_iff in H. exists k. exact H.
  - intros [k [A B]]. exists k. split; [apply all_kinds_complete|]. rewrite A, B. reflexivity.
Qed.

(* trigger value of a condition whose fields represent the sets en / ch *)
Definition cond_repr (cd : cond) (en ch : StatusKind -> bool) : Prop :=
  (forall k, is_enabled (c_enabled cd) k = en k) /\
  (forall k, In k (c_changes cd) <-> ch k = true).

Lemma cond_repr_trigger : forall cd en ch,
  cond_repr cd en ch -> cond_trigger cd = spec_trigger en ch.
Proof.
  intros cd en ch [He Hc].
  apply eq_true_iff_eq. rewrite cond_trigger_iff, spec_trigger_iff.
  split; intros [k [A B]]; exists k.
  - rewrite <- He. split; [assumption | apply Hc; assumption].
  - rewrite He. split; [assumption | apply Hc; assumption].
Qed.

Lemma cond_repr_init : cond_repr cond_init (fun _ => true) (fun _ => false).
Proof.
  split; intro k; cbn [cond_init c_enabled c_changes].
  - apply default_mask_all.
  - split; [intros [] | discriminate].
Qed.

Lemma cond_repr_add : forall cd en ch k r,
  cond_repr cd en ch ->
  cond_repr (mkCond (c_enabled cd) (c_changes cd ++ [k]) r) en (set_add ch k).
Proof.
  intros cd en ch k r [He Hc]. split; intro x; cbn [c_enabled c_changes].
  - apply He.
  - unfold set_add. rewrite in_app_iff. cbn [In].
    destruct (kind_eqb x k) eqn:E.
    + apply kind_eqb_eq in E. subst. tauto.
    + rewrite Hc. split; [intros [H|[H|[]]]; [assumption|] | tauto].
      subst. rewrite kind_eqb_refl in E. discriminate.
Qed.

Lemma cond_repr_remove : forall cd en ch k r,
  cond_repr cd en ch ->
  cond_repr (mkCond (c_enabled cd) (filter (fun x => negb (kind_eqb x k)) (c_changes cd)) r)
            en (set_del ch k).
Proof.
  intros cd en ch k r [He Hc]. split; intro x; cbn [c_enabled c_changes].
  - apply He.
  - unfold set_del. rewrite filter_In, Hc.
    destruct (kind_eqb x k); cbn [negb]; split; intro H; try tauto; try discriminate.
Qed.

Lemma cond_repr_set_enabled : forall cd en ch l r,
  cond_repr cd en ch ->
  cond_repr (mkCond (mask_of_list l) (c_changes cd) r) (set_of_list l) ch.
Proof.
  intros cd en ch l r [He Hc]. split; intro x; cbn [c_enabled c_changes].
  - unfold set_of_list. apply is_enabled_mask_of_list.
  - apply Hc.
Qed.

(* ==================================================================== part 2 *)
(* the shared state: lists, channels, frames *)
Close Scope Z_scope.
Open Scope nat_scope.

Lemma upd_length : forall A (l : list A) i x, length (upd l i x) = length l.
Proof. induction l as [|h t IH]; intros [|i] x; cbn; auto. Qed.

Lemma nth_error_upd : forall A (l : list A) i j x,
  nth_error (upd l i x) j =
  if Nat.eqb i j then match nth_error l j with Some _ => Some x | None => None end
  else nth_error l j.
Proof.
  induction l as [|h t IH]; intros i j x.
  - destruct i, j; cbn; try reflexivity; destruct (Nat.eqb i j); reflexivity.
  - destruct i, j; cbn; try reflexivity. apply IH.
Qed.

Lemma nth_error_upd_same : forall A (l : list A) i x y,
  nth_error l i = Some y -> nth_error (upd l i x) i = Some x.
Proof. intros. rewrite nth_error_upd, Nat.eqb_refl, H. reflexivity. Qed.

Lemma nth_error_upd_other : forall A (l : list A) i j x,
  i <> j -> nth_error (upd l i x) j = nth_error l j.
Proof. intros. rewrite nth_error_upd. apply Nat.eqb_neq in H. rewrite H. reflexivity. Qed.

Lemma app_chan_length : forall f chs i, length (app_chan f chs i) = length chs.
Proof. intros. unfold app_chan. destruct (nth_error chs i); [apply upd_length | reflexivity]. Qed.

Lemma nth_error_app_chan : forall f chs i j,
  nth_error (app_chan f chs i) j =
  if Nat.eqb i j then option_map f (nth_error chs j) else nth_error chs j.
Proof.
  intros. unfold app_chan. destruct (nth_error chs i) eqn:E.
  - rewrite nth_error_upd. destruct (Nat.eqb_spec i j); [subst; rewrite E|]; reflexivity.
  - destruct (Nat.eqb_spec i j); [subst; rewrite E|]; reflexivity.
Qed.

Lemma drain_length : forall regs chs, length (drain regs chs) = length chs.
Proof.
  unfold drain. induction regs as [|r t IH]; intro chs; cbn [fold_left]; [reflexivity|].
  rewrite IH. apply app_chan_length.
Qed.

(* ---- how a channel may change when somebody else than its receiver acts *)
Definition chan_evol (x y : chan) : Prop :=
  (notified x = true -> notified y = true) /\
  (parked y = true -> parked x = true /\ wakes y = wakes x /\ notified y = notified x) /\
  (parked y = false -> wakes y = wakes x + (if parked x then 1 else 0)).

Lemma chan_evol_refl : forall x, chan_evol x x.
Proof.
  intro x. unfold chan_evol. repeat split; auto.
  intro H. rewrite H. lia.
Qed.

Lemma chan_evol_trans : forall x y z, chan_evol x y -> chan_evol y z -> chan_evol x z.
Proof.
  intros x y z [A1 [A2 A3]] [B1 [B2 B3]]. unfold chan_evol. repeat split.
  - auto.
  - apply B2 in H. destruct H as [H _]. apply A2 in H. tauto.
  - apply B2 in H. destruct H as [H [E _]]. apply A2 in H. destruct H as [_ [E' _]]. congruence.
  - pose proof H as H'. apply B2 in H'. destruct H' as [H' [_ E]]. apply A2 in H'. destruct H' as [_ [_ E']]. congruence.
  - intro H. specialize (B3 H). destruct (parked y) eqn:Py.
    + destruct (A2 eq_refl) as [Px [E _]]. rewrite Px. lia.
    + specialize (A3 eq_refl). lia.
Qed.

Lemma chan_evol_notify : forall x, chan_evol x (chan_notify x).
Proof.
  intro x. unfold chan_evol, chan_notify, chan_wake. cbn [parked notified wakes senders].
  destruct (parked x) eqn:P; cbn [parked notified wakes senders]; repeat split; auto; try discriminate; try lia.
Qed.

Lemma chan_evol_clone : forall x, chan_evol x (chan_clone x).
Proof.
  intro x. unfold chan_evol, chan_clone. cbn [parked notified wakes senders].
  repeat split; auto. intro H. rewrite H. lia.
Qed.

Lemma chan_evol_drop : forall x, chan_evol x (chan_drop x).
Proof.
  intro x. unfold chan_evol, chan_drop, chan_wake. cbn [parked notified wakes senders].
  destruct (Nat.eqb (pred (senders x)) 0); cbn [parked notified wakes senders].
  - destruct (parked x) eqn:P; cbn [parked notified wakes senders]; repeat split; auto; try discriminate; try lia.
  - repeat split; auto. intro H. rewrite H. lia.
Qed.

Lemma chan_evol_fire : forall x, chan_evol x (chan_fire x).
Proof.
  intro x. unfold chan_fire. eapply chan_evol_trans; [apply chan_evol_notify | apply chan_evol_drop].
Qed.

Lemma chan_fire_notified : forall x, notified (chan_fire x) = true.
Proof.
  intro x. destruct (chan_evol_drop (chan_notify x)) as [H _]. apply H.
  unfold chan_notify, chan_wake. cbn [parked notified wakes senders].
  destruct (parked x); reflexivity.
Qed.

(* parked receivers are not notified *)
Definition chan_ok (x : chan) : Prop := parked x = true -> notified x = false.

Lemma chan_evol_ok : forall x y, chan_evol x y -> chan_ok x -> chan_ok y.
Proof.
  intros x y [_ [A _]] Hx Hy. destruct (A Hy) as [Px [_ E]]. rewrite E. apply Hx, Px.
Qed.

Lemma chan_poll_ok : forall x, chan_ok x -> chan_ok (fst (chan_poll x)).
Proof.
  intros x Hx. unfold chan_poll. destruct (notified x) eqn:N; cbn [fst].
  - intro H. reflexivity.
  - destruct (Nat.eqb (senders x) 0); cbn [fst]; [exact Hx | intro; reflexivity].
Qed.

(* every channel but [ex] evolves; new channels may be appended *)
Definition chans_evol (ex : option nat) (chs chs' : list chan) : Prop :=
  forall j x, Some j <> ex -> nth_error chs j = Some x ->
              exists y, nth_error chs' j = Some y /\ chan_evol x y.

Lemma chans_evol_refl : forall ex chs, chans_evol ex chs chs.
Proof. intros ex chs j x _ H. exists x. split; [assumption | apply chan_evol_refl]. Qed.

Lemma chans_evol_trans : forall ex a b c,
  chans_evol ex a b -> chans_evol ex b c -> chans_evol ex a c.
Proof.
  intros ex a b c H1 H2 j x Hj Hx.
  destruct (H1 j x Hj Hx) as [y [Hy E1]]. destruct (H2 j y Hj Hy) as [z [Hz E2]].
  exists z. split; [assumption | eapply chan_evol_trans; eassumption].
Qed.

Lemma chans_evol_weaken : forall ex a b, chans_evol None a b -> chans_evol ex a b.
Proof. intros ex a b H j x _ Hx. apply H; [discriminate | assumption]. Qed.

Lemma chans_evol_app_chan : forall f chs i,
  (forall x, chan_evol x (f x)) -> chans_evol None chs (app_chan f chs i).
Proof.
  intros f chs i Hf j x _ Hx. rewrite nth_error_app_chan, Hx.
  destruct (Nat.eqb i j); cbn [option_map]; eexists; split; try reflexivity.
  - apply Hf.
  - apply chan_evol_refl.
Qed.

Lemma chans_evol_drain : forall regs chs, chans_evol None chs (drain regs chs).
Proof.
  unfold drain. induction regs as [|r t IH]; intro chs; cbn [fold_left].
  - apply chans_evol_refl.
  - eapply chans_evol_trans; [apply chans_evol_app_chan, chan_evol_fire | apply IH].
Qed.

Lemma chans_evol_app : forall chs l, chans_evol None chs (chs ++ l).
Proof.
  intros chs l j x _ Hx. exists x. split; [|apply chan_evol_refl].
  rewrite nth_error_app1; [assumption|]. apply nth_error_Some. congruence.
Qed.

Lemma chans_evol_upd_ex : forall chs i x, chans_evol (Some i) chs (upd chs i x).
Proof.
  intros chs i x j y Hj Hy. exists y. split; [|apply chan_evol_refl].
  rewrite nth_error_upd_other; [assumption | congruence].
Qed.

Lemma drain_notified : forall regs chs ch x,
  In ch regs -> nth_error chs ch = Some x ->
  exists y, nth_error (drain regs chs) ch = Some y /\ notified y = true.
Proof.
  unfold drain. induction regs as [|r t IH]; intros chs ch x Hin Hx; [destruct Hin|].
  cbn [fold_left]. destruct (Nat.eq_dec r ch) as [->|Hne].
  - assert (H1 : nth_error (app_chan chan_fire chs ch) ch = Some (chan_fire x)).
    { rewrite nth_error_app_chan, Nat.eqb_refl, Hx. reflexivity. }
    destruct (chans_evol_drain t _ ch _ ltac:(discriminate) H1) as [y [Hy [E _]]].
    exists y. split; [exact Hy | apply E, chan_fire_notified].
  - destruct Hin as [->|Hin]; [congruence|].
    assert (H1 : nth_error (app_chan chan_fire chs r) ch = Some x).
    { rewrite nth_error_app_chan. apply Nat.eqb_neq in Hne. rewrite Hne. exact Hx. }
    exact (IH _ _ _ Hin H1).
Qed.

(* ---- the shared state *)
(* channel ch has a sender registered on condition c (vacuous if there is no c) *)
Definition regd (s : sys) (c ch : nat) : Prop :=
  forall cd, nth_error (conds s) c = Some cd -> In ch (c_registered cd).

(* THE invariant of finding D6: registered senders imply trigger value false *)
Definition cond_inv (s : sys) : Prop :=
  forall c cd, nth_error (conds s) c = Some cd -> c_registered cd <> [] -> cond_trigger cd = false.

Definition chans_ok (s : sys) : Prop :=
  forall ch x, nth_error (chans s) ch = Some x -> chan_ok x.

Definition sys_frame (ex : option nat) (s s' : sys) : Prop :=
  chans_evol ex (chans s) (chans s') /\
  length (conds s') = length (conds s) /\
  (forall c ch, Some ch <> ex -> ch < length (chans s) ->
                regd s c ch -> regd s' c ch \/ notif s' ch = true).

Lemma chans_evol_lt : forall ex a b ch, chans_evol ex a b -> Some ch <> ex -> ch < length a -> ch < length b.
Proof.
  intros ex a b ch H Hne Hlt. destruct (nth_error a ch) eqn:E.
  - destruct (H ch c Hne E) as [y [Hy _]]. apply nth_error_Some. congruence.
  - apply nth_error_None in E. lia.
Qed.

Lemma chans_evol_notif : forall ex s s' ch,
  chans_evol ex (chans s) (chans s') -> Some ch <> ex -> notif s ch = true -> notif s' ch = true.
Proof.
  intros ex s s' ch H Hne Hn. unfold notif in *. destruct (nth_error (chans s) ch) eqn:E; [|discriminate].
  destruct (H ch c Hne E) as [y [Hy [A _]]]. rewrite Hy. auto.
Qed.

Lemma sys_frame_refl : forall ex s, sys_frame ex s s.
Proof. intros. split; [apply chans_evol_refl | split; [reflexivity | auto]]. Qed.

Lemma sys_frame_trans : forall ex a b c, sys_frame ex a b -> sys_frame ex b c -> sys_frame ex a c.
Proof.
  intros ex a b c [A1 [A2 A3]] [B1 [B2 B3]]. split; [eapply chans_evol_trans; eassumption|].
  split; [congruence|]. intros k ch Hne Hlt Hr.
  destruct (A3 k ch Hne Hlt Hr) as [H|H].
  - apply B3; auto. eapply chans_evol_lt; eassumption.
  - right. eapply chans_evol_notif; eassumption.
Qed.

Lemma sys_frame_weaken : forall ex a b, sys_frame None a b -> sys_frame ex a b.
Proof.
  intros ex a b [A1 [A2 A3]]. split; [apply chans_evol_weaken; assumption|].
  split; [assumption|]. intros. apply A3; auto. discriminate.
Qed.

(* a step that leaves the conditions alone *)
Lemma sys_frame_chans : forall ex s chs',
  chans_evol ex (chans s) chs' -> sys_frame ex s (mkSys (conds s) chs').
Proof. intros. split; [assumption | split; [reflexivity | auto]]. Qed.

Lemma with_cond_cases : forall s c f (P : sys -> Prop),
  (nth_error (conds s) c = None -> P s) ->
  (forall cd, nth_error (conds s) c = Some cd -> P (f cd)) ->
  P (with_cond s c f).
Proof. intros. unfold with_cond. destruct (nth_error (conds s) c); auto. Qed.

Lemma regd_upd_other : forall s c c' ch cd' chs',
  c <> c' -> regd s c ch -> regd (mkSys (upd (conds s) c' cd') chs') c ch.
Proof.
  intros s c c' ch cd' chs' Hne H cd. cbn [conds]. rewrite nth_error_upd_other by congruence. apply H.
Qed.

Lemma regd_upd_same : forall s c ch cd cd' chs',
  nth_error (conds s) c = Some cd -> In ch (c_registered cd') ->
  regd (mkSys (upd (conds s) c cd') chs') c ch.
Proof.
  intros s c ch cd cd' chs' Hc Hin x. cbn [conds]. rewrite (nth_error_upd_same _ _ _ _ _ Hc).
  intro E. injection E as <-. assumption.
Qed.

(* a condition is replaced by one with the same registered senders *)
Lemma sys_frame_upd_keep : forall s c cd cd',
  nth_error (conds s) c = Some cd -> c_registered cd' = c_registered cd ->
  sys_frame None s (mkSys (upd (conds s) c cd') (chans s)).
Proof.
  intros s c cd cd' Hc Hr. split; [apply chans_evol_refl|]. split; [apply upd_length|].
  intros k ch _ _ Hk. left. destruct (Nat.eq_dec k c) as [->|Hne].
  - eapply regd_upd_same; [eassumption|]. rewrite Hr. apply Hk, Hc.
  - apply regd_upd_other; assumption.
Qed.

(* a condition fires: its senders are drained and notified *)
Lemma sys_frame_fire : forall s c cd cd',
  nth_error (conds s) c = Some cd ->
  sys_frame None s (mkSys (upd (conds s) c cd') (drain (c_registered cd) (chans s))).
Proof.
  intros s c cd cd' Hc. split; [apply chans_evol_drain|]. split; [apply upd_length|].
  intros k ch _ Hlt Hk. destruct (Nat.eq_dec k c) as [->|Hne].
  - right. specialize (Hk _ Hc).
    destruct (nth_error (chans s) ch) eqn:E; [|apply nth_error_None in E; lia].
    destruct (drain_notified _ _ _ _ Hk E) as [y [Hy Hn]].
    unfold notif. cbn [chans]. rewrite Hy. exact Hn.
  - left. apply regd_upd_other; assumption.
Qed.

Lemma sys_add_frame : forall s c k, sys_frame None s (sys_add s c k).
Proof.
  intros s c k. unfold sys_add. apply with_cond_cases; [intros; apply sys_frame_refl|].
  intros cd Hc. cbn [c_enabled c_changes c_registered].
  destruct (cond_trigger _).
  - apply sys_frame_fire; assumption.
  - eapply sys_frame_upd_keep; [eassumption | reflexivity].
Qed.

Lemma sys_remove_frame : forall s c k, sys_frame None s (sys_remove s c k).
Proof.
  intros s c k. unfold sys_remove. apply with_cond_cases; [intros; apply sys_frame_refl|].
  intros cd Hc. eapply sys_frame_upd_keep; [eassumption | reflexivity].
Qed.

Lemma sys_set_enabled_frame : forall fx s c m, sys_frame None s (sys_set_enabled fx s c m).
Proof.
  intros fx s c m. unfold sys_set_enabled. apply with_cond_cases; [intros; apply sys_frame_refl|].
  intros cd Hc. cbn [c_enabled c_changes c_registered].
  destruct (fx && cond_trigger _).
  - apply sys_frame_fire; assumption.
  - eapply sys_frame_upd_keep; [eassumption | reflexivity].
Qed.

Lemma sys_register_frame : forall s c ch, sys_frame None s (sys_register s c ch).
Proof.
  intros s c ch. unfold sys_register. apply with_cond_cases; [intros; apply sys_frame_refl|].
  intros cd Hc. destruct (cond_trigger cd).
  - apply sys_frame_chans. cbn [chans].
    eapply chans_evol_trans; apply chans_evol_app_chan; [apply chan_evol_clone | apply chan_evol_fire].
  - split; [apply chans_evol_app_chan, chan_evol_clone|]. split; [apply upd_length|].
    intros k j _ _ Hk. left. destruct (Nat.eq_dec k c) as [->|Hne].
    + eapply regd_upd_same; [eassumption|]. cbn [c_registered]. apply in_or_app. left. apply Hk, Hc.
    + apply regd_upd_other; assumption.
Qed.

Lemma sys_poll_frame : forall s ch, sys_frame (Some ch) s (fst (sys_poll s ch)).
Proof.
  intros s ch. unfold sys_poll. destruct (nth_error (chans s) ch) eqn:E; [|apply sys_frame_refl].
  destruct (chan_poll c) as [x' o]. cbn [fst]. apply sys_frame_chans. apply chans_evol_upd_ex.
Qed.

Lemma sys_drop_frame : forall s ch, sys_frame None s (sys_drop s ch).
Proof.
  intros. unfold sys_drop. apply sys_frame_chans. apply chans_evol_app_chan, chan_evol_drop.
Qed.

Lemma sys_newchan_frame : forall s, sys_frame None s (mkSys (conds s) (chans s ++ [chan_new])).
Proof. intros. apply sys_frame_chans. apply chans_evol_app. Qed.

(* ---- cond_inv under each operation *)
Lemma cond_inv_same_conds : forall s s', conds s' = conds s -> cond_inv s -> cond_inv s'.
Proof. intros s s' E H c cd. rewrite E. apply H. Qed.

Lemma cond_inv_upd : forall s c cd' chs',
  cond_inv s -> (c_registered cd' <> [] -> cond_trigger cd' = false) ->
  cond_inv (mkSys (upd (conds s) c cd') chs').
Proof.
  intros s c cd' chs' H Hcd k cd. cbn [conds]. rewrite nth_error_upd.
  destruct (Nat.eqb c k).
  - destruct (nth_error (conds s) k); [|discriminate]. intro E. injection E as <-. exact Hcd.
  - apply H.
Qed.

Lemma sys_add_inv : forall s c k, cond_inv s -> cond_inv (sys_add s c k).
Proof.
  intros s c k H. unfold sys_add. apply with_cond_cases; [intros; assumption|].
  intros cd Hc. cbn [c_enabled c_changes c_registered].
  destruct (cond_trigger _) eqn:T; apply cond_inv_upd; try assumption; cbn [c_registered].
  - intro X. contradiction.
  - intros _. exact T.
Qed.

Lemma trigger_loop_filter : forall m f l,
  trigger_loop m (filter f l) = true -> trigger_loop m l = true.
Proof.
  intros m f l. rewrite !trigger_loop_existsb, !existsb_exists.
  intros [k [Hin He]]. apply filter_In in Hin. exists k. tauto.
Qed.

Lemma sys_remove_inv : forall s c k, cond_inv s -> cond_inv (sys_remove s c k).
Proof.
  intros s c k H. unfold sys_remove. apply with_cond_cases; [intros; assumption|].
  intros cd Hc. apply cond_inv_upd; [assumption|]. cbn [c_registered]. intro Hr.
  specialize (H _ _ Hc Hr). unfold cond_trigger in *. cbn [c_enabled c_changes].
  destruct (trigger_loop (c_enabled cd) (filter _ (c_changes cd))) eqn:T; [|reflexivity].
  apply trigger_loop_filter in T. congruence.
Qed.

Lemma sys_set_enabled_inv : forall fx s c m,
  sys_d6 fx s c m = false -> cond_inv s -> cond_inv (sys_set_enabled fx s c m).
Proof.
  intros fx s c m Hd H. unfold sys_set_enabled. apply with_cond_cases; [intros; assumption|].
  intros cd Hc. unfold sys_d6 in Hd. rewrite Hc in Hd.
  unfold cond_trigger at 1. cbn [c_enabled c_changes c_registered].
  destruct fx; cbn [negb andb] in *.
  - destruct (trigger_loop m (c_changes cd)) eqn:T; apply cond_inv_upd; try assumption; cbn [c_registered].
    + intro X. contradiction.
    + intros _. exact T.
  - apply cond_inv_upd; [assumption|]. cbn [c_registered]. unfold cond_trigger. cbn [c_enabled c_changes].
    destruct (c_registered cd); [intro X; contradiction | intros _; exact Hd].
Qed.

Lemma sys_register_inv : forall s c ch, cond_inv s -> cond_inv (sys_register s c ch).
Proof.
  intros s c ch H. unfold sys_register. apply with_cond_cases; [intros; assumption|].
  intros cd Hc. destruct (cond_trigger cd) eqn:T.
  - eapply cond_inv_same_conds; [|eassumption]. reflexivity.
  - apply cond_inv_upd; [assumption|]. intros _. exact T.
Qed.

(* ---- chans_ok under each operation *)
Lemma chans_ok_evol : forall s s',
  chans_evol None (chans s) (chans s') -> length (chans s') = length (chans s) ->
  chans_ok s -> chans_ok s'.
Proof.
  intros s s' He Hl H ch y Hy.
  destruct (nth_error (chans s) ch) eqn:E.
  - destruct (He ch c ltac:(discriminate) E) as [y' [Hy' Hev]].
    assert (y' = y) by congruence. subst. eapply chan_evol_ok; [eassumption | eapply H; eassumption].
  - apply nth_error_None in E. assert (ch < length (chans s')) by (apply nth_error_Some; congruence). lia.
Qed.

Lemma sys_add_chans_ok : forall s c k, chans_ok s -> chans_ok (sys_add s c k).
Proof.
  intros s c k. unfold sys_add. apply with_cond_cases; [auto|]. intros cd Hc.
  destruct (cond_trigger _); [|auto].
  apply chans_ok_evol; cbn [chans]; [apply chans_evol_drain | apply drain_length].
Qed.

Lemma sys_remove_chans_ok : forall s c k, chans_ok s -> chans_ok (sys_remove s c k).
Proof. intros s c k. unfold sys_remove. apply with_cond_cases; auto. Qed.

Lemma sys_set_enabled_chans_ok : forall fx s c m, chans_ok s -> chans_ok (sys_set_enabled fx s c m).
Proof.
  intros fx s c m. unfold sys_set_enabled. apply with_cond_cases; [auto|]. intros cd Hc.
  destruct (fx && cond_trigger _); [|auto].
  apply chans_ok_evol; cbn [chans]; [apply chans_evol_drain | apply drain_length].
Qed.

Lemma sys_register_chans_ok : forall s c ch, chans_ok s -> chans_ok (sys_register s c ch).
Proof.
  intros s c ch. unfold sys_register. apply with_cond_cases; [auto|]. intros cd Hc.
  destruct (cond_trigger cd); apply chans_ok_evol; cbn [chans].
  - eapply chans_evol_trans; apply chans_evol_app_chan; [apply chan_evol_clone | apply chan_evol_fire].
  - rewrite !app_chan_length. reflexivity.
  - apply chans_evol_app_chan, chan_evol_clone.
  - apply app_chan_length.
Qed.

Lemma sys_drop_chans_ok : forall s ch, chans_ok s -> chans_ok (sys_drop s ch).
Proof.
  intros s ch. apply chans_ok_evol; cbn [chans sys_drop].
  - apply chans_evol_app_chan, chan_evol_drop.
  - apply app_chan_length.
Qed.

Lemma sys_poll_chans_ok : forall s ch, chans_ok s -> chans_ok (fst (sys_poll s ch)).
Proof.
  intros s ch H. unfold sys_poll. destruct (nth_error (chans s) ch) eqn:E; [|exact H].
  destruct (chan_poll c) as [x' o] eqn:P. cbn [fst]. intros j y. cbn [chans].
  rewrite nth_error_upd. destruct (Nat.eqb ch j).
  - destruct (nth_error (chans s) j); [|discriminate]. intro X. injection X as <-.
    replace x' with (fst (chan_poll c)) by (rewrite P; reflexivity).
    apply chan_poll_ok. eapply H; eassumption.
  - apply H.
Qed.

Lemma sys_newchan_chans_ok : forall s, chans_ok s -> chans_ok (mkSys (conds s) (chans s ++ [chan_new])).
Proof.
  intros s H j y. cbn [chans]. intro Hy.
  destruct (Nat.lt_ge_cases j (length (chans s))).
  - rewrite nth_error_app1 in Hy by assumption. eapply H; eassumption.
  - rewrite nth_error_app2 in Hy by assumption.
    destruct (j - length (chans s)); cbn in Hy; [injection Hy as <-; intro X; discriminate|].
    destruct n; discriminate.
Qed.

Lemma sys_init_cond_inv : forall nc nch, cond_inv (sys_init nc nch).
Proof.
  intros nc nch c cd H. cbn [sys_init conds] in H.
  apply nth_error_In, repeat_spec in H. subst. intro X. contradiction X. reflexivity.
Qed.

Lemma sys_init_chans_ok : forall nc nch, chans_ok (sys_init nc nch).
Proof.
  intros nc nch ch x H. cbn [sys_init chans] in H.
  apply nth_error_In, repeat_spec in H. subst. intro X. discriminate.
Qed.

(* ---- the fields of every condition represent the history *)
Definition repr_all (s : sys) (en chg : nat -> StatusKind -> bool) : Prop :=
  forall c cd, nth_error (conds s) c = Some cd -> cond_repr cd (en c) (chg c).

Lemma repr_all_upd : forall s c cd cd' chs' (en chg en2 chg2 : nat -> StatusKind -> bool),
  repr_all s en chg -> nth_error (conds s) c = Some cd ->
  cond_repr cd' (en2 c) (chg2 c) ->
  (forall x, x <> c -> en2 x = en x /\ chg2 x = chg x) ->
  repr_all (mkSys (upd (conds s) c cd') chs') en2 chg2.
Proof.
  intros s c cd cd' chs' en chg en2 chg2 H Hc Hr Ho x y. cbn [conds].
  rewrite nth_error_upd. destruct (Nat.eqb_spec c x) as [->|Hne].
  - rewrite Hc. intro E. injection E as <-. exact Hr.
  - intro Hy. destruct (Ho x ltac:(congruence)) as [-> ->]. apply H. exact Hy.
Qed.

Lemma repr_all_ext : forall s s' (en chg en2 chg2 : nat -> StatusKind -> bool),
  repr_all s en chg -> conds s' = conds s ->
  (forall x, en2 x = en x /\ chg2 x = chg x) -> repr_all s' en2 chg2.
Proof.
  intros s s' en chg en2 chg2 H E Ho x y. rewrite E. intro Hy.
  destruct (Ho x) as [-> ->]. apply H. exact Hy.
Qed.

Lemma cond_repr_regs : forall cd en ch r,
  cond_repr cd en ch -> cond_repr (mkCond (c_enabled cd) (c_changes cd) r) en ch.
Proof. intros cd en ch r H. exact H. Qed.

Lemma sys_add_repr : forall s c k en chg,
  repr_all s en chg ->
  repr_all (sys_add s c k) (fun x => en_step x (en x) (EAdd c k)) (fun x => chg_step x (chg x) (EAdd c k)).
Proof.
  intros s c k en chg H. unfold sys_add. apply with_cond_cases.
  - intros Hn x y Hy. cbn [en_step chg_step]. destruct (Nat.eqb_spec c x) as [->|_]; [congruence|]. apply H, Hy.
  - intros cd Hc. cbn [c_enabled c_changes c_registered].
    assert (R : forall r, cond_repr (mkCond (c_enabled cd) (c_changes cd ++ [k]) r) (en c) (set_add (chg c) k))
      by (intro r; apply cond_repr_add, H, Hc).
    destruct (cond_trigger _); eapply repr_all_upd; try eassumption; cbn [en_step chg_step];
      try (rewrite Nat.eqb_refl; apply R);
      intros x Hx; apply Nat.eqb_neq in Hx; rewrite Nat.eqb_sym, Hx; auto.
Qed.

Lemma sys_remove_repr : forall s c k en chg,
  repr_all s en chg ->
  repr_all (sys_remove s c k) (fun x => en_step x (en x) (ERemove c k)) (fun x => chg_step x (chg x) (ERemove c k)).
Proof.
  intros s c k en chg H. unfold sys_remove. apply with_cond_cases.
  - intros Hn x y Hy. cbn [en_step chg_step]. destruct (Nat.eqb_spec c x) as [->|_]; [congruence|]. apply H, Hy.
  - intros cd Hc. eapply repr_all_upd; try eassumption; cbn [en_step chg_step].
    + rewrite Nat.eqb_refl. apply cond_repr_remove, H, Hc.
    + intros x Hx; apply Nat.eqb_neq in Hx; rewrite Nat.eqb_sym, Hx; auto.
Qed.

Lemma sys_set_enabled_repr : forall fx s c l en chg,
  repr_all s en chg ->
  repr_all (sys_set_enabled fx s c (mask_of_list l))
           (fun x => en_step x (en x) (ESet c l)) (fun x => chg_step x (chg x) (ESet c l)).
Proof.
  intros fx s c l en chg H. unfold sys_set_enabled. apply with_cond_cases.
  - intros Hn x y Hy. cbn [en_step chg_step]. destruct (Nat.eqb_spec c x) as [->|_]; [congruence|]. apply H, Hy.
  - intros cd Hc. cbn [c_enabled c_changes c_registered].
    assert (R : forall r, cond_repr (mkCond (mask_of_list l) (c_changes cd) r) (set_of_list l) (chg c))
      by (intro r; eapply cond_repr_set_enabled, H, Hc).
    destruct (fx && cond_trigger _); eapply repr_all_upd; try eassumption; cbn [en_step chg_step];
      try (rewrite Nat.eqb_refl; apply R);
      intros x Hx; apply Nat.eqb_neq in Hx; rewrite Nat.eqb_sym, Hx; auto.
Qed.

Lemma sys_register_repr : forall s c ch en chg,
  repr_all s en chg -> repr_all (sys_register s c ch) en chg.
Proof.
  intros s c ch en chg H. unfold sys_register. apply with_cond_cases; [auto|].
  intros cd Hc. destruct (cond_trigger cd).
  - eapply repr_all_ext; [eassumption | reflexivity | auto].
  - eapply repr_all_upd; try eassumption; [|auto]. apply cond_repr_regs, H, Hc.
Qed.

Lemma repr_all_init : forall nc nch, repr_all (sys_init nc nch) (fun _ _ => true) (fun _ _ => false).
Proof.
  intros nc nch c cd H. cbn [sys_init conds] in H. apply nth_error_In, repeat_spec in H. subst.
  apply cond_repr_init.
Qed.

Lemma repr_all_trigger : forall s en chg c,
  repr_all s en chg -> c < length (conds s) -> sys_trigger s c = spec_trigger (en c) (chg c).
Proof.
  intros s en chg c H Hc. unfold sys_trigger.
  destruct (nth_error (conds s) c) eqn:E; [|apply nth_error_None in E; lia].
  apply cond_repr_trigger, H, E.
Qed.

(* ================================================================ layer A *)
Definition d_inv (d : dsys) : Prop := cond_inv (d_sys d) /\ chans_ok (d_sys d).

Lemma dstep_inv : forall fx d o, dop_d6 fx d o = false -> d_inv d -> d_inv (dstep fx d o).
Proof.
  intros fx d o Hd [H1 H2]. destruct o; cbn [dstep dop_d6] in *; unfold d_inv; cbn [d_sys].
  - split; [apply sys_add_inv | apply sys_add_chans_ok]; assumption.
  - split; [apply sys_remove_inv | apply sys_remove_chans_ok]; assumption.
  - split; [apply sys_set_enabled_inv | apply sys_set_enabled_chans_ok]; assumption.
  - split; assumption.
  - split; assumption.
  - destruct (holds d ch); cbn [d_sys]; split; try assumption;
      [apply sys_register_inv | apply sys_register_chans_ok]; assumption.
  - split; [|apply sys_poll_chans_ok; assumption].
    eapply cond_inv_same_conds; [|eassumption].
    unfold sys_poll. destruct (nth_error _ _); [destruct (chan_poll c)|]; reflexivity.
  - destruct (holds d ch); cbn [d_sys]; split; try assumption.
    apply sys_drop_chans_ok; assumption.
Qed.

Lemma d_init_inv : forall nc nch, d_inv (d_init nc nch).
Proof. intros. split; [apply sys_init_cond_inv | apply sys_init_chans_ok]. Qed.

Theorem drun_inv : forall fx ops d,
  d_d6_free fx d ops = true -> d_inv d -> d_inv (drun fx d ops).
Proof.
  intros fx. induction ops as [|o t IH]; intros d Hf Hd; cbn [drun fold_left]; [assumption|].
  cbn [d_d6_free] in Hf. apply andb_true_iff in Hf. destruct Hf as [Ho Ht].
  apply negb_true_iff in Ho. apply IH; [assumption | apply dstep_inv; assumption].
Qed.

(* the patched code has no excluded history *)
Lemma d_d6_free_fixed : forall ops d, d_d6_free true d ops = true.
Proof. induction ops as [|o t IH]; intro d; cbn [d_d6_free]; [reflexivity|]. rewrite IH. destruct o; reflexivity. Qed.

Lemma dstep_repr : forall fx d o en chg,
  repr_all (d_sys d) en chg ->
  repr_all (d_sys (dstep fx d o)) (fun x => en_step x (en x) (dop_ev o)) (fun x => chg_step x (chg x) (dop_ev o)).
Proof.
  intros fx d o en chg H. destruct o; cbn [dstep dop_ev d_sys].
  - apply sys_add_repr; assumption.
  - apply sys_remove_repr; assumption.
  - apply sys_set_enabled_repr; assumption.
  - exact H.
  - exact H.
  - destruct (holds d ch); cbn [d_sys]; [apply sys_register_repr|]; exact H.
  - eapply repr_all_ext; [eassumption| |auto].
    unfold sys_poll. destruct (nth_error _ _); [destruct (chan_poll c)|]; reflexivity.
  - destruct (holds d ch); cbn [d_sys]; [|exact H]. eapply repr_all_ext; [eassumption|reflexivity|auto].
Qed.

Lemma drun_repr : forall fx ops d en chg,
  repr_all (d_sys d) en chg ->
  repr_all (d_sys (drun fx d ops))
           (fun x => fold_left (en_step x) (map dop_ev ops) (en x))
           (fun x => fold_left (chg_step x) (map dop_ev ops) (chg x)).
Proof.
  intros fx. induction ops as [|o t IH]; intros d en chg H; cbn [drun fold_left map]; [exact H|].
  apply (IH (dstep fx d o) (fun x => en_step x (en x) (dop_ev o)) (fun x => chg_step x (chg x) (dop_ev o))).
  apply dstep_repr. exact H.
Qed.

Lemma dstep_conds_length : forall fx d o, length (conds (d_sys (dstep fx d o))) = length (conds (d_sys d)).
Proof.
  intros fx d o. destruct o; cbn [dstep d_sys]; try reflexivity.
  - apply (sys_add_frame (d_sys d) c k).
  - apply (sys_remove_frame (d_sys d) c k).
  - apply (sys_set_enabled_frame fx (d_sys d) c (mask_of_list l)).
  - destruct (holds d ch); [apply (sys_register_frame (d_sys d) c ch) | reflexivity].
  - apply (sys_poll_frame (d_sys d) ch).
  - destruct (holds d ch); reflexivity.
Qed.

Lemma drun_conds_length : forall fx ops d, length (conds (d_sys (drun fx d ops))) = length (conds (d_sys d)).
Proof.
  intros fx. induction ops as [|o t IH]; intro d; cbn [drun fold_left]; [reflexivity|].
  fold (drun fx (dstep fx d o) t). rewrite IH. apply dstep_conds_length.
Qed.

(* trigger value = "an enabled status has changed since it was last read", for
   every history of every condition (including the D6 histories) *)
Theorem d_trigger_history : forall fx nc nch ops c, c < nc ->
  sys_trigger (d_sys (drun fx (d_init nc nch) ops)) c =
  spec_trigger (hist_en (map dop_ev ops) c) (hist_chg (map dop_ev ops) c).
Proof.
  intros fx nc nch ops c Hc.
  pose proof (drun_repr fx ops (d_init nc nch) _ _ (repr_all_init nc nch)) as H.
  apply (repr_all_trigger _ _ _ c H).
  rewrite drun_conds_length. cbn. rewrite repeat_length. exact Hc.
Qed.

Theorem d_reach_registered_trigger_false : forall fx nc nch ops,
  d_d6_free fx (d_init nc nch) ops = true ->
  forall c cd, nth_error (conds (d_sys (drun fx (d_init nc nch) ops))) c = Some cd ->
    c_registered cd <> [] -> cond_trigger cd = false.
Proof. intros fx nc nch ops H. exact (proj1 (drun_inv fx ops _ H (d_init_inv nc nch))). Qed.
