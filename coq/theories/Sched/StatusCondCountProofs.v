(* C32, part 3: sender bookkeeping.  The sender count of every notification
   channel equals (1 if a running wait call owns the channel) + (number of its
   senders registered on conditions); hence the receiver of a running call never
   sees "all senders dropped": wait never returns Err(AlreadyDeleted) by itself. *)
From DustDDS Require Import Base.Machine Sched.StatusCondModel Sched.StatusCondProofs
                            Sched.StatusCondWaitProofs.
Close Scope Z_scope.
Open Scope nat_scope.

Definition cnt (l : list nat) (ch : nat) : nat := count_occ Nat.eq_dec l ch.

Fixpoint occ (cs : list cond) (ch : nat) : nat :=
  match cs with [] => 0 | cd :: t => cnt (c_registered cd) ch + occ t ch end.

Definition ind (wt : waiter) (ch : nat) : nat :=
  if has_chan (w_pc wt) && Nat.eqb (w_ch wt) ch then 1 else 0.

Fixpoint owner (ws : list waiter) (ch : nat) : nat :=
  match ws with [] => 0 | wt :: t => ind wt ch + owner t ch end.

Definition acct (s : wsys) : Prop :=
  (forall ch x, nth_error (chans (w_sys s)) ch = Some x ->
                senders x = owner (w_waiters s) ch + occ (conds (w_sys s)) ch) /\
  (forall c cd ch, nth_error (conds (w_sys s)) c = Some cd -> In ch (c_registered cd) ->
                   ch < length (chans (w_sys s))).

(* ---- counting *)
Lemma occ_upd : forall cs c cd cd' ch,
  nth_error cs c = Some cd ->
  occ (upd cs c cd') ch + cnt (c_registered cd) ch = occ cs ch + cnt (c_registered cd') ch.
Proof.
  induction cs as [|h t IH]; intros [|c] cd cd' ch H; cbn in *; try discriminate.
  - injection H as ->. lia.
  - specialize (IH _ _ cd' ch H). lia.
Qed.

Lemma owner_upd : forall ws w wt wt' ch,
  nth_error ws w = Some wt ->
  owner (upd ws w wt') ch + ind wt ch = owner ws ch + ind wt' ch.
Proof.
  induction ws as [|h t IH]; intros [|w] wt wt' ch H; cbn in *; try discriminate.
  - injection H as ->. lia.
  - specialize (IH _ _ wt' ch H). lia.
Qed.

Lemma owner_zero : forall ws ch,
  (forall w wt, nth_error ws w = Some wt -> has_chan (w_pc wt) = true -> w_ch wt <> ch) ->
  owner ws ch = 0.
Proof.
  induction ws as [|h t IH]; intros ch H; cbn; [reflexivity|].
  rewrite IH by (intros w wt Hw; apply (H (S w) wt Hw)).
  unfold ind. destruct (has_chan (w_pc h)) eqn:Hh; [|reflexivity].
  destruct (Nat.eqb_spec (w_ch h) ch) as [E|_]; [|reflexivity].
  exfalso. apply (H 0 h eq_refl Hh E).
Qed.

Lemma occ_zero : forall cs ch,
  (forall c cd, nth_error cs c = Some cd -> ~ In ch (c_registered cd)) -> occ cs ch = 0.
Proof.
  induction cs as [|h t IH]; intros ch H; cbn; [reflexivity|].
  rewrite IH by (intros c cd Hc; apply (H (S c) cd Hc)).
  unfold cnt. rewrite (proj1 (count_occ_not_In Nat.eq_dec _ _) (H 0 h eq_refl)). reflexivity.
Qed.

Lemma cnt_app : forall l ch x, cnt (l ++ [x]) ch = cnt l ch + (if Nat.eqb x ch then 1 else 0).
Proof.
  intros l ch x. unfold cnt. rewrite count_occ_app. cbn [count_occ].
  destruct (Nat.eq_dec x ch) as [->|Hne].
  - rewrite Nat.eqb_refl. reflexivity.
  - apply Nat.eqb_neq in Hne. rewrite Hne. reflexivity.
Qed.

(* ---- senders under the channel operations *)
Lemma senders_fire : forall x, senders (chan_fire x) = senders x - 1.
Proof.
  intro x. unfold chan_fire, chan_drop, chan_notify, chan_wake.
  destruct (parked x); cbn [parked notified wakes senders];
    destruct (Nat.eqb (pred (senders x)) 0); cbn [parked notified wakes senders]; lia.
Qed.

Lemma senders_drop : forall x, senders (chan_drop x) = senders x - 1.
Proof.
  intro x. unfold chan_drop, chan_wake. cbn [parked notified wakes senders].
  destruct (Nat.eqb (pred (senders x)) 0); [destruct (parked x)|]; cbn [senders]; lia.
Qed.

Lemma drain_senders : forall regs chs ch x,
  nth_error chs ch = Some x ->
  exists y, nth_error (drain regs chs) ch = Some y /\ senders y = senders x - cnt regs ch.
Proof.
  unfold drain. induction regs as [|r t IH]; intros chs ch x Hx; cbn [fold_left].
  - exists x. split; [exact Hx | cbn; lia].
  - unfold cnt. cbn [count_occ]. destruct (Nat.eq_dec r ch) as [->|Hne].
    + assert (H1 : nth_error (app_chan chan_fire chs ch) ch = Some (chan_fire x))
        by (rewrite nth_error_app_chan, Nat.eqb_refl, Hx; reflexivity).
      destruct (IH _ _ _ H1) as [y [Hy E]]. exists y. split; [exact Hy|].
      rewrite E, senders_fire. unfold cnt. lia.
    + assert (H1 : nth_error (app_chan chan_fire chs r) ch = Some x).
      { rewrite nth_error_app_chan. apply Nat.eqb_neq in Hne. rewrite Hne. exact Hx. }
      destruct (IH _ _ _ H1) as [y [Hy E]]. exists y. split; [exact Hy | exact E].
Qed.

(* ---- the environment operations *)
Lemma acct_keep : forall s c cd cd',
  acct s -> nth_error (conds (w_sys s)) c = Some cd -> c_registered cd' = c_registered cd ->
  acct (mkW (mkSys (upd (conds (w_sys s)) c cd') (chans (w_sys s))) (w_waiters s)).
Proof.
  intros s c cd cd' [A V] Hc Hr. split; cbn [w_sys w_waiters conds chans].
  - intros ch x Hx. rewrite (A ch x Hx).
    pose proof (occ_upd _ _ _ cd' ch Hc) as E. rewrite Hr in E. lia.
  - intros k cdk ch. rewrite nth_error_upd. destruct (Nat.eqb_spec c k) as [->|_].
    + rewrite Hc. intro E. injection E as <-. rewrite Hr. apply (V k cd ch Hc).
    + apply V.
Qed.

Lemma acct_fire : forall s c cd cd',
  acct s -> nth_error (conds (w_sys s)) c = Some cd -> c_registered cd' = [] ->
  acct (mkW (mkSys (upd (conds (w_sys s)) c cd') (drain (c_registered cd) (chans (w_sys s)))) (w_waiters s)).
Proof.
  intros s c cd cd' [A V] Hc Hr. split; cbn [w_sys w_waiters conds chans].
  - intros ch y Hy.
    destruct (nth_error (chans (w_sys s)) ch) as [x|] eqn:Hx.
    + destruct (drain_senders (c_registered cd) _ ch x Hx) as [y' [Hy' E]].
      assert (y' = y) by congruence. subst y'. rewrite E, (A ch x Hx).
      pose proof (occ_upd _ _ _ cd' ch Hc) as E2. rewrite Hr in E2. cbn in E2. lia.
    + apply nth_error_None in Hx. assert (ch < length (drain (c_registered cd) (chans (w_sys s))))
        by (apply nth_error_Some; congruence). rewrite drain_length in H. lia.
  - intros k cdk ch. rewrite nth_error_upd, drain_length. destruct (Nat.eqb_spec c k) as [->|_].
    + rewrite Hc. intro E. injection E as <-. rewrite Hr. intros [].
    + apply V.
Qed.

Lemma acct_sys_add : forall s c k, acct s -> acct (mkW (sys_add (w_sys s) c k) (w_waiters s)).
Proof.
  intros s c k H. unfold sys_add, with_cond. destruct (nth_error (conds (w_sys s)) c) as [cd|] eqn:Hc.
  - cbn [c_enabled c_changes c_registered]. destruct (cond_trigger _).
    + apply (acct_fire s c cd); auto.
    + apply (acct_keep s c cd); auto.
  - destruct s as [[cs chs] ws]. exact H.
Qed.

Lemma acct_sys_remove : forall s c k, acct s -> acct (mkW (sys_remove (w_sys s) c k) (w_waiters s)).
Proof.
  intros s c k H. unfold sys_remove, with_cond. destruct (nth_error (conds (w_sys s)) c) as [cd|] eqn:Hc.
  - apply (acct_keep s c cd); auto.
  - destruct s as [[cs chs] ws]. exact H.
Qed.

Lemma acct_sys_set_enabled : forall fx s c m,
  acct s -> acct (mkW (sys_set_enabled fx (w_sys s) c m) (w_waiters s)).
Proof.
  intros fx s c m H. unfold sys_set_enabled, with_cond.
  destruct (nth_error (conds (w_sys s)) c) as [cd|] eqn:Hc.
  - cbn [c_enabled c_changes c_registered]. destruct (fx && cond_trigger _).
    + apply (acct_fire s c cd); auto.
    + apply (acct_keep s c cd); auto.
  - destruct s as [[cs chs] ws]. exact H.
Qed.

(* ---- the steps of a waiter *)
(* registering a clone of the waiter's own sender: the owner count is unchanged *)
Lemma acct_register : forall s c ch ws',
  acct s -> ch < length (chans (w_sys s)) ->
  (forall k, owner ws' k = owner (w_waiters s) k) ->
  acct (mkW (sys_register (w_sys s) c ch) ws').
Proof.
  intros s c ch ws' [A V] Hlt Ho. unfold sys_register, with_cond.
  destruct (nth_error (conds (w_sys s)) c) as [cd|] eqn:Hc.
  - destruct (cond_trigger cd).
    + split; cbn [w_sys w_waiters conds chans].
      * intros k y. rewrite !nth_error_app_chan. rewrite Ho.
        destruct (Nat.eqb ch k); [|apply A].
        destruct (nth_error (chans (w_sys s)) k) as [x|] eqn:Hx; [|discriminate].
        cbn [option_map]. intro E. injection E as <-. rewrite senders_fire. cbn [chan_clone senders].
        rewrite (A k x Hx). lia.
      * intros k cdk j Hk Hj. rewrite !app_chan_length. eapply V; eassumption.
    + split; cbn [w_sys w_waiters conds chans].
      * intros k y. rewrite nth_error_app_chan, Ho.
        pose proof (occ_upd _ _ _ (mkCond (c_enabled cd) (c_changes cd) (c_registered cd ++ [ch])) k Hc) as E2.
        cbn [c_registered] in E2. rewrite cnt_app in E2.
        destruct (Nat.eqb_spec ch k) as [->|Hne].
        -- destruct (nth_error (chans (w_sys s)) k) as [x|] eqn:Hx; [|discriminate].
           cbn [option_map]. intro E. injection E as <-. cbn [chan_clone senders].
           rewrite (A k x Hx). lia.
        -- intro Hy. rewrite (A k y Hy). lia.
      * intros k cdk j. rewrite nth_error_upd, app_chan_length. destruct (Nat.eqb_spec c k) as [->|_].
        -- rewrite Hc. intro E. injection E as <-. cbn [c_registered]. intro Hj.
           apply in_app_or in Hj. destruct Hj as [Hj|[<-|[]]]; [eapply V; eassumption | exact Hlt].
        -- apply V.
  - split; cbn [w_sys w_waiters]; [intros k y Hy; rewrite Ho; apply A, Hy | apply V].
Qed.

(* the owner drops its sender and stops owning the channel *)
Lemma acct_release : forall s w wt wt',
  acct s -> nth_error (w_waiters s) w = Some wt ->
  has_chan (w_pc wt) = true -> has_chan (w_pc wt') = false ->
  acct (mkW (sys_drop (w_sys s) (w_ch wt)) (upd (w_waiters s) w wt')).
Proof.
  intros s w wt wt' [A V] Hw Hh Hh'. split; cbn [w_sys w_waiters conds chans sys_drop].
  - intros k y. rewrite nth_error_app_chan.
    pose proof (owner_upd _ _ _ wt' k Hw) as E. unfold ind in E. rewrite Hh, Hh' in E. cbn [andb] in E.
    destruct (Nat.eqb (w_ch wt) k).
    + destruct (nth_error (chans (w_sys s)) k) as [x|] eqn:Hx; [|discriminate].
      cbn [option_map]. intro X. injection X as <-. rewrite senders_drop, (A k x Hx). lia.
    + intro Hy. rewrite (A k y Hy). lia.
  - intros k cdk j Hk Hj. rewrite app_chan_length. eapply V; eassumption.
Qed.

(* a step that keeps the shared state and does not change who owns what *)
Lemma acct_same : forall s w wt wt',
  acct s -> nth_error (w_waiters s) w = Some wt ->
  (forall k, ind wt' k = ind wt k) ->
  acct (mkW (w_sys s) (upd (w_waiters s) w wt')).
Proof.
  intros s w wt wt' [A V] Hw Hi. split; cbn [w_sys w_waiters]; [|exact V].
  intros k y Hy. pose proof (owner_upd _ _ _ wt' k Hw) as E. rewrite Hi in E. rewrite (A k y Hy). lia.
Qed.

Lemma ind_nochan : forall wt k, has_chan (w_pc wt) = false -> ind wt k = 0.
Proof. intros wt k H. unfold ind. rewrite H. reflexivity. Qed.

Lemma owner_same_upd : forall ws w wt wt',
  nth_error ws w = Some wt -> (forall k, ind wt' k = ind wt k) ->
  forall k, owner (upd ws w wt') k = owner ws k.
Proof. intros ws w wt wt' Hw Hi k. pose proof (owner_upd _ _ _ wt' k Hw) as E. rewrite Hi in E. lia. Qed.

Lemma acct_poll : forall s ch ws',
  acct s -> (forall k, owner ws' k = owner (w_waiters s) k) ->
  acct (mkW (fst (sys_poll (w_sys s) ch)) ws').
Proof.
  intros s ch ws' [A V] Ho. unfold sys_poll.
  destruct (nth_error (chans (w_sys s)) ch) as [x|] eqn:Hx.
  - destruct (chan_poll x) as [x' o] eqn:P. cbn [fst]. split; cbn [w_sys w_waiters conds chans].
    + intros k y. rewrite nth_error_upd, Ho. destruct (Nat.eqb_spec ch k) as [->|_]; [|apply A].
      rewrite Hx. intro E. injection E as <-. rewrite <- (A k x Hx).
      unfold chan_poll in P. destruct (notified x); [|destruct (Nat.eqb (senders x) 0)]; injection P as <- _; reflexivity.
    + intros k cdk j Hk Hj. rewrite upd_length. eapply V; eassumption.
  - cbn [fst]. split; cbn [w_sys w_waiters]; [intros k y Hy; rewrite Ho; apply A, Hy | exact V].
Qed.

Theorem wstep_acct : forall fx s o, w_inv s -> acct s -> acct (wstep fx s o).
Proof.
  intros fx s o Hinv Ha. pose proof Hinv as [_ [_ [H3 H4]]]. pose proof Ha as [A V].
  destruct o as [c k|c k|c l|c|w cs|w|w|w]; cbn [wstep].
  - apply acct_sys_add, Ha.
  - apply acct_sys_remove, Ha.
  - apply acct_sys_set_enabled, Ha.
  - exact Ha.
  - (* WStart *)
    destruct (nth_error (w_waiters s) w) as [wt|] eqn:Hw; [|exact Ha].
    destruct (is_running (w_pc wt)) eqn:R; [exact Ha|].
    apply (acct_same s w wt); auto. intro k. rewrite !ind_nochan; auto.
    + destruct (w_pc wt); try reflexivity; discriminate.
    + destruct cs; reflexivity.
  - (* WStep *)
    destruct (nth_error (w_waiters s) w) as [wt|] eqn:Hw; [|exact Ha].
    destruct (H3 _ _ Hw) as [Hok Hlen]. unfold pc_ok in Hok.
    unfold waiter_step. destruct (w_pc wt) as [|t acc|t| |t acc|r] eqn:P.
    + apply (acct_same s w wt); auto.
    + (* Check1 *)
      destruct t as [|c t]; [apply (acct_same s w wt); auto|].
      destruct t as [|c2 t].
      * destruct (if sys_trigger (w_sys s) c then acc ++ [c] else acc) eqn:Eacc.
        -- (* new channel *)
           split; cbn [w_sys w_waiters conds chans].
           ++ intros k y Hy.
              pose proof (owner_upd _ _ _ (mkWaiter (w_att wt) (Reg (w_att wt)) (length (chans (w_sys s)))) k Hw) as E.
              rewrite (ind_nochan wt) in E by (rewrite P; reflexivity).
              unfold ind in E. cbn [w_pc w_ch has_chan andb] in E.
              destruct (Nat.lt_ge_cases k (length (chans (w_sys s)))) as [Hk|Hk].
              ** rewrite nth_error_app1 in Hy by exact Hk.
                 destruct (Nat.eqb_spec (length (chans (w_sys s))) k); [lia|]. rewrite (A k y Hy). lia.
              ** rewrite nth_error_app2 in Hy by exact Hk.
                 destruct (k - length (chans (w_sys s))) as [|d] eqn:D; [|destruct d; discriminate].
                 cbn in Hy. injection Hy as <-. assert (k = length (chans (w_sys s))) by lia. subst k.
                 rewrite Nat.eqb_refl in E. cbn [chan_new senders].
                 assert (O1 : owner (w_waiters s) (length (chans (w_sys s))) = 0).
                 { apply owner_zero. intros w' wt' Hw' Hh'. destruct (H3 _ _ Hw') as [_ L]. specialize (L Hh'). lia. }
                 assert (O2 : occ (conds (w_sys s)) (length (chans (w_sys s))) = 0).
                 { apply occ_zero. intros c' cd' Hc' Hin. specialize (V _ _ _ Hc' Hin). lia. }
                 lia.
           ++ intros k cdk j Hk Hj. rewrite app_length. specialize (V _ _ _ Hk Hj). lia.
        -- apply (acct_same s w wt); auto. intro k. rewrite !ind_nochan; auto. rewrite P. reflexivity.
      * apply (acct_same s w wt); auto. intro k. rewrite !ind_nochan; auto. rewrite P. reflexivity.
    + (* Reg *)
      destruct t as [|c t]; [apply (acct_same s w wt); auto|].
      apply acct_register; [exact Ha | apply Hlen; reflexivity|].
      apply (owner_same_upd _ _ wt _ Hw). intro k. unfold ind. rewrite P. cbn [w_pc w_ch].
      destruct t; reflexivity.
    + (* Await *)
      pose proof (acct_poll s (w_ch wt)) as Hp.
      destruct (sys_poll (w_sys s) (w_ch wt)) as [s' o] eqn:Sp. cbn [fst] in Hp.
      destruct o.
      * apply Hp; [exact Ha|]. apply (owner_same_upd _ _ wt _ Hw). intro k. unfold ind. rewrite P. reflexivity.
      * apply Hp; [exact Ha|]. apply (owner_same_upd _ _ wt _ Hw). intro k. reflexivity.
      * (* closed: poll, then the sender is dropped *)
        assert (Ha1 : acct (mkW s' (w_waiters s))) by (apply Hp; auto).
        apply (acct_release (mkW s' (w_waiters s)) w wt); auto. rewrite P. reflexivity.
    + (* Check2 *)
      destruct t as [|c t]; [apply (acct_same s w wt); auto|].
      destruct t as [|c2 t].
      * apply (acct_release s w wt); auto. rewrite P. reflexivity.
      * apply (acct_same s w wt); auto. intro k. unfold ind. rewrite P. reflexivity.
    + apply (acct_same s w wt); auto.
  - (* WCancel *)
    destruct (nth_error (w_waiters s) w) as [wt|] eqn:Hw; [|exact Ha].
    destruct (is_running (w_pc wt)) eqn:R; [|exact Ha].
    destruct (has_chan (w_pc wt)) eqn:Hh.
    + apply (acct_release s w wt); auto.
    + apply (acct_same s w wt); auto. intro k. rewrite !ind_nochan; auto.
  - (* WTake *)
    destruct (nth_error (w_waiters s) w) as [wt|] eqn:Hw; [|exact Ha].
    destruct (w_pc wt) eqn:P; try exact Ha.
    apply (acct_same s w wt); auto. intro k. rewrite !ind_nochan; auto. rewrite P. reflexivity.
Qed.

Lemma w_init_acct : forall nc nw, acct (w_init nc nw).
Proof.
  intros nc nw. split; cbn [w_init w_sys w_waiters sys_init chans conds].
  - intros ch x H. destruct ch; discriminate.
  - intros c cd ch H Hin. apply nth_error_In, repeat_spec in H. subst. destruct Hin.
Qed.

Lemma wrun_inv_acct : forall fx ops s,
  w_d6_free fx s ops = true -> w_inv s -> acct s ->
  w_inv (wrun fx s ops) /\ acct (wrun fx s ops).
Proof.
  intros fx. induction ops as [|o t IH]; intros s Hf Hs Ha; cbn [wrun fold_left]; [auto|].
  cbn [w_d6_free] in Hf. apply andb_true_iff in Hf. destruct Hf as [Ho Ht].
  apply negb_true_iff in Ho. apply IH; [assumption | apply wstep_inv; assumption | apply wstep_acct; assumption].
Qed.

(* a running wait call always holds a sender of its channel *)
Theorem owner_holds_a_sender : forall fx nc nw ops,
  w_d6_free fx (w_init nc nw) ops = true ->
  forall w wt, nth_error (w_waiters (wrun fx (w_init nc nw) ops)) w = Some wt ->
    has_chan (w_pc wt) = true ->
    exists x, nth_error (chans (w_sys (wrun fx (w_init nc nw) ops))) (w_ch wt) = Some x /\ 1 <= senders x.
Proof.
  intros fx nc nw ops Hf w wt Hw Hh.
  destruct (wrun_inv_acct fx ops _ Hf (w_init_inv nc nw) (w_init_acct nc nw)) as [[_ [_ [H3 _]]] [A _]].
  destruct (H3 _ _ Hw) as [_ Hl]. specialize (Hl Hh).
  destruct (nth_error (chans (w_sys (wrun fx (w_init nc nw) ops))) (w_ch wt)) as [x|] eqn:Hx;
    [|apply nth_error_None in Hx; lia].
  exists x. split; [reflexivity|]. rewrite (A _ _ Hx).
  assert (1 <= owner (w_waiters (wrun fx (w_init nc nw) ops)) (w_ch wt)); [|lia].
  clear - Hw Hh. revert w Hw. induction (w_waiters (wrun fx (w_init nc nw) ops)) as [|h t IH]; intros [|w] Hw; cbn in *; try discriminate.
  - injection Hw as ->. unfold ind. rewrite Hh, Nat.eqb_refl. cbn. lia.
  - specialize (IH _ Hw). lia.
Qed.

(* hence no wait call ever ends with Err(AlreadyDeleted) *)
Theorem wait_never_already_deleted : forall fx nc nw ops,
  w_d6_free fx (w_init nc nw) ops = true ->
  forall w wt, nth_error (w_waiters (wrun fx (w_init nc nw) ops)) w = Some wt ->
    w_pc wt <> Done (Err 2%Z).
Proof.
  intros fx nc nw ops. induction ops as [|o t IH] using rev_ind; intros Hf w wt Hw.
  - cbn in Hw. apply nth_error_In, repeat_spec in Hw. subst. discriminate.
  - rewrite w_d6_free_app in Hf. apply andb_true_iff in Hf. destruct Hf as [Hf Ho].
    unfold wrun in Hw. rewrite fold_left_app in Hw. cbn [fold_left] in Hw. fold (wrun fx (w_init nc nw) t) in Hw.
    specialize (IH Hf). pose proof (owner_holds_a_sender fx nc nw t Hf) as Hs.
    set (s := wrun fx (w_init nc nw) t) in *.
    destruct o as [c k|c k|c l|c|w2 cs|w2|w2|w2]; cbn [wstep w_waiters] in Hw; try (apply (IH w wt Hw)).
    + destruct (nth_error (w_waiters s) w2) as [wt2|] eqn:E2; [|apply (IH w wt Hw)].
      destruct (is_running (w_pc wt2)); [apply (IH w wt Hw)|]. cbn [w_waiters] in Hw.
      rewrite nth_error_upd in Hw. destruct (Nat.eqb w2 w); [|apply (IH w wt Hw)].
      destruct (nth_error (w_waiters s) w); [|discriminate]. injection Hw as <-. destruct cs; discriminate.
    + destruct (nth_error (w_waiters s) w2) as [wt2|] eqn:E2; [|apply (IH w wt Hw)].
      destruct (waiter_step (w_sys s) wt2) as [sy' wt2'] eqn:St. cbn [w_waiters] in Hw.
      rewrite nth_error_upd in Hw. destruct (Nat.eqb_spec w2 w) as [->|_]; [|apply (IH w wt Hw)].
      rewrite E2 in Hw. injection Hw as <-. specialize (IH w wt2 E2).
      unfold waiter_step in St. destruct (w_pc wt2) as [|t0 acc|t0| |t0 acc|r] eqn:P.
      * injection St as _ <-. rewrite P. discriminate.
      * destruct t0 as [|c0 t0]; [injection St as _ <-; rewrite P; discriminate|].
        destruct t0; [destruct (if sys_trigger (w_sys s) c0 then acc ++ [c0] else acc)|]; injection St as _ <-; discriminate.
      * destruct t0 as [|c0 t0]; injection St as _ <-; [rewrite P; discriminate|]. destruct t0; discriminate.
      * destruct (Hs w wt2 E2 ltac:(rewrite P; reflexivity)) as [x [Hx Hge]].
        unfold sys_poll in St. rewrite Hx in St. unfold chan_poll in St.
        destruct (notified x); [injection St as _ <-; discriminate|].
        destruct (Nat.eqb_spec (senders x) 0); [lia|]. injection St as _ <-. rewrite P. discriminate.
      * destruct t0 as [|c0 t0]; [injection St as _ <-; rewrite P; discriminate|].
        destruct t0; injection St as _ <-; discriminate.
      * injection St as _ <-. rewrite P. exact IH.
    + destruct (nth_error (w_waiters s) w2) as [wt2|] eqn:E2; [|apply (IH w wt Hw)].
      destruct (is_running (w_pc wt2)); [|apply (IH w wt Hw)]. cbn [w_waiters] in Hw.
      rewrite nth_error_upd in Hw. destruct (Nat.eqb w2 w); [|apply (IH w wt Hw)].
      destruct (nth_error (w_waiters s) w); [|discriminate]. injection Hw as <-. discriminate.
    + destruct (nth_error (w_waiters s) w2) as [wt2|] eqn:E2; [|apply (IH w wt Hw)].
      destruct (w_pc wt2) eqn:P; try (apply (IH w wt Hw)). cbn [w_waiters] in Hw.
      rewrite nth_error_upd in Hw. destruct (Nat.eqb w2 w); [|apply (IH w wt Hw)].
      destruct (nth_error (w_waiters s) w); [|discriminate]. injection Hw as <-. discriminate.
Qed.
